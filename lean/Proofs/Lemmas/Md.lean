/- MD4 / MD5: parsing, schedule, rounds and compression of the model equal RFC 1320 / RFC 1321 -/
import Proofs.Lemmas.RoundFns
import Proofs.Lemmas.Parse
namespace Proofs.Lemmas.Md
open Model Model.Py Model.Md Model.Gen.Hashes Proofs.Lemmas.BitsBitVec Proofs.Lemmas.Fold Proofs.Lemmas.Parse Proofs.Lemmas.RoundFns

abbrev State := Spec.Md4.State   -- = Spec.Md5.State

def embH (s : State) : List Bits := [ofBV s.1, ofBV s.2.1, ofBV s.2.2.1, ofBV s.2.2.2]
def emb4 (s : State) : St4 := (ofBV s.1, ofBV s.2.1, ofBV s.2.2.1, ofBV s.2.2.2)

theorem list16 {α} (X : List α) (hX : X.length = 16) :
    ∃ x0 x1 x2 x3 x4 x5 x6 x7 x8 x9 x10 x11 x12 x13 x14 x15,
      X = [x0, x1, x2, x3, x4, x5, x6, x7, x8, x9, x10, x11, x12, x13, x14, x15] := by
  rcases X with _ | ⟨x0, _ | ⟨x1, _ | ⟨x2, _ | ⟨x3, _ | ⟨x4, _ | ⟨x5, _ | ⟨x6, _ | ⟨x7, _ | ⟨x8, _ | ⟨x9, _ | ⟨x10, _ | ⟨x11, _ | ⟨x12, _ | ⟨x13, _ | ⟨x14, _ | ⟨x15, _ | ⟨x16, X⟩⟩⟩⟩⟩⟩⟩⟩⟩⟩⟩⟩⟩⟩⟩⟩⟩
  all_goals try (simp only [List.length_cons, List.length_nil] at hX; omega)
  exact ⟨x0, x1, x2, x3, x4, x5, x6, x7, x8, x9, x10, x11, x12, x13, x14, x15, rfl⟩

/-! ### little-endian parsing: Bits(B,bitorder=1).split(32) -/

theorem chunks_one_go {α} (l : List α) (fuel : Nat) (h : l.length ≤ fuel) :
    chunks.go 1 l fuel = l.map fun x => [x] := by
  induction fuel generalizing l with
  | zero => cases l with
    | nil => rfl
    | cons _ _ => simp at h
  | succ n ih =>
    cases l with
    | nil => rfl
    | cons x xs =>
      simp only [chunks.go, List.isEmpty_cons, Bool.false_eq_true, if_false, List.take_succ_cons, List.take_zero,
        List.drop_succ_cons, List.drop_zero, List.map_cons]
      rw [ih xs (by simpa using h)]

theorem chunks_one {α} (l : List α) : chunks 1 l = l.map fun x => [x] := by
  simp only [chunks, Nat.one_ne_zero, if_false]
  exact chunks_one_go l l.length (Nat.le_refl _)

theorem groupsVal_le (s : List Nat) (hs : ∀ x ∈ s, x < 256) :
    Bits.groupsVal id 1 (s.map fun x => [x]) = leInt s := by
  induction s with
  | nil => rfl
  | cons x xs ih =>
    have hx : x < 2 ^ 8 := hs x (by simp)
    simp only [List.map_cons, Bits.groupsVal, Bits.groupVal, List.foldl_cons, List.foldl_nil, id, Nat.zero_shiftLeft,
      Nat.zero_or, leInt]
    rw [ih (fun y hy => hs y (by simp [hy])), ← Nat.shiftLeft_add_eq_or_of_lt hx, Nat.shiftLeft_eq]
    omega

theorem leInt_lt (s : List Nat) (hs : ∀ x ∈ s, x < 256) : leInt s < 2 ^ (8 * s.length) := by
  induction s with
  | nil => simp [leInt]
  | cons x xs ih =>
    have hx := hs x (by simp)
    have := ih (fun y hy => hs y (by simp [hy]))
    simp only [leInt, List.length_cons]
    have e : 2 ^ (8 * (xs.length + 1)) = 256 * 2 ^ (8 * xs.length) := by
      rw [Nat.mul_add, Nat.pow_add]; simp [Nat.mul_comm]
    omega

theorem leInt_shift (s : List Nat) (hs : ∀ x ∈ s, x < 256) (i : Nat) : leInt s >>> (8 * i) = leInt (s.drop i) := by
  induction i generalizing s with
  | zero => simp
  | succ n ih =>
    cases s with
    | nil => simp [leInt]
    | cons x xs =>
      have hx := hs x (by simp)
      simp only [List.drop_succ_cons]
      rw [← ih xs (fun y hy => hs y (by simp [hy]))]
      simp only [leInt, Nat.shiftRight_eq_div_pow]
      have e : 2 ^ (8 * (n + 1)) = 256 * 2 ^ (8 * n) := by
        rw [Nat.mul_add, Nat.pow_add]; simp [Nat.mul_comm]
      rw [e, ← Nat.div_div_eq_div_mul]
      congr 1
      omega

theorem leInt_mod (s : List Nat) (hs : ∀ x ∈ s, x < 256) (n : Nat) : leInt s % 2 ^ (8 * n) = leInt (s.take n) := by
  induction n generalizing s with
  | zero => simp [leInt, Nat.mod_one]
  | succ k ih =>
    cases s with
    | nil => simp [leInt]
    | cons x xs =>
      have hx := hs x (by simp)
      simp only [List.take_succ_cons, leInt]
      rw [← ih xs (fun y hy => hs y (by simp [hy]))]
      have e : 2 ^ (8 * (k + 1)) = 256 * 2 ^ (8 * k) := by
        rw [Nat.mul_add, Nat.pow_add]; simp [Nat.mul_comm]
      rw [e, Nat.mod_mul, Nat.add_mul_div_left _ _ (by decide : 0 < 256), Nat.add_mul_mod_self_left]
      have h1 : x / 256 = 0 := Nat.div_eq_of_lt hx
      have h2 : x % 256 = x := Nat.mod_eq_of_lt hx
      rw [h1, h2, Nat.zero_add]

theorem parseLE_refines (blk : List Spec.Byte) (h : blk.length = 64) :
    parseLE (toNatBytes blk) = .ok ((Spec.wordsLE 32 blk).map ofBV) := by
  have hs := toNatBytes_lt blk
  have hl : (toNatBytes blk).length = 64 := by simp [h]
  simp only [parseLE, Bits.ofBytes, Bits.load, hl, bind, Except.bind, pure, Except.pure]
  simp only [show ¬ ((1 : Int) < 0) by decide, show ¬ ((1 : Int) = 0) by decide, if_false, Int.natAbs_one, Nat.mod_one,
    ne_eq, not_true_eq_false, chunks_one, groupsVal_le _ hs, Bits.split, show ¬ (32 = 0) by decide]
  simp only [Spec.wordsLE, Spec.groups, h, List.map_map]
  congr 1
  apply List.map_congr_left
  intro j hj
  have hj : j < 16 := by simpa using hj
  have hmin : min (j * 32 + 32) (8 * 64) = j * 32 + 32 := by omega
  simp only [Function.comp, hmin, Bits.sliceFast, Nat.and_two_pow_sub_one_eq_mod]
  have e1 : j * 32 + 32 = 8 * (4 * j + 4) := by omega
  have e2 : j * 32 = 8 * (4 * j) := by omega
  have e3 : j * 32 + 32 - j * 32 = 32 := by omega
  rw [e3, e1, leInt_mod _ hs, e2, leInt_shift _ (fun y hy => hs y (List.mem_of_mem_take hy)), ofNatSz_eq]
  congr 2
  rw [← leInt_toNatBytes]
  congr 1
  simp only [toNatBytes, List.drop_take, ← List.map_drop, ← List.map_take]
  have e4 : 4 * j + 4 - 4 * j = 32 / 8 := by omega
  have e5 : 4 * j = j * (32 / 8) := by omega
  rw [e4, e5]

theorem wordsLE_length (w : Nat) (blk : List Spec.Byte) : (Spec.wordsLE w blk).length = blk.length / (w / 8) := by
  simp [Spec.wordsLE, Spec.groups]

/-! ### the register rotation: the code renames (a,b,c,d) := (d,T,b,c) after every operation, the RFCs rotate the roles -/

def rot (j : Nat) (s : State) : State :=
  match j % 4 with
  | 0 => (s.1, s.2.1, s.2.2.1, s.2.2.2)
  | 1 => (s.2.2.2, s.1, s.2.1, s.2.2.1)
  | 2 => (s.2.2.1, s.2.2.2, s.1, s.2.1)
  | _ => (s.2.1, s.2.2.1, s.2.2.2, s.1)

/-- one operation of the RFC seen through the rotation: the tuple (a,b,c,d) of the code becomes (d, new, b, c) -/
theorem rot_step (op : Nat → BitVec 32 → BitVec 32 → BitVec 32 → BitVec 32 → BitVec 32)
    (step : State → Nat → State)
    (hstep : ∀ s i, step s i = match i % 4 with
      | 0 => (op i s.1 s.2.1 s.2.2.1 s.2.2.2, s.2.1, s.2.2.1, s.2.2.2)
      | 1 => (s.1, s.2.1, s.2.2.1, op i s.2.2.2 s.1 s.2.1 s.2.2.1)
      | 2 => (s.1, s.2.1, op i s.2.2.1 s.2.2.2 s.1 s.2.1, s.2.2.2)
      | _ => (s.1, op i s.2.1 s.2.2.1 s.2.2.2 s.1, s.2.2.1, s.2.2.2))
    (s : State) (i : Nat) :
    rot (i + 1) (step s i) =
      ((rot i s).2.2.2, op i (rot i s).1 (rot i s).2.1 (rot i s).2.2.1 (rot i s).2.2.2, (rot i s).2.1, (rot i s).2.2.1) := by
  obtain ⟨A, B, C, D⟩ := s
  rw [hstep]
  have h4 : i % 4 = 0 ∨ i % 4 = 1 ∨ i % 4 = 2 ∨ i % 4 = 3 := by omega
  rcases h4 with h | h | h | h
  · have h' : (i + 1) % 4 = 1 := by omega
    simp only [rot, h, h']
  · have h' : (i + 1) % 4 = 2 := by omega
    simp only [rot, h, h']
  · have h' : (i + 1) % 4 = 3 := by omega
    simp only [rot, h, h']
  · have h' : (i + 1) % 4 = 0 := by omega
    simp only [rot, h, h']

/-- the loop of the code and the loop of the RFC:  a multiple of 4 -/
theorem loop_refines (op : Nat → BitVec 32 → BitVec 32 → BitVec 32 → BitVec 32 → BitVec 32)
    (step : State → Nat → State)
    (hstep : ∀ s i, step s i = match i % 4 with
      | 0 => (op i s.1 s.2.1 s.2.2.1 s.2.2.2, s.2.1, s.2.2.1, s.2.2.2)
      | 1 => (s.1, s.2.1, s.2.2.1, op i s.2.2.2 s.1 s.2.1 s.2.2.1)
      | 2 => (s.1, s.2.1, op i s.2.2.1 s.2.2.2 s.1 s.2.1, s.2.2.2)
      | _ => (s.1, op i s.2.1 s.2.2.1 s.2.2.2 s.1, s.2.2.1, s.2.2.2))
    (round : St4 → Nat → St4) (n : Nat) (hn : n % 4 = 0)
    (hround : ∀ i, i < n → ∀ a b c d : BitVec 32,
      round (emb4 (a, b, c, d)) i = emb4 (d, op i a b c d, b, c))
    (s : State) :
    (List.range n).foldl round (emb4 s) = emb4 ((List.range n).foldl step s) := by
  have key := foldl_range_rel (fun j (m : St4) (t : State) => m = emb4 (rot j t)) round step n (emb4 s) s
    (by obtain ⟨A, B, C, D⟩ := s; rfl)
    (by
      intro i hi m t hm
      subst hm
      rw [rot_step op step hstep t i]
      obtain ⟨a, b, c, d⟩ := rot i t
      exact hround i hi a b c d)
  rw [key]
  generalize (List.range n).foldl step s = t
  obtain ⟨A, B, C, D⟩ := t
  simp only [rot, hn]

end Proofs.Lemmas.Md
