/-
  Byte-level facts linking the word-level keystream to the byte-level specifications: the counter words, VariantSpec
  instances for the two ciphers.
-/
import Proofs.Lemmas.StreamEnc
namespace Proofs.Lemmas.SalsaBytes
open Model Proofs.Lemmas.StreamPoly Proofs.Lemmas.SalsaRounds Proofs.Lemmas.StreamEnc

theorem salsa_coreWords_length (n : Nat) (ws : List Word) (h : ws.length = 16) :
    (Spec.Salsa20.coreWords n ws).length = 16 := by
  simp only [Spec.Salsa20.coreWords, List.length_zipWith, salsa_iter_length n ws h, h, Nat.min_self]

theorem chacha_coreWords_length (n : Nat) (ws : List Word) (h : ws.length = 16) :
    (Spec.Chacha.coreWords n ws).length = 16 := by
  simp only [Spec.Chacha.coreWords, List.length_zipWith, chacha_iter_length n ws h, h, Nat.min_self]

theorem salsaSpec : VariantSpec Salsa.salsa Spec.Salsa20.coreWords where
  hcore := fun n ws h => salsa_core n ws h
  hlen := salsa_coreWords_length
  hc := by decide
  hn := by decide

theorem chachaSpec : VariantSpec Chacha.chacha Spec.Chacha.coreWords where
  hcore := fun n ws h => chacha_core n ws h
  hlen := chacha_coreWords_length
  hc := by decide
  hn := by decide

/-- the 8-byte little-endian block counter of the specifications, read as two words: `i mod 2^32` and `i / 2^32` -/
theorem words_le64 (i : Nat) :
    Spec.Salsa20.words (Spec.Salsa20.le64 i) = [BitVec.ofNat 32 (i % 2 ^ 32), BitVec.ofNat 32 (i / 2 ^ 32)] := by
  have hr : List.range 8 = [0, 1, 2, 3, 4, 5, 6, 7] := by decide
  simp only [Spec.Salsa20.le64, hr, List.map_cons, List.map_nil, Spec.Salsa20.words, Spec.Salsa20.littleendian,
    BitVec.toNat_ofNat, List.cons.injEq, and_true]
  constructor <;> (apply BitVec.eq_of_toNat_eq; simp only [BitVec.toNat_ofNat]; omega)

end Proofs.Lemmas.SalsaBytes
