/-
  Lemmas for C04, part 6: the per-call rate of `Keccak.__call__`.  The body of the call (`callAt`) reads the width,
  the round count, the bit-order mode and the output length of the object but never its rate, so a call at the
  per-call rate r is the call of an object constructed with rate r.
-/
import Model.Keccak
namespace Proofs.Lemmas.KeccakRate
open Model Model.Keccak

theorem squeezeLoop_rate_irrelevant (c : Cfg) (r' r d : Nat) :
    ∀ (fuel : Nat) (S : Lanes) (Z : Bits),
      squeezeLoop { c with r := r' } r d fuel S Z = squeezeLoop c r d fuel S Z := by
  intro fuel
  induction fuel with
  | zero => intro S Z; rfl
  | succ fuel ih =>
    intro S Z
    simp only [squeezeLoop]
    split
    · cases dump c.w (f c.w c.n S) r with
      | error e => rfl
      | ok z => simp only [bind, Except.bind]; exact ih _ _
    · rfl

/-- the body of `__call__` does not read the object's own rate -/
theorem callAt_rate_irrelevant (c : Cfg) (r' r : Nat) (M : List Nat) (bitlen : Option Nat) :
    callAt { c with r := r' } r M bitlen = callAt c r M bitlen := by
  obtain ⟨b, w, n, r0, outlen, dup⟩ := c
  simp only [callAt]
  cases iterblocks r dup M bitlen with
  | error e => rfl
  | ok blocks =>
    simp only [bind, Except.bind]
    have ha : absorb { b := b, w := w, n := n, r := r', outlen := outlen, duplexing := dup } (zero w) blocks
        = absorb { b := b, w := w, n := n, r := r0, outlen := outlen, duplexing := dup } (zero w) blocks := rfl
    rw [ha]
    cases dump w (absorb { b := b, w := w, n := n, r := r0, outlen := outlen, duplexing := dup } (zero w) blocks) r with
    | error e => rfl
    | ok Z =>
      cases outlen with
      | none => rfl
      | some d =>
        have hs := squeezeLoop_rate_irrelevant { b := b, w := w, n := n, r := r0, outlen := some d, duplexing := dup } r' r d d
          (absorb { b := b, w := w, n := n, r := r0, outlen := some d, duplexing := dup } (zero w) blocks) Z
        simp only [] at hs ⊢
        rw [hs]

/-- a call with the valid per-call rate r is the plain call of the same object constructed with rate r -/
theorem callR_eq_call (c : Cfg) (r : Nat) (h0 : 0 < r) (hr : r ≤ 1536) (M : List Nat) (bitlen : Option Nat) :
    callR c M bitlen (some r) = (c, call { c with r := r } M bitlen) := by
  have h1 : ¬ r > 1536 := by omega
  have h2 : ¬ r = 0 := by omega
  simp only [callR, callRate, h1, if_false, call, h2, bind, Except.bind, callAt_rate_irrelevant]

end Proofs.Lemmas.KeccakRate
