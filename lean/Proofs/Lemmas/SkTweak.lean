/-
  The Tweak class: closed forms of the slice getters / setters on a 128-bit Bits.
-/
import Model.Skein
namespace Proofs.Lemmas.SkTweak
open Model

theorem sliceIndices_nat (a b n : Nat) (ha : a ≤ n) (hb : b ≤ n) :
    Py.sliceIndices (some (a : Int)) (some (b : Int)) none n = .ok ((a : Int), (b : Int), 1) := by
  unfold Py.sliceIndices
  simp only [Option.getD_none, show ¬ ((1 : Int) = 0) by decide, ite_false, show ¬ ((1 : Int) < 0) by decide]
  have h1 : ¬ ((a : Int) < 0) := by omega
  have h2 : ¬ ((a : Int) > (n : Int)) := by omega
  have h3 : ¬ ((b : Int) < 0) := by omega
  have h4 : ¬ ((b : Int) > (n : Int)) := by omega
  simp only [h1, h2, h3, h4, ite_false]

/-- `self[a:b].int()` on a Bits of `n` bits = the field value -/
theorem getField_eq (iv n a b : Nat) (hab : a ≤ b) (hb : b ≤ n) :
    Skein.getField ⟨iv, n⟩ a b = .ok (iv % 2 ^ b / 2 ^ a % 2 ^ (b - a)) := by
  unfold Skein.getField Bits.getSlice
  rw [sliceIndices_nat a b n (by omega) hb]
  have : ((1 : Int) = 1 ∧ (b : Int) ≥ (a : Int)) := ⟨rfl, by omega⟩
  simp only [bind, Except.bind, this, and_self, ite_true, pure, Except.pure, Int.toNat_natCast, Bits.sliceFast, Bits.ofNatSz,
    Bits.mask, Nat.and_two_pow_sub_one_eq_mod, Nat.shiftRight_eq_div_pow, Nat.mod_mod]

/-- `self[a:b] = v` (fast path, a < b) -/
theorem setField_raw (iv n a b v : Nat) (hab : a < b) (hb : b ≤ n) :
    Skein.setField ⟨iv, n⟩ a b v =
      .ok ⟨(iv &&& ((2 ^ n - 1) ^^^ (2 ^ b - 1) ^^^ (2 ^ a - 1))) ||| (v <<< a), n⟩ := by
  unfold Skein.setField Bits.setSlice
  rw [sliceIndices_nat a b n (by omega) hb]
  have : ((1 : Int) = 1 ∧ (b : Int) > (a : Int)) := ⟨rfl, by omega⟩
  simp only [bind, Except.bind, this, and_self, ite_true, pure, Except.pure, Int.toNat_natCast, Bits.mask, Bits.ofNat]


theorem testBit_ge_false {x n j : Nat} (hx : x < 2 ^ n) (hj : n ≤ j) : x.testBit j = false :=
  Nat.testBit_lt_two_pow (Nat.lt_of_lt_of_le hx (Nat.pow_le_pow_right (by decide) hj))

/-- arithmetic form of the slice assignment: the field [a,b) is replaced by v, everything else stays -/
theorem setval_eq (iv n a b v : Nat) (hab : a < b) (hb : b ≤ n) (hiv : iv < 2 ^ n) (hv : v < 2 ^ (b - a)) :
    (iv &&& ((2 ^ n - 1) ^^^ (2 ^ b - 1) ^^^ (2 ^ a - 1))) ||| (v <<< a) = 2 ^ b * (iv / 2 ^ b) + (2 ^ a * v + iv % 2 ^ a) := by
  have hlo : iv % 2 ^ a < 2 ^ a := Nat.mod_lt _ (Nat.two_pow_pos _)
  have hmid : 2 ^ a * v + iv % 2 ^ a < 2 ^ b := by
    have : 2 ^ b = 2 ^ a * 2 ^ (b - a) := by rw [← Nat.pow_add]; congr 1; omega
    rw [this]
    calc 2 ^ a * v + iv % 2 ^ a < 2 ^ a * v + 2 ^ a := by omega
      _ = 2 ^ a * (v + 1) := by rw [Nat.mul_add, Nat.mul_one]
      _ ≤ 2 ^ a * 2 ^ (b - a) := Nat.mul_le_mul_left _ hv
  apply Nat.eq_of_testBit_eq
  intro j
  rw [Nat.testBit_two_pow_mul_add _ hmid, Nat.testBit_two_pow_mul_add _ hlo, Nat.testBit_or, Nat.testBit_and, Nat.testBit_xor,
      Nat.testBit_xor, Nat.testBit_two_pow_sub_one, Nat.testBit_two_pow_sub_one, Nat.testBit_two_pow_sub_one,
      Nat.testBit_shiftLeft, Nat.testBit_div_two_pow, Nat.testBit_mod_two_pow]
  by_cases h1 : j < a
  · have h2 : j < b := by omega
    have h3 : j < n := by omega
    have h4 : ¬ (j ≥ a) := by omega
    simp [h1, h2, h3, h4]
  · by_cases h2 : j < b
    · have h3 : j < n := by omega
      have h4 : j ≥ a := by omega
      simp [h1, h2, h3, h4]
    · have h4 : j ≥ a := by omega
      have hvf : v.testBit (j - a) = false := testBit_ge_false hv (by omega)
      by_cases h3 : j < n
      · simp [h1, h2, h3, h4, hvf]; congr 1; omega
      · have hif : iv.testBit j = false := testBit_ge_false hiv (by omega)
        have hif2 : iv.testBit (j - b + b) = false := by rw [Nat.sub_add_cancel (by omega)]; exact hif
        simp [h1, h2, h3, h4, hvf, hif, hif2]

/-- the setter, arithmetic form -/
theorem setField_eq (iv n a b v : Nat) (hab : a < b) (hb : b ≤ n) (hiv : iv < 2 ^ n) (hv : v < 2 ^ (b - a)) :
    Skein.setField ⟨iv, n⟩ a b v = .ok ⟨2 ^ b * (iv / 2 ^ b) + (2 ^ a * v + iv % 2 ^ a), n⟩ := by
  rw [setField_raw iv n a b v hab hb, setval_eq iv n a b v hab hb hiv hv]


/-! ### the six fields, concrete -/

theorem getPosition_eq (T : Nat) : Skein.getPosition ⟨T, 128⟩ = .ok (T % 2 ^ 96) := by
  unfold Skein.getPosition
  rw [getField_eq T 128 0 96 (by decide) (by decide)]
  congr 1
  have : T % 2 ^ 96 < 2 ^ 96 := Nat.mod_lt _ (Nat.two_pow_pos _)
  simp only [Nat.pow_zero, Nat.div_one, Nat.sub_zero, Nat.mod_mod]

theorem getBitPad_eq (T : Nat) : Skein.getBitPad ⟨T, 128⟩ = .ok (T / 2 ^ 119 % 2) := by
  unfold Skein.getBitPad
  rw [getField_eq T 128 119 120 (by decide) (by decide)]
  congr 1
  omega

theorem getFirst_eq (T : Nat) : Skein.getFirst ⟨T, 128⟩ = .ok (T / 2 ^ 126 % 2) := by
  unfold Skein.getFirst
  rw [getField_eq T 128 126 127 (by decide) (by decide)]
  congr 1
  omega

theorem getFinal_eq (T : Nat) : Skein.getFinal ⟨T, 128⟩ = .ok (T / 2 ^ 127 % 2) := by
  unfold Skein.getFinal
  rw [getField_eq T 128 127 128 (by decide) (by decide)]
  congr 1
  omega

theorem getTreeLevel_eq (T : Nat) : Skein.getTreeLevel ⟨T, 128⟩ = .ok (T / 2 ^ 112 % 2 ^ 7) := by
  unfold Skein.getTreeLevel
  rw [getField_eq T 128 112 119 (by decide) (by decide)]
  congr 1
  omega

theorem setPosition_eq (T v : Nat) (hT : T < 2 ^ 128) (hv : v < 2 ^ 96) :
    Skein.setPosition ⟨T, 128⟩ v = .ok ⟨2 ^ 96 * (T / 2 ^ 96) + v, 128⟩ := by
  unfold Skein.setPosition
  rw [setField_eq T 128 0 96 v (by decide) (by decide) hT hv]
  simp only [Nat.pow_zero, Nat.one_mul, Nat.mod_one, Nat.add_zero]

theorem setFirst_eq (T v : Nat) (hT : T < 2 ^ 128) (hv : v < 2) :
    Skein.setFirst ⟨T, 128⟩ v = .ok ⟨2 ^ 127 * (T / 2 ^ 127) + (2 ^ 126 * v + T % 2 ^ 126), 128⟩ := by
  unfold Skein.setFirst
  rw [setField_eq T 128 126 127 v (by decide) (by decide) hT (by simpa using hv)]

theorem setFinal_eq (T v : Nat) (hT : T < 2 ^ 128) (hv : v < 2) :
    Skein.setFinal ⟨T, 128⟩ v = .ok ⟨2 ^ 127 * v + T % 2 ^ 127, 128⟩ := by
  unfold Skein.setFinal
  rw [setField_eq T 128 127 128 v (by decide) (by decide) hT (by simpa using hv), Nat.div_eq_of_lt hT]
  simp

theorem setBitPad_eq (T v : Nat) (hT : T < 2 ^ 128) (hv : v < 2) :
    Skein.setBitPad ⟨T, 128⟩ v = .ok ⟨2 ^ 120 * (T / 2 ^ 120) + (2 ^ 119 * v + T % 2 ^ 119), 128⟩ := by
  unfold Skein.setBitPad
  rw [setField_eq T 128 119 120 v (by decide) (by decide) hT (by simpa using hv)]

theorem setTreeLevel_eq (T v : Nat) (hT : T < 2 ^ 128) (hv : v < 2 ^ 7) :
    Skein.setTreeLevel ⟨T, 128⟩ v = .ok ⟨2 ^ 119 * (T / 2 ^ 119) + (2 ^ 112 * v + T % 2 ^ 112), 128⟩ := by
  unfold Skein.setTreeLevel
  rw [setField_eq T 128 112 119 v (by decide) (by decide) hT hv]

theorem setTypeCode_eq (T v : Nat) (hT : T < 2 ^ 128) (hv : v < 2 ^ 6) :
    Skein.setField ⟨T, 128⟩ 120 126 v = .ok ⟨2 ^ 126 * (T / 2 ^ 126) + (2 ^ 120 * v + T % 2 ^ 120), 128⟩ :=
  setField_eq T 128 120 126 v (by decide) (by decide) hT hv

end Proofs.Lemmas.SkTweak
