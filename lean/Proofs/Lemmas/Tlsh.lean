/-
  Helper lemmas about Model.Tlsh for Proofs.C19 (ranges, lengths, the sort, the population gate).
-/
import Model.Tlsh
namespace Proofs.Lemmas.Tlsh
open Model Model.Tlsh Model.Gen.Lsh

theorem pearsonT_length : pearsonT.length = 256 := by decide +kernel

theorem pearson_lt_small : ∀ x < 256, pearson x < 256 := by decide +kernel

theorem pearson_lt (x : Nat) : pearson x < 256 := by
  by_cases h : x < 256
  · exact pearson_lt_small x h
  · have : pearsonT.length ≤ x := by rw [pearsonT_length]; omega
    simp [pearson, List.getD_eq_getElem?_getD, List.getElem?_eq_none this]

theorem bMapping4_lt (s a b c : Nat) : bMapping [s, a, b, c] < 256 := by
  simp only [bMapping, List.foldl]; exact pearson_lt _

theorem ckStep_length (d0 d1 s : Nat) (cs : List Nat) : (ckStep d0 d1 s cs).length = cs.length := by
  induction cs generalizing s with
  | nil => rfl
  | cons c cs ih => simp [ckStep, ih]

theorem ckStep_lt (d0 d1 s : Nat) (cs : List Nat) : ∀ x ∈ ckStep d0 d1 s cs, x < 256 := by
  induction cs generalizing s with
  | nil => simp [ckStep]
  | cons c cs ih =>
    intro x hx
    simp only [ckStep, List.mem_cons] at hx
    rcases hx with rfl | hx
    · exact bMapping4_lt _ _ _ _
    · exact ih _ x hx

theorem bump_length (b : List Nat) (i : Nat) : (bump b i).length = b.length := by simp [bump]

theorem foldl_bump_length (cs : List (List Nat)) (b : List Nat) :
    (cs.foldl (fun b c => bump b (bMapping c)) b).length = b.length := by
  induction cs generalizing b with
  | nil => rfl
  | cons c cs ih => simp [List.foldl_cons, ih, bump_length]

/-- what every state reached by `update` satisfies -/
structure StWF (n : Nat) (st : St) : Prop where
  cklen : st.checksum.length = n
  cklt : ∀ x ∈ st.checksum, x < 256
  bklen : st.bucket.length = 256

theorem init_wf (c : Cfg) : StWF c.chklen (St.init c) :=
  ⟨by simp only [St.init, List.length_replicate],
   by intro x hx; simp only [St.init] at hx; rw [(List.mem_replicate.mp hx).2]; omega,
   by simp only [St.init, List.length_replicate]⟩

theorem stepWindow_wf {n : Nat} {st : St} (h : StWF n st) (win : List Nat) : StWF n (stepWindow st win) :=
  ⟨by simp [stepWindow, ckStep_length, h.cklen], by simpa [stepWindow] using ckStep_lt _ _ _ _,
   by simp [stepWindow, foldl_bump_length, h.bklen]⟩

theorem foldl_wf {n : Nat} (ws : List (List Nat)) {st : St} (h : StWF n st) : StWF n (ws.foldl stepWindow st) := by
  induction ws generalizing st with
  | nil => exact h
  | cons w ws ih => exact ih (stepWindow_wf h w)

theorem update_wf (c : Cfg) (data : List Nat) : StWF c.chklen (update c data) := foldl_wf _ (init_wf c)

/-! ### the sort -/

theorem insertSorted_perm (x : Nat) (l : List Nat) : (insertSorted x l).Perm (x :: l) := by
  induction l with
  | nil => simp [insertSorted]
  | cons y ys ih =>
    simp only [insertSorted]
    split
    · exact List.Perm.refl _
    · exact ((List.Perm.cons y ih).trans (List.Perm.swap x y ys))

theorem isort_perm (l : List Nat) : (isort l).Perm l := by
  induction l with
  | nil => exact List.Perm.refl _
  | cons x xs ih => exact (insertSorted_perm x _).trans (List.Perm.cons x ih)

theorem insertSorted_sorted (x : Nat) (l : List Nat) (h : l.Pairwise (· ≤ ·)) : (insertSorted x l).Pairwise (· ≤ ·) := by
  induction l with
  | nil => simp [insertSorted]
  | cons y ys ih =>
    simp only [insertSorted]
    split
    · rename_i hxy
      refine List.Pairwise.cons ?_ h
      intro z hz
      rcases List.mem_cons.mp hz with rfl | hz
      · exact hxy
      · exact Nat.le_trans hxy (List.rel_of_pairwise_cons h hz)
    · rename_i hxy
      have hy : ∀ z ∈ ys, y ≤ z := fun z hz => List.rel_of_pairwise_cons h hz
      refine List.Pairwise.cons ?_ (ih (List.Pairwise.of_cons h))
      intro z hz
      rcases List.mem_cons.mp ((insertSorted_perm x ys).mem_iff.mp hz) with rfl | hz
      · omega
      · exact hy z hz

theorem isort_sorted (l : List Nat) : (isort l).Pairwise (· ≤ ·) := by
  induction l with
  | nil => exact List.Pairwise.nil
  | cons x xs ih => exact insertSorted_sorted x _ ih

theorem isort_length (l : List Nat) : (isort l).length = l.length := (isort_perm l).length_eq

/-- in a sorted list whose entry number p is 0, at most `length - (p+1)` entries are non-zero -/
theorem sorted_zero_prefix (s : List Nat) (hs : s.Pairwise (· ≤ ·)) (p : Nat) (hp : p < s.length) (h0 : s[p] = 0) :
    (s.filter (· ≠ 0)).length ≤ s.length - (p + 1) := by
  have hsplit : s = s.take (p + 1) ++ s.drop (p + 1) := (List.take_append_drop _ _).symm
  have hz : (s.take (p + 1)).filter (· ≠ 0) = [] := by
    rw [List.filter_eq_nil_iff]
    intro a ha
    obtain ⟨i, hi, rfl⟩ := List.getElem_of_mem ha
    have hi' : i < p + 1 := by simp at hi; omega
    have : (s.take (p + 1))[i] = s[i]'(by simp at hi; omega) := by simp
    rw [this]
    have hle : s[i]'(by simp at hi; omega) ≤ s[p] := by
      by_cases hip : i = p
      · subst hip; exact Nat.le_refl _
      · exact (List.pairwise_iff_getElem.mp hs) i p (by simp at hi; omega) hp (by omega)
    simp; omega
  calc (s.filter (· ≠ 0)).length
      = ((s.take (p + 1)).filter (· ≠ 0)).length + ((s.drop (p + 1)).filter (· ≠ 0)).length := by
        rw [← List.length_append, ← List.filter_append, List.take_append_drop]
    _ ≤ 0 + (s.drop (p + 1)).length := by
        rw [hz]; exact Nat.add_le_add_left (List.length_filter_le _ _) _
    _ = s.length - (p + 1) := by simp

theorem nonzero_le_of_quartile_zero (l : List Nat) (p : Nat) (hp : p < l.length) (h0 : (isort l).getD p 0 = 0) :
    (l.filter (· ≠ 0)).length ≤ l.length - (p + 1) := by
  have hp' : p < (isort l).length := by rw [isort_length]; exact hp
  have h0' : (isort l)[p] = 0 := by
    rw [List.getD_eq_getElem?_getD, List.getElem?_eq_getElem hp'] at h0; simpa using h0
  have := sorted_zero_prefix (isort l) (isort_sorted l) p hp' h0'
  rw [isort_length] at this
  calc (l.filter (· ≠ 0)).length = ((isort l).filter (· ≠ 0)).length :=
        ((isort_perm l).filter _).length_eq.symm
    _ ≤ _ := this

/-! ### `final` -/

/-- the object `final` builds when it passes both gates -/
def mkObj (lcap : Nat → Nat) (c : Cfg) (data : List Nat) : TObj :=
  let st := update c data
  let q := quartiles c st.bucket
  { chklen := c.chklen, checksum := st.checksum, lvalue := lcap data.length % 256,
    q1 := q.1 * 100 / q.2.2 % 16, q2 := q.2.1 * 100 / q.2.2 % 16,
    code := bodyCode c q.1 q.2.1 q.2.2 st.bucket }

theorem final_eq (lcap : Nat → Nat) (c : Cfg) (data : List Nat) (force : Bool) :
    final lcap c data force =
      if data.length < 50 ∨ (force = false ∧ data.length < 256) then .ok none
      else if tooFew c.buckets (nonzero c (update c data).bucket) then .ok none
      else if (quartiles c (update c data).bucket).2.2 = 0 then .error "ZeroDivisionError"
      else .ok (some (mkObj lcap c data)) := by
  unfold final mkObj
  simp only [minLen, minLenNoForce]
  rcases hq : quartiles c (update c data).bucket with ⟨q1, q2, q3⟩
  simp only []

theorem valid_cases {c : Cfg} (h : c.valid = true) :
    (c.buckets = 256 ∨ c.buckets = 128 ∨ c.buckets = 48) ∧ (4 ≤ c.window ∧ c.window ≤ 8) ∧ (c.chklen = 1 ∨ c.chklen = 3) := by
  simp [Cfg.valid] at h
  omega

theorem gate_q3_pos {c : Cfg} (hc : c.valid = true) {st : St} (hb : st.bucket.length = 256)
    (hg : tooFew c.buckets (nonzero c st.bucket) = false) : (quartiles c st.bucket).2.2 ≠ 0 := by
  intro h0
  have hv := (valid_cases hc).1
  have hlen : (st.bucket.take c.buckets).length = c.buckets := by
    rw [List.length_take, hb]; omega
  have hp : 3 * c.codesize - 1 < (st.bucket.take c.buckets).length := by
    rw [hlen]; unfold Cfg.codesize; omega
  have := nonzero_le_of_quartile_zero (st.bucket.take c.buckets) (3 * c.codesize - 1) hp (by simpa [quartiles] using h0)
  rw [hlen] at this
  unfold Cfg.codesize at this
  have hn : nonzero c st.bucket ≤ c.buckets - (3 * (c.buckets / 4) - 1 + 1) := this
  generalize nonzero c st.bucket = n at hn hg
  rcases hv with h | h | h <;> simp [tooFew, h] at hg hn <;> omega

/-! ### digest objects, `digest`, `from_hash` -/

/-- a valid digest object of configuration `c`: what `final` and `from_hash` hand out -/
structure ObjWF (c : Cfg) (o : TObj) : Prop where
  chk : o.chklen = c.chklen
  cklen : o.checksum.length = c.chklen
  cklt : ∀ x ∈ o.checksum, x < 256
  lv : o.lvalue < 256
  q1 : o.q1 < 16
  q2 : o.q2 < 16
  codelen : o.code.length = c.codesize
  codelt : ∀ x ∈ o.code, x < 256

theorem quart_le (q1 q2 q3 bv : Nat) : quart q1 q2 q3 bv ≤ 3 := by
  unfold quart; repeat' split
  all_goals omega

theorem codeByte_lt (q1 q2 q3 : Nat) (b : List Nat) (i : Nat) : codeByte q1 q2 q3 b i < 256 := by
  unfold codeByte
  have h0 := quart_le q1 q2 q3 (b.getD (4 * i) 0)
  have h1 := quart_le q1 q2 q3 (b.getD (4 * i + 1) 0)
  have h2 := quart_le q1 q2 q3 (b.getD (4 * i + 2) 0)
  have h3 := quart_le q1 q2 q3 (b.getD (4 * i + 3) 0)
  simp only [Nat.shiftLeft_eq]
  omega

theorem mkObj_wf (lcap : Nat → Nat) (c : Cfg) (data : List Nat) : ObjWF c (mkObj lcap c data) where
  chk := rfl
  cklen := (update_wf c data).cklen
  cklt := (update_wf c data).cklt
  lv := Nat.mod_lt _ (by decide)
  q1 := Nat.mod_lt _ (by decide)
  q2 := Nat.mod_lt _ (by decide)
  codelen := by simp [mkObj, bodyCode]
  codelt := by
    intro x hx
    simp only [mkObj, bodyCode, List.mem_map] at hx
    obtain ⟨i, _, rfl⟩ := hx
    exact codeByte_lt _ _ _ _ _

theorem swp8_lt : ∀ x < 256, swp8 x < 256 := by decide +kernel
theorem swp8_swp8 : ∀ x < 256, swp8 (swp8 x) = x := by decide +kernel
theorem qb_facts : ∀ a < 16, ∀ b < 16, ((a <<< 4) ||| b) >>> 4 = a ∧ ((a <<< 4) ||| b) &&& 0xf = b ∧ ((a <<< 4) ||| b) < 256 := by
  decide +kernel
theorem qb_split : ∀ q < 256, ((q >>> 4) <<< 4) ||| (q &&& 0xf) = q ∧ q >>> 4 < 16 ∧ q &&& 0xf < 16 := by decide +kernel

theorem map_swp8_swp8 (l : List Nat) (h : ∀ x ∈ l, x < 256) : (l.map swp8).map swp8 = l := by
  induction l with
  | nil => rfl
  | cons x xs ih =>
    simp only [List.map_cons]
    rw [swp8_swp8 x (h x (List.mem_cons_self ..)), ih (fun y hy => h y (List.mem_cons_of_mem _ hy))]

theorem digest_length (o : TObj) : (digest o).length = o.checksum.length + 2 + o.code.length := by
  simp [digest]; omega

theorem digest_lt {c : Cfg} {o : TObj} (h : ObjWF c o) : ∀ x ∈ digest o, x < 256 := by
  intro x hx
  simp only [digest, List.mem_append, List.mem_map, List.mem_cons, List.mem_reverse, List.not_mem_nil, or_false] at hx
  rcases hx with (⟨y, hy, rfl⟩ | rfl | rfl) | hx
  · exact swp8_lt y (h.cklt y hy)
  · exact swp8_lt _ h.lv
  · exact (qb_facts _ h.q1 _ h.q2).2.2
  · exact h.codelt x hx

/-- `from_hash(digest())` gives the object back -/
theorem fromHash_digest {c : Cfg} {o : TObj} (h : ObjWF c o) : fromHash c (digest o) = .ok o := by
  have hl : (o.checksum.map swp8).length = c.chklen := by simp [h.cklen]
  have hdrop : (digest o).drop c.chklen = swp8 o.lvalue :: ((o.q1 <<< 4) ||| o.q2) :: o.code.reverse := by
    simp only [digest, List.append_assoc]
    rw [List.drop_append_of_le_length (by omega), ← hl, List.drop_length]; rfl
  have htake : (digest o).take c.chklen = o.checksum.map swp8 := by
    simp only [digest, List.append_assoc]
    rw [List.take_append_of_le_length (by omega), ← hl, List.take_length]
  have ho : (⟨c.chklen, ((digest o).take c.chklen).map swp8, swp8 (swp8 o.lvalue),
              ((o.q1 <<< 4) ||| o.q2) >>> 4, ((o.q1 <<< 4) ||| o.q2) &&& 0xf, o.code.reverse.reverse⟩ : TObj) = o := by
    rw [htake, map_swp8_swp8 _ h.cklt, swp8_swp8 _ h.lv, (qb_facts _ h.q1 _ h.q2).1, (qb_facts _ h.q1 _ h.q2).2.1,
      List.reverse_reverse, ← h.chk]
  unfold fromHash
  rw [hdrop]
  simp only [ho, List.length_reverse, h.codelen, ne_eq, not_true_eq_false, ↓reduceIte]

/-- every byte string of the right length is accepted by `from_hash`, gives a valid object, and `digest()` returns it -/
theorem digest_fromHash (c : Cfg) (d : List Nat) (hlen : d.length = c.chklen + 2 + c.codesize) (hd : ∀ x ∈ d, x < 256) :
    ∃ o, fromHash c d = .ok o ∧ digest o = d ∧ ObjWF c o := by
  have hdl : (d.drop c.chklen).length = 2 + c.codesize := by simp [hlen]; omega
  match hdr : d.drop c.chklen, hdl with
  | [], hdl => simp at hdl; omega
  | [_], hdl => simp at hdl; omega
  | lv :: qb :: body, hdl =>
    have hb : body.length = c.codesize := by simp at hdl; omega
    have hmem : ∀ x ∈ d.drop c.chklen, x < 256 := fun x hx => hd x (List.mem_of_mem_drop hx)
    have hlv : lv < 256 := hmem lv (by rw [hdr]; simp)
    have hqb : qb < 256 := hmem qb (by rw [hdr]; simp)
    have htk : ∀ x ∈ d.take c.chklen, x < 256 := fun x hx => hd x (List.mem_of_mem_take hx)
    have hdig : digest ⟨c.chklen, (d.take c.chklen).map swp8, swp8 lv, qb >>> 4, qb &&& 0xf, body.reverse⟩ = d := by
      simp only [digest, List.reverse_reverse]
      rw [map_swp8_swp8 _ htk, swp8_swp8 _ hlv, (qb_split qb hqb).1]
      calc d.take c.chklen ++ [lv, qb] ++ body = d.take c.chklen ++ (lv :: qb :: body) := by simp
        _ = d := by rw [← hdr, List.take_append_drop]
    refine ⟨_, ?_, hdig, ?_⟩
    · unfold fromHash
      rw [hdr]
      simp only [hb, ne_eq, not_true_eq_false, ↓reduceIte, hdig]
    · refine ⟨rfl, by simp [hlen]; omega, ?_, swp8_lt _ hlv, (qb_split qb hqb).2.1, (qb_split qb hqb).2.2, by simp [hb], ?_⟩
      · intro x hx
        obtain ⟨y, hy, rfl⟩ := List.mem_map.mp hx
        exact swp8_lt y (htk y hy)
      · intro x hx
        exact hmem x (by rw [hdr]; simp [List.mem_reverse.mp hx])

/-! ### `distance` -/

theorem absDiff_comm (a b : Nat) : absDiff a b = absDiff b a := by unfold absDiff; split <;> split <;> omega
theorem absDiff_self (a : Nat) : absDiff a a = 0 := by simp [absDiff]
theorem diffmod_comm (x y n : Nat) : diffmod x y n = diffmod y x n := by simp [diffmod, absDiff_comm]
theorem diffmod_self (x n : Nat) : diffmod x x n = 0 := by simp [diffmod, absDiff_self]

theorem pairDiff_comm4 : ∀ a < 4, ∀ b < 4, pairDiff a b = pairDiff b a := by decide +kernel
theorem pairDiff_self4 : ∀ a < 4, pairDiff a a = 0 := by decide +kernel

theorem byteDiff_comm (x y : Nat) : byteDiff x y = byteDiff y x := by
  unfold byteDiff
  rw [pairDiff_comm4 (x % 4) (Nat.mod_lt _ (by decide)) (y % 4) (Nat.mod_lt _ (by decide)),
      pairDiff_comm4 (x / 4 % 4) (Nat.mod_lt _ (by decide)) (y / 4 % 4) (Nat.mod_lt _ (by decide)),
      pairDiff_comm4 (x / 16 % 4) (Nat.mod_lt _ (by decide)) (y / 16 % 4) (Nat.mod_lt _ (by decide)),
      pairDiff_comm4 (x / 64 % 4) (Nat.mod_lt _ (by decide)) (y / 64 % 4) (Nat.mod_lt _ (by decide))]

theorem byteDiff_self (x : Nat) : byteDiff x x = 0 := by
  unfold byteDiff
  rw [pairDiff_self4 _ (Nat.mod_lt _ (by decide)), pairDiff_self4 _ (Nat.mod_lt _ (by decide)),
      pairDiff_self4 _ (Nat.mod_lt _ (by decide)), pairDiff_self4 _ (Nat.mod_lt _ (by decide))]

theorem bodyDiff_comm (a b : List Nat) : bodyDiff a b = bodyDiff b a := by
  unfold bodyDiff
  rw [List.zipWith_comm]
  have : (fun b a => byteDiff a b) = byteDiff := by funext x y; exact byteDiff_comm y x
  rw [this]

theorem bodyDiff_self (a : List Nat) : bodyDiff a a = 0 := by
  unfold bodyDiff
  induction a with
  | nil => rfl
  | cons x xs ih => rw [List.zipWith_cons_cons, List.sum_cons, ih, byteDiff_self]

theorem headerDiff_comm (t0 t1 : TObj) (lv : Bool) : headerDiff t0 t1 lv = headerDiff t1 t0 lv := by
  unfold headerDiff
  rw [diffmod_comm t1.lvalue, diffmod_comm t1.q1, diffmod_comm t1.q2]
  have : (t1.checksum ≠ t0.checksum) = (t0.checksum ≠ t1.checksum) := propext ⟨Ne.symm, Ne.symm⟩
  simp only [this]

theorem headerDiff_self (t : TObj) (lv : Bool) : headerDiff t t lv = 0 := by
  unfold headerDiff
  simp [diffmod_self]

/-- the observable result of `distance` (every exception is the same observation) -/
theorem distance_symm (x y : Operand) (lv : Bool) : (distance x y lv).toOption = (distance y x lv).toOption := by
  unfold distance
  cases hx : resolve x with
  | error e => cases hy : resolve y <;> simp [bind, Except.bind, Except.toOption]
  | ok tx =>
    cases hy : resolve y with
    | error e => simp [bind, Except.bind, Except.toOption]
    | ok ty =>
      cases tx <;> cases ty <;> simp [bind, Except.bind, Except.toOption, pure, Except.pure]
      rename_i a b
      by_cases h : a.chklen = b.chklen
      · simp [h, headerDiff_comm a b, bodyDiff_comm b.code a.code]
      · have h' : ¬ b.chklen = a.chklen := fun e => h e.symm
        simp [h, h']

theorem distance_self (x : Operand) (t : TObj) (hx : resolve x = .ok (some t)) (lv : Bool) :
    distance x x lv = .ok (some 0) := by
  unfold distance
  simp [hx, bind, Except.bind, pure, Except.pure, headerDiff_self, bodyDiff_self]

/-- the raw bytes of a valid object resolve to the object itself -/
theorem resolve_raw_digest {c : Cfg} (hc : c.valid = true) {o : TObj} (h : ObjWF c o) :
    resolve (.raw (digest o)) = .ok (some o) := by
  have hv := valid_cases hc
  have hlen : (digest o).length = c.chklen + 2 + c.codesize := by rw [digest_length, h.cklen, h.codelen]
  have key : ∀ b, b = c.buckets → fromHash ⟨b, 5, c.chklen⟩ (digest o) = .ok o := by
    intro b hb
    exact fromHash_digest (c := ⟨b, 5, c.chklen⟩) ⟨h.chk, h.cklen, h.cklt, h.lv, h.q1, h.q2, by rw [h.codelen, hb]; rfl, h.codelt⟩
  unfold resolve
  simp only [hlen, Cfg.codesize]
  rcases hv with ⟨hb | hb | hb, _, hk | hk⟩ <;> simp [hb, hk, Cfg.valid] <;> rw [← hk] <;>
    first
      | (rw [key 256 hb.symm]; rfl)
      | (rw [key 128 hb.symm]; rfl)
      | (rw [key 48 hb.symm]; rfl)

end Proofs.Lemmas.Tlsh
