/-
  Lemmas about Model.Des: pure forms of the components, the control skeleton as a Feistel network.
-/
import Proofs.Lemmas.BitsBools
import Proofs.Lemmas.Feistel
namespace Model.Des
open Model.Bits

/-! ### facts about the regenerated tables that the control skeleton relies on (lengths, ranges) -/
theorem len_ip : Gen.Des.ip.length = 64 := by decide
theorem len_ipinv : Gen.Des.ipinv.length = 64 := by decide
theorem len_pc1 : Gen.Des.pc1.length = 56 := by decide
theorem len_pc2 : Gen.Des.pc2.length = 48 := by decide
theorem len_e : Gen.Des.e.length = 48 := by decide
theorem len_p : Gen.Des.p.length = 32 := by decide

theorem cumShift_le (r : Nat) : cumShift r ≤ 28 := by
  by_cases h : r < 16
  · have : ∀ r < 16, cumShift r ≤ 28 := by decide
    exact this r h
  · have hl : Gen.Des.shifts.length ≤ r + 1 := by
      have : Gen.Des.shifts.length = 16 := by decide
      omega
    simp only [cumShift, List.take_of_length_le hl]
    decide

/-! ### pure forms of the components -/

def subkeyP (k : Bits) (r : Nat) : Bits :=
  ((rotIdiom (k.sliceFast 0 28) (cumShift r)).concat (rotIdiom (k.sliceFast 28 56) (cumShift r))).pick Gen.Des.pc2

theorem subkey_eq (k : Bits) (hk : 56 ≤ k.size) (r : Nat) : subkey k r = .ok (subkeyP k r) := by
  have h1 : ¬ k.size < 56 := by omega
  have h2 : ¬ cumShift r > 28 := by have := cumShift_le r; omega
  simp only [subkey, h1, h2, if_false, PC2, subkeyP, rotIdiom, size_concat]
  simp [Bits.or, wsize, shr, shl]

@[simp] theorem size_subkeyP (k : Bits) (r : Nat) : (subkeyP k r).size = 48 := by
  simp [subkeyP, len_pc2]

theorem WF_subkeyP (k : Bits) (r : Nat) : (subkeyP k r).WF := WF_pick _ _

/-- the 4-bit value `F` writes for S-box `n` when the 6-bit chunk has value `c` -/
def sOut (n c : Nat) : Nat :=
  let x : Bits := ⟨c, 6⟩
  let i := (x.pick [5, 0]).ival
  let j := (x.pick [4, 3, 2, 1]).ival
  let v := ofNatSz ((Gen.Des.sbox.getD n []).getD ((i <<< 4) + j) 0) 4
  ((ofNatSz v.ival 4).pick [3, 2, 1, 0]).ival

theorem pick_ival_only (a b : Bits) (h : a.ival = b.ival) (idx : List Nat) : a.pick idx = b.pick idx := by
  simp [pick, h]

theorem sOut_lt (n c : Nat) : sOut n c < 16 := by
  have := WF_pick (ofNatSz (ofNatSz ((Gen.Des.sbox.getD n []).getD
    (((((⟨c, 6⟩ : Bits).pick [5, 0]).ival) <<< 4) + ((⟨c, 6⟩ : Bits).pick [4, 3, 2, 1]).ival) 0) 4).ival 4) [3, 2, 1, 0]
  simpa [WF, sOut] using this

def sboxStepP (s Z : Bits) (n : Nat) : Bits :=
  Z.putSlice (4 * n) (4 * n + 4) (ofNat (sOut n (s.sliceFast (6 * n) (6 * n + 6)).ival))

theorem sboxStep_eq (s Z : Bits) (n : Nat) (hn : n < 8) : sboxStep s Z n = .ok (sboxStepP s Z n) := by
  have hi : ((s.sliceFast (6 * n) (6 * n + 6)).pick [5, 0]).ival < 4 := by
    have := WF_pick (s.sliceFast (6 * n) (6 * n + 6)) [5, 0]; simpa [WF] using this
  have hj : ((s.sliceFast (6 * n) (6 * n + 6)).pick [4, 3, 2, 1]).ival < 16 := by
    have := WF_pick (s.sliceFast (6 * n) (6 * n + 6)) [4, 3, 2, 1]; simpa [WF] using this
  have hx : (((s.sliceFast (6 * n) (6 * n + 6)).pick [5, 0]).ival <<< 4)
      + ((s.sliceFast (6 * n) (6 * n + 6)).pick [4, 3, 2, 1]).ival < 64 := by
    rw [Nat.shiftLeft_eq]; omega
  simp only [sboxStep, S, hn, hx, and_self, if_true, bind, Except.bind, pure, Except.pure, sboxStepP, sOut]
  rw [pick_ival_only (⟨(s.sliceFast (6 * n) (6 * n + 6)).ival, 6⟩ : Bits) (s.sliceFast (6 * n) (6 * n + 6)) rfl,
      pick_ival_only (⟨(s.sliceFast (6 * n) (6 * n + 6)).ival, 6⟩ : Bits) (s.sliceFast (6 * n) (6 * n + 6)) rfl]

def sboxLoopP (s : Bits) (ns : List Nat) (Z : Bits) : Bits := ns.foldl (sboxStepP s) Z

theorem sboxLoop_eq (s : Bits) (ns : List Nat) (hns : ∀ n ∈ ns, n < 8) (Z : Bits) :
    sboxLoop s ns Z = .ok (sboxLoopP s ns Z) := by
  induction ns generalizing Z with
  | nil => rfl
  | cons n ns ih =>
    simp only [sboxLoop, sboxStep_eq s Z n (hns n (by simp)), bind, Except.bind, sboxLoopP, List.foldl_cons]
    exact ih (fun m hm => hns m (by simp [hm])) _

def FP (R k : Bits) (r : Nat) : Bits :=
  (sboxLoopP ((R.pick Gen.Des.e).xor (subkeyP k r)) (List.range 8) (ofNatSz 0 32)).pick Gen.Des.p

@[simp] theorem size_sboxStepP (s Z : Bits) (n : Nat) : (sboxStepP s Z n).size = Z.size := rfl
@[simp] theorem size_sboxLoopP (s : Bits) (ns : List Nat) (Z : Bits) : (sboxLoopP s ns Z).size = Z.size := by
  induction ns generalizing Z with
  | nil => rfl
  | cons n ns ih => simp [sboxLoopP, List.foldl_cons] at *; rw [ih]; rfl

theorem F_eq (R k : Bits) (r : Nat) (hR : R.size = 32) (hk : 56 ≤ k.size) : F R k r = .ok (FP R k r) := by
  have h8 : ∀ n ∈ List.range 8, n < 8 := fun n hn => by simpa using hn
  simp only [F, E, hR, subkey_eq k hk r, bind, Except.bind, sboxLoop_eq _ _ h8, P, FP]
  simp [ofNatSz]

@[simp] theorem size_FP (R k : Bits) (r : Nat) : (FP R k r).size = 32 := by simp [FP, len_p]
theorem WF_FP (R k : Bits) (r : Nat) : (FP R k r).WF := WF_pick _ _

/-- any successful `F` returns 32 well-formed bits (no hypothesis on the operands) -/
theorem F_ok_shape (R k : Bits) (r : Nat) (v : Bits) (h : F R k r = .ok v) : v.size = 32 ∧ v.WF := by
  simp only [F, bind, Except.bind] at h
  cases hE : E R with
  | error e => rw [hE] at h; cases h
  | ok RE =>
    rw [hE] at h; simp only at h
    cases hs : subkey k r with
    | error e => rw [hs] at h; cases h
    | ok fk =>
      rw [hs] at h; simp only at h
      cases hl : sboxLoop (RE.xor fk) (List.range 8) (ofNatSz 0 32) with
      | error e => rw [hl] at h; cases h
      | ok Z =>
        rw [hl] at h; simp only [P] at h
        split at h
        · cases h
        · cases h; exact ⟨by simp [len_p], WF_pick _ _⟩

end Model.Des
