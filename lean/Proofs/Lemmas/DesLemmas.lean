/-
  Lemmas about Model.Des: pure forms of the components, the control skeleton as a Feistel network.
-/
import Proofs.Lemmas.BitsBools
import Proofs.Lemmas.Feistel
namespace Model.Des
open Model.Bits

/-! ### facts about the regenerated tables that the control skeleton relies on (lengths, ranges) -/
theorem len_ip : Gen.Des.ip.length = 64 := by decide
theorem len_ipinv : Gen.Des.ipinv.length = 64 := by decide
theorem len_pc1 : Gen.Des.pc1.length = 56 := by decide
theorem len_pc2 : Gen.Des.pc2.length = 48 := by decide
theorem len_e : Gen.Des.e.length = 48 := by decide
theorem len_p : Gen.Des.p.length = 32 := by decide

theorem cumShift_le (r : Nat) : cumShift r ≤ 28 := by
  by_cases h : r < 16
  · have : ∀ r < 16, cumShift r ≤ 28 := by decide
    exact this r h
  · have hl : Gen.Des.shifts.length ≤ r + 1 := by
      have : Gen.Des.shifts.length = 16 := by decide
      omega
    simp only [cumShift, List.take_of_length_le hl]
    decide

/-! ### pure forms of the components -/

def subkeyP (k : Bits) (r : Nat) : Bits :=
  ((rotIdiom (k.sliceFast 0 28) (cumShift r)).concat (rotIdiom (k.sliceFast 28 56) (cumShift r))).pick Gen.Des.pc2

theorem subkey_eq (k : Bits) (hk : 56 ≤ k.size) (r : Nat) : subkey k r = .ok (subkeyP k r) := by
  have h1 : ¬ k.size < 56 := by omega
  have h2 : ¬ cumShift r > 28 := by have := cumShift_le r; omega
  simp only [subkey, h1, h2, if_false, PC2, subkeyP, rotIdiom, size_concat]
  simp [Bits.or, wsize, shr, shl]

@[simp] theorem size_subkeyP (k : Bits) (r : Nat) : (subkeyP k r).size = 48 := by
  simp [subkeyP, len_pc2]

theorem WF_subkeyP (k : Bits) (r : Nat) : (subkeyP k r).WF := WF_pick _ _

/-- the 4-bit value `F` writes for S-box `n` when the 6-bit chunk has value `c` -/
def sOut (n c : Nat) : Nat :=
  let x : Bits := ⟨c, 6⟩
  let i := (x.pick [5, 0]).ival
  let j := (x.pick [4, 3, 2, 1]).ival
  let v := ofNatSz ((Gen.Des.sbox.getD n []).getD ((i <<< 4) + j) 0) 4
  ((ofNatSz v.ival 4).pick [3, 2, 1, 0]).ival

theorem pick_ival_only (a b : Bits) (h : a.ival = b.ival) (idx : List Nat) : a.pick idx = b.pick idx := by
  simp [pick, h]

theorem sOut_lt (n c : Nat) : sOut n c < 16 := by
  have := WF_pick (ofNatSz (ofNatSz ((Gen.Des.sbox.getD n []).getD
    (((((⟨c, 6⟩ : Bits).pick [5, 0]).ival) <<< 4) + ((⟨c, 6⟩ : Bits).pick [4, 3, 2, 1]).ival) 0) 4).ival 4) [3, 2, 1, 0]
  simpa [WF, sOut] using this

def sboxStepP (s Z : Bits) (n : Nat) : Bits :=
  Z.putSlice (4 * n) (4 * n + 4) (ofNat (sOut n (s.sliceFast (6 * n) (6 * n + 6)).ival))

theorem sboxStep_eq (s Z : Bits) (n : Nat) (hn : n < 8) : sboxStep s Z n = .ok (sboxStepP s Z n) := by
  have hi : ((s.sliceFast (6 * n) (6 * n + 6)).pick [5, 0]).ival < 4 := by
    have := WF_pick (s.sliceFast (6 * n) (6 * n + 6)) [5, 0]; simpa [WF] using this
  have hj : ((s.sliceFast (6 * n) (6 * n + 6)).pick [4, 3, 2, 1]).ival < 16 := by
    have := WF_pick (s.sliceFast (6 * n) (6 * n + 6)) [4, 3, 2, 1]; simpa [WF] using this
  have hx : (((s.sliceFast (6 * n) (6 * n + 6)).pick [5, 0]).ival <<< 4)
      + ((s.sliceFast (6 * n) (6 * n + 6)).pick [4, 3, 2, 1]).ival < 64 := by
    rw [Nat.shiftLeft_eq]; omega
  simp only [sboxStep, S, hn, hx, and_self, if_true, bind, Except.bind, pure, Except.pure, sboxStepP, sOut]
  rw [pick_ival_only (⟨(s.sliceFast (6 * n) (6 * n + 6)).ival, 6⟩ : Bits) (s.sliceFast (6 * n) (6 * n + 6)) rfl,
      pick_ival_only (⟨(s.sliceFast (6 * n) (6 * n + 6)).ival, 6⟩ : Bits) (s.sliceFast (6 * n) (6 * n + 6)) rfl]

def sboxLoopP (s : Bits) (ns : List Nat) (Z : Bits) : Bits := ns.foldl (sboxStepP s) Z

theorem sboxLoop_eq (s : Bits) (ns : List Nat) (hns : ∀ n ∈ ns, n < 8) (Z : Bits) :
    sboxLoop s ns Z = .ok (sboxLoopP s ns Z) := by
  induction ns generalizing Z with
  | nil => rfl
  | cons n ns ih =>
    simp only [sboxLoop, sboxStep_eq s Z n (hns n (by simp)), bind, Except.bind, sboxLoopP, List.foldl_cons]
    exact ih (fun m hm => hns m (by simp [hm])) _

def FP (R k : Bits) (r : Nat) : Bits :=
  (sboxLoopP ((R.pick Gen.Des.e).xor (subkeyP k r)) (List.range 8) (ofNatSz 0 32)).pick Gen.Des.p

@[simp] theorem size_sboxStepP (s Z : Bits) (n : Nat) : (sboxStepP s Z n).size = Z.size := rfl
@[simp] theorem size_sboxLoopP (s : Bits) (ns : List Nat) (Z : Bits) : (sboxLoopP s ns Z).size = Z.size := by
  induction ns generalizing Z with
  | nil => rfl
  | cons n ns ih => simp [sboxLoopP, List.foldl_cons] at *; rw [ih]; rfl

theorem F_eq (R k : Bits) (r : Nat) (hR : R.size = 32) (hk : 56 ≤ k.size) : F R k r = .ok (FP R k r) := by
  have h8 : ∀ n ∈ List.range 8, n < 8 := fun n hn => by simpa using hn
  simp only [F, E, hR, subkey_eq k hk r, bind, Except.bind, sboxLoop_eq _ _ h8, P, FP]
  simp [ofNatSz]

@[simp] theorem size_FP (R k : Bits) (r : Nat) : (FP R k r).size = 32 := by simp [FP, len_p]
theorem WF_FP (R k : Bits) (r : Nat) : (FP R k r).WF := WF_pick _ _

/-- any successful `F` returns 32 well-formed bits (no hypothesis on the operands) -/
theorem F_ok_shape (R k : Bits) (r : Nat) (v : Bits) (h : F R k r = .ok v) : v.size = 32 ∧ v.WF := by
  simp only [F, bind, Except.bind] at h
  cases hE : E R with
  | error e => rw [hE] at h; cases h
  | ok RE =>
    rw [hE] at h; simp only at h
    cases hs : subkey k r with
    | error e => rw [hs] at h; cases h
    | ok fk =>
      rw [hs] at h; simp only at h
      cases hl : sboxLoop (RE.xor fk) (List.range 8) (ofNatSz 0 32) with
      | error e => rw [hl] at h; cases h
      | ok Z =>
        rw [hl] at h; simp only [P] at h
        split at h
        · cases h
        · cases h; exact ⟨by simp [len_p], WF_pick _ _⟩

end Model.Des
namespace Model.Des
open Model.Bits Proofs

/-- the half-block invariant: 32 well-formed bits -/
def Half (b : Bits) : Prop := b.size = 32 ∧ b.WF

theorem xor_cancel (a b : Bits) (ha : Half a) (hb : Half b) : (a.xor b).xor b = a := by
  cases a with | mk av as => cases b with | mk bv bs =>
  simp only [Half] at ha hb
  obtain ⟨rfl, _⟩ := ha; obtain ⟨rfl, _⟩ := hb
  simp [Bits.xor, wsize, Nat.xor_assoc]

theorem half_xor (a b : Bits) (ha : Half a) (hb : Half b) : Half (a.xor b) :=
  ⟨by simp [Bits.xor, wsize, ha.1, hb.1], WF_xor a b ha.2 hb.2 (by rw [ha.1, hb.1])⟩

theorem rounds_eq_run (k : Bits) (order : List Nat) (L R : Bits) :
    rounds k order L R = Feistel.run Bits.xor (fun r R => F R k r) order L R := by
  induction order generalizing L R with
  | nil => rfl
  | cons r rs ih =>
    simp only [rounds, Feistel.run, bind, Except.bind]
    cases F R k r with
    | error e => rfl
    | ok y => exact ih _ _

/-- the Feistel loop never fails on 32-bit halves and a 56-bit (or longer) `k`, and keeps the invariant -/
theorem rounds_ok (k : Bits) (hk : 56 ≤ k.size) (order : List Nat) (L R : Bits) (hL : Half L) (hR : Half R) :
    ∃ L' R', rounds k order L R = .ok (L', R') ∧ Half L' ∧ Half R' := by
  induction order generalizing L R with
  | nil => exact ⟨L, R, rfl, hL, hR⟩
  | cons r rs ih =>
    simp only [rounds, F_eq R k r hR.1 hk, bind, Except.bind]
    exact ih R (L.xor (FP R k r)) hR (half_xor _ _ hL ⟨size_FP _ _ _, WF_FP _ _ _⟩)

/-- running the loop with the reversed order inverts it — instance of the generic Feistel lemma -/
theorem rounds_reverse (k : Bits) (order : List Nat) (L R L' R' : Bits) (hL : Half L) (hR : Half R)
    (h : rounds k order L R = .ok (L', R')) : rounds k order.reverse R' L' = .ok (R, L) := by
  rw [rounds_eq_run] at h ⊢
  exact (Feistel.run_reverse Bits.xor (fun r R => F R k r) Half xor_cancel half_xor
    (fun r a b _ hf => (F_ok_shape a k r b hf)) order L R L' R' hL hR h).1

/-! ### the body of `enc`/`dec` -/

/-- the 64-bit state after IP, the loop, the swap and IPinv -/
def cryptBits (k : Bits) (order : List Nat) (Mb : Bits) : Except Err Bits :=
  match rounds k order ((Mb.pick Gen.Des.ip).sliceFast 0 32) ((Mb.pick Gen.Des.ip).sliceFast 32 64) with
  | .ok (L, R) => .ok ((join R L).pick Gen.Des.ipinv)
  | .error e => .error e

theorem crypt_eq (d : DES) (order : List Nat) (M : List Nat) (hM : M.length = 8) :
    d.crypt order M = (cryptBits (PC1 d.K) order (ofByteStr M)).map toBytes := by
  have h64 : (ofByteStr M).size = 64 := by simp [ofByteStr, hM]
  simp only [DES.crypt, ofBytes_bitstream, bind, Except.bind, h64, ne_eq, not_true_eq_false, if_false,
    IP, cryptBits, pure, Except.pure]
  cases rounds (PC1 d.K) order ((ofByteStr M).pick Gen.Des.ip |>.sliceFast 0 32) ((ofByteStr M).pick Gen.Des.ip |>.sliceFast 32 64) with
  | error e => rfl
  | ok p =>
    obtain ⟨L, R⟩ := p
    have : (ofNatSz 0 64).size = 64 := rfl
    simp [IPinv, join, Except.map, this]

theorem crypt_badlen (d : DES) (order : List Nat) (M : List Nat) (hM : M.length ≠ 8) :
    d.crypt order M = .error assertErr := by
  have h64 : (ofByteStr M).size ≠ 64 := by simp [ofByteStr]; omega
  simp only [DES.crypt, ofBytes_bitstream, bind, Except.bind, h64, ne_eq, not_false_eq_true, if_true]
  rfl

end Model.Des

namespace Model.Des
open Model.Bits Proofs

theorem ipinv_after_ip : Gen.Des.ipinv.map (fun x => Gen.Des.ip[x]?) = (List.range 64).map some := by decide +kernel
theorem ip_after_ipinv : Gen.Des.ip.map (fun x => Gen.Des.ipinv[x]?) = (List.range 64).map some := by decide +kernel

theorem cryptBits_inverse (k : Bits) (hk : 56 ≤ k.size) (order : List Nat) (Mb : Bits) (hM : Mb.WF) (hs : Mb.size = 64) :
    ∃ Cb, cryptBits k order Mb = .ok Cb ∧ Cb.WF ∧ Cb.size = 64 ∧ cryptBits k order.reverse Cb = .ok Mb := by
  have hL0 : Half ((Mb.pick Gen.Des.ip).sliceFast 0 32) := ⟨rfl, WF_sliceFast _ _ _⟩
  have hR0 : Half ((Mb.pick Gen.Des.ip).sliceFast 32 64) := ⟨rfl, WF_sliceFast _ _ _⟩
  obtain ⟨L', R', hr, hL', hR'⟩ := rounds_ok k hk order _ _ hL0 hR0
  refine ⟨(join R' L').pick Gen.Des.ipinv, ?_, WF_pick _ _, by simp [len_ipinv], ?_⟩
  · simp [cryptBits, hr]
  · have hj : (join R' L').WF := WF_join _ _ hR'.2 hR'.1 hL'.2 hL'.1
    have h1 : ((join R' L').pick Gen.Des.ipinv).pick Gen.Des.ip = join R' L' :=
      pick_pick_id _ hj _ _ (by rw [size_join]; exact ip_after_ipinv)
    have hrev := rounds_reverse k order _ _ L' R' hL0 hR0 hr
    simp only [cryptBits, h1, slice_join_left R' L' hR'.2 hR'.1 hL'.2 hL'.1,
      slice_join_right R' L' hR'.2 hR'.1 hL'.2 hL'.1, hrev]
    rw [join_slices _ (WF_pick _ _) (by simp [len_ip])]
    rw [pick_pick_id _ hM _ _ (by rw [hs]; exact ipinv_after_ip)]

end Model.Des

namespace Model.Des
open Model.Bits Proofs

theorem DES_new_ok (K : List Nat) (hK : K.length = 8) : ∃ d, DES.new K = .ok d ∧ d.K.size = 64 := by
  refine ⟨⟨(ofByteStr K).setSize 64⟩, ?_, rfl⟩
  simp [DES.new, hK, ofBytes, load_bitstream, bind, Except.bind, pure, Except.pure]

theorem DES_new_bytes (K : List Nat) (hK : K.length = 8) (hb : IsBytes K) : DES.new K = .ok ⟨ofByteStr K⟩ := by
  have hW := WF_ofByteStr K hb
  have : (ofByteStr K).setSize 64 = ofByteStr K := by
    simp only [setSize, ofByteStr, hK] at hW ⊢
    congr 1
    exact Nat.mod_eq_of_lt hW
  simp [DES.new, hK, ofBytes, load_bitstream, bind, Except.bind, pure, Except.pure, this]

theorem DES_new_badlen (K : List Nat) (hK : K.length ≠ 8) : DES.new K = .error assertErr := by
  simp [DES.new, hK]

theorem size_PC1 (k : Bits) : (PC1 k).size = 56 := by simp [PC1, len_pc1]

/-- `crypt` with the reversed round order undoes `crypt`, for ANY key object, any 8-byte block -/
theorem crypt_inverse (d : DES) (order : List Nat) (M : List Nat) (hM : M.length = 8) (hb : IsBytes M) :
    ∃ C, d.crypt order M = .ok C ∧ C.length = 8 ∧ IsBytes C ∧ d.crypt order.reverse C = .ok M := by
  have hs : (ofByteStr M).size = 64 := by simp [ofByteStr, hM]
  obtain ⟨Cb, h1, hW, hsz, h2⟩ :=
    cryptBits_inverse (PC1 d.K) (by rw [size_PC1]; exact Nat.le_refl _) order (ofByteStr M) (WF_ofByteStr M hb) hs
  have hl : (toBytes Cb).length = 8 := by rw [length_toBytes, hsz]
  have hCb : IsBytes (toBytes Cb) := isBytes_toBytes Cb 8 hsz
  refine ⟨toBytes Cb, ?_, hl, hCb, ?_⟩
  · rw [crypt_eq d order M hM, h1]; rfl
  · rw [crypt_eq d _ _ hl, ofByteStr_toBytes Cb hW 8 hsz, h2]
    simp [Except.map, toBytes_ofByteStr M hb]

theorem decOrder_reverse : decOrder.reverse = encOrder := by simp [decOrder, encOrder]
theorem encOrder_reverse : encOrder.reverse = decOrder := rfl

end Model.Des
