/-
  UBI: the block/tweak sequence of `UBI.iterblocks` and the chaining loop versus Spec.Skein.ubi.
-/
import Proofs.Lemmas.SkTweak
import Proofs.Lemmas.SkBitPad
import Proofs.Lemmas.TfEnd
namespace Proofs.Lemmas.SkUbi
open Model Proofs.Lemmas.TfBytes Proofs.Lemmas.SkBytes Proofs.Lemmas.SkTweak Proofs.Lemmas.SkBitPad
open Spec.Threefish (toInt toBytes)

/-- the specification's sequence of (tweak bytes, block) for a bit-padded message M' with flag B -/
def specBlocks (lb Ts : Nat) (M' : List Nat) (B : Nat) : List (List Nat × List Nat) :=
  let NM := M'.length
  let p := if NM = 0 then lb else if NM % lb = 0 then 0 else lb - NM % lb
  let M'' := M' ++ List.replicate p 0
  let k := M''.length / lb
  (List.range k).map fun i =>
    (toBytes 16 (Ts + min NM ((i + 1) * lb) + (if i = 0 then 1 else 0) * 2 ^ 126
        + (if i + 1 = k then 1 else 0) * (B * 2 ^ 119 + 2 ^ 127)),
     (M''.drop (i * lb)).take lb)

theorem ubi_as_fold (G M : List Nat) (L Ts : Nat) :
    Spec.Skein.ubi G M L Ts =
      (specBlocks G.length Ts (Spec.Skein.bitPad M L).1 (Spec.Skein.bitPad M L).2).foldl
        (fun H (tm : List Nat × List Nat) => Spec.Skein.xorBytes (Spec.Skein.E H tm.1 tm.2) tm.2) G := by
  unfold Spec.Skein.ubi specBlocks
  simp only [List.foldl_map]

/-- the `for b in range(nb-1)` loop: positions advance by lb, First is cleared after the first block -/
theorem midBlocks_eq (lb : Nat) (hlb : lb = 32 ∨ lb = 64 ∨ lb = 128) (n : Nat) :
    ∀ (A f : Nat) (P : List Nat), f ≤ 1 → A < 2 ^ 128 → A / 2 ^ 126 % 2 = 0 → A % 2 ^ 96 + n * lb < 2 ^ 96 →
    Skein.midBlocks lb n ⟨A + f * 2 ^ 126, 128⟩ P =
      .ok (⟨A + n * lb + (if n = 0 then f * 2 ^ 126 else 0), 128⟩, P.drop (n * lb),
        (List.range n).map fun j =>
          (toBytes 16 (A + (j + 1) * lb + (if j = 0 then f * 2 ^ 126 else 0)), (P.drop (j * lb)).take lb)) := by
  induction n with
  | zero =>
    intro A f P _ _ _ _
    simp [Skein.midBlocks, pure, Except.pure]
  | succ n ih =>
    intro A f P hf hA h126 hpos
    have hT : A + f * 2 ^ 126 < 2 ^ 128 := by omega
    have hpl : (A + f * 2 ^ 126) % 2 ^ 96 + lb < 2 ^ 96 := by
      rcases hlb with h | h | h <;> subst h <;> omega
    have e1 : 2 ^ 96 * ((A + f * 2 ^ 126) / 2 ^ 96) + ((A + f * 2 ^ 126) % 2 ^ 96 + lb) = A + lb + f * 2 ^ 126 := by omega
    have hT1 : A + lb + f * 2 ^ 126 < 2 ^ 128 := by
      rcases hlb with h | h | h <;> subst h <;> omega
    have e2 : 2 ^ 127 * ((A + lb + f * 2 ^ 126) / 2 ^ 127) + (2 ^ 126 * 0 + (A + lb + f * 2 ^ 126) % 2 ^ 126) = A + lb + 0 * 2 ^ 126 := by
      rcases hlb with h | h | h <;> subst h <;> omega
    have ih' := ih (A + lb) 0 (P.drop lb) (by omega) (by rcases hlb with h | h | h <;> subst h <;> omega)
      (by rcases hlb with h | h | h <;> subst h <;> omega) (by rcases hlb with h | h | h <;> subst h <;> omega)
    simp only [Skein.midBlocks, bind, Except.bind, getPosition_eq, setPosition_eq _ _ hT hpl, e1, pack128,
      setFirst_eq _ 0 hT1 (by decide), e2, ih', pure, Except.pure]
    congr 2
    · congr 1
      rcases hlb with h | h | h <;> subst h <;> simp <;> omega
    · congr 1
      · rw [List.drop_drop]; congr 1; rcases hlb with h | h | h <;> subst h <;> omega
      · rw [List.range_succ_eq_map, List.map_cons, List.map_map]
        congr 1
        · simp
        · apply List.map_congr_left
          intro j _
          simp only [Function.comp, Nat.succ_eq_add_one, Nat.add_eq_zero_iff, Nat.one_ne_zero, and_false, ite_false, Nat.zero_mul,
            Nat.add_zero, List.drop_drop]
          congr 2
          · rcases hlb with h | h | h <;> subst h <;> split <;> omega
          · congr 1; rcases hlb with h | h | h <;> subst h <;> omega


/-- the part of `iterblocks` after the padding decisions: n middle blocks, then the final block -/
def iterCore (lb : Nat) (ts : Bits) (M2 : List Nat) (n lp B : Nat) : Except Err (List (List Nat × List Nat)) := do
  let ts ← Skein.setFirst ts 1
  let (ts, P, ys) ← Skein.midBlocks lb n ts M2
  let ts ← Skein.setFinal ts 1
  let ts ← Skein.setBitPad ts B
  let m := P.take lb
  let pos ← Skein.getPosition ts
  let ts ← Skein.setPosition ts (pos + (lb - lp))
  pure (ys ++ [(ts.pack, m)])

theorem iterCore_eq (lb : Nat) (hlb : lb = 32 ∨ lb = 64 ∨ lb = 128) (Ts : Nat) (hTs : Ts < 2 ^ 128)
    (h119 : Ts / 2 ^ 119 % 2 = 0) (h126 : Ts / 2 ^ 126 % 2 = 0) (h127 : Ts / 2 ^ 127 % 2 = 0)
    (M2 : List Nat) (n lp NM B : Nat) (hNM : n * lb + (lb - lp) = NM) (hpos : Ts % 2 ^ 96 + NM < 2 ^ 96) (hB : B ≤ 1) :
    iterCore lb ⟨Ts, 128⟩ M2 n lp B = .ok ((List.range (n + 1)).map fun i =>
      (toBytes 16 (Ts + min NM ((i + 1) * lb) + (if i = 0 then 1 else 0) * 2 ^ 126
          + (if i + 1 = n + 1 then 1 else 0) * (B * 2 ^ 119 + 2 ^ 127)),
       (M2.drop (i * lb)).take lb)) := by
  have e0 : 2 ^ 127 * (Ts / 2 ^ 127) + (2 ^ 126 * 1 + Ts % 2 ^ 126) = Ts + 1 * 2 ^ 126 := by omega
  have hmid := midBlocks_eq lb hlb n Ts 1 M2 (by omega) hTs h126 (by rcases hlb with h | h | h <;> subst h <;> omega)
  -- the state after the middle blocks
  have hT1 : Ts + n * lb + (if n = 0 then 1 * 2 ^ 126 else 0) < 2 ^ 128 := by
    rcases hlb with h | h | h <;> subst h <;> split <;> omega
  have e2 : 2 ^ 127 * 1 + (Ts + n * lb + (if n = 0 then 1 * 2 ^ 126 else 0)) % 2 ^ 127 =
      Ts + n * lb + (if n = 0 then 1 * 2 ^ 126 else 0) + 2 ^ 127 := by
    rcases hlb with h | h | h <;> subst h <;> split <;> omega
  have hT2 : Ts + n * lb + (if n = 0 then 1 * 2 ^ 126 else 0) + 2 ^ 127 < 2 ^ 128 := by
    rcases hlb with h | h | h <;> subst h <;> split <;> omega
  have e3 : 2 ^ 120 * ((Ts + n * lb + (if n = 0 then 1 * 2 ^ 126 else 0) + 2 ^ 127) / 2 ^ 120) +
      (2 ^ 119 * B + (Ts + n * lb + (if n = 0 then 1 * 2 ^ 126 else 0) + 2 ^ 127) % 2 ^ 119) =
      Ts + n * lb + (if n = 0 then 1 * 2 ^ 126 else 0) + 2 ^ 127 + B * 2 ^ 119 := by
    rcases hlb with h | h | h <;> subst h <;> split <;> omega
  have hT3 : Ts + n * lb + (if n = 0 then 1 * 2 ^ 126 else 0) + 2 ^ 127 + B * 2 ^ 119 < 2 ^ 128 := by
    rcases hlb with h | h | h <;> subst h <;> split <;> omega
  have hp4 : (Ts + n * lb + (if n = 0 then 1 * 2 ^ 126 else 0) + 2 ^ 127 + B * 2 ^ 119) % 2 ^ 96 + (lb - lp) < 2 ^ 96 := by
    rcases hlb with h | h | h <;> subst h <;> split <;> omega
  have e4 : 2 ^ 96 * ((Ts + n * lb + (if n = 0 then 1 * 2 ^ 126 else 0) + 2 ^ 127 + B * 2 ^ 119) / 2 ^ 96) +
      ((Ts + n * lb + (if n = 0 then 1 * 2 ^ 126 else 0) + 2 ^ 127 + B * 2 ^ 119) % 2 ^ 96 + (lb - lp)) =
      Ts + NM + (if n = 0 then 1 * 2 ^ 126 else 0) + 2 ^ 127 + B * 2 ^ 119 := by
    rcases hlb with h | h | h <;> subst h <;> split <;> omega
  unfold iterCore
  simp only [bind, Except.bind, setFirst_eq Ts 1 hTs (by decide), e0, hmid, setFinal_eq _ 1 hT1 (by decide), e2,
    setBitPad_eq _ B hT2 (by omega), e3, getPosition_eq, setPosition_eq _ _ hT3 hp4, e4, pack128, pure, Except.pure]
  rw [List.range_succ, List.map_append]
  apply congrArg Except.ok
  apply congr (congrArg HAppend.hAppend ?_) ?_
  · apply List.map_congr_left
    intro j hj
    have hj' := List.mem_range.1 hj
    have : ¬ (j + 1 = n + 1) := by omega
    rw [if_neg this]
    apply Prod.ext
    · show toBytes 16 _ = toBytes 16 _
      apply congrArg (toBytes 16)
      rcases hlb with h | h | h <;> subst h <;> split <;> omega
    · rfl
  · simp only [List.map_cons, List.map_nil, ite_true, Nat.one_mul, List.cons.injEq, Prod.mk.injEq, and_true]
    apply congrArg (toBytes 16)
    rcases hlb with h | h | h <;> subst h <;> split <;> omega


theorem iterblocks_core (lb : Nat) (hne : lb ≠ 0) (ts : Bits) (M : List Nat) (bitlen : Option Nat) (M1 : List Nat) (B : Nat)
    (hbp : Skein.bitPadded M bitlen = .ok (M1, B)) :
    Skein.iterblocks lb ts M bitlen =
      iterCore lb ts (if (M1.length = 0 || M1.length % lb > 0) then M1 ++ List.replicate (lb - M1.length % lb) 0 else M1)
        ((if (M1.length = 0 || M1.length % lb > 0) then M1.length / lb + 1 else M1.length / lb) - 1)
        (if (M1.length = 0 || M1.length % lb > 0) then lb - M1.length % lb else 0) B := by
  unfold Skein.iterblocks iterCore
  rw [hbp]
  simp only [bind, Except.bind, hne, ite_false]
  cases hp : (decide (M1.length = 0) || decide (M1.length % lb > 0)) <;> simp only [Bool.false_eq_true, ite_false, ite_true]

/-- `UBI.iterblocks` yields exactly the specification's blocks and tweaks -/
theorem iterblocks_eq (lb : Nat) (hlb : lb = 32 ∨ lb = 64 ∨ lb = 128) (Ts : Nat) (hTs : Ts < 2 ^ 128)
    (h119 : Ts / 2 ^ 119 % 2 = 0) (h126 : Ts / 2 ^ 126 % 2 = 0) (h127 : Ts / 2 ^ 127 % 2 = 0)
    (M : List Nat) (bitlen : Option Nat) (M1 : List Nat) (B : Nat)
    (hbp : Skein.bitPadded M bitlen = .ok (M1, B)) (hB : B ≤ 1) (hpos : Ts % 2 ^ 96 + M1.length < 2 ^ 96) :
    Skein.iterblocks lb ⟨Ts, 128⟩ M bitlen = .ok (specBlocks lb Ts M1 B) := by
  have hne : lb ≠ 0 := by omega
  rw [iterblocks_core lb hne _ M bitlen M1 B hbp]
  unfold specBlocks
  by_cases h0 : M1.length = 0
  · -- the empty message: one all-zero block
    have hM1 : M1 = [] := List.eq_nil_of_length_eq_zero h0
    subst hM1
    simp only [List.length_nil, Nat.zero_mod, Nat.zero_div, decide_true, Bool.true_or, ite_true, Nat.sub_zero, Nat.zero_add,
      Nat.sub_self, List.nil_append, List.length_replicate, Nat.div_self (Nat.pos_of_ne_zero hne)]
    rw [iterCore_eq lb hlb Ts hTs h119 h126 h127 _ 0 lb 0 B (by omega) (by simpa using hpos) hB]
  · by_cases hr : M1.length % lb = 0
    · -- a whole number of blocks: no zero padding
      have hpad : (decide (M1.length = 0) || decide (M1.length % lb > 0)) = false := by simp [h0, hr]
      simp only [hpad, Bool.false_eq_true, ite_false]
      simp only [h0, hr, ite_true, ite_false, List.replicate_zero, List.append_nil]
      have hk : M1.length / lb - 1 + 1 = M1.length / lb := by
        rcases hlb with h | h | h <;> subst h <;> omega
      rw [iterCore_eq lb hlb Ts hTs h119 h126 h127 _ (M1.length / lb - 1) 0 M1.length B
        (by rcases hlb with h | h | h <;> subst h <;> omega) hpos hB, hk]
    · -- a partial last block: zero padded
      have hpad : (decide (M1.length = 0) || decide (M1.length % lb > 0)) = true := by
        have : M1.length % lb > 0 := by omega
        simp [this]
      simp only [hpad, ite_true]
      simp only [h0, hr, ite_false, Nat.add_sub_cancel, List.length_append, List.length_replicate]
      have hk : (M1.length + (lb - M1.length % lb)) / lb = M1.length / lb + 1 := by
        rcases hlb with h | h | h <;> subst h <;> omega
      rw [iterCore_eq lb hlb Ts hTs h119 h126 h127 _ (M1.length / lb) (lb - M1.length % lb) M1.length B
        (by rcases hlb with h | h | h <;> subst h <;> omega) hpos hB, hk]


/-! ### the chaining loop -/

theorem E_eq (H T m : List Nat) (hH : IsBytes H) (hT : IsBytes T) (hm : IsBytes m)
    (hl : H.length = 32 ∨ H.length = 64 ∨ H.length = 128) (hTl : T.length = 16) (hml : m.length = H.length) :
    Threefish.encrypt H T m = .ok (Spec.Skein.E H T m) ∧ (Spec.Skein.E H T m).length = H.length ∧ IsBytes (Spec.Skein.E H T m) := by
  have hs : Spec.Threefish.sizesOk H T m = true := (TfEnd.sizesOk_iff _ _ _).2 ⟨hl, hTl, hml⟩
  have he := TfEnd.encrypt_ok H T m hH hT hm hs
  have hE : Spec.Skein.E H T m = Spec.Threefish.wordsToBytes (Spec.Threefish.encWords (H.length / 8)
      (Spec.Threefish.bytesToWords H) (Spec.Threefish.bytesToWords T) (Spec.Threefish.bytesToWords m)) := by
    simp [Spec.Skein.E, Spec.Threefish.enc, hs]
  rw [hE]
  refine ⟨he, ?_, isBytes_wordsToBytes _⟩
  rw [wordsToBytes_length, TfInverse.encWords_length]; omega

theorem chain_eq (lb : Nat) (hlb : lb = 32 ∨ lb = 64 ∨ lb = 128) (bl : List (List Nat × List Nat))
    (hbl : ∀ tm ∈ bl, IsBytes tm.1 ∧ tm.1.length = 16 ∧ IsBytes tm.2 ∧ tm.2.length = lb) :
    ∀ (H : List Nat), IsBytes H → H.length = lb →
    bl.foldlM (fun H (tm : List Nat × List Nat) => do
        let X ← Threefish.encrypt H tm.1 tm.2
        pure (Skein.xorstr X tm.2)) H =
      .ok (bl.foldl (fun H (tm : List Nat × List Nat) => Spec.Skein.xorBytes (Spec.Skein.E H tm.1 tm.2) tm.2) H) ∧
    IsBytes (bl.foldl (fun H (tm : List Nat × List Nat) => Spec.Skein.xorBytes (Spec.Skein.E H tm.1 tm.2) tm.2) H) ∧
    (bl.foldl (fun H (tm : List Nat × List Nat) => Spec.Skein.xorBytes (Spec.Skein.E H tm.1 tm.2) tm.2) H).length = lb := by
  induction bl with
  | nil => intro H hH hl; exact ⟨rfl, hH, hl⟩
  | cons tm bl ih =>
    intro H hH hl
    obtain ⟨h1, h2, h3, h4⟩ := hbl tm (by simp)
    obtain ⟨e1, e2, e3⟩ := E_eq H tm.1 tm.2 hH h1 h3 (by rw [hl]; exact hlb) h2 (by rw [h4, hl])
    have hx : IsBytes (Spec.Skein.xorBytes (Spec.Skein.E H tm.1 tm.2) tm.2) := isBytes_xor _ _ e3 h3
    have hxl : (Spec.Skein.xorBytes (Spec.Skein.E H tm.1 tm.2) tm.2).length = lb := by
      rw [xor_length _ _ (by rw [e2, h4, hl]), h4]
    have := ih (fun t ht => hbl t (by simp [ht])) _ hx hxl
    simp only [List.foldlM_cons, List.foldl_cons, bind, Except.bind, e1, pure, Except.pure, xorstr_eq]
    exact this

theorem bitPad_wf (M : List Nat) (h : IsBytes M) (L : Nat) (hL : L ≤ 8 * M.length) :
    IsBytes (Spec.Skein.bitPad M L).1 ∧ (Spec.Skein.bitPad M L).1.length ≤ M.length ∧ (Spec.Skein.bitPad M L).2 ≤ 1 := by
  unfold Spec.Skein.bitPad
  by_cases hr : L % 8 = 0
  · simp only [hr, ite_true]
    exact ⟨h.take _, by rw [List.length_take]; omega, by omega⟩
  · simp only [hr, ite_false]
    refine ⟨isBytes_append (h.take _) ?_, by simp; omega, by omega⟩
    intro x hx
    simp only [List.mem_singleton] at hx
    subst hx
    have hlt := SkBitPad.getD_lt M h (L / 8)
    generalize M.getD (L / 8) 0 = y at hlt
    have hr8 : L % 8 < 8 := Nat.mod_lt _ (by decide)
    have : L % 8 = 1 ∨ L % 8 = 2 ∨ L % 8 = 3 ∨ L % 8 = 4 ∨ L % 8 = 5 ∨ L % 8 = 6 ∨ L % 8 = 7 := by omega
    rcases this with e | e | e | e | e | e | e <;> rw [e] <;> simp only [Nat.reduceSub, Nat.reducePow] <;> omega

theorem specBlocks_wf (lb : Nat) (hlb : lb = 32 ∨ lb = 64 ∨ lb = 128) (Ts : Nat) (M1 : List Nat) (h : IsBytes M1) (B : Nat) :
    ∀ tm ∈ specBlocks lb Ts M1 B, IsBytes tm.1 ∧ tm.1.length = 16 ∧ IsBytes tm.2 ∧ tm.2.length = lb := by
  intro tm htm
  unfold specBlocks at htm
  simp only [List.mem_map, List.mem_range] at htm
  obtain ⟨i, hi, rfl⟩ := htm
  refine ⟨isBytes_toBytes _ _, toBytes_length _ _, ((isBytes_append h (isBytes_replicate0 _)).drop _).take _, ?_⟩
  simp only [List.length_take, List.length_drop, List.length_append, List.length_replicate] at hi ⊢
  by_cases h0 : M1.length = 0
  · simp only [h0, ite_true] at hi ⊢
    rcases hlb with e | e | e <;> subst e <;> omega
  · by_cases hr : M1.length % lb = 0
    · simp only [h0, hr, ite_true, ite_false] at hi ⊢
      rcases hlb with e | e | e <;> subst e <;> omega
    · simp only [h0, hr, ite_false] at hi ⊢
      rcases hlb with e | e | e <;> subst e <;> omega


/-- the bit length a call denotes -/
def bitsOf (M : List Nat) (bitlen : Option Nat) : Nat := bitlen.getD (8 * M.length)

theorem bitPadded_spec (M : List Nat) (h : IsBytes M) (bitlen : Option Nat) (hL : bitsOf M bitlen ≤ 8 * M.length) :
    Skein.bitPadded M bitlen = .ok (Spec.Skein.bitPad M (bitsOf M bitlen)) := by
  cases bitlen with
  | none => exact bitPadded_none M
  | some L => exact bitPadded_eq M h L hL

theorem ubiPre_iff (M : List Nat) (Ts : Nat) : Spec.Skein.ubiPre M Ts = true ↔
    Ts < 2 ^ 128 ∧ Ts / 2 ^ 119 % 2 = 0 ∧ Ts / 2 ^ 126 % 2 = 0 ∧ Ts / 2 ^ 127 % 2 = 0 ∧ Ts % 2 ^ 96 + M.length < 2 ^ 96 := by
  simp [Spec.Skein.ubiPre, and_assoc]

/-- UBI(Threefish,G,Ts)(M,bitlen) = the specification's UBI, for every chaining value, message, bit length and
    admissible starting tweak -/
theorem ubi_eq (G M : List Nat) (bitlen : Option Nat) (Ts : Nat) (hG : IsBytes G) (hM : IsBytes M)
    (hGl : G.length = 32 ∨ G.length = 64 ∨ G.length = 128) (hL : bitsOf M bitlen ≤ 8 * M.length)
    (hpre : Spec.Skein.ubiPre M Ts = true) :
    Skein.ubi G ⟨Ts, 128⟩ M bitlen = .ok (Spec.Skein.ubi G M (bitsOf M bitlen) Ts) ∧
    IsBytes (Spec.Skein.ubi G M (bitsOf M bitlen) Ts) ∧ (Spec.Skein.ubi G M (bitsOf M bitlen) Ts).length = G.length := by
  obtain ⟨hTs, h119, h126, h127, hpos⟩ := (ubiPre_iff M Ts).1 hpre
  obtain ⟨w1, w2, w3⟩ := bitPad_wf M hM _ hL
  have hbp : Skein.bitPadded M bitlen = .ok ((Spec.Skein.bitPad M (bitsOf M bitlen)).1, (Spec.Skein.bitPad M (bitsOf M bitlen)).2) :=
    bitPadded_spec M hM bitlen hL
  have hit := iterblocks_eq G.length hGl Ts hTs h119 h126 h127 M bitlen _ _ hbp w3 (by omega)
  obtain ⟨c1, c2, c3⟩ := chain_eq G.length hGl _ (specBlocks_wf G.length hGl Ts _ w1 _) G hG rfl
  rw [ubi_as_fold]
  refine ⟨?_, c2, c3⟩
  unfold Skein.ubi
  simp only [bind, Except.bind, getBitPad_eq, getFirst_eq, getFinal_eq, getPosition_eq, h119, h126, h127, ne_eq,
    not_true_eq_false, ite_false, hit, pure, Except.pure]
  have : ¬ ¬ (Ts % 2 ^ 96 + M.length < 2 ^ 96) := by omega
  simp only [this, ite_false]
  exact c1

/-- a tweak that violates the preconditions is rejected by the constructor / the position assert -/
theorem ubi_rejects (G M : List Nat) (bitlen : Option Nat) (Ts : Nat) (hTs : Ts < 2 ^ 128)
    (hpre : Spec.Skein.ubiPre M Ts = false) : ∃ e, Skein.ubi G ⟨Ts, 128⟩ M bitlen = .error e := by
  have hn : ¬ (Ts < 2 ^ 128 ∧ Ts / 2 ^ 119 % 2 = 0 ∧ Ts / 2 ^ 126 % 2 = 0 ∧ Ts / 2 ^ 127 % 2 = 0 ∧ Ts % 2 ^ 96 + M.length < 2 ^ 96) := by
    rw [← ubiPre_iff]; simp [hpre]
  unfold Skein.ubi
  simp only [bind, Except.bind, getBitPad_eq, getFirst_eq, getFinal_eq, getPosition_eq, ne_eq, not_true_eq_false, ite_false, pure, Except.pure]
  by_cases h1 : Ts / 2 ^ 119 % 2 = 0
  · by_cases h2 : Ts / 2 ^ 126 % 2 = 0
    · by_cases h3 : Ts / 2 ^ 127 % 2 = 0
      · have h4 : ¬ (Ts % 2 ^ 96 + M.length < 2 ^ 96) := fun h4 => hn ⟨hTs, h1, h2, h3, h4⟩
        simp only [h1, h2, h3, h4, not_true_eq_false, not_false_eq_true, ite_true, ite_false]
        exact ⟨_, rfl⟩
      · simp only [h1, h2, h3, not_true_eq_false, not_false_eq_true, ite_true, ite_false]
        exact ⟨_, rfl⟩
    · simp only [h1, h2, not_true_eq_false, not_false_eq_true, ite_true, ite_false]
      exact ⟨_, rfl⟩
  · simp only [h1, not_false_eq_true, ite_true]
    exact ⟨_, rfl⟩

end Proofs.Lemmas.SkUbi
