/-
  Helper lemmas for C05: one ECB / CBC / CTS object through a history of calls (Model.Mode.Seq.Obj).
-/
import Model.ModeObj
import Proofs.Lemmas.ModeSeq
namespace Proofs.Lemmas.ModeL
open Model Model.Mode

/-- every `remove` except Nullpadding's looks at the bytes only -/
theorem remove_state_free (p : Padder) (hs : p.scheme ≠ .null) (st st' : PadState) (x : List Nat) :
    p.remove st x = p.remove st' x := by
  obtain ⟨s, bs⟩ := p
  cases s <;> first | rfl | exact absurd rfl hs

theorem mkPad_scheme {c : BlockCipher} {s : Scheme} {p : Padder} (h : mkPad c s = .ok p) : p.scheme = s := by
  unfold mkPad Padder.mk? at h
  split at h
  · cases h
  · split at h
    · cases h
    · cases h; rfl

/-- `run` over a concatenated history -/
theorem seq_run_append (cfg : Cfg) (c : BlockCipher) : ∀ (h₁ h₂ : List Seq.Step) (o : Seq.Obj),
    Seq.Obj.run cfg c o (h₁ ++ h₂) =
      ((Seq.Obj.run cfg c o h₁).1 ++ (Seq.Obj.run cfg c (Seq.Obj.run cfg c o h₁).2 h₂).1,
       (Seq.Obj.run cfg c (Seq.Obj.run cfg c o h₁).2 h₂).2)
  | [], _, _ => rfl
  | s :: ss, h₂, o => by
    simp only [List.cons_append, Seq.Obj.run, seq_run_append cfg c ss h₂]

/-- the last call of a history is a `dec`: its result is `dec` in the padding state the history left -/
theorem seq_run_last_dec (cfg : Cfg) (c : BlockCipher) (o : Seq.Obj) (hist : List Seq.Step) (C : List Nat) :
    (Seq.Obj.run cfg c o (hist ++ [.dec C])).1.getLast? = some (cfg.dec c C (Seq.Obj.run cfg c o hist).2.pad) := by
  simp [seq_run_append, Seq.Obj.run, Seq.Obj.step]

/-- … after `before`, one call `s`, and `between` -/
theorem seq_run_then_dec (cfg : Cfg) (c : BlockCipher) (o : Seq.Obj) (before between : List Seq.Step) (s : Seq.Step) (C : List Nat) :
    (Seq.Obj.run cfg c o (before ++ s :: between ++ [.dec C])).1.getLast?
      = some (cfg.dec c C (Seq.Obj.run cfg c o (before ++ s :: between)).2.pad) := by
  rw [show before ++ s :: between ++ [Seq.Step.dec C] = (before ++ s :: between) ++ [Seq.Step.dec C] by simp]
  exact seq_run_last_dec cfg c o _ C

theorem seq_run_last_enc (cfg : Cfg) (c : BlockCipher) (o : Seq.Obj) (hist : List Seq.Step) (M : List Nat) :
    (Seq.Obj.run cfg c o (hist ++ [.enc M])).1.getLast? = some (cfg.enc c M) := by
  simp [seq_run_append, Seq.Obj.run, Seq.Obj.step]

end Proofs.Lemmas.ModeL
