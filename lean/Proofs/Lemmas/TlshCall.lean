/-
  Helper lemmas for C19: the TLSH object model (Model.Objects.TlshO) called on an object in any state computes the one-shot
  function Model.Tlsh.tlsh — the in-place code loop `tmp_code[i] += code<<(j*2)` on a zeroed `tmp_code` is `bodyCode`.
-/
import Model.Tlsh
import Model.Objects
namespace Proofs.Lemmas.TlshCall
open Model Model.Tlsh Model.Objects

theorem quart_le (q1 q2 q3 bv : Nat) : quart q1 q2 q3 bv ≤ 3 := by
  unfold quart; split <;> (try split) <;> (try split) <;> omega

/-- byte i of `tmp_code` after the buckets 0..n-1 have been scored -/
def pb (q1 q2 q3 : Nat) (bucket : List Nat) (n i : Nat) : Nat :=
  (if 4 * i < n then quart q1 q2 q3 (bucket.getD (4 * i) 0) else 0)
  + (if 4 * i + 1 < n then quart q1 q2 q3 (bucket.getD (4 * i + 1) 0) <<< 2 else 0)
  + (if 4 * i + 2 < n then quart q1 q2 q3 (bucket.getD (4 * i + 2) 0) <<< 4 else 0)
  + (if 4 * i + 3 < n then quart q1 q2 q3 (bucket.getD (4 * i + 3) 0) <<< 6 else 0)

theorem pb_le (q1 q2 q3 : Nat) (bucket : List Nat) (n i : Nat) : pb q1 q2 q3 bucket n i ≤ 255 := by
  unfold pb
  have a := quart_le q1 q2 q3 (bucket.getD (4 * i) 0)
  have b := quart_le q1 q2 q3 (bucket.getD (4 * i + 1) 0)
  have c := quart_le q1 q2 q3 (bucket.getD (4 * i + 2) 0)
  have d := quart_le q1 q2 q3 (bucket.getD (4 * i + 3) 0)
  simp only [Nat.shiftLeft_eq]
  split <;> split <;> split <;> split <;> omega

theorem pb_zero (q1 q2 q3 : Nat) (bucket : List Nat) (i : Nat) : pb q1 q2 q3 bucket 0 i = 0 := by
  simp [pb]

theorem pb_full (q1 q2 q3 : Nat) (bucket : List Nat) (L i : Nat) (hi : i < L) :
    pb q1 q2 q3 bucket (4 * L) i = codeByte q1 q2 q3 bucket i := by
  unfold pb codeByte
  rw [if_pos (by omega), if_pos (by omega), if_pos (by omega), if_pos (by omega)]

theorem pb_succ_other (q1 q2 q3 : Nat) (bucket : List Nat) (n i : Nat) (h : i ≠ n / 4) :
    pb q1 q2 q3 bucket (n + 1) i = pb q1 q2 q3 bucket n i := by
  unfold pb
  have h0 : (4 * i < n + 1) ↔ (4 * i < n) := by omega
  have h1 : (4 * i + 1 < n + 1) ↔ (4 * i + 1 < n) := by omega
  have h2 : (4 * i + 2 < n + 1) ↔ (4 * i + 2 < n) := by omega
  have h3 : (4 * i + 3 < n + 1) ↔ (4 * i + 3 < n) := by omega
  simp only [h0, h1, h2, h3]

theorem pb_succ_same (q1 q2 q3 : Nat) (bucket : List Nat) (n : Nat) :
    pb q1 q2 q3 bucket (n + 1) (n / 4)
      = pb q1 q2 q3 bucket n (n / 4) + (quart q1 q2 q3 (bucket.getD n 0) <<< (2 * (n % 4))) := by
  have hn : n = 4 * (n / 4) + n % 4 := by omega
  have hj : n % 4 = 0 ∨ n % 4 = 1 ∨ n % 4 = 2 ∨ n % 4 = 3 := by omega
  generalize n / 4 = i at hn
  generalize n % 4 = j at hn hj
  subst hn
  unfold pb
  rcases hj with rfl | rfl | rfl | rfl
  · rw [if_pos (by omega), if_neg (by omega), if_neg (by omega), if_neg (by omega),
        if_neg (by omega), if_neg (by omega), if_neg (by omega), if_neg (by omega)]
    simp
  · rw [if_pos (by omega), if_pos (by omega), if_neg (by omega), if_neg (by omega),
        if_pos (by omega), if_neg (by omega), if_neg (by omega), if_neg (by omega)]
    simp
  · rw [if_pos (by omega), if_pos (by omega), if_pos (by omega), if_neg (by omega),
        if_pos (by omega), if_pos (by omega), if_neg (by omega), if_neg (by omega)]
    simp
  · rw [if_pos (by omega), if_pos (by omega), if_pos (by omega), if_pos (by omega),
        if_pos (by omega), if_pos (by omega), if_pos (by omega), if_neg (by omega)]
    simp

/-- one more bucket: the byte n/4 grows by the code of bucket n -/
theorem map_pb_succ (q1 q2 q3 : Nat) (bucket : List Nat) (L n : Nat) :
    (List.range L).map (pb q1 q2 q3 bucket (n + 1))
      = ((List.range L).map (pb q1 q2 q3 bucket n)).set (n / 4)
          (pb q1 q2 q3 bucket n (n / 4) + (quart q1 q2 q3 (bucket.getD n 0) <<< (2 * (n % 4)))) := by
  apply List.ext_getElem
  · simp
  · intro i h1 h2
    simp only [List.length_map, List.length_range] at h1
    simp only [List.getElem_map, List.getElem_range, List.getElem_set, List.length_map, List.length_range]
    by_cases h : n / 4 = i
    · subst h; simp only [if_true]; exact pb_succ_same q1 q2 q3 bucket n
    · simp only [h, if_false]; exact pb_succ_other q1 q2 q3 bucket n i (fun e => h e.symm)

/-- the body of the loop of `TlshO.codeLoop` -/
def stepF (q1 q2 q3 : Nat) (bucket : List Nat) (acc : List Nat × Option Err) (bi : Nat) : List Nat × Option Err :=
  match acc.2 with
  | some _ => acc
  | none =>
    if quart q1 q2 q3 (bucket.getD bi 0) = 0 then acc else
    match acc.1[bi / 4]? with
    | none => (acc.1, some "IndexError")
    | some x =>
      if x + (quart q1 q2 q3 (bucket.getD bi 0) <<< (2 * (bi % 4))) > 255 then (acc.1, some "ValueError")
      else (acc.1.set (bi / 4) (x + (quart q1 q2 q3 (bucket.getD bi 0) <<< (2 * (bi % 4)))), none)

theorem codeLoop_eq (c : Tlsh.Cfg) (q1 q2 q3 : Nat) (bucket tmp : List Nat) :
    TlshO.codeLoop c q1 q2 q3 bucket tmp = (List.range c.buckets).foldl (stepF q1 q2 q3 bucket) (tmp, none) := rfl

theorem stepF_pb (q1 q2 q3 : Nat) (bucket : List Nat) (L n : Nat) (hn : n < 4 * L) :
    stepF q1 q2 q3 bucket ((List.range L).map (pb q1 q2 q3 bucket n), none) n
      = ((List.range L).map (pb q1 q2 q3 bucket (n + 1)), none) := by
  have hi : n / 4 < L := by omega
  have hget : ((List.range L).map (pb q1 q2 q3 bucket n))[n / 4]? = some (pb q1 q2 q3 bucket n (n / 4)) := by
    simp [hi]
  have hle := pb_le q1 q2 q3 bucket (n + 1) (n / 4)
  rw [pb_succ_same] at hle
  rw [map_pb_succ]
  unfold stepF
  simp only [hget]
  by_cases hq : quart q1 q2 q3 (bucket.getD n 0) = 0
  · simp only [hq, if_true, Nat.zero_shiftLeft, Nat.add_zero]
    congr 1
    apply List.ext_getElem
    · simp
    · intro i h1 h2
      simp only [List.getElem_set, List.getElem_map, List.getElem_range]
      split
      · next h => subst h; rfl
      · rfl
  · simp only [hq, if_false, if_neg (Nat.not_lt.2 hle)]

theorem foldl_stepF (q1 q2 q3 : Nat) (bucket : List Nat) (L : Nat) : ∀ n, n ≤ 4 * L →
    (List.range n).foldl (stepF q1 q2 q3 bucket) (List.replicate L 0, none)
      = ((List.range L).map (pb q1 q2 q3 bucket n), none)
  | 0, _ => by
    simp only [List.range_zero, List.foldl_nil]
    congr 1
    apply List.ext_getElem
    · simp
    · intro i h1 h2; simp [pb_zero]
  | n + 1, h => by
    rw [List.range_succ, List.foldl_append, foldl_stepF q1 q2 q3 bucket L n (by omega)]
    simp only [List.foldl_cons, List.foldl_nil]
    exact stepF_pb q1 q2 q3 bucket L n (by omega)

/-- the in-place code loop on a zeroed `tmp_code` never raises and leaves `bodyCode` -/
theorem codeLoop_zero (c : Tlsh.Cfg) (hc : c.buckets = 4 * c.codesize) (q1 q2 q3 : Nat) (bucket : List Nat) :
    TlshO.codeLoop c q1 q2 q3 bucket (List.replicate c.codesize 0) = (bodyCode c q1 q2 q3 bucket, none) := by
  rw [codeLoop_eq, hc, foldl_stepF q1 q2 q3 bucket c.codesize (4 * c.codesize) (Nat.le_refl _)]
  congr 1
  unfold bodyCode
  apply List.map_congr_left
  intro i hi
  exact pb_full q1 q2 q3 bucket c.codesize i (List.mem_range.1 hi)


/-- what `obj(data,force)` hands to the caller for a result of the one-shot function: the digest bytes, `None`, or the exception -/
def resOf : Except Err (Option (List Nat)) → Res
  | .ok (some d) => .ok (.bytes d)
  | .ok none => .ok .none
  | .error e => .error e

theorem valid_buckets (c : Tlsh.Cfg) (hc : c.valid = true) : c.buckets = 4 * c.codesize := by
  unfold Cfg.valid at hc
  unfold Cfg.codesize
  simp only [Bool.and_eq_true, Bool.or_eq_true, beq_iff_eq] at hc
  rcases hc.1.1 with (h | h) | h <;> rw [h]

/-- `finish` on an object whose buckets are filled and whose `tmp_code` is still zero -/
theorem finish_zero (lcap : Nat → Nat) (u : TlshO.State) (bucket : List Nat) (hb : u.cfg.buckets = 4 * u.cfg.codesize)
    (ha : u.a_bucket = some bucket) (ht : u.tmp_code = List.replicate u.cfg.codesize 0) (force : Bool) :
    TlshO.finish lcap u force =
      if u.data_len < Gen.Lsh.minLen ∨ (force = false ∧ u.data_len < Gen.Lsh.minLenNoForce) then (u, .ok .none) else
      if Tlsh.tooFew u.cfg.buckets (Tlsh.nonzero u.cfg bucket) then (u, .ok .none) else
      if (Tlsh.quartiles u.cfg bucket).2.2 = 0 then
        ({ u with tmp_code := bodyCode u.cfg (Tlsh.quartiles u.cfg bucket).1 (Tlsh.quartiles u.cfg bucket).2.1 (Tlsh.quartiles u.cfg bucket).2.2 bucket,
                  Lvalue := lcap u.data_len % 256 }, .error "ZeroDivisionError")
      else
        ({ u with tmp_code := bodyCode u.cfg (Tlsh.quartiles u.cfg bucket).1 (Tlsh.quartiles u.cfg bucket).2.1 (Tlsh.quartiles u.cfg bucket).2.2 bucket,
                  Lvalue := lcap u.data_len % 256,
                  q1_ratio := some ((Tlsh.quartiles u.cfg bucket).1 * 100 / (Tlsh.quartiles u.cfg bucket).2.2 % 16),
                  q2_ratio := some ((Tlsh.quartiles u.cfg bucket).2.1 * 100 / (Tlsh.quartiles u.cfg bucket).2.2 % 16),
                  lsh_code_valid := true }, .ok .obj) := by
  unfold TlshO.finish
  simp only [ha, ht, codeLoop_zero u.cfg hb]

/-- `obj(data,force)` on an object in ANY state is the one-shot function of the configuration and the arguments -/
theorem call_eq_tlsh (lcap : Nat → Nat) (s : TlshO.State) (hc : s.cfg.valid = true) (data : List Nat) (force : Bool) :
    (TlshO.step lcap s (.call data force)).2 = resOf (Tlsh.tlsh lcap s.cfg data force) := by
  have hb := valid_buckets s.cfg hc
  have hmin : 0 < Gen.Lsh.minLen := by decide
  by_cases hd : data = []
  · subst hd
    simp [TlshO.step, TlshO.final, TlshO.reset, TlshO.finish, Tlsh.tlsh, Tlsh.final, hc, resOf, hmin, Except.map]
  · have hne : data.isEmpty = false := by cases data <;> simp_all
    have hu : TlshO.update (TlshO.reset s) data =
        { TlshO.reset s with a_bucket := some (Tlsh.update s.cfg data).bucket,
                             checksum := (Tlsh.update s.cfg data).checksum, data_len := 0 + data.length } := rfl
    have hf : TlshO.final lcap (TlshO.reset s) data force = TlshO.finish lcap (TlshO.update (TlshO.reset s) data) force := by
      unfold TlshO.final
      rw [if_neg (by simp [TlshO.reset]), hne]
      rfl
    unfold TlshO.step
    simp only [hf]
    rw [finish_zero lcap (TlshO.update (TlshO.reset s) data) (Tlsh.update s.cfg data).bucket hb rfl rfl]
    simp only [hu]
    simp only [Nat.zero_add, TlshO.reset, Tlsh.tlsh, hc, Tlsh.final]
    by_cases h1 : data.length < Gen.Lsh.minLen ∨ (force = false ∧ data.length < Gen.Lsh.minLenNoForce)
    · simp [h1, resOf, Except.map]
    · by_cases h2 : tooFew s.cfg.buckets (nonzero s.cfg (Tlsh.update s.cfg data).bucket) = true
      · simp [h1, h2, resOf, Except.map]
      · by_cases h3 : (quartiles s.cfg (Tlsh.update s.cfg data).bucket).2.2 = 0
        · simp [h1, h2, h3, resOf, Except.map]
        · simp [h1, h2, h3, resOf, Except.map, TlshO.digest, TlshO.lshRes, TlshO.tobj, Tlsh.digest]

end Proofs.Lemmas.TlshCall
