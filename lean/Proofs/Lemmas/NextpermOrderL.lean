/-
  Proofs.Lemmas.NextpermOrderL — order facts behind "next lexicographic permutation" on `List Int` with the core
  lexicographic order (`<`, and `a ≤ b` = `¬ b < a`):
    * an ascending list is the least arrangement of its elements, a descending one the greatest;
    * pivot form: for l = pre ++ a :: suf with suf descending, b the least element of suf above a, and `rest` the
      ascending arrangement of the other elements of a :: suf, the list pre ++ b :: rest is the least arrangement
      of l that is greater than l.
-/
namespace Proofs.Lemmas.NextpermOrderL

def Asc (s : List Int) : Prop := s.Pairwise (· ≤ ·)
def Desc (s : List Int) : Prop := s.Pairwise (· ≥ ·)

theorem asc_least : ∀ (s : List Int), Asc s → ∀ q : List Int, q.Perm s → s ≤ q := by
  intro s
  induction s with
  | nil => intro _ q hq; rw [List.perm_nil.1 hq]; exact List.le_refl _
  | cons a s ih =>
    intro hs q hq
    cases q with
    | nil => have := hq.length_eq; simp at this
    | cons y q =>
      have hy : y ∈ a :: s := hq.mem_iff.1 (by simp)
      have hs' := List.pairwise_cons.1 hs
      have hay : a ≤ y := by
        rcases List.mem_cons.1 hy with h | h
        · omega
        · exact hs'.1 y h
      rw [List.cons_le_cons_iff]
      by_cases hlt : a < y
      · exact Or.inl hlt
      · have heq : a = y := by omega
        subst heq
        exact Or.inr ⟨rfl, ih hs'.2 q hq.cons_inv⟩

theorem desc_greatest : ∀ (s : List Int), Desc s → ∀ q : List Int, q.Perm s → q ≤ s := by
  intro s
  induction s with
  | nil => intro _ q hq; rw [List.perm_nil.1 hq]; exact List.le_refl _
  | cons a s ih =>
    intro hs q hq
    cases q with
    | nil => have := hq.length_eq; simp at this
    | cons y q =>
      have hy : y ∈ a :: s := hq.mem_iff.1 (by simp)
      have hs' := List.pairwise_cons.1 hs
      have hya : y ≤ a := by
        rcases List.mem_cons.1 hy with h | h
        · omega
        · exact hs'.1 y h
      rw [List.cons_le_cons_iff]
      by_cases hlt : y < a
      · exact Or.inl hlt
      · have heq : y = a := by omega
        subst heq
        exact Or.inr ⟨rfl, ih hs'.2 q hq.cons_inv⟩

/-- a descending list has no greater arrangement -/
theorem desc_no_succ (l : List Int) (h : Desc l) : ¬ ∃ p : List Int, p.Perm l ∧ l < p := by
  rintro ⟨p, hp, hlt⟩
  exact (desc_greatest l h p hp) hlt

/-- the pivot form gives the least greater arrangement -/
theorem pivot_least (a b : Int) (suf rest : List Int) (hsuf : Desc suf) (hrest : Asc rest)
    (hbmin : ∀ y ∈ suf, a < y → b ≤ y) (hperm : (b :: rest).Perm (a :: suf)) :
    ∀ (pre p : List Int), p.Perm (pre ++ a :: suf) → pre ++ a :: suf < p → pre ++ b :: rest ≤ p := by
  intro pre
  induction pre with
  | nil =>
    intro p hp hlt
    simp only [List.nil_append] at hp hlt ⊢
    cases p with
    | nil => exact absurd hlt (List.not_lt_nil _)
    | cons y q =>
      rw [List.cons_lt_cons_iff] at hlt
      have hay : a < y := by
        rcases hlt with h | ⟨h, hq⟩
        · exact h
        · subst h
          exact absurd hq (desc_greatest suf hsuf q hp.cons_inv)
      have hy : y ∈ suf := by
        have : y ∈ a :: suf := hp.mem_iff.1 (by simp)
        rcases List.mem_cons.1 this with h | h
        · omega
        · exact h
      have hby := hbmin y hy hay
      rw [List.cons_le_cons_iff]
      by_cases hlt' : b < y
      · exact Or.inl hlt'
      · have heq : b = y := by omega
        subst heq
        exact Or.inr ⟨rfl, asc_least rest hrest q (hp.trans hperm.symm).cons_inv⟩
  | cons x pre ih =>
    intro p hp hlt
    simp only [List.cons_append] at hp hlt ⊢
    cases p with
    | nil => exact absurd hlt (List.not_lt_nil _)
    | cons y q =>
      rw [List.cons_lt_cons_iff] at hlt
      rw [List.cons_le_cons_iff]
      rcases hlt with h | ⟨h, hq⟩
      · exact Or.inl h
      · subst h
        exact Or.inr ⟨rfl, ih q hp.cons_inv hq⟩

theorem pivot_lt (a b : Int) (suf rest pre : List Int) (hab : a < b) : pre ++ a :: suf < pre ++ b :: rest :=
  List.append_left_lt (List.cons_lt_cons_iff.2 (Or.inl hab))

end Proofs.Lemmas.NextpermOrderL
