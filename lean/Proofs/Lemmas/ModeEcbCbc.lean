import Proofs.Lemmas.ModeL
import Proofs.Lemmas.ModePadL
open Model Model.Mode Proofs.Lemmas.ModeL
namespace Proofs.Lemmas.ModeL
variable {c : BlockCipher} {k : Spec.Mode.Cipher}

theorem forBlocks_ok (bs : List (List Nat)) (f : List (List Nat) → Except Err (List (List Nat))) (r : List (List Nat))
    (h : f bs = .ok r) : forBlocks (bs, none) f = .ok r := by
  simp [forBlocks, h]

theorem ecb_enc_of (h : Implements c k) (s : Spec.ModePad.Scheme) (M : List Nat) (pf : PadFacts s c.len M) :
    ECB.enc c (toModel s) M = .ok (Spec.Mode.ecb k s M) := by
  obtain ⟨n, hn⟩ := pf.len
  have hb : ∀ b ∈ readBlocks c.len n (Spec.ModePad.pad s c.len M), IsBlock c.len b := readBlocks_isBlock hn pf.bytes
  unfold ECB.enc
  rw [mkPad_ok c _ h.len_pos]
  simp only [pf.iter, blocks_of_mult c.len n h.len_pos _ hn]
  rw [forBlocks_ok _ _ _ (mapE_ok c.enc k.E _ (fun b hb' => h.enc_ok b (hb b hb')))]
  simp only [Spec.Mode.ecb, Spec.Mode.concat, Spec.Mode.ecbEncrypt, h.len_eq, blocks_of_mult c.len n h.len_pos _ hn]

theorem ecb_dec_of (h : Implements c k) (s : Spec.ModePad.Scheme) (M : List Nat) (pf : PadFacts s c.len M) (st : PadState) :
    ECB.dec c (toModel s) (Spec.Mode.ecb k s M) st = .ok M := by
  obtain ⟨n, hn⟩ := pf.len
  have hb : ∀ b ∈ readBlocks c.len n (Spec.ModePad.pad s c.len M), IsBlock c.len b := readBlocks_isBlock hn pf.bytes
  have hE : ∀ b ∈ (readBlocks c.len n (Spec.ModePad.pad s c.len M)).map k.E, IsBlock c.len b := by
    intro b hb'
    obtain ⟨a, ha, rfl⟩ := List.mem_map.1 hb'
    exact h.E_block a (hb a ha)
  have hC : Spec.Mode.ecb k s M = join ((readBlocks c.len n (Spec.ModePad.pad s c.len M)).map k.E) := by
    simp only [Spec.Mode.ecb, Spec.Mode.concat, Spec.Mode.ecbEncrypt, h.len_eq, blocks_of_mult c.len n h.len_pos _ hn]
  have hlen : (Spec.Mode.ecb k s M).length = n * c.len := by
    rw [hC, length_join_of_all c.len _ (fun b hb' => (hE b hb').1), List.length_map, readBlocks_length]
  unfold ECB.dec
  rw [mkPad_ok c _ h.len_pos]
  simp only [hlen, Nat.mul_mod_left, Nat.mul_div_cancel _ h.len_pos, ne_eq, not_true_eq_false, if_false]
  have hrd : readBlocks c.len n (Spec.Mode.ecb k s M) = (readBlocks c.len n (Spec.ModePad.pad s c.len M)).map k.E := by
    rw [hC]
    have := readBlocks_join c.len _ (fun b hb' => (hE b hb').1)
    rwa [List.length_map, readBlocks_length] at this
  rw [hrd, mapE_ok c.dec k.D _ (fun b hb' => h.dec_ok b (hE b hb'))]
  simp only [List.map_map]
  have hid : List.map (k.D ∘ k.E) (readBlocks c.len n (Spec.ModePad.pad s c.len M)) = readBlocks c.len n (Spec.ModePad.pad s c.len M) := by
    conv => rhs; rw [← List.map_id (readBlocks c.len n (Spec.ModePad.pad s c.len M))]
    apply List.map_congr_left
    intro b hb'
    simp [h.D_E b (hb b hb')]
  rw [hid, join_readBlocks c.len n _ (by omega)]
  exact pf.remove st

theorem cbcEncrypt_length (k : Spec.Mode.Cipher) : ∀ (P : List (List Nat)) (iv : List Nat),
    (Spec.Mode.cbcEncrypt k iv P).length = P.length
  | [], _ => rfl
  | p :: ps, iv => by simp [Spec.Mode.cbcEncrypt, cbcEncrypt_length k ps]

theorem cbc_enc_of (h : Implements c k) (iv : List Nat) (hiv : IsBlock c.len iv) (s : Spec.ModePad.Scheme) (M : List Nat)
    (pf : PadFacts s c.len M) : CBC.enc c iv (toModel s) M = .ok (Spec.Mode.cbc k iv s M) := by
  obtain ⟨n, hn⟩ := pf.len
  have hb : ∀ b ∈ readBlocks c.len n (Spec.ModePad.pad s c.len M), IsBlock c.len b := readBlocks_isBlock hn pf.bytes
  unfold CBC.enc
  rw [mkPad_ok c _ h.len_pos]
  simp only [pf.iter, blocks_of_mult c.len n h.len_pos _ hn, hiv.1, ne_eq, not_true_eq_false, if_false]
  rw [forBlocks_ok _ _ _ (cbcChain_eq h _ iv hiv hb).1]
  simp only [Spec.Mode.cbc, Spec.Mode.concat, h.len_eq, blocks_of_mult c.len n h.len_pos _ hn, join, List.flatten_cons]

theorem cbc_dec_of (h : Implements c k) (iv : List Nat) (hiv : IsBlock c.len iv) (s : Spec.ModePad.Scheme) (M : List Nat)
    (pf : PadFacts s c.len M) (st : PadState) : CBC.dec c iv (toModel s) (Spec.Mode.cbc k iv s M) st = .ok M := by
  obtain ⟨n, hn⟩ := pf.len
  have hb : ∀ b ∈ readBlocks c.len n (Spec.ModePad.pad s c.len M), IsBlock c.len b := readBlocks_isBlock hn pf.bytes
  obtain ⟨_, hCs⟩ := cbcChain_eq h _ iv hiv hb
  generalize hP : readBlocks c.len n (Spec.ModePad.pad s c.len M) = P at hb hCs
  have hC : Spec.Mode.cbc k iv s M = join (iv :: (Spec.Mode.cbcEncrypt k iv P).reverse.reverse) := by
    simp only [Spec.Mode.cbc, Spec.Mode.concat, h.len_eq, blocks_of_mult c.len n h.len_pos _ hn, hP, join, List.flatten_cons,
      List.reverse_reverse]
  have hall : ∀ b ∈ iv :: Spec.Mode.cbcEncrypt k iv P, b.length = c.len := by
    intro b hb'; rcases List.mem_cons.1 hb' with rfl | hb'
    · exact hiv.1
    · exact (hCs b hb').1
  have hlen : (Spec.Mode.cbc k iv s M).length = (P.length + 1) * c.len := by
    rw [hC, List.reverse_reverse, length_join_of_all c.len _ hall, List.length_cons, cbcEncrypt_length]
  have hpos := h.len_pos
  unfold CBC.dec
  rw [mkPad_ok c _ h.len_pos]
  simp only [hlen, Nat.mul_mod_left, hiv.1, ne_eq, not_true_eq_false, if_false]
  rw [hC, cbcUnchain_rev h _ iv [] _ hiv.1 (fun b hb' => hCs b (List.mem_reverse.1 hb'))
    (by rw [List.length_reverse, cbcEncrypt_length]
        calc P.length ≤ (P.length + 1) * 1 := by omega
          _ ≤ (P.length + 1) * c.len := Nat.mul_le_mul_left _ hpos)]
  simp only [List.reverse_reverse, List.append_nil, cbcDecrypt_encrypt h P iv hiv hb]
  rw [← hP, join_readBlocks c.len n _ (by omega)]
  exact pf.remove st

theorem ecb_length_of (h : Implements c k) (s : Spec.ModePad.Scheme) (M : List Nat) (pf : PadFacts s c.len M) :
    (Spec.Mode.ecb k s M).length = (Spec.ModePad.pad s c.len M).length := by
  obtain ⟨n, hn⟩ := pf.len
  have hb : ∀ b ∈ readBlocks c.len n (Spec.ModePad.pad s c.len M), IsBlock c.len b := readBlocks_isBlock hn pf.bytes
  have hE : ∀ b ∈ (readBlocks c.len n (Spec.ModePad.pad s c.len M)).map k.E, b.length = c.len := by
    intro b hb'
    obtain ⟨a, ha, rfl⟩ := List.mem_map.1 hb'
    exact (h.E_block a (hb a ha)).1
  simp only [Spec.Mode.ecb, Spec.Mode.concat, Spec.Mode.ecbEncrypt, h.len_eq, blocks_of_mult c.len n h.len_pos _ hn]
  have := length_join_of_all c.len _ hE
  simp only [join] at this
  rw [this, List.length_map, readBlocks_length, hn]

theorem cbc_length_of (h : Implements c k) (iv : List Nat) (hiv : IsBlock c.len iv) (s : Spec.ModePad.Scheme) (M : List Nat)
    (pf : PadFacts s c.len M) :
    (Spec.Mode.cbc k iv s M).length = (Spec.ModePad.pad s c.len M).length + c.len := by
  obtain ⟨n, hn⟩ := pf.len
  have hb : ∀ b ∈ readBlocks c.len n (Spec.ModePad.pad s c.len M), IsBlock c.len b := readBlocks_isBlock hn pf.bytes
  obtain ⟨_, hCs⟩ := cbcChain_eq h _ iv hiv hb
  simp only [Spec.Mode.cbc, Spec.Mode.concat, h.len_eq, blocks_of_mult c.len n h.len_pos _ hn, List.length_append]
  have := length_join_of_all c.len _ (fun b hb' => (hCs b hb').1)
  simp only [join] at this
  rw [this, cbcEncrypt_length, readBlocks_length, hn, hiv.1]; omega

/-- length of the padded message -/
theorem pad_length (s : Spec.ModePad.Scheme) (l : Nat) (hl : 0 < l) (M : List Nat) :
    (Spec.ModePad.pad s l M).length = if s = .none then M.length else (M.length / l + 1) * l := by
  cases s with
  | none => rfl
  | pkcs7 => exact pkcs7_len l hl M
  | x923 => exact x923_len l hl M
  | bit => exact bitpad_len l hl M

end Proofs.Lemmas.ModeL
