/-
  Proofs.Lemmas.History — the generic part of property C10: for a `Model.Objects.Machine` whose steps preserve
  the configuration (up to explicit re-configuration), preserve the invariant, and whose probe results depend on
  the configuration only, the result of a probe after ANY history equals its result on a fresh object.
-/
import Model.Objects
namespace Proofs.Lemmas.History
open Model Model.Objects

/-- what has to be shown per object kind.
    `Adm`   = the configurations the property quantifies over,
    `Valid` = the well-formed operations (arguments a Python caller can actually pass),
    `Inv`   = what is assumed about scratch state (`True`: nothing, i.e. havoc) -/
structure Sound (M : Machine) (Adm : M.Cfg → Prop) (Valid : M.Op → Prop) (Inv : M.State → Prop) : Prop where
  /-- a fresh object carries the configuration it was constructed with -/
  cfg_init : ∀ c, M.cfg (M.init c) = c
  /-- no operation — erroring ones included — changes the configuration, except as `reconf` says -/
  cfg_preserved : ∀ s op, M.cfg (M.next s op) = M.reconf (M.cfg s) op
  adm_reconf : ∀ c op, Adm c → Adm (M.reconf c op)
  inv_init : ∀ c, Adm c → Inv (M.init c)
  inv_preserved : ∀ s op, Valid op → Inv s → Inv (M.next s op)
  /-- a probe returns the same on ALL states (reachable or not) that satisfy the invariant and share the configuration -/
  result_depends_on_cfg : ∀ s s' op, M.probe op = true → Valid op → Adm (M.cfg s) → Inv s → Inv s' → M.cfg s = M.cfg s' →
    M.out s op = M.out s' op

variable {M : Machine} {Adm : M.Cfg → Prop} {Valid : M.Op → Prop} {Inv : M.State → Prop}

theorem cfg_run (h : Sound M Adm Valid Inv) (s : M.State) (ops : List M.Op) :
    M.cfg (M.run s ops) = M.reconfAll (M.cfg s) ops := by
  induction ops generalizing s with
  | nil => rfl
  | cons op ops ih =>
    simp only [Machine.run, Machine.reconfAll, List.foldl_cons] at ih ⊢
    rw [ih (M.next s op), h.cfg_preserved]

theorem inv_run (h : Sound M Adm Valid Inv) (s : M.State) (ops : List M.Op) (hv : ∀ op ∈ ops, Valid op) (hs : Inv s) :
    Inv (M.run s ops) := by
  induction ops generalizing s with
  | nil => exact hs
  | cons op ops ih =>
    simp only [Machine.run, List.foldl_cons] at ih ⊢
    exact ih (M.next s op) (fun o ho => hv o (List.mem_cons_of_mem _ ho)) (h.inv_preserved s op (hv op List.mem_cons_self) hs)

theorem adm_reconfAll (h : Sound M Adm Valid Inv) (c : M.Cfg) (ops : List M.Op) (hc : Adm c) : Adm (M.reconfAll c ops) := by
  induction ops generalizing c with
  | nil => exact hc
  | cons op ops ih =>
    simp only [Machine.reconfAll, List.foldl_cons] at ih ⊢
    exact ih _ (h.adm_reconf c op hc)

/-- the corollary: result after any history = result on a fresh object with the (re-)configured configuration -/
theorem history_independent (h : Sound M Adm Valid Inv) (c : M.Cfg) (hc : Adm c) (ops : List M.Op) (hv : ∀ op ∈ ops, Valid op)
    (p : M.Op) (hp : M.probe p = true) (hvp : Valid p) : M.after c ops p = M.fresh c ops p := by
  unfold Machine.after Machine.fresh
  have e : M.cfg (M.run (M.init c) ops) = M.cfg (M.init (M.reconfAll c ops)) := by
    rw [cfg_run h, h.cfg_init, h.cfg_init]
  have ha := adm_reconfAll h c ops hc
  apply h.result_depends_on_cfg _ _ _ hp hvp _ (inv_run h _ _ hv (h.inv_init c hc)) (h.inv_init _ ha) e
  rw [e, h.cfg_init]; exact ha

/-- without re-configuration steps the fresh object is `init c` itself -/
theorem reconfAll_id (hr : ∀ c op, M.reconf c op = c) (c : M.Cfg) (ops : List M.Op) : M.reconfAll c ops = c := by
  induction ops generalizing c with
  | nil => rfl
  | cons op ops ih => simp only [Machine.reconfAll, List.foldl_cons] at ih ⊢; rw [hr, ih]

theorem history_independent' (h : Sound M Adm Valid Inv) (hr : ∀ c op, M.reconf c op = c) (c : M.Cfg) (hc : Adm c)
    (ops : List M.Op) (hv : ∀ op ∈ ops, Valid op) (p : M.Op) (hp : M.probe p = true) (hvp : Valid p) :
    M.after c ops p = M.out (M.init c) p := by
  rw [history_independent h c hc ops hv p hp hvp]; unfold Machine.fresh; rw [reconfAll_id hr]

/-- validity of an operation of a pair -/
def pairValid {M N : Machine} (V : M.Op → Prop) (W : N.Op → Prop) : (Machine.pair M N).Op → Prop
  | .inl o => V o
  | .inr o => W o

/-- an object and a bystander (sibling instance, module-level singleton): interleavings are histories of the pair -/
theorem pair_sound {M N : Machine} {A : M.Cfg → Prop} {B : N.Cfg → Prop} {V : M.Op → Prop} {W : N.Op → Prop}
    {I : M.State → Prop} {J : N.State → Prop} (hM : Sound M A V I) (hN : Sound N B W J) :
    Sound (Machine.pair M N) (fun c => A c.1 ∧ B c.2) (pairValid V W) (fun s => I s.1 ∧ J s.2) where
  cfg_init c := by
    show (M.cfg (M.init c.1), N.cfg (N.init c.2)) = c
    rw [hM.cfg_init, hN.cfg_init]; rfl
  cfg_preserved s op := by
    cases op with
    | inl o => simp only [Machine.pair, hM.cfg_preserved]
    | inr o => simp only [Machine.pair, hN.cfg_preserved]
  adm_reconf c op hc := by
    cases op with
    | inl o => exact ⟨hM.adm_reconf _ _ hc.1, hc.2⟩
    | inr o => exact ⟨hc.1, hN.adm_reconf _ _ hc.2⟩
  inv_init c hc := ⟨hM.inv_init _ hc.1, hN.inv_init _ hc.2⟩
  inv_preserved s op hv hs := by
    cases op with
    | inl o => exact ⟨hM.inv_preserved _ _ hv hs.1, hs.2⟩
    | inr o => exact ⟨hs.1, hN.inv_preserved _ _ hv hs.2⟩
  result_depends_on_cfg s s' op hp hv ha hs hs' hc := by
    have h1 : M.cfg s.1 = M.cfg s'.1 := congrArg Prod.fst hc
    have h2 : N.cfg s.2 = N.cfg s'.2 := congrArg Prod.snd hc
    cases op with
    | inl o => exact hM.result_depends_on_cfg _ _ _ hp hv ha.1 hs.1 hs'.1 h1
    | inr o => exact hN.result_depends_on_cfg _ _ _ hp hv ha.2 hs.2 hs'.2 h2

end Proofs.Lemmas.History
