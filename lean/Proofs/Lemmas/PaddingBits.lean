/-
  Helper lemmas for C09: bridge between the code's `Bits` plumbing (Model.Bits: `ival`/`size`, `reverse_byte`,
  `//`, `bytes()`, `pack`) and plain bit lists (Spec.Padding).  Self-contained on purpose (Lemmas/Bits*.lean is
  written concurrently by another builder).
-/
import Model.Padding
import Spec.Padding
namespace Proofs.Lemmas.Padding
open Model Model.Py Spec.Padding

/-- a list of byte values -/
def Bytes (m : List Nat) : Prop := ∀ x ∈ m, x < 256

/-- denotation of a `Bits` value: its bits, first bit first -/
def bools (b : Model.Bits) : List Bool := (List.range b.size).map b.ival.testBit

@[simp] theorem bools_length (b : Model.Bits) : (bools b).length = b.size := by simp [bools]

theorem bools_getElem (b : Model.Bits) (i : Nat) (h : i < (bools b).length) : (bools b)[i] = b.ival.testBit i := by
  simp [bools]

/-! ### the byte domain, enumerated in the kernel -/

theorem reverseByte_lt : ∀ b < 256, Bits.reverseByte b < 256 := by decide +kernel

theorem reverseByte_testBit : ∀ b < 256, ∀ j < 8, (Bits.reverseByte b).testBit j = b.testBit (7 - j) := by
  decide +kernel

theorem byteOfBits_byteBits : ∀ x < 256, byteOfBits (byteBits x) = x := by decide +kernel

theorem reverseByte_eq_byteOfBits :
    ∀ x < 256, Bits.reverseByte x = byteOfBits ((List.range 8).map x.testBit) := by decide +kernel

theorem byteOfBits_testBits : ∀ x < 256, byteOfBits ((List.range 8).map fun j => x.testBit (7 - j)) = x :=
  byteOfBits_byteBits

theorem byteOfBits_unfold (l : List Bool) :
    byteOfBits l = 128 * (l.getD 0 false).toNat + 64 * (l.getD 1 false).toNat + 32 * (l.getD 2 false).toNat
      + 16 * (l.getD 3 false).toNat + 8 * (l.getD 4 false).toNat + 4 * (l.getD 5 false).toNat
      + 2 * (l.getD 6 false).toNat + (l.getD 7 false).toNat := by
  simp only [byteOfBits, List.range, List.range.loop, List.foldl]
  omega

theorem byteOfBits_congr (l1 l2 : List Bool) (h : ∀ j < 8, l1.getD j false = l2.getD j false) :
    byteOfBits l1 = byteOfBits l2 := by
  rw [byteOfBits_unfold, byteOfBits_unfold, h 0 (by omega), h 1 (by omega), h 2 (by omega), h 3 (by omega),
    h 4 (by omega), h 5 (by omega), h 6 (by omega), h 7 (by omega)]

theorem byteOfBits_lt (l : List Bool) : byteOfBits l < 256 := by
  rw [byteOfBits_unfold]
  have h0 := Bool.toNat_le (l.getD 0 false); have h1 := Bool.toNat_le (l.getD 1 false)
  have h2 := Bool.toNat_le (l.getD 2 false); have h3 := Bool.toNat_le (l.getD 3 false)
  have h4 := Bool.toNat_le (l.getD 4 false); have h5 := Bool.toNat_le (l.getD 5 false)
  have h6 := Bool.toNat_le (l.getD 6 false); have h7 := Bool.toNat_le (l.getD 7 false)
  omega

/-! ### Spec-level list lemmas -/

theorem byteBits_length (b : Nat) : (byteBits b).length = 8 := by simp [byteBits]

theorem bytesToBits_nil : bytesToBits [] = [] := rfl
theorem bytesToBits_cons (b : Nat) (m : List Nat) : bytesToBits (b :: m) = byteBits b ++ bytesToBits m := by
  simp [bytesToBits]
theorem bytesToBits_append (a b : List Nat) : bytesToBits (a ++ b) = bytesToBits a ++ bytesToBits b := by
  simp [bytesToBits]

@[simp] theorem bytesToBits_length (m : List Nat) : (bytesToBits m).length = 8 * m.length := by
  induction m with
  | nil => rfl
  | cons b m ih => rw [bytesToBits_cons, List.length_append, byteBits_length, ih, List.length_cons]; omega

theorem bytesToBits_take (m : List Nat) (n : Nat) : bytesToBits (m.take n) = (bytesToBits m).take (8 * n) := by
  induction m generalizing n with
  | nil => simp [bytesToBits_nil]
  | cons b m ih =>
    cases n with
    | zero => simp [bytesToBits_nil]
    | succ n =>
      have h1 : (byteBits b).take (8 * (n + 1)) = byteBits b :=
        List.take_of_length_le (by rw [byteBits_length]; omega)
      rw [List.take_succ_cons, bytesToBits_cons, bytesToBits_cons, ih, List.take_append, byteBits_length, h1]
      congr 2

theorem bytesToBits_drop (m : List Nat) (n : Nat) : bytesToBits (m.drop n) = (bytesToBits m).drop (8 * n) := by
  induction m generalizing n with
  | nil => simp [bytesToBits_nil]
  | cons b m ih =>
    cases n with
    | zero => simp
    | succ n =>
      have h1 : (byteBits b).drop (8 * (n + 1)) = [] :=
        List.drop_of_length_le (by rw [byteBits_length]; omega)
      rw [List.drop_succ_cons, bytesToBits_cons, ih, List.drop_append, byteBits_length, h1, List.nil_append]
      congr 1

/-- bit i of the bit stream of a byte string -/
theorem bytesToBits_getD (m : List Nat) (i : Nat) :
    (bytesToBits m).getD i false = (m.getD (i / 8) 0).testBit (7 - i % 8) := by
  induction m generalizing i with
  | nil => simp [bytesToBits_nil]
  | cons b m ih =>
    rw [bytesToBits_cons, List.getD_eq_getElem?_getD, List.getElem?_append, byteBits_length]
    by_cases h : i < 8
    · have h8 : i / 8 = 0 := by omega
      have hm : i % 8 = i := by omega
      simp [h, h8, hm, byteBits]
    · have h8 : i / 8 = (i - 8) / 8 + 1 := by omega
      have hm : i % 8 = (i - 8) % 8 := by omega
      rw [if_neg h, ← List.getD_eq_getElem?_getD, ih, h8, hm]
      simp

theorem bitsToBytes_length (l : List Bool) : (bitsToBytes l).length = (l.length + 7) / 8 := by
  simp [bitsToBytes]

theorem bitsToBytes_getElem (l : List Bool) (k : Nat) (h : k < (bitsToBytes l).length) :
    (bitsToBytes l)[k] = byteOfBits ((l.drop (8 * k)).take 8) := by
  simp [bitsToBytes]

theorem bitsToBytes_append (A C : List Bool) (h : A.length % 8 = 0) :
    bitsToBytes (A ++ C) = bitsToBytes A ++ bitsToBytes C := by
  apply List.ext_getElem
  · simp only [bitsToBytes_length, List.length_append]; omega
  · intro i h1 h2
    rw [bitsToBytes_getElem, List.getElem_append]
    simp only [bitsToBytes_length, List.length_append] at h1 h2 ⊢
    by_cases hi : i < (A.length + 7) / 8
    · rw [dif_pos hi, bitsToBytes_getElem]
      have hd : 8 * i - A.length = 0 := by omega
      have hl : 8 - (A.drop (8 * i)).length = 0 := by rw [List.length_drop]; omega
      rw [List.drop_append, hd, List.drop_zero, List.take_append, hl, List.take_zero, List.append_nil]
    · rw [dif_neg hi, bitsToBytes_getElem]
      have hd : A.drop (8 * i) = [] := List.drop_of_length_le (by omega)
      have he : 8 * i - A.length = 8 * (i - (A.length + 7) / 8) := by omega
      rw [List.drop_append, hd, List.nil_append, he]

theorem bitsToBytes_nil : bitsToBytes [] = [] := rfl

theorem bitsToBytes_byteBits (b : Nat) (hb : b < 256) : bitsToBytes (byteBits b) = [b] := by
  have : bitsToBytes (byteBits b) = [byteOfBits ((byteBits b).take 8)] := by
    simp [bitsToBytes, byteBits_length, List.range_succ]
  rw [this, List.take_of_length_le (by rw [byteBits_length]; omega), byteOfBits_byteBits b hb]

theorem bitsToBytes_bytesToBits (m : List Nat) (hm : Bytes m) : bitsToBytes (bytesToBits m) = m := by
  induction m with
  | nil => rfl
  | cons b m ih =>
    rw [bytesToBits_cons, bitsToBytes_append _ _ (by rw [byteBits_length]),
      bitsToBytes_byteBits b (hm b (by simp)), ih (fun x hx => hm x (by simp [hx]))]
    rfl

theorem bitsToBytes_bytesToBits_append (m : List Nat) (hm : Bytes m) (C : List Bool) :
    bitsToBytes (bytesToBits m ++ C) = m ++ bitsToBytes C := by
  rw [bitsToBytes_append _ _ (by rw [bytesToBits_length]; omega), bitsToBytes_bytesToBits m hm]

theorem bitsToBytes_Bytes (l : List Bool) : Bytes (bitsToBytes l) := by
  intro x hx
  simp only [bitsToBytes, List.mem_map] at hx
  obtain ⟨k, _, rfl⟩ := hx
  exact byteOfBits_lt _

/-! ### `Bits` values as bit lists -/

theorem bools_getD (b : Model.Bits) (i : Nat) :
    (bools b).getD i false = (decide (i < b.size) && b.ival.testBit i) := by
  by_cases h : i < b.size <;> simp [bools, List.getD_eq_getElem?_getD, h]

theorem getD_drop_take (l : List Bool) (s n j : Nat) :
    ((l.drop s).take n).getD j false = (decide (j < n) && l.getD (s + j) false) := by
  by_cases h : j < n <;> simp [List.getD_eq_getElem?_getD, List.getElem?_take, List.getElem?_drop, h]

/-- `bytes()` of a Bits value is the byte string of its bit list (last byte zero-filled) -/
theorem toBytes_eq (b : Model.Bits) : b.toBytes = bitsToBytes (bools b) := by
  apply List.ext_getElem
  · simp [Bits.toBytes, bitsToBytes_length]
  · intro k h1 h2
    rw [bitsToBytes_getElem]
    simp only [Bits.toBytes, List.getElem_map, List.getElem_range]
    have hv : ((b.ival &&& b.mask) >>> (8 * k)) &&& 0xff < 256 :=
      Nat.lt_of_le_of_lt Nat.and_le_right (by decide)
    rw [reverseByte_eq_byteOfBits _ hv]
    apply byteOfBits_congr
    intro j hj
    rw [getD_drop_take, bools_getD]
    have h255 : (0xff : Nat) = 2 ^ 8 - 1 := rfl
    simp only [Bits.mask, h255, List.getD_eq_getElem?_getD, List.getElem?_map, List.getElem?_range hj,
      Option.map_some, Option.getD_some, Nat.testBit_and, Nat.testBit_shiftRight,
      Nat.testBit_two_pow_sub_one, hj, decide_true, Bool.and_true, Bool.true_and]
    rw [Bool.and_comm]

/-! ### loading a byte string in bitstream order -/

/-- value accumulated by `Bits.load` for 1-byte groups with per-byte map f: f(byte i) at bit offset 8·i -/
def streamValF (f : Nat → Nat) : List Nat → Nat
  | [] => 0
  | b :: bs => (streamValF f bs <<< 8) ||| f b

/-- `Bits.load(v,-1)`: bytes bit-reversed -/
def streamVal (m : List Nat) : Nat := streamValF Bits.reverseByte m

theorem streamVal_cons (b : Nat) (bs : List Nat) :
    streamVal (b :: bs) = (streamVal bs <<< 8) ||| Bits.reverseByte b := rfl

theorem chunks_go_one (l : List Nat) (n : Nat) (h : l.length ≤ n) : chunks.go 1 l n = l.map ([·]) := by
  induction l generalizing n with
  | nil => cases n <;> simp [chunks.go]
  | cons b l ih =>
    cases n with
    | zero => simp at h
    | succ n => simp [chunks.go, ih n (by simpa using h)]

theorem groupsVal_streamF (f : Nat → Nat) (l : List Nat) :
    Bits.groupsVal f 1 (l.map ([·])) = streamValF f l := by
  induction l with
  | nil => rfl
  | cons b l ih =>
    show (Bits.groupsVal f 1 (l.map ([·])) <<< (8 * 1)) ||| ((0 <<< 8) ||| f b) = _
    rw [ih, Nat.zero_shiftLeft, Nat.zero_or]; rfl

theorem groupsVal_stream (l : List Nat) : Bits.groupsVal Bits.reverseByte 1 (l.map ([·])) = streamVal l :=
  groupsVal_streamF _ l

theorem load_stream (m : List Nat) : Bits.load m (-1) = .ok ⟨streamVal m, 8 * m.length⟩ := by
  have hc : chunks 1 m = m.map ([·]) := by
    simp only [chunks]; exact chunks_go_one m m.length (Nat.le_refl _)
  simp [Bits.load, hc, groupsVal_stream, Nat.mod_one]

theorem bitsOfBytes_eq (m : List Nat) (n : Nat) : Padder.bitsOfBytes m n = ⟨streamVal m % 2 ^ n, n⟩ := by
  simp [Padder.bitsOfBytes, Bits.ofBytes, load_stream, Bits.setSize, bind, Except.bind, pure, Except.pure]

theorem streamVal_testBit (m : List Nat) (hm : Bytes m) (i : Nat) :
    (streamVal m).testBit i = (bytesToBits m).getD i false := by
  induction m generalizing i with
  | nil => simp [streamVal, streamValF, bytesToBits_nil]
  | cons b m ih =>
    have hb : b < 256 := hm b (by simp)
    have hm' : Bytes m := fun x hx => hm x (by simp [hx])
    rw [streamVal_cons, Nat.testBit_or, Nat.testBit_shiftLeft, bytesToBits_cons, List.getD_eq_getElem?_getD,
      List.getElem?_append, byteBits_length]
    by_cases h : i < 8
    · have h1 : ¬ i ≥ 8 := by omega
      rw [if_pos h, reverseByte_testBit b hb i h]
      simp [h1, byteBits, h]
    · have h1 : i ≥ 8 := by omega
      have h2 : (Bits.reverseByte b).testBit i = false :=
        Nat.testBit_lt_two_pow (Nat.lt_of_lt_of_le (reverseByte_lt b hb) (Nat.pow_le_pow_right (by decide : 2 > 0) h1))
      rw [if_neg h, h2, ih hm', ← List.getD_eq_getElem?_getD]
      simp [h1]

/-- `Bits(m,size=n)` for n within the data: the first n bits of the bit stream -/
theorem bools_bitsOfBytes (m : List Nat) (hm : Bytes m) (n : Nat) (hn : n ≤ 8 * m.length) :
    bools (Padder.bitsOfBytes m n) = (bytesToBits m).take n := by
  apply List.ext_getElem
  · simp [bitsOfBytes_eq]; omega
  · intro i h1 h2
    rw [bools_getElem, bitsOfBytes_eq]
    simp only [bools_length, bitsOfBytes_eq] at h1
    simp only [Nat.testBit_mod_two_pow, h1, decide_true, Bool.true_and, streamVal_testBit m hm,
      List.getElem_take]
    rw [List.getD_eq_getElem?_getD, List.getElem?_eq_getElem (by rw [bytesToBits_length]; omega)]
    rfl

@[simp] theorem bitsOfBytes_size (m : List Nat) (n : Nat) : (Padder.bitsOfBytes m n).size = n := by
  simp [bitsOfBytes_eq]

theorem bitsOfBytes_WF (m : List Nat) (n : Nat) : (Padder.bitsOfBytes m n).WF := by
  simp only [bitsOfBytes_eq, Bits.WF]; exact Nat.mod_lt _ (Nat.two_pow_pos n)

/-! ### concatenation `//` and small constants -/

@[simp] theorem concat_size (a o : Model.Bits) : (a.concat o).size = a.size + o.size := by
  simp [Bits.concat, Bits.ofNatSz]

theorem concat_WF (a o : Model.Bits) : (a.concat o).WF := by
  simp only [Bits.concat, Bits.ofNatSz, Bits.WF]; exact Nat.mod_lt _ (Nat.two_pow_pos _)

theorem ofNatSz_WF (v n : Nat) : (Bits.ofNatSz v n).WF := by
  simp only [Bits.ofNatSz, Bits.WF]; exact Nat.mod_lt _ (Nat.two_pow_pos _)

@[simp] theorem ofNatSz_size (v n : Nat) : (Bits.ofNatSz v n).size = n := rfl

theorem bools_concat (a o : Model.Bits) (ha : a.WF) : bools (a.concat o) = bools a ++ bools o := by
  apply List.ext_getElem
  · simp
  · intro i h1 h2
    rw [bools_getElem, List.getElem_append]
    simp only [bools_length, concat_size] at h1
    simp only [Bits.concat, Bits.ofNatSz, Nat.testBit_mod_two_pow, h1, decide_true, Bool.true_and,
      Nat.testBit_or, Nat.testBit_shiftLeft, bools_length]
    by_cases hi : i < a.size
    · have : ¬ i ≥ a.size := by omega
      simp [hi, this, bools_getElem]
    · have h3 : i ≥ a.size := by omega
      have h4 : a.ival.testBit i = false :=
        Nat.testBit_lt_two_pow (Nat.lt_of_lt_of_le ha (Nat.pow_le_pow_right (by omega) h3))
      simp [hi, h3, h4, bools_getElem]

theorem bools_ofNatSz_zero (n : Nat) : bools (Bits.ofNatSz 0 n) = zeros n := by
  apply List.ext_getElem
  · simp [zeros]
  · intro i h1 h2; simp [bools, Bits.ofNatSz, zeros]

theorem bools_ofNatSz_one (n : Nat) : bools (Bits.ofNatSz 1 (n + 1)) = true :: zeros n := by
  apply List.ext_getElem
  · simp [zeros]
  · intro i h1 h2
    simp only [bools_length, ofNatSz_size] at h1
    rw [bools_getElem]
    simp only [Bits.ofNatSz, Nat.testBit_mod_two_pow, h1, decide_true, Bool.true_and]
    cases i with
    | zero => simp
    | succ i =>
      have : (1 : Nat).testBit (i + 1) = false := Nat.testBit_lt_two_pow (by
        have := Nat.one_lt_two_pow (n := i + 1) (by omega); omega)
      simp [this, zeros]

theorem bools_ofNatSz_one_zero : bools (Bits.ofNatSz 1 0) = [] := by simp [bools]

theorem bools_ofNatSz_bit (v : Nat) : bools (Bits.ofNatSz v 1) = [v.testBit 0] := by
  simp [bools, Bits.ofNatSz, List.range_succ]

/-! ### `pack`: the length field -/

/-- byte j of `pack(Bits(v,8c))` -/
def packByte (v c j : Nat) : Nat :=
  ((Bits.ofNatSz v (8 * c)).sliceFast (j * 8) (min (j * 8 + 8) (8 * c))).ival &&& 0xff

theorem packByte_lt (v c j : Nat) : packByte v c j < 256 := Nat.lt_of_le_of_lt Nat.and_le_right (by decide)

theorem packByte_testBit (v c j t : Nat) (hj : j < c) (ht : t < 8) :
    (packByte v c j).testBit t = v.testBit (8 * j + t) := by
  have hmin : min (j * 8 + 8) (8 * c) = j * 8 + 8 := by omega
  have h255 : (0xff : Nat) = 2 ^ 8 - 1 := rfl
  have e1 : j * 8 + 8 - j * 8 = 8 := by omega
  have e2 : j * 8 + t = 8 * j + t := by omega
  simp only [packByte, hmin, Bits.sliceFast, Bits.ofNatSz, h255, e1, Nat.testBit_and, Nat.testBit_mod_two_pow,
    Nat.testBit_shiftRight, Nat.testBit_two_pow_sub_one, ht, decide_true, Bool.and_true, Bool.true_and, e2]
  have h1 : 8 * j + t < 8 * c := by omega
  have h2 : 8 * j + t < j * 8 + 8 := by omega
  simp [h1, h2]

theorem pack_eq (v c : Nat) (be : Bool) :
    (Bits.ofNatSz v (8 * c)).pack be =
      if be then ((List.range c).map (packByte v c)).reverse else (List.range c).map (packByte v c) := by
  have hn : (8 * c + 7) / 8 = c := by omega
  simp only [Bits.pack, ofNatSz_size, hn]
  rfl

theorem byteOfBits_eq_of_testBit (x : Nat) (hx : x < 256) (l : List Bool)
    (h : ∀ j < 8, l.getD j false = x.testBit (7 - j)) : byteOfBits l = x := by
  rw [← byteOfBits_testBits x hx]
  apply byteOfBits_congr
  intro j hj
  rw [h j hj]
  simp [List.getD_eq_getElem?_getD, List.getElem?_map, List.getElem?_range hj]

theorem lenLE_getD (n v i : Nat) :
    (lenLE n v).getD i false = (decide (i < n) && v.testBit (8 * (i / 8) + (7 - i % 8))) := by
  by_cases h : i < n <;> simp [lenLE, List.getD_eq_getElem?_getD, h]

theorem lenBE_getD (n v i : Nat) :
    (lenBE n v).getD i false = (decide (i < n) && v.testBit (n - 1 - i)) := by
  by_cases h : i < n <;> simp [lenBE, List.getD_eq_getElem?_getD, h]

@[simp] theorem lenLE_length (n v : Nat) : (lenLE n v).length = n := by simp [lenLE]
@[simp] theorem lenBE_length (n v : Nat) : (lenBE n v).length = n := by simp [lenBE]

/-- little-endian `pack` of the 8c-bit counter = the bytes of the little-endian length field -/
theorem pack_le (v c : Nat) : (Bits.ofNatSz v (8 * c)).pack false = bitsToBytes (lenLE (8 * c) v) := by
  rw [pack_eq]
  apply List.ext_getElem
  · simp [bitsToBytes_length]; omega
  · intro k h1 h2
    simp only [Bool.false_eq_true, if_false, List.length_map, List.length_range] at h1
    rw [bitsToBytes_getElem]
    simp only [Bool.false_eq_true, if_false, List.getElem_map, List.getElem_range]
    symm
    apply byteOfBits_eq_of_testBit _ (packByte_lt _ _ _)
    intro j hj
    rw [getD_drop_take, lenLE_getD, packByte_testBit v c k (7 - j) h1 (by omega)]
    have e1 : (8 * k + j) / 8 = k := by omega
    have e2 : (8 * k + j) % 8 = j := by omega
    have e3 : 8 * k + j < 8 * c := by omega
    simp [hj, e1, e2, e3]

/-- big-endian `pack` of the 8c-bit counter = the bytes of the big-endian length field -/
theorem pack_be (v c : Nat) : (Bits.ofNatSz v (8 * c)).pack true = bitsToBytes (lenBE (8 * c) v) := by
  rw [pack_eq]
  apply List.ext_getElem
  · simp [bitsToBytes_length]; omega
  · intro k h1 h2
    simp only [if_true, List.length_reverse, List.length_map, List.length_range] at h1
    rw [bitsToBytes_getElem]
    simp only [if_true, List.getElem_reverse, List.getElem_map, List.getElem_range, List.length_map,
      List.length_range]
    symm
    apply byteOfBits_eq_of_testBit _ (packByte_lt _ _ _)
    intro j hj
    rw [getD_drop_take, lenBE_getD, packByte_testBit v c (c - 1 - k) (7 - j) (by omega) (by omega)]
    have e3 : 8 * k + j < 8 * c := by omega
    have e4 : 8 * c - 1 - (8 * k + j) = 8 * (c - 1 - k) + (7 - j) := by omega
    simp [hj, e3, e4]

theorem pack_length (v c : Nat) (be : Bool) : ((Bits.ofNatSz v (8 * c)).pack be).length = c := by
  rw [pack_eq]; cases be <;> simp

end Proofs.Lemmas.Padding
