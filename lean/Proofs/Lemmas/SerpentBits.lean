/-
  Helper lemmas on Nat bit operations and Model.Bits used by the Serpent proofs (C02/C03 Serpent parts):
  bit-function words, `listVal`, `getList`, `sliceFast`, `split`, `concatList`, `rol`/`ror`.
-/
import Model.Bits
import Spec.Serpent
namespace Proofs.Lemmas.SerpentBits
open Model Model.Bits

/-! ### Spec.ofBitFn -/
theorem ofBitFn_lt (n : Nat) (f : Nat → Bool) : Spec.Serpent.ofBitFn n f < 2 ^ n := by
  induction n with
  | zero => simp [Spec.Serpent.ofBitFn]
  | succ n ih =>
    unfold Spec.Serpent.ofBitFn
    apply Nat.or_lt_two_pow
    · exact Nat.lt_trans ih (Nat.pow_lt_pow_right (by decide) (Nat.lt_succ_self n))
    · split
      · exact Nat.pow_lt_pow_right (by decide) (Nat.lt_succ_self n)
      · exact Nat.two_pow_pos _

theorem testBit_ofBitFn (n : Nat) (f : Nat → Bool) (j : Nat) :
    (Spec.Serpent.ofBitFn n f).testBit j = (decide (j < n) && f j) := by
  induction n with
  | zero => simp [Spec.Serpent.ofBitFn]
  | succ n ih =>
    unfold Spec.Serpent.ofBitFn
    rw [Nat.testBit_or, ih]
    by_cases hj : j = n
    · subst hj
      cases hf : f j <;> simp
    · have : (if f n = true then 2 ^ n else 0).testBit j = false := by
        split
        · simp [Nat.testBit_two_pow]; omega
        · simp
      rw [this]
      by_cases h : j < n
      · simp [h, Nat.lt_succ_of_lt h]
      · have h' : ¬ j < n + 1 := by omega
        simp [h, h']

theorem ofBitFn_congr (n : Nat) (f g : Nat → Bool) (h : ∀ j < n, f j = g j) :
    Spec.Serpent.ofBitFn n f = Spec.Serpent.ofBitFn n g := by
  apply Nat.eq_of_testBit_eq; intro j
  rw [testBit_ofBitFn, testBit_ofBitFn]
  by_cases hj : j < n
  · simp [hj, h j hj]
  · simp [hj]

/-- a number below 2^n is the word of its own bits -/
theorem ofBitFn_testBit (n x : Nat) (h : x < 2 ^ n) : Spec.Serpent.ofBitFn n (fun j => x.testBit j) = x := by
  apply Nat.eq_of_testBit_eq; intro j
  rw [testBit_ofBitFn]
  by_cases hj : j < n
  · simp [hj]
  · have : x.testBit j = false := Nat.testBit_lt_two_pow (Nat.lt_of_lt_of_le h (Nat.pow_le_pow_right (by decide) (by omega)))
    simp [hj, this]

/-! ### listVal -/
theorem listVal_lt (l : List Nat) : listVal l < 2 ^ l.length := by
  induction l with
  | nil => simp [listVal]
  | cons x xs ih =>
    unfold listVal
    rw [List.length_cons]
    apply Nat.or_lt_two_pow
    · rw [Nat.shiftLeft_eq, Nat.pow_succ]; omega
    · rw [Nat.and_one_is_mod]
      have : 2 ≤ 2 ^ (xs.length + 1) := by
        have := Nat.pow_le_pow_right (n := 2) (by decide) (show 1 ≤ xs.length + 1 by omega)
        simpa using this
      omega

theorem testBit_listVal (l : List Nat) (j : Nat) :
    (listVal l).testBit j = (l.getD j 0).testBit 0 := by
  induction l generalizing j with
  | nil => simp [listVal]
  | cons x xs ih =>
    unfold listVal
    rw [Nat.testBit_or, Nat.testBit_shiftLeft, Nat.and_one_is_mod]
    cases j with
    | zero => simp [Nat.testBit_zero]
    | succ j =>
      have : (x % 2).testBit (j + 1) = false := by
        apply Nat.testBit_lt_two_pow
        have : x % 2 < 2 := Nat.mod_lt _ (by decide)
        exact Nat.lt_of_lt_of_le this (by
          have := Nat.pow_le_pow_right (n := 2) (by decide) (show 1 ≤ j + 1 by omega)
          simpa using this)
      rw [this]
      simp [ih]


/-! ### getList on non-negative index lists -/
theorem testBit_gather (v : Nat) (l : List Nat) (j : Nat) :
    (listVal (l.map fun x => (v >>> x) &&& 1)).testBit j = (decide (j < l.length) && v.testBit (l.getD j 0)) := by
  rw [testBit_listVal]
  by_cases hj : j < l.length
  · simp only [hj, decide_true, Bool.true_and]
    rw [List.getD_eq_getElem?_getD, List.getElem?_map, List.getElem?_eq_getElem hj]
    simp only [Option.map_some, Option.getD_some, List.getD_eq_getElem?_getD]
    rw [Nat.and_one_is_mod, Nat.testBit_zero, Nat.mod_mod, ← Nat.testBit_zero, Nat.testBit_shiftRight]
    simp [List.getElem?_eq_getElem hj]
  · have : (l.map fun x => (v >>> x) &&& 1).getD j 0 = 0 := by
      rw [List.getD_eq_getElem?_getD, List.getElem?_eq_none (by simp; omega)]; rfl
    simp [hj]

theorem getList_nat (X : Bits) (l : List Nat) :
    X.getList (l.map Int.ofNat) = .ok ⟨listVal (l.map fun x => (X.ival >>> x) &&& 1), l.length⟩ := by
  unfold getList
  have h : (l.map Int.ofNat).any (· < 0) = false := by
    rw [List.any_eq_false]; intro x hx
    rw [List.mem_map] at hx
    obtain ⟨a, _, rfl⟩ := hx
    simp
  rw [h]
  simp only [Bool.false_eq_true, if_false, ofNatSz, List.map_map, List.length_map]
  congr 2
  have : (fun x : Int => (X.ival >>> x.toNat) &&& 1) ∘ Int.ofNat = fun x : Nat => (X.ival >>> x) &&& 1 := by
    funext x; simp
  rw [this]
  apply Nat.mod_eq_of_lt
  have := listVal_lt (l.map fun x => (X.ival >>> x) &&& 1)
  simpa using this

/-! ### sliceFast / split -/
theorem testBit_sliceFast (X : Bits) (a b t : Nat) :
    (X.sliceFast a b).ival.testBit t = (decide (t < b - a) && X.ival.testBit (a + t)) := by
  unfold sliceFast ofNatSz
  simp only
  rw [Nat.testBit_mod_two_pow, Nat.testBit_shiftRight, Nat.and_two_pow_sub_one_eq_mod, Nat.testBit_mod_two_pow]
  by_cases h : t < b - a
  · have : a + t < b := by omega
    simp [h, this]
  · simp [h]

theorem sliceFast_size (X : Bits) (a b : Nat) : (X.sliceFast a b).size = b - a := rfl

theorem sliceFast_wf (X : Bits) (a b : Nat) : (X.sliceFast a b).WF := by
  unfold sliceFast ofNatSz WF
  exact Nat.mod_lt _ (Nat.two_pow_pos _)

theorem split_uniform (X : Bits) (n w : Nat) (hw : 0 < w) (hs : X.size = n * w) :
    X.split w = .ok ((List.range n).map fun j => X.sliceFast (j * w) (j * w + w)) := by
  unfold split
  have hw' : w ≠ 0 := by omega
  simp only [hw', if_false, Bool.false_eq_true]
  have hn : (X.size + w - 1) / w = n := by
    rw [hs]
    have : n * w + w - 1 = (w - 1) + w * n := by
      rw [Nat.mul_comm]; omega
    rw [this, Nat.add_mul_div_left _ _ hw, Nat.div_eq_of_lt (by omega)]; omega
  rw [hn]
  congr 1
  apply List.map_congr_left
  intro j hj
  rw [List.mem_range] at hj
  have : j * w + w ≤ X.size := by
    rw [hs]
    calc j * w + w = (j + 1) * w := by rw [Nat.add_mul]; omega
      _ ≤ n * w := Nat.mul_le_mul_right _ hj
  rw [Nat.min_eq_left this]

/-! ### concat / concatList of equally sized pieces -/
theorem concat_size (a o : Bits) : (a.concat o).size = a.size + o.size := rfl

theorem concat_wf (a o : Bits) : (a.concat o).WF := by
  unfold concat ofNatSz WF
  exact Nat.mod_lt _ (Nat.two_pow_pos _)

theorem testBit_concat (a o : Bits) (j : Nat) :
    (a.concat o).ival.testBit j =
      (decide (j < a.size + o.size) && (a.ival.testBit j || (decide (a.size ≤ j) && o.ival.testBit (j - a.size)))) := by
  unfold concat ofNatSz
  simp only
  rw [Nat.testBit_mod_two_pow, Nat.testBit_or, Nat.testBit_shiftLeft]

theorem foldl_concat (xs : List Bits) (w : Nat) (hw : 0 < w) (acc : Bits) (hacc : acc.WF)
    (hs : ∀ x ∈ xs, x.size = w) :
    (xs.foldl concat acc).size = acc.size + w * xs.length ∧ (xs.foldl concat acc).WF ∧
    (∀ j, j < acc.size → (xs.foldl concat acc).ival.testBit j = acc.ival.testBit j) ∧
    (∀ j, acc.size ≤ j → j < acc.size + w * xs.length →
      (xs.foldl concat acc).ival.testBit j =
        (xs.getD ((j - acc.size) / w) default).ival.testBit ((j - acc.size) % w)) := by
  induction xs generalizing acc with
  | nil => simp [hacc]; intro j h1 h2; omega
  | cons x xs ih =>
    have hx : x.size = w := hs x (List.mem_cons_self)
    have hs' : ∀ y ∈ xs, y.size = w := fun y hy => hs y (List.mem_cons_of_mem _ hy)
    obtain ⟨h1, h2, h3, h4⟩ := ih (acc.concat x) (concat_wf _ _) hs'
    rw [List.foldl_cons]
    rw [concat_size, hx] at h1 h3 h4
    refine ⟨?_, h2, ?_, ?_⟩
    · rw [h1, List.length_cons, Nat.mul_succ]; omega
    · intro j hj
      rw [h3 j (by omega), testBit_concat, hx]
      have : ¬ acc.size ≤ j := by omega
      simp [this]; omega
    · intro j hj1 hj2
      rw [List.length_cons, Nat.mul_succ] at hj2
      by_cases hm : j < acc.size + w
      · rw [h3 j hm, testBit_concat, hx]
        have hlt : j - acc.size < w := by omega
        rw [Nat.div_eq_of_lt hlt, Nat.mod_eq_of_lt hlt]
        have hb : acc.ival.testBit j = false :=
          Nat.testBit_lt_two_pow (Nat.lt_of_lt_of_le hacc (Nat.pow_le_pow_right (by decide) hj1))
        simp [hm, hb, hj1]
      · rw [h4 j (by omega) (by omega)]
        have e : j - acc.size = (j - (acc.size + w)) + w := by omega
        rw [e, Nat.add_div_right _ hw, Nat.add_mod_right]
        simp

theorem concatList_uniform (x : Bits) (xs : List Bits) (w : Nat) (hw : 0 < w)
    (hs : ∀ y ∈ x :: xs, y.size = w) (hx : x.WF) :
    ∃ r, concatList (x :: xs) = .ok r ∧ r.size = w * (xs.length + 1) ∧ r.WF ∧
      ∀ j, j < w * (xs.length + 1) →
        r.ival.testBit j = ((x :: xs).getD (j / w) default).ival.testBit (j % w) := by
  have hxs : x.size = w := hs x (List.mem_cons_self)
  obtain ⟨h1, h2, h3, h4⟩ := foldl_concat xs w hw x hx (fun y hy => hs y (List.mem_cons_of_mem _ hy))
  refine ⟨xs.foldl concat x, ?_, ?_, h2, ?_⟩
  · unfold concatList
    simp
  · rw [h1, hxs, Nat.mul_succ]; omega
  · intro j hj
    rw [hxs] at h3 h4
    by_cases hm : j < w
    · rw [h3 j hm, Nat.div_eq_of_lt hm, Nat.mod_eq_of_lt hm]; simp
    · rw [h4 j (by omega) (by rw [Nat.mul_succ] at hj; omega)]
      have e : j = (j - w) + w := by omega
      conv => rhs; rw [e, Nat.add_div_right _ hw, Nat.add_mod_right]
      simp

/-! ### same-size xor -/
theorem xor_same (a o : Bits) (h : a.size = o.size) : a.xor o = ⟨a.ival ^^^ o.ival, a.size⟩ := by
  simp [Bits.xor, wsize, h]

/-! ### rol / ror (crysp/utils/operators.py) -/
theorem rol_eq (x : Bits) (n : Nat) (h : n ≤ x.size) : x.rol n = .ok (x.rol! n) := by
  unfold rol rol!; simp [Nat.not_lt.mpr h]
theorem ror_eq (x : Bits) (n : Nat) (h : n ≤ x.size) : x.ror n = .ok (x.ror! n) := by
  unfold ror ror!; simp [Nat.not_lt.mpr h]
theorem rol_err (x : Bits) (n : Nat) (h : x.size < n) : ∃ e, x.rol n = .error e := by
  unfold rol; simp [h]
theorem ror_err (x : Bits) (n : Nat) (h : x.size < n) : ∃ e, x.ror n = .error e := by
  unfold ror; simp [h]

theorem rol!_size (x : Bits) (n : Nat) : (x.rol! n).size = x.size := by
  simp [rol!, Bits.or, wsize, shl, shr]
theorem ror!_size (x : Bits) (n : Nat) : (x.ror! n).size = x.size := by
  simp [ror!, Bits.or, wsize, shl, shr]

theorem testBit_rol! (x : Bits) (n j : Nat) (hn : n ≤ x.size) (hx : x.WF) :
    (x.rol! n).ival.testBit j =
      (decide (j < x.size) && (if j < n then x.ival.testBit (j + x.size - n) else x.ival.testBit (j - n))) := by
  simp only [rol!, Bits.or, shl, shr, mask, Nat.testBit_or, Nat.and_two_pow_sub_one_eq_mod,
    Nat.testBit_mod_two_pow, Nat.testBit_shiftLeft, Nat.testBit_shiftRight]
  by_cases hj : j < x.size
  · by_cases hjn : j < n
    · have h1 : ¬ j ≥ n := by omega
      have h2 : x.size - n + j = j + x.size - n := by omega
      simp [hj, hjn, h1, h2]
    · have h1 : j ≥ n := by omega
      have h2 : x.ival.testBit (x.size - n + j) = false :=
        Nat.testBit_lt_two_pow (Nat.lt_of_lt_of_le hx (Nat.pow_le_pow_right (by decide) (by omega)))
      simp [hj, hjn, h1, h2]
  · simp [hj]

theorem testBit_ror! (x : Bits) (n j : Nat) (hn : n ≤ x.size) (hx : x.WF) :
    (x.ror! n).ival.testBit j =
      (decide (j < x.size) && (if j + n < x.size then x.ival.testBit (j + n) else x.ival.testBit (j + n - x.size))) := by
  simp only [ror!, Bits.or, shl, shr, mask, Nat.testBit_or, Nat.and_two_pow_sub_one_eq_mod,
    Nat.testBit_mod_two_pow, Nat.testBit_shiftLeft, Nat.testBit_shiftRight]
  by_cases hj : j < x.size
  · by_cases hjn : j + n < x.size
    · have h1 : ¬ j ≥ x.size - n := by omega
      simp [hj, hjn, h1, Nat.add_comm n j]
    · have h1 : j ≥ x.size - n := by omega
      have h2 : x.ival.testBit (n + j) = false :=
        Nat.testBit_lt_two_pow (Nat.lt_of_lt_of_le hx (Nat.pow_le_pow_right (by decide) (by omega)))
      have h3 : j - (x.size - n) = j + n - x.size := by omega
      simp [hj, hjn, h1, h2, h3]
  · simp [hj]

theorem rol!_wf (x : Bits) (n : Nat) : (x.rol! n).WF := by
  unfold WF; rw [rol!_size]
  simp only [rol!, Bits.or, shl, shr, mask, Nat.and_two_pow_sub_one_eq_mod]
  exact Nat.or_lt_two_pow (Nat.mod_lt _ (Nat.two_pow_pos _)) (Nat.mod_lt _ (Nat.two_pow_pos _))
theorem ror!_wf (x : Bits) (n : Nat) : (x.ror! n).WF := by
  unfold WF; rw [ror!_size]
  simp only [ror!, Bits.or, shl, shr, mask, Nat.and_two_pow_sub_one_eq_mod]
  exact Nat.or_lt_two_pow (Nat.mod_lt _ (Nat.two_pow_pos _)) (Nat.mod_lt _ (Nat.two_pow_pos _))

/-- two well-formed Bits of the same size with the same bits below the size are equal -/
theorem bits_ext (a b : Bits) (hs : a.size = b.size) (ha : a.WF) (hb : b.WF)
    (h : ∀ j, j < a.size → a.ival.testBit j = b.ival.testBit j) : a = b := by
  cases a with | mk av as =>
  cases b with | mk bv bs =>
  simp only at hs; subst hs
  congr
  apply Nat.eq_of_testBit_eq; intro j
  by_cases hj : j < as
  · exact h j hj
  · have e1 : av.testBit j = false :=
      Nat.testBit_lt_two_pow (Nat.lt_of_lt_of_le ha (Nat.pow_le_pow_right (by decide) (by simp at hj ⊢; omega)))
    have e2 : bv.testBit j = false :=
      Nat.testBit_lt_two_pow (Nat.lt_of_lt_of_le hb (Nat.pow_le_pow_right (by decide) (by simp at hj ⊢; omega)))
    rw [e1, e2]

theorem ror!_rol! (x : Bits) (n : Nat) (hn : n ≤ x.size) (hx : x.WF) : (x.rol! n).ror! n = x := by
  apply bits_ext _ _ (by rw [ror!_size, rol!_size]) (ror!_wf _ _) hx
  intro j hj
  rw [ror!_size, rol!_size] at hj
  rw [testBit_ror! _ _ _ (by rw [rol!_size]; exact hn) (rol!_wf _ _), rol!_size]
  simp only [hj, decide_true, Bool.true_and]
  split
  · rename_i h
    rw [testBit_rol! _ _ _ hn hx]
    have : ¬ j + n < n := by omega
    simp [h, this]
  · rename_i h
    rw [testBit_rol! _ _ _ hn hx]
    have h1 : j + n - x.size < n := by omega
    have h2 : j + n - x.size < x.size := by omega
    have h3 : j + n - x.size + x.size - n = j := by omega
    simp [h1, h2, h3]

theorem rol!_ror! (x : Bits) (n : Nat) (hn : n ≤ x.size) (hx : x.WF) : (x.ror! n).rol! n = x := by
  apply bits_ext _ _ (by rw [rol!_size, ror!_size]) (rol!_wf _ _) hx
  intro j hj
  rw [rol!_size, ror!_size] at hj
  rw [testBit_rol! _ _ _ (by rw [ror!_size]; exact hn) (ror!_wf _ _), ror!_size]
  simp only [hj, decide_true, Bool.true_and]
  split
  · rename_i h
    rw [testBit_ror! _ _ _ hn hx]
    have h1 : j + x.size - n < x.size := by omega
    have h2 : ¬ j + x.size - n + n < x.size := by omega
    have h3 : j + x.size - n + n - x.size = j := by omega
    simp [h1, h2, h3]
  · rename_i h
    rw [testBit_ror! _ _ _ hn hx]
    have h1 : j - n < x.size := by omega
    have h2 : j - n + n < x.size := by omega
    have h3 : j - n + n = j := by omega
    simp [h1, h3, hj]

end Proofs.Lemmas.SerpentBits
