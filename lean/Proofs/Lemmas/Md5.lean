/- MD5: tables, schedule, rounds, compression of the model equal RFC 1321 -/
import Proofs.Lemmas.Md
namespace Proofs.Lemmas.Md5
open Model Model.Py Model.Md Model.Gen.Hashes Proofs.Lemmas.BitsBitVec Proofs.Lemmas.Fold Proofs.Lemmas.Parse
  Proofs.Lemmas.RoundFns Proofs.Lemmas.Md

theorem K_eq : ∀ i, i < 64 → md5K.getD i 0 = (Spec.Md5.T.getD i 0).toNat := by decide +kernel
theorem shift_eq : ∀ i, i < 64 → shiftOf md5st i = Spec.Md5.sTable.getD i 0 := by decide +kernel
theorem shift_le : ∀ i, i < 64 → Spec.Md5.sTable.getD i 0 ≤ 32 := by decide +kernel
theorem iv_eq : md5H.map (fun v => Bits.ofNatSz v 32) = embH Spec.Md5.iv := by decide +kernel
theorem tables_ok : tablesOk 4 md5ft.length md5K 64 md5st md5Idx = true := by decide +kernel

/-- the three `W.extend([W[i] for i in (…)])` produce exactly the RFC's X[k] sequence of the 64 operations -/
theorem extend_eq (X : List (BitVec 32)) (hX : X.length = 16) :
    extend (X.map ofBV) md5Idx = ((List.range 64).map fun i => X.getD (Spec.Md5.kTable.getD i 0) 0).map ofBV := by
  obtain ⟨x0, x1, x2, x3, x4, x5, x6, x7, x8, x9, x10, x11, x12, x13, x14, x15, rfl⟩ := list16 X hX
  rfl

theorem word_eq (X : List (BitVec 32)) (hX : X.length = 16) (i : Nat) (hi : i < 64) :
    (extend (X.map ofBV) md5Idx).getD i dflt = ofBV (X.getD (Spec.Md5.kTable.getD i 0) 0) := by
  rw [extend_eq X hX, dflt, getD_map_ofBV]
  simp [List.getD_eq_getElem?_getD, List.getElem?_map, List.getElem?_range hi]

theorem ft_ofBV (i : Nat) (hi : i < 64) (b c d : BitVec 32) :
    md5ft.getD (i / 16) (fun _ _ z => z) (ofBV b) (ofBV c) (ofBV d) = ofBV (Spec.Md5.roundFn i b c d) := by
  unfold Spec.Md5.roundFn
  by_cases h1 : i < 16
  · have : i / 16 = 0 := by omega
    simp only [h1, if_true, this]; exact md5_f_ofBV b c d
  · by_cases h2 : i < 32
    · have : i / 16 = 1 := by omega
      simp only [h1, h2, if_true, if_false, this]; exact md5_g_ofBV b c d
    · by_cases h3 : i < 48
      · have : i / 16 = 2 := by omega
        simp only [h1, h2, h3, if_true, if_false, this]; exact md5_h_ofBV b c d
      · have : i / 16 = 3 := by omega
        simp only [h1, h2, h3, if_false, this]; exact md5_i_ofBV b c d

theorem round_refines (X : List (BitVec 32)) (hX : X.length = 16) (i : Nat) (hi : i < 64) (a b c d : BitVec 32) :
    md5Round (extend (X.map ofBV) md5Idx) (emb4 (a, b, c, d)) i = emb4 (d, Spec.Md5.op X i a b c d, b, c) := by
  simp only [md5Round, emb4, Spec.Md5.op, word_eq X hX i hi, ft_ofBV i hi, K_eq i hi, shift_eq i hi, add_ofBV,
    addConst_ofBV, rol_ofBV _ _ (shift_le i hi)]

theorem step_shape (X : List (BitVec 32)) (s : State) (i : Nat) :
    Spec.Md5.step X s i = match i % 4 with
      | 0 => (Spec.Md5.op X i s.1 s.2.1 s.2.2.1 s.2.2.2, s.2.1, s.2.2.1, s.2.2.2)
      | 1 => (s.1, s.2.1, s.2.2.1, Spec.Md5.op X i s.2.2.2 s.1 s.2.1 s.2.2.1)
      | 2 => (s.1, s.2.1, Spec.Md5.op X i s.2.2.1 s.2.2.2 s.1 s.2.1, s.2.2.2)
      | _ => (s.1, Spec.Md5.op X i s.2.1 s.2.2.1 s.2.2.2 s.1, s.2.2.1, s.2.2.2) := by
  obtain ⟨A, B, C, D⟩ := s
  rfl

theorem rounds_refines (X : List (BitVec 32)) (hX : X.length = 16) (s : State) :
    (List.range 64).foldl (md5Round (extend (X.map ofBV) md5Idx)) (emb4 s)
      = emb4 ((List.range 64).foldl (Spec.Md5.step X) s) :=
  loop_refines (Spec.Md5.op X) (Spec.Md5.step X) (step_shape X) _ 64 (by decide)
    (fun i hi a b c d => round_refines X hX i hi a b c d) s

theorem block_refines (H : State) (X : List (BitVec 32)) (hX : X.length = 16) :
    md5Block (embH H) (X.map ofBV) = .ok (embH (Spec.Md5.compressWords H X)) := by
  obtain ⟨h0, h1, h2, h3⟩ := H
  have hr := rounds_refines X hX (h0, h1, h2, h3)
  simp only [Spec.Md5.compressWords]
  generalize (List.range 64).foldl (Spec.Md5.step X) (h0, h1, h2, h3) = R at hr ⊢
  obtain ⟨a, b, c, d⟩ := R
  simp only [emb4] at hr
  simp only [md5Block, embH, List.length_map, hX, ne_eq, not_true_eq_false, if_false, tables_ok, Bool.not_true,
    Bool.false_eq_true, show (4 * 16 = 64) by decide, hr, add_ofBV, BitVec.add_comm]

theorem compress_refines (H : State) (blk : List Spec.Byte) (hb : blk.length = 64) :
    md5Compress (embH H) (toNatBytes blk) = .ok (embH (Spec.Md5.compress H blk)) := by
  unfold md5Compress
  rw [parseLE_refines blk hb]
  simp only [bind, Except.bind]
  have hl : (Spec.wordsLE 32 blk).length = 16 := by rw [wordsLE_length, hb]
  rw [block_refines H _ hl]; rfl

end Proofs.Lemmas.Md5
