/-
  Helper lemmas: zero / sign extension and the two's-complement value of a `Model.Bits`.
-/
import Model.Bits
import Proofs.Lemmas.BitsBasic
import Proofs.Lemmas.BitsIndex
namespace Proofs.Lemmas.Bits
open Model Model.Bits Model.Py

/-- two's-complement value of the vector: `x - 2^n·[bit n-1 set]` -/
def sval (b : Bits) : Int := (b.ival : Int) - (if b.ival.testBit (b.size - 1) then (2 ^ b.size : Nat) else 0)

theorem zeroextend_eq (b : Bits) (n : Nat) : b.zeroextend n = if n > b.size then b.setSize n else b := rfl

theorem zeroextend_spec (b : Bits) (hb : b.WF) (n : Nat) :
    (b.zeroextend n).size = max b.size n ∧ (b.zeroextend n).ival = b.ival := by
  rw [zeroextend_eq]
  split
  · rename_i h
    refine ⟨by simp; omega, ?_⟩
    simp only [setSize_ival]
    exact Nat.mod_eq_of_lt (Nat.lt_of_lt_of_le hb (Nat.pow_le_pow_right (by omega) (by omega)))
  · exact ⟨by omega, rfl⟩

theorem zeroextend_wf (b : Bits) (hb : b.WF) (n : Nat) : (b.zeroextend n).WF := by
  rw [zeroextend_eq]; split
  · exact setSize_wf _ _
  · exact hb

theorem bit_neg_one (b : Bits) (h : 0 < b.size) : b.bit (-1) = .ok (b.ival.testBit (b.size - 1)).toNat := by
  rw [bit_eq]
  have : normIndex (-1) b.size = some (b.size - 1) := by
    unfold normIndex
    have h1 : ¬ (0 ≤ (-1 : Int) ∧ (-1 : Int) < b.size) := by omega
    have h2 : ((-1 : Int) < 0 ∧ -(-1 : Int) ≤ b.size) := by omega
    simp only [h1, h2, and_self, ↓reduceIte]
    congr 1; omega
  rw [this]

theorem bit_neg_one_empty (b : Bits) (h : b.size = 0) : b.bit (-1) = .error "IndexError" := by
  rw [bit_eq]
  have : normIndex (-1) b.size = none := by
    unfold normIndex
    have h1 : ¬ (0 ≤ (-1 : Int) ∧ (-1 : Int) < b.size) := by omega
    have h2 : ¬ ((-1 : Int) < 0 ∧ -(-1 : Int) ≤ b.size) := by omega
    simp only [h1, h2, ↓reduceIte]
  rw [this]

theorem mask_xor_mask (m n : Nat) (i : Nat) :
    ((2 ^ m - 1) ^^^ (2 ^ n - 1)).testBit i = (decide (i < m) ^^ decide (i < n)) := by
  simp [Nat.testBit_xor, Nat.testBit_two_pow_sub_one]

/-- `signextend(n)`: bits below the old size unchanged, the new bits are copies of the old top bit -/
theorem signextend_spec (b : Bits) (hb : b.WF) (n : Nat) (r : Bits) (h : b.signextend n = .ok r) :
    r.WF ∧ r.size = max b.size n ∧
    ∀ q, r.ival.testBit q = if q < b.size then b.ival.testBit q else (decide (q < n) && b.ival.testBit (b.size - 1)) := by
  unfold signextend at h
  split at h
  · rename_i hn
    by_cases h0 : b.size = 0
    · rw [bit_neg_one_empty b h0] at h; cases h
    · rw [bit_neg_one b (by omega)] at h
      have h' : (if (b.ival.testBit (b.size - 1)).toNat = 1
                 then (pure ⟨(b.setSize n).ival ||| (b.mask ^^^ (b.setSize n).mask), n⟩ : Except Err Bits)
                 else pure (b.setSize n)) = .ok r := h
      have hbits : ∀ q, r.ival.testBit q =
          if q < b.size then b.ival.testBit q else (decide (q < n) && b.ival.testBit (b.size - 1)) := by
        intro q
        cases hs : b.ival.testBit (b.size - 1)
        · simp only [hs, Bool.toNat_false, Nat.zero_ne_one, ↓reduceIte] at h'
          injection h' with h'; subst h'
          simp only [setSize_ival, Nat.testBit_mod_two_pow, Bool.and_false]
          by_cases hq : q < b.size
          · have : q < n := by omega
            simp [hq, this]
          · simp [hq, wf_testBit hb (Nat.le_of_not_lt hq)]
        · simp only [hs, Bool.toNat_true, ↓reduceIte] at h'
          injection h' with h'; subst h'
          simp only [mask, setSize_ival, setSize_size, Nat.testBit_or, Nat.testBit_mod_two_pow, mask_xor_mask,
            Bool.and_true]
          by_cases hq : q < b.size
          · have : q < n := by omega
            simp [hq, this]
          · simp [hq, wf_testBit hb (Nat.le_of_not_lt hq)]
      have hsz : r.size = n := by
        cases hs : b.ival.testBit (b.size - 1)
        · simp only [hs, Bool.toNat_false, Nat.zero_ne_one, ↓reduceIte] at h'
          injection h' with h'; subst h'; rfl
        · simp only [hs, Bool.toNat_true, ↓reduceIte] at h'
          injection h' with h'; subst h'; rfl
      refine ⟨?_, by omega, hbits⟩
      apply lt_two_pow_of_testBit_false
      intro q hq
      rw [hbits q]
      have h1 : ¬ q < b.size := by omega
      have h2 : ¬ q < n := by omega
      simp [h1, h2]
  · rename_i hn
    injection h with h; subst h
    refine ⟨hb, by omega, ?_⟩
    intro q
    by_cases hq : q < b.size
    · simp [hq]
    · have : ¬ q < n := by omega
      simp [hq, this, wf_testBit hb (Nat.le_of_not_lt hq)]

theorem signextend_error_iff (b : Bits) (n : Nat) :
    (∃ e, b.signextend n = .error e) ↔ (b.size = 0 ∧ 0 < n) := by
  unfold signextend
  constructor
  · rintro ⟨e, h⟩
    split at h
    · rename_i hn
      by_cases h0 : b.size = 0
      · exact ⟨h0, by omega⟩
      · rw [bit_neg_one b (by omega)] at h
        exfalso
        have h' : (if (b.ival.testBit (b.size - 1)).toNat = 1
                 then (pure ⟨(b.setSize n).ival ||| (b.mask ^^^ (b.setSize n).mask), n⟩ : Except Err Bits)
                 else pure (b.setSize n)) = .error e := h
        split at h' <;> cases h'
    · cases h
  · rintro ⟨h0, hn⟩
    have : n > b.size := by omega
    simp only [this, ↓reduceIte]
    rw [bit_neg_one_empty b h0]
    exact ⟨"IndexError", rfl⟩

/-- a number is determined by its bits: value of a vector whose bits below `m` are those of `x` and whose bits
    in `[m,n)` are all ones -/
theorem ones_above (x m n : Nat) (hx : x < 2 ^ m) (hmn : m ≤ n) (y : Nat)
    (hy : ∀ q, y.testBit q = if q < m then x.testBit q else decide (q < n)) :
    y + 2 ^ m = x + 2 ^ n := by
  have : y = x ||| ((2 ^ (n - m) - 1) <<< m) := by
    apply Nat.eq_of_testBit_eq
    intro q
    rw [hy q]
    simp only [Nat.testBit_or, Nat.testBit_shiftLeft, Nat.testBit_two_pow_sub_one, ge_iff_le]
    by_cases hq : q < m
    · have : ¬ m ≤ q := by omega
      simp [hq, this]
    · have h1 : m ≤ q := by omega
      have h2 : decide (q - m < n - m) = decide (q < n) := by apply decide_eq_decide.2; omega
      simp [hq, h1, h2, testBit_of_lt hx h1]
  rw [this, Nat.or_comm, ← Nat.shiftLeft_add_eq_or_of_lt hx, Nat.shiftLeft_eq, Nat.sub_mul, Nat.one_mul,
    ← Nat.pow_add, Nat.sub_add_cancel hmn]
  have : 2 ^ m ≤ 2 ^ n := Nat.pow_le_pow_right (by omega) hmn
  omega

/-- sign extension preserves the two's-complement value -/
theorem signextend_sval (b : Bits) (hb : b.WF) (n : Nat) (r : Bits) (h : b.signextend n = .ok r) :
    sval r = sval b := by
  obtain ⟨hw, hsz, hbits⟩ := signextend_spec b hb n r h
  by_cases hn : n ≤ b.size
  · -- nothing happens
    have : r = b := by
      unfold signextend at h
      have : ¬ n > b.size := by omega
      simp only [this, ↓reduceIte] at h
      injection h with h; exact h.symm
    rw [this]
  · have hn' : b.size < n := by omega
    have h0 : 0 < b.size := by
      by_cases h0 : b.size = 0
      · exfalso
        have := (signextend_error_iff b n).2 ⟨h0, by omega⟩
        obtain ⟨e, he⟩ := this
        rw [he] at h; cases h
      · omega
    have hrs : r.size = n := by omega
    unfold sval
    have htop : r.ival.testBit (r.size - 1) = b.ival.testBit (b.size - 1) := by
      rw [hbits, hrs]
      have h1 : ¬ (n - 1 < b.size) := by omega
      have h2 : n - 1 < n := by omega
      simp [h1, h2]
    rw [htop]
    cases hs : b.ival.testBit (b.size - 1)
    · -- zero-filled
      have : r.ival = b.ival := by
        apply Nat.eq_of_testBit_eq
        intro q
        rw [hbits q, hs]
        by_cases hq : q < b.size
        · simp [hq]
        · simp [hq, wf_testBit hb (Nat.le_of_not_lt hq)]
      simp [this]
    · have := ones_above b.ival b.size n hb (by omega) r.ival (by
        intro q; rw [hbits q, hs]; simp)
      simp only [↓reduceIte, hrs]
      have e1 : ((2 ^ n : Nat) : Int) = (2 : Int) ^ n := by simp
      have e2 : ((2 ^ b.size : Nat) : Int) = (2 : Int) ^ b.size := by simp
      omega

/-! ### vocabulary of the history theorems -/

/-- a step of a history "fits" when a contiguous slice assignment is given a value below 2^(stop-start)
    (every other mutating operation either succeeds within the size or is refused by the code itself) -/
def Fits (b : Bits) : MutOp → Prop
  | .setSlice start stop step v =>
      ∀ s e st, sliceIndices start stop step b.size = .ok (s, e, st) → st = 1 → s < e → v.ival < 2 ^ (e - s).toNat
  | _ => True

/-- every step of the history fits the state it is applied to -/
def AllFit : Bits → List MutOp → Prop
  | _, [] => True
  | b, op :: ops => Fits b op ∧ ∀ b', b.applyOp op = .ok b' → AllFit b' ops

/-! ### Hamming weight -/

theorem hw_eq (b : Bits) : b.hw = ((List.range b.size).filter fun i => b.ival.testBit i).length := by
  unfold hw toBitList
  rw [List.filter_map, List.length_map]
  congr 1
  apply List.filter_congr
  intro i _
  simp only [Function.comp, shr_and_one]
  cases b.ival.testBit i <;> simp

end Proofs.Lemmas.Bits
