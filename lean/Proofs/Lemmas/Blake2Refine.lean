/-
  Refinement lemmas: Model.Blake2 against Spec.Blake2 (RFC 7693) — G, round, compression function F.
-/
import Proofs.Lemmas.BlakeWords
import Spec.Blake2
namespace Proofs.Lemmas.Blake2Refine
open Model Model.Gen Proofs.Lemmas.BlakeWords

/-- the regenerated data of a model configuration are those of a specification variant -/
structure Match (c : Blake.Cfg) (V : Spec.Blake2.Variant) : Prop where
  w : c.wsize = V.w
  iv : Blake2.iv c = V.iv.map BitVec.toNat
  rounds : Blake2.rounds c = V.rounds
  rot : Blake2.rot c = [V.R1, V.R2, V.R3, V.R4]
  ivlen : V.iv.length = 8
  r1 : V.R1 < V.w
  r2 : V.R2 < V.w
  r3 : V.R3 < V.w
  r4 : V.R4 < V.w
  block : c.blocksize = 8 * V.bb
  w8 : V.w % 8 = 0

theorem gsched_positions : ∀ i < 8, BlakeG.b2gsched.getD i [] =
    [i, (Spec.Blake2.positions i).1, (Spec.Blake2.positions i).2.1, (Spec.Blake2.positions i).2.2.1, (Spec.Blake2.positions i).2.2.2] := by
  decide +kernel

theorem positions_lt : ∀ i < 8, (Spec.Blake2.positions i).1 < 16 ∧ (Spec.Blake2.positions i).2.1 < 16 ∧
    (Spec.Blake2.positions i).2.2.1 < 16 ∧ (Spec.Blake2.positions i).2.2.2 < 16 := by
  decide +kernel

theorem sigma_lt : ∀ r < 10, ∀ j < 16, (Spec.Blake2.sigma.getD r []).getD j 0 < 16 := by
  decide +kernel

theorem sigma_eq : BlakeG.sigma = Spec.Blake2.sigma := by decide +kernel
theorem sigmaMod_eq : BlakeG.b2sigmaMod = 10 := by decide +kernel

theorem gapply_ofBV {w} (r0 r1 r2 r3 : Nat) (h0 : r0 < w) (h1 : r1 < w) (h2 : r2 < w) (h3 : r3 < w)
    (x y : BitVec w) (v : List (BitVec w)) (ja jb jc jd : Nat)
    (ha : ja < v.length) (hb : jb < v.length) (hc : jc < v.length) (hd : jd < v.length) :
    Blake.gapply [r0, r1, r2, r3] (ofBV x) (ofBV y) (v.map ofBV) ja jb jc jd =
      (let a := v.getD ja 0; let b := v.getD jb 0; let c := v.getD jc 0; let d := v.getD jd 0
       let a1 := a + b + x
       let d1 := (d ^^^ a1).rotateRight r0
       let c1 := c + d1
       let b1 := (b ^^^ c1).rotateRight r1
       let a2 := a1 + b1 + y
       let d2 := (d1 ^^^ a2).rotateRight r2
       let c2 := c1 + d2
       let b2 := (b1 ^^^ c2).rotateRight r3
       (((v.set ja a2).set jb b2).set jc c2).set jd d2).map ofBV := by
  simp only [Blake.gapply, getW_map _ _ ha, getW_map _ _ hb, getW_map _ _ hc, getW_map _ _ hd,
    gmix_ofBV r0 r1 r2 r3 h0 h1 h2 h3, set_map]

/-- one G call of the model is the corresponding G call of RFC 7693 -/
theorem gstep_refines {c : Blake.Cfg} {V : Spec.Blake2.Variant} (hm : Match c V)
    (W v : List (BitVec V.w)) (hW : W.length = 16) (hv : v.length = 16) (r i : Nat) (hi : i < 8) :
    Blake2.gstep c (W.map ofBV) r (v.map ofBV) (BlakeG.b2gsched.getD i []) = (Spec.Blake2.Gi V W r v i).map ofBV := by
  have hr : r % 10 < 10 := Nat.mod_lt _ (by decide)
  have hp := sigma_lt (r % 10) hr (2 * i) (by omega)
  have hq := sigma_lt (r % 10) hr (2 * i + 1) (by omega)
  obtain ⟨pa, pb, pc, pd⟩ := positions_lt i hi
  rw [gsched_positions i hi]
  simp only [Blake2.gstep, Blake.sigmaPQ, sigma_eq, sigmaMod_eq, List.getD_cons_zero, List.getD_cons_succ]
  rw [getW_map _ _ (by omega), getW_map _ _ (by omega), hm.rot]
  rw [gapply_ofBV _ _ _ _ hm.r1 hm.r2 hm.r3 hm.r4 _ _ _ _ _ _ _ (by omega) (by omega) (by omega) (by omega)]
  simp only [Spec.Blake2.Gi, Spec.Blake2.G, Spec.Blake2.at']

theorem Gi_length (V : Spec.Blake2.Variant) (W v : List (BitVec V.w)) (r i : Nat) :
    (Spec.Blake2.Gi V W r v i).length = v.length := by
  simp [Spec.Blake2.Gi]

theorem foldG_refines {c : Blake.Cfg} {V : Spec.Blake2.Variant} (hm : Match c V)
    (W : List (BitVec V.w)) (hW : W.length = 16) (r : Nat) (is : List Nat) (his : ∀ i ∈ is, i < 8) :
    ∀ v : List (BitVec V.w), v.length = 16 →
      is.foldl (fun v i => Blake2.gstep c (W.map ofBV) r v (BlakeG.b2gsched.getD i [])) (v.map ofBV)
        = (is.foldl (Spec.Blake2.Gi V W r) v).map ofBV ∧ (is.foldl (Spec.Blake2.Gi V W r) v).length = 16 := by
  induction is with
  | nil => intro v hv; exact ⟨rfl, hv⟩
  | cons i is ih =>
    intro v hv
    have hi : i < 8 := his i (by simp)
    simp only [List.foldl_cons]
    rw [gstep_refines hm W v hW hv r i hi]
    exact ih (fun j hj => his j (by simp [hj])) _ (by rw [Gi_length]; exact hv)

theorem gsched_foldl {α} (f : α → List Nat → α) (a : α) :
    BlakeG.b2gsched.foldl f a = (List.range 8).foldl (fun v i => f v (BlakeG.b2gsched.getD i [])) a := by
  have : BlakeG.b2gsched = (List.range 8).map fun i => BlakeG.b2gsched.getD i [] := by decide +kernel
  conv => lhs; rw [this]
  rw [List.foldl_map]

theorem round_refines {c : Blake.Cfg} {V : Spec.Blake2.Variant} (hm : Match c V)
    (W v : List (BitVec V.w)) (hW : W.length = 16) (hv : v.length = 16) (r : Nat) :
    Blake2.round c (W.map ofBV) (v.map ofBV) r = (Spec.Blake2.round V W v r).map ofBV ∧
      (Spec.Blake2.round V W v r).length = 16 := by
  unfold Blake2.round Spec.Blake2.round
  rw [gsched_foldl]
  exact foldG_refines hm W hW r (List.range 8) (fun i hi => List.mem_range.mp hi) v hv

theorem rounds_refines {c : Blake.Cfg} {V : Spec.Blake2.Variant} (hm : Match c V)
    (W : List (BitVec V.w)) (hW : W.length = 16) (rs : List Nat) :
    ∀ v : List (BitVec V.w), v.length = 16 →
      rs.foldl (Blake2.round c (W.map ofBV)) (v.map ofBV) = (rs.foldl (Spec.Blake2.round V W) v).map ofBV ∧
        (rs.foldl (Spec.Blake2.round V W) v).length = 16 := by
  induction rs with
  | nil => intro v hv; exact ⟨rfl, hv⟩
  | cons r rs ih =>
    intro v hv
    simp only [List.foldl_cons]
    rw [(round_refines hm W v hW hv r).1]
    exact ih _ (round_refines hm W v hW hv r).2

theorem iv_map {c : Blake.Cfg} {V : Spec.Blake2.Variant} (hm : Match c V) :
    (Blake2.iv c).map (Blake.wd V.w) = V.iv.map ofBV := by
  rw [hm.iv, List.map_map]
  apply List.map_congr_left
  intro x _
  simp [wd_eq]

theorem allOnes_wd (w : Nat) : Blake.wd w (2 ^ w - 1) = ofBV (BitVec.allOnes w) := by
  rw [wd_eq]; congr 1
  apply BitVec.eq_of_toNat_eq
  simp [BitVec.toNat_allOnes]

theorem zero_wd (w : Nat) : Blake.wd w 0 = ofBV (0 : BitVec w) := by
  rw [wd_eq]; rfl

/-- the compression function of the model is F of RFC 7693 -/
theorem compress_refines {c : Blake.Cfg} {V : Spec.Blake2.Variant} (hm : Match c V)
    (H W : List (BitVec V.w)) (hH : H.length = 8) (hW : W.length = 16) (t : Nat) (fin : Bool) :
    Blake2.compress c (H.map ofBV) (W.map ofBV) t fin = (Spec.Blake2.F V H W t fin).map ofBV ∧
      (Spec.Blake2.F V H W t fin).length = 8 := by
  refine ⟨?_, by simp [Spec.Blake2.F]⟩
  obtain ⟨h0, h1, h2, h3, h4, h5, h6, h7, rfl⟩ := exists8 H hH
  obtain ⟨i0, i1, i2, i3, i4, i5, i6, i7, hiv⟩ := exists8 V.iv hm.ivlen
  unfold Blake2.compress Spec.Blake2.F
  simp only [hm.rounds, hm.w, counter_lo, counter_hi]
  rw [iv_map hm, hiv]
  have hv0 : [h0, h1, h2, h3, h4, h5, h6, h7].map ofBV ++ ([i0, i1, i2, i3, i4, i5, i6, i7].map ofBV).take 4
        ++ Blake.xorL [ofBV (BitVec.ofNat V.w t), ofBV (BitVec.ofNat V.w (t / 2 ^ V.w))] ((([i0, i1, i2, i3, i4, i5, i6, i7].map ofBV).drop 4).take 2)
        ++ Blake.xorL [Blake.wd V.w (if fin = true then 2 ^ V.w - 1 else 0), Blake.wd V.w 0] ((([i0, i1, i2, i3, i4, i5, i6, i7].map ofBV).drop 6).take 2)
      = ([h0, h1, h2, h3, h4, h5, h6, h7, i0, i1, i2, i3, i4 ^^^ BitVec.ofNat V.w t, i5 ^^^ BitVec.ofNat V.w (t / 2 ^ V.w),
          (if fin = true then i6 ^^^ BitVec.allOnes V.w else i6), i7]).map ofBV := by
    cases fin <;>
      simp [Blake.xorL, xor_ofBV, allOnes_wd, zero_wd, BitVec.xor_comm]
  rw [hv0]
  have hspec : (if fin = true then
        ((([h0, h1, h2, h3, h4, h5, h6, h7] ++ [i0, i1, i2, i3, i4, i5, i6, i7]).set 12
          (Spec.Blake2.at' V ([h0, h1, h2, h3, h4, h5, h6, h7] ++ [i0, i1, i2, i3, i4, i5, i6, i7]) 12 ^^^ BitVec.ofNat V.w t)).set 13
          (Spec.Blake2.at' V (([h0, h1, h2, h3, h4, h5, h6, h7] ++ [i0, i1, i2, i3, i4, i5, i6, i7]).set 12
            (Spec.Blake2.at' V ([h0, h1, h2, h3, h4, h5, h6, h7] ++ [i0, i1, i2, i3, i4, i5, i6, i7]) 12 ^^^ BitVec.ofNat V.w t)) 13 ^^^
              BitVec.ofNat V.w (t / 2 ^ V.w))).set 14
          (Spec.Blake2.at' V ((([h0, h1, h2, h3, h4, h5, h6, h7] ++ [i0, i1, i2, i3, i4, i5, i6, i7]).set 12
            (Spec.Blake2.at' V ([h0, h1, h2, h3, h4, h5, h6, h7] ++ [i0, i1, i2, i3, i4, i5, i6, i7]) 12 ^^^ BitVec.ofNat V.w t)).set 13
            (Spec.Blake2.at' V (([h0, h1, h2, h3, h4, h5, h6, h7] ++ [i0, i1, i2, i3, i4, i5, i6, i7]).set 12
              (Spec.Blake2.at' V ([h0, h1, h2, h3, h4, h5, h6, h7] ++ [i0, i1, i2, i3, i4, i5, i6, i7]) 12 ^^^ BitVec.ofNat V.w t)) 13 ^^^
                BitVec.ofNat V.w (t / 2 ^ V.w))) 14 ^^^ BitVec.allOnes V.w)
      else
        (([h0, h1, h2, h3, h4, h5, h6, h7] ++ [i0, i1, i2, i3, i4, i5, i6, i7]).set 12
          (Spec.Blake2.at' V ([h0, h1, h2, h3, h4, h5, h6, h7] ++ [i0, i1, i2, i3, i4, i5, i6, i7]) 12 ^^^ BitVec.ofNat V.w t)).set 13
          (Spec.Blake2.at' V (([h0, h1, h2, h3, h4, h5, h6, h7] ++ [i0, i1, i2, i3, i4, i5, i6, i7]).set 12
            (Spec.Blake2.at' V ([h0, h1, h2, h3, h4, h5, h6, h7] ++ [i0, i1, i2, i3, i4, i5, i6, i7]) 12 ^^^ BitVec.ofNat V.w t)) 13 ^^^
              BitVec.ofNat V.w (t / 2 ^ V.w)))
      = [h0, h1, h2, h3, h4, h5, h6, h7, i0, i1, i2, i3, i4 ^^^ BitVec.ofNat V.w t, i5 ^^^ BitVec.ofNat V.w (t / 2 ^ V.w),
          (if fin = true then i6 ^^^ BitVec.allOnes V.w else i6), i7] := by
    cases fin <;> simp [Spec.Blake2.at']
  rw [hspec]
  obtain ⟨hr, hl⟩ := rounds_refines hm W hW (List.range V.rounds)
    [h0, h1, h2, h3, h4, h5, h6, h7, i0, i1, i2, i3, i4 ^^^ BitVec.ofNat V.w t, i5 ^^^ BitVec.ofNat V.w (t / 2 ^ V.w),
          (if fin = true then i6 ^^^ BitVec.allOnes V.w else i6), i7] (by simp)
  rw [hr]
  obtain ⟨v0, v1, v2, v3, v4, v5, v6, v7, v8, v9, v10, v11, v12, v13, v14, v15, hv⟩ := exists16 _ hl
  rw [hv]
  simp [Blake.xorL, Spec.Blake2.at', xor_ofBV, List.range_succ, BitVec.xor_assoc]

end Proofs.Lemmas.Blake2Refine
