/-
  Helper lemmas for the finalisation phase on explicit state (`Model.Tlsh.finalOf`, `Spec.Tlsh.encode`).
-/
import Proofs.Lemmas.TlshRef
namespace Proofs.Lemmas.Tlsh
open Model Model.Tlsh Model.Gen.Lsh

/-- the object `finalOf` hands out behind the gates -/
def mkObjOf (lcap : Nat → Nat) (c : Cfg) (st : St) (n : Nat) : TObj :=
  let q := quartiles c st.bucket
  { chklen := c.chklen, checksum := st.checksum, lvalue := lcap n % 256,
    q1 := q.1 * 100 / q.2.2 % 16, q2 := q.2.1 * 100 / q.2.2 % 16,
    code := bodyCode c q.1 q.2.1 q.2.2 st.bucket }

theorem finalOf_eq (lcap : Nat → Nat) (c : Cfg) (hc : c.valid = true) (st : St) (hb : st.bucket.length = 256)
    (n : Nat) (force : Bool) :
    finalOf lcap c st n force =
      if n < 50 ∨ (force = false ∧ n < 256) then .ok none
      else if tooFew c.buckets (nonzero c st.bucket) then .ok none
      else if (quartiles c st.bucket).2.2 = 0 then .error "ZeroDivisionError"
      else .ok (some (mkObjOf lcap c st n)) := by
  have hv := (valid_cases hc).1
  have h1 : ¬ (st.bucket.take c.buckets).length ≤ 3 * c.codesize - 1 := by
    rw [List.length_take, hb]; unfold Cfg.codesize; omega
  have h2 : ¬ st.bucket.length < c.buckets := by rw [hb]; omega
  unfold finalOf mkObjOf
  simp only [minLen, minLenNoForce, h1, h2, ↓reduceIte]

theorem final_eq_finalOf (lcap : Nat → Nat) (c : Cfg) (hc : c.valid = true) (data : List Nat) (force : Bool) :
    final lcap c data force = finalOf lcap c (update c data) data.length force := by
  rw [final_eq, finalOf_eq lcap c hc _ (update_wf c data).bklen]
  rfl

/-- the payload of `Spec.Tlsh.encode` when both gates are passed -/
def specEncode (lcap : Nat → Nat) (eff : Nat) (bucket ck : List Nat) (n : Nat) : List Nat :=
  let bk := bucket.take eff
  let q1 := Spec.Tlsh.kth bk (eff / 4 - 1)
  let q2 := Spec.Tlsh.kth bk (eff / 2 - 1)
  let q3 := Spec.Tlsh.kth bk (3 * (eff / 4) - 1)
  let body := (List.range (eff / 4)).map fun m =>
    let i := eff / 4 - 1 - m
    Spec.Tlsh.code q1 q2 q3 (bk.getD (4 * i) 0) + 4 * Spec.Tlsh.code q1 q2 q3 (bk.getD (4 * i + 1) 0)
      + 16 * Spec.Tlsh.code q1 q2 q3 (bk.getD (4 * i + 2) 0) + 64 * Spec.Tlsh.code q1 q2 q3 (bk.getD (4 * i + 3) 0)
  ck.map Spec.Tlsh.swapNibbles
        ++ [Spec.Tlsh.swapNibbles (lcap n % 256), (q1 * 100 / q3 % 16) * 16 + q2 * 100 / q3 % 16]
        ++ body

theorem spec_encode_eq (lcap : Nat → Nat) (eff : Nat) (bucket ck : List Nat) (n : Nat) (force : Bool) :
    Spec.Tlsh.encode lcap eff bucket ck n force =
      if n < 50 ∨ (force = false ∧ n < 256) then none
      else if Spec.Tlsh.tooFew eff (((bucket.take eff).filter (0 < ·)).length) = true then none
      else some (specEncode lcap eff bucket ck n) := rfl

theorem digest_mkObjOf_eq (lcap : Nat → Nat) (c : Cfg) (hc : c.valid = true) (st : St) (hb : st.bucket.length = 256)
    (hck : ∀ x ∈ st.checksum, x < 256) (n : Nat) :
    digest (mkObjOf lcap c st n) = specEncode lcap c.buckets st.bucket st.checksum n := by
  have hq := quartiles_eq c hc _ hb
  unfold digest mkObjOf specEncode
  simp only [hq]
  congr 1
  · congr 1
    · apply List.map_congr_left
      intro x hx
      exact swp8_eq x (hck x hx)
    · rw [swp8_eq _ (Nat.mod_lt _ (by decide)), qb_eq _ (Nat.mod_lt _ (by decide)) _ (Nat.mod_lt _ (by decide))]
  · unfold bodyCode Cfg.codesize
    rw [reverse_map_range]
    apply List.map_congr_left
    intro m hm
    have hm' : m < c.buckets / 4 := List.mem_range.mp hm
    unfold codeByte
    simp only [quart_eq, Nat.shiftLeft_eq]
    rw [getD_take_lt _ _ _ (by omega), getD_take_lt _ _ _ (by omega), getD_take_lt _ _ _ (by omega),
      getD_take_lt _ _ _ (by omega)]
    omega

theorem finalOf_eq_encode (lcap : Nat → Nat) (c : Cfg) (hc : c.valid = true) (st : St) (hb : st.bucket.length = 256)
    (hck : ∀ x ∈ st.checksum, x < 256) (n : Nat) (force : Bool) :
    (finalOf lcap c st n force).map (·.map digest)
      = .ok (Spec.Tlsh.encode lcap c.buckets st.bucket st.checksum n force) := by
  rw [finalOf_eq lcap c hc st hb, spec_encode_eq]
  by_cases h1 : n < 50 ∨ (force = false ∧ n < 256)
  · simp only [h1, ↓reduceIte, Except.map, Option.map]
  · simp only [h1, ↓reduceIte]
    have hg : tooFew c.buckets (nonzero c st.bucket)
        = Spec.Tlsh.tooFew c.buckets (((st.bucket.take c.buckets).filter (0 < ·)).length) := by
      rw [tooFew_eq]; unfold nonzero; rw [nonzero_eq]
    rw [← hg]
    by_cases h2 : tooFew c.buckets (nonzero c st.bucket) = true
    · simp only [h2, ↓reduceIte, Except.map, Option.map]
    · have h2' : tooFew c.buckets (nonzero c st.bucket) = false := by simpa using h2
      have h3 := gate_q3_pos hc hb h2'
      rw [h2']
      simp only [h3, ↓reduceIte, Except.map, Option.map, Bool.false_eq_true, digest_mkObjOf_eq lcap c hc st hb hck n]

/-- the object behind the gates, read off a successful `finalOf` -/
theorem finalOf_some (lcap : Nat → Nat) (c : Cfg) (hc : c.valid = true) (st : St) (hb : st.bucket.length = 256)
    (n : Nat) (force : Bool) (o : TObj) (h : finalOf lcap c st n force = .ok (some o)) :
    o = mkObjOf lcap c st n ∧ (quartiles c st.bucket).2.2 ≠ 0 := by
  rw [finalOf_eq lcap c hc st hb] at h
  repeat' split at h
  all_goals first | (cases h; done) | skip
  rename_i h0
  cases h
  exact ⟨rfl, h0⟩

end Proofs.Lemmas.Tlsh
