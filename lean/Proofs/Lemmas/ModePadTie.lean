/-
  Spec.ModePad (the byte-level padding methods the mode theorems of C05 are stated with) agrees with Spec.Padding
  (the bit-level specification of the padding property C09) on byte strings, so that the two specifications cannot
  drift apart: a whole-byte message padded by Spec.Padding — as a bit string, converted back to bytes — is the
  Spec.ModePad string, and the PKCS#7 / X9.23 unpadding maps coincide.
-/
import Proofs.Lemmas.PaddingStrip
import Proofs.Lemmas.ModePadL
namespace Proofs.Lemmas.ModePadTie
open Spec.Padding Proofs.Lemmas.Padding

/-- the scheme of Spec.Padding a scheme of Spec.ModePad stands for -/
def toPadding : Spec.ModePad.Scheme → Spec.Padding.Scheme
  | .none => .no
  | .pkcs7 => .pkcs7
  | .x923 => .x923
  | .bit => .bit

theorem pkcs7_eq (l : Nat) (M : List Nat) : Spec.ModePad.pkcs7 l M = pkcs7Pad l M := rfl
theorem x923_eq (l : Nat) (M : List Nat) : Spec.ModePad.x923 l M = x923Pad l M := rfl

theorem mod_8 (a l : Nat) (hl : 0 < l) : (8 * a + 1) % (8 * l) = 8 * (a % l) + 1 := by
  have h1 : (8 * a) % (8 * l) = 8 * (a % l) := Nat.mul_mod_mul_left 8 a l
  have h2 := Nat.mod_lt a hl
  rw [Nat.add_mod, h1, Nat.mod_eq_of_lt (a := 1) (by omega), Nat.mod_eq_of_lt (by omega)]

theorem fill_bit (a l : Nat) (hl : 0 < l) : fill (8 * l) (8 * a + 1) = 7 + 8 * (l - a % l - 1) := by
  have h2 := Nat.mod_lt a hl
  unfold fill
  rw [mod_8 a l hl, Nat.mod_eq_of_lt (by omega)]
  omega

theorem one_zeros (t : Nat) : [true] ++ zeros (7 + 8 * t) = byteBits 0x80 ++ zeros (8 * t) := by
  have : byteBits 0x80 = [true] ++ zeros 7 := by decide
  rw [this, List.append_assoc]
  simp only [zeros, List.replicate_append_replicate]

/-- ISO/IEC 9797-1 method 2 on a whole-byte message, read back as bytes: 0x80 and the zero bytes to the block end -/
theorem bit_eq (l : Nat) (hl : 0 < l) (M : List Nat) (hM : Bytes M) :
    Spec.ModePad.bitpad l M = bitsToBytes (bitPad (8 * l) (bytesToBits M)) := by
  unfold bitPad Spec.ModePad.bitpad Spec.ModePad.padLen
  rw [bytesToBits_length, fill_bit M.length l hl, List.append_assoc, one_zeros,
    bitsToBytes_bytesToBits_append M hM, bitsToBytes_append _ _ (by rw [byteBits_length]),
    bitsToBytes_byteBits 0x80 (by decide), bitsToBytes_zeros]
  rfl

/-- the padded strings of the two specifications coincide on byte strings (block of l bytes = 8·l bits;
    PKCS#7 / X9.23 need a pad length that fits a byte in both) -/
theorem pad_eq (s : Spec.ModePad.Scheme) (l : Nat) (hl : 0 < l) (M : List Nat) (hM : Bytes M)
    (h256 : s = .pkcs7 ∨ s = .x923 → l < 256) :
    Spec.ModePad.pad s l M = padBytes (toPadding s) (8 * l) M (8 * M.length) := by
  have hdiv : 8 * l / 8 = l := Nat.mul_div_cancel_left l (by decide)
  cases s with
  | none => exact (msgBytes_whole M hM).symm
  | pkcs7 =>
    have := padBytes_pkcs7 (8 * l) M hM (by rw [hdiv]; exact h256 (Or.inl rfl)) (by rw [hdiv]; exact hl)
    rw [hdiv] at this
    exact this.symm
  | x923 =>
    have := padBytes_x923 (8 * l) M hM (by rw [hdiv]; exact h256 (Or.inr rfl)) (by rw [hdiv]; exact hl)
    rw [hdiv] at this
    exact this.symm
  | bit =>
    have ht : takeBits (8 * M.length) M = bytesToBits M := List.take_of_length_le (by simp)
    show Spec.ModePad.bitpad l M = bitsToBytes (bitPad (8 * l) (takeBits (8 * M.length) M))
    rw [ht]; exact bit_eq l hl M hM

/-! ### the unpadding maps -/

theorem unpkcs7_eq (l : Nat) (X : List Nat) : Spec.ModePad.unpkcs7 l X = pkcs7Unpad l X := rfl

theorem x923_cond (X : List Nat) (q : Nat) (hlast : X.getLast? = some q) (h1 : 1 ≤ q) (h3 : q ≤ X.length) :
    (X.drop (X.length - q)).take (q - 1) = List.replicate (q - 1) 0 ↔
      X.drop (X.length - q) = List.replicate (q - 1) 0 ++ [q] := by
  have hdl : (X.drop (X.length - q)).length = q := by rw [List.length_drop]; omega
  have hne : X.drop (X.length - q) ≠ [] := by intro h; rw [h] at hdl; simp at hdl; omega
  have hl2 : (X.drop (X.length - q)).getLast? = some q := by
    rw [List.getLast?_drop, if_neg (by omega)]; exact hlast
  have hsplit : X.drop (X.length - q) = (X.drop (X.length - q)).take (q - 1) ++ [q] := by
    have h := List.dropLast_concat_getLast hne
    have hq : (X.drop (X.length - q)).getLast hne = q := by
      rw [List.getLast?_eq_some_getLast hne] at hl2; exact Option.some.inj hl2
    rw [hq, List.dropLast_eq_take, hdl] at h
    exact h.symm
  constructor
  · intro h; rw [hsplit, h]
  · intro h; rw [h]
    simp

theorem unx923_eq (l : Nat) (X : List Nat) : Spec.ModePad.unx923 l X = x923Unpad l X := by
  unfold Spec.ModePad.unx923 x923Unpad
  cases hlast : X.getLast? with
  | none => rfl
  | some q =>
    simp only
    by_cases h : 1 ≤ q ∧ q ≤ l ∧ q ≤ X.length
    · have := x923_cond X q hlast h.1 h.2.2
      by_cases hc : (X.drop (X.length - q)).take (q - 1) = List.replicate (q - 1) 0
      · rw [if_pos ⟨h.1, h.2.1, h.2.2, hc⟩, if_pos ⟨h.1, h.2.1, h.2.2, this.1 hc⟩]
      · rw [if_neg (fun hh => hc hh.2.2.2), if_neg (fun hh => hc (this.2 hh.2.2.2))]
    · rw [if_neg (fun hh => h ⟨hh.1, hh.2.1, hh.2.2.1⟩), if_neg (fun hh => h ⟨hh.1, hh.2.1, hh.2.2.1⟩)]

end Proofs.Lemmas.ModePadTie
