/-
  Helper lemmas for C05: the ciphertext-stealing modes equal the Spec (ECB-CTS, CBC-CS2 of the SP 800-38A addendum).
-/
import Proofs.Lemmas.ModeCts
namespace Proofs.Lemmas.ModeL
open Model Model.Mode
variable {c : BlockCipher} {k : Spec.Mode.Cipher}

theorem ecbCtsBlocks_step (k : Spec.Mode.Cipher) (p q : List Nat) (L : List (List Nat)) (hL : L ≠ []) :
    Spec.Mode.ecbCtsBlocks k (p :: q :: L) = k.E p :: Spec.Mode.ecbCtsBlocks k (q :: L) := by
  cases L with
  | nil => exact absurd rfl hL
  | cons r rest => rfl

theorem ecbCtsBlocks_partial (k : Spec.Mode.Cipher) (pl b : List Nat) (hb : b.length ≠ k.len) : ∀ (P' : List (List Nat)),
    Spec.Mode.ecbCtsBlocks k (P' ++ [pl, b]) = P'.map k.E ++ [k.E (b ++ (k.E pl).drop b.length), (k.E pl).take b.length]
  | [] => by simp [Spec.Mode.ecbCtsBlocks, hb]
  | [p] => by
    have := ecbCtsBlocks_partial k pl b hb []
    simp only [List.nil_append, List.map_nil] at this
    simp only [List.cons_append, List.nil_append, List.map_cons, List.map_nil]
    rw [ecbCtsBlocks_step k p pl [b] (by simp), this]
  | p :: q :: P' => by
    have := ecbCtsBlocks_partial k pl b hb (q :: P')
    simp only [List.cons_append, List.map_cons] at this ⊢
    rw [ecbCtsBlocks_step k p q (P' ++ [pl, b]) (by simp), this]

theorem ecbCtsBlocks_full (k : Spec.Mode.Cipher) : ∀ (Bs : List (List Nat)), (∀ b ∈ Bs, b.length = k.len) →
    Spec.Mode.ecbCtsBlocks k Bs = Bs.map k.E
  | [], _ => rfl
  | [p], _ => rfl
  | [p, q], h => by simp [Spec.Mode.ecbCtsBlocks, h q (by simp)]
  | p :: q :: r :: rest, h => by
    have := ecbCtsBlocks_full k (q :: r :: rest) (fun b hb => h b (List.mem_cons_of_mem _ hb))
    simp only [Spec.Mode.ecbCtsBlocks, List.map_cons] at this ⊢
    rw [this]

/-- the Spec's blocks of P_1 ‖ … ‖ P_n ‖ b with 0 < |b| < l -/
theorem blocks_partial (l : Nat) (hl : 0 < l) (Bs : List (List Nat)) (hall : ∀ x ∈ Bs, x.length = l) (b : List Nat)
    (hb0 : 0 < b.length) (hbl : b.length < l) : Spec.Mode.blocks l (join Bs ++ b) = Bs ++ [b] := by
  have hjl := length_join_of_all l Bs hall
  rw [spec_blocks_eq]
  have hn : ((join Bs ++ b).length + l - 1) / l = Bs.length + 1 := by
    rw [List.length_append, hjl]
    have : Bs.length * l + b.length + l - 1 = (b.length - 1) + l * (Bs.length + 1) := by
      rw [Nat.mul_succ, Nat.mul_comm]; omega
    rw [this, Nat.add_mul_div_left _ _ hl, Nat.div_eq_of_lt (by omega)]; omega
  rw [hn, readBlocks_append l Bs.length 1 _ b hjl, readBlocks_join l Bs hall]
  simp [readBlocks, List.take_of_length_le (Nat.le_of_lt hbl)]

theorem blocks_full (l : Nat) (hl : 0 < l) (Bs : List (List Nat)) (hall : ∀ x ∈ Bs, x.length = l) :
    Spec.Mode.blocks l (join Bs) = Bs := by
  rw [blocks_of_mult l Bs.length hl _ (length_join_of_all l Bs hall), readBlocks_join l Bs hall]

/-- CTS_ECB.enc is ECB ciphertext stealing -/
theorem cts_ecb_enc_spec (h : Implements c k) (M : List Nat) (hM : Bytes M) (hlen : c.len ≤ M.length) :
    CTS_ECB.enc c .no M = .ok (Spec.Mode.ecbCts k M) := by
  obtain ⟨Bs, b, hne, hB, hb, hbl, rfl⟩ := split_message c.len h.len_pos M hM hlen
  unfold Spec.Mode.ecbCts Spec.Mode.concat
  rw [h.len_eq]
  by_cases hb0 : b.length = 0
  · have : b = [] := List.length_eq_zero_iff.1 hb0
    subst this
    rw [List.append_nil, cts_ecb_enc_full h Bs hne hB, blocks_full c.len h.len_pos Bs (fun x hx => (hB x hx).1),
      ecbCtsBlocks_full k Bs (fun x hx => by rw [h.len_eq]; exact (hB x hx).1)]
  · obtain ⟨P', pl, rfl⟩ : ∃ P' pl, Bs = P' ++ [pl] := ⟨Bs.dropLast, Bs.getLast hne, (List.dropLast_concat_getLast hne).symm⟩
    have hP' : ∀ x ∈ P', IsBlock c.len x := fun x hx => hB x (List.mem_append_left _ hx)
    have hpl : IsBlock c.len pl := hB pl (by simp)
    rw [cts_ecb_enc_partial h P' hP' pl hpl b hb (by omega) hbl,
      blocks_partial c.len h.len_pos _ (fun x hx => (hB x hx).1) b (by omega) hbl, List.append_assoc]
    simp only [List.cons_append, List.nil_append]
    rw [ecbCtsBlocks_partial k pl b (by rw [h.len_eq]; omega) P']

theorem cs2_step (l d : Nat) (a b : List Nat) (L : List (List Nat)) (hL : L ≠ []) :
    Spec.Mode.cs2Assemble l d (a :: b :: L) = a :: Spec.Mode.cs2Assemble l d (b :: L) := by
  cases L with
  | nil => exact absurd rfl hL
  | cons r rest => rfl

theorem cs2_partial (l d : Nat) (hd : d ≠ l) (cl y : List Nat) : ∀ (C : List (List Nat)),
    Spec.Mode.cs2Assemble l d (C ++ [cl, y]) = C ++ [y, cl.take d]
  | [] => by simp [Spec.Mode.cs2Assemble, hd]
  | [a] => by
    have := cs2_partial l d hd cl y []
    simp only [List.nil_append] at this
    simp only [List.cons_append, List.nil_append]
    rw [cs2_step l d a cl [y] (by simp), this]
  | a :: b :: C => by
    have := cs2_partial l d hd cl y (b :: C)
    simp only [List.cons_append] at this ⊢
    rw [cs2_step l d a b (C ++ [cl, y]) (by simp), this]

theorem cs2_full (l : Nat) : ∀ (C : List (List Nat)), Spec.Mode.cs2Assemble l l C = C
  | [] => rfl
  | [a] => rfl
  | [a, b] => by simp [Spec.Mode.cs2Assemble]
  | a :: b :: r :: rest => by
    have := cs2_full l (b :: r :: rest)
    simp only [Spec.Mode.cs2Assemble] at this ⊢
    rw [this]

/-- CTS_CBC.enc is the IV followed by CBC-CS2 of the SP 800-38A addendum -/
theorem cts_cbc_enc_spec (h : Implements c k) (iv : List Nat) (hiv : IsBlock c.len iv) (M : List Nat) (hM : Bytes M)
    (hlen : c.len ≤ M.length) : CTS_CBC.enc c iv .no M = .ok (Spec.Mode.cbcCts k iv M) := by
  obtain ⟨Bs, b, hne, hB, hb, hbl, rfl⟩ := split_message c.len h.len_pos M hM hlen
  obtain ⟨hdiv, hmod⟩ := split_len c.len h.len_pos Bs (fun x hx => (hB x hx).1) b hbl
  unfold Spec.Mode.cbcCts Spec.Mode.cbcCS2 Spec.Mode.concat Spec.Mode.zeroExtend Spec.Mode.lastLen
  rw [h.len_eq, hmod]
  by_cases hb0 : b.length = 0
  · have : b = [] := List.length_eq_zero_iff.1 hb0
    subst this
    simp only [List.length_nil, if_true, Nat.sub_self, List.replicate_zero, List.append_nil]
    rw [cts_cbc_enc_full h iv hiv Bs hne hB, blocks_full c.len h.len_pos Bs (fun x hx => (hB x hx).1), cs2_full]
    simp [join]
  · obtain ⟨P', pl, rfl⟩ : ∃ P' pl, Bs = P' ++ [pl] := ⟨Bs.dropLast, Bs.getLast hne, (List.dropLast_concat_getLast hne).symm⟩
    have hP' : ∀ x ∈ P', IsBlock c.len x := fun x hx => hB x (List.mem_append_left _ hx)
    have hpl : IsBlock c.len pl := hB pl (by simp)
    have hb' := padded_isBlock (l := c.len) hb hbl
    have hall : ∀ x ∈ P' ++ [pl, b ++ List.replicate (c.len - b.length) 0], x.length = c.len := by
      intro x hx; rcases List.mem_append.1 hx with hx | hx
      · exact (hP' x hx).1
      · simp at hx; rcases hx with rfl | rfl
        · exact hpl.1
        · exact hb'.1
    have hz : join (P' ++ [pl]) ++ b ++ List.replicate (c.len - b.length) 0
        = join (P' ++ [pl, b ++ List.replicate (c.len - b.length) 0]) := by simp [join]
    have henc : Spec.Mode.cbcEncrypt k iv (P' ++ [pl, b ++ List.replicate (c.len - b.length) 0])
        = Spec.Mode.cbcEncrypt k iv P' ++ [csCl k iv P' pl, csY k c.len iv P' pl b] := by
      have e : P' ++ [pl, b ++ List.replicate (c.len - b.length) 0] = (P' ++ [pl]) ++ [b ++ List.replicate (c.len - b.length) 0] := by simp
      rw [e, cbcEncrypt_snoc, cbcEncrypt_snoc, List.reverse_append]
      simp only [List.reverse_cons, List.reverse_nil, List.nil_append, List.cons_append, prevOf, List.append_assoc, ← xorstr_eq_spec]
      rfl
    rw [cts_cbc_enc_partial h iv hiv P' hP' pl hpl b hb (by omega) hbl, if_neg hb0, hz,
      blocks_full c.len h.len_pos _ hall, henc, cs2_partial c.len b.length (by omega)]
    simp [join]

end Proofs.Lemmas.ModeL
