/- list-level facts about the specification's bit/byte/group functions (no model involved) -/
import Spec.MerkleDamgard
import Proofs.Lemmas.BitsList
namespace Proofs.Lemmas.SpecList
open Proofs.Lemmas.Parse Proofs.Lemmas.BitsList

theorem byteBits_length (b : Spec.Byte) : (Spec.byteBits b).length = 8 := by simp [Spec.byteBits]

theorem bytesToBits_length (M : List Spec.Byte) : (Spec.bytesToBits M).length = 8 * M.length := by
  induction M with
  | nil => rfl
  | cons x xs ih => simp only [Spec.bytesToBits, List.flatMap_cons, List.length_append, byteBits_length] at ih ⊢; rw [ih]; simp; omega

theorem bytesToBits_append (A B : List Spec.Byte) :
    Spec.bytesToBits (A ++ B) = Spec.bytesToBits A ++ Spec.bytesToBits B := by
  simp [Spec.bytesToBits]

/-- bits of the model's byte values = bits of the specification's bytes -/
theorem natBits_toNatBytes (M : List Spec.Byte) : (toNatBytes M).flatMap natByteBits = Spec.bytesToBits M := by
  simp only [toNatBytes, Spec.bytesToBits, List.flatMap_map]
  congr 1

theorem groups_cons {α} (n : Nat) (hn : 0 < n) (g r : List α) (hg : g.length = n) :
    Spec.groups n (g ++ r) = g :: Spec.groups n r := by
  have h1 : (g ++ r).length / n = r.length / n + 1 := by
    rw [List.length_append, hg, Nat.add_comm, Nat.add_div_right _ hn]
  simp only [Spec.groups, h1, List.range_succ_eq_map, List.map_cons, List.map_map]
  congr 1
  · simp [hg]
  · apply List.map_congr_left
    intro i _
    simp only [Function.comp, Nat.succ_eq_add_one]
    rw [show (i + 1) * n = g.length + i * n by rw [hg, Nat.add_mul]; omega, ← List.drop_drop, List.drop_left]

theorem groups_append {α} (n : Nat) (hn : 0 < n) (k : Nat) (a b : List α) (ha : a.length = k * n) :
    Spec.groups n (a ++ b) = Spec.groups n a ++ Spec.groups n b := by
  induction k generalizing a with
  | zero =>
    have : a = [] := List.eq_nil_of_length_eq_zero (by simpa using ha)
    subst this
    simp [Spec.groups, Nat.zero_div]
  | succ k ih =>
    have hl : n ≤ a.length := by rw [ha, Nat.add_mul]; omega
    have e : a = a.take n ++ a.drop n := (List.take_append_drop n a).symm
    have h1 : (a.take n).length = n := by rw [List.length_take]; omega
    have h2 : (a.drop n).length = k * n := by rw [List.length_drop, ha, Nat.add_mul]; omega
    rw [e, List.append_assoc, groups_cons n hn _ _ h1, groups_cons n hn _ _ h1, ih _ h2]
    rfl

theorem byte_roundtrip_nat : ∀ n, n < 256 →
    BitVec.ofNat 8 (Spec.bitsVal (Spec.byteBits (BitVec.ofNat 8 n))) = BitVec.ofNat 8 n := by decide +kernel

theorem byte_roundtrip (y : Spec.Byte) : BitVec.ofNat 8 (Spec.bitsVal (Spec.byteBits y)) = y := by
  have := byte_roundtrip_nat y.toNat y.isLt
  simpa using this

/-- regrouping a byte stream followed by more bits gives the bytes back, then the bytes of the rest -/
theorem bitsToBytes_bytes (Y : List Spec.Byte) (rest : List Bool) :
    Spec.bitsToBytes (Spec.bytesToBits Y ++ rest) = Y ++ Spec.bitsToBytes rest := by
  induction Y with
  | nil => rfl
  | cons y ys ih =>
    simp only [Spec.bytesToBits, List.flatMap_cons, List.append_assoc] at ih ⊢
    simp only [Spec.bitsToBytes] at ih ⊢
    rw [groups_cons 8 (by decide) _ _ (byteBits_length y), List.map_cons, ih, byte_roundtrip, List.cons_append]

/-- blocks of a prefix of whole blocks -/
theorem groups_take (n : Nat) (hn : 0 < n) (k : Nat) (M : List Spec.Byte) (hM : k * n ≤ M.length) :
    Spec.groups n (M.take (k * n)) = (List.range k).map fun i => (M.drop (i * n)).take n := by
  have hl : (M.take (k * n)).length = k * n := by rw [List.length_take]; omega
  simp only [Spec.groups, hl, Nat.mul_div_cancel _ hn]
  apply List.map_congr_left
  intro i hi
  have hi : i < k := List.mem_range.1 hi
  rw [List.drop_take, List.take_take]
  congr 1
  have : n ≤ k * n - i * n := by
    rw [← Nat.sub_mul]
    calc n = 1 * n := (Nat.one_mul n).symm
      _ ≤ (k - i) * n := Nat.mul_le_mul_right n (by omega)
  omega

/-- the first `L` bits of a byte string split at a block boundary below `L` -/
theorem takeBits_split (M : List Spec.Byte) (L a : Nat) (ha : 8 * a ≤ L) (haM : a ≤ M.length) :
    (Spec.bytesToBits M).take L = Spec.bytesToBits (M.take a) ++ (Spec.bytesToBits (M.drop a)).take (L - 8 * a) := by
  conv => lhs; rw [← List.take_append_drop a M, bytesToBits_append]
  rw [List.take_append, bytesToBits_length, List.length_take, Nat.min_eq_left haM,
    List.take_of_length_le (by rw [bytesToBits_length, List.length_take]; omega)]

theorem takeBits_block (X : List Spec.Byte) (n bl : Nat) (h1 : n ≤ 8 * bl) (h2 : n ≤ 8 * X.length) :
    (Spec.bytesToBits X).take n = (Spec.bytesToBits (X.take bl)).take n := by
  conv => lhs; rw [← List.take_append_drop bl X, bytesToBits_append]
  rw [List.take_append, bytesToBits_length, List.length_take]
  have : n - 8 * min bl X.length = 0 := by omega
  rw [this, List.take_zero, List.append_nil]

end Proofs.Lemmas.SpecList
