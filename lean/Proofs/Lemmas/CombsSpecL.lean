/-
  Proofs.Lemmas.CombsSpecL — Spec.Perms.combs against Mathlib's `List.sublistsLen`: the same multiset of sub-lists
  (hence: each sub-list of length p exactly as often as it arises by position, choose(n,p) in all).
-/
import Mathlib.Data.List.Sublists
import Spec.Perms
namespace Proofs.Lemmas.CombsSpecL
open Spec.Perms

variable {α : Type}

theorem combs_perm_sublistsLen : ∀ (l : List α) (p : Nat), (combs p l).Perm (List.sublistsLen p l) := by
  intro l
  induction l with
  | nil =>
    intro p
    cases p with
    | zero => simp [combs]
    | succ p => simp [combs]
  | cons x xs ih =>
    intro p
    cases p with
    | zero => simp [combs]
    | succ p =>
      simp only [combs]
      rw [List.sublistsLen_succ_cons]
      exact (((ih p).map (x :: ·)).append (ih (p + 1))).trans List.perm_append_comm

theorem mem_combs (l : List α) (p : Nat) (c : List α) : c ∈ combs p l ↔ c.Sublist l ∧ c.length = p := by
  rw [(combs_perm_sublistsLen l p).mem_iff, List.mem_sublistsLen]

theorem length_combs (l : List α) (p : Nat) : (combs p l).length = l.length.choose p := by
  rw [(combs_perm_sublistsLen l p).length_eq, List.length_sublistsLen]

theorem nodup_combs (l : List α) (p : Nat) (h : l.Nodup) : (combs p l).Nodup :=
  (combs_perm_sublistsLen l p).nodup_iff.2 (List.nodup_sublistsLen p h)

end Proofs.Lemmas.CombsSpecL
