import Proofs.Lemmas.ModeBit
open Model Model.Mode Proofs.Lemmas.ModeL
namespace Proofs.Lemmas.ModeL

/-- the admissible (padding, message) pairs of ECB/CBC -/
def PadDom (s : Spec.ModePad.Scheme) (l : Nat) (M : List Nat) : Prop :=
  match s with
  | .none => M.length % l = 0 ∧ 0 < M.length
  | .pkcs7 => l < 256
  | .x923 => l < 256
  | .bit => True

/-- what the mode proofs need to know about a padding scheme on a message -/
structure PadFacts (s : Spec.ModePad.Scheme) (l : Nat) (M : List Nat) : Prop where
  iter : iter ⟨toModel s, 8 * l⟩ M = (Spec.Mode.blocks l (Spec.ModePad.pad s l M), none)
  len : ∃ n, (Spec.ModePad.pad s l M).length = n * l
  bytes : Bytes (Spec.ModePad.pad s l M)
  remove : ∀ st, Padder.remove ⟨toModel s, 8 * l⟩ st (Spec.ModePad.pad s l M) = .ok M

theorem pkcs7_len (l : Nat) (hl : 0 < l) (M : List Nat) : (Spec.ModePad.pkcs7 l M).length = (M.length / l + 1) * l := by
  unfold Spec.ModePad.pkcs7 Spec.ModePad.padLen
  have := Nat.div_add_mod M.length l
  have := Nat.mod_lt M.length hl
  rw [List.length_append, List.length_replicate, Nat.succ_mul, Nat.mul_comm]
  generalize l * (M.length / l) = q at *; omega

theorem x923_len (l : Nat) (hl : 0 < l) (M : List Nat) : (Spec.ModePad.x923 l M).length = (M.length / l + 1) * l := by
  unfold Spec.ModePad.x923 Spec.ModePad.padLen
  have := Nat.div_add_mod M.length l
  have := Nat.mod_lt M.length hl
  simp only [List.length_append, List.length_replicate, List.length_cons, List.length_nil]
  rw [Nat.succ_mul, Nat.mul_comm]
  generalize l * (M.length / l) = q at *; omega

theorem bitpad_len (l : Nat) (hl : 0 < l) (M : List Nat) : (Spec.ModePad.bitpad l M).length = (M.length / l + 1) * l := by
  unfold Spec.ModePad.bitpad Spec.ModePad.padLen
  have := Nat.div_add_mod M.length l
  have := Nat.mod_lt M.length hl
  simp only [List.length_append, List.length_replicate, List.length_cons]
  rw [Nat.succ_mul, Nat.mul_comm]
  generalize l * (M.length / l) = q at *; omega

theorem padFacts (s : Spec.ModePad.Scheme) (l : Nat) (hl : 0 < l) (M : List Nat) (hd : PadDom s l M) (hM : Bytes M) :
    PadFacts s l M := by
  have hq := padLen_pos l hl M
  cases s with
  | none =>
    obtain ⟨h1, h2⟩ := hd
    exact ⟨iter_no_mult l hl M h1 h2, ⟨M.length / l, by
      have := Nat.div_add_mod M.length l
      simp only [Spec.ModePad.pad]; rw [Nat.mul_comm]; omega⟩, hM, fun st => rfl⟩
  | pkcs7 =>
    exact ⟨iter_pkcs7 l hl hd M, ⟨_, pkcs7_len l hl M⟩, hM.append (Bytes.replicate (by have : l < 256 := hd; omega)),
      fun st => remove_pkcs7 l hl M st⟩
  | x923 =>
    refine ⟨iter_x923 l hl hd M, ⟨_, x923_len l hl M⟩, (hM.append (Bytes.replicate (by omega))).append ?_,
      fun st => remove_x923 l hl M st⟩
    intro x hx; simp at hx; have : l < 256 := hd; omega
  | bit =>
    refine ⟨iter_bit l hl M hM, ⟨_, bitpad_len l hl M⟩, hM.append ?_, fun st => remove_bit l hl M hM st⟩
    intro x hx; simp at hx; rcases hx with rfl | ⟨_, rfl⟩ <;> omega

end Proofs.Lemmas.ModeL
