/-
  Helper lemmas for C18: `Model.Bits` values bit by bit (`Nat.testBit` of `ival`), extensionality, and the bit-level
  meaning of `pick`, `sliceFast`, `concat`, `xor`, `putSlice`, `setInt`.
  (Names live in `Proofs.Lemmas.Wb` so that they cannot clash with other lemma libraries on `Model.Bits`.)
-/
import Model.Wb
namespace Proofs.Lemmas.Wb
open Model Model.Wb Model.Bits

/-- bit `i` of a `Bits` -/
abbrev bit (b : Bits) (i : Nat) : Bool := b.ival.testBit i

theorem bit_of_WF {b : Bits} (hb : b.WF) {i : Nat} (hi : b.size ≤ i) : bit b i = false := by
  apply Nat.testBit_lt_two_pow
  exact Nat.lt_of_lt_of_le hb (Nat.pow_le_pow_right (by decide) hi)

/-- two well-formed `Bits` of the same size with the same bits are equal -/
theorem bits_ext {a b : Bits} (hs : a.size = b.size) (ha : a.WF) (hb : b.WF)
    (h : ∀ i, i < a.size → bit a i = bit b i) : a = b := by
  cases a with | mk av as => cases b with | mk bv bs =>
  simp only at hs; subst hs
  congr 1
  apply Nat.eq_of_testBit_eq
  intro i
  by_cases hi : i < as
  · exact h i hi
  · have hi' : as ≤ i := Nat.le_of_not_lt hi
    have h1 := bit_of_WF ha (i := i) hi'
    have h2 := bit_of_WF hb (i := i) hi'
    simp only [bit] at h1 h2
    rw [h1, h2]

theorem WF_of_bits {b : Bits} (h : ∀ i, b.size ≤ i → bit b i = false) : b.WF :=
  Nat.lt_pow_two_of_testBit _ h

theorem WF_ofNatSz (v n : Nat) : (ofNatSz v n).WF := by
  simp only [WF, ofNatSz]; exact Nat.mod_lt _ (Nat.two_pow_pos _)

theorem bit_ofNatSz (v n i : Nat) : bit (ofNatSz v n) i = (decide (i < n) && v.testBit i) := by
  simp only [bit, ofNatSz, Nat.testBit_mod_two_pow]

/-! ### listVal / pick -/

theorem testBit_listVal (l : List Nat) (i : Nat) : (listVal l).testBit i = (l[i]?.getD 0).testBit 0 := by
  induction l generalizing i with
  | nil => simp [listVal]
  | cons x xs ih =>
    cases i with
    | zero => simp [listVal]
    | succ j =>
      have h : (x % 2).testBit (j + 1) = false := by
        apply Nat.testBit_lt_two_pow
        have : x % 2 < 2 := Nat.mod_lt _ (by decide)
        have : 2 ^ 1 ≤ 2 ^ (j + 1) := Nat.pow_le_pow_right (by decide) (by omega)
        omega
      simp [listVal, Nat.testBit_or, Nat.testBit_shiftLeft, ih, h]

theorem listVal_lt (l : List Nat) : listVal l < 2 ^ l.length := by
  apply Nat.lt_pow_two_of_testBit
  intro i hi
  rw [testBit_listVal]
  simp [List.getElem?_eq_none hi]

theorem pick_ival (b : Bits) (idx : List Nat) : (pick b idx).ival = listVal (idx.map fun x => (b.ival >>> x) &&& 1) := by
  simp only [pick, ofNatSz]
  apply Nat.mod_eq_of_lt
  simpa using listVal_lt (idx.map fun x => (b.ival >>> x) &&& 1)

@[simp] theorem size_pick (b : Bits) (idx : List Nat) : (pick b idx).size = idx.length := rfl

theorem WF_pick (b : Bits) (idx : List Nat) : (pick b idx).WF := WF_ofNatSz _ _

/-- bit `i` of `b[idx]` is bit `idx[i]` of `b` -/
theorem bit_pick (b : Bits) (idx : List Nat) (i : Nat) :
    bit (pick b idx) i = if h : i < idx.length then bit b idx[i] else false := by
  simp only [bit]
  rw [pick_ival, testBit_listVal]
  by_cases h : i < idx.length
  · simp [h]
  · simp [h]

theorem bit_pick_getD (b : Bits) (idx : List Nat) (i : Nat) (h : i < idx.length) :
    bit (pick b idx) i = bit b (idx.getD i 0) := by
  rw [bit_pick, dif_pos h]; simp [List.getD_eq_getElem?_getD, List.getElem?_eq_getElem h]

/-- composing two selections -/
theorem pick_pick (b : Bits) (t1 t2 : List Nat) (h : ∀ x ∈ t2, x < t1.length) :
    pick (pick b t1) t2 = pick b (t2.map fun x => t1.getD x 0) := by
  apply bits_ext (by simp) (WF_pick _ _) (WF_pick _ _)
  intro i hi
  have hi' : i < t2.length := by simpa using hi
  have hx := h t2[i] (List.getElem_mem hi')
  have hm : i < (t2.map fun x => t1.getD x 0).length := by simpa using hi'
  rw [bit_pick, dif_pos hi', bit_pick_getD b t1 _ hx, bit_pick_getD b _ i hm]
  simp [List.getD_eq_getElem?_getD, List.getElem?_eq_getElem hi']

/-! ### sliceFast -/
@[simp] theorem size_sliceFast (b : Bits) (s e : Nat) : (sliceFast b s e).size = e - s := rfl
theorem WF_sliceFast (b : Bits) (s e : Nat) : (sliceFast b s e).WF := WF_ofNatSz _ _

theorem bit_sliceFast (b : Bits) (s e i : Nat) :
    bit (sliceFast b s e) i = (decide (i < e - s) && bit b (s + i)) := by
  simp only [bit, sliceFast, ofNatSz, Nat.testBit_mod_two_pow, Nat.testBit_shiftRight, Nat.testBit_and,
    Nat.testBit_two_pow_sub_one]
  by_cases h : i < e - s
  · have : s + i < e := by omega
    simp [h, this]
  · simp [h]

/-! ### concat -/
@[simp] theorem size_concat (a o : Bits) : (a.concat o).size = a.size + o.size := rfl
theorem WF_concat (a o : Bits) : (a.concat o).WF := WF_ofNatSz _ _

theorem bit_concat (a o : Bits) (ha : a.WF) (i : Nat) :
    bit (a.concat o) i =
      (decide (i < a.size + o.size) && (if i < a.size then bit a i else bit o (i - a.size))) := by
  simp only [bit, concat, ofNatSz, Nat.testBit_mod_two_pow, Nat.testBit_or, Nat.testBit_shiftLeft]
  by_cases h : i < a.size
  · have : ¬ (a.size ≤ i) := by omega
    simp [h, this]
  · have h' : a.size ≤ i := by omega
    have := bit_of_WF ha h'
    simp only [bit] at this
    simp [h, h', this]

/-! ### xor -/
theorem size_xor (a o : Bits) (h : a.size = o.size) : (a.xor o).size = a.size := by
  simp [Bits.xor, wsize, h]

theorem bit_xor (a o : Bits) (i : Nat) : bit (a.xor o) i = (bit a i ^^ bit o i) := by
  simp [bit, Bits.xor, Nat.testBit_xor]

theorem WF_xor (a o : Bits) (ha : a.WF) (ho : o.WF) (h : a.size = o.size) : (a.xor o).WF := by
  simp only [WF, Bits.xor, wsize, h, Nat.lt_irrefl, if_false]
  simp only [WF, h] at ha
  exact Nat.xor_lt_two_pow ha ho

/-! ### putSlice -/
@[simp] theorem size_putSlice (b : Bits) (s e : Nat) (v : Bits) : (putSlice b s e v).size = b.size := rfl

/-- `b[s:e] = y` for an int `y < 2^(e-s)`: the field takes the bits of `y`, everything else is unchanged -/
theorem bit_putSlice (b : Bits) (s e : Nat) (v : Bits) (hb : b.WF) (hse : s ≤ e) (he : e ≤ b.size)
    (hv : v.ival < 2 ^ (e - s)) (i : Nat) :
    bit (putSlice b s e v) i = if s ≤ i ∧ i < e then v.ival.testBit (i - s) else bit b i := by
  simp only [bit, putSlice, Bits.mask, Nat.testBit_or, Nat.testBit_and, Nat.testBit_xor, Nat.testBit_shiftLeft,
    Nat.testBit_two_pow_sub_one]
  by_cases h1 : i < s
  · have h2 : i < e := by omega
    have h3 : i < b.size := by omega
    have h4 : ¬ (s ≤ i) := by omega
    simp [h1, h2, h3, h4]
  · have h1' : s ≤ i := by omega
    by_cases h2 : i < e
    · have h3 : i < b.size := by omega
      simp [h1, h1', h2, h3]
    · have h4 : v.ival.testBit (i - s) = false := by
        apply Nat.testBit_lt_two_pow
        exact Nat.lt_of_lt_of_le hv (Nat.pow_le_pow_right (by decide) (by omega))
      by_cases h3 : i < b.size
      · simp [h1, h1', h2, h3, h4]
      · have := bit_of_WF hb (Nat.le_of_not_lt h3)
        simp only [bit] at this
        simp [h1, h1', h2, h3, h4, this]

theorem WF_putSlice (b : Bits) (s e : Nat) (v : Bits) (hb : b.WF) (hse : s ≤ e) (he : e ≤ b.size)
    (hv : v.ival < 2 ^ (e - s)) : (putSlice b s e v).WF := by
  apply WF_of_bits
  intro i hi
  have hi' : b.size ≤ i := hi
  rw [bit_putSlice b s e v hb hse he hv, if_neg (by omega)]
  exact bit_of_WF hb hi'

/-! ### setInt -/
theorem setInt_ok (b : Bits) (p : Nat) (hp : p < b.size) (x : Bool) :
    b.setInt p x.toNat = .ok (if x then ⟨b.ival ||| (1 <<< p), b.size⟩ else ⟨b.ival &&& (b.mask ^^^ (1 <<< p)), b.size⟩) := by
  have h1 : (0 : Int) ≤ (p : Int) ∧ (p : Int) < (b.size : Int) := ⟨Int.natCast_nonneg p, by exact_mod_cast hp⟩
  cases x <;> simp [setInt, h1]

theorem bit_setInt_true (b : Bits) (p i : Nat) : (b.ival ||| (1 <<< p)).testBit i = (bit b i || decide (p = i)) := by
  simp [bit, Nat.testBit_or, Nat.one_shiftLeft, Nat.testBit_two_pow]

theorem bit_setInt_false (b : Bits) (p i : Nat) (hp : p < b.size) :
    (b.ival &&& (b.mask ^^^ (1 <<< p))).testBit i = (bit b i && decide (i < b.size) && !decide (p = i)) := by
  simp only [bit, Bits.mask, Nat.testBit_and, Nat.testBit_xor, Nat.testBit_two_pow_sub_one, Nat.one_shiftLeft,
    Nat.testBit_two_pow]
  by_cases h : p = i
  · subst h; simp [hp]
  · simp [h]

end Proofs.Lemmas.Wb
