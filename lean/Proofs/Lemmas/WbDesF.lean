/-
  Helper lemmas for C18: the round function `des.F` of Model.Des bit by bit (S-box loop as a byte-field fill).
-/
import Model.Wb
import Proofs.Lemmas.WbBits
import Proofs.Lemmas.WbKey
namespace Proofs.Lemmas.Wb
open Model Model.Wb Model.Bits

theorem sboxStep_ok (s Z : Bits) (n : Nat) (hn : n < 8) :
    Des.sboxStep s Z n = .ok (Z.putSlice (4 * n) (4 * n + 4) (ofNat (sboxVal n (s.sliceFast (6 * n) (6 * n + 6))))) := by
  have h := sboxOut_ok n hn (s.sliceFast (6 * n) (6 * n + 6))
  simp only [sboxOut, bind, Except.bind, pure, Except.pure] at h
  simp only [Des.sboxStep, bind, Except.bind, pure, Except.pure]
  revert h
  cases Des.S n (((s.sliceFast (6 * n) (6 * n + 6)).pick [5, 0]).ival <<< 4 + ((s.sliceFast (6 * n) (6 * n + 6)).pick [4, 3, 2, 1]).ival) with
  | error e => intro h; cases h
  | ok v =>
    intro h
    simp only [Except.ok.injEq] at h
    simp only [h]

theorem sboxLoop_ok (s : Bits) :
    ∀ (ns : List Nat) (Z : Bits), Z.size = 32 → Z.WF → (∀ n ∈ ns, n < 8) →
      ∃ Z', Des.sboxLoop s ns Z = .ok Z' ∧ Z'.size = 32 ∧ Z'.WF ∧
        ∀ i, bit Z' i = if i / 4 ∈ ns then (sboxVal (i / 4) (s.sliceFast (6 * (i / 4)) (6 * (i / 4) + 6))).testBit (i % 4)
                        else bit Z i := by
  intro ns
  induction ns with
  | nil => intro Z hs hw _; exact ⟨Z, rfl, hs, hw, by simp⟩
  | cons n ns ih =>
    intro Z hs hw hns
    have hn : n < 8 := hns n (List.mem_cons_self)
    let y := sboxVal n (s.sliceFast (6 * n) (6 * n + 6))
    have hyv : (ofNat y).ival < 2 ^ (4 * n + 4 - 4 * n) := by
      have e : 4 * n + 4 - 4 * n = 4 := by omega
      rw [e]; exact sboxVal_lt _ _
    let Z1 := Z.putSlice (4 * n) (4 * n + 4) (ofNat y)
    have hs1 : Z1.size = 32 := hs
    have hw1 : Z1.WF := WF_putSlice _ _ _ _ hw (by omega) (by rw [hs]; omega) hyv
    have hb1 : ∀ i, bit Z1 i = if i / 4 = n then y.testBit (i % 4) else bit Z i := by
      intro i
      rw [bit_putSlice _ _ _ _ hw (by omega) (by rw [hs]; omega) hyv]
      by_cases c : i / 4 = n
      · have c1 : 4 * n ≤ i ∧ i < 4 * n + 4 := by omega
        have c2 : i - 4 * n = i % 4 := by omega
        simp only [c1, and_self, if_true, c, c2, ofNat]
      · have c1 : ¬ (4 * n ≤ i ∧ i < 4 * n + 4) := by omega
        simp only [c1, if_false, c]
    obtain ⟨Z', a1, a2, a3, a4⟩ := ih Z1 hs1 hw1 (fun m hm => hns m (List.mem_cons_of_mem _ hm))
    refine ⟨Z', ?_, a2, a3, ?_⟩
    · simp only [Des.sboxLoop, sboxStep_ok s Z n hn, bind, Except.bind]
      exact a1
    · intro i
      rw [a4, hb1]
      by_cases c : i / 4 = n
      · by_cases d : i / 4 ∈ ns
        · simp [d]
        · rw [if_neg d, if_pos c, if_pos (by rw [c]; exact List.mem_cons_self), c]
      · by_cases d : i / 4 ∈ ns
        · simp [d]
        · simp [c, d]

/-- `F(R,k,r)` for a 32-bit `R` and the key schedule of any key: `P(Z)` where nibble `n` of `Z` is the (bit-reversed)
    output of S-box `n` on chunk `n` of `E(R) xor k_r` -/
theorem F_ok (K R : Bits) (hR : R.size = 32) (r : Nat) (hr : r < 16) :
    ∃ fk Z, Des.subkey (Des.PC1 K) r = .ok fk ∧ fk.size = 48 ∧ Des.F R (Des.PC1 K) r = .ok (Z.pick Gen.Des.p) ∧
      Z.size = 32 ∧ Z.WF ∧
      ∀ i, i < 32 → bit Z i =
        (sboxVal (i / 4) (((R.pick Gen.Des.e).xor fk).sliceFast (6 * (i / 4)) (6 * (i / 4) + 6))).testBit (i % 4) := by
  obtain ⟨fk, h1, h2⟩ := subkey_ok K r hr
  obtain ⟨Z, a1, a2, a3, a4⟩ := sboxLoop_ok ((R.pick Gen.Des.e).xor fk) (List.range 8) (ofNatSz 0 32) rfl (WF_ofNatSz 0 32)
    (fun n hn => List.mem_range.mp hn)
  refine ⟨fk, Z, h1, h2, ?_, a2, a3, ?_⟩
  · simp only [Des.F, Des.E, hR, ne_eq, not_true_eq_false, if_false, bind, Except.bind, h1, a1, Des.P, a2]
  · intro i hi
    rw [a4, if_pos (List.mem_range.mpr (by omega))]

end Proofs.Lemmas.Wb
