/-
  Lemmas for C17: bytes ↔ 64-bit words (`struct.unpack('>nQ')`, `pack(c,'>L')` against the specification's
  `toWords`/`ofWords`) and the assembly of the 89-word compression input by `W[i] = …` / `W[a:b] = …`.
-/
import Model.Md6
import Spec.Md6
namespace Proofs.Lemmas.Md6Words
open Model Model.Py Model.Md6

theorem exists_eight (l : List Nat) (h : 8 ≤ l.length) :
    ∃ b0 b1 b2 b3 b4 b5 b6 b7 rest, l = b0 :: b1 :: b2 :: b3 :: b4 :: b5 :: b6 :: b7 :: rest := by
  match l, h with
  | b0 :: b1 :: b2 :: b3 :: b4 :: b5 :: b6 :: b7 :: rest, _ => exact ⟨b0, b1, b2, b3, b4, b5, b6, b7, rest, rfl⟩

theorem beInt_word (g : List Nat) : BitVec.ofNat 64 (beInt g) = Spec.Md6.beWord g := rfl

theorem go_toWords (fuel : Nat) (l : List Nat) (hf : l.length ≤ fuel) (h8 : l.length % 8 = 0) :
    (chunks.go 8 l fuel).map (fun g => BitVec.ofNat 64 (beInt g)) = Spec.Md6.toWords l := by
  induction fuel generalizing l with
  | zero =>
    have : l = [] := List.eq_nil_of_length_eq_zero (by omega)
    subst this; simp [chunks.go, Spec.Md6.toWords]
  | succ fuel ih =>
    by_cases hl : l = []
    · subst hl; simp [chunks.go, Spec.Md6.toWords]
    · have hlen : 8 ≤ l.length := by
        have : l.length ≠ 0 := fun h => hl (List.eq_nil_of_length_eq_zero h)
        omega
      obtain ⟨b0, b1, b2, b3, b4, b5, b6, b7, rest, rfl⟩ := exists_eight l hlen
      simp only [List.length_cons] at hf h8
      simp only [chunks.go, List.isEmpty_cons, Bool.false_eq_true, if_false, List.map_cons, Spec.Md6.toWords]
      congr 1
      exact ih rest (by omega) (by omega)

theorem unpackQ_toWords (n : Nat) (X : List Nat) (h : X.length = 8 * n) :
    unpackQ n X = .ok ((chunks 8 X).map beInt) ∧
      ((chunks 8 X).map beInt).map (BitVec.ofNat 64) = Spec.Md6.toWords X := by
  constructor
  · simp [unpackQ, h]
  · rw [List.map_map]
    simp only [chunks, show (8 : Nat) ≠ 0 by omega, if_false]
    exact go_toWords X.length X (Nat.le_refl _) (by omega)

theorem pack_byte (u j : Nat) (_hu : u < 2 ^ 64) (hj : j < 8) :
    ((⟨u, 64⟩ : Bits).sliceFast (j * 8) (min (j * 8 + 8) 64)).ival &&& 0xff = u / 256 ^ j % 256 := by
  have hmin : min (j * 8 + 8) 64 = j * 8 + 8 := by omega
  simp only [Bits.sliceFast, Bits.ofNatSz, hmin, Nat.and_two_pow_sub_one_eq_mod, Nat.shiftRight_eq_div_pow,
    show j * 8 + 8 - j * 8 = 8 by omega, show (0xff : Nat) = 2 ^ 8 - 1 from rfl]
  rw [Nat.mod_mod, show (256 : Nat) = 2 ^ 8 from rfl, ← Nat.pow_mul, Nat.mul_comm 8 j]
  rw [show j * 8 + 8 = 8 + j * 8 by omega, Nat.pow_add, Nat.mul_comm (2 ^ 8), Nat.mod_mul_right_div_self, Nat.mod_mod]

theorem pack_word (v : Nat) :
    (Bits.ofNatSz v 64).pack true = Spec.Md6.wordBytes (BitVec.ofNat 64 v) := by
  have hu : v % 2 ^ 64 < 2 ^ 64 := Nat.mod_lt _ (by omega)
  simp only [Bits.pack, Bits.ofNatSz, Spec.Md6.wordBytes, BitVec.toNat_ofNat, if_true,
    show (64 + 7) / 8 = 8 from rfl, show List.range 8 = [0, 1, 2, 3, 4, 5, 6, 7] from rfl, List.map_cons, List.map_nil,
    List.reverse_cons, List.reverse_nil, List.nil_append, List.cons_append]
  have h := fun j hj => pack_byte (v % 2 ^ 64) j hu hj
  rw [h 0 (by omega), h 1 (by omega), h 2 (by omega), h 3 (by omega), h 4 (by omega), h 5 (by omega), h 6 (by omega),
    h 7 (by omega)]

theorem packWords_ofWords (ws : List Spec.Md6.Word) : packWords (ws.map (·.toNat)) = Spec.Md6.ofWords ws := by
  simp only [packWords, Spec.Md6.ofWords, List.flatMap_map]
  congr 1
  funext w
  rw [pack_word, BitVec.ofNat_toNat, BitVec.setWidth_eq]

theorem wordBytes_length (w : Spec.Md6.Word) : (Spec.Md6.wordBytes w).length = 8 := by simp [Spec.Md6.wordBytes]

theorem ofWords_length (ws : List Spec.Md6.Word) : (Spec.Md6.ofWords ws).length = 8 * ws.length := by
  induction ws with
  | nil => rfl
  | cons w ws ih =>
    simp only [Spec.Md6.ofWords, List.flatMap_cons, List.length_append, wordBytes_length, List.length_cons] at ih ⊢
    omega

theorem ofWords_lt (ws : List Spec.Md6.Word) : ∀ x ∈ Spec.Md6.ofWords ws, x < 256 := by
  intro x hx
  simp only [Spec.Md6.ofWords, Spec.Md6.wordBytes, List.mem_flatMap, List.mem_map, List.mem_range] at hx
  obtain ⟨w, _, i, _, rfl⟩ := hx
  exact Nat.mod_lt _ (by omega)

theorem toWords_length (n : Nat) (X : List Nat) (h : X.length = 8 * n) : (Spec.Md6.toWords X).length = n := by
  induction n generalizing X with
  | zero =>
    have : X = [] := List.eq_nil_of_length_eq_zero (by omega)
    subst this; rfl
  | succ n ih =>
    obtain ⟨b0, b1, b2, b3, b4, b5, b6, b7, rest, rfl⟩ := exists_eight X (by omega)
    simp only [List.length_cons] at h
    simp only [Spec.Md6.toWords, List.length_cons]
    rw [ih rest (by omega)]

theorem setW_append (P : List Nat) (x : Nat) (R : List Nat) (v : Nat) :
    setW (P ++ x :: R) P.length v = P ++ (v % 2 ^ 64) :: R := by
  simp [setW]

theorem setWs_append (P vs R X : List Nat) (hX : X.length = vs.length) :
    setWs (P ++ X ++ R) P.length vs = P ++ vs.map (· % 2 ^ 64) ++ R := by
  induction vs generalizing P X with
  | nil =>
    have : X = [] := List.eq_nil_of_length_eq_zero (by simpa using hX)
    subst this; simp [setWs]
  | cons v vs ih =>
    match X, hX with
    | x :: X', hX =>
      simp only [List.length_cons, Nat.add_right_cancel_iff] at hX
      simp only [setWs]
      rw [show P ++ x :: X' ++ R = P ++ x :: (X' ++ R) by simp, setW_append]
      have := ih (P ++ [v % 2 ^ 64]) X' hX
      simp only [List.length_append, List.length_cons, List.length_nil, Nat.zero_add, List.append_assoc,
        List.cons_append, List.nil_append] at this
      simp only [List.map_cons, List.append_assoc, List.cons_append]
      exact this

/-- the 89-word compression input: Q ‖ K ‖ U ‖ V ‖ tail (every coefficient reduced into the ring) -/
def nodeList (o : MD6) (u v : Nat) (tail : List Nat) : List Nat :=
  Gen.Md6.Q.map (· % 2 ^ 64) ++ o.K.map (· % 2 ^ 64) ++ [u % 2 ^ 64] ++ [v % 2 ^ 64] ++ tail.map (· % 2 ^ 64)

theorem W0_eq (o : MD6) (hK : o.K.length = 8) :
    W0 o = Gen.Md6.Q.map (· % 2 ^ 64) ++ o.K.map (· % 2 ^ 64) ++ List.replicate 66 0 := by
  have hQ : Gen.Md6.Q.length = 15 := rfl
  unfold W0
  simp only [List.length_append, List.length_map, hQ, hK]
  rw [List.take_of_length_le (by simp [hQ, hK])]

theorem rep66 : List.replicate 66 (0 : Nat) = 0 :: 0 :: List.replicate 64 0 := rfl

theorem setW_at (P : List Nat) (x : Nat) (R : List Nat) (v n : Nat) (h : P.length = n) :
    setW (P ++ x :: R) n v = P ++ (v % 2 ^ 64) :: R := by subst h; exact setW_append P x R v

theorem setWs_at (P vs R X : List Nat) (n : Nat) (hX : X.length = vs.length) (h : P.length = n) :
    setWs (P ++ X ++ R) n vs = P ++ vs.map (· % 2 ^ 64) ++ R := by subst h; exact setWs_append P vs R X hX

theorem parNode_eq (o : MD6) (hK : o.K.length = 8) (l : Nat) (V : Bits) (i : Nat) (B : List Nat) (hB : B.length = 64) :
    parNode o l V i B = f o.rounds (nodeList o ((l <<< 56) + i) V.ival B) := by
  have hQ : Gen.Md6.Q.length = 15 := rfl
  show f o.rounds (setWs (setW (setW (W0 o) 24 V.ival) 23 ((l <<< 56) + i)) 25 B) = _
  congr 1
  unfold nodeList
  rw [W0_eq o hK, rep66]
  generalize hQQ : Gen.Md6.Q.map (· % 2 ^ 64) = Q'
  generalize hK' : o.K.map (· % 2 ^ 64) = K'
  have hQ' : Q'.length = 15 := by rw [← hQQ]; simp [hQ]
  have hK'' : K'.length = 8 := by rw [← hK']; simp [hK]
  rw [show Q' ++ K' ++ 0 :: 0 :: List.replicate 64 0 = (Q' ++ K' ++ [0]) ++ 0 :: List.replicate 64 0 by simp,
    setW_at _ _ _ _ 24 (by simp [hQ', hK''])]
  rw [show (Q' ++ K' ++ [0]) ++ (V.ival % 2 ^ 64) :: List.replicate 64 0
      = (Q' ++ K') ++ 0 :: ((V.ival % 2 ^ 64) :: List.replicate 64 0) by simp,
    setW_at _ _ _ _ 23 (by simp [hQ', hK''])]
  rw [show (Q' ++ K') ++ (((l <<< 56) + i) % 2 ^ 64) :: ((V.ival % 2 ^ 64) :: List.replicate 64 0)
      = (Q' ++ K' ++ [((l <<< 56) + i) % 2 ^ 64] ++ [V.ival % 2 ^ 64]) ++ List.replicate 64 0 ++ [] by simp,
    setWs_at _ B [] (List.replicate 64 0) 25 (by simp [hB]) (by simp [hQ', hK''])]
  simp

theorem seqNode_eq (o : MD6) (hK : o.K.length = 8) (V : Bits) (i : Nat) (C B : List Nat) (hC : C.length = 16)
    (hB : B.length = 48) :
    seqNode o V i C B = f o.rounds (nodeList o (((o.L + 1) <<< 56) + i) V.ival (C ++ B)) := by
  have hQ : Gen.Md6.Q.length = 15 := rfl
  show f o.rounds (setWs (setWs (setW (setW (W0 o) 24 V.ival) 23 (((o.L + 1) <<< 56) + i)) 25 C) 41 B) = _
  congr 1
  unfold nodeList
  rw [W0_eq o hK, rep66]
  generalize hQQ : Gen.Md6.Q.map (· % 2 ^ 64) = Q'
  generalize hK' : o.K.map (· % 2 ^ 64) = K'
  have hQ' : Q'.length = 15 := by rw [← hQQ]; simp [hQ]
  have hK'' : K'.length = 8 := by rw [← hK']; simp [hK]
  rw [show Q' ++ K' ++ 0 :: 0 :: List.replicate 64 0 = (Q' ++ K' ++ [0]) ++ 0 :: List.replicate 64 0 by simp,
    setW_at _ _ _ _ 24 (by simp [hQ', hK''])]
  rw [show (Q' ++ K' ++ [0]) ++ (V.ival % 2 ^ 64) :: List.replicate 64 0
      = (Q' ++ K') ++ 0 :: ((V.ival % 2 ^ 64) :: List.replicate 64 0) by simp,
    setW_at _ _ _ _ 23 (by simp [hQ', hK''])]
  rw [show (Q' ++ K') ++ ((((o.L + 1) <<< 56) + i) % 2 ^ 64) :: ((V.ival % 2 ^ 64) :: List.replicate 64 0)
      = (Q' ++ K' ++ [(((o.L + 1) <<< 56) + i) % 2 ^ 64] ++ [V.ival % 2 ^ 64]) ++ List.replicate 16 0
          ++ List.replicate 48 0 by
        rw [show List.replicate 64 (0 : Nat) = List.replicate 16 0 ++ List.replicate 48 0 from rfl]; simp,
    setWs_at _ C _ (List.replicate 16 0) 25 (by simp [hC]) (by simp [hQ', hK''])]
  rw [show (Q' ++ K' ++ [(((o.L + 1) <<< 56) + i) % 2 ^ 64] ++ [V.ival % 2 ^ 64]) ++ C.map (· % 2 ^ 64)
          ++ List.replicate 48 0
      = (Q' ++ K' ++ [(((o.L + 1) <<< 56) + i) % 2 ^ 64] ++ [V.ival % 2 ^ 64] ++ C.map (· % 2 ^ 64))
          ++ List.replicate 48 0 ++ [] by simp,
    setWs_at _ B [] (List.replicate 48 0) 41 (by simp [hB]) (by simp [hQ', hK'', hC])]
  simp

end Proofs.Lemmas.Md6Words
