/-
  Byte-level plumbing: the model's `Py` helpers against the specification's own copies, word <-> byte conversions.
-/
import Proofs.Lemmas.BlakeWords
import Spec.Blake
import Spec.Blake2
namespace Proofs.Lemmas.BlakeBytes
open Model Model.Py Proofs.Lemmas.BlakeWords

theorem leBytes_eq : ∀ k n, Py.leBytes k n = Spec.Blake2.leBytes k n
  | 0, _ => rfl
  | k + 1, n => by simp [Py.leBytes, Spec.Blake2.leBytes, leBytes_eq k]

theorem leInt_eq : ∀ l, Py.leInt l = Spec.Blake2.leVal l
  | [] => rfl
  | b :: bs => by simp [Py.leInt, Spec.Blake2.leVal, leInt_eq bs]

theorem chunks_go_eq2 {α} (k : Nat) : ∀ (fuel : Nat) (l : List α), Py.chunks.go k l fuel = Spec.Blake2.chunk.go k l fuel
  | 0, _ => rfl
  | fuel + 1, l => by
    simp only [Py.chunks.go, Spec.Blake2.chunk.go]
    split
    · rfl
    · rw [chunks_go_eq2 k fuel]

theorem chunks_eq2 {α} (k : Nat) (hk : k ≠ 0) (l : List α) : Py.chunks k l = Spec.Blake2.chunk k l := by
  simp [Py.chunks, Spec.Blake2.chunk, hk, chunks_go_eq2]

theorem chunks_go_eq1 {α} (k : Nat) : ∀ (fuel : Nat) (l : List α), Py.chunks.go k l fuel = Spec.Blake.chunk.go k l fuel
  | 0, _ => rfl
  | fuel + 1, l => by
    simp only [Py.chunks.go, Spec.Blake.chunk.go]
    split
    · rfl
    · rw [chunks_go_eq1 k fuel]

theorem chunks_eq1 {α} (k : Nat) (hk : k ≠ 0) (l : List α) : Py.chunks k l = Spec.Blake.chunk k l := by
  simp [Py.chunks, Spec.Blake.chunk, hk, chunks_go_eq1]

/-- little-endian bytes as a map over positions -/
theorem leBytes_map : ∀ k n, Spec.Blake2.leBytes k n = (List.range k).map fun j => n / 256 ^ j % 256
  | 0, _ => rfl
  | k + 1, n => by
    rw [Spec.Blake2.leBytes, leBytes_map k, List.range_succ_eq_map, List.map_cons, List.map_map]
    congr 1
    · simp
    · apply List.map_congr_left
      intro j _
      simp only [Function.comp, Nat.pow_succ, Nat.div_div_eq_div_mul]
      rw [Nat.mul_comm]

/-- one byte of a word as the model's `pack` extracts it -/
theorem slice_byte (x w j : Nat) (hj : 8 * j + 8 ≤ w) :
    ((Bits.sliceFast ⟨x, w⟩ (j * 8) (min (j * 8 + 8) w)).ival &&& 0xff) = x / 256 ^ j % 256 := by
  have hmin : min (j * 8 + 8) w = j * 8 + 8 := by omega
  rw [hmin]
  simp only [Bits.sliceFast, Bits.ofNatSz, Nat.and_two_pow_sub_one_eq_mod, Nat.shiftRight_eq_div_pow]
  rw [show j * 8 + 8 - j * 8 = 8 by omega, show (0xff : Nat) = 2 ^ 8 - 1 from rfl, Nat.and_two_pow_sub_one_eq_mod,
    Nat.mod_mod, show j * 8 + 8 = j * 8 + 8 from rfl, Nat.pow_add, Nat.mod_mul_right_div_self, Nat.mod_mod,
    show (256 : Nat) = 2 ^ 8 from rfl, ← Nat.pow_mul, Nat.mul_comm 8 j]

/-- `pack(h)` (little-endian) of a model word = the specification's little-endian word bytes -/
theorem pack_le {w} (x : BitVec w) (hw : w % 8 = 0) :
    (ofBV x).pack false = Spec.Blake2.leBytes (w / 8) x.toNat := by
  rw [leBytes_map]
  simp only [Bits.pack, ofBV, Bool.false_eq_true, if_false]
  rw [show (w + 7) / 8 = w / 8 by omega]
  apply List.map_congr_left
  intro j hj
  have := List.mem_range.mp hj
  exact slice_byte x.toNat w j (by omega)

theorem reverse_range_map {α} (n : Nat) (f : Nat → α) :
    ((List.range n).map f).reverse = (List.range n).map fun i => f (n - 1 - i) := by
  apply List.ext_getElem
  · simp
  · intro i h1 h2
    simp only [List.length_reverse, List.length_map, List.length_range] at h1
    simp [List.getElem_reverse]

/-- `pack(h,'>L')` (big-endian) of a model word -/
theorem pack_be {w} (x : BitVec w) (hw : w % 8 = 0) :
    (ofBV x).pack true = (List.range (w / 8)).map fun i => (x.toNat / 2 ^ (8 * (w / 8 - 1 - i))) % 256 := by
  have h := pack_le x hw
  rw [leBytes_map] at h
  simp only [Bits.pack, Bool.false_eq_true, if_false] at h
  simp only [Bits.pack, if_true]
  rw [h, reverse_range_map]
  apply List.map_congr_left
  intro i _
  rw [show (256 : Nat) = 2 ^ 8 from rfl, ← Nat.pow_mul]

end Proofs.Lemmas.BlakeBytes
