/-
  The padding obligation of the composition lemma, discharged: for the MD / SHA length-strengthening schemes the blocks
  `Model.Padding.iterblocks` yields in a final call are the blocks of the standard's padded tail
  (message bits ‖ 1 ‖ fewest zeros ‖ length field), for every message, bit length and (block-aligned) counter.
-/
import Proofs.Lemmas.SpecList
import Proofs.Lemmas.Compose
import Proofs.Lemmas.Pack
namespace Proofs.Lemmas.PadOk
open Model Model.Py Proofs.Lemmas.Parse Proofs.Lemmas.BitsList Proofs.Lemmas.SpecList Proofs.Lemmas.Compose
  Proofs.Lemmas.Fold

/-- `lastblock` of the MD/SHA schemes with an explicit total bit length: result in closed form -/
theorem mdLike_core (p : Padder) (st : PadState) (m : List Nat) (w : Nat) (bigend : Bool)
    (total needed N : Nat)
    (hge : st.bitcnt ≤ total) (hneeded : needed = total - st.bitcnt)
    (hN : if needed + 1 + w * 2 ≤ p.blocksize then N = p.blocksize - (needed + 1 + w * 2)
          else N + needed + 1 + w * 2 = 2 * p.blocksize) :
    p.mdLike st m (some total) w 1 none bigend =
      .ok ((((Padder.bitsOfBytes m needed).concat (Bits.ofNatSz 1 1)).concat (Bits.ofNatSz 0 N)).toBytes
        ++ (Bits.ofNatSz total (w * 2)).pack bigend, { st with padflag := true, bitcnt := st.bitcnt + needed }) := by
  unfold Padder.mdLike
  simp only []
  rw [if_neg (by omega)]
  subst hneeded
  have key : (if (p.blocksize : Int) - ((1 : Nat) : Int) - ((w * 2 : Nat) : Int) - ((total - st.bitcnt : Nat) : Int) < 0
      then (p.blocksize : Int) - ((1 : Nat) : Int) - ((w * 2 : Nat) : Int) - ((total - st.bitcnt : Nat) : Int) + p.blocksize
      else (p.blocksize : Int) - ((1 : Nat) : Int) - ((w * 2 : Nat) : Int) - ((total - st.bitcnt : Nat) : Int)) = (N : Int) := by
    split at hN <;> split <;> omega
  rw [key]
  have h0 : ¬ ((N : Int) < 0) := by omega
  rw [if_neg h0]
  simp

/-- the padded tail as bytes of the specification's bit string -/
theorem tail_bytes (Pi : List Spec.Byte) (needed N n8 : Nat) (hn : needed ≤ 8 * Pi.length)
    (h8 : needed + 1 + N = 8 * n8) :
    (((Padder.bitsOfBytes (toNatBytes Pi) needed).concat (Bits.ofNatSz 1 1)).concat (Bits.ofNatSz 0 N)).toBytes
      = toNatBytes (Spec.bitsToBytes ((Spec.bytesToBits Pi).take needed ++ [true] ++ List.replicate N false)) := by
  have hwf1 := bitsOfBytes_wf (toNatBytes Pi) needed
  have hwf2 := concat_wf (Padder.bitsOfBytes (toNatBytes Pi) needed) (Bits.ofNatSz 1 1)
  have hwf3 := concat_wf ((Padder.bitsOfBytes (toNatBytes Pi) needed).concat (Bits.ofNatSz 1 1)) (Bits.ofNatSz 0 N)
  have hsz : (((Padder.bitsOfBytes (toNatBytes Pi) needed).concat (Bits.ofNatSz 1 1)).concat (Bits.ofNatSz 0 N)).size = 8 * n8 := by
    rw [hwf3.2, hwf2.2, hwf1.2]; exact h8
  rw [toBytes_spec _ hwf3.1 n8 hsz, bitsOf_concat _ _ hwf2.1, bitsOf_concat _ _ hwf1.1, bitsOf_one, bitsOf_zeros,
    bitsOf_bitsOfBytes _ (toNatBytes_lt Pi) _ (by simpa using hn), natBits_toNatBytes]

/-- the yields of a final `iterblocks` call in terms of what `lastblock` returns -/
theorem iterblocks_final (p : Padder) (st : PadState) (m : List Nat) (kw : Option Nat) (hpf : st.padflag = false)
    (hlen : kw.getD (8 * m.length) ≤ 8 * m.length) (out : List Nat) (st2 : PadState)
    (hlast : p.lastblock { st with bitcnt := st.bitcnt + p.loopCount (kw.getD (8 * m.length)) * p.blocksize }
        (p.blockAt m (p.loopCount (kw.getD (8 * m.length)))) (kw.map (st.bitcnt + ·)) = .ok (out, st2)) :
    (p.iterblocks st m kw true).err = none ∧
    (p.iterblocks st m kw true).yields.map (·.1) =
      (List.range (p.loopCount (kw.getD (8 * m.length)))).map (p.blockAt m) ++
        (if (out.drop p.blocklen).length > 0 then [out.take p.blocklen, out.drop p.blocklen] else [out.take p.blocklen]) := by
  unfold Padder.iterblocks
  simp only [hpf] at hlast
  simp only [hpf, Bool.false_eq_true, if_false, Nat.not_lt.2 hlen, Bool.not_true, false_and, if_true, hlast, Padder.finishTail]
  split <;> simp [Padder.loopYields, List.map_map, Function.comp_def]

theorem groups_one_or_two {α} (n : Nat) (hn : 0 < n) (l : List α) (h : l.length = n ∨ l.length = 2 * n) :
    Spec.groups n l = if (l.drop n).length > 0 then [l.take n, l.drop n] else [l.take n] := by
  rcases h with h | h
  · have h1 : l.length / n = 1 := by rw [h]; exact Nat.div_self hn
    have h2 : ¬ (l.drop n).length > 0 := by rw [List.length_drop]; omega
    rw [if_neg h2]
    simp [Spec.groups, h1]
  · have h1 : l.length / n = 2 := by rw [h]; exact Nat.mul_div_cancel _ hn
    have h2 : (l.drop n).length > 0 := by rw [List.length_drop]; omega
    have h3 : (l.drop n).take n = l.drop n := List.take_of_length_le (by rw [List.length_drop]; omega)
    rw [if_pos h2]
    simp [Spec.groups, h1, List.range_succ, h3]

theorem bitsToBytes_length (bs : List Bool) : (Spec.bitsToBytes bs).length = bs.length / 8 := by
  simp [Spec.bitsToBytes, Spec.groups]

theorem map_if {α β} (f : α → β) (c : Prop) [Decidable c] (a b : List α) :
    (if c then a else b).map f = if c then a.map f else b.map f := by split <;> rfl

theorem toNatBytes_append (a b : List Spec.Byte) : toNatBytes (a ++ b) = toNatBytes a ++ toNatBytes b := by
  simp [toNatBytes]

theorem zeros_char (B X : Nat) (_hB : 0 < B) (h1 : 1 ≤ X) (h2 : X < 2 * B) :
    if X ≤ B then (B - X % B) % B = B - X else (B - X % B) % B + X = 2 * B := by
  split
  · rename_i hX
    rcases Nat.lt_or_eq_of_le hX with hX | hX
    · rw [Nat.mod_eq_of_lt hX, Nat.mod_eq_of_lt (by omega)]
    · rw [hX, Nat.mod_self, Nat.sub_zero, Nat.mod_self, Nat.sub_self]
  · rename_i hX
    have hX : B ≤ X := by omega
    rw [Nat.mod_eq_sub_mod hX, Nat.mod_eq_of_lt (a := X - B) (by omega), Nat.mod_eq_of_lt (by omega)]
    omega

section core
variable {σ : Type}

/-- **padding equality** for the MD/SHA schemes (`bigend = true`: SHA, `false`: MD) -/
theorem padOk_core (p : Padder) (w : Nat) (bigend : Bool)
    (hlb : ∀ st m kw, p.lastblock st m kw = p.mdLike st m kw w 1 none bigend)
    (bl ll : Nat) (hB : p.blocksize = 8 * bl) (hbl : 0 < bl) (hw : w * 2 = 8 * ll) (hfit : w * 2 + 1 ≤ p.blocksize)
    (h : Spec.MDHash σ) (h1 : h.blockLen = bl) (h2 : h.lenLen = ll)
    (h3 : ∀ l, toNatBytes (h.encLen l) = (Bits.ofNatSz l (w * 2)).pack bigend)
    (h4 : ∀ l, (h.encLen l).length = ll)
    (st : PadState) (hpf : st.padflag = false) (hdone : st.bitcnt % p.blocksize = 0)
    (M : List Spec.Byte) (kw : Option Nat) (hkw : ∀ l, kw = some l → l ≤ 8 * M.length) :
    (p.iterblocks st (toNatBytes M) kw true).err = none ∧
    (p.iterblocks st (toNatBytes M) kw true).yields.map (·.1) =
      (Spec.groups bl (h.padFrom st.bitcnt ((Spec.bytesToBits M).take (kw.getD (8 * M.length))))).map toNatBytes := by
  -- names
  have hblk : p.blocklen = bl := by simp [Padder.blocklen, hB]
  have hBpos : 0 < p.blocksize := by omega
  have hmlen : (toNatBytes M).length = M.length := toNatBytes_length M
  generalize hbitlen : kw.getD (8 * M.length) = bitlen
  have hle : bitlen ≤ 8 * M.length := by
    cases kw with
    | none => simp at hbitlen; omega
    | some l => simp at hbitlen; subst hbitlen; exact hkw l rfl
  generalize hk : p.loopCount bitlen = k
  -- k·B ≤ bitlen ≤ (k+1)·B, written with kb = k·bl
  generalize hkb : k * bl = kb
  have hkB : k * p.blocksize = 8 * kb := by rw [hB, ← hkb, Nat.mul_left_comm]
  have hk1 : 8 * kb ≤ bitlen ∧ bitlen ≤ 8 * kb + 8 * bl := by
    rw [← hkB, ← hB, ← hk]
    unfold Padder.loopCount
    by_cases h0 : bitlen = 0
    · simp [h0]
    · simp only [h0, if_false]
      have a1 := Nat.div_mul_le_self (bitlen - 1) p.blocksize
      have a2 := Nat.lt_mul_div_succ (bitlen - 1) hBpos
      rw [Nat.mul_add, Nat.mul_one, Nat.mul_comm] at a2
      omega
  have hkbM : kb ≤ M.length := by omega
  generalize hneeded : bitlen - 8 * kb = needed
  have hn1 : needed ≤ 8 * bl := by omega
  -- the last (partial) block
  have hPi : p.blockAt (toNatBytes M) k = toNatBytes ((M.drop kb).take bl) := by
    simp only [Padder.blockAt, hblk, hkb, toNatBytes, drop_take_map]
  have hPilen : needed ≤ 8 * ((M.drop kb).take bl).length := by
    rw [List.length_take, List.length_drop]; omega
  -- total length and the number of zero bits
  generalize htotal : st.bitcnt + bitlen = total
  generalize hN : h.zeros total = N
  have hXmod : (total + 1 + 8 * ll) % p.blocksize = (needed + 1 + w * 2) % p.blocksize := by
    obtain ⟨q0, hq0⟩ : ∃ q0, st.bitcnt = p.blocksize * q0 := ⟨st.bitcnt / p.blocksize, by
      have := Nat.div_add_mod st.bitcnt p.blocksize; omega⟩
    have e : total + 1 + 8 * ll = p.blocksize * (q0 + k) + (needed + 1 + w * 2) := by
      rw [Nat.mul_add, ← hq0, Nat.mul_comm p.blocksize k, hkB]; omega
    rw [e, Nat.mul_add_mod]
  have hNspec : if needed + 1 + w * 2 ≤ p.blocksize then N = p.blocksize - (needed + 1 + w * 2)
      else N + needed + 1 + w * 2 = 2 * p.blocksize := by
    rw [← hN]
    simp only [Spec.MDHash.zeros, h1, h2, ← hB, hXmod]
    have := zeros_char p.blocksize (needed + 1 + w * 2) hBpos (by omega) (by omega)
    split at this <;> rename_i hX
    · rw [if_pos hX]; exact this
    · rw [if_neg hX]; omega
  obtain ⟨n8, hn8⟩ : ∃ n8, needed + 1 + N = 8 * n8 := by
    split at hNspec
    · exact ⟨bl - ll, by omega⟩
    · exact ⟨2 * bl - ll, by omega⟩
  have hn8' : n8 + ll = bl ∨ n8 + ll = 2 * bl := by
    split at hNspec <;> omega
  -- what lastblock returns
  generalize hout' : Spec.bitsToBytes ((Spec.bytesToBits ((M.drop kb).take bl)).take needed ++ [true]
      ++ List.replicate N false) ++ h.encLen total = out'
  have hlast : p.lastblock { st with bitcnt := st.bitcnt + k * p.blocksize } (p.blockAt (toNatBytes M) k)
      (kw.map (st.bitcnt + ·)) = .ok (toNatBytes out', { st with padflag := true, bitcnt := st.bitcnt + k * p.blocksize + needed }) := by
    rw [hlb, hPi]
    have hcore := mdLike_core p { st with bitcnt := st.bitcnt + k * p.blocksize } (toNatBytes ((M.drop kb).take bl)) w bigend
      total needed N (by simp only []; omega) (by simp only []; omega) hNspec
    have hkw' : p.mdLike { st with bitcnt := st.bitcnt + k * p.blocksize } (toNatBytes ((M.drop kb).take bl))
        (kw.map (st.bitcnt + ·)) w 1 none bigend
        = p.mdLike { st with bitcnt := st.bitcnt + k * p.blocksize } (toNatBytes ((M.drop kb).take bl))
        (some total) w 1 none bigend := by
      cases kw with
      | some l => simp at hbitlen; subst hbitlen; simp [htotal]
      | none =>
        simp at hbitlen
        have : st.bitcnt + k * p.blocksize + 8 * (toNatBytes ((M.drop kb).take bl)).length = total := by
          rw [toNatBytes_length, List.length_take, List.length_drop]; omega
        simp only [Option.map_none, Padder.mdLike, this]
    rw [hkw', hcore, tail_bytes _ needed N n8 hPilen hn8, ← h3, ← hout', toNatBytes_append]
  have hfinal := iterblocks_final p st (toNatBytes M) kw hpf (by rw [hmlen, hbitlen]; omega) (toNatBytes out') _
    (by rw [hmlen, hbitlen, hk]; exact hlast)
  rw [hmlen, hbitlen, hk] at hfinal
  refine ⟨hfinal.1, ?_⟩
  rw [hfinal.2]
  -- the specification side
  have hbits : (Spec.bytesToBits M).take bitlen
      = Spec.bytesToBits (M.take kb) ++ (Spec.bytesToBits ((M.drop kb).take bl)).take needed := by
    rw [takeBits_split M bitlen kb (by omega) hkbM, hneeded,
      takeBits_block (M.drop kb) needed bl hn1 (by rw [List.length_drop]; omega)]
  have hblen : ((Spec.bytesToBits M).take bitlen).length = bitlen := by
    rw [List.length_take, bytesToBits_length]; omega
  have hpad : h.padFrom st.bitcnt ((Spec.bytesToBits M).take bitlen) = M.take kb ++ out' := by
    simp only [Spec.MDHash.padFrom, hblen, htotal, hN]
    rw [hbits, List.append_assoc, List.append_assoc, bitsToBytes_bytes, ← hout', List.append_assoc, List.append_assoc]
  have hlen' : out'.length = bl ∨ out'.length = 2 * bl := by
    rw [← hout', List.length_append, bitsToBytes_length, h4]
    simp only [List.length_append, List.length_take, bytesToBits_length, List.length_cons, List.length_nil,
      List.length_replicate]
    have hPilen' := hPilen
    rw [List.length_take] at hPilen'
    have : min needed (8 * min bl (M.drop kb).length) = needed := Nat.min_eq_left hPilen'
    rw [this, show needed + (0 + 1) + N = 8 * n8 by omega, Nat.mul_div_cancel_left _ (by decide : 0 < 8)]
    exact hn8'
  have hYlen : (M.take kb).length = k * bl := by rw [List.length_take, hkb]; omega
  rw [hpad, groups_append bl hbl k _ _ hYlen, ← hkb, groups_take bl hbl k M (by rw [hkb]; exact hkbM),
    groups_one_or_two bl hbl out' hlen', List.map_append, List.map_map, map_if, hblk]
  congr 1
  · apply List.map_congr_left
    intro i _
    simp only [Function.comp, Padder.blockAt, hblk, toNatBytes, drop_take_map]
  · simp only [toNatBytes, List.map_cons, List.map_nil, List.map_take, List.map_drop, List.length_map,
      List.length_drop]

end core

end Proofs.Lemmas.PadOk
