/-
  The block trace of `Padder.iterblocks` for the BLAKE padding and the null padding of BLAKE2:
  how many blocks, and which `bitcnt` a consumer observes at each yield.
-/
import Model.Blake
namespace Proofs.Lemmas.BlakeTrace
open Model Model.Py

theorem toBytes_length (b : Bits) : b.toBytes.length = (b.size + 7) / 8 := by
  simp [Bits.toBytes]

theorem pack_length (b : Bits) (be : Bool) : (b.pack be).length = (b.size + 7) / 8 := by
  unfold Bits.pack
  cases be <;> simp

theorem concat_size (a o : Bits) : (a.concat o).size = a.size + o.size := rfl

theorem bitsOfBytes_size (m : List Nat) (n : Nat) : (Padder.bitsOfBytes m n).size = n := by
  simp [Padder.bitsOfBytes, Bits.ofBytes, Bits.load, Bits.setSize, bind, Except.bind, pure, Except.pure, Nat.mod_one]


/-- result of the BLAKE `lastblock` when the tail has `needed ≤ B` bits -/
theorem mdLike_blake (B w : Nat) (hsz : (B = 512 ∧ w = 32) ∨ (B = 1024 ∧ w = 64)) (sch : Scheme) (st : PadState) (m : List Nat)
    (kw : Option Nat) (v : Nat) (abs : Nat)
    (habs : abs = (match kw with | none => st.bitcnt + 8 * m.length | some b => b))
    (h1 : st.bitcnt ≤ abs) (h2 : abs - st.bitcnt ≤ B) :
    ∃ bytes, Padder.mdLike ⟨sch, B⟩ st m kw w 2 (some v) true
        = .ok (bytes, { st with padflag := true, bitcnt := abs }) ∧
      bytes.length = (if abs - st.bitcnt + 2 + 2 * w ≤ B then B / 8 else 2 * (B / 8)) := by
  have key : ∀ (bitlen : Nat), bitlen = abs →
      ∃ bytes, (if st.bitcnt > bitlen then (.error "AssertionError" : Except Err (List Nat × PadState)) else
        let needed := bitlen - st.bitcnt
        let mb := Padder.bitsOfBytes m needed
        let cs := w * 2
        let n0 : Int := (B : Int) - (2 : Nat) - cs - needed
        let n1 : Int := if n0 < 0 then n0 + B else n0
        if n1 < 0 then .error "ValueError:negative size" else
        let pad0 := (mb.concat (Bits.ofNatSz 1 1)).concat (Bits.ofNatSz 0 n1.toNat)
        let pad := pad0.concat (Bits.ofNatSz v 1)
        .ok (pad.toBytes ++ (Bits.ofNatSz bitlen cs).pack true,
             { st with padflag := true, bitcnt := st.bitcnt + needed }))
        = .ok (bytes, { st with padflag := true, bitcnt := abs }) ∧
      bytes.length = (if abs - st.bitcnt + 2 + 2 * w ≤ B then B / 8 else 2 * (B / 8)) := by
    intro bitlen hb
    subst hb
    rw [if_neg (by omega)]
    simp only []
    rcases hsz with ⟨rfl, rfl⟩ | ⟨rfl, rfl⟩
    all_goals
      generalize hd : bitlen - st.bitcnt = d at *
      have hbd : st.bitcnt + d = bitlen := by omega
      rw [hbd]
      clear habs
      repeat' split
      all_goals
        first
        | omega
        | (refine ⟨_, rfl, ?_⟩
           simp only [List.length_append, toBytes_length, pack_length, concat_size, bitsOfBytes_size, Bits.ofNatSz]
           omega)
  cases kw with
  | none => exact key _ habs.symm
  | some b => exact key _ habs.symm

theorem blockAt_length (p : Padder) (m : List Nat) (i : Nat) :
    (p.blockAt m i).length = min p.blocklen (m.length - i * p.blocklen) := by
  simp [Padder.blockAt]

theorem loopYields_bitcnt (p : Padder) (st : PadState) (m : List Nat) (k : Nat) :
    (p.loopYields st m k).map (·.2.bitcnt) = (List.range k).map fun i => st.bitcnt + (i + 1) * p.blocksize := by
  simp [Padder.loopYields]

/-- core of `blake_yields` with the geometry as parameters -/
theorem blake_yields_core (h B w : Nat) (hgeo : (B = 512 ∧ w = 32) ∨ (B = 1024 ∧ w = 64)) (hw : Padder.blakeW h = w)
    (st : PadState) (hpf : st.padflag = false)
    (m : List Nat) (kw : Option Nat) (L : Nat) (hLdef : kw.getD (8 * m.length) = L) (hL : L ≤ 8 * m.length) :
    (Padder.iterblocks ⟨.blake h, B⟩ st m kw true).err = none ∧
    (Padder.iterblocks ⟨.blake h, B⟩ st m kw true).yields.map (·.2.bitcnt) =
      (List.range ((L + 2 * w + 1 + B) / B)).map
        (fun i => if i * B < L then st.bitcnt + min L ((i + 1) * B) else 0) := by
  unfold Padder.iterblocks
  simp only [hpf, hLdef, Bool.false_eq_true, if_false, Bool.not_true, false_and, if_neg (Nat.not_lt.mpr hL)]
  generalize hk : Padder.loopCount ⟨.blake h, B⟩ L = k
  have hkdef : k = if L = 0 then 0 else (L - 1) / B := by rw [← hk]; rfl
  have hkB : k * B ≤ L ∧ L - k * B ≤ B ∧ (L = 0 → k = 0) ∧ (0 < L → k * B < L) := by
    rcases hgeo with ⟨rfl, _⟩ | ⟨rfl, _⟩ <;> (split at hkdef <;> omega)
  have habs : st.bitcnt + L = (match kw.map (st.bitcnt + ·) with
      | none => (st.bitcnt + k * B) + 8 * (Padder.blockAt ⟨.blake h, B⟩ m k).length
      | some b => b) := by
    cases kw with
    | none =>
      simp only [Option.getD_none] at hLdef
      show st.bitcnt + L = (st.bitcnt + k * B) + 8 * (Padder.blockAt ⟨.blake h, B⟩ m k).length
      rw [blockAt_length]
      simp only [Padder.blocklen]
      rcases hgeo with ⟨rfl, _⟩ | ⟨rfl, _⟩ <;> omega
    | some b => simp only [Option.getD_some] at hLdef; simp [hLdef]
  obtain ⟨bytes, hok, hlen⟩ := mdLike_blake B w hgeo (.blake h) { st with bitcnt := st.bitcnt + k * B }
    (Padder.blockAt ⟨.blake h, B⟩ m k) (kw.map (st.bitcnt + ·)) (if h = 256 ∨ h = 512 then 1 else 0) (st.bitcnt + L) habs
    (by simp only; omega) (by simp only; omega)
  simp only [Padder.lastblock, hw]
  simp only [hpf] at hok
  rw [hok]
  simp only [Padder.finishTail, Padder.blocklen, List.length_drop, hlen, if_true]
  have e1 : st.bitcnt + L - (st.bitcnt + k * B) = L - k * B := by omega
  have e2 : (st.bitcnt + L = st.bitcnt + k * B) ↔ L = k * B := by omega
  simp only [e1, e2]
  obtain ⟨hk1, hk2, hk3, hk4⟩ := hkB
  by_cases hsp : L - k * B + 2 + 2 * w ≤ B
  · have hn : (L + 2 * w + 1 + B) / B = k + 1 := by
      rcases hgeo with ⟨rfl, rfl⟩ | ⟨rfl, rfl⟩ <;> omega
    have h0 : ¬ (B / 8 - B / 8 > 0) := by omega
    simp only [if_pos hsp, h0, if_false]
    refine ⟨trivial, ?_⟩
    rw [hn, List.range_succ, List.map_append, List.map_append, loopYields_bitcnt]
    congr 1
    · apply List.map_congr_left
      intro i hi
      have hik := List.mem_range.mp hi
      rcases hgeo with ⟨rfl, rfl⟩ | ⟨rfl, rfl⟩ <;> (simp only []; split <;> omega)
    · simp only [List.map_cons, List.map_nil]
      rcases hgeo with ⟨rfl, rfl⟩ | ⟨rfl, rfl⟩ <;> (congr 1; split <;> split <;> simp only [] <;> omega)
  · have hn : (L + 2 * w + 1 + B) / B = k + 2 := by
      rcases hgeo with ⟨rfl, rfl⟩ | ⟨rfl, rfl⟩ <;> omega
    have h0 : (2 * (B / 8) - B / 8 > 0) := by
      rcases hgeo with ⟨rfl, rfl⟩ | ⟨rfl, rfl⟩ <;> omega
    simp only [if_neg hsp, h0, if_true]
    refine ⟨trivial, ?_⟩
    rw [hn, List.range_succ, List.range_succ, List.map_append, List.map_append, List.map_append, loopYields_bitcnt]
    rw [List.append_assoc]
    congr 1
    · apply List.map_congr_left
      intro i hi
      have hik := List.mem_range.mp hi
      rcases hgeo with ⟨rfl, rfl⟩ | ⟨rfl, rfl⟩ <;> (simp only []; split <;> omega)
    · simp only [List.map_cons, List.map_nil, List.cons_append, List.nil_append]
      rcases hgeo with ⟨rfl, rfl⟩ | ⟨rfl, rfl⟩ <;>
        (congr 1
         · split <;> split <;> simp only [] <;> omega
         · congr 1; split <;> omega)

/-- every block the BLAKE iterator yields is a whole block -/
theorem blake_yields_blocklen (h B w : Nat) (hgeo : (B = 512 ∧ w = 32) ∨ (B = 1024 ∧ w = 64)) (hw : Padder.blakeW h = w)
    (st : PadState) (hpf : st.padflag = false)
    (m : List Nat) (kw : Option Nat) (L : Nat) (hLdef : kw.getD (8 * m.length) = L) (hL : L ≤ 8 * m.length) :
    ∀ y ∈ (Padder.iterblocks ⟨.blake h, B⟩ st m kw true).yields, y.1.length = B / 8 := by
  unfold Padder.iterblocks
  simp only [hpf, hLdef, Bool.false_eq_true, if_false, Bool.not_true, false_and, if_neg (Nat.not_lt.mpr hL)]
  generalize hk : Padder.loopCount ⟨.blake h, B⟩ L = k
  have hkdef : k = if L = 0 then 0 else (L - 1) / B := by rw [← hk]; rfl
  have hkB : k * B ≤ L ∧ L - k * B ≤ B ∧ (L = 0 → k = 0) ∧ (0 < L → k * B < L) := by
    rcases hgeo with ⟨rfl, _⟩ | ⟨rfl, _⟩ <;> (split at hkdef <;> omega)
  have habs : st.bitcnt + L = (match kw.map (st.bitcnt + ·) with
      | none => (st.bitcnt + k * B) + 8 * (Padder.blockAt ⟨.blake h, B⟩ m k).length
      | some b => b) := by
    cases kw with
    | none =>
      simp only [Option.getD_none] at hLdef
      show st.bitcnt + L = (st.bitcnt + k * B) + 8 * (Padder.blockAt ⟨.blake h, B⟩ m k).length
      rw [blockAt_length]
      simp only [Padder.blocklen]
      rcases hgeo with ⟨rfl, _⟩ | ⟨rfl, _⟩ <;> omega
    | some b => simp only [Option.getD_some] at hLdef; simp [hLdef]
  obtain ⟨bytes, hok, hlen⟩ := mdLike_blake B w hgeo (.blake h) { st with bitcnt := st.bitcnt + k * B }
    (Padder.blockAt ⟨.blake h, B⟩ m k) (kw.map (st.bitcnt + ·)) (if h = 256 ∨ h = 512 then 1 else 0) (st.bitcnt + L) habs
    (by simp only; omega) (by simp only; omega)
  simp only [Padder.lastblock, hw]
  simp only [hpf] at hok
  rw [hok]
  simp only [Padder.finishTail, Padder.blocklen, List.length_drop, hlen, if_true]
  have e1 : st.bitcnt + L - (st.bitcnt + k * B) = L - k * B := by omega
  have e2 : (st.bitcnt + L = st.bitcnt + k * B) ↔ L = k * B := by omega
  simp only [e1, e2]
  obtain ⟨hk1, hk2, hk3, hk4⟩ := hkB
  have hloop : ∀ y ∈ Padder.loopYields ⟨.blake h, B⟩ st m k, y.1.length = B / 8 := by
    intro y hy
    simp only [Padder.loopYields, List.mem_map, List.mem_range] at hy
    obtain ⟨i, hi, rfl⟩ := hy
    simp only [blockAt_length, Padder.blocklen]
    rcases hgeo with ⟨rfl, rfl⟩ | ⟨rfl, rfl⟩ <;> omega
  by_cases hsp : L - k * B + 2 + 2 * w ≤ B
  · have h0 : ¬ (B / 8 - B / 8 > 0) := by omega
    simp only [e1, if_pos hsp] at hlen
    simp only [if_pos hsp, h0, if_false]
    intro y hy
    rcases List.mem_append.mp hy with hy | hy
    · exact hloop y hy
    · simp only [List.mem_singleton] at hy
      subst hy
      simp only [List.length_take, hlen]
      omega
  · have h0 : (2 * (B / 8) - B / 8 > 0) := by
      rcases hgeo with ⟨rfl, rfl⟩ | ⟨rfl, rfl⟩ <;> omega
    simp only [e1, if_neg hsp] at hlen
    simp only [if_neg hsp, h0, if_true]
    intro y hy
    rcases List.mem_append.mp hy with hy | hy
    · exact hloop y hy
    · simp only [List.mem_cons, List.mem_nil_iff, or_false] at hy
      rcases hy with rfl | rfl
      · simp only [List.length_take, hlen]; omega
      · simp only [List.length_drop, hlen]; omega

/-- what a consumer of the null-padding block iterator (BLAKE2) observes -/
theorem null_yields_core (B : Nat) (hB : B = 512 ∨ B = 1024) (st : PadState) (hpf : st.padflag = false) (m : List Nat) :
    (Padder.iterblocks ⟨.null, B⟩ st m none true).err = none ∧
    (Padder.iterblocks ⟨.null, B⟩ st m none true).yields.map (·.2.bitcnt) =
      (List.range (if m.length = 0 then 1 else (8 * m.length + B - 1) / B)).map
        (fun i => if m.length = 0 then 0 else st.bitcnt + min (8 * m.length) ((i + 1) * B)) := by
  unfold Padder.iterblocks
  simp only [hpf, Option.getD_none, Bool.false_eq_true, if_false, Bool.not_true, false_and, Nat.lt_irrefl, Option.map_none, if_true]
  obtain ⟨k, hk⟩ : ∃ k, Padder.loopCount ⟨.null, B⟩ (8 * m.length) = k := ⟨_, rfl⟩
  simp only [hk]
  have hkdef : k = if 8 * m.length = 0 then 0 else (8 * m.length - 1) / B := by rw [← hk]; rfl
  have hkB : k * B ≤ 8 * m.length ∧ 8 * m.length - k * B ≤ B ∧ (m.length = 0 → k = 0) ∧ (0 < m.length → k * B < 8 * m.length) := by
    rcases hB with rfl | rfl <;> (split at hkdef <;> omega)
  obtain ⟨hk1, hk2, hk3, hk4⟩ := hkB
  have hpi : 8 * (Padder.blockAt ⟨.null, B⟩ m k).length = 8 * m.length - k * B := by
    rw [blockAt_length]; simp only [Padder.blocklen]
    rcases hB with rfl | rfl <;> omega
  simp only [Padder.lastblock]
  rw [if_neg (by omega)]
  have hlen : (((Padder.bitsOfBytes (Padder.blockAt ⟨.null, B⟩ m k) (8 * (Padder.blockAt ⟨.null, B⟩ m k).length)).concat
      (Bits.ofNatSz 0 (B - 8 * (Padder.blockAt ⟨.null, B⟩ m k).length))).toBytes).length = B / 8 := by
    simp only [toBytes_length, concat_size, bitsOfBytes_size, Bits.ofNatSz]
    rcases hB with rfl | rfl <;> omega
  simp only [Padder.finishTail, Padder.blocklen, hlen, ne_eq, not_true_eq_false, if_false, List.length_drop, Nat.sub_self, Nat.lt_irrefl, gt_iff_lt]
  refine ⟨trivial, ?_⟩
  have hn : (if m.length = 0 then 1 else (8 * m.length + B - 1) / B) = k + 1 := by
    rcases hB with rfl | rfl <;> (split <;> omega)
  rw [hn, List.range_succ, List.map_append, List.map_append, loopYields_bitcnt]
  congr 1
  · apply List.map_congr_left
    intro i hi
    have hik := List.mem_range.mp hi
    rcases hB with rfl | rfl <;> (simp only []; split <;> omega)
  · simp only [List.map_cons, List.map_nil, hpi]
    rcases hB with rfl | rfl <;> (congr 1; split <;> split <;> simp only [] <;> omega)

theorem trace_counters (c : Blake.Cfg) (pad : PadState) (M : List Nat) (padding : Bool) :
    (Blake2.trace c pad M padding).map (·.2.1) =
      ((Padder.mk .null c.blocksize).iterblocks pad M none padding).yields.map (·.2.bitcnt / 8) := by
  apply List.ext_getElem
  · simp [Blake2.trace]
  · intro i h1 h2
    simp [Blake2.trace]

theorem trace_flags (c : Blake.Cfg) (pad : PadState) (M : List Nat) (padding : Bool) :
    (Blake2.trace c pad M padding).map (·.2.2) =
      (List.range ((Padder.mk .null c.blocksize).iterblocks pad M none padding).yields.length).map
        (fun i => padding && i + 1 == ((Padder.mk .null c.blocksize).iterblocks pad M none padding).yields.length) := by
  apply List.ext_getElem
  · simp [Blake2.trace]
  · intro i h1 h2
    simp [Blake2.trace]

theorem trace_length (c : Blake.Cfg) (pad : PadState) (M : List Nat) (padding : Bool) :
    (Blake2.trace c pad M padding).length =
      ((Padder.mk .null c.blocksize).iterblocks pad M none padding).yields.length := by
  simp [Blake2.trace]

end Proofs.Lemmas.BlakeTrace
