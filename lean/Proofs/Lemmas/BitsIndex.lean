/-
  Helper lemmas: Python index expressions (`slice.indices`, `range`, negative indices) and the
  `__getitem__` / `__setitem__` paths of `Model.Bits`.
-/
import Model.Bits
import Proofs.Lemmas.BitsBasic
import Proofs.Lemmas.BitsOps
namespace Proofs.Lemmas.Bits
open Model Model.Bits Model.Py

/-! ### `range` -/

@[simp] theorem range_length (s e st : Int) : (Py.range s e st).length = rangeLen s e st := by
  simp [Py.range]

theorem range_getElem (s e st : Int) (j : Nat) (h : j < (Py.range s e st).length) :
    (Py.range s e st)[j] = s + st * (j : Int) := by
  simp [Py.range]

theorem mem_range_iff (s e st x : Int) : x ∈ Py.range s e st ↔ ∃ j : Nat, j < rangeLen s e st ∧ x = s + st * (j : Int) := by
  simp only [Py.range, List.mem_map, List.mem_range]
  constructor
  · rintro ⟨j, hj, rfl⟩; exact ⟨j, hj, rfl⟩
  · rintro ⟨j, hj, rfl⟩; exact ⟨j, hj, rfl⟩

/-- positive step: every element lies in `[s, e)` -/
theorem range_pos_bounds {s e st : Int} (hst : 0 < st) {j : Nat} (hj : j < rangeLen s e st) :
    s ≤ s + st * (j : Int) ∧ s + st * (j : Int) < e := by
  unfold rangeLen at hj
  simp only [gt_iff_lt, hst, ↓reduceIte] at hj
  split at hj
  · have h1 : (j : Int) < (e - s - 1) / st + 1 := by
      have := Int.lt_toNat.1 hj; exact this
    have h2 : (j : Int) ≤ (e - s - 1) / st := by omega
    have h3 := (Int.le_ediv_iff_mul_le hst).1 h2
    have h4 : 0 ≤ st * (j : Int) := Int.mul_nonneg (by omega) (by omega)
    rw [Int.mul_comm] at h3
    omega
  · omega

/-- negative step: every element lies in `(e, s]` -/
theorem range_neg_bounds {s e st : Int} (hst : st < 0) {j : Nat} (hj : j < rangeLen s e st) :
    e < s + st * (j : Int) ∧ s + st * (j : Int) ≤ s := by
  unfold rangeLen at hj
  have hn : ¬ (st > 0) := by omega
  simp only [hn, ↓reduceIte] at hj
  split at hj
  · have h1 : (j : Int) < (s - e - 1) / (-st) + 1 := by
      have := Int.lt_toNat.1 hj; exact this
    have h2 : (j : Int) ≤ (s - e - 1) / (-st) := by omega
    have h3 := (Int.le_ediv_iff_mul_le (by omega : 0 < -st)).1 h2
    have h4 : 0 ≤ (-st) * (j : Int) := Int.mul_nonneg (by omega) (by omega)
    rw [Int.mul_comm] at h3
    rw [Int.neg_mul] at h3 h4
    omega
  · omega

theorem rangeLen_one {s e : Int} (h : s ≤ e) : rangeLen s e 1 = (e - s).toNat := by
  unfold rangeLen
  have h1 : (1 : Int) > 0 := by omega
  simp only [h1, ↓reduceIte, Int.ediv_one]
  split <;> omega

/-- distinct positions of a range are distinct elements (step ≠ 0) -/
theorem range_inj {st : Int} (hst : st ≠ 0) {s : Int} {j j' : Nat} (h : s + st * (j : Int) = s + st * (j' : Int)) : j = j' := by
  have h1 : st * (j : Int) = st * (j' : Int) := by omega
  have := Int.eq_of_mul_eq_mul_left hst h1
  omega

/-! ### `slice.indices` -/

/-- what `slice(start,stop,step).indices(len)` guarantees -/
theorem sliceIndices_bounds {start stop step : Option Int} {len : Nat} {s e st : Int}
    (h : sliceIndices start stop step len = .ok (s, e, st)) :
    st ≠ 0 ∧ st = step.getD 1 ∧
    (0 < st → 0 ≤ s ∧ s ≤ len ∧ 0 ≤ e ∧ e ≤ len) ∧
    (st < 0 → -1 ≤ s ∧ s ≤ (len : Int) - 1 ∧ -1 ≤ e ∧ e ≤ (len : Int) - 1) := by
  unfold sliceIndices at h
  simp only at h
  split at h
  · cases h
  · rename_i hst
    injection h with h
    simp only [Prod.mk.injEq] at h
    obtain ⟨hs, he, hst'⟩ := h
    refine ⟨by omega, hst'.symm, ?_, ?_⟩
    · intro hpos
      have hn : ¬ (Option.getD step 1 < 0) := by omega
      subst hs he
      cases start <;> cases stop <;> simp only [hn, ↓reduceIte] <;> (repeat' split) <;> omega
    · intro hneg
      have hn : (Option.getD step 1 < 0) := by omega
      subst hs he
      cases start <;> cases stop <;> simp only [hn, ↓reduceIte] <;> (repeat' split) <;> omega

theorem sliceIndices_error_iff (start stop step : Option Int) (len : Nat) :
    (∃ err, sliceIndices start stop step len = .error err) ↔ step = some 0 := by
  unfold sliceIndices
  simp only
  constructor
  · rintro ⟨err, h⟩
    split at h
    · rename_i h0
      cases step with
      | none => simp at h0
      | some v => simp at h0; rw [h0]
    · cases h
  · rintro rfl
    exact ⟨"ValueError:slice step cannot be zero", by simp⟩

/-- every element of the selected range is a valid position `0 ≤ x < len` -/
theorem range_in_bounds {start stop step : Option Int} {len : Nat} {s e st : Int}
    (h : sliceIndices start stop step len = .ok (s, e, st)) {j : Nat} (hj : j < rangeLen s e st) :
    0 ≤ s + st * (j : Int) ∧ s + st * (j : Int) < len := by
  obtain ⟨h0, _, hp, hn⟩ := sliceIndices_bounds h
  by_cases hpos : 0 < st
  · have := range_pos_bounds hpos hj
    have := hp hpos
    omega
  · have hneg : st < 0 := by omega
    have := range_neg_bounds hneg hj
    have := hn hneg
    omega

/-! ### reading: `bit`, `b[i]`, `b[list]`, `b[s:e:k]` -/

theorem normIndex_lt {i : Int} {len p : Nat} (h : normIndex i len = some p) : p < len := by
  unfold normIndex at h
  split at h
  · injection h with h; omega
  · split at h
    · injection h with h; omega
    · cases h

/-- `bit(i)`: Python's sequence indexing (negative indices count from the end), IndexError outside `-n ≤ i < n` -/
theorem bit_eq (b : Bits) (i : Int) :
    b.bit i = match normIndex i b.size with
      | some p => .ok (b.ival.testBit p).toNat
      | none => .error "IndexError" := by
  unfold bit normIndex
  by_cases h1 : 0 ≤ i ∧ i < b.size
  · simp only [h1, and_self, ↓reduceIte, shr_and_one]
  · by_cases h2 : 0 < -i ∧ -i ≤ (b.size : Int)
    · have h3 : i < 0 ∧ -i ≤ (b.size : Int) := by omega
      simp only [h1, h2, h3, and_self, ↓reduceIte, shr_and_one]
      have : (↑b.size + i).toNat = (i + ↑b.size).toNat := by rw [Int.add_comm]
      rw [this]
    · have h3 : ¬ (i < 0 ∧ -i ≤ (b.size : Int)) := by omega
      simp only [h1, h2, h3, ↓reduceIte]

theorem listVal_testBit (l : List Nat) (j : Nat) :
    (listVal l).testBit j = decide (l.getD j 0 % 2 = 1) := by
  induction l generalizing j with
  | nil => simp [listVal]
  | cons x xs ih =>
    simp only [listVal, Nat.testBit_or, Nat.testBit_shiftLeft, Nat.and_one_is_mod]
    cases j with
    | zero =>
      simp only [ge_iff_le, Nat.le_zero_eq, Nat.succ_ne_self, decide_false, Bool.false_and, Bool.false_or,
        List.getD_cons_zero]
      have := Nat.mod_two_eq_zero_or_one x
      rcases this with h | h <;> simp [h]
    | succ j =>
      have h2 : (x % 2).testBit (j + 1) = false := testBit_of_lt (n := 1) (by omega) (by omega)
      simp [ih, h2]

theorem listVal_lt (l : List Nat) : listVal l < 2 ^ l.length := by
  apply lt_two_pow_of_testBit_false
  intro i hi
  rw [listVal_testBit]
  simp [List.getD_eq_getElem?_getD, List.getElem?_eq_none hi]

/-- `b[list]` for non-negative indices: one bit per index, in order (repeats allowed) -/
theorem getList_ok (b : Bits) (idx : List Int) (h : ∀ x ∈ idx, 0 ≤ x) :
    b.getList idx = .ok (ofNatSz (listVal (idx.map fun x => (b.ival >>> x.toNat) &&& 1)) idx.length) := by
  unfold getList
  have : idx.any (· < 0) = false := by
    rw [List.any_eq_false]; intro x hx; have := h x hx; simp; omega
  simp [this]

theorem getList_error (b : Bits) (idx : List Int) (h : ∃ x ∈ idx, x < 0) : ∃ err, b.getList idx = .error err := by
  unfold getList
  have : idx.any (· < 0) = true := by
    rw [List.any_eq_true]; obtain ⟨x, hx, hlt⟩ := h; exact ⟨x, hx, by simpa using hlt⟩
  exact ⟨"ValueError:negative shift count", by simp [this]⟩

theorem getList_testBit (b : Bits) (idx : List Int) (j : Nat) :
    (ofNatSz (listVal (idx.map fun x => (b.ival >>> x.toNat) &&& 1)) idx.length).ival.testBit j =
      if h : j < idx.length then b.ival.testBit (idx[j]).toNat else false := by
  simp only [ofNatSz_ival, Nat.testBit_mod_two_pow, listVal_testBit]
  split
  · rename_i hj
    simp only [hj, decide_true, Bool.true_and]
    rw [← List.getElem_eq_getD (h := by simpa using hj)]
    simp only [List.getElem_map, shr_and_one]
    cases b.ival.testBit (idx[j]).toNat <;> simp
  · rename_i hj; simp [hj]

/-- the slice selects `range(*slice.indices(size))`; the fast path and the generic path agree with it -/
theorem getSlice_eq (b : Bits) (start stop step : Option Int) {s e st : Int}
    (h : sliceIndices start stop step b.size = .ok (s, e, st)) :
    ∃ r, b.getSlice start stop step = .ok r ∧ r.WF ∧ r.size = (Py.range s e st).length ∧
      ∀ j, r.ival.testBit j =
        if hj : j < (Py.range s e st).length then b.ival.testBit ((Py.range s e st)[j]).toNat else false := by
  unfold getSlice
  rw [h]
  show ∃ r, (if st = 1 ∧ e ≥ s then pure (b.sliceFast s.toNat e.toNat) else b.getList (Py.range s e st)) = _ ∧ _
  obtain ⟨h0, _, hp, hn⟩ := sliceIndices_bounds h
  by_cases hf : st = 1 ∧ e ≥ s
  · obtain ⟨h1, hes⟩ := hf
    subst h1
    have hb := hp (by omega)
    refine ⟨b.sliceFast s.toNat e.toNat, by simp [hes]; rfl, sliceFast_wf _ _ _, ?_, ?_⟩
    · simp only [sliceFast_size, range_length, rangeLen_one hes]; omega
    · intro j
      rw [sliceFast_testBit]
      simp only [range_length, rangeLen_one hes, range_getElem]
      by_cases hj : j < (e - s).toNat
      · have h1 : j < e.toNat - s.toNat := by omega
        have h2 : (s + (j : Int)).toNat = s.toNat + j := by omega
        simp [hj, h1, h2]
      · have h1 : ¬ j < e.toNat - s.toNat := by omega
        simp [hj, h1]
  · have hnn : ∀ x ∈ Py.range s e st, 0 ≤ x := by
      intro x hx
      obtain ⟨j, hj, rfl⟩ := (mem_range_iff _ _ _ _).1 hx
      exact (range_in_bounds h hj).1
    refine ⟨_, by simp only [hf, ↓reduceIte]; exact getList_ok b _ hnn, ofNatSz_wf _ _, rfl, ?_⟩
    intro j
    exact getList_testBit b _ j

theorem getSlice_fast (b : Bits) (start stop step : Option Int) {s e : Int}
    (h : sliceIndices start stop step b.size = .ok (s, e, 1)) (hes : s ≤ e) :
    b.getSlice start stop step = .ok (b.sliceFast s.toNat e.toNat) := by
  unfold getSlice
  rw [h]
  show (if (1 : Int) = 1 ∧ e ≥ s then (pure (b.sliceFast s.toNat e.toNat) : Except Err Bits) else b.getList (Py.range s e 1)) = _
  have : (1 : Int) = 1 ∧ e ≥ s := by omega
  rw [if_pos this]; rfl

/-! ### writing: `b[i]=v` -/

theorem setInt_eq (b : Bits) (i : Int) (v : Nat) :
    b.setInt i v =
      if v ≠ 0 ∧ v ≠ 1 then .error "AssertionError" else
      match normIndex i b.size with
      | none => .error "IndexError"
      | some p => if v = 0 then .ok ⟨b.ival &&& (b.mask ^^^ (1 <<< p)), b.size⟩ else .ok ⟨b.ival ||| (1 <<< p), b.size⟩ := by
  unfold setInt
  have hp : (if 0 ≤ i ∧ i < (b.size : Int) then some i.toNat
             else if 0 < -i ∧ -i < (b.size : Int) + 1 then some ((b.size : Int) + i).toNat else none)
            = normIndex i b.size := by
    unfold normIndex
    by_cases h1 : 0 ≤ i ∧ i < (b.size : Int)
    · simp only [h1, and_self, ↓reduceIte]
    · by_cases h2 : 0 < -i ∧ -i < (b.size : Int) + 1
      · have h3 : i < 0 ∧ -i ≤ (b.size : Int) := by omega
        simp only [h1, h2, h3, and_self, ↓reduceIte]
        rw [Int.add_comm]
      · have h3 : ¬ (i < 0 ∧ -i ≤ (b.size : Int)) := by omega
        simp only [h1, h2, h3, ↓reduceIte]
  simp only [hp]
  rfl

/-- `b[i]=v`: exactly bit `i` (Python index) becomes `v`; every other bit and the size are unchanged -/
theorem setInt_spec (b : Bits) (hb : b.WF) (i : Int) (v : Nat) (r : Bits) (h : b.setInt i v = .ok r) :
    ∃ p, normIndex i b.size = some p ∧ v ≤ 1 ∧ r.size = b.size ∧
      ∀ q, r.ival.testBit q = if q = p then decide (v = 1) else b.ival.testBit q := by
  rw [setInt_eq] at h
  split at h
  · cases h
  · rename_i hv
    have hv' : v ≤ 1 := by omega
    cases hn : normIndex i b.size with
    | none => rw [hn] at h; cases h
    | some p =>
      rw [hn] at h
      have hp := normIndex_lt hn
      refine ⟨p, rfl, hv', ?_⟩
      simp only at h
      split at h
      · rename_i h0
        injection h with h
        subst h
        refine ⟨rfl, ?_⟩
        intro q
        simp only [mask, Nat.testBit_and, Nat.testBit_xor, Nat.testBit_two_pow_sub_one, Nat.testBit_shiftLeft, h0]
        by_cases hq : q = p
        · subst hq; simp [hp]
        · by_cases hqs : q < b.size
          · have : ¬ (q ≥ p ∧ q - p = 0) := by omega
            by_cases hqp : q ≥ p
            · have h3 : q - p ≠ 0 := by omega
              have h4 : Nat.testBit 1 (q - p) = false := by
                cases h5 : Nat.testBit 1 (q - p)
                · rfl
                · exact absurd (Nat.testBit_one_eq_true_iff_self_eq_zero.1 h5) h3
              simp [hq, hqs, hqp, h4]
            · simp [hq, hqs, hqp]
          · simp [hq, wf_testBit hb (Nat.le_of_not_lt hqs)]
      · rename_i h0
        have h1 : v = 1 := by omega
        injection h with h
        subst h
        refine ⟨rfl, ?_⟩
        intro q
        simp only [Nat.testBit_or, Nat.testBit_shiftLeft, h1]
        by_cases hq : q = p
        · subst hq; simp
        · by_cases hqp : q ≥ p
          · have h3 : q - p ≠ 0 := by omega
            have h4 : Nat.testBit 1 (q - p) = false := by
              cases h5 : Nat.testBit 1 (q - p)
              · rfl
              · exact absurd (Nat.testBit_one_eq_true_iff_self_eq_zero.1 h5) h3
            simp [hq, hqp, h4]
          · simp [hq, hqp]

theorem setInt_wf (b : Bits) (hb : b.WF) (i : Int) (v : Nat) (r : Bits) (h : b.setInt i v = .ok r) : r.WF := by
  obtain ⟨p, hp, _, hs, hbits⟩ := setInt_spec b hb i v r h
  have hp' := normIndex_lt hp
  unfold WF
  apply lt_two_pow_of_testBit_false
  intro q hq
  rw [hbits q, hs] at *
  have : q ≠ p := by omega
  simp only [this, ↓reduceIte]
  exact wf_testBit hb hq

theorem setInt_error_iff (b : Bits) (i : Int) (v : Nat) :
    (∃ err, b.setInt i v = .error err) ↔ (1 < v ∨ normIndex i b.size = none) := by
  rw [setInt_eq]
  by_cases hv : v ≠ 0 ∧ v ≠ 1
  · rw [if_pos hv]
    constructor
    · intro _; left; omega
    · intro _; exact ⟨"AssertionError", rfl⟩
  · rw [if_neg hv]
    cases hn : normIndex i b.size with
    | none =>
      constructor
      · intro _; right; trivial
      · intro _; exact ⟨"IndexError", rfl⟩
    | some p =>
      constructor
      · rintro ⟨err, h⟩
        simp only at h
        split at h <;> cases h
      · rintro (h | h)
        · omega
        · cases h

/-! ### writing: `b[list]=v`, `b[s:e:k]=v` -/

/-- the meaning of `for j,x in zip(idx,vals): b[j]=x` on the bit function: sequential single-bit writes -/
def writes (size : Nat) (f : Nat → Bool) : List Int → List Nat → (Nat → Bool)
  | j :: js, x :: xs => writes size (fun q => if some q = normIndex j size then decide (x = 1) else f q) js xs
  | _, _ => f

theorem setBits_spec (b : Bits) (hb : b.WF) (js : List Int) (xs : List Nat) (r : Bits)
    (h : b.setBits js xs = .ok r) :
    r.WF ∧ r.size = b.size ∧ ∀ q, r.ival.testBit q = writes b.size (fun q => b.ival.testBit q) js xs q := by
  induction js generalizing b xs with
  | nil =>
    unfold setBits at h; injection h with h; subst h
    exact ⟨hb, rfl, fun q => by simp [writes]⟩
  | cons j js ih =>
    cases xs with
    | nil =>
      unfold setBits at h; injection h with h; subst h
      exact ⟨hb, rfl, fun q => by simp [writes]⟩
    | cons x xs =>
      unfold setBits at h
      cases h1 : b.setInt j x with
      | error e => rw [h1] at h; cases h
      | ok b' =>
        rw [h1] at h
        have h' : b'.setBits js xs = .ok r := h
        obtain ⟨p, hp, _, hs, hbits⟩ := setInt_spec b hb j x b' h1
        have hb' := setInt_wf b hb j x b' h1
        obtain ⟨hw, hsz, hq⟩ := ih b' hb' xs h'
        refine ⟨hw, by omega, ?_⟩
        intro q
        rw [hq q, hs]
        simp only [writes]
        congr 1
        funext q'
        rw [hbits q', hp]
        by_cases hqp : q' = p
        · subst hqp; simp
        · have : ¬ (some q' = some p) := by simpa using hqp
          simp [hqp, this]

/-- frame: a position that no index of the list denotes keeps its bit -/
theorem writes_frame (size : Nat) (f : Nat → Bool) (js : List Int) (xs : List Nat) (q : Nat)
    (h : ∀ j ∈ js, normIndex j size ≠ some q) : writes size f js xs q = f q := by
  induction js generalizing f xs with
  | nil => simp [writes]
  | cons j js ih =>
    cases xs with
    | nil => simp [writes]
    | cons x xs =>
      simp only [writes]
      rw [ih _ xs (fun j' hj' => h j' (List.mem_cons_of_mem _ hj'))]
      have := h j (List.mem_cons_self)
      have h2 : ¬ (some q = normIndex j size) := fun e => this e.symm
      simp [h2]

/-- `zip` stops at the shorter list: only the first `|xs|` indices matter -/
theorem writes_take (size : Nat) (g : Nat → Bool) (js : List Int) (xs : List Nat) :
    writes size g js xs = writes size g (js.take xs.length) xs := by
  induction js generalizing g xs with
  | nil => simp [writes]
  | cons a js ih2 =>
    cases xs with
    | nil => simp [writes]
    | cons y ys => simp only [List.length_cons, List.take_succ_cons, writes]; exact ih2 _ ys

/-- selection: the t-th write determines its position unless a later write hits the same position (last write wins) -/
theorem writes_sel (size : Nat) (f : Nat → Bool) (js : List Int) (xs : List Nat) (t : Nat)
    (ht : t < js.length) (htx : t < xs.length) (p : Nat) (hp : normIndex js[t] size = some p)
    (hlast : ∀ t' (h' : t' < js.length), t < t' → t' < xs.length → normIndex js[t'] size ≠ some p) :
    writes size f js xs p = decide (xs[t] = 1) := by
  induction js generalizing f xs t with
  | nil => simp at ht
  | cons j js ih =>
    cases xs with
    | nil => simp at htx
    | cons x xs =>
      simp only [writes]
      cases t with
      | zero =>
        simp only [List.getElem_cons_zero] at hp ⊢
        have hfr : ∀ j' ∈ js.take xs.length, normIndex j' size ≠ some p := by
          intro j' hj'
          obtain ⟨k, hk, rfl⟩ := List.mem_iff_getElem.1 hj'
          simp only [List.length_take] at hk
          have := hlast (k + 1) (by simp; omega) (by omega) (by simp; omega)
          simpa [List.getElem_take] using this
        rw [writes_take, writes_frame size _ _ xs p hfr]
        simp [hp]
      | succ t =>
        simp only [List.getElem_cons_succ] at hp ⊢
        apply ih _ xs t (by simpa using ht) (by simpa using htx) hp
        intro t' h' htt' hx'
        have := hlast (t' + 1) (by simp; omega) (by omega) (by simp; omega)
        simpa using this

theorem toBitList_length (v : Bits) : v.toBitList.length = v.size := by simp [toBitList]
theorem toBitList_getElem (v : Bits) (t : Nat) (h : t < v.toBitList.length) :
    v.toBitList[t] = (v.ival.testBit t).toNat := by
  simp only [toBitList, List.getElem_map, List.getElem_range, shr_and_one]

theorem setList_spec (b : Bits) (hb : b.WF) (idx : List Int) (v : Bits) (r : Bits) (h : b.setList idx v = .ok r) :
    idx.length = v.size ∧ r.WF ∧ r.size = b.size ∧
      ∀ q, r.ival.testBit q = writes b.size (fun q => b.ival.testBit q) idx v.toBitList q := by
  unfold setList at h
  split at h
  · cases h
  · rename_i hlen
    have := setBits_spec b hb idx v.toBitList r h
    exact ⟨by omega, this⟩

theorem normIndex_of_bounds {x : Int} {len : Nat} (h0 : 0 ≤ x) (h1 : x < len) : normIndex x len = some x.toNat := by
  unfold normIndex; simp [h0, h1]

theorem setSlice_eq (b : Bits) (start stop step : Option Int) (v : Bits) {s e st : Int}
    (h : sliceIndices start stop step b.size = .ok (s, e, st)) :
    b.setSlice start stop step v =
      if st = 1 ∧ e > s then
        .ok ⟨(b.ival &&& (b.mask ^^^ (2 ^ e.toNat - 1) ^^^ (2 ^ s.toNat - 1))) ||| (v.ival <<< s.toNat), b.size⟩
      else b.setList (Py.range s e st) v := by
  unfold setSlice
  rw [h]
  rfl

/-- the fast path `ival = (ival & mask) | (v.ival << start)` for a value that fits the selection -/
theorem setSlice_fast_testBit (b : Bits) (hb : b.WF) (s e : Nat) (hse : s < e) (he : e ≤ b.size)
    (v : Bits) (hv : v.ival < 2 ^ (e - s)) (q : Nat) :
    ((b.ival &&& (b.mask ^^^ (2 ^ e - 1) ^^^ (2 ^ s - 1))) ||| (v.ival <<< s)).testBit q =
      if s ≤ q ∧ q < e then v.ival.testBit (q - s) else b.ival.testBit q := by
  simp only [mask, Nat.testBit_or, Nat.testBit_and, Nat.testBit_xor, Nat.testBit_two_pow_sub_one,
    Nat.testBit_shiftLeft, ge_iff_le]
  by_cases h1 : q < s
  · have h2 : q < e := by omega
    have h3 : q < b.size := by omega
    have h4 : ¬ s ≤ q := by omega
    simp [h1, h2, h3, h4]
  · have h4 : s ≤ q := by omega
    by_cases h2 : q < e
    · have h3 : q < b.size := by omega
      simp [h1, h2, h3, h4]
    · have hv' : v.ival.testBit (q - s) = false := testBit_of_lt hv (by omega)
      by_cases h3 : q < b.size
      · simp [h1, h2, h3, h4, hv']
      · simp [h1, h2, h3, h4, hv', wf_testBit hb (Nat.le_of_not_lt h3)]

/-- `b[s:e:k]=v` for a value that fits: the selected positions `range(*indices)` take the bits of `v` in order,
    every other bit and the size are unchanged, and the payload stays below 2^size -/
theorem setSlice_spec (b : Bits) (hb : b.WF) (start stop step : Option Int) (v : Bits) {s e st : Int}
    (h : sliceIndices start stop step b.size = .ok (s, e, st))
    (hfit : st = 1 → s < e → v.ival < 2 ^ (e - s).toNat)
    (r : Bits) (hr : b.setSlice start stop step v = .ok r) :
    r.WF ∧ r.size = b.size ∧
    (∀ j (hj : j < (Py.range s e st).length), r.ival.testBit ((Py.range s e st)[j]).toNat = v.ival.testBit j) ∧
    (∀ q : Nat, (q : Int) ∉ Py.range s e st → r.ival.testBit q = b.ival.testBit q) := by
  rw [setSlice_eq b start stop step v h] at hr
  obtain ⟨h0, _, hp, hn⟩ := sliceIndices_bounds h
  by_cases hf : st = 1 ∧ e > s
  · rw [if_pos hf] at hr
    obtain ⟨h1, hes⟩ := hf
    subst h1
    have hb' := hp (by omega)
    injection hr with hr
    subst hr
    have hv : v.ival < 2 ^ (e.toNat - s.toNat) := by
      have := hfit rfl hes
      have e1 : (e - s).toNat = e.toNat - s.toNat := by omega
      rwa [e1] at this
    have hbit := setSlice_fast_testBit b hb s.toNat e.toNat (by omega) (by omega) v hv
    refine ⟨?_, rfl, ?_, ?_⟩
    · apply lt_two_pow_of_testBit_false
      intro q hq
      simp only at hq
      rw [hbit q]
      have : ¬ (s.toNat ≤ q ∧ q < e.toNat) := by omega
      simp only [this, ↓reduceIte]
      exact wf_testBit hb hq
    · intro j hj
      simp only [range_length, rangeLen_one (Int.le_of_lt hes)] at hj
      simp only [range_getElem]
      rw [hbit]
      have h2 : (s + 1 * (j : Int)).toNat = s.toNat + j := by omega
      rw [h2]
      have : s.toNat ≤ s.toNat + j ∧ s.toNat + j < e.toNat := by omega
      simp only [this, and_self, ↓reduceIte, Nat.add_sub_cancel_left]
    · intro q hq
      simp only
      rw [hbit]
      have : ¬ (s.toNat ≤ q ∧ q < e.toNat) := by
        intro hqq
        apply hq
        rw [mem_range_iff]
        refine ⟨q - s.toNat, ?_, ?_⟩
        · rw [rangeLen_one (Int.le_of_lt hes)]; omega
        · omega
      simp only [this, ↓reduceIte]
  · rw [if_neg hf] at hr
    obtain ⟨hlen, hw, hsz, hq⟩ := setList_spec b hb _ v r hr
    refine ⟨hw, hsz, ?_, ?_⟩
    · intro j hj
      rw [hq]
      have hj' : j < rangeLen s e st := by simpa using hj
      have hbnd := range_in_bounds h hj'
      have hjx : j < v.toBitList.length := by rw [toBitList_length]; omega
      rw [writes_sel b.size _ _ _ j hj hjx ((Py.range s e st)[j]).toNat]
      · rw [toBitList_getElem]; cases v.ival.testBit j <;> simp
      · apply normIndex_of_bounds
        · rw [range_getElem]; exact hbnd.1
        · rw [range_getElem]; exact hbnd.2
      · intro t' ht' hlt _ heq
        have ht'' : t' < rangeLen s e st := by simpa using ht'
        have hbnd' := range_in_bounds h ht''
        rw [normIndex_of_bounds (by rw [range_getElem]; exact hbnd'.1) (by rw [range_getElem]; exact hbnd'.2)] at heq
        injection heq with heq
        rw [range_getElem, range_getElem] at heq
        have := range_inj h0 (s := s) (j := t') (j' := j) (by omega)
        omega
    · intro q hqn
      rw [hq]
      apply writes_frame
      intro x hx hnx
      obtain ⟨j, hj, rfl⟩ := (mem_range_iff _ _ _ _).1 hx
      have hbnd := range_in_bounds h hj
      rw [normIndex_of_bounds hbnd.1 hbnd.2] at hnx
      injection hnx with hnx
      apply hqn
      rw [mem_range_iff]
      exact ⟨j, hj, by omega⟩

end Proofs.Lemmas.Bits
