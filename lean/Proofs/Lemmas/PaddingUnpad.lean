/-
  Helper lemmas for C09: `remove` applied to what a padded call emitted gives the message back.
-/
import Proofs.Lemmas.PaddingStrip
namespace Proofs.Lemmas.Padding
open Model Model.Py Model.Padder Spec.Padding

/-- the emitted bytes as a bit string: the message bits followed by the model's pad bits (any starting counter) -/
theorem concat_bits (p : Padder) (hv : Valid p) (st : PadState) (m : List Nat) (hm : Bytes m) (L : Option Nat)
    (hL : effLen m L ≤ 8 * m.length) :
    m.take (kOf p m L * p.blocklen) ++ tailBytes p st m L
      = bitsToBytes (takeBits (effLen m L) m ++ modelTail p (st.bitcnt + kOf p m L * p.blocksize) (rOf p m L)) := by
  rw [takeBits_split p hv m _ hL, List.append_assoc, bitsToBytes_bytesToBits_append _ (Bytes_take hm _)]
  rfl

theorem ok_of_okOf {α} (x : Except Err α) (a : α) (h : okOf x = some a) : x = .ok a := by
  cases x with
  | ok b => simp only [okOf, Option.some.injEq] at h; rw [h]
  | error e => simp [okOf] at h

/-- **unpad inverts pad**: `remove`, on the object the padded call left behind, applied to the concatenation of
    the emitted blocks returns the first L bits of the message as bytes (last partial byte zero-filled) -/
theorem remove_run (p : Padder) (hv : Valid p) (st : PadState) (hflag : st.padflag = false) (m : List Nat)
    (hm : Bytes m) (L : Option Nat) (hL : effLen m L ≤ 8 * m.length) (hbg : L ≠ none → BitGranular p.scheme) :
    p.remove (p.iterblocks st m L true).final (((p.iterblocks st m L true).yields.map (·.1)).flatten)
      = .ok (msgBytes m (effLen m L)) := by
  obtain ⟨_, h2, _, _, _, _, _, h8, _⟩ := run_facts p hv st hflag m hm L hL hbg
  obtain ⟨e, h1, hrB, h3, h4, h5, h6⟩ := piece_facts p hv m _ hL
  have hB := hv.size_eq; have hpos := hv.pos; have hw := hv.scheme_ok
  rw [h2, concat_bits p hv st m hm L hL]
  generalize hfin : (p.iterblocks st m L true).final = fin at h8 ⊢
  have hXlen : (takeBits (effLen m L) m).length = kOf p m L * p.blocksize + rOf p m L := by
    simp only [takeBits, List.length_take, bytesToBits_length, kOf, rOf]; omega
  have hr : rOf p m L ≤ p.blocksize := hrB
  have hnone : ¬ BitGranular p.scheme → L = none := by
    intro hb
    cases L with
    | none => rfl
    | some a => exact absurd (hbg (by simp)) hb
  have hbyte : ¬ BitGranular p.scheme → rOf p m L % 8 = 0 := by
    intro hb
    have := hnone hb; subst this
    have := h6 rfl
    simp only [rOf, kOf]; omega
  have hposr : 0 < kOf p m L * p.blocksize + rOf p m L → 0 < rOf p m L := by
    intro h; simp only [kOf, rOf] at h ⊢; omega
  unfold msgBytes
  generalize hX : takeBits (effLen m L) m = X at hXlen ⊢
  generalize hk : kOf p m L = k at *
  generalize hrr : rOf p m L = r at *
  have hk1 : (k + 1) * p.blocksize = k * p.blocksize + p.blocksize := Nat.succ_mul _ _
  have hk2 : (k + 2) * p.blocksize = k * p.blocksize + 2 * p.blocksize := by rw [Nat.add_mul]
  cases hs : p.scheme with
  | no => simp [Padder.remove, hs, modelTail]
  | null =>
    simp only [modelTail, hs]
    apply remove_null_W p hv hs fin X (p.blocksize - r) (k + 1) (by omega)
    · rw [hk1]; simp only [List.length_append, hXlen, zeros, List.length_replicate]; omega
    · omega
    · rw [h8]; simp [tailPadcnt, hs, modelTail, zeros]
  | bit =>
    simp only [modelTail, hs]
    by_cases hq : p.blocksize - r = 0
    · simp only [hq, if_true]
      apply remove_bit_W p hv hs fin X (p.blocksize - 1) (k + 2) (by omega)
      · rw [hk2]; simp only [List.length_append, List.length_cons, hXlen, zeros, List.length_replicate]; omega
      · omega
    · simp only [hq, if_false]
      apply remove_bit_W p hv hs fin X (p.blocksize - r - 1) (k + 1) (by omega)
      · rw [hk1]; simp only [List.length_append, List.length_cons, hXlen, zeros, List.length_replicate]; omega
      · omega
  | pkcs7 =>
    have hL0 := hnone (by simp [hs, BitGranular]); subst hL0
    have hX' : X = bytesToBits m := by rw [← hX]; exact List.take_of_length_le (by simp [effLen])
    have hsp := spec_pad_eq p hv X k r hXlen hr (by rw [hXlen]; exact hposr)
      (fun _ => ⟨m, hm, hX'⟩)
    have hbl : p.blocklen < 256 := by rw [hs] at hw; exact hw
    have hmt : modelTail p (st.bitcnt + k * p.blocksize) r = modelTail p (k * p.blocksize) r := by
      simp [modelTail, hs]
    rw [hmt, ← hsp]
    have hpb := padBytes_pkcs7 p.blocksize m hm hbl hv.blocklen_pos
    have hbl8 : p.blocksize / 8 = p.blocklen := rfl
    simp only [padBytes, takeBits, hbl8] at hpb
    have hXm : X = (bytesToBits m).take (8 * m.length) := by rw [hX']; exact (List.take_of_length_le (by simp)).symm
    rw [hs] ; simp only [specOf]
    rw [hXm, hpb]
    apply ok_of_okOf
    rw [remove_pkcs7 p hs, pkcs7Unpad_pad _ hv.blocklen_pos, ← hXm, hX', bitsToBytes_bytesToBits m hm]
  | x923 =>
    have hL0 := hnone (by simp [hs, BitGranular]); subst hL0
    have hX' : X = bytesToBits m := by rw [← hX]; exact List.take_of_length_le (by simp [effLen])
    have hsp := spec_pad_eq p hv X k r hXlen hr (by rw [hXlen]; exact hposr)
      (fun _ => ⟨m, hm, hX'⟩)
    have hbl : p.blocklen < 256 := by rw [hs] at hw; exact hw
    have hmt : modelTail p (st.bitcnt + k * p.blocksize) r = modelTail p (k * p.blocksize) r := by
      simp [modelTail, hs]
    rw [hmt, ← hsp]
    have hpb := padBytes_x923 p.blocksize m hm hbl hv.blocklen_pos
    have hbl8 : p.blocksize / 8 = p.blocklen := rfl
    simp only [padBytes, takeBits, hbl8] at hpb
    have hXm : X = (bytesToBits m).take (8 * m.length) := by rw [hX']; exact (List.take_of_length_le (by simp)).symm
    rw [hs] ; simp only [specOf]
    rw [hXm, hpb]
    apply ok_of_okOf
    rw [remove_x923 p hs, x923Unpad_pad _ hv.blocklen_pos, ← hXm, hX', bitsToBytes_bytesToBits m hm]
  | md w =>
    rw [hs] at hw; simp only at hw
    have ht := mdN_total p.blocksize 1 (2 * w) r (by omega) hr
    simp only [modelTail, hs]
    rw [← List.append_assoc]
    apply remove_md_W p w (Or.inl hs) hw.1 fin X _ _ _ (by simp)
    simp only [List.length_append, List.length_cons, hXlen, zeros, List.length_replicate]
    have : k * p.blocksize = 8 * (k * p.blocklen) := by rw [hB, Nat.mul_left_comm]
    omega
  | sha w =>
    rw [hs] at hw; simp only at hw
    have ht := mdN_total p.blocksize 1 (2 * w) r (by omega) hr
    simp only [modelTail, hs]
    rw [← List.append_assoc]
    apply remove_md_W p w (Or.inr hs) hw.1 fin X _ _ _ (by simp)
    simp only [List.length_append, List.length_cons, hXlen, zeros, List.length_replicate]
    have : k * p.blocksize = 8 * (k * p.blocklen) := by rw [hB, Nat.mul_left_comm]
    omega
  | blake h =>
    rw [hs] at hw; simp only at hw
    have hW : 2 + 2 * Padder.blakeW h ≤ p.blocksize ∧ Padder.blakeW h % 4 = 0 := by
      by_cases hb : h > 256
      · have e1 : Padder.blakeW h = 64 := by simp [Padder.blakeW, hb]
        have e2 : p.blocksize = 1024 := by simp [hw, hb]
        omega
      · have e1 : Padder.blakeW h = 32 := by simp [Padder.blakeW, hb]
        have e2 : p.blocksize = 512 := by simp [hw, hb]
        omega
    have ht := mdN_total p.blocksize 2 (2 * Padder.blakeW h) r (by omega) hr
    simp only [modelTail, hs]
    rw [← List.append_assoc, ← List.append_assoc]
    apply remove_blake_W p h hs fin X _ _ (by
      simp only [List.length_append, List.length_cons, hXlen, zeros, List.length_replicate, List.length_nil]
      have : k * p.blocksize = 8 * (k * p.blocklen) := by rw [hB, Nat.mul_left_comm]
      omega) (by simp)

end Proofs.Lemmas.Padding
