/-
  Helper lemmas for C07: `load` under every bit order, `toBytes`, `pack`, `unpack`, `toInt`.
-/
import Model.Bits
import Proofs.Lemmas.BitsBasic
import Proofs.Lemmas.BitsOps
import Proofs.Lemmas.Bytes
namespace Proofs.Lemmas.Bits
open Model Model.Bits Model.Py Proofs.Lemmas.Bytes

/-! ### `reverse_byte`: kernel enumeration of the complete byte domain -/

def reverseByteChk : Bool :=
  (List.range 256).all fun b => decide (reverseByte b < 256) &&
    (List.range 8).all fun j => (reverseByte b).testBit j == b.testBit (7 - j)

theorem reverseByteChk_true : reverseByteChk = true := by decide +kernel

theorem reverseByte_lt (b : Nat) (hb : b < 256) : reverseByte b < 256 := by
  have h := reverseByteChk_true
  unfold reverseByteChk at h
  rw [List.all_eq_true] at h
  have := h b (List.mem_range.2 hb)
  simp only [Bool.and_eq_true, decide_eq_true_eq] at this
  exact this.1

theorem reverseByte_testBit (b : Nat) (hb : b < 256) (j : Nat) (hj : j < 8) :
    (reverseByte b).testBit j = b.testBit (7 - j) := by
  have h := reverseByteChk_true
  unfold reverseByteChk at h
  rw [List.all_eq_true] at h
  have := h b (List.mem_range.2 hb)
  simp only [Bool.and_eq_true, decide_eq_true_eq, List.all_eq_true, beq_iff_eq] at this
  exact this.2 j (List.mem_range.2 hj)

/-! ### `load` -/

theorem groupVal_foldl (f : Nat → Nat) (e : List Nat) (hf : ∀ b ∈ e, f b < 256) (acc : Nat) :
    e.foldl (fun x b => (x <<< 8) ||| f b) acc = (e.map f).foldl (fun acc b => acc * 256 + b) acc := by
  induction e generalizing acc with
  | nil => rfl
  | cons b bs ih =>
    simp only [List.foldl_cons, List.map_cons]
    have hb : f b < 2 ^ 8 := by simpa using hf b List.mem_cons_self
    rw [← Nat.shiftLeft_add_eq_or_of_lt hb, Nat.shiftLeft_eq]
    exact ih (fun b hb => hf b (List.mem_cons_of_mem _ hb)) _

theorem groupVal_eq (f : Nat → Nat) (e : List Nat) (hf : ∀ b ∈ e, f b < 256) : groupVal f e = beInt (e.map f) := by
  unfold groupVal beInt; exact groupVal_foldl f e hf 0

/-- the per-byte map of `load` keeps byte values -/
def ByteMap (f : Nat → Nat) : Prop := ∀ b, b < 256 → f b < 256

theorem groupVal_lt (f : Nat → Nat) (hf : ByteMap f) (e : List Nat) (he : AllBytes e) : groupVal f e < 2 ^ (8 * e.length) := by
  rw [groupVal_eq f e (fun b hb => hf b (he b hb))]
  have : AllBytes (e.map f) := by
    intro x hx; obtain ⟨b, hb, rfl⟩ := List.mem_map.1 hx; exact hf b (he b hb)
  simpa using beInt_lt _ this

theorem groupVal_testBit (f : Nat → Nat) (hf : ByteMap f) (e : List Nat) (he : AllBytes e) (u j : Nat)
    (hu : u < e.length) (hj : j < 8) :
    (groupVal f e).testBit (8 * u + j) = (f (e.getD (e.length - 1 - u) 0)).testBit j := by
  rw [groupVal_eq f e (fun b hb => hf b (he b hb))]
  have : AllBytes (e.map f) := by
    intro x hx; obtain ⟨b, hb, rfl⟩ := List.mem_map.1 hx; exact hf b (he b hb)
  rw [beInt_testBit _ this u j hj]
  have h1 : u < (e.map f).reverse.length := by simpa using hu
  rw [← List.getElem_eq_getD (h := h1), List.getElem_reverse, List.getElem_map]
  have h2 : e.length - 1 - u < e.length := by omega
  rw [← List.getElem_eq_getD (h := h2)]
  simp

theorem dvd_bound {k n g u : Nat} (hd : k ∣ n) (h : k * g + u < n) : k * (g + 1) ≤ n := by
  obtain ⟨c, rfl⟩ := hd
  have h1 : k * g < k * c := by omega
  have h2 : g < c := Nat.lt_of_mul_lt_mul_left h1
  exact Nat.mul_le_mul_left k h2

/-- the value `load` builds from the groups: bounded by 2^(8|l|), and byte `t` of group `g` (a big-endian group of `k`
    bytes, groups in little-endian order) lands at byte position `k·g + (k-1-t)` -/
theorem groupsVal_chunks (f : Nat → Nat) (hf : ByteMap f) (k : Nat) (hk : 0 < k) (fuel : Nat) (l : List Nat)
    (hfuel : l.length ≤ fuel) (hdvd : k ∣ l.length) (hl : AllBytes l) :
    groupsVal f k (chunks.go k l fuel) < 2 ^ (8 * l.length) ∧
    ∀ g u j, u < k → j < 8 → k * g + u < l.length →
      (groupsVal f k (chunks.go k l fuel)).testBit (8 * (k * g + u) + j) = (f (l.getD (k * g + (k - 1 - u)) 0)).testBit j := by
  have main := chunks_go_induction k hk
    (fun (l : List Nat) cs => AllBytes l →
      groupsVal f k cs < 2 ^ (8 * l.length) ∧
      ∀ g u j, u < k → j < 8 → k * g + u < l.length →
        (groupsVal f k cs).testBit (8 * (k * g + u) + j) = (f (l.getD (k * g + (k - 1 - u)) 0)).testBit j)
    (by intro _; exact ⟨by simp [groupsVal], fun g u j _ _ h => by simp at h⟩)
    (by
      intro l hne hd cs ih hl
      have hpos : 0 < l.length := List.length_pos_iff.2 hne
      have hkl : k ≤ l.length := Nat.le_of_dvd hpos hd
      obtain ⟨ihb, ihbit⟩ := ih (hl.drop k)
      have htl : (l.take k).length = k := by simp [List.length_take]; omega
      have hG := groupVal_lt f hf (l.take k) (hl.take k)
      rw [htl] at hG
      simp only [List.length_drop] at ihb ihbit
      simp only [groupsVal]
      refine ⟨?_, ?_⟩
      · apply Nat.or_lt_two_pow
        · rw [Nat.shiftLeft_eq]
          have e : 2 ^ (8 * l.length) = 2 ^ (8 * (l.length - k)) * 2 ^ (8 * k) := by
            rw [← Nat.pow_add]; congr 1; omega
          rw [e]
          exact Nat.mul_lt_mul_of_pos_right ihb (Nat.two_pow_pos _)
        · exact Nat.lt_of_lt_of_le hG (Nat.pow_le_pow_right (by omega) (by omega))
      · intro g u j hu hj hlt
        rw [Nat.testBit_or, Nat.testBit_shiftLeft]
        cases g with
        | zero =>
          have h1 : ¬ (8 * (k * 0 + u) + j ≥ 8 * k) := by omega
          simp only [h1, decide_false, Bool.false_and, Bool.false_or]
          have e : 8 * (k * 0 + u) + j = 8 * u + j := by simp
          rw [e, groupVal_testBit f hf _ (hl.take k) u j (by omega) hj, htl]
          congr 2
          have h2 : k - 1 - u < (l.take k).length := by omega
          have h3 : k * 0 + (k - 1 - u) < l.length := by omega
          rw [← List.getElem_eq_getD (h := h2), ← List.getElem_eq_getD (h := h3), List.getElem_take]
          congr 1; omega
        | succ g =>
          have e0 : k * (g + 1) = k * g + k := Nat.mul_succ k g
          have h1 : 8 * (k * (g + 1) + u) + j ≥ 8 * k := by omega
          have h2 : (groupVal f (l.take k)).testBit (8 * (k * (g + 1) + u) + j) = false :=
            testBit_of_lt hG h1
          simp only [h1, decide_true, Bool.true_and, h2, Bool.or_false]
          have e : 8 * (k * (g + 1) + u) + j - 8 * k = 8 * (k * g + u) + j := by omega
          have hlt' : k * g + k + u < l.length := by rw [← e0]; exact hlt
          have h5 : k * g + u < l.length - k := by omega
          have h6 : k * (g + 1 + 1) ≤ l.length := dvd_bound hd hlt
          have e6 : k * (g + 1 + 1) = k * g + k + k := by rw [Nat.mul_succ, e0]
          rw [e, ihbit g u j hu hj h5]
          congr 2
          have h3 : k * g + (k - 1 - u) < (l.drop k).length := by simp only [List.length_drop]; omega
          have h4 : k * (g + 1) + (k - 1 - u) < l.length := by omega
          rw [← List.getElem_eq_getD (h := h3), ← List.getElem_eq_getD (h := h4), List.getElem_drop]
          congr 1; omega)
    fuel l hfuel hdvd
  exact main hl

/-- the group size `load` uses -/
def loadK (s : List Nat) (bitorder : Int) : Nat :=
  if bitorder = 0 then (if s.length = 0 then 1 else s.length) else bitorder.natAbs

theorem loadK_pos (s : List Nat) (bo : Int) : 0 < loadK s bo := by
  unfold loadK; split
  · split <;> omega
  · omega

theorem load_eq (s : List Nat) (bo : Int) :
    load s bo = if s.length % loadK s bo ≠ 0 then .error "ValueError:v length must be a multiple of bitorder"
      else .ok ⟨groupsVal (if bo < 0 then reverseByte else id) (loadK s bo) (chunks (loadK s bo) s), 8 * s.length⟩ := rfl

theorem byteMap_id : ByteMap id := fun _ h => h
theorem byteMap_reverseByte : ByteMap reverseByte := reverseByte_lt

theorem load_spec (s : List Nat) (hs : AllBytes s) (bo : Int) (hd : loadK s bo ∣ s.length) :
    ∃ r, load s bo = .ok r ∧ r.size = 8 * s.length ∧ r.WF ∧
      ∀ g u j, u < loadK s bo → j < 8 → loadK s bo * g + u < s.length →
        r.ival.testBit (8 * (loadK s bo * g + u) + j) =
          ((if bo < 0 then reverseByte else id) (s.getD (loadK s bo * g + (loadK s bo - 1 - u)) 0)).testBit j := by
  have hk := loadK_pos s bo
  have hf : ByteMap (if bo < 0 then reverseByte else id) := by
    split
    · exact byteMap_reverseByte
    · exact byteMap_id
  have hmod : ¬ (s.length % loadK s bo ≠ 0) := by
    have := Nat.mod_eq_zero_of_dvd hd; omega
  rw [load_eq, if_neg hmod, chunks_eq _ hk]
  obtain ⟨hb, hbit⟩ := groupsVal_chunks _ hf (loadK s bo) hk s.length s (Nat.le_refl _) hd hs
  exact ⟨_, rfl, rfl, hb, hbit⟩

/-- every position is `8·(q/8) + q%8` -/
theorem pos_split (q : Nat) : q = 8 * (q / 8) + q % 8 := by omega

theorem load_le_eq (s : List Nat) (hs : AllBytes s) : load s 1 = .ok ⟨leInt s, 8 * s.length⟩ := by
  have hk : loadK s 1 = 1 := by simp [loadK]
  obtain ⟨r, h1, h2, h3, h4⟩ := load_spec s hs 1 (by rw [hk]; exact Nat.one_dvd _)
  rw [h1]
  congr 1
  apply eq_of_size_ival h2
  apply Nat.eq_of_testBit_eq
  intro q
  rw [pos_split q]
  have hj : q % 8 < 8 := Nat.mod_lt _ (by omega)
  show r.ival.testBit _ = (leInt s).testBit _
  rw [leInt_testBit s hs _ _ hj]
  by_cases hq : q / 8 < s.length
  · have := h4 (q / 8) 0 (q % 8) (by rw [hk]; omega) hj (by rw [hk]; omega)
    simp only [hk, Nat.one_mul, Nat.add_zero, Nat.sub_self] at this
    rw [this]
    simp
  · have hge : 8 * s.length ≤ 8 * (q / 8) + q % 8 := by omega
    rw [wf_testBit h3 (by rw [h2]; exact hge)]
    rw [List.getD_eq_getElem?_getD, List.getElem?_eq_none (by omega)]
    simp

theorem load_be_eq (s : List Nat) (hs : AllBytes s) : load s 0 = .ok ⟨beInt s, 8 * s.length⟩ := by
  by_cases h0 : s.length = 0
  · have : s = [] := List.eq_nil_of_length_eq_zero h0
    subst this; rfl
  · have hk : loadK s 0 = s.length := by simp [loadK, h0]
    obtain ⟨r, h1, h2, h3, h4⟩ := load_spec s hs 0 (by rw [hk]; exact Nat.dvd_refl _)
    rw [h1]
    congr 1
    apply eq_of_size_ival h2
    apply Nat.eq_of_testBit_eq
    intro q
    rw [pos_split q]
    have hj : q % 8 < 8 := Nat.mod_lt _ (by omega)
    show r.ival.testBit _ = (beInt s).testBit _
    rw [beInt_testBit s hs _ _ hj]
    by_cases hq : q / 8 < s.length
    · have := h4 0 (q / 8) (q % 8) (by rw [hk]; omega) hj (by rw [hk]; omega)
      simp only [hk, Nat.mul_zero, Nat.zero_add] at this
      rw [this]
      simp only [Int.lt_irrefl, ↓reduceIte, id]
      have h5 : q / 8 < s.reverse.length := by simpa using hq
      have h6 : s.length - 1 - q / 8 < s.length := by omega
      rw [← List.getElem_eq_getD (h := h5), ← List.getElem_eq_getD (h := h6), List.getElem_reverse]
    · have hge : 8 * s.length ≤ 8 * (q / 8) + q % 8 := by omega
      rw [wf_testBit h3 (by rw [h2]; exact hge)]
      rw [List.getD_eq_getElem?_getD, List.getElem?_eq_none (by simp; omega)]
      simp

theorem load_error_iff' (s : List Nat) (bo : Int) :
    (∃ e, load s bo = .error e) ↔ ¬ (loadK s bo ∣ s.length) := by
  rw [load_eq]
  constructor
  · rintro ⟨e, h⟩
    split at h
    · rename_i hm
      intro hd; exact hm (Nat.mod_eq_zero_of_dvd hd)
    · cases h
  · intro hnd
    have : s.length % loadK s bo ≠ 0 := fun h => hnd (Nat.dvd_of_mod_eq_zero h)
    rw [if_pos this]; exact ⟨_, rfl⟩

/-! ### `toBytes` (bitstream) -/

@[simp] theorem toBytes_length (b : Bits) : b.toBytes.length = (b.size + 7) / 8 := by simp [toBytes]

theorem toBytes_getElem (b : Bits) (k : Nat) (h : k < b.toBytes.length) :
    b.toBytes[k] = reverseByte ((b.ival % 2 ^ b.size) / 2 ^ (8 * k) % 256) := by
  simp only [toBytes, List.getElem_map, List.getElem_range, and_mask, Nat.shiftRight_eq_div_pow]
  congr 1
  exact Nat.and_two_pow_sub_one_eq_mod _ 8

theorem toBytes_allBytes (b : Bits) : AllBytes b.toBytes := by
  intro x hx
  obtain ⟨k, hk, rfl⟩ := List.mem_iff_getElem.1 hx
  rw [toBytes_getElem]
  exact reverseByte_lt _ (Nat.mod_lt _ (by omega))

/-- byte k of the bitstream holds bits 8k..8k+7 of the vector, first bit in the most significant position,
    zero fill beyond the size -/
theorem toBytes_testBit (b : Bits) (k : Nat) (h : k < b.toBytes.length) (j : Nat) (hj : j < 8) :
    b.toBytes[k].testBit (7 - j) = (decide (8 * k + j < b.size) && b.ival.testBit (8 * k + j)) := by
  rw [toBytes_getElem, reverseByte_testBit _ (Nat.mod_lt _ (by omega)) _ (by omega)]
  have e : 7 - (7 - j) = j := by omega
  rw [e]
  have : (256 : Nat) = 2 ^ 8 := by decide
  rw [this, Nat.testBit_mod_two_pow, Nat.testBit_div_two_pow, Nat.testBit_mod_two_pow]
  have e2 : j + 8 * k = 8 * k + j := by omega
  simp [hj, e2]

/-! ### `pack` -/

@[simp] theorem pack_length (b : Bits) (be : Bool) : (b.pack be).length = (b.size + 7) / 8 := by
  unfold pack; cases be <;> simp

theorem pack_le_eq (b : Bits) (hb : b.WF) : b.pack false = leBytes ((b.size + 7) / 8) b.ival := by
  apply List.ext_getElem (by simp)
  intro j h1 h2
  rw [leBytes_getElem]
  simp only [pack, Bool.false_eq_true, ↓reduceIte, List.getElem_map, List.getElem_range]
  have hj : j < (b.size + 7) / 8 := by simpa using h1
  have e255 : (255 : Nat) = 2 ^ 8 - 1 := by decide
  have e256 : (256 : Nat) = 2 ^ 8 := by decide
  rw [e255, Nat.and_two_pow_sub_one_eq_mod, e256, ← Nat.pow_mul]
  apply Nat.eq_of_testBit_eq
  intro t
  rw [Nat.testBit_mod_two_pow, Nat.testBit_mod_two_pow, sliceFast_testBit, Nat.testBit_div_two_pow]
  by_cases ht : t < 8
  · have e : t + 8 * j = j * 8 + t := by omega
    simp only [ht, decide_true, Bool.true_and, e]
    by_cases hlt : t < min (j * 8 + 8) b.size - j * 8
    · simp [hlt]
    · have : b.size ≤ j * 8 + t := by omega
      simp [hlt, wf_testBit hb this]
  · simp [ht]

theorem pack_be_eq (b : Bits) (hb : b.WF) : b.pack true = beBytes ((b.size + 7) / 8) b.ival := by
  have h := pack_le_eq b hb
  unfold pack at h ⊢
  unfold beBytes
  simp only [Bool.false_eq_true, ↓reduceIte] at h ⊢
  rw [h]

/-! ### `unpack`: the greedy Q/L/H/B decomposition reads the whole string as ONE integer -/

/-- one little-endian stage consumes `l` (a multiple of q bytes) on top of the `i` bits already read -/
theorem unpackStage_le (q : Nat) (hq : 0 < q) (fuel : Nat) (l : List Nat) (hfuel : l.length ≤ fuel)
    (hd : q ∣ l.length) (hl : AllBytes l) (b i : Nat) (hb : b < 2 ^ i) :
    (chunks.go q l fuel).foldl (fun (st : Nat × Nat) g =>
        let (b, i) := st
        if false then ((b <<< (8 * q)) ||| beInt g, i + 8 * q) else (b ||| (leInt g <<< i), i + 8 * q)) (b, i)
      = (b + 2 ^ i * leInt l, i + 8 * l.length) := by
  have main := chunks_go_induction q hq
    (fun (l : List Nat) cs => AllBytes l → ∀ b i, b < 2 ^ i →
      cs.foldl (fun (st : Nat × Nat) g =>
        let (b, i) := st
        if false then ((b <<< (8 * q)) ||| beInt g, i + 8 * q) else (b ||| (leInt g <<< i), i + 8 * q)) (b, i)
      = (b + 2 ^ i * leInt l, i + 8 * l.length))
    (by intro _ b i _; simp [leInt])
    (by
      intro l hne hd cs ih hl b i hb
      have hpos : 0 < l.length := List.length_pos_iff.2 hne
      have hkl : q ≤ l.length := Nat.le_of_dvd hpos hd
      have htl : (l.take q).length = q := by simp [List.length_take]; omega
      simp only [List.foldl_cons, Bool.false_eq_true, ↓reduceIte]
      have hg := leInt_lt (l.take q) (hl.take q)
      rw [htl] at hg
      have e1 : b ||| (leInt (l.take q) <<< i) = b + 2 ^ i * leInt (l.take q) := by
        rw [Nat.or_comm, ← Nat.shiftLeft_add_eq_or_of_lt hb, Nat.shiftLeft_eq]; grind
      have hb' : b + 2 ^ i * leInt (l.take q) < 2 ^ (i + 8 * q) := by
        rw [Nat.pow_add]
        have : 2 ^ i * (leInt (l.take q) + 1) ≤ 2 ^ i * 2 ^ (8 * q) := Nat.mul_le_mul_left _ hg
        rw [Nat.mul_add, Nat.mul_one] at this
        omega
      rw [e1]
      have ih' := ih (hl.drop q) _ _ hb'
      simp only [Bool.false_eq_true, ↓reduceIte] at ih'
      rw [ih']
      have e2 : leInt l = leInt (l.take q) + 256 ^ q * leInt (l.drop q) := by
        conv => lhs; rw [← List.take_append_drop q l]
        rw [leInt_append, htl]
      have e3 : (256 : Nat) ^ q = 2 ^ (8 * q) := by
        have : (256 : Nat) = 2 ^ 8 := by decide
        rw [this, ← Nat.pow_mul]
      simp only [List.length_drop, e2, e3, Nat.pow_add]
      refine Prod.ext ?_ ?_
      · simp only; grind
      · simp only; omega)
    fuel l hfuel hd
  exact main hl b i hb

/-- one big-endian stage appends `l` (a multiple of q bytes) below what has been read -/
theorem unpackStage_be (q : Nat) (hq : 0 < q) (fuel : Nat) (l : List Nat) (hfuel : l.length ≤ fuel)
    (hd : q ∣ l.length) (hl : AllBytes l) (b i : Nat) :
    (chunks.go q l fuel).foldl (fun (st : Nat × Nat) g =>
        let (b, i) := st
        if true then ((b <<< (8 * q)) ||| beInt g, i + 8 * q) else (b ||| (leInt g <<< i), i + 8 * q)) (b, i)
      = (b * 256 ^ l.length + beInt l, i + 8 * l.length) := by
  have main := chunks_go_induction q hq
    (fun (l : List Nat) cs => AllBytes l → ∀ b i,
      cs.foldl (fun (st : Nat × Nat) g =>
        let (b, i) := st
        if true then ((b <<< (8 * q)) ||| beInt g, i + 8 * q) else (b ||| (leInt g <<< i), i + 8 * q)) (b, i)
      = (b * 256 ^ l.length + beInt l, i + 8 * l.length))
    (by intro _ b i; simp [beInt])
    (by
      intro l hne hd cs ih hl b i
      have hpos : 0 < l.length := List.length_pos_iff.2 hne
      have hkl : q ≤ l.length := Nat.le_of_dvd hpos hd
      have htl : (l.take q).length = q := by simp [List.length_take]; omega
      simp only [List.foldl_cons, ↓reduceIte]
      have hg := beInt_lt (l.take q) (hl.take q)
      rw [htl] at hg
      have e1 : (b <<< (8 * q)) ||| beInt (l.take q) = b * 256 ^ q + beInt (l.take q) := by
        rw [← Nat.shiftLeft_add_eq_or_of_lt hg, Nat.shiftLeft_eq]
        have : (256 : Nat) = 2 ^ 8 := by decide
        rw [this, ← Nat.pow_mul]
      rw [e1]
      have ih' := ih (hl.drop q) (b * 256 ^ q + beInt (l.take q)) (i + 8 * q)
      simp only [↓reduceIte] at ih'
      rw [ih']
      have e2 : beInt l = beInt (l.take q) * 256 ^ (l.drop q).length + beInt (l.drop q) := by
        conv => lhs; rw [← List.take_append_drop q l]
        rw [beInt_append]
      have e3 : (256 : Nat) ^ l.length = 256 ^ q * 256 ^ (l.length - q) := by
        rw [← Nat.pow_add]; congr 1; omega
      simp only [List.length_drop] at e2 ⊢
      rw [e2, e3]
      refine Prod.ext ?_ ?_
      · simp only; grind
      · simp only; omega)
    fuel l hfuel hd
  exact main hl b i

/-- one `(q,f)` iteration of `unpack`'s loop: consume the largest multiple of q bytes -/
def unpackStep (bigend : Bool) (st : (Nat × Nat) × List Nat) (q : Nat) : (Nat × Nat) × List Nat :=
  (unpackStage bigend q st.1 (st.2.take (st.2.length / q * q)), st.2.drop (st.2.length / q * q))

theorem unpack_eq (istr : List Nat) (be : Bool) :
    unpack istr be = (([8, 4, 2, 1].foldl (unpackStep be) ((0, 0), istr)).1.1, 8 * istr.length) := rfl

/-- invariant of the loop: what has been consumed so far has been read as one integer -/
def UnpackInv (val : List Nat → Nat) (istr : List Nat) (st : (Nat × Nat) × List Nat) : Prop :=
  ∃ consumed, st.1 = (val consumed, 8 * consumed.length) ∧ consumed ++ st.2 = istr

theorem unpackStep_le (istr : List Nat) (hs : AllBytes istr) (st : (Nat × Nat) × List Nat) (q : Nat) (hq : 0 < q)
    (h : UnpackInv leInt istr st) : UnpackInv leInt istr (unpackStep false st q) := by
  obtain ⟨consumed, h1, h2⟩ := h
  have hrest : AllBytes st.2 := by
    intro x hx; apply hs; rw [← h2]; exact List.mem_append_right _ hx
  have hcons : AllBytes consumed := by
    intro x hx; apply hs; rw [← h2]; exact List.mem_append_left _ hx
  refine ⟨consumed ++ st.2.take (st.2.length / q * q), ?_, ?_⟩
  · simp only [unpackStep, unpackStage, h1]
    have hlen : (st.2.take (st.2.length / q * q)).length = st.2.length / q * q := by
      simp only [List.length_take]; exact Nat.min_eq_left (Nat.div_mul_le_self _ _)
    rw [chunks_eq q hq]
    have := unpackStage_le q hq _ (st.2.take (st.2.length / q * q)) (Nat.le_refl _)
      (by rw [hlen]; exact Nat.dvd_mul_left _ _) (hrest.take _) (leInt consumed) (8 * consumed.length)
      (leInt_lt consumed hcons)
    simp only [Bool.false_eq_true, ↓reduceIte] at this ⊢
    rw [this, leInt_append]
    have e3 : (256 : Nat) ^ consumed.length = 2 ^ (8 * consumed.length) := by
      have : (256 : Nat) = 2 ^ 8 := by decide
      rw [this, ← Nat.pow_mul]
    rw [e3]
    simp only [List.length_append, Nat.mul_add]
  · simp only [unpackStep]
    rw [List.append_assoc, List.take_append_drop, h2]

theorem unpackStep_be (istr : List Nat) (hs : AllBytes istr) (st : (Nat × Nat) × List Nat) (q : Nat) (hq : 0 < q)
    (h : UnpackInv beInt istr st) : UnpackInv beInt istr (unpackStep true st q) := by
  obtain ⟨consumed, h1, h2⟩ := h
  have hrest : AllBytes st.2 := by
    intro x hx; apply hs; rw [← h2]; exact List.mem_append_right _ hx
  refine ⟨consumed ++ st.2.take (st.2.length / q * q), ?_, ?_⟩
  · simp only [unpackStep, unpackStage, h1]
    have hlen : (st.2.take (st.2.length / q * q)).length = st.2.length / q * q := by
      simp only [List.length_take]; exact Nat.min_eq_left (Nat.div_mul_le_self _ _)
    rw [chunks_eq q hq]
    have := unpackStage_be q hq _ (st.2.take (st.2.length / q * q)) (Nat.le_refl _)
      (by rw [hlen]; exact Nat.dvd_mul_left _ _) (hrest.take _) (beInt consumed) (8 * consumed.length)
    simp only [↓reduceIte] at this ⊢
    rw [this, beInt_append]
    simp only [List.length_append, Nat.mul_add]
  · simp only [unpackStep]
    rw [List.append_assoc, List.take_append_drop, h2]

theorem unpackStep_one_rest (be : Bool) (st : (Nat × Nat) × List Nat) : (unpackStep be st 1).2 = [] := by
  simp [unpackStep]

/-- `unpack(s)` reads the whole byte string as one little-endian integer — for EVERY byte count, i.e. every
    greedy Q/L/H/B decomposition -/
theorem unpack_le (s : List Nat) (hs : AllBytes s) : unpack s false = (leInt s, 8 * s.length) := by
  rw [unpack_eq]
  have h0 : UnpackInv leInt s ((0, 0), s) := ⟨[], by simp [leInt], by simp⟩
  have h8 := unpackStep_le s hs _ 8 (by omega) h0
  have h4 := unpackStep_le s hs _ 4 (by omega) h8
  have h2 := unpackStep_le s hs _ 2 (by omega) h4
  have h1 := unpackStep_le s hs _ 1 (by omega) h2
  simp only [List.foldl_cons, List.foldl_nil]
  obtain ⟨consumed, e1, e2⟩ := h1
  rw [unpackStep_one_rest, List.append_nil] at e2
  rw [e1, e2]

/-- ... and as one big-endian integer with `bigend=True` (after the `fix:`) -/
theorem unpack_be (s : List Nat) (hs : AllBytes s) : unpack s true = (beInt s, 8 * s.length) := by
  rw [unpack_eq]
  have h0 : UnpackInv beInt s ((0, 0), s) := ⟨[], by simp [beInt], by simp⟩
  have h8 := unpackStep_be s hs _ 8 (by omega) h0
  have h4 := unpackStep_be s hs _ 4 (by omega) h8
  have h2 := unpackStep_be s hs _ 2 (by omega) h4
  have h1 := unpackStep_be s hs _ 1 (by omega) h2
  simp only [List.foldl_cons, List.foldl_nil]
  obtain ⟨consumed, e1, e2⟩ := h1
  rw [unpackStep_one_rest, List.append_nil] at e2
  rw [e1, e2]

end Proofs.Lemmas.Bits
