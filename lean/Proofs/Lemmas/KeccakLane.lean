/-
  Lemmas for C04, part 1: a w-bit `Bits` lane (Nat value + size) versus a `BitVec w` lane, and the 25-lane
  state list versus the state vector.
-/
import Model.Keccak
import Spec.Keccak
namespace Proofs.Lemmas.KeccakLane
open Model Model.Keccak

/-- the `Bits` object holding a `BitVec w` lane -/
def B {w} (v : BitVec w) : Bits := ⟨v.toNat, w⟩

/-- the model's lane list of a specification state -/
def toLanes {w} (A : Spec.Keccak.State w) : Lanes := A.toList.map B

theorem B_inj {w} {a b : BitVec w} (h : B a = B b) : a = b := by
  simp [B] at h; exact BitVec.eq_of_toNat_eq h

theorem xor_B {w} (a b : BitVec w) : (B a).xor (B b) = B (a ^^^ b) := by
  simp [B, Bits.xor, Bits.wsize]

theorem and_B {w} (a b : BitVec w) : (B a).and (B b) = B (a &&& b) := by
  simp [B, Bits.and, Bits.wsize]

theorem xor_mask {w x : Nat} (h : x < 2 ^ w) : x ^^^ (2 ^ w - 1) = 2 ^ w - 1 - x := by
  apply Nat.eq_of_testBit_eq
  intro i
  have : 2 ^ w - 1 - x = 2 ^ w - (x + 1) := by omega
  rw [this, Nat.testBit_xor, Nat.testBit_two_pow_sub_one, Nat.testBit_two_pow_sub_succ h]
  by_cases hi : i < w
  · simp [hi]
  · have : x.testBit i = false := Nat.testBit_lt_two_pow (Nat.lt_of_lt_of_le h (Nat.pow_le_pow_right (by omega) (by omega)))
    simp [hi, this]

theorem inv_B {w} (a : BitVec w) : (B a).inv = B (~~~ a) := by
  simp [B, Bits.inv, Bits.mask, BitVec.toNat_not, xor_mask a.isLt]

theorem rot_B {w} (a : BitVec w) (n : Nat) : rot (B a) n = B (a.rotateLeft n) := by
  simp only [rot, B, Bits.shl, Bits.shr, Bits.or, Bits.mask, Bits.wsize, BitVec.toNat_rotateLeft,
    Nat.and_two_pow_sub_one_eq_mod, Nat.lt_irrefl, if_false]
  congr 2
  exact Nat.mod_eq_of_lt (Nat.lt_of_le_of_lt (Nat.shiftRight_le _ _) a.isLt)

theorem vec25 {α} (A : Vector α 25) :
    A = #v[A[0],A[1],A[2],A[3],A[4],A[5],A[6],A[7],A[8],A[9],A[10],A[11],A[12],A[13],A[14],A[15],A[16],A[17],A[18],A[19],A[20],A[21],A[22],A[23],A[24]] := by
  apply Vector.ext
  intro i hi
  match i, hi with
  | 0, _ | 1, _ | 2, _ | 3, _ | 4, _ | 5, _ | 6, _ | 7, _ | 8, _ | 9, _ | 10, _ | 11, _ | 12, _
  | 13, _ | 14, _ | 15, _ | 16, _ | 17, _ | 18, _ | 19, _ | 20, _ | 21, _ | 22, _ | 23, _ | 24, _ => rfl
  | n+25, h => omega

theorem toLanes_length {w} (A : Spec.Keccak.State w) : (toLanes A).length = 25 := by simp [toLanes]

/-- θ -/
theorem theta_refines {w} (A : Spec.Keccak.State w) : theta (toLanes A) = toLanes (Spec.Keccak.theta A) := by
  rw [vec25 A]
  simp [toLanes, theta, thetaC, thetaD, Keccak.get, Keccak.put, xy25, Spec.Keccak.theta, Spec.Keccak.mkState, Spec.Keccak.lane,
    Vector.toList_ofFn, List.ofFn_succ, xor_B, rot_B]


/-- the offsets of the code are those of the walk modulo 64 (restated per lane from the table equality) -/
theorem offset_eq (htab : Gen.KeccakG.rhoOffsets = Spec.Keccak.rhoTable.map (· % 64)) :
    ∀ x < 5, ∀ y < 5, offset x y = Spec.Keccak.rhoOffset x y % 64 := by
  intro x hx y hy
  have h1 : x % 5 + 5 * (y % 5) = 5 * y + x := by omega
  have h2 : 5 * y + x < 25 := by omega
  have hlen : Spec.Keccak.rhoTable.length = 25 := by decide +kernel
  simp only [offset, Spec.Keccak.rhoOffset, htab, h1]
  rw [List.getD_eq_getElem?_getD, List.getD_eq_getElem?_getD, List.getElem?_map]
  rw [List.getElem?_eq_getElem (by omega)]
  simp

theorem rotl_congr {w} (h : w ∣ 64) (a : BitVec w) {k k' : Nat} (hk : k = k' % 64) :
    a.rotateLeft k = a.rotateLeft k' := by
  rw [← BitVec.rotateLeft_mod_eq_rotateLeft (r := k), ← BitVec.rotateLeft_mod_eq_rotateLeft (r := k'), hk,
    Nat.mod_mod_of_dvd _ h]

theorem rotl_rhoOffset {w} (htab : Gen.KeccakG.rhoOffsets = Spec.Keccak.rhoTable.map (· % 64)) (h : w ∣ 64)
    (a : BitVec w) (x y : Nat) (hx : x < 5) (hy : y < 5) :
    a.rotateLeft (Spec.Keccak.rhoOffset x y) = a.rotateLeft (offset x y) :=
  (rotl_congr h a (offset_eq htab x hx y hy)).symm

/-- ρ then π -/
theorem rhoPi_refines {w} (htab : Gen.KeccakG.rhoOffsets = Spec.Keccak.rhoTable.map (· % 64)) (h : w ∣ 64)
    (A : Spec.Keccak.State w) : rhoPi w (toLanes A) = toLanes (Spec.Keccak.pi (Spec.Keccak.rho A)) := by
  rw [vec25 A]
  simp [toLanes, rhoPi, Keccak.zero, Keccak.get, Keccak.put, xy25, Spec.Keccak.pi, Spec.Keccak.rho, Spec.Keccak.mkState,
    Spec.Keccak.lane, Vector.toList_ofFn, List.ofFn_succ, rot_B, rotl_rhoOffset htab h, List.replicate]

/-- χ (the 25 lanes of the target are all overwritten) -/
theorem chi_refines {w} (A0 A : Spec.Keccak.State w) :
    chi (toLanes A0) (toLanes A) = toLanes (Spec.Keccak.chi A) := by
  rw [vec25 A, vec25 A0]
  simp [toLanes, chi, Keccak.get, Keccak.put, xy25, Spec.Keccak.chi, Spec.Keccak.mkState, Spec.Keccak.lane,
    Vector.toList_ofFn, List.ofFn_succ, xor_B, and_B, inv_B]

/-- ι, given that the truncated constant of the code is the constant of the rule -/
theorem iota_refines {w} (A : Spec.Keccak.State w) (ir : Nat) (rci : Bits) (hrc : rci = B (Spec.Keccak.RC w ir)) :
    iota (toLanes A) rci = toLanes (Spec.Keccak.iota A ir) := by
  rw [vec25 A, hrc]
  simp [toLanes, iota, Keccak.get, Keccak.put, Spec.Keccak.iota, Spec.Keccak.mkState, Spec.Keccak.lane,
    Vector.toList_ofFn, List.ofFn_succ, xor_B]

/-- one round -/
theorem round_refines {w} (htab : Gen.KeccakG.rhoOffsets = Spec.Keccak.rhoTable.map (· % 64)) (h : w ∣ 64)
    (A : Spec.Keccak.State w) (ir : Nat) (rci : Bits) (hrc : rci = B (Spec.Keccak.RC w ir)) :
    round w (toLanes A) rci = toLanes (Spec.Keccak.rnd A ir) := by
  simp only [round, Spec.Keccak.rnd, theta_refines, rhoPi_refines htab h, chi_refines, iota_refines _ ir rci hrc]


/-- n rounds with the constants RC[0..n) -/
theorem rounds_refines {w} (htab : Gen.KeccakG.rhoOffsets = Spec.Keccak.rhoTable.map (· % 64)) (h : w ∣ 64)
    (hrc : ∀ i < 24, rcLane w i = B (Spec.Keccak.RC w i)) :
    ∀ n, n ≤ 24 → ∀ A : Spec.Keccak.State w,
      f w n (toLanes A) = toLanes ((List.range n).foldl (fun A i => Spec.Keccak.rnd A i) A) := by
  intro n
  induction n with
  | zero => intro _ A; simp [f]
  | succ n ih =>
    intro hn A
    have := ih (by omega) A
    simp only [f] at this
    simp only [f, List.range_succ, List.foldl_append, List.foldl_cons, List.foldl_nil, this]
    exact round_refines htab h _ n _ (hrc n (by omega))

/-- Keccak-f: the code's loop `for i in range(n)` with n = 12+2ℓ -/
theorem f_refines_aux {w} (htab : Gen.KeccakG.rhoOffsets = Spec.Keccak.rhoTable.map (· % 64)) (h : w ∣ 64)
    (hrc : ∀ i < 24, rcLane w i = B (Spec.Keccak.RC w i)) (hn : Spec.Keccak.nRounds w ≤ 24)
    (A : Spec.Keccak.State w) :
    f w (Spec.Keccak.nRounds w) (toLanes A) = toLanes (Spec.Keccak.keccakF w A) := by
  rw [rounds_refines htab h hrc _ hn A]
  simp [Spec.Keccak.keccakF, Spec.Keccak.keccakP, Spec.Keccak.nRounds]

theorem dvd64 {w} (hw : w ∈ [1, 2, 4, 8, 16, 32, 64]) : w ∣ 64 := by
  simp only [List.mem_cons, List.not_mem_nil, or_false] at hw
  rcases hw with rfl | rfl | rfl | rfl | rfl | rfl | rfl <;> decide

end Proofs.Lemmas.KeccakLane
