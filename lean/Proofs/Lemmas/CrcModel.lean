/-
  Proofs.Lemmas.CrcModel — Model.Crc (table construction and the forward loop over Model.Bits) refines the
  bit-serial register of Spec.Crc, for every polynomial of every width ≥ 8.  Core Lean only.
-/
import Model.Crc
import Spec.Crc
import Proofs.Lemmas.CrcLin
namespace Proofs.Lemmas.CrcModel
open Model Model.Crc Spec.Crc Proofs.Lemmas.CrcLin

theorem mask_and (x w : Nat) (h : x < 2 ^ w) : x &&& (2 ^ w - 1) = x := by
  rw [Nat.and_two_pow_sub_one_eq_mod, Nat.mod_eq_of_lt h]

theorem shr_lt (x k w : Nat) (h : x < 2 ^ w) : x >>> k < 2 ^ w := by
  rw [Nat.shiftRight_eq_div_pow]; exact Nat.lt_of_le_of_lt (Nat.div_le_self _ _) h

theorem lsb_ne_zero (c : Bits) : (lsb c ≠ 0) ↔ c.ival.testBit 0 = true := by
  unfold lsb
  rw [Nat.and_one_is_mod, Nat.testBit_zero]
  simp only [decide_eq_true_eq]
  omega

theorem wsize_self (a o : Bits) (h : a.size = o.size) : Bits.wsize a o = o.size := by
  unfold Bits.wsize; split <;> omega

/-- `c>>k` on a well-formed value -/
theorem shr_eq (c : Bits) (k : Nat) (h : c.WF) : c.shr k = ⟨c.ival >>> k, c.size⟩ := by
  unfold Bits.shr Bits.mask
  rw [mask_and _ _ (shr_lt _ _ _ h)]

theorem tableStep_eq (P c : Bits) (hc : c.WF) (hs : c.size = P.size) :
    tableStep P c = ⟨step P.ival c.ival, P.size⟩ := by
  unfold tableStep step
  rw [shr_eq c 1 hc]
  by_cases h : c.ival.testBit 0 = true
  · have h' : lsb c ≠ 0 := (lsb_ne_zero c).2 h
    rw [if_pos h', if_pos h]
    unfold Bits.xor
    rw [wsize_self P ⟨c.ival >>> 1, c.size⟩ hs.symm]
    simp [hs, Nat.xor_comm]
  · have h' : ¬ lsb c ≠ 0 := fun hh => h ((lsb_ne_zero c).1 hh)
    rw [if_neg h', if_neg h, hs]

theorem repeat_tableStep (P : Bits) (hP : P.WF) (n : Nat) (c : Bits) (hc : c.WF) (hs : c.size = P.size) :
    Nat.repeat (tableStep P) n c = ⟨steps P.ival n c.ival, P.size⟩ ∧ steps P.ival n c.ival < 2 ^ P.size := by
  induction n generalizing c with
  | zero =>
    refine ⟨?_, ?_⟩
    · simp only [Nat.repeat, steps]; cases c; simp_all
    · simpa [steps, Bits.WF, hs] using hc
  | succ n ih =>
    have hlt : steps P.ival n c.ival < 2 ^ P.size := (ih c hc hs).2
    rw [Nat.repeat, (ih c hc hs).1]
    have hstep := tableStep_eq P ⟨steps P.ival n c.ival, P.size⟩ hlt rfl
    rw [hstep]
    have e : steps P.ival (n + 1) c.ival = step P.ival (steps P.ival n c.ival) := by
      rw [steps_add]; rfl
    rw [e]
    exact ⟨rfl, step_lt _ _ _ hP hlt⟩

theorem two_pow_ge_256 (w : Nat) (hw : 8 ≤ w) : 256 ≤ 2 ^ w :=
  calc 256 = 2 ^ 8 := rfl
    _ ≤ 2 ^ w := Nat.pow_le_pow_right (by decide) hw

theorem tableEntry_eq (P : Bits) (hP : P.WF) (hw : 8 ≤ P.size) (n : Nat) (hn : n < 256) :
    tableEntry P n = ⟨steps P.ival 8 n, P.size⟩ ∧ steps P.ival 8 n < 2 ^ P.size := by
  have h256 := two_pow_ge_256 _ hw
  have hn' : n < 2 ^ P.size := by omega
  have hc : (Bits.ofNatSz n P.size) = ⟨n, P.size⟩ := by
    unfold Bits.ofNatSz; rw [Nat.mod_eq_of_lt hn']
  unfold tableEntry
  rw [hc]
  exact repeat_tableStep P hP 8 ⟨n, P.size⟩ hn' rfl

theorem lookup_crcTable (P : Bits) (n : Nat) (hn : n < 256) : lookup (crcTable P) n = .ok (tableEntry P n) := by
  unfold lookup crcTable
  rw [List.getElem?_map, List.getElem?_range hn]; rfl

/-- eight zero message bits -/
theorem foldl_zero_bits (P n : Nat) : (List.replicate 8 false).foldl (bitIn P) n = steps P 8 n := by
  have e : List.replicate 8 false = (List.range 8).map (Nat.testBit 0) := by decide
  rw [e, foldl_bits P 8 n 0 (by decide), Nat.xor_zero]

theorem and_ff (x : Nat) : x &&& 0xff = x % 2 ^ 8 := Nat.and_two_pow_sub_one_eq_mod x 8

/-- the forward loop over the generated table is the bit-serial register -/
theorem fwdLoop_eq (P : Bits) (hP : P.WF) (hw : 8 ≤ P.size) :
    ∀ (data : List Nat) (r : Nat), (∀ b ∈ data, b < 256) → r < 2 ^ P.size →
      fwdLoop (crcTable P) ⟨r, P.size⟩ data = .ok ⟨register P.ival r data, P.size⟩
        ∧ register P.ival r data < 2 ^ P.size := by
  intro data
  induction data with
  | nil => intro r _ hr; exact ⟨rfl, hr⟩
  | cons b bs ih =>
    intro r hd hr
    have hb : b < 256 := hd b (by simp)
    have h256 := two_pow_ge_256 _ hw
    have hx : r ^^^ b < 2 ^ P.size := Nat.xor_lt_two_pow hr (by omega)
    have hidx : (r ^^^ b) &&& 0xff < 256 := by rw [and_ff]; exact Nat.mod_lt _ (by decide)
    have hent := tableEntry_eq P hP hw _ hidx
    have hnext : steps P.ival 8 (r ^^^ b) < 2 ^ P.size := steps_lt _ _ _ _ hP hx
    have hstep : ((⟨r, P.size⟩ : Bits).shr 8).xor (tableEntry P ((r ^^^ b) &&& 0xff))
        = ⟨steps P.ival 8 (r ^^^ b), P.size⟩ := by
      rw [shr_eq ⟨r, P.size⟩ 8 hr, hent.1]
      have hws : ∀ (x y : Nat), Bits.wsize ⟨x, P.size⟩ ⟨y, P.size⟩ = P.size := by
        intro x y; simp [Bits.wsize]
      simp only [Bits.xor, hws]
      have : r >>> 8 = (r ^^^ b) >>> 8 := by
        rw [Nat.shiftRight_xor_distrib]
        have : b >>> 8 = 0 := by rw [Nat.shiftRight_eq_div_pow]; exact Nat.div_eq_of_lt hb
        rw [this, Nat.xor_zero]
      simp only [this, and_ff]
      rw [steps_split P.ival 8 (r ^^^ b), Nat.xor_comm]
    rw [register_cons _ _ _ _ hb]
    have := ih (steps P.ival 8 (r ^^^ b)) (fun x hx => hd x (by simp [hx])) hnext
    refine ⟨?_, this.2⟩
    rw [← this.1]
    simp only [fwdLoop]
    rw [lookup_crcTable P _ hidx]
    simp only [bind, Except.bind]
    rw [hstep]

/-- `crc` with the generated table, no final xor: the register -/
theorem crc_register (P : Bits) (hP : P.WF) (hw : 8 ≤ P.size) (init : Nat) (data : List Nat)
    (hd : ∀ b ∈ data, b < 256) :
    Model.Crc.crc data (crcTable P) (init : Int) none = .ok (register P.ival (init % 2 ^ P.size) data) := by
  unfold Model.Crc.crc
  rw [lookup_crcTable P 0 (by decide)]
  simp only [bind, Except.bind]
  rw [(tableEntry_eq P hP hw 0 (by decide)).1]
  have hinit : Bits.ofInt (init : Int) (some P.size) = ⟨init % 2 ^ P.size, P.size⟩ := by
    simp [Bits.ofInt, Bits.ofNatSz]
  simp only [hinit]
  rw [(fwdLoop_eq P hP hw data _ hd (Nat.mod_lt _ (Nat.two_pow_pos _))).1]
  rfl

theorem crc_final (P : Bits) (hP : P.WF) (hw : 8 ≤ P.size) (init final : Nat) (data : List Nat)
    (hd : ∀ b ∈ data, b < 256) :
    Model.Crc.crc data (crcTable P) (init : Int) (some (final : Int))
      = .ok (register P.ival (init % 2 ^ P.size) data ^^^ final) := by
  unfold Model.Crc.crc
  rw [lookup_crcTable P 0 (by decide)]
  simp only [bind, Except.bind]
  rw [(tableEntry_eq P hP hw 0 (by decide)).1]
  have hinit : Bits.ofInt (init : Int) (some P.size) = ⟨init % 2 ^ P.size, P.size⟩ := by
    simp [Bits.ofInt, Bits.ofNatSz]
  simp only [hinit]
  rw [(fwdLoop_eq P hP hw data _ hd (Nat.mod_lt _ (Nat.two_pow_pos _))).1]
  by_cases hf : final = 0
  · subst hf; simp [pure, Except.pure]
  · have : ¬ ((final : Int) = 0) := by omega
    simp only [this, if_false, pure, Except.pure]
    simp [Bits.xor, Bits.ofInt, Bits.ofNat]

end Proofs.Lemmas.CrcModel
