/-
  Bridge between `Model.Bits` (a Nat and a size) and bit lists (`List Bool`, element i = bit i of the Bits), and
  between the byte-level conversions of bits.py and the bitstream conversions of the DES specification.
  Helper lemmas for the DES / TDEA / white-box proofs (C02, C03, C18).
-/
import Model.Des
import Spec.Des
namespace Model.Bits

/-- the bit sequence a Bits denotes: element i = bit i -/
def bools (b : Bits) : List Bool := (List.range b.size).map fun i => b.ival.testBit i

@[simp] theorem length_bools (b : Bits) : (bools b).length = b.size := by simp [bools]

theorem testBit_of_WF {b : Bits} (hb : b.WF) {i : Nat} (hi : b.size ≤ i) : b.ival.testBit i = false := by
  apply Nat.testBit_lt_two_pow
  exact Nat.lt_of_lt_of_le hb (Nat.pow_le_pow_right (by decide) hi)

theorem getD_bools (b : Bits) (hb : b.WF) (i : Nat) : (bools b)[i]?.getD false = b.ival.testBit i := by
  by_cases h : i < b.size
  · simp [bools, h]
  · have h' := Nat.le_of_not_lt h
    simp [bools, h, testBit_of_WF hb h']

theorem getElem?_bools (b : Bits) (i : Nat) :
    (bools b)[i]? = if i < b.size then some (b.ival.testBit i) else none := by
  by_cases h : i < b.size <;> simp [bools, h]

theorem eq_of_bools {a b : Bits} (ha : a.WF) (hb : b.WF) (h : bools a = bools b) : a = b := by
  have hs : a.size = b.size := by simpa using congrArg List.length h
  cases a with | mk av as => cases b with | mk bv bs =>
  simp only at hs; subst hs
  congr 1
  apply Nat.eq_of_testBit_eq
  intro i
  have := congrArg (fun l => l[i]?.getD false) h
  simpa only [getD_bools _ ha, getD_bools _ hb] using this

theorem WF_of_testBit {b : Bits} (h : ∀ i, b.size ≤ i → b.ival.testBit i = false) : b.WF :=
  Nat.lt_pow_two_of_testBit _ h

theorem WF_ofNatSz (v n : Nat) : (ofNatSz v n).WF := by
  simp only [WF, ofNatSz]; exact Nat.mod_lt _ (Nat.two_pow_pos _)

/-- a bit list is determined by its entries -/
theorem bools_eq_of_testBit (b : Bits) (l : List Bool) (hl : l.length = b.size)
    (h : ∀ i (hi : i < l.length), b.ival.testBit i = l[i]) : bools b = l := by
  apply List.ext_getElem (by simp [hl])
  intro i h1 h2
  simp [bools, h i h2]

/-! ### listVal / pick -/

theorem testBit_listVal (l : List Nat) (i : Nat) : (listVal l).testBit i = (l[i]?.getD 0).testBit 0 := by
  induction l generalizing i with
  | nil => simp [listVal]
  | cons x xs ih =>
    cases i with
    | zero =>
      simp [listVal]
    | succ j =>
      have h : (x % 2).testBit (j + 1) = false := by
        apply Nat.testBit_lt_two_pow
        have : x % 2 < 2 := Nat.mod_lt _ (by decide)
        have : 2 ^ 1 ≤ 2 ^ (j + 1) := Nat.pow_le_pow_right (by decide) (by omega)
        omega
      simp [listVal, Nat.testBit_or, Nat.testBit_shiftLeft, ih, h]

theorem listVal_lt (l : List Nat) : listVal l < 2 ^ l.length := by
  apply Nat.lt_pow_two_of_testBit
  intro i hi
  rw [testBit_listVal]
  simp [List.getElem?_eq_none hi]

theorem pick_ival (b : Bits) (idx : List Nat) : (pick b idx).ival = listVal (idx.map fun x => (b.ival >>> x) &&& 1) := by
  simp only [pick, ofNatSz]
  apply Nat.mod_eq_of_lt
  simpa using listVal_lt (idx.map fun x => (b.ival >>> x) &&& 1)

@[simp] theorem size_pick (b : Bits) (idx : List Nat) : (pick b idx).size = idx.length := rfl

theorem shiftRight_and_one_testBit (v x : Nat) : ((v >>> x) &&& 1).testBit 0 = v.testBit x := by
  simp [Nat.testBit_and, Nat.testBit_shiftRight]

theorem testBit_pick (b : Bits) (idx : List Nat) (i : Nat) :
    (pick b idx).ival.testBit i = if h : i < idx.length then b.ival.testBit idx[i] else false := by
  rw [pick_ival, testBit_listVal]
  by_cases h : i < idx.length
  · simp [h, Nat.testBit_shiftRight]
  · simp [h]

theorem WF_pick (b : Bits) (idx : List Nat) : (pick b idx).WF := WF_ofNatSz _ _

theorem bools_pick (b : Bits) (idx : List Nat) : bools (pick b idx) = idx.map fun x => b.ival.testBit x := by
  apply bools_eq_of_testBit
  · simp
  · intro i hi
    have hi' : i < idx.length := by simpa using hi
    simp [testBit_pick, hi']

/-- `pick` in terms of the bit list of a well-formed operand -/
theorem bools_pick' (b : Bits) (hb : b.WF) (idx : List Nat) :
    bools (pick b idx) = idx.map fun x => (bools b)[x]?.getD false := by
  rw [bools_pick]; congr 1; funext x; exact (getD_bools b hb x).symm

/-! ### sliceFast -/
theorem testBit_sliceFast (b : Bits) (s e i : Nat) :
    (sliceFast b s e).ival.testBit i = (decide (i < e - s) && b.ival.testBit (s + i)) := by
  simp only [sliceFast, ofNatSz, Nat.testBit_mod_two_pow, Nat.testBit_shiftRight, Nat.testBit_and,
    Nat.testBit_two_pow_sub_one]
  by_cases h : i < e - s
  · have : s + i < e := by omega
    simp [h, this]
  · simp [h]

@[simp] theorem size_sliceFast (b : Bits) (s e : Nat) : (sliceFast b s e).size = e - s := rfl
theorem WF_sliceFast (b : Bits) (s e : Nat) : (sliceFast b s e).WF := WF_ofNatSz _ _

theorem bools_sliceFast (b : Bits) (s e : Nat) (he : e ≤ b.size) :
    bools (sliceFast b s e) = ((bools b).drop s).take (e - s) := by
  apply bools_eq_of_testBit
  · simp; omega
  · intro i hi
    have hi' : i < e - s := by simp at hi; omega
    simp [testBit_sliceFast, hi', bools]

/-! ### xor -/
theorem bools_xor (a o : Bits) (h : a.size = o.size) :
    bools (a.xor o) = List.zipWith Bool.xor (bools a) (bools o) := by
  apply bools_eq_of_testBit
  · simp [Bits.xor, wsize, h]
  · intro i hi
    simp [Bits.xor, bools, Nat.testBit_xor]

theorem WF_xor (a o : Bits) (ha : a.WF) (ho : o.WF) (h : a.size = o.size) : (a.xor o).WF := by
  simp only [WF, Bits.xor, wsize, h, Nat.lt_irrefl, if_false]
  simp only [WF, h] at ha
  exact Nat.xor_lt_two_pow ha ho

/-! ### concat -/
theorem testBit_concat (a o : Bits) (ha : a.WF) (i : Nat) :
    (a.concat o).ival.testBit i =
      (decide (i < a.size + o.size) && (if i < a.size then a.ival.testBit i else o.ival.testBit (i - a.size))) := by
  simp only [concat, ofNatSz, Nat.testBit_mod_two_pow, Nat.testBit_or, Nat.testBit_shiftLeft]
  by_cases h : i < a.size
  · have : ¬ (a.size ≤ i) := by omega
    simp [h, this]
  · have h' : a.size ≤ i := by omega
    simp [h, h', testBit_of_WF ha h']

@[simp] theorem size_concat (a o : Bits) : (a.concat o).size = a.size + o.size := rfl

theorem bools_concat (a o : Bits) (ha : a.WF) : bools (a.concat o) = bools a ++ bools o := by
  apply bools_eq_of_testBit
  · simp
  · intro i hi
    have hi' : i < a.size + o.size := by simpa using hi
    rw [testBit_concat a o ha]
    by_cases h : i < a.size
    · simp [hi', h, List.getElem_append_left, bools]
    · have h' : a.size ≤ i := by omega
      simp [hi', h, List.getElem_append_right, h', bools]

/-! ### the rotation idiom `x>>s | x<<(n-s)` -/
def rotIdiom (x : Bits) (s : Nat) : Bits := (x.shr s).or (x.shl (x.size - s))

theorem bools_rotIdiom (x : Bits) (hx : x.WF) (s : Nat) (hs : s ≤ x.size) :
    bools (rotIdiom x s) = (bools x).drop s ++ (bools x).take s := by
  apply bools_eq_of_testBit
  · simp [rotIdiom, Bits.or, wsize, shr, shl]; omega
  · intro i hi
    have hi' : i < x.size := by simp at hi; omega
    simp only [rotIdiom, Bits.or, shr, shl, Bits.mask, Nat.testBit_or, Nat.testBit_and, Nat.testBit_shiftRight,
      Nat.testBit_shiftLeft, Nat.testBit_two_pow_sub_one]
    by_cases h : i < x.size - s
    · have h2 : ¬ (x.size - s ≤ i) := by omega
      simp [hi', h, h2, List.getElem_append_left, bools]
    · have h2 : x.size - s ≤ i := by omega
      have h3 : x.ival.testBit (s + i) = false := testBit_of_WF hx (by omega)
      simp [hi', h2, h3, List.getElem_append_right, bools]

/-! ### putSlice -/
@[simp] theorem size_putSlice (b : Bits) (s e : Nat) (v : Bits) : (putSlice b s e v).size = b.size := rfl

theorem testBit_putSlice (b : Bits) (s e : Nat) (v : Bits) (i : Nat) :
    (putSlice b s e v).ival.testBit i =
      ((b.ival.testBit i && (Bool.xor (Bool.xor (decide (i < b.size)) (decide (i < e))) (decide (i < s))))
        || (decide (s ≤ i) && v.ival.testBit (i - s))) := by
  simp only [putSlice, Bits.mask, Nat.testBit_or, Nat.testBit_and, Nat.testBit_xor, Nat.testBit_shiftLeft,
    Nat.testBit_two_pow_sub_one]

theorem bools_putSlice (b : Bits) (s e : Nat) (v : Bits) (hse : s ≤ e) (he : e ≤ b.size)
    (hv : v.ival < 2 ^ (e - s)) :
    bools (putSlice b s e v) =
      (bools b).take s ++ ((List.range (e - s)).map (fun i => v.ival.testBit i) ++ (bools b).drop e) := by
  apply List.ext_getElem?
  intro i
  rw [getElem?_bools, testBit_putSlice, List.getElem?_append, List.getElem?_append]
  simp only [List.length_take, length_bools, List.length_map, List.length_range, List.getElem?_take,
    List.getElem?_drop, getElem?_bools, size_putSlice]
  have hm : min s b.size = s := by omega
  rw [hm]
  by_cases h1 : i < s
  · have : i < e := by omega
    have h3 : ¬ (s ≤ i) := by omega
    have h4 : i < b.size := by omega
    simp [h1, this, h3, h4]
  · have h1' : s ≤ i := by omega
    by_cases h2 : i < e
    · have h4 : i < b.size := by omega
      have h5 : i - s < e - s := by omega
      simp [h1, h1', h2, h4, h5]
    · have h4 : v.ival.testBit (i - s) = false := by
        apply Nat.testBit_lt_two_pow
        exact Nat.lt_of_lt_of_le hv (Nat.pow_le_pow_right (by decide) (by omega))
      have h5 : ¬ (i - s < e - s) := by omega
      have h6 : e + (i - s - (e - s)) = i := by omega
      by_cases h7 : i < b.size
      · simp [h1, h1', h2, h4, h5, h6, h7]
      · simp [h1, h1', h2, h4, h5, h6, h7]

theorem WF_putSlice (b : Bits) (s e : Nat) (v : Bits) (hb : b.WF) (hse : s ≤ e) (he : e ≤ b.size)
    (hv : v.ival < 2 ^ (e - s)) : (putSlice b s e v).WF := by
  apply Nat.lt_pow_two_of_testBit
  intro i hi
  have hi' : b.size ≤ i := hi
  rw [testBit_putSlice]
  have h4 : v.ival.testBit (i - s) = false := by
    apply Nat.testBit_lt_two_pow
    exact Nat.lt_of_lt_of_le hv (Nat.pow_le_pow_right (by decide) (by omega))
  simp [testBit_of_WF hb hi', h4]

/-! ### bytes -/

def revChk : Bool := (List.range 256).all fun b =>
  decide (reverseByte b < 256) && ((List.range 8).map fun j => (reverseByte b).testBit j) == Spec.Des.bitsOfNat 8 b
    && (reverseByte b == Spec.Des.natOfBits ((List.range 8).map fun j => b.testBit j))

theorem revChk_true : revChk = true := by decide +kernel

theorem reverseByte_facts (b : Nat) (hb : b < 256) :
    reverseByte b < 256 ∧ ((List.range 8).map fun j => (reverseByte b).testBit j) = Spec.Des.bitsOfNat 8 b
      ∧ reverseByte b = Spec.Des.natOfBits ((List.range 8).map fun j => b.testBit j) := by
  have h := revChk_true
  simp only [revChk, List.all_eq_true, List.mem_range, Bool.and_eq_true, decide_eq_true_eq, beq_iff_eq] at h
  have := h b hb
  exact ⟨this.1.1, this.1.2, this.2⟩

theorem chunks_one (s : List Nat) : Py.chunks 1 s = s.map fun b => [b] := by
  simp only [Py.chunks, Nat.one_ne_zero, if_false]
  suffices ∀ n (l : List Nat), l.length = n → Py.chunks.go 1 l n = l.map fun b => [b] from this _ s rfl
  intro n
  induction n with
  | zero => intro l hl; have : l = [] := List.length_eq_zero_iff.mp hl; subst this; rfl
  | succ n ih =>
    intro l hl
    match l, hl with
    | x :: xs, hl =>
      simp only [Py.chunks.go, List.isEmpty_cons, Bool.false_eq_true, if_false, List.take_succ_cons, List.take_zero,
        List.drop_succ_cons, List.drop_zero, List.map_cons]
      rw [ih xs (by simpa using hl)]

/-- the bitstream value: first byte in the low 8 bits, each byte bit-reversed -/
def bsVal : List Nat → Nat
  | [] => 0
  | b :: bs => (bsVal bs <<< 8) ||| reverseByte b

theorem groupVal_single (f : Nat → Nat) (b : Nat) : groupVal f [b] = f b := by
  simp only [groupVal, List.foldl_cons, List.foldl_nil, Nat.zero_shiftLeft, Nat.zero_or]

theorem groupsVal_one (s : List Nat) : groupsVal reverseByte 1 (s.map fun b => [b]) = bsVal s := by
  induction s with
  | nil => simp only [List.map_nil, groupsVal, bsVal]
  | cons b bs ih =>
    simp only [List.map_cons, groupsVal, groupVal_single, bsVal, ih, Nat.mul_one]
/-- `Bits(bytes)` (bitorder -1) -/
def ofByteStr (s : List Nat) : Bits := ⟨bsVal s, 8 * s.length⟩

theorem load_bitstream (s : List Nat) : load s (-1) = .ok (ofByteStr s) := by
  simp [load, chunks_one, groupsVal_one, ofByteStr, Nat.mod_one]

theorem ofBytes_bitstream (s : List Nat) : ofBytes s none (-1) = .ok (ofByteStr s) := by
  simp [ofBytes, load_bitstream]

def IsBytes (s : List Nat) : Prop := ∀ b ∈ s, b < 256

theorem WF_ofByteStr (s : List Nat) (hs : IsBytes s) : (ofByteStr s).WF := by
  induction s with
  | nil => simp [ofByteStr, bsVal, WF]
  | cons b bs ih =>
    have hb : b < 256 := hs b (by simp)
    have ih' := ih (fun x hx => hs x (by simp [hx]))
    simp only [ofByteStr, WF, bsVal, List.length_cons] at *
    have h1 : reverseByte b < 2 ^ (8 * (bs.length + 1)) :=
      Nat.lt_of_lt_of_le (reverseByte_facts b hb).1 (by
        have : (256:Nat) = 2 ^ 8 := by decide
        rw [this]; exact Nat.pow_le_pow_right (by decide) (by omega))
    have h2 : bsVal bs <<< 8 < 2 ^ (8 * (bs.length + 1)) := by
      rw [Nat.shiftLeft_eq, show 8 * (bs.length + 1) = 8 * bs.length + 8 by omega, Nat.pow_add]
      exact Nat.mul_lt_mul_of_pos_right ih' (by decide)
    exact Nat.or_lt_two_pow h2 h1

theorem bools_ofByteStr (s : List Nat) (hs : IsBytes s) : bools (ofByteStr s) = Spec.Des.bytesToBits s := by
  induction s with
  | nil => simp [ofByteStr, bools, Spec.Des.bytesToBits]
  | cons b bs ih =>
    have hb : b < 256 := hs b (by simp)
    have hs' : IsBytes bs := fun x hx => hs x (by simp [hx])
    have ih' := ih hs'
    have hW := WF_ofByteStr bs hs'
    have hc : ofByteStr (b :: bs) = (⟨reverseByte b, 8⟩ : Bits).concat (ofByteStr bs) := by
      simp only [ofByteStr, bsVal, concat, ofNatSz, List.length_cons]
      have hsz : 8 * (bs.length + 1) = 8 + 8 * bs.length := by omega
      rw [hsz, Nat.or_comm]
      congr 1
      symm; apply Nat.mod_eq_of_lt
      have := WF_ofByteStr (b :: bs) hs
      simp only [ofByteStr, WF, bsVal, List.length_cons, hsz] at this
      rw [Nat.or_comm]; exact this
    rw [hc, bools_concat _ _ (by simp only [WF]; exact (reverseByte_facts b hb).1), ih']
    simp only [Spec.Des.bytesToBits, List.flatMap_cons]
    congr 1
    exact (reverseByte_facts b hb).2.1

theorem take_drop_bools (b : Bits) (k : Nat) (hk : 8 * k + 8 ≤ b.size) :
    ((bools b).drop (8 * k)).take 8 = (List.range 8).map fun j => b.ival.testBit (8 * k + j) := by
  apply List.ext_getElem?
  intro i
  simp only [List.getElem?_take, List.getElem?_drop, getElem?_bools, List.getElem?_map, List.getElem?_range]
  by_cases h : i < 8
  · have : 8 * k + i < b.size := by omega
    simp [h, this]
  · simp [h]

theorem toBytes_eq (b : Bits) (m : Nat) (hm : b.size = 8 * m) : toBytes b = Spec.Des.bitsToBytes (bools b) := by
  simp only [toBytes, Spec.Des.bitsToBytes, length_bools, hm]
  have h1 : (8 * m + 7) / 8 = m := by omega
  have h2 : 8 * m / 8 = m := by omega
  rw [h1, h2]
  apply List.map_congr_left
  intro k hk
  have hk' : k < m := by simpa using hk
  rw [take_drop_bools b k (by omega)]
  have hx : ((b.ival &&& b.mask) >>> (8 * k)) &&& 0xff < 256 := by
    have : (255 : Nat) < 256 := by decide
    exact Nat.lt_of_le_of_lt Nat.and_le_right this
  rw [(reverseByte_facts _ hx).2.2]
  congr 1
  apply List.map_congr_left
  intro j hj
  have hj' : j < 8 := by simpa using hj
  have : (255 : Nat) = 2 ^ 8 - 1 := by decide
  simp only [Bits.mask, this, Nat.testBit_and, Nat.testBit_shiftRight, Nat.testBit_two_pow_sub_one, hm]
  have : 8 * k + j < 8 * m := by omega
  simp [hj', this]

end Model.Bits


namespace Spec.Des
theorem length_bitsOfNat (w n : Nat) : (bitsOfNat w n).length = w := by simp [bitsOfNat]

theorem length_bytesToBits (s : List Nat) : (bytesToBits s).length = 8 * s.length := by
  induction s with
  | nil => rfl
  | cons b bs ih => simp only [bytesToBits, List.flatMap_cons, List.length_append, length_bitsOfNat, List.length_cons] at *; omega

def byteChk : Bool := (List.range 256).all fun b => natOfBits (bitsOfNat 8 b) == b
theorem byteChk_true : byteChk = true := by decide +kernel
theorem natOfBits_bitsOfNat (b : Nat) (hb : b < 256) : natOfBits (bitsOfNat 8 b) = b := by
  have h := byteChk_true
  simp only [byteChk, List.all_eq_true, List.mem_range, beq_iff_eq] at h
  exact h b hb

theorem bitsToBytes_bytesToBits (s : List Nat) (hs : ∀ b ∈ s, b < 256) : bitsToBytes (bytesToBits s) = s := by
  apply List.ext_getElem
  · simp [bitsToBytes, length_bytesToBits]
  · intro i h1 h2
    simp only [bitsToBytes, List.getElem_map, List.getElem_range]
    have : ((bytesToBits s).drop (8 * i)).take 8 = bitsOfNat 8 s[i] := by
      clear h1
      induction s generalizing i with
      | nil => simp at h2
      | cons b bs ih =>
        cases i with
        | zero => simp [bytesToBits, length_bitsOfNat]
        | succ j =>
          have : 8 * (j + 1) = 8 + 8 * j := by omega
          simp only [bytesToBits, List.flatMap_cons, this, List.getElem_cons_succ]
          rw [← List.drop_drop, List.drop_left' (length_bitsOfNat 8 b)]
          exact ih (fun x hx => hs x (by simp [hx])) j (by simpa using h2)
    rw [this]
    exact natOfBits_bitsOfNat _ (hs _ (List.getElem_mem h2))

end Spec.Des
namespace Spec.Des

theorem bits8_roundtrip : ∀ a b c d e f g h : Bool,
    bitsOfNat 8 (natOfBits [a, b, c, d, e, f, g, h]) = [a, b, c, d, e, f, g, h] := by decide

theorem natOfBits8_lt : ∀ a b c d e f g h : Bool, natOfBits [a, b, c, d, e, f, g, h] < 256 := by decide

theorem bitsOfNat_natOfBits (l : Bitstr) (hl : l.length = 8) : bitsOfNat 8 (natOfBits l) = l ∧ natOfBits l < 256 := by
  match l, hl with
  | [a, b, c, d, e, f, g, h], _ => exact ⟨bits8_roundtrip a b c d e f g h, natOfBits8_lt a b c d e f g h⟩

theorem bitsToBytes_cons (l : Bitstr) (m : Nat) (hl : l.length = 8 * (m + 1)) :
    bitsToBytes l = natOfBits (l.take 8) :: bitsToBytes (l.drop 8) := by
  simp only [bitsToBytes, hl, List.length_drop]
  have h1 : 8 * (m + 1) / 8 = m + 1 := by omega
  have h2 : (8 * (m + 1) - 8) / 8 = m := by
    have : 8 * (m + 1) - 8 = 8 * m := by omega
    rw [this]; exact Nat.mul_div_cancel_left m (by decide)
  rw [h1, h2, List.range_succ_eq_map, List.map_cons, List.map_map]
  simp only [Nat.mul_zero, List.drop_zero, List.cons.injEq, true_and]
  apply List.map_congr_left
  intro i _
  simp only [Function.comp, List.drop_drop]
  have : 8 * i.succ = 8 + 8 * i := by omega
  rw [this]

theorem bytesToBits_bitsToBytes (l : Bitstr) (m : Nat) (hl : l.length = 8 * m) :
    bytesToBits (bitsToBytes l) = l ∧ ∀ b ∈ bitsToBytes l, b < 256 := by
  induction m generalizing l with
  | zero =>
    have : l = [] := List.length_eq_zero_iff.mp (by simpa using hl)
    subst this; simp [bitsToBytes, bytesToBits]
  | succ m ih =>
    rw [bitsToBytes_cons l m hl]
    have h8 : (l.take 8).length = 8 := by simp [hl]; omega
    have hd : (l.drop 8).length = 8 * m := by simp [hl]; omega
    obtain ⟨ih1, ih2⟩ := ih (l.drop 8) hd
    constructor
    · simp only [bytesToBits, List.flatMap_cons] at *
      rw [ih1, (bitsOfNat_natOfBits _ h8).1, List.take_append_drop]
    · intro b hb
      rcases List.mem_cons.mp hb with h | h
      · subst h; exact (bitsOfNat_natOfBits _ h8).2
      · exact ih2 b h

end Spec.Des

namespace Model.Bits

/-! ### composing two index selections -/
theorem pick_pick_id (b : Bits) (hb : b.WF) (t1 t2 : List Nat)
    (h : t2.map (fun x => t1[x]?) = (List.range b.size).map some) : pick (pick b t1) t2 = b := by
  apply eq_of_bools (WF_pick _ _) hb
  rw [bools_pick' _ (WF_pick _ _), bools_pick]
  have : (fun x : Nat => (List.map (fun x => b.ival.testBit x) t1)[x]?.getD false)
      = (fun o : Option Nat => (o.map fun x => b.ival.testBit x).getD false) ∘ (fun x : Nat => t1[x]?) := by
    funext x; simp
  rw [this, ← List.map_map, h, List.map_map]
  rfl

/-- the 64-bit block `A ‖ B` as the code assembles it: `C=Bits(0,64); C[0:32]=A; C[32:64]=B` -/
def join (A B : Bits) : Bits := ((ofNatSz 0 64).putSlice 0 32 A).putSlice 32 64 B

@[simp] theorem size_join (A B : Bits) : (join A B).size = 64 := rfl

theorem bools_zero (n : Nat) : bools (ofNatSz 0 n) = List.replicate n false := by
  apply List.ext_getElem?
  intro i
  rw [getElem?_bools]
  by_cases h : i < n <;> simp [ofNatSz, h]

theorem WF_join (A B : Bits) (hA : A.WF) (hAs : A.size = 32) (hB : B.WF) (hBs : B.size = 32) : (join A B).WF := by
  have hA' : A.ival < 2 ^ (32 - 0) := by simpa [WF, hAs] using hA
  have hB' : B.ival < 2 ^ (64 - 32) := by simpa [WF, hBs] using hB
  exact WF_putSlice _ _ _ _ (WF_putSlice _ _ _ _ (WF_ofNatSz 0 64) (by decide) (by decide) hA') (by decide) (Nat.le_refl 64) hB'

theorem bools_join (A B : Bits) (hA : A.WF) (hAs : A.size = 32) (hB : B.WF) (hBs : B.size = 32) :
    bools (join A B) = bools A ++ bools B := by
  have hA' : A.ival < 2 ^ (32 - 0) := by simpa [WF, hAs] using hA
  have hB' : B.ival < 2 ^ (64 - 32) := by simpa [WF, hBs] using hB
  unfold join
  rw [bools_putSlice _ _ _ _ (by decide) (Nat.le_refl 64) hB', bools_putSlice _ _ _ _ (by decide) (by decide) hA',
    bools_zero]
  have e1 : bools A = (List.range (32 - 0)).map fun i => A.ival.testBit i := by simp [bools, hAs]
  have e2 : bools B = (List.range (64 - 32)).map fun i => B.ival.testBit i := by simp [bools, hBs]
  rw [← e1, ← e2]
  have hl : (bools A).length = 32 := by simp [hAs]
  simp [List.take_append_of_le_length, hl, List.drop_append_of_le_length]

theorem slice_join_left (A B : Bits) (hA : A.WF) (hAs : A.size = 32) (hB : B.WF) (hBs : B.size = 32) :
    (join A B).sliceFast 0 32 = A := by
  apply eq_of_bools (WF_sliceFast _ _ _) hA
  rw [bools_sliceFast _ _ _ (by simp), bools_join A B hA hAs hB hBs]
  have hl : (bools A).length = 32 := by simp [hAs]
  simp [List.take_append_of_le_length, hl]

theorem slice_join_right (A B : Bits) (hA : A.WF) (hAs : A.size = 32) (hB : B.WF) (hBs : B.size = 32) :
    (join A B).sliceFast 32 64 = B := by
  apply eq_of_bools (WF_sliceFast _ _ _) hB
  rw [bools_sliceFast _ _ _ (by simp), bools_join A B hA hAs hB hBs]
  have hl : (bools A).length = 32 := by simp [hAs]
  have hl2 : (bools B).length = 32 := by simp [hBs]
  rw [List.drop_append_of_le_length (by omega)]
  simp [hl, List.take_of_length_le, hl2]

theorem join_slices (b : Bits) (hb : b.WF) (hs : b.size = 64) :
    join (b.sliceFast 0 32) (b.sliceFast 32 64) = b := by
  apply eq_of_bools (WF_join _ _ (WF_sliceFast _ _ _) rfl (WF_sliceFast _ _ _) rfl) hb
  rw [bools_join _ _ (WF_sliceFast _ _ _) rfl (WF_sliceFast _ _ _) rfl,
    bools_sliceFast _ _ _ (by omega), bools_sliceFast _ _ _ (by omega)]
  have hl : (bools b).length = 64 := by simp [hs]
  simp only [List.drop_zero, Nat.sub_zero]
  rw [List.take_of_length_le (l := List.drop 32 b.bools) (by simp [hl])]
  exact List.take_append_drop 32 _

/-! ### bytes round trip on Bits -/
theorem isBytes_toBytes (b : Bits) (m : Nat) (hm : b.size = 8 * m) : IsBytes (toBytes b) := by
  rw [toBytes_eq b m hm]
  exact (Spec.Des.bytesToBits_bitsToBytes (bools b) m (by simp [hm])).2

theorem length_toBytes (b : Bits) : (toBytes b).length = (b.size + 7) / 8 := by simp [toBytes]

theorem ofByteStr_toBytes (b : Bits) (hb : b.WF) (m : Nat) (hm : b.size = 8 * m) : ofByteStr (toBytes b) = b := by
  apply eq_of_bools (WF_ofByteStr _ (isBytes_toBytes b m hm)) hb
  rw [bools_ofByteStr _ (isBytes_toBytes b m hm), toBytes_eq b m hm]
  exact (Spec.Des.bytesToBits_bitsToBytes (bools b) m (by simp [hm])).1

theorem toBytes_ofByteStr (s : List Nat) (hs : IsBytes s) : toBytes (ofByteStr s) = s := by
  rw [toBytes_eq _ s.length rfl, bools_ofByteStr s hs]
  exact Spec.Des.bitsToBytes_bytesToBits s hs


end Model.Bits

/-! ### the two helper operations of Model.Des are the shared model's `__getitem__` / `__setitem__` on the paths the code takes -/
namespace Model.Bits

/-- `Bits.pick` is the shared model's `b[list]` on non-negative indices -/
theorem getList_eq_pick (b : Bits) (idx : List Nat) : b.getList (idx.map Int.ofNat) = .ok (b.pick idx) := by
  have h : (idx.map Int.ofNat).any (· < 0) = false := by
    rw [List.any_eq_false]; intro x hx
    obtain ⟨n, _, rfl⟩ := List.mem_map.mp hx
    simp
  simp only [getList, h, Bool.false_eq_true, if_false, pick, List.map_map, List.length_map]
  rfl

/-- `Bits.putSlice` is the shared model's `b[s:e] = v` for `0 ≤ s < e ≤ size` -/
theorem setSlice_eq_putSlice (b : Bits) (s e : Nat) (v : Bits) (hse : s < e) (he : e ≤ b.size) :
    b.setSlice (some (s : Int)) (some (e : Int)) none v = .ok (b.putSlice s e v) := by
  have h1 : ¬ ((s : Int) < 0) := by omega
  have h2 : ¬ ((e : Int) < 0) := by omega
  have h3 : ¬ ((s : Int) > (b.size : Int)) := by omega
  have h4 : ¬ ((e : Int) > (b.size : Int)) := by omega
  have h5 : (e : Int) > (s : Int) := by omega
  simp [setSlice, Py.sliceIndices, h1, h2, h3, h4, h5, bind, Except.bind, pure, Except.pure, putSlice]

end Model.Bits
