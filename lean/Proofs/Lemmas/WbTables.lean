/-
  Helper lemmas for C18: the nested "fill a table of tables" loops of `table_rKS` / `table_rKT`.
-/
import Model.Wb
import Proofs.Lemmas.WbBasic
namespace Proofs.Lemmas.Wb
open Model Model.Wb Model.Bits

/-- entry `v` of table `n` (0 outside) -/
def get2 (t : List (List Nat)) (n v : Nat) : Nat := (t.getD n []).getD v 0

/-- `N` rows of `M` entries -/
def Shape (t : List (List Nat)) (N M : Nat) : Prop := t.length = N ∧ ∀ row ∈ t, row.length = M

theorem shape_replicate (N M : Nat) (row : List Nat) (h : row.length = M) : Shape (List.replicate N row) N M := by
  refine ⟨List.length_replicate, ?_⟩
  intro r hr
  rw [List.eq_of_mem_replicate hr]; exact h

theorem shape_getD {t : List (List Nat)} {N M n : Nat} (h : Shape t N M) (hn : n < N) : (t.getD n []).length = M := by
  have hl : n < t.length := by rw [h.1]; exact hn
  rw [List.getD_eq_getElem?_getD, List.getElem?_eq_getElem hl]
  exact h.2 _ (List.getElem_mem hl)

theorem shape_set2 {t : List (List Nat)} {N M n : Nat} (v w : Nat) (h : Shape t N M) (hn : n < N) :
    Shape (set2 t n v w) N M := by
  refine ⟨by simp [set2, h.1], ?_⟩
  intro row hrow
  rcases List.mem_or_eq_of_mem_set hrow with h1 | h1
  · exact h.2 _ h1
  · rw [h1, List.length_set]; exact shape_getD h hn

theorem get2_set2 {t : List (List Nat)} {N M n v : Nat} (w : Nat) (h : Shape t N M) (hn : n < N) (hv : v < M) (n' v' : Nat) :
    get2 (set2 t n v w) n' v' = if n' = n ∧ v' = v then w else get2 t n' v' := by
  have hl : n < t.length := by rw [h.1]; exact hn
  have hrow : v < (t.getD n []).length := by rw [shape_getD h hn]; exact hv
  unfold get2 set2
  by_cases e : n' = n
  · subst e
    simp only [List.getD_eq_getElem?_getD, List.getElem?_set_self hl, Option.getD_some, true_and]
    by_cases e2 : v' = v
    · subst e2
      have : v' < (t[n']?.getD []).length := by simpa [List.getD_eq_getElem?_getD] using hrow
      simp [List.getElem?_set_self this]
    · have e3 : v ≠ v' := fun x => e2 x.symm
      simp [List.getElem?_set_ne e3, e2]
  · have e3 : n ≠ n' := fun x => e x.symm
    simp [List.getD_eq_getElem?_getD, List.getElem?_set_ne e3, e]

/-- the inner loop writes `f n` at column `idx` of every row `n ∈ ns` -/
theorem tabInner_ok {entry : Nat → Except Err Nat} {f : Nat → Nat} {N M idx : Nat} (hidx : idx < M) :
    ∀ (ns : List Nat) (t : List (List Nat)), Shape t N M → (∀ n ∈ ns, n < N ∧ entry n = .ok (f n)) →
      ∃ t', tabInner entry idx ns t = .ok t' ∧ Shape t' N M ∧
        ∀ n' v', get2 t' n' v' = if n' ∈ ns ∧ v' = idx then f n' else get2 t n' v' := by
  intro ns
  induction ns with
  | nil => intro t ht _; exact ⟨t, rfl, ht, by simp⟩
  | cons n ns ih =>
    intro t ht hns
    have hn := hns n (List.mem_cons_self)
    obtain ⟨t', h1, h2, h3⟩ := ih (set2 t n idx (f n)) (shape_set2 idx (f n) ht hn.1)
      (fun m hm => hns m (List.mem_cons_of_mem _ hm))
    refine ⟨t', ?_, h2, ?_⟩
    · simp only [tabInner, hn.2]; exact h1
    · intro n' v'
      rw [h3, get2_set2 (f n) ht hn.1 hidx]
      by_cases a : n' ∈ ns <;> by_cases b : v' = idx <;> by_cases c : n' = n <;> simp [a, b, c]

/-- the outer loop fills rows `ns = range 8`, columns `vs`, with `f v n` -/
theorem tabOuter_ok {entry : Nat → Nat → Except Err Nat} {idx : Nat → Nat} {f : Nat → Nat → Nat} {N M : Nat} (hN : 8 ≤ N) :
    ∀ (vs : List Nat) (t : List (List Nat)), Shape t N M →
      (∀ v ∈ vs, v < M ∧ idx v = v ∧ ∀ n < 8, entry v n = .ok (f v n)) →
      ∃ t', tabOuter entry idx vs t = .ok t' ∧ Shape t' N M ∧
        ∀ n' v', get2 t' n' v' = if n' < 8 ∧ v' ∈ vs then f v' n' else get2 t n' v' := by
  intro vs
  induction vs with
  | nil => intro t ht _; exact ⟨t, rfl, ht, by simp⟩
  | cons v vs ih =>
    intro t ht hvs
    obtain ⟨hv, hid, hent⟩ := hvs v (List.mem_cons_self)
    obtain ⟨t1, a1, a2, a3⟩ := tabInner_ok (entry := entry v) (f := f v) (N := N) (M := M) (idx := idx v)
      (by rw [hid]; exact hv) (List.range 8) t ht
      (fun n hn => ⟨Nat.lt_of_lt_of_le (List.mem_range.mp hn) hN, hent n (List.mem_range.mp hn)⟩)
    obtain ⟨t', h1, h2, h3⟩ := ih t1 a2 (fun m hm => hvs m (List.mem_cons_of_mem _ hm))
    refine ⟨t', ?_, h2, ?_⟩
    · simp only [tabOuter, a1]; exact h1
    · intro n' v'
      rw [h3, a3, hid]
      by_cases a : n' < 8 <;> by_cases b : v' ∈ vs <;> by_cases c : v' = v <;> simp [a, b, c, List.mem_range]
      all_goals (first | (subst c; rfl) | skip)

end Proofs.Lemmas.Wb
