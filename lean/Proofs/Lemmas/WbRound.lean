/-
  Helper lemmas for C18: one round of the white-box network on an encoded state is one Feistel round of Model.Des.
-/
import Model.Wb
import Model.Gen.Wb
import Proofs.Lemmas.WbBits
import Proofs.Lemmas.WbKey
import Proofs.Lemmas.WbFX
import Proofs.Lemmas.WbTbox
import Proofs.Lemmas.WbDesF
import Proofs.Lemmas.WbLayout
namespace Proofs.Lemmas.Wb
open Model Model.Wb Model.Bits

theorem size_enc (L R : Bits) : (enc L R).size = 96 := by simp [enc, encIdx_length]
theorem WF_enc (L R : Bits) : (enc L R).WF := WF_pick _ _

theorem bit_enc (L R : Bits) (i : Nat) (hi : i < 96) : bit (enc L R) i = bit (L.concat R) (encIdx.getD i 0) :=
  bit_pick_getD _ _ _ (by rw [encIdx_length]; exact hi)

theorem bit_LR (L R : Bits) (hL : L.size = 32) (hLw : L.WF) (hR : R.size = 32) (q : Nat) (hq : q < 64) :
    bit (L.concat R) q = if q < 32 then bit L q else bit R (q - 32) := by
  rw [bit_concat L R hLw, hL, hR]
  simp [hq]

/-- bits of the source vector `Z // L // R` -/
theorem bit_src (Z L R : Bits) (hZ : Z.size = 32) (hZw : Z.WF) (hL : L.size = 32) (hR : R.size = 32) (k : Nat) (hk : k < 96) :
    bit (Z.concat (L.concat R)) k = if k < 32 then bit Z k else bit (L.concat R) (k - 32) := by
  rw [bit_concat Z _ hZw, hZ]
  simp [hL, hR, hk]

theorem tboxVal_testBit (s v j : Nat) :
    (tboxVal s v).testBit j =
      if j < 4 then s.testBit j else if j < 8 then v.testBit ([0, 5, 6, 7].getD (j - 4) 0) else false := by
  have h := bit_concat (ofNatSz s 4) ((ofNatSz v 8).pick [0, 5, 6, 7]) (WF_ofNatSz s 4) j
  simp only [bit] at h
  unfold tboxVal
  rw [h]
  by_cases h4 : j < 4
  · have : j < 8 := by omega
    have e := bit_ofNatSz s 4 j
    simp only [bit] at e
    simp [ofNatSz, h4, this] at e ⊢
    simp [e]
  · by_cases h8 : j < 8
    · have hc : j - 4 < ([0, 5, 6, 7] : List Nat).length := by simp; omega
      have e := bit_pick_getD (ofNatSz v 8) [0, 5, 6, 7] (j - 4) hc
      rw [bit_ofNatSz] at e
      simp only [bit] at e
      have hj : j = 4 ∨ j = 5 ∨ j = 6 ∨ j = 7 := by omega
      rcases hj with rfl | rfl | rfl | rfl <;> simp [ofNatSz] at e ⊢ <;> simp [e]
    · simp [ofNatSz, h4, h8]

theorem kchunk_size (fk : Bits) (m : Nat) : (kchunk fk m).size = 6 := by
  simp only [kchunk, size_sliceFast]; omega

/-- the S-box input chunk seen by T-box `m` (low six bits of byte `m`, xor key chunk) is the chunk `des.F` cuts out of
    `E(R) xor k_r` -/
theorem chunk_eq (L R fk : Bits) (hL : L.size = 32) (hLw : L.WF) (hR : R.size = 32) (m : Nat) (hm : m < 8) :
    (ofNatSz (byteOf (enc L R) m % 64) 6).xor (kchunk fk m) =
      ((R.pick Gen.Des.e).xor fk).sliceFast (6 * m) (6 * m + 6) := by
  have hsz : ((ofNatSz (byteOf (enc L R) m % 64) 6).xor (kchunk fk m)).size = 6 := by
    rw [size_xor _ _ (by rw [kchunk_size]; rfl)]; rfl
  apply bits_ext
  · rw [hsz, size_sliceFast]; omega
  · exact WF_xor _ _ (WF_ofNatSz _ _) (WF_sliceFast _ _ _) (by rw [kchunk_size]; rfl)
  · exact WF_sliceFast _ _ _
  · intro j hj
    rw [hsz] at hj
    have e6 : 6 * m + 6 - 6 * m = 6 := by omega
    have h64 : (64 : Nat) = 2 ^ 6 := by decide
    have hq : Gen.Des.e.getD (6 * m + j) 0 < 32 := e_lt _ (by omega)
    rw [bit_xor, bit_ofNatSz, h64, Nat.testBit_mod_two_pow, byteOf_testBit, bit_enc L R _ (by omega), encIdx_E m hm j hj,
      bit_LR L R hL hLw hR _ (by omega), if_neg (by omega), Nat.add_sub_cancel_left]
    simp only [kchunk]
    rw [bit_sliceFast, bit_sliceFast, e6, bit_xor, bit_pick_getD R _ _ (by rw [e_length]; omega)]
    have : j < 8 := by omega
    simp [hj, this]

/-- after the T-boxes every state bit is a fixed bit of `Z // L // R` (`Z` = the S-box outputs of `des.F`) -/
theorem post_bits (L R fk Z : Bits) (rks rkt : List (List Nat))
    (hL : L.size = 32) (hLw : L.WF) (hR : R.size = 32) (hZ : Z.size = 32) (hZw : Z.WF)
    (h6 : ∀ n < 8, ∀ v < 64, get2 rks n v = sboxVal n ((ofNatSz v 6).xor (kchunk fk n)))
    (h7 : ∀ n v, get2 rkt n v = if n < 8 ∧ v < 256 then tboxVal (get2 rks n ((ofNatSz v 8).sliceFast 0 6).ival) v
                                 else get2 (List.replicate 12 (List.range 256)) n v)
    (f6 : ∀ i, i < 32 → bit Z i =
        (sboxVal (i / 4) (((R.pick Gen.Des.e).xor fk).sliceFast (6 * (i / 4)) (6 * (i / 4) + 6))).testBit (i % 4))
    (post : Bits)
    (hp : ∀ i, bit post i = if i / 8 ∈ List.range 12 then (get2 rkt (i / 8) (byteOf (enc L R) (i / 8))).testBit (i % 8)
                            else bit (enc L R) i) :
    ∀ i, i < 96 → bit post i = bit (Z.concat (L.concat R)) (postIdx i) := by
  intro i hi
  have hm12 : i / 8 < 12 := by omega
  have hv : byteOf (enc L R) (i / 8) < 256 := byteOf_lt _ _
  rw [hp i, if_pos (List.mem_range.mpr hm12)]
  by_cases hm : i / 8 < 8
  · have hi64 : i < 64 := by omega
    rw [h7, if_pos ⟨hm, hv⟩, low6_eq, h6 _ hm _ (Nat.mod_lt _ (by decide)), chunk_eq L R fk hL hLw hR _ hm,
      tboxVal_testBit]
    by_cases hj : i % 8 < 4
    · have hpi : postIdx i = 4 * (i / 8) + i % 8 := by simp [postIdx, hi64, hj]
      have hk : 4 * (i / 8) + i % 8 < 32 := by omega
      rw [if_pos hj, hpi, bit_src Z L R hZ hZw hL hR _ (by omega), if_pos hk, f6 _ hk]
      have e1 : (4 * (i / 8) + i % 8) / 4 = i / 8 := by omega
      have e2 : (4 * (i / 8) + i % 8) % 4 = i % 8 := by omega
      rw [e1, e2]
    · have hj8 : i % 8 < 8 := Nat.mod_lt _ (by decide)
      have hc : ([0, 5, 6, 7] : List Nat).getD (i % 8 - 4) 0 < 8 := by
        have : i % 8 = 4 ∨ i % 8 = 5 ∨ i % 8 = 6 ∨ i % 8 = 7 := by omega
        rcases this with h | h | h | h <;> rw [h] <;> decide
      have hpi : postIdx i = 32 + encIdx.getD (8 * (i / 8) + ([0, 5, 6, 7] : List Nat).getD (i % 8 - 4) 0) 0 := by
        simp [postIdx, hi64, hj]
      have hlt := encIdx_lt (8 * (i / 8) + ([0, 5, 6, 7] : List Nat).getD (i % 8 - 4) 0) (by omega)
      rw [if_neg hj, if_pos hj8, hpi, bit_src Z L R hZ hZw hL hR _ (by omega), if_neg (by omega), Nat.add_sub_cancel_left,
        byteOf_testBit, bit_enc L R _ (by omega), decide_eq_true hc, Bool.true_and]
  · have hi64 : ¬ i < 64 := by omega
    have hpi : postIdx i = 32 + encIdx.getD i 0 := by simp [postIdx, hi64]
    have hlt := encIdx_lt i hi
    have hj8 : i % 8 < 8 := Nat.mod_lt _ (by decide)
    have hii : 8 * (i / 8) + i % 8 = i := by omega
    rw [h7, if_neg (fun c => hm c.1), get2_ident _ _ hm12 hv, byteOf_testBit, hii, hpi,
      bit_src Z L R hZ hZw hL hR _ (by omega), if_neg (by omega), Nat.add_sub_cancel_left, bit_enc L R _ hi, decide_eq_true hj8, Bool.true_and]

theorem get2_replicate_lt (n v : Nat) : get2 (List.replicate 12 (List.range 256)) n v < 256 := by
  by_cases hn : n < 12
  · by_cases hv : v < 256
    · rw [get2_ident n v hn hv]; exact hv
    · simp only [get2, List.getD_eq_getElem?_getD, List.getElem?_replicate, hn, if_true, Option.getD_some]
      rw [List.getElem?_eq_none (by simp; omega)]; decide
  · simp only [get2, List.getD_eq_getElem?_getD, List.getElem?_replicate, hn, if_false, Option.getD_none]
    simp

theorem decide_toNat (x : Bool) : decide (x.toNat = 1) = x := by cases x <;> rfl

/-- one round of the network on the encoding of (L,R) is the encoding of (R, L xor F(R,k_r)) -/
theorem round_ok (K : Bits) (r : Nat) (hr : r < 16) (L R : Bits) (hL : L.size = 32) (hLw : L.WF) (hR : R.size = 32) (hRw : R.WF)
    (rks rkt : List (List Nat)) (ht : tableRKT r K = .ok (rks, rkt)) (w : WhiteDES) (hw : w.tM2 = Gen.Wb.m2mat) :
    ∃ fout, Des.F R (Des.PC1 K) r = .ok fout ∧ fout.size = 32 ∧ fout.WF ∧
      (tboxLoop rkt (List.range 12) (enc L R) >>= w.FX) = .ok (enc R (L.xor fout)) := by
  obtain ⟨fk, rks', rkt', h1, h2, h3, h4, h5, h6, h7⟩ := tableRKT_ok K r hr
  rw [ht] at h3
  simp only [Except.ok.injEq, Prod.mk.injEq] at h3
  obtain ⟨e1, e2⟩ := h3
  subst e1 e2
  obtain ⟨fk', Z, f1, f2, f3, f4, f5, f6⟩ := F_ok K R hR r hr
  rw [h1] at f1
  simp only [Except.ok.injEq] at f1
  subst f1
  have hent : ∀ n v, get2 rkt n v < 256 := by
    intro n v
    rw [h7]
    by_cases c : n < 8 ∧ v < 256
    · rw [if_pos c]; exact tboxVal_lt _ _
    · rw [if_neg c]; exact get2_replicate_lt n v
  obtain ⟨post, p1, p2, p3, p4⟩ := tboxLoop_ok rkt h5 hent (List.range 12) (enc L R) (size_enc L R) (WF_enc L R)
    List.nodup_range (fun n hn => List.mem_range.mp hn)
  have hpost := post_bits L R fk Z rks rkt hL hLw hR f4 f5 h6 h7 f6 post p4
  obtain ⟨out, o1, o2, o3, o4⟩ := fxLoop_ok Gen.Wb.m2mat post m2mat_length (List.range 96) (ofNatSz 0 96) rfl
    (WF_ofNatSz 0 96) (fun b hb => List.mem_range.mp hb)
  have hfw : (Z.pick Gen.Des.p).WF := WF_pick _ _
  have hfs : (Z.pick Gen.Des.p).size = 32 := by rw [size_pick, p_length]
  refine ⟨Z.pick Gen.Des.p, f3, hfs, hfw, ?_⟩
  have hout : out = enc R (L.xor (Z.pick Gen.Des.p)) := by
    apply bits_ext (by rw [o2, size_enc]) o3 (WF_enc _ _)
    intro b hb
    rw [o2] at hb
    have hxs : (L.xor (Z.pick Gen.Des.p)).size = 32 := by rw [size_xor _ _ (by rw [hL, hfs]), hL]
    obtain ⟨t1, t2, t3⟩ := round_table b hb
    have hq := encIdx_lt b hb
    rw [o4, if_pos (List.mem_range.mpr hb), t1, bit_enc _ _ b hb]
    by_cases c : encIdx.getD b 0 < 32
    · obtain ⟨u1, u2, u3⟩ := t2 c
      rw [fxVal_row post p2 _ (Or.inl ⟨_, u1, u2⟩), u1]
      simp only [xorBits, List.foldl_cons, List.foldl_nil, Bool.false_xor]
      have e64 : 64 + encIdx.getD b 0 - 32 = encIdx.getD b 0 + 32 := by omega
      rw [hpost _ u2, u3, bit_src Z L R f4 f5 hL hR _ (by omega), if_neg (by omega), e64, decide_toNat,
        bit_LR L R hL hLw hR _ (by omega), if_neg (by omega), Nat.add_sub_cancel,
        bit_LR R _ hR hRw hxs _ hq, if_pos c]
    · have c' : 32 ≤ encIdx.getD b 0 := Nat.le_of_not_lt c
      obtain ⟨u1, u2, u3, u4, u5, u6⟩ := t3 c'
      have hpl := p_lt (encIdx.getD b 0 - 32) (by omega)
      rw [fxVal_row post p2 _ (Or.inr ⟨_, _, u1, u2, u3, u4⟩), u1]
      simp only [xorBits, List.foldl_cons, List.foldl_nil, Bool.false_xor]
      rw [hpost _ u2, hpost _ u3, u5, u6, bit_src Z L R f4 f5 hL hR _ (by omega), if_pos hpl,
        bit_src Z L R f4 f5 hL hR _ (by omega), if_neg (by omega), decide_toNat,
        bit_LR L R hL hLw hR _ (by omega), if_pos (by omega),
        bit_LR R _ hR hRw hxs _ hq, if_neg c, bit_xor, bit_pick_getD Z _ _ (by rw [p_length]; omega), Bool.xor_comm]
  rw [p1]
  show w.FX post = _
  rw [WhiteDES.FX, hw, o1, hout]

end Proofs.Lemmas.Wb
