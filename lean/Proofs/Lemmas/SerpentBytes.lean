/-
  Byte-string interface of Model.Serpent: `Bits(bytes,bitorder=1)` is the little-endian number; `pack` inverts it.
-/
import Proofs.Lemmas.SerpentEnc
namespace Proofs.Lemmas.SerpentBytes
open Model Model.Bits Proofs.Lemmas.SerpentBits Proofs.Lemmas.SerpentComp Proofs.Lemmas.SerpentSpec Proofs.Lemmas.SerpentKS Proofs.Lemmas.SerpentEnc Spec.Serpent

def IsBytes (s : List Nat) : Prop := ∀ b ∈ s, b < 256
instance (s : List Nat) : Decidable (IsBytes s) := by unfold IsBytes; infer_instance

theorem chunks_go_one (l : List Nat) (fuel : Nat) (h : l.length ≤ fuel) :
    Py.chunks.go 1 l fuel = l.map fun b => [b] := by
  induction l generalizing fuel with
  | nil => cases fuel <;> simp [Py.chunks.go]
  | cons b bs ih =>
    cases fuel with
    | zero => simp at h
    | succ f =>
      simp only [Py.chunks.go, List.isEmpty_cons, Bool.false_eq_true, if_false, List.take_succ_cons, List.take_zero,
        List.drop_succ_cons, List.drop_zero, List.map_cons]
      rw [ih f (by simp at h; omega)]

theorem chunks_one (l : List Nat) : Py.chunks 1 l = l.map fun b => [b] := by
  unfold Py.chunks
  simp only [Nat.succ_ne_zero, if_false]
  exact chunks_go_one l l.length (Nat.le_refl _)

theorem leNat_lt (s : List Nat) : leNat s < 2 ^ (8 * s.length) := by
  induction s with
  | nil => simp [leNat]
  | cons b bs ih =>
    rw [leNat, List.length_cons, show 8 * (bs.length + 1) = 8 * bs.length + 8 by omega, Nat.pow_add]
    have : b % 256 < 256 := Nat.mod_lt _ (by decide)
    omega

theorem groupsVal_bytes (s : List Nat) (hs : IsBytes s) :
    groupsVal id 1 (s.map fun b => [b]) = leNat s := by
  induction s with
  | nil => rfl
  | cons b bs ih =>
    have hb : b < 2 ^ 8 := hs b List.mem_cons_self
    rw [List.map_cons, groupsVal, ih (fun x hx => hs x (List.mem_cons_of_mem _ hx)), leNat]
    have : groupVal id [b] = b := by simp [groupVal]
    rw [this, ← Nat.shiftLeft_add_eq_or_of_lt hb, Nat.shiftLeft_eq, Nat.mod_eq_of_lt hb]
    omega

theorem ofBytes_le (s : List Nat) (hs : IsBytes s) :
    Bits.ofBytes s none 1 = .ok ⟨leNat s, 8 * s.length⟩ := by
  unfold Bits.ofBytes Bits.load
  simp only [bind, Except.bind, pure, Except.pure]
  have h1 : ¬ ((1 : Int) < 0) := by decide
  have h2 : ¬ ((1 : Int) = 0) := by decide
  simp only [h1, h2, if_false, Int.natAbs_one, Nat.mod_one, ne_eq, not_true_eq_false]
  rw [chunks_one, groupsVal_bytes s hs]

theorem leBytes_leNat (s : List Nat) (hs : IsBytes s) : leBytes s.length (leNat s) = s := by
  induction s with
  | nil => rfl
  | cons b bs ih =>
    have hb : b < 256 := hs b List.mem_cons_self
    rw [List.length_cons, leNat, leBytes, Nat.mod_eq_of_lt hb]
    have e1 : (b + 256 * leNat bs) % 256 = b := by omega
    have e2 : (b + 256 * leNat bs) / 256 = leNat bs := by omega
    rw [e1, e2, ih (fun x hx => hs x (List.mem_cons_of_mem _ hx))]

theorem leBytes_isBytes (k n : Nat) : IsBytes (leBytes k n) := by
  induction k generalizing n with
  | zero => intro b hb; simp [leBytes] at hb
  | succ k ih =>
    intro b hb
    rw [leBytes, List.mem_cons] at hb
    rcases hb with hb | hb
    · subst hb; exact Nat.mod_lt _ (by decide)
    · exact ih _ b hb

theorem leBytes_length (k n : Nat) : (leBytes k n).length = k := by
  induction k generalizing n with
  | zero => rfl
  | succ k ih => rw [leBytes, List.length_cons, ih]

theorem leNat_leBytes (k n : Nat) (h : n < 2 ^ (8 * k)) : leNat (leBytes k n) = n := by
  induction k generalizing n with
  | zero => simp at h; simp [leBytes, leNat, h]
  | succ k ih =>
    rw [leBytes, leNat, Nat.mod_mod]
    have h' : n / 256 < 2 ^ (8 * k) := by
      rw [show 8 * (k + 1) = 8 * k + 8 by omega, Nat.pow_add] at h
      omega
    rw [ih _ h']; omega

end Proofs.Lemmas.SerpentBytes
