/-
  Byte-level facts for the Skein proofs: pack of 128/64/96-bit Bits = ToBytes, xor of byte strings, zero strings.
-/
import Model.Skein
import Spec.Skein
import Proofs.Lemmas.TfBytes
namespace Proofs.Lemmas.SkBytes
open Model Proofs.Lemmas.TfBytes
open Spec.Threefish (toInt toBytes)

theorem toBytes16 (v : Nat) : toBytes 16 v =
    [v % 256, v / 2 ^ 8 % 256, v / 2 ^ 16 % 256, v / 2 ^ 24 % 256, v / 2 ^ 32 % 256, v / 2 ^ 40 % 256, v / 2 ^ 48 % 256, v / 2 ^ 56 % 256,
     v / 2 ^ 64 % 256, v / 2 ^ 72 % 256, v / 2 ^ 80 % 256, v / 2 ^ 88 % 256, v / 2 ^ 96 % 256, v / 2 ^ 104 % 256, v / 2 ^ 112 % 256,
     v / 2 ^ 120 % 256] := by
  simp only [toBytes, List.cons.injEq, and_true, true_and, Nat.reducePow]
  omega

/-- `pack(Ts)` of a 128-bit Bits = ToBytes(Ts,16) -/
theorem pack128 (T : Nat) : (⟨T, 128⟩ : Bits).pack = toBytes 16 T := by
  rw [toBytes16]
  unfold Bits.pack Bits.sliceFast Bits.ofNatSz
  simp only [show (128 + 7) / 8 = 16 from rfl,
    show List.range 16 = [0, 1, 2, 3, 4, 5, 6, 7, 8, 9, 10, 11, 12, 13, 14, 15] by decide, List.map_cons, List.map_nil,
    Nat.and_two_pow_sub_one_eq_mod, Nat.shiftRight_eq_div_pow, Bool.false_eq_true, ite_false,
    show (255 : Nat) = 2 ^ 8 - 1 from rfl]
  simp only [Nat.reduceMul, Nat.reduceAdd, show min 8 128 = 8 from rfl, show min 16 128 = 16 from rfl, show min 24 128 = 24 from rfl,
    show min 32 128 = 32 from rfl, show min 40 128 = 40 from rfl, show min 48 128 = 48 from rfl, show min 56 128 = 56 from rfl,
    show min 64 128 = 64 from rfl, show min 72 128 = 72 from rfl, show min 80 128 = 80 from rfl, show min 88 128 = 88 from rfl,
    show min 96 128 = 96 from rfl, show min 104 128 = 104 from rfl, show min 112 128 = 112 from rfl, show min 120 128 = 120 from rfl,
    show min 128 128 = 128 from rfl, Nat.reduceSub, Nat.reducePow, List.cons.injEq, and_true]
  omega

/-- `pack(Bits(n,64))` = ToBytes(n,8) -/
theorem pack64 (i : Nat) : (Bits.ofNatSz i 64).pack = toBytes 8 i := by
  have h := pack_ofBV (BitVec.ofNat 64 i)
  simp only [TfBridge.ofBV, BitVec.toNat_ofNat] at h
  show (⟨i % 2 ^ 64, 64⟩ : Bits).pack = _
  rw [h, toBytes8, toBytes8]
  simp only [List.cons.injEq, and_true]
  omega

theorem isBytes_replicate0 (n : Nat) : IsBytes (List.replicate n 0) := by
  intro b hb; rw [List.eq_of_mem_replicate hb]; decide

theorem isBytes_append {a b : List Nat} (ha : IsBytes a) (hb : IsBytes b) : IsBytes (a ++ b) := by
  intro x hx
  rcases List.mem_append.1 hx with h | h
  · exact ha x h
  · exact hb x h

theorem xorstr_eq (a b : List Nat) : Skein.xorstr a b = Spec.Skein.xorBytes a b := rfl

theorem xor_length (a b : List Nat) (h : a.length = b.length) : (Spec.Skein.xorBytes a b).length = b.length := by
  simp [Spec.Skein.xorBytes, h]

theorem isBytes_xor (a b : List Nat) (ha : IsBytes a) (hb : IsBytes b) : IsBytes (Spec.Skein.xorBytes a b) := by
  induction a generalizing b with
  | nil => intro x hx; simp [Spec.Skein.xorBytes] at hx
  | cons x a ih =>
    cases b with
    | nil => intro y hy; simp [Spec.Skein.xorBytes] at hy
    | cons y b =>
      intro z hz
      simp only [Spec.Skein.xorBytes, List.zipWith_cons_cons, List.mem_cons] at hz
      rcases hz with hz | hz
      · subst hz
        exact Nat.xor_lt_two_pow (n := 8) (ha.head) (hb.head)
      · exact ih b ha.tail hb.tail z hz

end Proofs.Lemmas.SkBytes
