/-
  Proofs.Lemmas.StreamSound — `History.Sound` for the Salsa20 / ChaCha object machine (helper lemmas for Proofs.C10).

  The input block `p` is part configuration (constants, key words), part scratch (nonce and counter words, overwritten
  in place by `keystream`).  Invariant: `p` holds 16 words that differ from the constructor's block at most in the nonce
  and counter positions (`StreamEnc.SameKey`, from the C06 lemma library).
-/
import Proofs.Lemmas.History
import Proofs.Lemmas.SalsaBytes
namespace Proofs.Lemmas.StreamSound
open Model Model.Objects Proofs.Lemmas.History Proofs.Lemmas.StreamEnc Proofs.Lemmas.StreamPoly Proofs.Lemmas.SalsaRounds
  Proofs.Lemmas.SalsaBytes

def coreOf (c : StreamO.Cfg) : Nat → List Word → List Word :=
  if c.chacha then Spec.Chacha.coreWords else Spec.Salsa20.coreWords

theorem vspec (c : StreamO.Cfg) : VariantSpec (StreamO.variant c) (coreOf c) := by
  unfold StreamO.variant coreOf
  split
  · exact chachaSpec
  · exact salsaSpec

/-- admissible configurations: the constructor left 16 words of 32 bits in `p` (true of every object the library builds) -/
def StreamAdm (c : StreamO.Cfg) : Prop := ∃ P0 : List Word, P0.length = 16 ∧ c.p0 = ofBV P0

/-- `p` holds the constructor's constants and key words; only the nonce and counter words may differ -/
def StreamInv (s : StreamO.State) : Prop :=
  ∃ P0 P : List Word, P0.length = 16 ∧ s.cfg.p0 = ofBV P0 ∧ s.p = ofBV P ∧
    SameKey (StreamO.variant s.cfg).nonceAt (StreamO.variant s.cfg).ctrAt P0 P

/-- well-formed operations: messages are byte strings of fewer than 2^70 bytes -/
def StreamValid : StreamO.Op → Prop
  | .enc _ m => (∀ b ∈ m, b < 256) ∧ (m.length + 63) / 64 ≤ 2 ^ 64
  | .dec _ m => (∀ b ∈ m, b < 256) ∧ (m.length + 63) / 64 ≤ 2 ^ 64
  | .keystream _ _ => True
  | .hash _ => True

theorem bytes_of_lt (m : List Nat) (h : ∀ b ∈ m, b < 256) : m = (m.map (BitVec.ofNat 8)).map (·.toNat) := by
  induction m with
  | nil => rfl
  | cons b t ih =>
    simp only [List.map_cons, BitVec.toNat_ofNat]
    rw [← ih (fun x hx => h x (List.mem_cons_of_mem _ hx)), Nat.mod_eq_of_lt (h b List.mem_cons_self)]

/-- `enc` on an object whose block is `ofBV P`: either the argument check fails (independently of `P`), or the result is
    the word-level `encW` and the block afterwards has the same key -/
theorem enc_cases (c : StreamO.Cfg) (P : List Word) (hP : P.length = 16) (v : Bits) (m : List Nat)
    (hm : (∀ b ∈ m, b < 256) ∧ (m.length + 63) / 64 ≤ 2 ^ 64) :
    (c.K.isNone ∨ v.size ≠ 64) ∧ (∃ e, ∀ Q : List Word, Salsa.enc (StreamO.variant c) ⟨c.K, ofBV Q, c.dround⟩ v m = .error e) ∨
    (∃ K P', c.K = some K ∧ SameKey (StreamO.variant c).nonceAt (StreamO.variant c).ctrAt P P' ∧
      Salsa.enc (StreamO.variant c) ⟨c.K, ofBV P, c.dround⟩ v m =
        .ok ((encW (coreOf c) c.dround (StreamO.variant c).nonceAt (StreamO.variant c).ctrAt P v.ival 0
                (m.map (BitVec.ofNat 8))).map (·.toNat), ⟨c.K, ofBV P', c.dround⟩)) := by
  cases hK : c.K with
  | none =>
    left
    refine ⟨Or.inl rfl, "AssertionError", fun Q => ?_⟩
    simp [Salsa.enc, Salsa.encFrom, Salsa.setNonce, bind, Except.bind, throw, throwThe, MonadExceptOf.throw]
  | some K =>
    by_cases hv : v.size = 64
    · right
      have ev : v = ⟨v.ival, 64⟩ := by cases v; simp only at hv; subst hv; rfl
      have hb : 0 + ((m.map (BitVec.ofNat 8)).length + 63) / 64 ≤ 2 ^ 64 := by simpa using hm.2
      obtain ⟨P', hk, he⟩ := encFrom_words (vspec c) K P hP c.dround v.ival 0 (m.map (BitVec.ofNat 8)) hb
      refine ⟨K, P', rfl, hk, ?_⟩
      unfold Salsa.enc
      rw [← bytes_of_lt m hm.1, ← ev] at he
      exact he
    · left
      refine ⟨Or.inr hv, "AssertionError", fun Q => ?_⟩
      simp [Salsa.enc, Salsa.encFrom, Salsa.setNonce, hv, bind, Except.bind, throw, throwThe, MonadExceptOf.throw]


theorem ofBV_inj : ∀ (a b : List Word), a.map (fun x => Int.ofNat x.toNat) = b.map (fun x => Int.ofNat x.toNat) → a = b
  | [], [], _ => rfl
  | [], _ :: _, h => by cases h
  | _ :: _, [], h => by cases h
  | x :: a, y :: b, h => by
    simp only [List.map_cons, List.cons.injEq] at h
    rw [BitVec.eq_of_toNat_eq (Int.ofNat.inj h.1), ofBV_inj a b h.2]

theorem obj_eq (s : StreamO.State) (P : List Word) (h : s.p = ofBV P) : StreamO.obj s = ⟨s.cfg.K, ofBV P, s.cfg.dround⟩ := by
  unfold StreamO.obj; rw [h]

/-- result and next state of `enc`/`dec` (the same function) in terms of the constructor's words -/
theorem enc_out_next (s : StreamO.State) (P0 P : List Word) (hP0 : P0.length = 16) (hp : s.p = ofBV P)
    (hk : SameKey (StreamO.variant s.cfg).nonceAt (StreamO.variant s.cfg).ctrAt P0 P) (v : Bits) (m : List Nat)
    (hm : (∀ b ∈ m, b < 256) ∧ (m.length + 63) / 64 ≤ 2 ^ 64) :
    ∃ (r : Res) (P' : List Word), SameKey (StreamO.variant s.cfg).nonceAt (StreamO.variant s.cfg).ctrAt P0 P' ∧
      (∀ Q : List Word, Q.length = 16 → SameKey (StreamO.variant s.cfg).nonceAt (StreamO.variant s.cfg).ctrAt P0 Q →
        ∀ t : StreamO.State, t.cfg = s.cfg → t.p = ofBV Q → (StreamO.step t (.enc v m)).2 = r) ∧
      (StreamO.step s (.enc v m)).1 = { s with p := ofBV P' } := by
  have hP : P.length = 16 := hk.1.trans hP0
  rcases enc_cases s.cfg P hP v m hm with ⟨_, e, he⟩ | ⟨K, P', hK, hk', he⟩
  · refine ⟨.error e, P, hk, ?_, ?_⟩
    · intro Q _ _ t ht hq
      unfold StreamO.step; simp only
      rw [obj_eq t Q hq, ht, he Q]
    · unfold StreamO.step; simp only
      rw [obj_eq s P hp, he P]
      cases s; simp only at hp; subst hp; rfl
  · refine ⟨.ok (.bytes ((encW (coreOf s.cfg) s.cfg.dround (StreamO.variant s.cfg).nonceAt (StreamO.variant s.cfg).ctrAt P0
        v.ival 0 (m.map (BitVec.ofNat 8))).map (·.toNat))), P', hk.trans hk', ?_, ?_⟩
    · intro Q hQ hkQ t ht hq
      rcases enc_cases s.cfg Q hQ v m hm with ⟨_, e2, hbad⟩ | ⟨K2, Q', _, _, he2⟩
      · have := hbad P
        rw [he] at this; cases this
      · unfold StreamO.step; simp only
        rw [obj_eq t Q hq, ht, he2]
        simp only
        rw [encW_sameKey _ _ _ _ hkQ]
    · unfold StreamO.step; simp only
      rw [obj_eq s P hp, he]

theorem dec_eq_enc (s : StreamO.State) (v : Bits) (m : List Nat) : StreamO.step s (.dec v m) = StreamO.step s (.enc v m) := rfl

/-- the generator loop of `keystream` keeps the key words -/
theorem blocks_sameKey (c : StreamO.Cfg) (n : Nat) : ∀ (i : Nat) (K : Option (List Bits)) (Q : List Word), Q.length = 16 →
    ∃ Q', SameKey (StreamO.variant c).nonceAt (StreamO.variant c).ctrAt Q Q' ∧
      StreamO.blocks (StreamO.variant c) n i ⟨K, ofBV Q, c.dround⟩ = .ok ⟨K, ofBV Q', c.dround⟩ := by
  induction n with
  | zero => intro i K Q _; exact ⟨Q, SameKey.refl _ _ Q, rfl⟩
  | succ n ih =>
    intro i K Q hQ
    unfold StreamO.blocks
    rw [block_words (vspec c) K Q hQ]
    simp only
    obtain ⟨Q', hk, h⟩ := ih (i + 1) K (ctrSet (StreamO.variant c).ctrAt Q i) (by rw [ctrSet_length]; exact hQ)
    exact ⟨Q', (SameKey.ctrSet _ _ Q i).trans hk, h⟩

theorem keystream_next (s : StreamO.State) (P0 P : List Word) (hP0 : P0.length = 16) (hp : s.p = ofBV P)
    (hk : SameKey (StreamO.variant s.cfg).nonceAt (StreamO.variant s.cfg).ctrAt P0 P) (v : Bits) (n : Nat) :
    ∃ P', SameKey (StreamO.variant s.cfg).nonceAt (StreamO.variant s.cfg).ctrAt P0 P' ∧
      (StreamO.step s (.keystream v n)).1 = { s with p := ofBV P' } := by
  have hP : P.length = 16 := hk.1.trans hP0
  have hs : s = { s with p := ofBV P } := by cases s; simp only at hp; subst hp; rfl
  unfold StreamO.step; simp only
  rw [obj_eq s P hp]
  cases hK : s.cfg.K with
  | none =>
    refine ⟨P, hk, ?_⟩
    simp only [Salsa.setNonce, Option.isNone_none, ↓reduceIte, bind, Except.bind, throw, throwThe, MonadExceptOf.throw]
    exact hs
  | some K =>
    by_cases hv : v.size = 64
    · have ev : v = ⟨v.ival, 64⟩ := by cases v; simp only at hv; subst hv; rfl
      rw [ev, setNonce_words (vspec s.cfg) K P hP]
      simp only
      obtain ⟨Q', hkq, hb⟩ := blocks_sameKey s.cfg n 0 (some K) (nonceSet (StreamO.variant s.cfg).nonceAt P v.ival)
        (by rw [nonceSet_length]; exact hP)
      rw [hb]
      exact ⟨Q', hk.trans ((SameKey.nonceSet _ _ P v.ival).trans hkq), rfl⟩
    · refine ⟨P, hk, ?_⟩
      simp only [Salsa.setNonce, Option.isNone_some, Bool.false_eq_true, ↓reduceIte, ne_eq, hv, not_false_eq_true, bind,
        Except.bind, throw, throwThe, MonadExceptOf.throw]
      exact hs

theorem stream_cfg (s : StreamO.State) (op : StreamO.Op) : (StreamO.step s op).1.cfg = s.cfg := by
  cases op with
  | enc v m => unfold StreamO.step; simp only; split <;> rfl
  | dec v m => unfold StreamO.step; simp only; split <;> rfl
  | keystream v n =>
    unfold StreamO.step; simp only
    split
    · rfl
    · split <;> rfl
  | hash m => rfl

theorem stream_inv (s : StreamO.State) (op : StreamO.Op) (hv : StreamValid op) (h : StreamInv s) :
    StreamInv ((StreamO.step s op).1) := by
  obtain ⟨P0, P, hP0, hc, hp, hk⟩ := h
  cases op with
  | enc v m =>
    obtain ⟨_, P', hk', _, hn⟩ := enc_out_next s P0 P hP0 hp hk v m hv
    rw [hn]; exact ⟨P0, P', hP0, hc, rfl, hk'⟩
  | dec v m =>
    rw [dec_eq_enc]
    obtain ⟨_, P', hk', _, hn⟩ := enc_out_next s P0 P hP0 hp hk v m hv
    rw [hn]; exact ⟨P0, P', hP0, hc, rfl, hk'⟩
  | keystream v n =>
    obtain ⟨P', hk', hn⟩ := keystream_next s P0 P hP0 hp hk v n
    rw [hn]; exact ⟨P0, P', hP0, hc, rfl, hk'⟩
  | hash m => exact ⟨P0, P, hP0, hc, hp, hk⟩

theorem stream_result (s s' : StreamO.State) (op : StreamO.Op) (hp : StreamO.isProbe op = true) (hv : StreamValid op)
    (h : StreamInv s) (h' : StreamInv s') (hc : s.cfg = s'.cfg) : (StreamO.step s op).2 = (StreamO.step s' op).2 := by
  obtain ⟨P0, P, hP0, hc0, hpp, hk⟩ := h
  obtain ⟨P0', P', hP0', hc0', hpp', hk'⟩ := h'
  have e0 : P0' = P0 := by
    have : ofBV P0' = ofBV P0 := by rw [← hc0', ← hc0, hc]
    have hi := congrArg Poly.ival this
    simp only [ofBV] at hi
    exact ofBV_inj _ _ hi
  subst e0
  rw [← hc] at hk'
  cases op with
  | enc v m =>
    obtain ⟨r, _, _, hr, _⟩ := enc_out_next s P0' P hP0 hpp hk v m hv
    rw [hr P (hk.1.trans hP0) hk s rfl hpp, hr P' (hk'.1.trans hP0) hk' s' hc.symm hpp']
  | dec v m =>
    rw [dec_eq_enc, dec_eq_enc]
    obtain ⟨r, _, _, hr, _⟩ := enc_out_next s P0' P hP0 hpp hk v m hv
    rw [hr P (hk.1.trans hP0) hk s rfl hpp, hr P' (hk'.1.trans hP0) hk' s' hc.symm hpp']
  | keystream v n => cases hp
  | hash m =>
    show bytesRes (Salsa.hash (StreamO.variant s.cfg) m) = bytesRes (Salsa.hash (StreamO.variant s'.cfg) m)
    rw [hc]

theorem stream_sound : Sound StreamO.machine StreamAdm StreamValid StreamInv where
  cfg_init _ := rfl
  cfg_preserved s op := stream_cfg s op
  adm_reconf _ _ h := h
  inv_init c hc := by
    obtain ⟨P0, hP0, hp⟩ := hc
    exact ⟨P0, P0, hP0, hp, hp, SameKey.refl _ _ P0⟩
  inv_preserved s op hv h := stream_inv s op hv h
  result_depends_on_cfg s s' op hp hv _ h h' hc := stream_result s s' op hp hv h h' hc

end Proofs.Lemmas.StreamSound
