/-
  Round structure of Model.Aes.encW / decW: refinement to FIPS 197 Cipher / InvCipher and the round-trip
  lemmas, for any well-formed key schedule (so for every key size at once).
-/
import Proofs.Lemmas.AesKey
namespace Proofs.Aes
open Model Model.Aes Model.Gen.Aes

/-! ### the remaining component refinements -/

theorem shiftRows_spec {s : List Nat} (h : s.length = 16) : shiftRows s = Spec.Aes.shiftRows s := by
  obtain ⟨a0, a1, a2, a3, a4, a5, a6, a7, a8, a9, a10, a11, a12, a13, a14, a15, rfl⟩ := len16 h
  rw [shiftRows, shiftRowsIdx_eq]
  rfl

theorem invShiftRows_spec {s : List Nat} (h : s.length = 16) : invShiftRows s = Spec.Aes.invShiftRows s := by
  obtain ⟨a0, a1, a2, a3, a4, a5, a6, a7, a8, a9, a10, a11, a12, a13, a14, a15, rfl⟩ := len16 h
  rw [invShiftRows, invShiftRowsIdx_eq]
  rfl

theorem spec_mixColumns_eq {a0 a1 a2 a3 a4 a5 a6 a7 a8 a9 a10 a11 a12 a13 a14 a15 : Nat} :
    Spec.Aes.mixColumns [a0, a1, a2, a3, a4, a5, a6, a7, a8, a9, a10, a11, a12, a13, a14, a15] =
      Spec.Aes.mixColumn [a0, a1, a2, a3] ++ Spec.Aes.mixColumn [a4, a5, a6, a7] ++
      Spec.Aes.mixColumn [a8, a9, a10, a11] ++ Spec.Aes.mixColumn [a12, a13, a14, a15] := rfl

theorem spec_invMixColumns_eq {a0 a1 a2 a3 a4 a5 a6 a7 a8 a9 a10 a11 a12 a13 a14 a15 : Nat} :
    Spec.Aes.invMixColumns [a0, a1, a2, a3, a4, a5, a6, a7, a8, a9, a10, a11, a12, a13, a14, a15] =
      Spec.Aes.invMixColumn [a0, a1, a2, a3] ++ Spec.Aes.invMixColumn [a4, a5, a6, a7] ++
      Spec.Aes.invMixColumn [a8, a9, a10, a11] ++ Spec.Aes.invMixColumn [a12, a13, a14, a15] := rfl

theorem mixColumns_spec {s : List Nat} (h : St s) : mixColumns s = Spec.Aes.mixColumns s := by
  obtain ⟨a0, a1, a2, a3, a4, a5, a6, a7, a8, a9, a10, a11, a12, a13, a14, a15, rfl, h0, h1, h2, h3⟩ := st_cases h
  rw [mixColumns_eq, spec_mixColumns_eq, mixColumn_spec h0, mixColumn_spec h1, mixColumn_spec h2, mixColumn_spec h3]

theorem invMixColumns_spec {s : List Nat} (h : St s) : invMixColumns s = Spec.Aes.invMixColumns s := by
  obtain ⟨a0, a1, a2, a3, a4, a5, a6, a7, a8, a9, a10, a11, a12, a13, a14, a15, rfl, h0, h1, h2, h3⟩ := st_cases h
  rw [invMixColumns_eq, spec_invMixColumns_eq, invMixColumn_spec h0, invMixColumn_spec h1, invMixColumn_spec h2,
    invMixColumn_spec h3]

theorem addRoundKey_spec {s : List Nat} {w : List (List Nat)} {r : Nat} (hs : St s) (hk : St (roundKey w r)) :
    addRoundKey s (roundKey w r) = Spec.Aes.addRoundKey s w r := by
  rw [addRoundKey_eq (by rw [hs.1, hk.1])]
  rfl

/-! ### rounds -/

theorem encRound_st {w : List (List Nat)} {s : List Nat} {r : Nat} (hs : St s) (hk : St (roundKey w r)) :
    St (encRound w s r) :=
  addRoundKey_st (mixColumns_st (shiftRows_st (subBytes_st hs))) hk

theorem decRound_st {w : List (List Nat)} {s : List Nat} {r : Nat} (hs : St s) (hk : St (roundKey w r)) :
    St (decRound w s r) :=
  invMixColumns_st (addRoundKey_st (invSubBytes_st (invShiftRows_st hs)) hk)

theorem encRound_spec {w : List (List Nat)} {s : List Nat} {r : Nat} (hs : St s) (hk : St (roundKey w r)) :
    encRound w s r = Spec.Aes.round w s r := by
  unfold encRound Spec.Aes.round
  rw [addRoundKey_spec (mixColumns_st (shiftRows_st (subBytes_st hs))) hk,
    mixColumns_spec (shiftRows_st (subBytes_st hs)), shiftRows_spec (subBytes_st hs).1, subBytes_spec hs.2]

theorem decRound_spec {w : List (List Nat)} {s : List Nat} {r : Nat} (hs : St s) (hk : St (roundKey w r)) :
    decRound w s r = Spec.Aes.invRound w s r := by
  unfold decRound Spec.Aes.invRound
  rw [invMixColumns_spec (addRoundKey_st (invSubBytes_st (invShiftRows_st hs)) hk),
    addRoundKey_spec (invSubBytes_st (invShiftRows_st hs)) hk, invSubBytes_spec (invShiftRows_st hs).2,
    invShiftRows_spec hs.1]

/-- every round key up to round n is a state -/
def KeysOk (w : List (List Nat)) (n : Nat) : Prop := ∀ r ≤ n, St (roundKey w r)

theorem keysOk_of_wf {w : List (List Nat)} {n : Nat} (hw : KsWF w) (hl : 4 * (n + 1) ≤ w.length) : KeysOk w n :=
  fun _ hr => roundKey_st hw (by omega)

theorem enc_loop {w : List (List Nat)} {s : List Nat} (hs : St s) :
    ∀ n, KeysOk w n →
      (List.range' 1 n).foldl (encRound w) s = Spec.Aes.rounds w s n ∧ St (Spec.Aes.rounds w s n) := by
  intro n
  induction n with
  | zero => intro _; exact ⟨rfl, hs⟩
  | succ n ih =>
    intro hk
    obtain ⟨e, hst⟩ := ih (fun r hr => hk r (by omega))
    rw [List.range'_concat, List.foldl_append, e]
    simp only [List.foldl_cons, List.foldl_nil, Nat.one_mul, Spec.Aes.rounds]
    have hkk : St (roundKey w (1 + n)) := hk _ (by omega)
    rw [Nat.add_comm 1 n] at hkk ⊢
    exact ⟨encRound_spec hst hkk, by rw [← encRound_spec hst hkk]; exact encRound_st hst hkk⟩

theorem dec_loop {w : List (List Nat)} :
    ∀ n (s : List Nat), St s → KeysOk w n →
      (List.range' 1 n).reverse.foldl (decRound w) s = Spec.Aes.invRounds w s n ∧ St (Spec.Aes.invRounds w s n) := by
  intro n
  induction n with
  | zero => intro s hs _; exact ⟨rfl, hs⟩
  | succ n ih =>
    intro s hs hk
    have hkk : St (roundKey w (n + 1)) := hk _ (by omega)
    rw [List.range'_concat, List.reverse_append]
    simp only [List.reverse_cons, List.reverse_nil, List.nil_append, List.cons_append, List.foldl_cons, Nat.one_mul,
      Spec.Aes.invRounds]
    rw [Nat.add_comm 1 n, decRound_spec hs hkk]
    have hst : St (Spec.Aes.invRound w s (n + 1)) := by rw [← decRound_spec hs hkk]; exact decRound_st hs hkk
    exact ih _ hst (fun r hr => hk r (by omega))

/-- `enc` body = FIPS 197 Cipher, for any schedule whose round keys 0..Nr are states -/
theorem encW_spec {w : List (List Nat)} {Nr : Nat} {M : List Nat} (hNr : 1 ≤ Nr) (hk : KeysOk w Nr) (hM : St M) :
    encW w Nr M = Spec.Aes.cipherW w Nr M ∧ St (encW w Nr M) := by
  have h0 := hk 0 (by omega)
  have hN := hk Nr (Nat.le_refl _)
  have hs0 : St (addRoundKey M (roundKey w 0)) := addRoundKey_st hM h0
  obtain ⟨e, hst⟩ := enc_loop (w := w) hs0 (Nr - 1) (fun r hr => hk r (by omega))
  have hfin : St (shiftRows (subBytes (Spec.Aes.rounds w (addRoundKey M (roundKey w 0)) (Nr - 1)))) :=
    shiftRows_st (subBytes_st hst)
  unfold encW Spec.Aes.cipherW
  simp only []
  rw [e]
  refine ⟨?_, addRoundKey_st hfin hN⟩
  rw [addRoundKey_spec hfin hN, shiftRows_spec (subBytes_st hst).1, subBytes_spec hst.2, addRoundKey_spec hM h0]

theorem decW_spec {w : List (List Nat)} {Nr : Nat} {C : List Nat} (hNr : 1 ≤ Nr) (hk : KeysOk w Nr) (hC : St C) :
    decW w Nr C = Spec.Aes.invCipherW w Nr C ∧ St (decW w Nr C) := by
  have h0 := hk 0 (by omega)
  have hN := hk Nr (Nat.le_refl _)
  have hs0 : St (addRoundKey C (roundKey w Nr)) := addRoundKey_st hC hN
  obtain ⟨e, hst⟩ := dec_loop (w := w) (Nr - 1) _ hs0 (fun r hr => hk r (by omega))
  have hfin : St (invSubBytes (invShiftRows (Spec.Aes.invRounds w (addRoundKey C (roundKey w Nr)) (Nr - 1)))) :=
    invSubBytes_st (invShiftRows_st hst)
  unfold decW Spec.Aes.invCipherW
  simp only []
  rw [e]
  refine ⟨?_, addRoundKey_st hfin h0⟩
  rw [addRoundKey_spec hfin h0, invSubBytes_spec (invShiftRows_st hst).2, invShiftRows_spec hst.1, addRoundKey_spec hC hN]

/-! ### dec ∘ enc and enc ∘ dec on the model, for any schedule -/

/-- state after the initial AddRoundKey and n full rounds -/
def encState (w : List (List Nat)) (M : List Nat) (n : Nat) : List Nat :=
  (List.range' 1 n).foldl (encRound w) (addRoundKey M (roundKey w 0))

theorem encState_succ (w : List (List Nat)) (M : List Nat) (n : Nat) :
    encState w M (n + 1) = encRound w (encState w M n) (n + 1) := by
  unfold encState
  rw [List.range'_concat, List.foldl_append]
  simp [Nat.add_comm]

theorem encState_st {w : List (List Nat)} {M : List Nat} (hM : St M) :
    ∀ n, KeysOk w n → St (encState w M n) := by
  intro n
  induction n with
  | zero => intro hk; exact addRoundKey_st hM (hk 0 (Nat.le_refl _))
  | succ n ih =>
    intro hk
    rw [encState_succ]
    exact encRound_st (ih fun r hr => hk r (by omega)) (hk _ (Nat.le_refl _))

/-- one inverse round undoes one round "shifted by SubBytes/ShiftRows" -/
theorem decRound_undo {w : List (List Nat)} {x : List Nat} {r : Nat} (hx : St x) (hk : St (roundKey w r)) :
    decRound w (shiftRows (subBytes (encRound w x r))) r = shiftRows (subBytes x) := by
  have h1 : St (encRound w x r) := encRound_st hx hk
  unfold decRound
  rw [invShiftRows_shiftRows (subBytes_st h1).1, invSubBytes_subBytes h1.2]
  unfold encRound
  have h2 : St (mixColumns (shiftRows (subBytes x))) := mixColumns_st (shiftRows_st (subBytes_st hx))
  rw [addRoundKey_addRoundKey (by rw [h2.1, hk.1]), invMixColumns_mixColumns (shiftRows_st (subBytes_st hx))]

theorem dec_loop_undo {w : List (List Nat)} {M : List Nat} (hM : St M) :
    ∀ n, KeysOk w n →
      (List.range' 1 n).reverse.foldl (decRound w) (shiftRows (subBytes (encState w M n)))
        = shiftRows (subBytes (encState w M 0)) := by
  intro n
  induction n with
  | zero => intro _; rfl
  | succ n ih =>
    intro hk
    have hk' : KeysOk w n := fun r hr => hk r (by omega)
    rw [List.range'_concat, List.reverse_append]
    simp only [List.reverse_cons, List.reverse_nil, List.nil_append, List.cons_append, List.foldl_cons, Nat.one_mul]
    rw [Nat.add_comm 1 n, encState_succ, decRound_undo (encState_st hM n hk') (hk _ (Nat.le_refl _))]
    exact ih hk'

theorem decW_encW {w : List (List Nat)} {Nr : Nat} {M : List Nat} (hNr : 1 ≤ Nr) (hk : KeysOk w Nr) (hM : St M) :
    decW w Nr (encW w Nr M) = M := by
  have h0 := hk 0 (by omega)
  have hN := hk Nr (Nat.le_refl _)
  have hk' : KeysOk w (Nr - 1) := fun r hr => hk r (by omega)
  have hst : St (encState w M (Nr - 1)) := encState_st hM _ hk'
  have hss : St (shiftRows (subBytes (encState w M (Nr - 1)))) := shiftRows_st (subBytes_st hst)
  have e1 : encW w Nr M = addRoundKey (shiftRows (subBytes (encState w M (Nr - 1)))) (roundKey w Nr) := rfl
  unfold decW
  simp only []
  rw [e1, addRoundKey_addRoundKey (by rw [hss.1, hN.1]), dec_loop_undo hM _ hk']
  have hs0 : St (encState w M 0) := encState_st hM 0 (fun r hr => hk r (by omega))
  rw [invShiftRows_shiftRows (subBytes_st hs0).1, invSubBytes_subBytes hs0.2]
  exact addRoundKey_addRoundKey (by rw [hM.1, h0.1])

/-! the converse direction -/

theorem dec_fold_st {w : List (List Nat)} {n : Nat} {y : List Nat} (hy : St y) (hk : KeysOk w n) :
    St ((List.range' 1 n).reverse.foldl (decRound w) y) := by
  obtain ⟨e, h⟩ := dec_loop (w := w) n y hy hk
  rw [e]; exact h

/-- one round undoes one inverse round "shifted by InvShiftRows/InvSubBytes" -/
theorem encRound_undo {w : List (List Nat)} {y : List Nat} {r : Nat} (hy : St y) (hk : St (roundKey w r)) :
    encRound w (invSubBytes (invShiftRows (decRound w y r))) r = invSubBytes (invShiftRows y) := by
  have hz : St (decRound w y r) := decRound_st hy hk
  unfold encRound
  rw [subBytes_invSubBytes (invShiftRows_st hz).2, shiftRows_invShiftRows hz.1]
  unfold decRound
  have h1 : St (invSubBytes (invShiftRows y)) := invSubBytes_st (invShiftRows_st hy)
  rw [mixColumns_invMixColumns (addRoundKey_st h1 hk), addRoundKey_addRoundKey (by rw [h1.1, hk.1])]

theorem enc_loop_undo {w : List (List Nat)} :
    ∀ n (y : List Nat), St y → KeysOk w n →
      (List.range' 1 n).foldl (encRound w)
          (invSubBytes (invShiftRows ((List.range' 1 n).reverse.foldl (decRound w) y)))
        = invSubBytes (invShiftRows y) := by
  intro n
  induction n with
  | zero => intro y _ _; rfl
  | succ n ih =>
    intro y hy hk
    have hk' : KeysOk w n := fun r hr => hk r (by omega)
    have hkk : St (roundKey w (n + 1)) := hk _ (Nat.le_refl _)
    have hy' : St (decRound w y (n + 1)) := decRound_st hy hkk
    have e : (List.range' 1 (n + 1)).reverse.foldl (decRound w) y
        = (List.range' 1 n).reverse.foldl (decRound w) (decRound w y (n + 1)) := by
      rw [List.range'_concat, List.reverse_append]
      simp [Nat.add_comm]
    rw [e, List.range'_concat, List.foldl_append, ih _ hy' hk']
    simp only [List.foldl_cons, List.foldl_nil, Nat.one_mul]
    rw [Nat.add_comm 1 n]
    exact encRound_undo hy hkk

theorem encW_decW {w : List (List Nat)} {Nr : Nat} {C : List Nat} (hNr : 1 ≤ Nr) (hk : KeysOk w Nr) (hC : St C) :
    encW w Nr (decW w Nr C) = C := by
  have h0 := hk 0 (by omega)
  have hN := hk Nr (Nat.le_refl _)
  have hk' : KeysOk w (Nr - 1) := fun r hr => hk r (by omega)
  have hy : St (addRoundKey C (roundKey w Nr)) := addRoundKey_st hC hN
  have hz := dec_fold_st hy hk'
  have hzz : St (invSubBytes (invShiftRows ((List.range' 1 (Nr - 1)).reverse.foldl (decRound w) (addRoundKey C (roundKey w Nr))))) :=
    invSubBytes_st (invShiftRows_st hz)
  have e1 : decW w Nr C = addRoundKey (invSubBytes (invShiftRows
      ((List.range' 1 (Nr - 1)).reverse.foldl (decRound w) (addRoundKey C (roundKey w Nr))))) (roundKey w 0) := rfl
  unfold encW
  simp only []
  rw [e1, addRoundKey_addRoundKey (by rw [hzz.1, h0.1]), enc_loop_undo _ _ hy hk',
    subBytes_invSubBytes (invShiftRows_st hy).2, shiftRows_invShiftRows hy.1]
  exact addRoundKey_addRoundKey (by rw [hC.1, hN.1])

end Proofs.Aes
