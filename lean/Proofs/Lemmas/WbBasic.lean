/-
  Helper lemmas for C18 (white-box DES): `Except` plumbing.
-/
import Model.Wb
namespace Proofs.Lemmas.Wb
open Model

/-- an `Except` whose `toOption` is `some a` is `.ok a` (lets closed `Except` terms be decided through `Option`) -/
theorem ok_of_toOption {ε α} {x : Except ε α} {a : α} (h : x.toOption = some a) : x = .ok a := by
  cases x with
  | error e => simp [Except.toOption] at h
  | ok b => simp [Except.toOption] at h; rw [h]

end Proofs.Lemmas.Wb
