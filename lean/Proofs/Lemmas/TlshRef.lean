/-
  Helper lemmas for the refinement Model.Tlsh = Spec.Tlsh (Proofs.C19.tlsh_refines).
-/
import Proofs.Lemmas.Tlsh
import Spec.Tlsh
namespace Proofs.Lemmas.Tlsh
open Model Model.Tlsh Model.Gen.Lsh

/-! ### the sorted entry number k is the k-th order statistic -/

theorem sorted_count_ge (s : List Nat) (hs : s.Pairwise (· ≤ ·)) (k : Nat) (hk : k < s.length) (x : Nat) (hx : s[k] ≤ x) :
    k < (s.filter (· ≤ x)).length := by
  have hsplit : s = s.take (k + 1) ++ s.drop (k + 1) := (List.take_append_drop _ _).symm
  have hall : (s.take (k + 1)).filter (· ≤ x) = s.take (k + 1) := by
    rw [List.filter_eq_self]
    intro a ha
    obtain ⟨i, hi, rfl⟩ := List.getElem_of_mem ha
    have hi' : i < k + 1 := by simp at hi; omega
    have e : (s.take (k + 1))[i] = s[i]'(by simp at hi; omega) := by simp
    rw [e]
    have hle : s[i]'(by simp at hi; omega) ≤ s[k] := by
      by_cases hip : i = k
      · subst hip; exact Nat.le_refl _
      · exact (List.pairwise_iff_getElem.mp hs) i k (by simp at hi; omega) hk (by omega)
    simp; omega
  rw [hsplit, List.filter_append, List.length_append, hall]
  simp; omega

theorem sorted_count_le (s : List Nat) (hs : s.Pairwise (· ≤ ·)) (k : Nat) (hk : k < s.length) (x : Nat) (hx : x < s[k]) :
    (s.filter (· ≤ x)).length ≤ k := by
  have hsplit : s = s.take k ++ s.drop k := (List.take_append_drop _ _).symm
  have hnone : (s.drop k).filter (· ≤ x) = [] := by
    rw [List.filter_eq_nil_iff]
    intro a ha
    obtain ⟨i, hi, rfl⟩ := List.getElem_of_mem ha
    have hi' : k + i < s.length := by simp at hi; omega
    have e : (s.drop k)[i] = s[k + i] := by simp
    rw [e]
    have hle : s[k] ≤ s[k + i] := by
      by_cases hip : i = 0
      · subst hip; exact Nat.le_refl _
      · exact (List.pairwise_iff_getElem.mp hs) k (k + i) hk hi' (by omega)
    simp; omega
  rw [hsplit, List.filter_append, List.length_append, hnone]
  have := List.length_filter_le (fun a => decide (a ≤ x)) (s.take k)
  simp at this ⊢; omega

theorem isort_getD_eq_kth (l : List Nat) (k : Nat) (hk : k < l.length) : (isort l).getD k 0 = Spec.Tlsh.kth l k := by
  have hp := isort_perm l
  have hs := isort_sorted l
  have hk' : k < (isort l).length := by rw [isort_length]; exact hk
  have hcount : ∀ x, (l.filter (· ≤ x)).length = ((isort l).filter (· ≤ x)).length :=
    fun x => ((hp.filter _).length_eq).symm
  have hmin : (l.filter fun x => decide (k < (l.filter (· ≤ x)).length)).min? = some (isort l)[k] := by
    rw [List.min?_eq_some_iff]
    constructor
    · rw [List.mem_filter]
      refine ⟨hp.mem_iff.mp (List.getElem_mem hk'), ?_⟩
      rw [decide_eq_true_eq, hcount]
      exact sorted_count_ge _ hs k hk' _ (Nat.le_refl _)
    · intro b hb
      rw [List.mem_filter, decide_eq_true_eq, hcount] at hb
      by_cases h : b < (isort l)[k]
      · have := sorted_count_le _ hs k hk' b h
        omega
      · omega
  unfold Spec.Tlsh.kth
  rw [hmin, List.getD_eq_getElem?_getD, List.getElem?_eq_getElem hk']

/-! ### one window -/

theorem pearson_eq_v : pearson = Spec.Tlsh.v := by
  funext x
  have : pearsonT = Spec.Tlsh.vTable := by decide +kernel
  simp only [pearson, Spec.Tlsh.v, this]

theorem bMapping4_eq (s a b c : Nat) : bMapping [s, a, b, c] = Spec.Tlsh.bMapping s a b c := by
  simp only [bMapping, List.foldl, Spec.Tlsh.bMapping, pearson_eq_v]

/-- one window: the probed generator on the reversed window `r` yields the reference triplets for the window size -/
theorem window_hashes (w : Nat) (hw4 : 4 ≤ w) (hw8 : w ≤ 8) (r : List Nat) (hr : r.length = w) (f : Nat → Nat)
    (hf : ∀ j < w, f j = r.getD j 0) :
    (tripletsOf r triplets).map bMapping
      = (Spec.Tlsh.triplets w).map fun t => Spec.Tlsh.bMapping t.1 (f 0) (f t.2.1) (f t.2.2) := by
  have hw : w = 4 ∨ w = 5 ∨ w = 6 ∨ w = 7 ∨ w = 8 := by omega
  rcases hw with rfl | rfl | rfl | rfl | rfl
  · match r, hr with
    | [x0, x1, x2, x3], _ =>
      have h0 := hf 0 (by decide); have h1 := hf 1 (by decide); have h2 := hf 2 (by decide); have h3 := hf 3 (by decide)
      simp at h0 h1 h2 h3
      simp [tripletsOf, tripletOf, lag, triplets, Spec.Tlsh.triplets, Spec.Tlsh.refTriplets, bMapping4_eq, h0, h1, h2, h3]
  · match r, hr with
    | [x0, x1, x2, x3, x4], _ =>
      have h0 := hf 0 (by decide); have h1 := hf 1 (by decide); have h2 := hf 2 (by decide); have h3 := hf 3 (by decide)
      have h4 := hf 4 (by decide)
      simp at h0 h1 h2 h3 h4
      simp [tripletsOf, tripletOf, lag, triplets, Spec.Tlsh.triplets, Spec.Tlsh.refTriplets, bMapping4_eq, h0, h1, h2, h3, h4]
  · match r, hr with
    | [x0, x1, x2, x3, x4, x5], _ =>
      have h0 := hf 0 (by decide); have h1 := hf 1 (by decide); have h2 := hf 2 (by decide); have h3 := hf 3 (by decide)
      have h4 := hf 4 (by decide); have h5 := hf 5 (by decide)
      simp at h0 h1 h2 h3 h4 h5
      simp [tripletsOf, tripletOf, lag, triplets, Spec.Tlsh.triplets, Spec.Tlsh.refTriplets, bMapping4_eq, h0, h1, h2, h3, h4, h5]
  · match r, hr with
    | [x0, x1, x2, x3, x4, x5, x6], _ =>
      have h0 := hf 0 (by decide); have h1 := hf 1 (by decide); have h2 := hf 2 (by decide); have h3 := hf 3 (by decide)
      have h4 := hf 4 (by decide); have h5 := hf 5 (by decide); have h6 := hf 6 (by decide)
      simp at h0 h1 h2 h3 h4 h5 h6
      simp [tripletsOf, tripletOf, lag, triplets, Spec.Tlsh.triplets, Spec.Tlsh.refTriplets, bMapping4_eq, h0, h1, h2, h3, h4, h5, h6]
  · match r, hr with
    | [x0, x1, x2, x3, x4, x5, x6, x7], _ =>
      have h0 := hf 0 (by decide); have h1 := hf 1 (by decide); have h2 := hf 2 (by decide); have h3 := hf 3 (by decide)
      have h4 := hf 4 (by decide); have h5 := hf 5 (by decide); have h6 := hf 6 (by decide); have h7 := hf 7 (by decide)
      simp at h0 h1 h2 h3 h4 h5 h6 h7
      simp [tripletsOf, tripletOf, lag, triplets, Spec.Tlsh.triplets, Spec.Tlsh.refTriplets, bMapping4_eq, h0, h1, h2, h3, h4, h5, h6, h7]

/-! ### all windows -/

theorem windowsAux_eq (w k : Nat) (l : List Nat) : windowsAux w k l = (List.range k).map fun i => (l.drop i).take w := by
  induction k generalizing l with
  | zero => rfl
  | succ k ih =>
    rw [windowsAux, ih, List.range_succ_eq_map, List.map_cons, List.map_map]
    simp only [List.drop_zero, List.cons.injEq, true_and]
    apply List.map_congr_left
    intro i _
    simp [Function.comp, List.drop_tail]

theorem ends_eq (w n : Nat) (hw : 1 ≤ w) :
    (List.range n).filter (fun e => decide (w ≤ e + 1)) = (List.range (n + 1 - w)).map (· + (w - 1)) := by
  by_cases h : w - 1 ≤ n
  · have hn : n = (w - 1) + (n + 1 - w) := by omega
    conv => lhs; rw [hn, List.range_add, List.filter_append]
    have h1 : (List.range (w - 1)).filter (fun e => decide (w ≤ e + 1)) = [] := by
      rw [List.filter_eq_nil_iff]; intro a ha; have := List.mem_range.mp ha; simp; omega
    have h2 : ((List.range (n + 1 - w)).map fun x => w - 1 + x).filter (fun e => decide (w ≤ e + 1))
        = (List.range (n + 1 - w)).map fun x => w - 1 + x := by
      rw [List.filter_eq_self]; intro a ha
      obtain ⟨x, _, rfl⟩ := List.mem_map.mp ha
      simp; omega
    rw [h1, h2, List.nil_append]
    apply List.map_congr_left; intro a _; omega
  · have h0 : n + 1 - w = 0 := by omega
    rw [h0, List.range_zero, List.map_nil, List.filter_eq_nil_iff]
    intro a ha; have := List.mem_range.mp ha; simp; omega

/-- the window starting at i, reversed, read by lag -/
theorem window_lag (data : List Nat) (w i j : Nat) (hi : i + w ≤ data.length) (hj : j < w) :
    (((data.drop i).take w).reverse).getD j 0 = data.getD (i + (w - 1) - j) 0 := by
  have hl : ((data.drop i).take w).length = w := by simp; omega
  rw [List.getD_eq_getElem?_getD, List.getD_eq_getElem?_getD, List.getElem?_reverse (by omega), hl,
    List.getElem?_take_of_lt (by omega), List.getElem?_drop]
  congr 2; omega

theorem foldl_stepWindow_checksum (ws : List (List Nat)) (st : St) :
    (ws.foldl stepWindow st).checksum
      = ws.foldl (fun ck win => ckStep (win.reverse.getD 0 0) (win.reverse.getD 1 0) 0 ck) st.checksum := by
  induction ws generalizing st with
  | nil => rfl
  | cons w ws ih => rw [List.foldl_cons, ih, List.foldl_cons]; rfl

theorem foldl_stepWindow_bucket (ws : List (List Nat)) (st : St) :
    (ws.foldl stepWindow st).bucket
      = (ws.flatMap fun win => (tripletsOf win.reverse triplets).map bMapping).foldl bump st.bucket := by
  induction ws generalizing st with
  | nil => rfl
  | cons w ws ih =>
    rw [List.foldl_cons, ih, List.flatMap_cons, List.foldl_append]
    congr 1
    simp only [stepWindow, List.foldl_map]

/-- the histogram of a list of hash values -/
def hist (ev : List Nat) : List Nat := (List.range 256).map fun v => ev.count v

theorem hist_snoc (ev : List Nat) (e : Nat) : hist (ev ++ [e]) = bump (hist ev) e := by
  apply List.ext_getElem
  · simp [hist, bump]
  · intro j h1 h2
    simp only [bump, List.getElem_modify, hist, List.getElem_map, List.getElem_range, List.count_append,
      List.count_singleton]
    by_cases h : e = j
    · subst h; simp
    · simp [h]

theorem foldl_bump_hist (hs ev : List Nat) : hs.foldl bump (hist ev) = hist (ev ++ hs) := by
  induction hs generalizing ev with
  | nil => simp
  | cons h hs ih => rw [List.foldl_cons, ← hist_snoc, ih]; simp

theorem hist_nil : hist [] = List.replicate 256 0 := by decide +kernel

theorem arr_getD (d : List Nat) (i : Nat) : Spec.Tlsh.at' d.toArray i = d.getD i 0 := by
  simp [Spec.Tlsh.at', Array.getD, List.getD_eq_getElem?_getD]
  split <;> simp_all

theorem windows_eq (w : Nat) (data : List Nat) :
    windows w data = (List.range (data.length + 1 - w)).map fun i => (data.drop i).take w := windowsAux_eq _ _ _

theorem spec_ends_eq (w : Nat) (hw : 1 ≤ w) (data : List Nat) :
    Spec.Tlsh.ends w data.toArray = (List.range (data.length + 1 - w)).map (· + (w - 1)) := by
  unfold Spec.Tlsh.ends
  simpa using ends_eq w data.length hw

theorem all_hashes (w : Nat) (hw4 : 4 ≤ w) (hw8 : w ≤ 8) (data : List Nat) :
    ((windows w data).flatMap fun win => (tripletsOf win.reverse triplets).map bMapping)
      = Spec.Tlsh.hashes w data.toArray := by
  unfold Spec.Tlsh.hashes
  rw [windows_eq, spec_ends_eq _ (by omega), List.flatMap_map, List.flatMap_map, List.flatMap_def, List.flatMap_def]
  congr 1
  apply List.map_congr_left
  intro i hi
  have hi' : i + w ≤ data.length := by have := List.mem_range.mp hi; omega
  have hl : (((data.drop i).take w).reverse).length = w := by simp; omega
  exact window_hashes w hw4 hw8 _ hl (fun j => Spec.Tlsh.at' data.toArray (i + (w - 1) - j))
    (fun j hj => by rw [arr_getD, window_lag data w i j hi' hj])

theorem update_bucket (c : Cfg) (hw4 : 4 ≤ c.window) (hw8 : c.window ≤ 8) (data : List Nat) :
    (update c data).bucket = Spec.Tlsh.buckets c.window data.toArray := by
  unfold update
  rw [foldl_stepWindow_bucket, all_hashes _ hw4 hw8]
  simp only [St.init]
  rw [← hist_nil, foldl_bump_hist, List.nil_append]
  rfl

theorem foldl_congr_inv {α β : Type} (P : β → Prop) (f g : β → α → β) (l : List α) (init : β) (h0 : P init)
    (hstep : ∀ b, P b → ∀ a ∈ l, f b a = g b a ∧ P (f b a)) : l.foldl f init = l.foldl g init := by
  induction l generalizing init with
  | nil => rfl
  | cons a as ih =>
    rw [List.foldl_cons, List.foldl_cons]
    have := hstep init h0 a (List.mem_cons_self ..)
    rw [← this.1]
    exact ih _ this.2 (fun b hb x hx => hstep b hb x (List.mem_cons_of_mem _ hx))

theorem ckStep_eq (d0 d1 : Nat) (ck : List Nat) (n : Nat) (hn : n = 1 ∨ n = 3) (hl : ck.length = n) :
    ckStep d0 d1 0 ck = (List.range n).map (Spec.Tlsh.ckNew d0 d1 ck) := by
  rcases hn with rfl | rfl
  · match ck, hl with
    | [a], _ => simp [ckStep, Spec.Tlsh.ckNew, bMapping4_eq, List.range, List.range.loop]
  · match ck, hl with
    | [a, b, c], _ => simp [ckStep, Spec.Tlsh.ckNew, bMapping4_eq, List.range, List.range.loop]

theorem update_checksum (c : Cfg) (hw4 : 4 ≤ c.window) (hk : c.chklen = 1 ∨ c.chklen = 3) (data : List Nat) :
    (update c data).checksum = Spec.Tlsh.checksum c.window c.chklen data.toArray := by
  unfold update Spec.Tlsh.checksum
  rw [foldl_stepWindow_checksum, windows_eq, spec_ends_eq _ (by omega), List.foldl_map, List.foldl_map]
  simp only [St.init]
  apply foldl_congr_inv (fun ck => ck.length = c.chklen)
  · simp
  · intro ck hck i hi
    have hi' : i + c.window ≤ data.length := by have := List.mem_range.mp hi; omega
    have e0 := window_lag data c.window i 0 hi' (by omega)
    have e1 := window_lag data c.window i 1 hi' (by omega)
    rw [e0, e1, ckStep_eq _ _ ck c.chklen hk hck, arr_getD, arr_getD]
    simp

/-! ### assembling the digest -/

/-- the payload of `Spec.Tlsh.tlsh` when both gates are passed -/
def specDigest (lcap : Nat → Nat) (eff w chklen : Nat) (data : List Nat) : List Nat :=
  let n := data.length
  let bk := (Spec.Tlsh.buckets w data.toArray).take eff
  let q1 := Spec.Tlsh.kth bk (eff / 4 - 1)
  let q2 := Spec.Tlsh.kth bk (eff / 2 - 1)
  let q3 := Spec.Tlsh.kth bk (3 * (eff / 4) - 1)
  let body := (List.range (eff / 4)).map fun m =>
    let i := eff / 4 - 1 - m
    Spec.Tlsh.code q1 q2 q3 (bk.getD (4 * i) 0) + 4 * Spec.Tlsh.code q1 q2 q3 (bk.getD (4 * i + 1) 0)
      + 16 * Spec.Tlsh.code q1 q2 q3 (bk.getD (4 * i + 2) 0) + 64 * Spec.Tlsh.code q1 q2 q3 (bk.getD (4 * i + 3) 0)
  (Spec.Tlsh.checksum w chklen data.toArray).map Spec.Tlsh.swapNibbles
        ++ [Spec.Tlsh.swapNibbles (lcap n % 256), (q1 * 100 / q3 % 16) * 16 + q2 * 100 / q3 % 16]
        ++ body

theorem spec_tlsh_eq (lcap : Nat → Nat) (eff w chklen : Nat) (data : List Nat) (force : Bool) :
    Spec.Tlsh.tlsh lcap eff w chklen data force =
      if data.length < 50 ∨ (force = false ∧ data.length < 256) then none
      else if Spec.Tlsh.tooFew eff ((((Spec.Tlsh.buckets w data.toArray).take eff).filter (0 < ·)).length) = true then none
      else some (specDigest lcap eff w chklen data) := rfl

theorem swp8_eq : ∀ x < 256, swp8 x = Spec.Tlsh.swapNibbles x := by decide +kernel
theorem qb_eq : ∀ a < 16, ∀ b < 16, (a <<< 4) ||| b = a * 16 + b := by decide +kernel

theorem tooFew_eq (b nz : Nat) : tooFew b nz = Spec.Tlsh.tooFew b nz := by
  unfold tooFew Spec.Tlsh.tooFew
  by_cases h : b = 48
  · simp [h]
  · have h1 : (b == 48) = false := by simp [h]
    have h2 : (b != 48) = true := by simp [h]
    simp [h, h1, h2]

theorem nonzero_eq (l : List Nat) : (l.filter (· ≠ 0)).length = (l.filter (0 < ·)).length := by
  congr 1
  apply List.filter_congr
  intro x _
  simp [Nat.pos_iff_ne_zero]

theorem quart_eq (q1 q2 q3 x : Nat) : quart q1 q2 q3 x = Spec.Tlsh.code q1 q2 q3 x := rfl

theorem reverse_map_range (n : Nat) (f : Nat → Nat) :
    ((List.range n).map f).reverse = (List.range n).map fun m => f (n - 1 - m) := by
  apply List.ext_getElem
  · simp
  · intro i h1 h2
    simp at h1
    simp [List.getElem_reverse]

theorem getD_take_lt (l : List Nat) (n i : Nat) (h : i < n) : (l.take n).getD i 0 = l.getD i 0 := by
  simp [List.getD_eq_getElem?_getD, h]

theorem quartiles_eq (c : Cfg) (hc : c.valid = true) (bucket : List Nat) (hb : bucket.length = 256) :
    quartiles c bucket = (Spec.Tlsh.kth (bucket.take c.buckets) (c.buckets / 4 - 1),
                          Spec.Tlsh.kth (bucket.take c.buckets) (c.buckets / 2 - 1),
                          Spec.Tlsh.kth (bucket.take c.buckets) (3 * (c.buckets / 4) - 1)) := by
  have hv := (valid_cases hc).1
  have hlen : (bucket.take c.buckets).length = c.buckets := by rw [List.length_take, hb]; omega
  unfold quartiles Cfg.codesize
  simp only
  rw [isort_getD_eq_kth _ _ (by rw [hlen]; omega), isort_getD_eq_kth _ _ (by rw [hlen]; omega),
    isort_getD_eq_kth _ _ (by rw [hlen]; omega)]
  have : 2 * (c.buckets / 4) - 1 = c.buckets / 2 - 1 := by omega
  rw [this]

theorem digest_mkObj_eq (lcap : Nat → Nat) (c : Cfg) (hc : c.valid = true) (data : List Nat) :
    digest (mkObj lcap c data) = specDigest lcap c.buckets c.window c.chklen data := by
  have hv := valid_cases hc
  have wf := update_wf c data
  have hbk := update_bucket c hv.2.1.1 hv.2.1.2 data
  have hck := update_checksum c hv.2.1.1 hv.2.2 data
  have hq := quartiles_eq c hc _ wf.bklen
  unfold digest mkObj specDigest
  simp only [hq]
  rw [← hbk, ← hck]
  congr 1
  · congr 1
    · apply List.map_congr_left
      intro x hx
      exact swp8_eq x (wf.cklt x hx)
    · rw [swp8_eq _ (Nat.mod_lt _ (by decide)), qb_eq _ (Nat.mod_lt _ (by decide)) _ (Nat.mod_lt _ (by decide))]
  · unfold bodyCode Cfg.codesize
    rw [reverse_map_range]
    apply List.map_congr_left
    intro m hm
    have hm' : m < c.buckets / 4 := List.mem_range.mp hm
    unfold codeByte
    simp only [quart_eq, Nat.shiftLeft_eq]
    rw [getD_take_lt _ _ _ (by omega), getD_take_lt _ _ _ (by omega), getD_take_lt _ _ _ (by omega),
      getD_take_lt _ _ _ (by omega)]
    omega

theorem tlsh_eq_spec (lcap : Nat → Nat) (c : Cfg) (hc : c.valid = true) (data : List Nat) (force : Bool) :
    tlsh lcap c data force = .ok (Spec.Tlsh.tlsh lcap c.buckets c.window c.chklen data force) := by
  have hv := valid_cases hc
  have wf := update_wf c data
  have hbk := update_bucket c hv.2.1.1 hv.2.1.2 data
  unfold tlsh
  simp only [hc, Bool.true_eq_false, ↓reduceIte]
  rw [final_eq, spec_tlsh_eq]
  by_cases h1 : data.length < 50 ∨ (force = false ∧ data.length < 256)
  · simp only [h1, ↓reduceIte, Except.map, Option.map]
  · simp only [h1, ↓reduceIte]
    have hg : tooFew c.buckets (nonzero c (update c data).bucket)
        = Spec.Tlsh.tooFew c.buckets ((((Spec.Tlsh.buckets c.window data.toArray).take c.buckets).filter (0 < ·)).length) := by
      rw [tooFew_eq, ← hbk]; unfold nonzero; rw [nonzero_eq]
    rw [← hg]
    by_cases h2 : tooFew c.buckets (nonzero c (update c data).bucket) = true
    · simp only [h2, ↓reduceIte, Except.map, Option.map]
    · have h2' : tooFew c.buckets (nonzero c (update c data).bucket) = false := by simpa using h2
      have h3 := gate_q3_pos hc wf.bklen h2'
      rw [h2']
      simp only [h3, ↓reduceIte, Except.map, Option.map, Bool.false_eq_true, digest_mkObj_eq lcap c hc data]

/-! ### `distance` on two digests of one configuration = the reference `totalDiff` -/


theorem pairDiff_eq4 : ∀ a < 4, ∀ b < 4, pairDiff a b = Spec.Tlsh.pairDiff a b := by decide +kernel

theorem byteDiff_eq (x y : Nat) : byteDiff x y = Spec.Tlsh.byteDiff x y := by
  unfold byteDiff Spec.Tlsh.byteDiff
  have h4 : ∀ z : Nat, z % 4 < 4 := fun z => Nat.mod_lt _ (by decide)
  rw [pairDiff_eq4 _ (h4 _) _ (h4 _), pairDiff_eq4 _ (h4 _) _ (h4 _), pairDiff_eq4 _ (h4 _) _ (h4 _),
    pairDiff_eq4 _ (h4 _) _ (h4 _)]
  simp [List.range, List.range.loop]

theorem modDiff_eq (x y n : Nat) (hx : x < n) (hy : y < n) : Spec.Tlsh.modDiff x y n = diffmod y x n := by
  unfold Spec.Tlsh.modDiff diffmod absDiff
  rw [Nat.mod_eq_of_lt hx, Nat.mod_eq_of_lt hy]
  split <;> split <;> simp <;> omega

theorem qb_div : ∀ a < 16, ∀ b < 16, ((a <<< 4) ||| b) / 16 = a ∧ ((a <<< 4) ||| b) % 16 = b := by decide +kernel

theorem map_swp8_inj (l1 l2 : List Nat) (h1 : ∀ x ∈ l1, x < 256) (h2 : ∀ x ∈ l2, x < 256) :
    l1.map swp8 = l2.map swp8 ↔ l1 = l2 := by
  constructor
  · intro h
    have := congrArg (List.map swp8) h
    rwa [map_swp8_swp8 _ h1, map_swp8_swp8 _ h2] at this
  · intro h; rw [h]

theorem digest_parts {c : Cfg} {o : TObj} (h : ObjWF c o) :
    (digest o).take c.chklen = o.checksum.map swp8 ∧ (digest o).getD c.chklen 0 = swp8 o.lvalue
    ∧ (digest o).getD (c.chklen + 1) 0 = ((o.q1 <<< 4) ||| o.q2) ∧ (digest o).drop (c.chklen + 2) = o.code.reverse := by
  have hl : (o.checksum.map swp8).length = c.chklen := by simp [h.cklen]
  have e : digest o = o.checksum.map swp8 ++ (swp8 o.lvalue :: ((o.q1 <<< 4) ||| o.q2) :: o.code.reverse) := by
    simp [digest]
  refine ⟨?_, ?_, ?_, ?_⟩
  · rw [e, List.take_append_of_le_length (by omega), ← hl, List.take_length]
  · rw [e, List.getD_eq_getElem?_getD, List.getElem?_append_right (by omega), hl]; simp
  · rw [e, List.getD_eq_getElem?_getD, List.getElem?_append_right (by omega), hl]; simp
  · rw [e, ← hl, List.drop_append]
    simp

theorem spec_distance_eq {c : Cfg} {o1 o2 : TObj} (h1 : ObjWF c o1) (h2 : ObjWF c o2) (lv : Bool) :
    Spec.Tlsh.distance c.chklen (digest o1) (digest o2) lv = headerDiff o1 o2 lv + bodyDiff o2.code o1.code := by
  obtain ⟨a1, b1, c1, d1⟩ := digest_parts h1
  obtain ⟨a2, b2, c2, d2⟩ := digest_parts h2
  unfold Spec.Tlsh.distance headerDiff
  simp only [a1, a2, b1, b2, c1, c2, d1, d2]
  rw [← swp8_eq _ (swp8_lt _ h1.lv), ← swp8_eq _ (swp8_lt _ h2.lv), swp8_swp8 _ h1.lv, swp8_swp8 _ h2.lv,
    (qb_div _ h1.q1 _ h1.q2).1, (qb_div _ h1.q1 _ h1.q2).2, (qb_div _ h2.q1 _ h2.q2).1, (qb_div _ h2.q1 _ h2.q2).2,
    modDiff_eq _ _ _ h1.lv h2.lv, modDiff_eq _ _ _ h1.q1 h2.q1, modDiff_eq _ _ _ h1.q2 h2.q2]
  have hck : (if o1.checksum.map swp8 = o2.checksum.map swp8 then 0 else 1) = (if o2.checksum ≠ o1.checksum then 1 else 0) := by
    have hi := map_swp8_inj _ _ h1.cklt h2.cklt
    by_cases h : o1.checksum = o2.checksum
    · simp [h]
    · have h' : ¬ o2.checksum = o1.checksum := fun e => h e.symm
      have h'' : ¬ o1.checksum.map swp8 = o2.checksum.map swp8 := fun e => h (hi.mp e)
      simp [h', h'']
  have hbody : (List.zipWith Spec.Tlsh.byteDiff o1.code.reverse o2.code.reverse).sum = bodyDiff o2.code o1.code := by
    rw [bodyDiff_comm]
    unfold bodyDiff
    rw [← List.reverse_zipWith (by rw [h1.codelen, h2.codelen]), List.sum_reverse]
    congr 2
    funext x y
    exact (byteDiff_eq x y).symm
  rw [hck, hbody]
  omega

end Proofs.Lemmas.Tlsh
