/- the ten hash objects satisfy the hypotheses of the generic streaming theorem -/
import Proofs.Lemmas.Streaming
namespace Proofs.Lemmas.StreamingAlgs
open Model Model.Py Proofs.Lemmas.Parse Proofs.Lemmas.Compose Proofs.Lemmas.Streaming Proofs.Lemmas.Instances
  Proofs.Lemmas.EndToEnd

/-- for each algorithm: its object, and what it refines (packaged so that one statement covers all ten) -/
theorem alg_cases (alg : Model.Alg) :
    ∃ c, alg.new = .ok c ∧
      ∃ (σ : Type) (h : Spec.MDHash σ) (emb : σ → List Bits) (w B ll : Nat) (bigend : Bool),
        Refines c h emb ∧ Framing c h w B alg.blocklen ll bigend ∧ Spec.hash (toSpec alg) = h.hash := by
  cases alg
  · exact ⟨_, rfl, _, Spec.Md4.md, _, 32, 512, 8, false, md4_refines,
      ⟨rfl, rfl, by decide, rfl, by decide, rfl, rfl, rfl⟩, rfl⟩
  · exact ⟨_, rfl, _, Spec.Md5.md, _, 32, 512, 8, false, md5_refines,
      ⟨rfl, rfl, by decide, rfl, by decide, rfl, rfl, rfl⟩, rfl⟩
  · exact ⟨_, rfl, _, Spec.Sha1.md 0, _, 32, 512, 8, true, sha1_refines 0 (by decide),
      ⟨rfl, rfl, by decide, rfl, by decide, rfl, rfl, rfl⟩, rfl⟩
  · exact ⟨_, rfl, _, Spec.Sha1.md 1, _, 32, 512, 8, true, sha1_refines 1 (by decide),
      ⟨rfl, rfl, by decide, rfl, by decide, rfl, rfl, rfl⟩, rfl⟩
  · exact ⟨_, rfl, _, _, _, 32, 512, 8, true, sha2_32_refines ⟨224, 28, 512, 32⟩ rfl (by decide) rfl _ _ iv224_eq,
      ⟨rfl, rfl, by decide, rfl, by decide, rfl, rfl, rfl⟩, rfl⟩
  · exact ⟨_, rfl, _, _, _, 32, 512, 8, true, sha2_32_refines ⟨256, 32, 512, 32⟩ rfl (by decide) rfl _ _ iv256_eq,
      ⟨rfl, rfl, by decide, rfl, by decide, rfl, rfl, rfl⟩, rfl⟩
  · exact ⟨_, rfl, _, _, _, 64, 1024, 16, true, sha2_64_refines ⟨384, 48, 1024, 64⟩ rfl (by decide) rfl _ _ iv384_eq,
      ⟨rfl, rfl, by decide, rfl, by decide, rfl, rfl, rfl⟩, rfl⟩
  · exact ⟨_, rfl, _, _, _, 64, 1024, 16, true, sha2_64_refines ⟨512, 64, 1024, 64⟩ rfl (by decide) rfl _ _ iv512_eq,
      ⟨rfl, rfl, by decide, rfl, by decide, rfl, rfl, rfl⟩, rfl⟩
  · exact ⟨_, rfl, _, _, _, 64, 1024, 16, true, sha2_64_refines ⟨512, 28, 1024, 64⟩ rfl (by decide) rfl _ _ iv512_224_eq,
      ⟨rfl, rfl, by decide, rfl, by decide, rfl, rfl, rfl⟩, rfl⟩
  · exact ⟨_, rfl, _, _, _, 64, 1024, 16, true, sha2_64_refines ⟨512, 32, 1024, 64⟩ rfl (by decide) rfl _ _ iv512_256_eq,
      ⟨rfl, rfl, by decide, rfl, by decide, rfl, rfl, rfl⟩, rfl⟩

end Proofs.Lemmas.StreamingAlgs
