/-
  Bridge between the model's words (`Model.Bits` of a fixed size) and the specification's `BitVec w`.
-/
import Model.Blake
namespace Proofs.Lemmas.BlakeWords
open Model

/-- the model word denoting a specification word -/
def ofBV {w : Nat} (x : BitVec w) : Bits := ⟨x.toNat, w⟩

@[simp] theorem ofBV_size {w} (x : BitVec w) : (ofBV x).size = w := rfl
@[simp] theorem ofBV_ival {w} (x : BitVec w) : (ofBV x).ival = x.toNat := rfl

theorem wd_eq {w : Nat} (v : Nat) : Blake.wd w v = ofBV (BitVec.ofNat w v) := by
  simp [Blake.wd, Bits.ofNatSz, ofBV]

theorem add_ofBV {w} (a b : BitVec w) : (ofBV a).add (ofBV b) = ofBV (a + b) := by
  simp [Bits.add, Bits.wsize, ofBV, BitVec.toNat_add]

theorem xor_ofBV {w} (a b : BitVec w) : (ofBV a).xor (ofBV b) = ofBV (a ^^^ b) := by
  simp [Bits.xor, Bits.wsize, ofBV]

theorem ror_ofBV {w} (a : BitVec w) (n : Nat) (hn : n < w) : (ofBV a).ror! n = ofBV (a.rotateRight n) := by
  have hlt : a.toNat >>> n < 2 ^ w := Nat.lt_of_le_of_lt (Nat.shiftRight_le _ _) a.isLt
  simp only [Bits.ror!, Bits.shr, Bits.shl, Bits.or, Bits.wsize, Bits.mask, ofBV, BitVec.rotateRight,
    BitVec.rotateRightAux, Nat.mod_eq_of_lt hn, BitVec.toNat_or, BitVec.toNat_ushiftRight, BitVec.toNat_shiftLeft,
    Nat.and_two_pow_sub_one_eq_mod, Nat.mod_eq_of_lt hlt]
  simp

/-- the tuple image -/
def ofBV4 {w} (t : BitVec w × BitVec w × BitVec w × BitVec w) : Bits × Bits × Bits × Bits :=
  (ofBV t.1, ofBV t.2.1, ofBV t.2.2.1, ofBV t.2.2.2)

/-- the eight assignments of G on words: model arithmetic = BitVec arithmetic -/
theorem gmix_ofBV {w} (r0 r1 r2 r3 : Nat) (h0 : r0 < w) (h1 : r1 < w) (h2 : r2 < w) (h3 : r3 < w)
    (x y a b c d : BitVec w) :
    Blake.gmix [r0, r1, r2, r3] (ofBV x) (ofBV y) (ofBV a) (ofBV b) (ofBV c) (ofBV d) =
      (let a1 := a + b + x
       let d1 := (d ^^^ a1).rotateRight r0
       let c1 := c + d1
       let b1 := (b ^^^ c1).rotateRight r1
       let a2 := a1 + b1 + y
       let d2 := (d1 ^^^ a2).rotateRight r2
       let c2 := c1 + d2
       let b2 := (b1 ^^^ c2).rotateRight r3
       (ofBV a2, ofBV b2, ofBV c2, ofBV d2)) := by
  simp [Blake.gmix, add_ofBV, xor_ofBV, ror_ofBV, h0, h1, h2, h3]

theorem getW_map {w} (l : List (BitVec w)) (i : Nat) (hi : i < l.length) :
    Blake.getW (l.map ofBV) i = ofBV (l.getD i 0) := by
  simp [Blake.getW, List.getD, hi]

theorem set_map {w} (l : List (BitVec w)) (i : Nat) (x : BitVec w) :
    (l.map ofBV).set i (ofBV x) = (l.set i x).map ofBV := by
  simp [List.map_set]

theorem exists2 {α} (l : List α) (h : l.length = 2) : ∃ a b, l = [a,b] := by
  match l, h with
  | [a,b], _ => exact ⟨a,b,rfl⟩

theorem exists4 {α} (l : List α) (h : l.length = 4) : ∃ a b c d, l = [a,b,c,d] := by
  match l, h with
  | [a,b,c,d], _ => exact ⟨a,b,c,d,rfl⟩

theorem exists8 {α} (l : List α) (h : l.length = 8) : ∃ a0 a1 a2 a3 a4 a5 a6 a7, l = [a0,a1,a2,a3,a4,a5,a6,a7] := by
  match l, h with
  | [a0,a1,a2,a3,a4,a5,a6,a7], _ => exact ⟨a0,a1,a2,a3,a4,a5,a6,a7,rfl⟩

theorem exists16 {α} (l : List α) (h : l.length = 16) :
    ∃ a0 a1 a2 a3 a4 a5 a6 a7 a8 a9 a10 a11 a12 a13 a14 a15, l = [a0,a1,a2,a3,a4,a5,a6,a7,a8,a9,a10,a11,a12,a13,a14,a15] := by
  match l, h with
  | [a0,a1,a2,a3,a4,a5,a6,a7,a8,a9,a10,a11,a12,a13,a14,a15], _ => exact ⟨a0,a1,a2,a3,a4,a5,a6,a7,a8,a9,a10,a11,a12,a13,a14,a15,rfl⟩

/-- the two counter words: `Bits(cnt,2w).split(w)` against `t mod 2^w`, `t / 2^w mod 2^w` -/
theorem counter_lo {w} (cnt : Nat) : Blake.wd w (cnt % 2 ^ (2 * w)) = ofBV (BitVec.ofNat w cnt) := by
  rw [wd_eq]; congr 1
  apply BitVec.eq_of_toNat_eq
  simp only [BitVec.toNat_ofNat]
  exact Nat.mod_mod_of_dvd _ (Nat.pow_dvd_pow 2 (by omega))

theorem counter_hi {w} (cnt : Nat) : Blake.wd w ((cnt % 2 ^ (2 * w)) >>> w) = ofBV (BitVec.ofNat w (cnt / 2 ^ w)) := by
  rw [wd_eq]; congr 1
  apply BitVec.eq_of_toNat_eq
  simp only [BitVec.toNat_ofNat, Nat.shiftRight_eq_div_pow]
  rw [show 2 * w = w + w by omega, Nat.pow_add, Nat.mod_mul_right_div_self, Nat.mod_mod]

theorem xorL_map {w} (a b : List (BitVec w)) :
    Blake.xorL (a.map ofBV) (b.map ofBV) = (List.zipWith (· ^^^ ·) a b).map ofBV := by
  simp [Blake.xorL, List.zipWith_map, List.map_zipWith, xor_ofBV]

end Proofs.Lemmas.BlakeWords
