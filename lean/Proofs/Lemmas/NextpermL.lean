/-
  Proofs.Lemmas.NextpermL — the loops of `nextperm` in closed form: the pivot scan, the in-place reversal of the
  suffix, the successor scan and the swap; every list is either descending (result: the reversed list) or in pivot
  form (result: pre ++ b :: rest as in NextpermOrderL).  Core Lean only.
-/
import Model.Perms
import Proofs.Lemmas.NextpermOrderL
namespace Proofs.Lemmas.NextpermL
open Model Model.Perms Proofs.Lemmas.NextpermOrderL

/-! ### pivot scan -/

theorem desc_cons_of_ge (a b : Int) (t : List Int) (h : a ≥ b) (ht : Desc (b :: t)) : Desc (a :: b :: t) := by
  unfold Desc at *
  rw [List.pairwise_cons]
  refine ⟨?_, ht⟩
  intro x hx
  rcases List.mem_cons.1 hx with rfl | hx
  · exact h
  · have := (List.pairwise_cons.1 ht).1 x hx
    show x ≤ a
    have h1 : x ≤ b := this
    omega

theorem findK_spec (l : List Int) : ∀ j, j < l.length → Desc (l.drop j) →
    (findK l j = none ∧ Desc l) ∨
    (∃ k, findK l j = some k ∧ ∃ (h : k + 1 < l.length), l[k] < l[k + 1] ∧ Desc (l.drop (k + 1))) := by
  intro j
  induction j with
  | zero => intro _ h; exact Or.inl ⟨rfl, by simpa using h⟩
  | succ k ih =>
    intro hj hd
    have hk : k < l.length := by omega
    unfold findK
    rw [List.getElem?_eq_getElem hk, List.getElem?_eq_getElem hj]
    simp only []
    by_cases hge : l[k] ≥ l[k + 1]
    · rw [if_pos hge]
      apply ih hk
      rw [List.drop_eq_getElem_cons hk]
      rw [List.drop_eq_getElem_cons hj] at hd ⊢
      exact desc_cons_of_ge _ _ _ hge hd
    · rw [if_neg hge]
      exact Or.inr ⟨k, rfl, hj, by omega, hd⟩

/-! ### swap and in-place reversal -/

theorem swap_length (l : List Int) (i j : Nat) : (swap l i j).length = l.length := by
  unfold swap
  cases l[i]? <;> cases l[j]? <;> simp

theorem swap_get (l : List Int) (i j : Nat) (hi : i < l.length) (hj : j < l.length) (t : Nat) :
    (swap l i j)[t]? = if t = j then l[i]? else if t = i then l[j]? else l[t]? := by
  unfold swap
  rw [List.getElem?_eq_getElem hi, List.getElem?_eq_getElem hj]
  simp only []
  rw [List.getElem?_set, List.getElem?_set]
  by_cases h1 : j = t
  · subst h1; simp [hj]
  · have h1' : ¬ t = j := fun h => h1 h.symm
    rw [if_neg h1, if_neg h1']
    by_cases h2 : i = t
    · subst h2; simp [hi]
    · have h2' : ¬ t = i := fun h => h2 h.symm
      rw [if_neg h2, if_neg h2']

theorem revLoop_spec : ∀ (fuel : Nat) (l : List Int) (lo hi : Nat), hi < l.length → lo ≤ hi + 1 → hi + 1 - lo ≤ fuel →
    (revLoop fuel l lo hi).length = l.length ∧
    ∀ j, (revLoop fuel l lo hi)[j]? = if lo ≤ j ∧ j ≤ hi then l[lo + hi - j]? else l[j]? := by
  intro fuel
  induction fuel with
  | zero =>
    intro l lo hi _ h1 h2
    refine ⟨rfl, ?_⟩
    intro j
    have : ¬ (lo ≤ j ∧ j ≤ hi) := by omega
    rw [if_neg this]; rfl
  | succ fuel ih =>
    intro l lo hi hhi h1 h2
    unfold revLoop
    by_cases hlt : lo < hi
    · rw [if_pos hlt]
      have hlen := swap_length l lo hi
      obtain ⟨ihl, ihg⟩ := ih (swap l lo hi) (lo + 1) (hi - 1) (by rw [hlen]; omega) (by omega) (by omega)
      refine ⟨by rw [ihl, hlen], ?_⟩
      intro j
      rw [ihg j]
      have e : lo + 1 + (hi - 1) = lo + hi := by omega
      rw [e]
      by_cases hin : lo + 1 ≤ j ∧ j ≤ hi - 1
      · have hin' : lo ≤ j ∧ j ≤ hi := by omega
        rw [if_pos hin, if_pos hin', swap_get l lo hi (by omega) hhi]
        have n1 : ¬ (lo + hi - j = hi) := by omega
        have n2 : ¬ (lo + hi - j = lo) := by omega
        rw [if_neg n1, if_neg n2]
      · rw [if_neg hin, swap_get l lo hi (by omega) hhi]
        by_cases hj1 : j = hi
        · subst hj1
          have hin' : lo ≤ j ∧ j ≤ j := by omega
          have e2 : lo + j - j = lo := by omega
          rw [if_pos rfl, if_pos hin', e2]
        · rw [if_neg hj1]
          by_cases hj2 : j = lo
          · subst hj2
            have hin' : j ≤ j ∧ j ≤ hi := by omega
            have e2 : j + hi - j = hi := by omega
            rw [if_pos rfl, if_pos hin', e2]
          · have hin' : ¬ (lo ≤ j ∧ j ≤ hi) := by omega
            rw [if_neg hj2, if_neg hin']
    · rw [if_neg hlt]
      refine ⟨rfl, ?_⟩
      intro j
      by_cases hin : lo ≤ j ∧ j ≤ hi
      · have e : lo + hi - j = j := by omega
        rw [if_pos hin, e]
      · rw [if_neg hin]

/-- the reversal loop of nextperm reverses the suffix from `lo` on -/
theorem revLoop_eq (l : List Int) (lo : Nat) (hlo : lo ≤ l.length) :
    revLoop l.length l lo (l.length - 1) = l.take lo ++ (l.drop lo).reverse := by
  by_cases hn : l.length = 0
  · have : l = [] := List.length_eq_zero_iff.1 hn
    subst this; simp [revLoop]
  · obtain ⟨_, hg⟩ := revLoop_spec l.length l lo (l.length - 1) (by omega) (by omega) (by omega)
    apply List.ext_getElem?
    intro j
    rw [hg j, List.getElem?_append, List.length_take, Nat.min_eq_left hlo, List.getElem?_take]
    by_cases h1 : j < lo
    · have : ¬ (lo ≤ j ∧ j ≤ l.length - 1) := by omega
      rw [if_neg this, if_pos h1, if_pos h1]
    · rw [if_neg h1]
      by_cases h2 : j < l.length
      · have hin : lo ≤ j ∧ j ≤ l.length - 1 := by omega
        rw [if_pos hin, List.getElem?_reverse (by rw [List.length_drop]; omega), List.getElem?_drop, List.length_drop]
        congr 1
        omega
      · have hin : ¬ (lo ≤ j ∧ j ≤ l.length - 1) := by omega
        rw [if_neg hin, List.getElem?_eq_none (by omega), List.getElem?_eq_none (by simp; omega)]

/-! ### successor scan -/

theorem findI_spec (l : List Int) (pivot : Int) : ∀ (fuel i : Nat),
    (∃ t, i ≤ t ∧ t - i < fuel ∧ ∃ h : t < l.length, pivot < l[t]) →
    ∃ i', findI l pivot fuel i = some i' ∧ i ≤ i' ∧ ∃ h : i' < l.length, pivot < l[i'] ∧
      ∀ j (hj : j < l.length), i ≤ j → j < i' → l[j] ≤ pivot := by
  intro fuel
  induction fuel with
  | zero => rintro i ⟨t, _, h, _⟩; omega
  | succ fuel ih =>
    rintro i ⟨t, hit, htf, htl, hpt⟩
    have hil : i < l.length := by omega
    unfold findI
    rw [List.getElem?_eq_getElem hil]
    simp only []
    by_cases hle : l[i] ≤ pivot
    · rw [if_pos hle]
      have hne : t ≠ i := by intro h; subst h; omega
      obtain ⟨i', h1, h2, h3, h4, h5⟩ := ih (i + 1) ⟨t, by omega, by omega, htl, hpt⟩
      refine ⟨i', h1, by omega, h3, h4, ?_⟩
      intro j hj hij hji
      by_cases hji' : j = i
      · subst hji'; exact hle
      · exact h5 j hj (by omega) hji
    · rw [if_neg hle]
      exact ⟨i, rfl, Nat.le_refl _, hil, by omega, by intro j _ h1 h2; omega⟩

/-! ### assembling -/

theorem swap_decomp (pre lo hi : List Int) (a b : Int) :
    swap (pre ++ a :: (lo ++ b :: hi)) (pre.length + 1 + lo.length) pre.length = pre ++ b :: (lo ++ a :: hi) := by
  have g1 : (pre ++ a :: (lo ++ b :: hi))[pre.length + 1 + lo.length]? = some b := by
    rw [List.getElem?_append_right (by omega)]
    have : pre.length + 1 + lo.length - pre.length = lo.length + 1 := by omega
    rw [this, List.getElem?_cons_succ, List.getElem?_append_right (Nat.le_refl _), Nat.sub_self]
    rfl
  have g2 : (pre ++ a :: (lo ++ b :: hi))[pre.length]? = some a := by
    rw [List.getElem?_append_right (Nat.le_refl _), Nat.sub_self]; rfl
  unfold swap
  rw [g1, g2]
  simp only []
  rw [List.set_append_right _ _ (by omega)]
  have : pre.length + 1 + lo.length - pre.length = lo.length + 1 := by omega
  rw [this, List.set_cons_succ, List.set_append_right _ _ (Nat.le_refl _), Nat.sub_self, List.set_cons_zero,
    List.set_append_right _ _ (Nat.le_refl _), Nat.sub_self, List.set_cons_zero]

/-- the two cases of nextperm -/
theorem nextperm_cases (l : List Int) :
    (Desc l ∧ nextperm l = .ok l.reverse) ∨
    (∃ (pre suf rest : List Int) (a b : Int), l = pre ++ a :: suf ∧ Desc suf ∧ Asc rest ∧ a < b ∧ b ∈ suf
      ∧ (∀ y ∈ suf, a < y → b ≤ y) ∧ (b :: rest).Perm (a :: suf) ∧ nextperm l = .ok (pre ++ b :: rest)) := by
  by_cases hn : l.length = 0
  · have : l = [] := List.length_eq_zero_iff.1 hn
    subst this
    exact Or.inl ⟨List.Pairwise.nil, rfl⟩
  have hlast : Desc (l.drop (l.length - 1)) := by
    have hlt : l.length - 1 < l.length := by omega
    rw [List.drop_eq_getElem_cons hlt]
    have : l.drop (l.length - 1 + 1) = [] := List.drop_eq_nil_of_le (by omega)
    rw [this]
    exact List.pairwise_singleton _ _
  rcases findK_spec l (l.length - 1) (by omega) hlast with ⟨hk, hd⟩ | ⟨k, hk, hk1, hlt, hd⟩
  · left
    refine ⟨hd, ?_⟩
    unfold nextperm
    simp only [hk]
    rw [revLoop_eq l 0 (by omega)]
    simp
  · right
    -- notation
    have hkl : k < l.length := by omega
    have hl1 : revLoop l.length l (k + 1) (l.length - 1) = l.take (k + 1) ++ (l.drop (k + 1)).reverse :=
      revLoop_eq l (k + 1) (by omega)
    have htk : l.take (k + 1) = l.take k ++ [l[k]] := by
      rw [List.take_add_one, List.getElem?_eq_getElem hkl]; rfl
    have hprelen : (l.take k).length = k := by rw [List.length_take]; omega
    have hsuflen : (l.drop (k + 1)).length = l.length - (k + 1) := List.length_drop
    -- the reversed suffix is ascending
    have hsr : Asc (l.drop (k + 1)).reverse := by
      unfold Asc; rw [List.pairwise_reverse]; exact hd
    -- the list after the reversal
    have hl1' : revLoop l.length l (k + 1) (l.length - 1) = l.take k ++ l[k] :: (l.drop (k + 1)).reverse := by
      rw [hl1, htk, List.append_assoc]; rfl
    have hlen1 : (l.take k ++ l[k] :: (l.drop (k + 1)).reverse).length = l.length := by
      simp only [List.length_append, List.length_cons, List.length_reverse, hprelen, hsuflen]; omega
    have hget_k : (l.take k ++ l[k] :: (l.drop (k + 1)).reverse)[k]? = some l[k] := by
      rw [List.getElem?_append_right (by omega), hprelen, Nat.sub_self]; rfl
    -- entries of the reversed part
    have hget_sr : ∀ j, (l.take k ++ l[k] :: (l.drop (k + 1)).reverse)[k + 1 + j]? = (l.drop (k + 1)).reverse[j]? := by
      intro j
      rw [List.getElem?_append_right (by omega), hprelen]
      have : k + 1 + j - k = j + 1 := by omega
      rw [this, List.getElem?_cons_succ]
    -- the last entry is l[k+1] > l[k]
    have hwit : ∃ t, k + 1 ≤ t ∧ t - (k + 1) < l.length ∧
        ∃ h : t < (l.take k ++ l[k] :: (l.drop (k + 1)).reverse).length,
          l[k] < (l.take k ++ l[k] :: (l.drop (k + 1)).reverse)[t] := by
      refine ⟨l.length - 1, by omega, by omega, by rw [hlen1]; omega, ?_⟩
      have h1 : (l.take k ++ l[k] :: (l.drop (k + 1)).reverse)[l.length - 1]? = some l[k + 1] := by
        have e : l.length - 1 = k + 1 + (l.length - 1 - (k + 1)) := by omega
        rw [e, hget_sr, List.getElem?_reverse (by rw [hsuflen]; omega), List.getElem?_drop, hsuflen]
        have e2 : k + 1 + (l.length - (k + 1) - 1 - (l.length - 1 - (k + 1))) = k + 1 := by omega
        rw [e2, List.getElem?_eq_getElem hk1]
      have h2 := List.getElem?_eq_getElem (l := l.take k ++ l[k] :: (l.drop (k + 1)).reverse) (i := l.length - 1)
        (by rw [hlen1]; omega)
      rw [h2] at h1
      have := Option.some.inj h1
      rw [this]; exact hlt
    obtain ⟨i', hfi, hi1, hi2, hi3, hi4⟩ := findI_spec _ l[k] l.length (k + 1) hwit
    rw [hlen1] at hi2
    -- split the reversed suffix at the successor position
    let sr := (l.drop (k + 1)).reverse
    have hsrlen : sr.length = l.length - (k + 1) := by simp [sr]
    let i0 := i' - (k + 1)
    have hi0 : i0 < sr.length := by rw [hsrlen]; omega
    have hsplit : sr = sr.take i0 ++ sr[i0] :: sr.drop (i0 + 1) := by
      conv => lhs; rw [← List.take_append_drop i0 sr, List.drop_eq_getElem_cons hi0]
    have hbval : (l.take k ++ l[k] :: sr)[i']? = some sr[i0] := by
      have e : i' = k + 1 + i0 := by omega
      rw [e]
      show (l.take k ++ l[k] :: (l.drop (k + 1)).reverse)[k + 1 + i0]? = _
      rw [hget_sr, List.getElem?_eq_getElem hi0]
    have hb : l[k] < sr[i0] := by
      have h2 := List.getElem?_eq_getElem (l := l.take k ++ l[k] :: sr) (i := i') (by
        show i' < (l.take k ++ l[k] :: (l.drop (k + 1)).reverse).length
        rw [hlen1]; exact hi2)
      rw [h2] at hbval
      have := Option.some.inj hbval
      rw [← this]; exact hi3
    have hlo : ∀ x ∈ sr.take i0, x ≤ l[k] := by
      intro x hx
      obtain ⟨j, hj, rfl⟩ := List.mem_take_iff_getElem.1 hx
      have hj' : j < i0 ∧ j < sr.length := by omega
      have hidx : k + 1 + j < (l.take k ++ l[k] :: (l.drop (k + 1)).reverse).length := by rw [hlen1]; omega
      have := hi4 (k + 1 + j) hidx (by omega) (by omega)
      have h1 := hget_sr j
      rw [List.getElem?_eq_getElem hidx, List.getElem?_eq_getElem hj'.2] at h1
      rw [← Option.some.inj h1]; exact this
    refine ⟨l.take k, l.drop (k + 1), sr.take i0 ++ l[k] :: sr.drop (i0 + 1), l[k], sr[i0], ?_, hd, ?_, hb, ?_, ?_, ?_, ?_⟩
    · conv => lhs; rw [← List.take_append_drop k l, List.drop_eq_getElem_cons hkl]
    · -- rest ascending
      have hsr' : Asc (sr.take i0 ++ sr[i0] :: sr.drop (i0 + 1)) := by rw [← hsplit]; exact hsr
      unfold Asc at hsr' ⊢
      rw [List.pairwise_append] at hsr' ⊢
      obtain ⟨p1, p2, p3⟩ := hsr'
      have p2' := List.pairwise_cons.1 p2
      refine ⟨p1, ?_, ?_⟩
      · rw [List.pairwise_cons]
        refine ⟨?_, p2'.2⟩
        intro y hy
        have := p2'.1 y hy
        omega
      · intro x hx y hy
        rcases List.mem_cons.1 hy with rfl | hy
        · exact hlo x hx
        · exact p3 x hx y (List.mem_cons_of_mem _ hy)
    · -- b is an element of the suffix
      have : sr[i0] ∈ sr := List.getElem_mem hi0
      exact List.mem_reverse.1 this
    · -- b is the least element of the suffix above a
      intro y hy hay
      have hy' : y ∈ sr := List.mem_reverse.2 hy
      rw [hsplit] at hy'
      have hsr' : Asc (sr.take i0 ++ sr[i0] :: sr.drop (i0 + 1)) := by rw [← hsplit]; exact hsr
      rcases List.mem_append.1 hy' with h | h
      · have := hlo y h; omega
      · rcases List.mem_cons.1 h with rfl | h
        · exact Int.le_refl _
        · unfold Asc at hsr'
          rw [List.pairwise_append] at hsr'
          exact (List.pairwise_cons.1 hsr'.2.1).1 y h
    · -- same elements
      have h1 : (sr[i0] :: (sr.take i0 ++ l[k] :: sr.drop (i0 + 1))).Perm
          (sr[i0] :: l[k] :: (sr.take i0 ++ sr.drop (i0 + 1))) := List.Perm.cons _ List.perm_middle
      have h2 : (l[k] :: sr).Perm (l[k] :: sr[i0] :: (sr.take i0 ++ sr.drop (i0 + 1))) := by
        conv => lhs; rw [hsplit]
        exact List.Perm.cons _ List.perm_middle
      have h3 : (l[k] :: sr).Perm (l[k] :: l.drop (k + 1)) := List.Perm.cons _ (List.reverse_perm _)
      exact (h1.trans (List.Perm.swap _ _ _)).trans (h2.symm.trans h3)
    · -- the computation
      unfold nextperm
      simp only [hk]
      rw [hl1']
      show (match (l.take k ++ l[k] :: sr)[k]? with
        | none => Except.error "IndexError"
        | some a => match findI (l.take k ++ l[k] :: sr) a l.length (k + 1) with
          | none => Except.error "IndexError"
          | some i => Except.ok (swap (l.take k ++ l[k] :: sr) i k)) = _
      rw [show (l.take k ++ l[k] :: sr)[k]? = some l[k] from hget_k]
      simp only []
      rw [show findI (l.take k ++ l[k] :: sr) l[k] l.length (k + 1) = some i' from hfi]
      simp only []
      congr 1
      have e : i' = (l.take k).length + 1 + (sr.take i0).length := by
        rw [hprelen, List.length_take]; omega
      have e2 : k = (l.take k).length := hprelen.symm
      conv => lhs; rw [hsplit]
      rw [e]
      conv => lhs; arg 3; rw [e2]
      exact swap_decomp _ _ _ _ _

end Proofs.Lemmas.NextpermL
