/-
  Helper lemmas for C05: bit padding (ISO 9797-1 method 2) through the Bits plumbing of crysp/padding.py.
-/
import Proofs.Lemmas.ModeL
namespace Proofs.Lemmas.ModeL
open Model Model.Py Model.Mode

theorem rev_lt : ∀ b < 256, Bits.reverseByte b < 256 := by decide +kernel
theorem rev_rev : ∀ b < 256, Bits.reverseByte (Bits.reverseByte b) = b := by decide +kernel

theorem chunks1_go : ∀ (s : List Nat) (fuel : Nat), s.length ≤ fuel → chunks.go 1 s fuel = s.map (fun x => [x])
  | [], 0, _ => rfl
  | [], f+1, _ => rfl
  | x :: s, 0, h => by simp at h
  | x :: s, f+1, h => by
    simp only [chunks.go, List.isEmpty_cons, Bool.false_eq_true, if_false, List.take_succ_cons, List.take_zero,
      List.drop_succ_cons, List.drop_zero, List.map_cons]
    rw [chunks1_go s f (by simpa using h)]

theorem chunks1 (s : List Nat) : chunks 1 s = s.map (fun x => [x]) := by
  unfold chunks; simp [chunks1_go s s.length (Nat.le_refl _)]

theorem leInt_lt : ∀ (L : List Nat), Bytes L → leInt L < 2 ^ (8 * L.length)
  | [], _ => by simp [leInt]
  | b :: bs, h => by
    have hb : b < 256 := h b (by simp)
    have ih := leInt_lt bs (fun x hx => h x (List.mem_cons_of_mem _ hx))
    simp only [leInt, List.length_cons]
    have : 2 ^ (8 * (bs.length + 1)) = 256 * 2 ^ (8 * bs.length) := by
      rw [Nat.mul_succ, Nat.pow_add]; simp [Nat.mul_comm]
    omega

theorem groupsVal1 (f : Nat → Nat) : ∀ (s : List Nat), (∀ x ∈ s, f x < 256) →
    Bits.groupsVal f 1 (s.map (fun x => [x])) = leInt (s.map f)
  | [], _ => rfl
  | x :: s, h => by
    have hx := h x (by simp)
    simp only [List.map_cons, Bits.groupsVal, Bits.groupVal, List.foldl_cons, List.foldl_nil, leInt,
      groupsVal1 f s (fun y hy => h y (List.mem_cons_of_mem _ hy)), Nat.zero_shiftLeft, Nat.zero_or]
    rw [← Nat.shiftLeft_add_eq_or_of_lt (by simpa using hx), Nat.shiftLeft_eq]
    omega

theorem bitsOfBytes_eq (m : List Nat) (hm : Bytes m) :
    Padder.bitsOfBytes m (8 * m.length) = ⟨leInt (m.map Bits.reverseByte), 8 * m.length⟩ := by
  have hlt := leInt_lt (m.map Bits.reverseByte) (by
    intro x hx; obtain ⟨a, ha, rfl⟩ := List.mem_map.1 hx; exact rev_lt a (hm a ha))
  rw [List.length_map] at hlt
  unfold Padder.bitsOfBytes Bits.ofBytes Bits.load
  simp only [show ((-1 : Int) < 0) = True from by decide, if_true, show ((-1 : Int) = 0) = False from by decide, if_false,
    show (-1 : Int).natAbs = 1 from rfl, Nat.mod_one, ne_eq, not_true_eq_false, chunks1,
    groupsVal1 Bits.reverseByte m (fun x hx => rev_lt x (hm x hx))]
  simp only [bind, Except.bind, pure, Except.pure, Bits.setSize, Nat.mod_eq_of_lt hlt]

theorem byteAt : ∀ (L : List Nat) (j : Nat), Bytes L → (leInt L >>> (8 * j)) &&& 0xff = L.getD j 0
  | [], j, _ => by simp [leInt]
  | b :: bs, 0, h => by
    have hb : b < 256 := h b (by simp)
    have : (0xff : Nat) = 2 ^ 8 - 1 := by decide
    simp only [leInt, Nat.mul_zero, Nat.shiftRight_zero, this, Nat.and_two_pow_sub_one_eq_mod, List.getD_cons_zero]
    omega
  | b :: bs, j+1, h => by
    have hb : b < 256 := h b (by simp)
    have ih := byteAt bs j (fun x hx => h x (List.mem_cons_of_mem _ hx))
    have e : (leInt (b :: bs)) >>> (8 * (j + 1)) = (leInt bs) >>> (8 * j) := by
      rw [Nat.shiftRight_eq_div_pow, Nat.shiftRight_eq_div_pow, Nat.mul_succ, Nat.pow_add, Nat.mul_comm (2 ^ (8 * j)),
        ← Nat.div_div_eq_div_mul]
      congr 1
      simp only [leInt]; omega
    rw [e, ih]; simp

theorem toBytes_leInt (L : List Nat) (N : Nat) (hL : Bytes L) (hN : L.length ≤ N) :
    Bits.toBytes ⟨leInt L, 8 * N⟩ = (L ++ List.replicate (N - L.length) 0).map Bits.reverseByte := by
  have hlt : leInt L < 2 ^ (8 * N) :=
    Nat.lt_of_lt_of_le (leInt_lt L hL) (Nat.pow_le_pow_right (by decide) (by omega))
  unfold Bits.toBytes Bits.mask
  simp only [Nat.and_two_pow_sub_one_eq_mod, Nat.mod_eq_of_lt hlt, byteAt L _ hL]
  have hn : (8 * N + 7) / 8 = N := by omega
  rw [hn]
  apply List.ext_getElem
  · simp; omega
  · intro i h1 h2
    simp only [List.getElem_map, List.getElem_range, List.getD_eq_getElem?_getD]
    congr 1
    rw [List.getElem_append]
    split
    · rename_i hi; simp [List.getElem?_eq_getElem hi]
    · rename_i hi; simp [List.getElem?_eq_none (Nat.le_of_not_lt hi)]

theorem leInt_append : ∀ (A B : List Nat), leInt (A ++ B) = leInt A + 2 ^ (8 * A.length) * leInt B
  | [], B => by simp [leInt]
  | a :: A, B => by
    have : 2 ^ (8 * (A.length + 1)) = 256 * 2 ^ (8 * A.length) := by
      rw [Nat.mul_succ, Nat.pow_add]; simp [Nat.mul_comm]
    simp only [List.cons_append, leInt, leInt_append A B, List.length_cons]
    rw [this, Nat.mul_add, Nat.mul_assoc]
    omega

theorem leInt_zeros (n : Nat) : leInt (List.replicate n 0) = 0 := by
  induction n with
  | zero => rfl
  | succ n ih => simp [List.replicate_succ, leInt, ih]

theorem map_rev_rev : ∀ (m : List Nat), Bytes m → (m.map Bits.reverseByte).map Bits.reverseByte = m
  | [], _ => rfl
  | x :: m, hm => by
    rw [List.map_cons, List.map_cons, map_rev_rev m (fun y hy => hm y (List.mem_cons_of_mem _ hy)),
      rev_rev x (hm x (by simp))]

theorem bytes_map_rev (m : List Nat) (hm : Bytes m) : Bytes (m.map Bits.reverseByte) := by
  intro x hx; obtain ⟨a, ha, rfl⟩ := List.mem_map.1 hx; exact rev_lt a (hm a ha)

/-- the bit-padding tail: bits of m, a 1 bit, zero bits up to q whole bytes, read back as bytes -/
theorem bitpad_bytes (m : List Nat) (hm : Bytes m) (q : Nat) (hq : 0 < q) :
    ((Padder.bitsOfBytes m (8 * m.length)).concat (Bits.ofNatSz 1 (8 * q))).toBytes
      = m ++ 0x80 :: List.replicate (q - 1) 0 := by
  have hA := bytes_map_rev m hm
  have hlt := leInt_lt _ hA
  rw [List.length_map] at hlt
  have h1 : 1 % 2 ^ (8 * q) = 1 := Nat.mod_eq_of_lt (Nat.one_lt_two_pow (by omega))
  have hval : leInt (m.map Bits.reverseByte) ||| (1 <<< (8 * m.length)) = leInt (m.map Bits.reverseByte ++ [1]) := by
    rw [Nat.or_comm, ← Nat.shiftLeft_add_eq_or_of_lt hlt, leInt_append, List.length_map, Nat.shiftLeft_eq]
    simp [leInt]; omega
  have hA1 : Bytes (m.map Bits.reverseByte ++ [1]) := hA.append (by intro x hx; simp at hx; omega)
  have hlt1 := leInt_lt _ hA1
  have hsz : 8 * m.length + 8 * q = 8 * (m.length + q) := by omega
  rw [bitsOfBytes_eq m hm]
  unfold Bits.concat Bits.ofNatSz
  simp only [h1, hval, hsz]
  rw [Nat.mod_eq_of_lt (Nat.lt_of_lt_of_le hlt1 (Nat.pow_le_pow_right (by decide) (by simp; omega))),
      toBytes_leInt _ _ hA1 (by simp; omega)]
  simp only [List.map_append, map_rev_rev m hm, List.length_append, List.length_map, List.length_cons, List.length_nil,
    List.map_cons, List.map_replicate, List.append_assoc, List.cons_append, List.nil_append]
  congr 2
  · have : m.length + q - (m.length + (0 + 1)) = q - 1 := by omega
    rw [this]; rfl

theorem iter_bit (l : Nat) (hl : 0 < l) (M : List Nat) (hM : Bytes M) :
    iter ⟨.bit, 8 * l⟩ M = (Spec.Mode.blocks l (Spec.ModePad.bitpad l M), none) := by
  have hp := padLen_pos l hl M
  refine (iter_padded .bit l hl M (0x80 :: List.replicate (Spec.ModePad.padLen l M - 1) 0) (by simp; omega) ?_).1
  intro st
  have hq := model_q M l hl
  obtain ⟨h1, h2, _, _, _⟩ := last_piece M.length l hl
  have hlen : (M.drop ((M.length - 1) / l * l)).length ≤ l := by rw [List.length_drop]; exact h2
  have hqb : (if 8 * l - 8 * (M.drop ((M.length - 1) / l * l)).length = 0 then 8 * l
      else 8 * l - 8 * (M.drop ((M.length - 1) / l * l)).length) = 8 * Spec.ModePad.padLen l M := by
    rw [← hq]
    by_cases h0 : l - (M.drop ((M.length - 1) / l * l)).length = 0
    · rw [if_pos h0, if_pos (by omega)]
    · rw [if_neg h0, if_neg (by omega)]; omega
  simp only [Padder.lastblock]
  rw [if_neg (by omega)]
  simp only [hqb, bitpad_bytes _ (hM.drop _) _ hp.1]
  exact ⟨_, rfl⟩

theorem log2_add_pow (v p : Nat) (hv : v < 2 ^ p) : Nat.log2 (v + 2 ^ p) = p := by
  have hne : v + 2 ^ p ≠ 0 := by have := Nat.two_pow_pos p; omega
  have h1 : p ≤ Nat.log2 (v + 2 ^ p) := (Nat.le_log2 hne).2 (by omega)
  have h2 : Nat.log2 (v + 2 ^ p) < p + 1 := (Nat.log2_lt hne).2 (by rw [Nat.pow_succ]; omega)
  omega

/-- removing the bit padding from a last block t ‖ 0x80 ‖ 0…0 -/
theorem unbit_tail (t : List Nat) (ht : Bytes t) (z : Nat) :
    ∃ n, Padder.rfind1 (Padder.bitsOfBytes (t ++ 0x80 :: List.replicate z 0) (8 * (t ++ 0x80 :: List.replicate z 0).length)) = some n ∧
      ((Padder.bitsOfBytes (t ++ 0x80 :: List.replicate z 0) (8 * (t ++ 0x80 :: List.replicate z 0).length)).setSize n).toBytes = t := by
  have hT : Bytes (t ++ 0x80 :: List.replicate z 0) := ht.append (by
    intro x hx; simp at hx; rcases hx with rfl | ⟨_, rfl⟩ <;> omega)
  have hA := bytes_map_rev t ht
  have hlt := leInt_lt _ hA
  rw [List.length_map] at hlt
  have hval : leInt ((t ++ 0x80 :: List.replicate z 0).map Bits.reverseByte) = leInt (t.map Bits.reverseByte) + 2 ^ (8 * t.length) := by
    have hr1 : Bits.reverseByte 128 = 1 := by decide
    have hr0 : Bits.reverseByte 0 = 0 := by decide
    rw [List.map_append, List.map_cons, List.map_replicate, leInt_append, List.length_map, hr1, hr0]
    simp [leInt, leInt_zeros]
  rw [bitsOfBytes_eq _ hT, hval]
  have hne : leInt (t.map Bits.reverseByte) + 2 ^ (8 * t.length) ≠ 0 := by have := Nat.two_pow_pos (8 * t.length); omega
  refine ⟨8 * t.length, ?_, ?_⟩
  · simp only [Padder.rfind1, if_neg hne, Py.bitLength, log2_add_pow _ _ hlt, Nat.add_sub_cancel]
  · simp only [Bits.setSize, Nat.add_mod_right, Nat.mod_eq_of_lt hlt]
    rw [toBytes_leInt _ _ hA (by simp)]
    simp [map_rev_rev t ht]

theorem remove_bit (l : Nat) (hl : 0 < l) (M : List Nat) (hM : Bytes M) (st : PadState) :
    Padder.remove ⟨.bit, 8 * l⟩ st (Spec.ModePad.bitpad l M) = .ok M := by
  have hq := padLen_pos l hl M
  have h1 := Nat.div_add_mod M.length l
  have h2 := Nat.mod_lt M.length hl
  have hle : M.length / l * l ≤ M.length := by rw [Nat.mul_comm]; omega
  have hX : Spec.ModePad.bitpad l M
      = M.take (M.length / l * l) ++ (M.drop (M.length / l * l) ++ 0x80 :: List.replicate (Spec.ModePad.padLen l M - 1) 0) := by
    unfold Spec.ModePad.bitpad
    rw [← List.append_assoc, List.take_append_drop]
  have hlen : (M.drop (M.length / l * l) ++ 0x80 :: List.replicate (Spec.ModePad.padLen l M - 1) 0).length = l := by
    simp only [List.length_append, List.length_drop, List.length_cons, List.length_replicate]
    unfold Spec.ModePad.padLen at *
    rw [Nat.mul_comm]; omega
  obtain ⟨n, hn1, hn2⟩ := unbit_tail (M.drop (M.length / l * l)) (hM.drop _) (Spec.ModePad.padLen l M - 1)
  simp only [Padder.remove, blocklen_mk]
  rw [hX, drop_len_sub _ _ _ hlen, take_len_sub _ _ _ hlen]
  simp only [hn1, hn2, List.take_append_drop]

end Proofs.Lemmas.ModeL
