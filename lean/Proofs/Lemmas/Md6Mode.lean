/-
  Lemmas for C17: the mode of operation — one PAR level, SEQ, the final chop and the level loop of the model
  against the specification.
-/
import Proofs.Lemmas.Md6F
import Proofs.Lemmas.Md6V
import Proofs.Lemmas.Md6Pad
import Proofs.Lemmas.Md6Words
namespace Proofs.Lemmas.Md6Mode
open Model Model.Py Model.Md6 Proofs.Lemmas Proofs.Lemmas.Md6Bits Proofs.Lemmas.Md6Words

/-- the hypotheses under which the MD6 object is inside the report's parameter space -/
structure Dom (d L r : Nat) (key : List Nat) : Prop where
  hd : d < 2 ^ 12
  hL : L < 255
  hr1 : 1 ≤ r
  hr : r < 2 ^ 12
  hkey : key.length ≤ 64
  hkb : ∀ x ∈ key, x < 256

theorem dom_of {d L r : Nat} {key : List Nat} (hd : d ≤ 512) (hL : L ≤ 64) (hr1 : 1 ≤ r) (hr : r < 4096)
    (hkey : key.length ≤ 64) (hkb : ∀ x ∈ key, x < 256) : Dom d L r key :=
  ⟨by omega, by omega, hr1, by omega, hkey, hkb⟩

theorem ofNat_mod (x : Nat) : BitVec.ofNat 64 (x % 2 ^ 64) = BitVec.ofNat 64 x := by
  apply BitVec.eq_of_toNat_eq; simp

theorem Q_words : (Gen.Md6.Q.map (· % 2 ^ 64)).map (BitVec.ofNat 64) = Spec.Md6.Q := by decide +kernel

theorem keyBytes_eq (key : List Nat) (h : key.length ≤ 64) : keyBytes key = Spec.Md6.zeroPad 64 key := by
  simp [keyBytes, Spec.Md6.zeroPad, List.take_of_length_le h]

theorem K_words (d L : Nat) (r : Option Nat) (key : List Nat) (h : key.length ≤ 64) :
    (((Md6.new d key L r).K).map (· % 2 ^ 64)).map (BitVec.ofNat 64) = Spec.Md6.keyWords key ∧
    (Md6.new d key L r).K.length = 8 := by
  have hlen : (keyBytes key).length = 8 * 8 := by
    rw [keyBytes_eq key h]; simp [Spec.Md6.zeroPad]; omega
  have h2 := (unpackQ_toWords 8 (keyBytes key) hlen).2
  constructor
  · simp only [Md6.new, List.map_map]
    rw [Spec.Md6.keyWords, ← keyBytes_eq key h, ← h2, List.map_map]
    apply List.map_congr_left
    intro g _
    exact ofNat_mod _
  · have := congrArg List.length h2
    rw [toWords_length 8 _ hlen] at this
    simpa [Md6.new] using this

theorem node_refines {d L r : Nat} {key : List Nat} (hdom : Dom d L r key) (u v : Nat) (tail : List Nat)
    (uw vw : Spec.Md6.Word) (tw : List Spec.Md6.Word)
    (hu : BitVec.ofNat 64 u = uw) (hv : BitVec.ofNat 64 v = vw) (ht : tail.map (BitVec.ofNat 64) = tw)
    (hlen : tail.length = 64) :
    f r (nodeList (Md6.new d key L (some r)) u v tail) =
      (Spec.Md6.compress r (Spec.Md6.Q ++ Spec.Md6.keyWords key ++ [uw] ++ [vw] ++ tw)).map (·.toNat) := by
  obtain ⟨hK1, hK2⟩ := K_words d L (some r) key hdom.hkey
  have hQ : Gen.Md6.Q.length = 15 := rfl
  rw [Md6F.f_refines' r hdom.hr1 _ (by simp [nodeList, hQ, hK2, hlen])]
  congr 2
  simp only [nodeList, List.map_append, hK1, List.map_cons, List.map_nil, ofNat_mod, hu, hv, List.map_map]
  congr 1
  rw [← ht]
  apply List.map_congr_left
  intro x _
  exact ofNat_mod x

theorem mapM_ok {α β : Type} (f : α → Except Err β) (g : α → β) (X : List α) (h : ∀ x ∈ X, f x = .ok (g x)) :
    X.mapM f = .ok (X.map g) := by
  induction X with
  | nil => rfl
  | cons x xs ih =>
    rw [List.mapM_cons, h x (by simp), ih (fun y hy => h y (by simp [hy]))]
    rfl

theorem flatten_map_map {α β γ : Type} (l : List α) (g : α → List β) (f : β → γ) :
    (l.map fun i => (g i).map f).flatten = (l.flatMap g).map f := by
  induction l with
  | nil => rfl
  | cons a l ih => simp [ih]

theorem numBlocks_pos (B m : Nat) : 1 ≤ Spec.Md6.numBlocks B m := Nat.le_max_left _ _

theorem numBlocks_le (n m : Nat) (hn : 0 < n) : Spec.Md6.numBlocks (8 * n) m ≤ m / (8 * n) + 1 := by
  rw [Md6Pad.numBlocks_eq n m hn]
  split
  · exact Nat.add_le_add_right (Nat.zero_le _) 1
  · have : (m - 1) / (8 * n) ≤ m / (8 * n) := Nat.div_le_div_right (by omega)
    exact Nat.add_le_add_right this 1

theorem par_refines {d L r : Nat} {key : List Nat} (hdom : Dom d L r key) (level : Nat) (hlevel : level < 2 ^ 8)
    (M : List Nat) (hM : ∀ x ∈ M, x < 256) (bitlen : Option Nat)
    (hbl : bitlen.getD (8 * M.length) ≤ 8 * M.length) (hlen : 8 * M.length < 2 ^ 64) :
    PAR (Md6.new d key L (some r)) level M bitlen =
      .ok (Spec.Md6.ofWords (Spec.Md6.par ⟨d, key, L, r⟩ level M (bitlen.getD (8 * M.length)))) := by
  generalize hm : bitlen.getD (8 * M.length) = m at hbl
  have hnb := Md6Pad.nullBlocks_spec 512 (by omega) M hM bitlen (by rw [hm]; exact hbl)
  rw [hm] at hnb
  simp only [show 8 * 512 = 4096 from rfl] at hnb
  generalize hj : Spec.Md6.numBlocks 4096 m = j at hnb
  have hj1 : 1 ≤ j := hj ▸ numBlocks_pos 4096 m
  have hj2 : j < 2 ^ 56 := by
    have := numBlocks_le 512 m (by omega)
    simp only [show 8 * 512 = 4096 from rfl, hj] at this
    omega
  have hp : j * 4096 - m ≤ 4096 := by
    have h := Md6Pad.numBlocks_eq 512 m (by omega)
    simp only [show 8 * 512 = 4096 from rfl, hj] at h
    split at h
    · omega
    · have := Nat.div_add_mod (m - 1) 4096
      have := Nat.mod_lt (m - 1) (show 4096 > 0 by omega)
      omega
  -- the blocks as words
  have hblk : ∀ i, i < j → (Spec.Md6.block 4096 M m i).length = 8 * 64 := by
    intro i hi
    exact Md6Pad.block_length 512 M m hbl i (by simpa [show 8 * 512 = 4096 from rfl, hj] using hi) (by omega)
  have hmapM : ((List.range j).map (Spec.Md6.block 4096 M m)).mapM (unpackQ 64)
      = .ok (((List.range j).map (Spec.Md6.block 4096 M m)).map fun X => (chunks 8 X).map beInt) := by
    apply mapM_ok
    intro X hX
    simp only [List.mem_map, List.mem_range] at hX
    obtain ⟨i, hi, rfl⟩ := hX
    exact (unpackQ_toWords 64 _ (hblk i hi)).1
  unfold PAR
  rw [hnb]
  simp only [bind, Except.bind, hmapM, List.length_map, List.length_range]
  -- control words
  have hz : (if j = 1 then 1 else 0 : Nat) < 2 ^ 4 := by split <;> omega
  have hV0 := Md6V.V0_eq d key.length (if j = 1 then 1 else 0) L r hdom.hr (by have := hdom.hL; omega) hz (by have := hdom.hkey; omega) hdom.hd
  have hVl := Md6V.setP_V0 d key.length (if j = 1 then 1 else 0) L r (j * 4096 - m) hdom.hr (by have := hdom.hL; omega) hz (by omega)
    (by have := hdom.hkey; omega) hdom.hd
  have hsz : (Md6.new d key L (some r)).size = d := rfl
  have hkl : (Md6.new d key L (some r)).keylen = key.length := rfl
  have hL' : (Md6.new d key L (some r)).L = L := rfl
  have hr' : (Md6.new d key L (some r)).rounds = r := rfl
  simp only [hsz, hkl, hL', hr']
  rw [hVl]
  simp only []
  obtain ⟨hK1, hK2⟩ := K_words d L (some r) key hdom.hkey
  -- every node
  have hnode : ∀ i, i < j →
      parNode (Md6.new d key L (some r)) level
        (if i = j - 1 then ⟨(Spec.Md6.V r L (if j = 1 then 1 else 0) (j * 4096 - m) key.length d).toNat, 64⟩
          else V0 d key.length (if j = 1 then 1 else 0) L r) i
        ((((List.range j).map (Spec.Md6.block 4096 M m)).map fun X => (chunks 8 X).map beInt).getD i [])
      = (Spec.Md6.compress r (Spec.Md6.Q ++ Spec.Md6.keyWords key ++ [Spec.Md6.U level i] ++
          [Spec.Md6.V r L (if j = 1 then 1 else 0) (if i = j - 1 then j * 4096 - m else 0) key.length d]
          ++ Spec.Md6.toWords (Spec.Md6.block 4096 M m i))).map (·.toNat) := by
    intro i hi
    have hget : (((List.range j).map (Spec.Md6.block 4096 M m)).map fun X => (chunks 8 X).map beInt).getD i []
        = (chunks 8 (Spec.Md6.block 4096 M m i)).map beInt := by
      simp [List.getD_eq_getElem?_getD, hi]
    have hw := unpackQ_toWords 64 _ (hblk i hi)
    rw [hget, parNode_eq _ hK2 _ _ _ _ (by
      have := congrArg List.length hw.2
      rw [toWords_length 64 _ (hblk i hi)] at this
      simpa using this), hr']
    apply node_refines hdom
    · apply BitVec.eq_of_toNat_eq
      rw [BitVec.toNat_ofNat, Md6V.U_eq level i hlevel (by omega)]
    · split
      · simp
      · rw [hV0]; simp
    · exact hw.2
    · have := congrArg List.length hw.2
      rw [toWords_length 64 _ (hblk i hi)] at this
      simpa using this
  rw [List.map_congr_left (fun i hi => hnode i (List.mem_range.1 hi))]
  have hne : (List.range j).map (fun i => (Spec.Md6.compress r (Spec.Md6.Q ++ Spec.Md6.keyWords key ++
          [Spec.Md6.U level i] ++
          [Spec.Md6.V r L (if j = 1 then 1 else 0) (if i = j - 1 then j * 4096 - m else 0) key.length d]
          ++ Spec.Md6.toWords (Spec.Md6.block 4096 M m i))).map (·.toNat)) ≠ [] := by
    intro h
    have := congrArg List.length h
    simp at this; omega
  split
  · rename_i h; exact absurd h hne
  · simp only [pure, Except.pure]
    congr 1
    rw [flatten_map_map, packWords_ofWords]
    simp only [Spec.Md6.par, hj]

/-- bits of a big-endian integer: with the accumulator -/
theorem foldl_be_testBit (s : List Nat) (hs : ∀ x ∈ s, x < 256) (acc t : Nat) :
    (s.foldl (fun a x => a * 256 + x) acc).testBit t =
      if t < 8 * s.length then sbit s (8 * s.length - 1 - t) else acc.testBit (t - 8 * s.length) := by
  induction s generalizing acc with
  | nil => simp
  | cons b bs ih =>
    have hb := hs b (by simp)
    rw [List.foldl_cons, ih (fun x hx => hs x (by simp [hx]))]
    have e : acc * 256 + b = acc <<< 8 ||| b := by
      rw [← Nat.shiftLeft_add_eq_or_of_lt (show b < 2 ^ 8 from hb), Nat.shiftLeft_eq]
    simp only [List.length_cons]
    by_cases h1 : t < 8 * bs.length
    · have h2 : t < 8 * (bs.length + 1) := by omega
      rw [if_pos h1, if_pos h2]
      unfold sbit
      have e1 : (8 * (bs.length + 1) - 1 - t) / 8 = (8 * bs.length - 1 - t) / 8 + 1 := by omega
      have e2 : (8 * (bs.length + 1) - 1 - t) % 8 = (8 * bs.length - 1 - t) % 8 := by omega
      rw [e1, e2]; simp
    · rw [if_neg h1, e, Nat.testBit_or, Nat.testBit_shiftLeft]
      by_cases h2 : t < 8 * (bs.length + 1)
      · rw [if_pos h2]
        have : ¬ (8 ≤ t - 8 * bs.length) := by omega
        unfold sbit
        have e1 : (8 * (bs.length + 1) - 1 - t) / 8 = 0 := by omega
        have e2 : 7 - (8 * (bs.length + 1) - 1 - t) % 8 = t - 8 * bs.length := by omega
        simp [this, e1, e2]
      · rw [if_neg h2]
        have h3 : 8 ≤ t - 8 * bs.length := by omega
        have hbt : b.testBit (t - 8 * bs.length) = false :=
          Nat.testBit_lt_two_pow (Nat.lt_of_lt_of_le hb (Nat.pow_le_pow_right (n := 2) (by omega) h3))
        simp [h3, hbt]
        rw [show t - 8 * bs.length - 8 = t - 8 * (bs.length + 1) by omega]

/-- bits of the big-endian byte string of v (nb bytes) -/
theorem sbit_beBytes (v nb k : Nat) (hk : k < 8 * nb) :
    sbit ((List.range nb).map fun i => (v / 256 ^ (nb - 1 - i)) % 256) k = v.testBit (8 * nb - 1 - k) := by
  have hi : k / 8 < nb := by omega
  simp only [sbit, List.getD_eq_getElem?_getD, List.getElem?_map, List.getElem?_range hi, Option.map_some,
    Option.getD_some]
  rw [show (256 : Nat) = 2 ^ 8 from rfl, ← Nat.pow_mul, Nat.testBit_mod_two_pow, Nat.testBit_div_two_pow]
  have : 7 - k % 8 < 8 := by omega
  simp only [this, decide_true, Bool.true_and]
  congr 1; omega

theorem chop_refines (d : Nat) (hd : d ≤ 1024) (C : List Spec.Md6.Word) (hC : C.length = 16) :
    Md6.chop d (Spec.Md6.ofWords C) = .ok (Spec.Md6.chop d C) := by
  have hlen : (Spec.Md6.ofWords C).length = 128 := by rw [ofWords_length, hC]
  have hlt := ofWords_lt C
  unfold Spec.Md6.chop
  generalize Spec.Md6.ofWords C = M at hlen hlt
  unfold Md6.chop
  simp only [Bits.ofBytes, load_neg1, bind, Except.bind, pure, Except.pure, if_neg (Nat.not_lt.2 hd), hlen]
  congr 1
  have hv := bsVal_lt M hlt
  rw [hlen] at hv
  simp only [Bits.shr, Bits.setSize, Bits.mask, show 8 * 128 = 1024 from rfl] at hv ⊢
  have hx : (bsVal M >>> (1024 - d) &&& (2 ^ 1024 - 1)) % 2 ^ d < 2 ^ d := Nat.mod_lt _ (Nat.two_pow_pos d)
  apply bytes_ext
  · simp [toBytes_length]
  · exact toBytes_lt _
  · intro x hx'
    simp only [List.mem_map, List.mem_range] at hx'
    obtain ⟨i, _, rfl⟩ := hx'
    exact Nat.mod_lt _ (by omega)
  · intro k hk
    rw [toBytes_length] at hk
    simp only at hk
    rw [toBytes_sbit _ _ hx k hk]
    rw [sbit_beBytes _ _ k hk, Nat.testBit_mod_two_pow, Nat.testBit_and, Nat.testBit_shiftRight,
      Nat.testBit_two_pow_sub_one, Nat.testBit_mul_two_pow, Nat.testBit_mod_two_pow,
      foldl_be_testBit M hlt, hlen, bsVal_testBit M hlt]
    by_cases hkd : k < d
    · have h1 : 8 * ((d + 7) / 8) - d ≤ 8 * ((d + 7) / 8) - 1 - k := by omega
      have h2 : 8 * ((d + 7) / 8) - 1 - k - (8 * ((d + 7) / 8) - d) < d := by omega
      have h3 : 8 * ((d + 7) / 8) - 1 - k - (8 * ((d + 7) / 8) - d) < 8 * 128 := by omega
      have h4 : 1024 - d + k < 1024 := by omega
      simp only [hkd, h1, h2, h3, decide_true, Bool.true_and, if_true]
      have h5 : k < 1024 := by omega
      have h6 : 8 * 128 - 1 - (8 * ((d + 7) / 8) - 1 - k - (8 * ((d + 7) / 8) - d)) = 1024 - d + k := by omega
      clear hv hx
      simp only [h5, h6, decide_true, Bool.and_true]
    · have h1 : ¬ (8 * ((d + 7) / 8) - d ≤ 8 * ((d + 7) / 8) - 1 - k) := by omega
      simp [hkd, h1]

theorem chop_length (d : Nat) (C : List Spec.Md6.Word) : (Spec.Md6.chop d C).length = (d + 7) / 8 := by
  simp [Spec.Md6.chop]

theorem steps_size (t : Nat) (st : Array Spec.Md6.Word × Spec.Md6.Word) :
    ((List.range t).foldl Spec.Md6.step st).1.size = st.1.size + t := by
  induction t with
  | zero => simp
  | succ t ih =>
    rw [List.range_succ, List.foldl_append]
    simp only [List.foldl_cons, List.foldl_nil, Spec.Md6.step, Array.size_push, ih]
    omega

theorem compress_length (r : Nat) (hr : 1 ≤ r) (N : List Spec.Md6.Word) :
    (Spec.Md6.compress r N).length = 16 := by
  simp only [Spec.Md6.compress, List.length_drop, Array.length_toList, steps_size, List.size_toArray, Spec.Md6.c]
  omega

theorem seq_refines {d L r : Nat} {key : List Nat} (hdom : Dom d L r key) (hd : d ≤ 1024)
    (M : List Nat) (hM : ∀ x ∈ M, x < 256) (bitlen : Option Nat)
    (hbl : bitlen.getD (8 * M.length) ≤ 8 * M.length) (hlen : 8 * M.length < 2 ^ 64) :
    SEQ (Md6.new d key L (some r)) M bitlen =
      .ok (Spec.Md6.chop d (Spec.Md6.seq ⟨d, key, L, r⟩ M (bitlen.getD (8 * M.length)))) := by
  generalize hm : bitlen.getD (8 * M.length) = m at hbl
  have hnb := Md6Pad.nullBlocks_spec 384 (by omega) M hM bitlen (by rw [hm]; exact hbl)
  rw [hm] at hnb
  simp only [show 8 * 384 = 3072 from rfl] at hnb
  generalize hj : Spec.Md6.numBlocks 3072 m = j at hnb
  have hj1 : 1 ≤ j := hj ▸ numBlocks_pos 3072 m
  have hj2 : j < 2 ^ 56 := by
    have := numBlocks_le 384 m (by omega)
    simp only [show 8 * 384 = 3072 from rfl, hj] at this
    omega
  have hp : j * 3072 - m ≤ 3072 := by
    have h := Md6Pad.numBlocks_eq 384 m (by omega)
    simp only [show 8 * 384 = 3072 from rfl, hj] at h
    split at h
    · omega
    · have := Nat.div_add_mod (m - 1) 3072
      have := Nat.mod_lt (m - 1) (show 3072 > 0 by omega)
      omega
  have hblk : ∀ i, i < j → (Spec.Md6.block 3072 M m i).length = 8 * 48 := by
    intro i hi
    exact Md6Pad.block_length 384 M m hbl i (by simpa [show 8 * 384 = 3072 from rfl, hj] using hi) (by omega)
  have hmapM : ((List.range j).map (Spec.Md6.block 3072 M m)).mapM (unpackQ 48)
      = .ok (((List.range j).map (Spec.Md6.block 3072 M m)).map fun X => (chunks 8 X).map beInt) := by
    apply mapM_ok
    intro X hX
    simp only [List.mem_map, List.mem_range] at hX
    obtain ⟨i, hi, rfl⟩ := hX
    exact (unpackQ_toWords 48 _ (hblk i hi)).1
  unfold SEQ
  rw [hnb]
  simp only [bind, Except.bind, hmapM, List.length_map, List.length_range]
  have hkl8 : key.length < 2 ^ 8 := by have := hdom.hkey; omega
  have hL8 : L < 2 ^ 8 := by have := hdom.hL; omega
  have hV0 := Md6V.V0_eq d key.length 0 L r hdom.hr hL8 (by omega) hkl8 hdom.hd
  have hVp := Md6V.setP_V0 d key.length 0 L r (j * 3072 - m) hdom.hr hL8 (by omega) (by omega) hkl8 hdom.hd
  have hVl := Md6V.setZ1_setP_V0 d key.length L r (j * 3072 - m) hdom.hr hL8 (by omega) hkl8 hdom.hd
  rw [hVp] at hVl
  simp only [bind, Except.bind] at hVl
  have hsz : (Md6.new d key L (some r)).size = d := rfl
  have hkl : (Md6.new d key L (some r)).keylen = key.length := rfl
  have hL' : (Md6.new d key L (some r)).L = L := rfl
  have hr' : (Md6.new d key L (some r)).rounds = r := rfl
  simp only [hsz, hkl, hL', hr']
  rw [hVp]
  simp only []
  rw [hVl]
  simp only []
  obtain ⟨hK1, hK2⟩ := K_words d L (some r) key hdom.hkey
  -- the chained fold, related step by step
  have hsim := Md6F.foldl_range_sim
    (fun (_ : Nat) (Cm : List Nat) (Cs : List Spec.Md6.Word) => Cm = Cs.map (·.toNat) ∧ Cs.length = 16)
    (fun C i => seqNode (Md6.new d key L (some r))
        (if i = j - 1 then ⟨(Spec.Md6.V r L 1 (j * 3072 - m) key.length d).toNat, 64⟩ else V0 d key.length 0 L r) i C
        ((((List.range j).map (Spec.Md6.block 3072 M m)).map fun X => (chunks 8 X).map beInt).getD i []))
    (fun C i => Spec.Md6.compress r (Spec.Md6.Q ++ Spec.Md6.keyWords key ++ [Spec.Md6.U (L + 1) i] ++
        [Spec.Md6.V r L (if i = j - 1 then 1 else 0) (if i = j - 1 then j * 3072 - m else 0) key.length d]
        ++ C ++ Spec.Md6.toWords (Spec.Md6.block 3072 M m i)))
    j (List.replicate 16 0) (List.replicate 16 (0 : Spec.Md6.Word))
    ⟨by simp, by simp⟩
    (by
      intro i Cm Cs hi ⟨hC1, hC2⟩
      have hget : (((List.range j).map (Spec.Md6.block 3072 M m)).map fun X => (chunks 8 X).map beInt).getD i []
          = (chunks 8 (Spec.Md6.block 3072 M m i)).map beInt := by
        simp [List.getD_eq_getElem?_getD, hi]
      have hw := unpackQ_toWords 48 _ (hblk i hi)
      have hBl : ((chunks 8 (Spec.Md6.block 3072 M m i)).map beInt).length = 48 := by
        have := congrArg List.length hw.2
        rw [toWords_length 48 _ (hblk i hi)] at this
        simpa using this
      have hCm : Cm.length = 16 := by rw [hC1]; simpa using hC2
      refine ⟨?_, compress_length r hdom.hr1 _⟩
      rw [hget, seqNode_eq _ hK2 _ _ _ _ hCm hBl, hr', hL']
      rw [List.append_assoc (Spec.Md6.Q ++ Spec.Md6.keyWords key ++ [Spec.Md6.U (L + 1) i] ++
        [Spec.Md6.V r L (if i = j - 1 then 1 else 0) (if i = j - 1 then j * 3072 - m else 0) key.length d])]
      apply node_refines hdom
      · apply BitVec.eq_of_toNat_eq
        rw [BitVec.toNat_ofNat, Md6V.U_eq (L + 1) i (by have := hdom.hL; omega) (by omega)]
      · split
        · simp
        · rw [hV0]; simp
      · rw [List.map_append, hw.2, hC1, List.map_map]
        congr 1
        rw [List.map_congr_left (g := id) (by intro x _; simp [BitVec.ofNat_toNat])]
        simp
      · simp [hCm, hBl])
  obtain ⟨hC1, hC2⟩ := hsim
  rw [hC1, packWords_ofWords, chop_refines d hd _ hC2]
  simp only [Spec.Md6.seq, hj, Spec.Md6.c]

theorem length_flatMap_const {α β : Type} (l : List α) (g : α → List β) (c : Nat) (h : ∀ a ∈ l, (g a).length = c) :
    (l.flatMap g).length = c * l.length := by
  induction l with
  | nil => simp
  | cons a l ih =>
    rw [List.flatMap_cons, List.length_append, h a (by simp), ih (fun b hb => h b (by simp [hb])), List.length_cons]
    rw [Nat.mul_add, Nat.mul_one, Nat.add_comm]

theorem par_length (P : Spec.Md6.Params) (hr : 1 ≤ P.r) (level : Nat) (M : List Nat) (m : Nat) :
    (Spec.Md6.par P level M m).length = 16 * Spec.Md6.numBlocks 4096 m := by
  unfold Spec.Md6.par
  simp only []
  rw [length_flatMap_const _ _ 16 (fun i _ => compress_length P.r hr _), List.length_range]

theorem loop_refines {d L r : Nat} {key : List Nat} (hdom : Dom d L r key) (hd : d ≤ 1024) (fuel : Nat) :
    ∀ (l : Nat) (M : List Nat) (bitlen : Option Nat), l ≤ L → (∀ x ∈ M, x < 256) →
      bitlen.getD (8 * M.length) ≤ 8 * M.length → 8 * M.length < 2 ^ 64 →
      (bitlen.getD (8 * M.length) + 7) / 8 ≤ 512 + fuel →
      levelLoop (Md6.new d key L (some r)) (fuel + 1) l M bitlen =
        .ok (Spec.Md6.chop d (Spec.Md6.levels ⟨d, key, L, r⟩ (fuel + 1) (l + 1) M (bitlen.getD (8 * M.length)))) := by
  induction fuel with
  | zero =>
    intro l M bitlen hl hM hbl hlen hfuel
    generalize hm : bitlen.getD (8 * M.length) = m at hbl hfuel
    have hL' : (Md6.new d key L (some r)).L = L := rfl
    have hsz : (Md6.new d key L (some r)).size = d := rfl
    unfold levelLoop Spec.Md6.levels
    simp only [hL', hsz, Nat.add_right_cancel_iff]
    by_cases hlL : l = L
    · rw [if_pos hlL, if_pos hlL, seq_refines hdom hd M hM bitlen (by rw [hm]; exact hbl) hlen, hm]
    · rw [if_neg hlL, if_neg hlL]
      have hpar := par_refines hdom (l + 1) (by have := hdom.hL; omega) M hM bitlen (by rw [hm]; exact hbl) hlen
      rw [hm] at hpar
      rw [hpar]
      have hj : Spec.Md6.numBlocks 4096 m = 1 := by
        have h := Md6Pad.numBlocks_eq 512 m (by omega)
        simp only [show 8 * 512 = 4096 from rfl] at h
        rw [h]; split
        · rfl
        · have : (m - 1) / 4096 = 0 := Nat.div_eq_of_lt (by omega)
          omega
      have hpl := par_length ⟨d, key, L, r⟩ hdom.hr1 (l + 1) M m
      rw [hj] at hpl
      simp only [bind, Except.bind, ofWords_length, hpl, Spec.Md6.c, if_true]
      exact chop_refines d hd _ hpl
  | succ fuel ih =>
    intro l M bitlen hl hM hbl hlen hfuel
    generalize hm : bitlen.getD (8 * M.length) = m at hbl hfuel
    have hL' : (Md6.new d key L (some r)).L = L := rfl
    have hsz : (Md6.new d key L (some r)).size = d := rfl
    unfold levelLoop Spec.Md6.levels
    simp only [hL', hsz, Nat.add_right_cancel_iff]
    by_cases hlL : l = L
    · rw [if_pos hlL, if_pos hlL, seq_refines hdom hd M hM bitlen (by rw [hm]; exact hbl) hlen, hm]
    · rw [if_neg hlL, if_neg hlL]
      have hpar := par_refines hdom (l + 1) (by have := hdom.hL; omega) M hM bitlen (by rw [hm]; exact hbl) hlen
      rw [hm] at hpar
      rw [hpar]
      have hpl := par_length ⟨d, key, L, r⟩ hdom.hr1 (l + 1) M m
      simp only [bind, Except.bind, ofWords_length, Spec.Md6.c]
      by_cases hj : Spec.Md6.numBlocks 4096 m = 1
      · rw [hj] at hpl
        simp only [hpl, if_true]
        exact chop_refines d hd _ hpl
      · have hne : ¬ (Spec.Md6.par ⟨d, key, L, r⟩ (l + 1) M m).length = 16 := by rw [hpl]; omega
        have hne2 : ¬ 8 * (Spec.Md6.par ⟨d, key, L, r⟩ (l + 1) M m).length = 128 := by omega
        simp only [hne, hne2, if_false]
        have hjj := Md6Pad.numBlocks_eq 512 m (by omega)
        simp only [show 8 * 512 = 4096 from rfl] at hjj
        have hjle := numBlocks_le 512 m (by omega)
        simp only [show 8 * 512 = 4096 from rfl] at hjle
        have := ih (l + 1) (Spec.Md6.ofWords (Spec.Md6.par ⟨d, key, L, r⟩ (l + 1) M m)) none (by omega)
          (ofWords_lt _) (by simp) (by rw [ofWords_length, hpl]; omega)
          (by
            simp only [Option.getD_none, ofWords_length, hpl]
            split at hjj
            · omega
            · omega)
        simp only [Option.getD_none, ofWords_length] at this
        rw [this]
        congr 3
        omega

/-- an explicit bit length beyond the end of the message is refused by the padder, for either block size -/
theorem nullBlocks_too_long (B : Nat) (M : List Nat) (b : Nat) (hb : 8 * M.length < b) :
    ∃ e, Md6.nullBlocks B M (some b) = .error e := by
  refine ⟨"PaddingError:input bitlen mismatch", ?_⟩
  unfold Md6.nullBlocks Padder.iterblocks
  simp [hb]

theorem chop_low_bits (d : Nat) (h8 : d % 8 ≠ 0) (C : List Spec.Md6.Word) :
    (Spec.Md6.chop d C).getD (d / 8) 0 % 2 ^ (8 - d % 8) = 0 := by
  unfold Spec.Md6.chop
  simp only
  have hnb : (d + 7) / 8 = d / 8 + 1 := by omega
  have hi : d / 8 < (d + 7) / 8 := by omega
  rw [List.getD_eq_getElem?_getD, List.getElem?_map, List.getElem?_range hi]
  simp only [Option.map_some, Option.getD_some, hnb, Nat.add_sub_cancel, Nat.sub_self, Nat.pow_zero, Nat.div_one]
  have e : 8 * (d / 8 + 1) - d = 8 - d % 8 := by omega
  rw [e]
  generalize List.foldl (fun acc x => acc * 256 + x) 0 (Spec.Md6.ofWords C) % 2 ^ d = x
  have h256 : (256 : Nat) = 2 ^ (d % 8) * 2 ^ (8 - d % 8) := by
    rw [← Nat.pow_add, show d % 8 + (8 - d % 8) = 8 by omega]
  rw [h256, Nat.mod_mul_left_mod, Nat.mul_mod_left]

theorem seq_length (P : Spec.Md6.Params) (hr : 1 ≤ P.r) (M : List Nat) (m : Nat) :
    (Spec.Md6.seq P M m).length = 16 := by
  unfold Spec.Md6.seq
  simp only []
  have hj := numBlocks_pos 3072 m
  generalize Spec.Md6.numBlocks 3072 m = j at hj
  obtain ⟨j', rfl⟩ : ∃ j', j = j' + 1 := ⟨j - 1, by omega⟩
  rw [List.range_succ, List.foldl_append]
  simp only [List.foldl_cons, List.foldl_nil]
  exact compress_length P.r hr _

/-- the specification's level loop never runs out of its iteration bound: the result is one chaining value -/
theorem levels_length (P : Spec.Md6.Params) (hr : 1 ≤ P.r) (fuel : Nat) :
    ∀ (level : Nat) (M : List Nat) (m : Nat), (m + 7) / 8 ≤ 512 + fuel →
      (Spec.Md6.levels P (fuel + 1) level M m).length = 16 := by
  induction fuel with
  | zero =>
    intro level M m hf
    unfold Spec.Md6.levels
    split
    · exact seq_length P hr M m
    · have hj : Spec.Md6.numBlocks 4096 m = 1 := by
        have h := Md6Pad.numBlocks_eq 512 m (by omega)
        simp only [show 8 * 512 = 4096 from rfl] at h
        rw [h]; split
        · rfl
        · have : (m - 1) / 4096 = 0 := Nat.div_eq_of_lt (by omega)
          omega
      have hpl := par_length P hr level M m
      rw [hj] at hpl
      simp only [hpl, Spec.Md6.c, if_true]
  | succ fuel ih =>
    intro level M m hf
    unfold Spec.Md6.levels
    split
    · exact seq_length P hr M m
    · have hpl := par_length P hr level M m
      by_cases hne : (Spec.Md6.par P level M m).length = Spec.Md6.c
      · rw [if_pos hne]; exact hne
      · rw [if_neg hne]
        have hne : (Spec.Md6.par P level M m).length ≠ 16 := hne
        have hj : Spec.Md6.numBlocks 4096 m ≠ 1 := by intro h; rw [h] at hpl; exact hne hpl
        have hjj := Md6Pad.numBlocks_eq 512 m (by omega)
        simp only [show 8 * 512 = 4096 from rfl] at hjj
        apply ih
        rw [hpl]
        split at hjj
        · omega
        · omega

end Proofs.Lemmas.Md6Mode
