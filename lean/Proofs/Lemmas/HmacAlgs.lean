/- HMAC over the ten hash objects of the library: the generic theorem composed with C01's hash_refines -/
import Proofs.Lemmas.Hmac
import Proofs.Lemmas.EndToEnd
namespace Proofs.Lemmas.HmacAlgs
open Model Model.Hmac Proofs.Lemmas.Parse Proofs.Lemmas.EndToEnd

def IsBytes (m : List Nat) : Prop := ∀ x ∈ m, x < 256

theorem isBytes_append {a b : List Nat} (ha : IsBytes a) (hb : IsBytes b) : IsBytes (a ++ b) := by
  intro x hx
  rcases List.mem_append.1 hx with h | h
  · exact ha x h
  · exact hb x h

theorem isBytes_xor (a : List Nat) (ha : IsBytes a) (c : Nat) (hc : c < 256) : IsBytes (a.map (· ^^^ c)) := by
  intro x hx
  obtain ⟨y, hy, rfl⟩ := List.mem_map.1 hx
  exact Nat.xor_lt_two_pow (n := 8) (ha y hy) hc

theorem isBytes_pad (a : List Nat) (ha : IsBytes a) (n : Nat) : IsBytes (a ++ List.replicate n 0) := by
  apply isBytes_append ha
  intro x hx
  rw [List.mem_replicate] at hx
  omega

/-- the generic theorem for a hash function that is only known to agree with `H` on byte strings -/
theorem hmac_eq_on_bytes (h : HashFn) (H : List Nat → List Nat) (B : Nat) (hB : 0 < B) (key msg : List Nat)
    (hh : ∀ m, IsBytes m → h m = .ok (H m)) (hH : ∀ m, IsBytes (H m))
    (hkey : IsBytes key) (hmsg : IsBytes msg) (hL : B < key.length → (H key).length ≤ B) :
    Hmac.hmac h (8 * B) key msg = .ok (Spec.rfc2104 H B key msg) := by
  have h8 : 8 * B / 8 = B := by omega
  -- the key material
  have hK : ∃ K, Hmac.setkey { blocksize := 8 * B } h key = .ok { blocksize := 8 * B, K := some K } ∧
      K = Spec.hmacKey H B key ∧ K.length = B ∧ IsBytes K := by
    rcases Nat.lt_trichotomy key.length B with hk | hk | hk
    · refine ⟨key ++ List.replicate (B - key.length) 0, ?_, ?_, by simp; omega, isBytes_pad _ hkey _⟩
      · have h1 : ¬ key.length > B := by omega
        simp [Hmac.setkey, h8, h1, hk, pure, Except.pure, bind, Except.bind]
      · have h1 : ¬ key.length > B := by omega
        simp [Spec.hmacKey, h1]
    · refine ⟨key, ?_, ?_, hk, hkey⟩
      · simp [Hmac.setkey, h8, hk, pure, Except.pure, bind, Except.bind]
      · have h1 : ¬ key.length > B := by omega
        simp [Spec.hmacKey, hk]
    · have hl := hL hk
      refine ⟨H key ++ List.replicate (B - (H key).length) 0, ?_, ?_, by simp; omega, isBytes_pad _ (hH key) _⟩
      · by_cases hl' : (H key).length < B
        · simp [Hmac.setkey, h8, hk, hh key hkey, hl', pure, Except.pure, bind, Except.bind]
        · have : B - (H key).length = 0 := by omega
          simp [Hmac.setkey, h8, hk, hh key hkey, hl', this, pure, Except.pure, bind, Except.bind]
      · have h1 : key.length > B := hk
        simp [Spec.hmacKey, h1]
  obtain ⟨K, hset, hKeq, hKlen, hKb⟩ := hK
  have hne : K.isEmpty = false := by
    cases K with
    | nil => simp at hKlen; omega
    | cons _ _ => rfl
  have hi := hh (K.map (· ^^^ 0x36) ++ msg) (isBytes_append (isBytes_xor K hKb _ (by decide)) hmsg)
  have ho := hh (K.map (· ^^^ 0x5c) ++ H (K.map (· ^^^ 0x36) ++ msg))
    (isBytes_append (isBytes_xor K hKb _ (by decide)) (hH _))
  simp only [Hmac.hmac, hset, bind, Except.bind, Hmac.call, hne, h8, Hmac.xorBytes_replicate K B _ hKlen,
    Bool.false_eq_true, if_false, hi, ho, Spec.rfc2104, ← hKeq]

/-- the standard hash as a function on byte values -/
def specFn (alg : Model.Alg) (m : List Nat) : List Nat :=
  toNatBytes (Spec.hash (toSpec alg) (Spec.bytesToBits (m.map (BitVec.ofNat 8))))

theorem outlen_le_block (alg : Model.Alg) : alg.outlen ≤ alg.blocklen := by cases alg <;> decide

theorem model_hash_on_bytes (alg : Model.Alg) (m : List Nat) (hm : IsBytes m) :
    Model.hash alg m none = .ok (specFn alg m) := by
  have e : m = toNatBytes (m.map (BitVec.ofNat 8)) := by
    simp only [toNatBytes, List.map_map]
    conv => lhs; rw [← List.map_id m]
    apply List.map_congr_left
    intro x hx
    simp [Nat.mod_eq_of_lt (hm x hx)]
  have := hash_eq alg (m.map (BitVec.ofNat 8)) none (fun l hl => by cases hl)
  rw [← e] at this
  rw [this]
  simp only [Option.getD_none, specFn]
  rw [List.take_of_length_le (by rw [SpecList.bytesToBits_length]; exact Nat.le_refl _)]

/-- `HMAC(h,key)(msg)` for the ten hash objects of the library is RFC 2104 over the standard hash function -/
theorem hmac_alg (alg : Model.Alg) (key msg : List Nat) (hkey : IsBytes key) (hmsg : IsBytes msg) :
    Hmac.hmac (fun m => Model.hash alg m none) (8 * alg.blocklen) key msg
      = .ok (Spec.rfc2104 (specFn alg) alg.blocklen key msg) := by
  apply hmac_eq_on_bytes _ (specFn alg) alg.blocklen (by cases alg <;> decide) key msg
    (model_hash_on_bytes alg) (fun m => toNatBytes_lt _) hkey hmsg
  intro _
  simp only [specFn, toNatBytes_length, spec_length]
  exact outlen_le_block alg

end Proofs.Lemmas.HmacAlgs
