/-
  `Bits` values as bit lists (bit 0 first), for the padding code: `Bits(bytes,size=n)` is the first n bits of the byte
  stream, `//` is concatenation, `.bytes()` regroups into bytes most-significant-bit first.
-/
import Model.Padding
import Spec.Bytes
import Proofs.Lemmas.Parse
import Proofs.Lemmas.Md
namespace Proofs.Lemmas.BitsList
open Model Model.Py Proofs.Lemmas.Parse

/-- the low `n` bits of `v`, bit 0 first -/
def bitsLE (v n : Nat) : List Bool := (List.range n).map fun i => v.testBit i

/-- the bit sequence a `Bits` object denotes -/
def bitsOf (b : Bits) : List Bool := bitsLE b.ival b.size

@[simp] theorem bitsLE_length (v n : Nat) : (bitsLE v n).length = n := by simp [bitsLE]

theorem bitsLE_add (v a b : Nat) : bitsLE v (a + b) = bitsLE v a ++ bitsLE (v >>> a) b := by
  simp only [bitsLE, List.range_add, List.map_append, List.map_map]
  congr 1
  apply List.map_congr_left
  intro i _
  simp [Nat.testBit_shiftRight]

theorem bitsLE_mod (v n : Nat) : bitsLE (v % 2 ^ n) n = bitsLE v n := by
  simp only [bitsLE]
  apply List.map_congr_left
  intro i hi
  have : i < n := List.mem_range.1 hi
  simp [Nat.testBit_mod_two_pow, this]

theorem bitsLE_zero (n : Nat) : bitsLE 0 n = List.replicate n false := by
  apply List.ext_getElem
  · simp
  · intro i h1 h2
    simp [bitsLE]

theorem bitsLE_take (v n N : Nat) (h : n ≤ N) : (bitsLE v N).take n = bitsLE v n := by
  obtain ⟨d, rfl⟩ := Nat.exists_eq_add_of_le h
  rw [bitsLE_add, List.take_left' (by simp)]

theorem bitsLE_drop (v a b : Nat) : (bitsLE v (a + b)).drop a = bitsLE (v >>> a) b := by
  rw [bitsLE_add, List.drop_left' (by simp)]

/-- bits of a byte value, most significant first -/
def natByteBits (b : Nat) : List Bool := (List.range 8).map fun j => b.testBit (7 - j)

theorem reverseByte_bits : ∀ x, x < 256 → bitsLE (Bits.reverseByte x) 8 = natByteBits x := by decide +kernel
theorem reverseByte_lt : ∀ x, x < 256 → Bits.reverseByte x < 256 := by decide +kernel
/-- regrouping: the byte whose bits (msb first) are the low 8 bits of v (lsb first) -/
theorem bitsVal_bitsLE : ∀ x, x < 256 → Spec.bitsVal (bitsLE x 8) = Bits.reverseByte x := by decide +kernel

theorem bitsLE_byte (x y : Nat) (_hx : x < 256) : bitsLE (x + 256 * y) 8 = bitsLE x 8 := by
  rw [← bitsLE_mod (x + 256 * y) 8, ← bitsLE_mod x 8]
  have : (x + 256 * y) % 256 = x % 256 := by omega
  exact congrArg (fun t => bitsLE t 8) this

/-- the value `Bits.load(v,±1)` builds is the little-endian number of the per-byte images
    (stated for an arbitrary byte map `f` so that the kernel never unfolds `reverse_byte` on a variable) -/
theorem groupsVal_map (f : Nat → Nat) (s : List Nat) (hs : ∀ x ∈ s, f x < 256) :
    Bits.groupsVal f 1 (s.map fun x => [x]) = leInt (s.map f) := by
  induction s with
  | nil => rfl
  | cons x xs ih =>
    have hx : f x < 2 ^ 8 := hs x (by simp)
    generalize hfx : f x = r at hx
    simp only [List.map_cons, Bits.groupsVal, Bits.groupVal, List.foldl_cons, List.foldl_nil, Nat.zero_shiftLeft,
      Nat.zero_or, leInt, hfx]
    rw [ih (fun y hy => hs y (by simp [hy])), ← Nat.shiftLeft_add_eq_or_of_lt hx, Nat.shiftLeft_eq]
    omega

theorem bitsLE_leInt_map (f : Nat → Nat) (g : Nat → List Bool) (s : List Nat) (hf : ∀ x ∈ s, f x < 256)
    (hg : ∀ x ∈ s, bitsLE (f x) 8 = g x) :
    bitsLE (leInt (s.map f)) (8 * s.length) = s.flatMap g := by
  induction s with
  | nil => rfl
  | cons x xs ih =>
    have hx := hf x (by simp)
    have hgx := hg x (by simp)
    generalize hfx : f x = r at hx hgx
    have e : 8 * (x :: xs).length = 8 + 8 * xs.length := by simp; omega
    rw [e, bitsLE_add]
    simp only [List.map_cons, leInt, List.flatMap_cons, hfx]
    rw [bitsLE_byte _ _ hx, hgx]
    congr 1
    have : (r + 256 * leInt (xs.map f)) >>> 8 = leInt (xs.map f) := by
      rw [Nat.shiftRight_eq_div_pow]; show (_ + 256 * _) / 256 = _; omega
    rw [this]
    exact ih (fun y hy => hf y (by simp [hy])) (fun y hy => hg y (by simp [hy]))

/-- **`Bits(m,size=n)`** (bitstream order) denotes the first n bits of the byte stream -/
theorem bitsOf_bitsOfBytes (m : List Nat) (hs : ∀ x ∈ m, x < 256) (n : Nat) (hn : n ≤ 8 * m.length) :
    bitsOf (Padder.bitsOfBytes m n) = (m.flatMap natByteBits).take n := by
  have h1 : Padder.bitsOfBytes m n = ⟨leInt (m.map Bits.reverseByte) % 2 ^ n, n⟩ := by
    simp only [Padder.bitsOfBytes, Bits.ofBytes, Bits.load, bind, Except.bind, pure, Except.pure,
      show ((-1 : Int) < 0) by decide, show ¬ ((-1 : Int) = 0) by decide, if_true, if_false, Nat.mod_one,
      show (-1 : Int).natAbs = 1 by decide, ne_eq, not_true_eq_false, Md.chunks_one,
      groupsVal_map Bits.reverseByte m (fun x hx => reverseByte_lt x (hs x hx)), Bits.setSize]
  rw [h1]
  simp only [bitsOf, bitsLE_mod]
  rw [← bitsLE_take _ n _ hn, bitsLE_leInt_map Bits.reverseByte natByteBits m (fun x hx => reverseByte_lt x (hs x hx))
    (fun x hx => reverseByte_bits x (hs x hx))]

theorem bitsOfBytes_wf (m : List Nat) (n : Nat) : (Padder.bitsOfBytes m n).WF ∧ (Padder.bitsOfBytes m n).size = n := by
  simp only [Padder.bitsOfBytes, Bits.ofBytes, Bits.load, bind, Except.bind, pure, Except.pure,
    show ((-1 : Int) < 0) by decide, show ¬ ((-1 : Int) = 0) by decide, if_true, if_false, Nat.mod_one,
    show (-1 : Int).natAbs = 1 by decide, ne_eq, not_true_eq_false, Bits.setSize, Bits.WF]
  exact ⟨Nat.mod_lt _ (Nat.two_pow_pos n), trivial⟩

/-- **`a // o`** is concatenation of the bit sequences -/
theorem bitsOf_concat (a o : Bits) (ha : a.WF) : bitsOf (a.concat o) = bitsOf a ++ bitsOf o := by
  simp only [Bits.concat, Bits.ofNatSz, bitsOf, bitsLE_mod]
  rw [bitsLE_add]
  congr 1
  · simp only [bitsLE]
    apply List.map_congr_left
    intro i hi
    have hi : i < a.size := List.mem_range.1 hi
    simp only [Nat.testBit_or, Nat.testBit_shiftLeft]
    have : ¬ (i ≥ a.size) := by omega
    simp [this]
  · congr 1
    rw [Nat.shiftRight_or_distrib, Nat.shiftLeft_shiftRight]
    have : a.ival >>> a.size = 0 := by
      rw [Nat.shiftRight_eq_div_pow]; exact Nat.div_eq_of_lt ha
    rw [this, Nat.zero_or]

theorem concat_wf (a o : Bits) : (a.concat o).WF ∧ (a.concat o).size = a.size + o.size := by
  simp only [Bits.concat, Bits.ofNatSz, Bits.WF]
  exact ⟨Nat.mod_lt _ (Nat.two_pow_pos _), trivial⟩

theorem bitsOf_one : bitsOf (Bits.ofNatSz 1 1) = [true] := by decide
theorem bitsOf_zeros (n : Nat) : bitsOf (Bits.ofNatSz 0 n) = List.replicate n false := by
  simp [bitsOf, Bits.ofNatSz, bitsLE_zero]

/-- **`.bytes()`** of a well-formed value of 8n bits regroups its bit sequence into bytes, first bit most significant -/
theorem toBytes_spec (b : Bits) (hb : b.WF) (n : Nat) (hn : b.size = 8 * n) :
    b.toBytes = toNatBytes (Spec.bitsToBytes (bitsOf b)) := by
  have hmask : b.ival &&& b.mask = b.ival := by
    rw [Bits.mask, Nat.and_two_pow_sub_one_eq_mod]; exact Nat.mod_eq_of_lt hb
  have h7 : (8 * n + 7) / 8 = n := by omega
  simp only [Bits.toBytes, hmask, h7, toNatBytes, Spec.bitsToBytes, Spec.groups, bitsOf, bitsLE_length, hn,
    Nat.mul_div_cancel_left _ (by decide : 0 < 8), List.map_map]
  apply List.map_congr_left
  intro k hk
  have hk : k < n := List.mem_range.1 hk
  obtain ⟨d, rfl⟩ := Nat.exists_eq_add_of_lt hk
  have e : 8 * (k + d + 1) = k * 8 + (8 + 8 * d) := by omega
  simp only [Function.comp, e, bitsLE_drop, bitsLE_take _ 8 (8 + 8 * d) (by omega)]
  have hx : (b.ival >>> (k * 8)) % 256 < 256 := Nat.mod_lt _ (by decide)
  have e2 : bitsLE (b.ival >>> (k * 8)) 8 = bitsLE ((b.ival >>> (k * 8)) % 256) 8 := (bitsLE_mod _ 8).symm
  rw [e2, bitsVal_bitsLE _ hx, BitVec.toNat_ofNat, Nat.mod_eq_of_lt (reverseByte_lt _ hx)]
  congr 1
  rw [Nat.mul_comm, show (255 : Nat) = 2 ^ 8 - 1 by decide, Nat.and_two_pow_sub_one_eq_mod]

end Proofs.Lemmas.BitsList
