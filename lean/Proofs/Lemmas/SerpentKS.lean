/-
  Key schedule of Model.Serpent refines Spec.Serpent: padding, prekey recurrence, round keys; then the round chains.
-/
import Proofs.Lemmas.SerpentSpec
namespace Proofs.Lemmas.SerpentKS
open Model Model.Bits Proofs.Lemmas.SerpentBits Proofs.Lemmas.SerpentComp Proofs.Lemmas.SerpentSpec Spec.Serpent

theorem keyWords_eq (K : Bits) :
    Model.Serpent.keyWords K = (List.range 8).map fun j => W ((K.ival >>> (32 * j)) % 2 ^ 32) := by
  show [K.sliceFast 0 (0 + 32), K.sliceFast 32 (32 + 32), K.sliceFast 64 (64 + 32), K.sliceFast 96 (96 + 32),
        K.sliceFast 128 (128 + 32), K.sliceFast 160 (160 + 32), K.sliceFast 192 (192 + 32), K.sliceFast 224 (224 + 32)] = _
  simp only [slice_word]
  rfl

theorem phi_eq : Model.Serpent.phi = W Spec.Serpent.phi := by decide

theorem back_map (l : List Nat) (k : Nat) (hk : 0 < k) (hl : k ≤ l.length) :
    Model.Serpent.back (l.map W) k = .ok (W (l.getD (l.length - k) 0)) := by
  unfold Model.Serpent.back
  have h1 : ¬ (k = 0 ∨ k > (l.map W).length) := by simp; omega
  simp only [h1, if_false]
  have h2 : l.length - k < l.length := by omega
  simp [List.getElem?_map, List.getElem?_eq_getElem h2, List.getD_eq_getElem?_getD]

theorem bitLength_le (i : Nat) (hi : i < 2 ^ 32) : Py.bitLength i ≤ 32 := by
  unfold Py.bitLength
  split
  · omega
  · rename_i h
    have := (Nat.log2_lt h).mpr hi
    omega

theorem W_xor_int (a i : Nat) (hi : i < 2 ^ 32) : (W a).xor (Bits.ofNat i) = W (a ^^^ i) := by
  have := bitLength_le i hi
  simp only [W, Bits.xor, Bits.ofNat, wsize]
  congr 1
  by_cases h : 32 > Py.bitLength i
  · simp [h]
  · simp only [h, if_false]; omega

theorem prekeyStep_eq (l : List Nat) (i : Nat) (hl : 8 ≤ l.length) (hi : i < 2 ^ 32) :
    Model.Serpent.prekeyStep (l.map W) i = .ok ((l ++ [prekeyNext l i]).map W) := by
  unfold Model.Serpent.prekeyStep
  have o0 : Model.Serpent.off 0 = 8 := by decide
  have o1 : Model.Serpent.off 1 = 5 := by decide
  have o2 : Model.Serpent.off 2 = 3 := by decide
  have o3 : Model.Serpent.off 3 = 1 := by decide
  have hr : Model.Gen.Serpent.prekeyRot = 11 := by decide
  rw [o0, o1, o2, o3, hr, back_map l 8 (by decide) hl, back_map l 5 (by decide) (by omega),
    back_map l 3 (by decide) (by omega), back_map l 1 (by decide) (by omega)]
  simp only [bind, Except.bind, pure, Except.pure, phi_eq, W_xor, W_xor_int _ _ hi, W_rol _ _ (by decide : 11 ≤ 32)]
  simp [prekeyNext]

def pkFold (l : List Nat) (is : List Nat) : List Nat := is.foldl (fun w i => w ++ [prekeyNext w i]) l

theorem prekeyLoop_eq (is : List Nat) (l : List Nat) (hl : 8 ≤ l.length) (hi : ∀ i ∈ is, i < 2 ^ 32) :
    Model.Serpent.prekeyLoop is (l.map W) = .ok ((pkFold l is).map W) := by
  induction is generalizing l with
  | nil => rfl
  | cons i is ih =>
    unfold Model.Serpent.prekeyLoop
    rw [prekeyStep_eq l i hl (hi i List.mem_cons_self)]
    simp only []
    rw [ih (l ++ [prekeyNext l i]) (by simp; omega) (fun j hj => hi j (List.mem_cons_of_mem _ hj))]
    rfl

theorem pkFold_length (l is : List Nat) : (pkFold l is).length = l.length + is.length := by
  induction is generalizing l with
  | nil => rfl
  | cons i is ih =>
    show (pkFold (l ++ [prekeyNext l i]) is).length = _
    rw [ih]; simp; omega

theorem pkFold_lt (l is : List Nat) (h : ∀ x ∈ l, x < 2 ^ 32) : ∀ x ∈ pkFold l is, x < 2 ^ 32 := by
  induction is generalizing l with
  | nil => exact h
  | cons i is ih =>
    show ∀ x ∈ pkFold (l ++ [prekeyNext l i]) is, x < 2 ^ 32
    apply ih
    intro x hx
    rw [List.mem_append] at hx
    rcases hx with hx | hx
    · exact h x hx
    · rw [List.mem_singleton] at hx; subst hx; exact rotl_lt _ _

/-- the list `_keysched` produces, as states -/
def ksStates (w : List Nat) : List Int → Nat → List State
  | [], _ => []
  | r :: rs, k =>
    applyBox (sbox (Py.floorMod r 8).toNat) ⟨w.getD k 0, w.getD (k + 1) 0, w.getD (k + 2) 0, w.getD (k + 3) 0⟩
      :: ksStates w rs (k + 4)

theorem take4 (w : List Nat) (k : Nat) (hk : k + 4 ≤ w.length) :
    ((w.map W).drop k).take 4 = [W (w.getD k 0), W (w.getD (k + 1) 0), W (w.getD (k + 2) 0), W (w.getD (k + 3) 0)] := by
  apply List.ext_getElem
  · simp; omega
  · intro n h1 h2
    simp at h1 h2
    have hn : n < 4 := by omega
    simp only [List.getElem_take, List.getElem_drop, List.getElem_map]
    have g0 : k < w.length := by omega
    have g1 : k + 1 < w.length := by omega
    have g2 : k + 2 < w.length := by omega
    have g3 : k + 3 < w.length := by omega
    rcases (show n = 0 ∨ n = 1 ∨ n = 2 ∨ n = 3 by omega) with h | h | h | h <;> subst h <;>
      simp [List.getD_eq_getElem?_getD, g0, g1, g2, g3]

theorem getD_lt (w : List Nat) (h : ∀ x ∈ w, x < 2 ^ 32) (k : Nat) : w.getD k 0 < 2 ^ 32 := by
  rw [List.getD_eq_getElem?_getD]
  by_cases hk : k < w.length
  · rw [List.getElem?_eq_getElem hk]; exact h _ (List.getElem_mem hk)
  · rw [List.getElem?_eq_none (by omega)]; exact Nat.two_pow_pos _

theorem keyschedGo_eq (w : List Nat) (hw : ∀ x ∈ w, x < 2 ^ 32) (rs : List Int) (k : Nat)
    (hr : ∀ r ∈ rs, 0 ≤ r) (hk : k + 4 * rs.length ≤ w.length) :
    Model.Serpent.keyschedGo (w.map W) rs k = .ok ((ksStates w rs k).map B) := by
  induction rs generalizing k with
  | nil => rfl
  | cons r rs ih =>
    have hlen : k + 4 ≤ w.length := by simp at hk; omega
    have hr0 : 0 ≤ r := hr r List.mem_cons_self
    have hidx : (Py.floorMod r 8).toNat < 8 := by
      unfold Py.floorMod
      have h1 : Int.fmod r 8 < 8 := Int.fmod_lt_of_pos _ (by decide)
      have h2 : 0 ≤ Int.fmod r 8 := Int.fmod_nonneg hr0 (by decide)
      omega
    unfold Model.Serpent.keyschedGo
    rw [take4 w k hlen, concat_words _ _ _ _ (getD_lt w hw _) (getD_lt w hw _) (getD_lt w hw _) (getD_lt w hw _)]
    simp only [bind, Except.bind]
    rw [S_B _ _ hidx ⟨getD_lt w hw _, getD_lt w hw _, getD_lt w hw _, getD_lt w hw _⟩]
    simp only []
    rw [ih (k + 4) (fun r' h => hr r' (List.mem_cons_of_mem _ h)) (by simp at hk; omega)]
    rfl

def ksRange : List Int := [35, 34, 33, 32, 31, 30, 29, 28, 27, 26, 25, 24, 23, 22, 21, 20, 19, 18, 17, 16, 15, 14, 13, 12, 11, 10,
  9, 8, 7, 6, 5, 4, 3]

theorem ksRange_eq : Model.Serpent.keyschedRs = ksRange := by decide

theorem ksStates_eq (w : List Nat) : ksStates w ksRange 8 = (List.range 33).map (roundKey w) := by
  rfl

theorem keysched_eq (w : List Nat) (hw : ∀ x ∈ w, x < 2 ^ 32) (hl : 140 ≤ w.length) :
    Model.Serpent.keysched (w.map W) = .ok (((List.range 33).map (roundKey w)).map B) := by
  unfold Model.Serpent.keysched
  rw [ksRange_eq, keyschedGo_eq w hw ksRange 8 (by decide) (by simp [ksRange]; omega)]
  simp only [bind, Except.bind, ksStates_eq]
  simp
  rfl

theorem padKey_eq (K : Bits) (hs : K.size ≤ 256) (hwf : K.WF) :
    Model.Serpent.padKey K = .ok ⟨Spec.Serpent.padKey K.size K.ival, 256⟩ := by
  unfold Model.Serpent.padKey Spec.Serpent.padKey
  have h1 : ¬ K.size > 256 := by omega
  simp only [h1, if_false]
  congr 1
  unfold WF at hwf
  by_cases h : K.size < 256
  · simp only [h, if_true, Bits.concat, ofNatSz, setSize]
    congr 1
    have e1 : (1 % 2 ^ 1) <<< K.size = 2 ^ K.size * 1 := by
      rw [Nat.shiftLeft_eq]; simp
    rw [e1, Nat.or_comm, ← Nat.two_pow_add_eq_or_of_lt hwf 1, Nat.mul_one, Nat.mod_eq_of_lt hwf]
    have e2 : 2 ^ K.size + K.ival < 2 ^ (K.size + 1) := by rw [Nat.pow_succ]; omega
    have e3 : 2 ^ (K.size + 1) ≤ 2 ^ 256 := Nat.pow_le_pow_right (by decide) (by omega)
    rw [Nat.mod_eq_of_lt e2, Nat.mod_eq_of_lt (Nat.lt_of_lt_of_le e2 e3)]
    omega
  · simp only [h, if_false, setSize]

theorem keyWords_eq' (v sz : Nat) :
    Model.Serpent.keyWords ⟨v, sz⟩ = ((List.range 8).map fun j => (v >>> (32 * j)) % 2 ^ 32).map W := by
  rw [keyWords_eq]; simp

theorem init_eq (K : Bits) (hs : K.size ≤ 256) (hwf : K.WF) :
    Model.Serpent.init K = .ok ⟨(roundKeys K.size K.ival).map B⟩ := by
  have h1 := padKey_eq K hs hwf
  have hn : Model.Serpent.prekeyCount = 132 := by decide
  have h2 : Model.Serpent.prekeyLoop (List.range Model.Serpent.prekeyCount)
      (Model.Serpent.keyWords ⟨Spec.Serpent.padKey K.size K.ival, 256⟩) =
      .ok ((prekeys (Spec.Serpent.padKey K.size K.ival)).map W) := by
    rw [hn, keyWords_eq', prekeyLoop_eq _ _ (by simp) (by intro i hi; rw [List.mem_range] at hi; omega)]
    simp only [prekeys, pkFold]
  have h3 : Model.Serpent.keysched ((prekeys (Spec.Serpent.padKey K.size K.ival)).map W) =
      .ok ((roundKeys K.size K.ival).map B) := by
    rw [keysched_eq]
    · simp only [roundKeys]
    · simp only [prekeys]
      apply pkFold_lt
      intro x hx
      rw [List.mem_map] at hx
      obtain ⟨j, _, rfl⟩ := hx
      exact Nat.mod_lt _ (Nat.two_pow_pos _)
    · simp only [prekeys]
      have := pkFold_length ((List.range 8).map fun j => (Spec.Serpent.padKey K.size K.ival >>> (32 * j)) % 2 ^ 32) (List.range 132)
      simp only [pkFold] at this
      rw [this]; simp
  unfold Model.Serpent.init
  rw [h1]
  simp only [bind, Except.bind]
  rw [h2]
  simp only []
  rw [h3]
  rfl

end Proofs.Lemmas.SerpentKS
