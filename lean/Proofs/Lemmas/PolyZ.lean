/-
  Helper lemmas for C16, ring Z: the two's-complement window of Model.Poly.intBitOp computes the textbook
  bitwise operations on integers (Spec.Poly.land / lor / lxor).  Everything goes through `ibit`, the i-th bit of the
  infinite two's-complement expansion of an integer.
-/
import Model.Poly
import Spec.Poly
namespace Proofs.PolyZ
open Model Model.Poly Model.Py

/-- bit i of the infinite two's-complement expansion -/
def ibit : Int → Nat → Bool
  | .ofNat m, i => m.testBit i
  | .negSucc m, i => !m.testBit i

theorem ibit_ext {x y : Int} (h : ∀ i, ibit x i = ibit y i) : x = y := by
  cases x with
  | ofNat m =>
    cases y with
    | ofNat n => congr 1; exact Nat.eq_of_testBit_eq h
    | negSucc n =>
      exfalso
      -- beyond both magnitudes the bits differ
      have hm := Nat.testBit_lt_two_pow (x := m) (i := max m n) (Nat.lt_of_le_of_lt (Nat.le_max_left m n) Nat.lt_two_pow_self)
      have hn := Nat.testBit_lt_two_pow (x := n) (i := max m n) (Nat.lt_of_le_of_lt (Nat.le_max_right m n) Nat.lt_two_pow_self)
      have := h (max m n)
      simp [ibit, hm, hn] at this
  | negSucc m =>
    cases y with
    | ofNat n =>
      exfalso
      have hm := Nat.testBit_lt_two_pow (x := m) (i := max m n) (Nat.lt_of_le_of_lt (Nat.le_max_left m n) Nat.lt_two_pow_self)
      have hn := Nat.testBit_lt_two_pow (x := n) (i := max m n) (Nat.lt_of_le_of_lt (Nat.le_max_right m n) Nat.lt_two_pow_self)
      have := h (max m n)
      simp [ibit, hm, hn] at this
    | negSucc n =>
      congr 1
      apply Nat.eq_of_testBit_eq
      intro i
      have := h i
      simpa [ibit] using this

/-- beyond the magnitude every bit is the sign -/
theorem ibit_of_ge {a : Int} {n i : Nat} (h : a.natAbs < 2^n) (hi : n ≤ i) : ibit a i = decide (a < 0) := by
  have hp : 2^n ≤ 2^i := Nat.pow_le_pow_right (by decide) hi
  cases a with
  | ofNat m =>
    have : m < 2^i := Nat.lt_of_lt_of_le (by simpa using h) hp
    simp [ibit, Nat.testBit_lt_two_pow this]
  | negSucc m =>
    have : m < 2^i := Nat.lt_of_lt_of_le (by simp at h; omega) hp
    simp [ibit, Nat.testBit_lt_two_pow this, Int.negSucc_lt_zero]

/-- the n-bit two's-complement window of an integer -/
theorem window_testBit (x : Int) (n i : Nat) :
    (x % (2:Int)^n).toNat.testBit i = (decide (i < n) && ibit x i) := by
  have hcast : ((2:Int)^n) = ((2^n : Nat) : Int) := by simp
  cases x with
  | ofNat m =>
    rw [hcast]
    show ((m : Int) % ((2^n : Nat) : Int)).toNat.testBit i = _
    rw [← Int.natCast_emod, Int.toNat_natCast, Nat.testBit_mod_two_pow]
    rfl
  | negSucc m =>
    rw [hcast, Int.emod_negSucc, Int.natAbs_natCast]
    have hlt : m % 2^n < 2^n := Nat.mod_lt _ (Nat.two_pow_pos n)
    rw [Int.subNatNat_of_le (by omega), Int.toNat_natCast]
    rw [Nat.testBit_two_pow_sub_succ hlt, Nat.testBit_mod_two_pow]
    simp only [ibit]
    cases decide (i < n) <;> simp

theorem natAbs_lt_bitLength (a : Int) : a.natAbs < 2 ^ bitLength a.natAbs := by
  unfold bitLength
  split
  · rename_i h; rw [h]; decide
  · exact Nat.lt_log2_self

theorem pow_succ_div_two (N : Nat) : ((2:Int)^(N+1)) / 2 = (2:Int)^N := by
  rw [Int.pow_succ, Int.mul_ediv_cancel _ (by decide)]

/-- the window computation of `intBitOp` is the bitwise operation on the infinite two's-complement expansions -/
theorem ibit_intBitOp {f : Nat → Nat → Nat} {g : Bool → Bool → Bool}
    (hf : ∀ x y i, (f x y).testBit i = g (x.testBit i) (y.testBit i)) (hg : g false false = false)
    (a b : Int) (i : Nat) : ibit (intBitOp f a b) i = g (ibit a i) (ibit b i) := by
  generalize hN : max (bitLength a.natAbs) (bitLength b.natAbs) = N
  have ha : a.natAbs < 2^N := Nat.lt_of_lt_of_le (natAbs_lt_bitLength a)
    (Nat.pow_le_pow_right (by decide) (hN ▸ Nat.le_max_left _ _))
  have hb : b.natAbs < 2^N := Nat.lt_of_lt_of_le (natAbs_lt_bitLength b)
    (Nat.pow_le_pow_right (by decide) (hN ▸ Nat.le_max_right _ _))
  generalize hr0 : f (a % (2:Int)^(N+1)).toNat (b % (2:Int)^(N+1)).toNat = r
  have hr : ∀ j, r.testBit j = (decide (j < N+1) && g (ibit a j) (ibit b j)) := by
    intro j
    rw [← hr0, hf, window_testBit, window_testBit]
    cases decide (j < N+1) <;> simp [hg]
  have hrlt : r < 2^(N+1) := by
    apply Nat.lt_pow_two_of_testBit
    intro j hj
    rw [hr j]
    have : ¬ j < N+1 := by omega
    simp [this]
  have hsign : r.testBit N = g (decide (a < 0)) (decide (b < 0)) := by
    rw [hr N, ibit_of_ge ha (Nat.le_refl N), ibit_of_ge hb (Nat.le_refl N)]
    simp
  have hunf : intBitOp f a b = if (r:Int) ≥ (2:Int)^N then (r:Int) - (2:Int)^(N+1) else (r:Int) := by
    simp only [intBitOp, hN, hr0, pow_succ_div_two]
  have hM : ((2:Int)^(N+1)) = ((2^(N+1) : Nat) : Int) := by simp
  have hM' : ((2:Int)^N) = ((2^N : Nat) : Int) := by simp
  rw [hunf]
  cases hs : g (decide (a < 0)) (decide (b < 0)) with
  | true =>
    rw [hs] at hsign
    have hge : 2^N ≤ r := Nat.ge_two_pow_of_testBit hsign
    rw [if_pos (by rw [hM']; exact Int.ofNat_le.mpr hge)]
    have : (r:Int) - (2:Int)^(N+1) = Int.negSucc (2^(N+1) - (r+1)) := by
      rw [hM, Int.negSucc_eq]; omega
    rw [this]
    show (!(2^(N+1) - (r+1)).testBit i) = _
    rw [Nat.testBit_two_pow_sub_succ hrlt, hr i]
    by_cases hi : i < N+1
    · simp [hi]
    · rw [ibit_of_ge ha (by omega), ibit_of_ge hb (by omega), hs]; simp [hi]
  | false =>
    rw [hs] at hsign
    have hlt : r < 2^N := by
      apply Nat.lt_pow_two_of_testBit
      intro j hj
      by_cases hjN : j = N
      · rw [hjN]; exact hsign
      · rw [hr j]
        have : ¬ j < N+1 := by omega
        simp [this]
    rw [if_neg (by rw [hM']; intro h; exact absurd (Int.ofNat_le.mp h) (by omega))]
    show r.testBit i = _
    rw [hr i]
    by_cases hi : i < N+1
    · simp [hi]
    · rw [ibit_of_ge ha (by omega), ibit_of_ge hb (by omega), hs]; simp [hi]

theorem testBit_ldiff (m n i : Nat) : (Spec.Poly.ldiff m n).testBit i = (m.testBit i && !n.testBit i) := by
  unfold Spec.Poly.ldiff
  rw [Nat.testBit_bitwise (by rfl)]

theorem ibit_land (a b : Int) (i : Nat) : ibit (Spec.Poly.land a b) i = (ibit a i && ibit b i) := by
  cases a <;> cases b <;> simp only [Spec.Poly.land, ibit, Nat.testBit_and, Nat.testBit_or, testBit_ldiff]
  · rename_i m n; cases m.testBit i <;> cases n.testBit i <;> rfl
  · rename_i m n; cases m.testBit i <;> cases n.testBit i <;> rfl

theorem ibit_lor (a b : Int) (i : Nat) : ibit (Spec.Poly.lor a b) i = (ibit a i || ibit b i) := by
  cases a <;> cases b <;> simp only [Spec.Poly.lor, ibit, Nat.testBit_and, Nat.testBit_or, testBit_ldiff]
  · rename_i m n; cases m.testBit i <;> cases n.testBit i <;> rfl
  · rename_i m n; cases m.testBit i <;> cases n.testBit i <;> rfl
  · rename_i m n; cases m.testBit i <;> cases n.testBit i <;> rfl

theorem ibit_lxor (a b : Int) (i : Nat) : ibit (Spec.Poly.lxor a b) i = (ibit a i ^^ ibit b i) := by
  cases a <;> cases b <;> simp only [Spec.Poly.lxor, ibit, Nat.testBit_xor]
  · rename_i m n; cases m.testBit i <;> cases n.testBit i <;> rfl
  · rename_i m n; cases m.testBit i <;> cases n.testBit i <;> rfl
  · rename_i m n; cases m.testBit i <;> cases n.testBit i <;> rfl

/-- the window computation of the model = the textbook bitwise operations on integers -/
theorem intBitOp_and (a b : Int) : intBitOp (· &&& ·) a b = Spec.Poly.land a b :=
  ibit_ext fun i => by rw [ibit_intBitOp (g := (· && ·)) (fun x y i => Nat.testBit_and x y i) rfl, ibit_land]
theorem intBitOp_or (a b : Int) : intBitOp (· ||| ·) a b = Spec.Poly.lor a b :=
  ibit_ext fun i => by rw [ibit_intBitOp (g := (· || ·)) (fun x y i => Nat.testBit_or x y i) rfl, ibit_lor]
theorem intBitOp_xor (a b : Int) : intBitOp (· ^^^ ·) a b = Spec.Poly.lxor a b :=
  ibit_ext fun i => by rw [ibit_intBitOp (g := (· ^^ ·)) (fun x y i => Nat.testBit_xor x y i) rfl, ibit_lxor]

end Proofs.PolyZ
