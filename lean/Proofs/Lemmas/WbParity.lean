/-
  Helper lemmas for C18: the parity bits of the key never reach the tables.
-/
import Proofs.Lemmas.WbEnc
namespace Proofs.Lemmas.Wb
open Model Model.Wb Model.Bits

theorem pc1_length : Gen.Des.pc1.length = 56 := by decide +kernel
theorem pc1_no_parity : ∀ i < 56, Gen.Des.pc1.getD i 0 % 8 ≠ 7 := by decide +kernel

/-- PC1 never reads a parity bit (bit 7 of a byte = its least significant bit in the bitstream numbering) -/
theorem PC1_parity (K K' : Bits) (h : ∀ i, i % 8 ≠ 7 → bit K i = bit K' i) : Des.PC1 K = Des.PC1 K' := by
  unfold Des.PC1
  apply bits_ext (by rw [size_pick, size_pick]) (WF_pick _ _) (WF_pick _ _)
  intro i hi
  have hi' : i < 56 := by rw [size_pick, pc1_length] at hi; exact hi
  rw [bit_pick_getD _ _ _ (by rw [pc1_length]; exact hi'), bit_pick_getD _ _ _ (by rw [pc1_length]; exact hi')]
  exact h _ (pc1_no_parity i hi')

theorem tableRKT_parity (K K' : Bits) (h : ∀ i, i % 8 ≠ 7 → bit K i = bit K' i) (r : Nat) :
    tableRKT r K = tableRKT r K' := by
  unfold tableRKT tableRKS
  rw [PC1_parity K K' h]

end Proofs.Lemmas.Wb
