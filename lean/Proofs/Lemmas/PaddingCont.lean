/-
  Helper lemmas for C09: unpadded (`padding=False`) calls and the continuation of a history.
  Nothing here depends on the scheme: the last piece is handed to the same `lastblock` call either way.
-/
import Proofs.Lemmas.PaddingRun
namespace Proofs.Lemmas.Padding
open Model Model.Padder Spec.Padding

theorem loopYields_succ (p : Padder) (st : PadState) (m : List Nat) (k : Nat) :
    p.loopYields st m (k + 1) = p.loopYields st m k
      ++ [(p.blockAt m k, { st with bitcnt := st.bitcnt + (k + 1) * p.blocksize })] := by
  simp [Padder.loopYields, List.range_succ]


/-- an unpadded call that passes the checks emits the first `bitlen/B` blocks and adds `bitlen` to the counter -/
theorem unpadded_run (p : Padder) (hpos : 0 < p.blocksize) (st : PadState) (hflag : st.padflag = false)
    (m : List Nat) (L : Option Nat) (hL : effLen m L ≤ 8 * m.length) (hmul : effLen m L % p.blocksize = 0) :
    p.iterblocks st m L false =
      ⟨p.loopYields st m (effLen m L / p.blocksize), { st with bitcnt := st.bitcnt + effLen m L }, none⟩ := by
  unfold effLen at *
  have hnl : ¬ L.getD (8 * m.length) > 8 * m.length := by omega
  have hnm : ¬ L.getD (8 * m.length) % p.blocksize > 0 := by omega
  by_cases h0 : L.getD (8 * m.length) = 0
  · cases st; simp_all [Padder.iterblocks, Padder.loopYields]
  · obtain ⟨n, hn⟩ : ∃ n, L.getD (8 * m.length) = n * p.blocksize :=
      ⟨L.getD (8 * m.length) / p.blocksize, by rw [Nat.div_mul_cancel (Nat.dvd_of_mod_eq_zero hmul)]⟩
    have hn1 : 1 ≤ n := by
      rcases Nat.eq_zero_or_pos n with h | h
      · rw [h] at hn; simp at hn; exact absurd hn h0
      · exact h
    obtain ⟨k, rfl⟩ : ∃ k, n = k + 1 := ⟨n - 1, by omega⟩
    have hk : p.loopCount (L.getD (8 * m.length)) = k := by
      unfold Padder.loopCount
      rw [if_neg h0, hn]
      apply Nat.div_eq_of_lt_le <;> rw [Nat.succ_mul] <;> omega
    have hd : L.getD (8 * m.length) / p.blocksize = k + 1 := by rw [hn, Nat.mul_div_cancel _ hpos]
    simp only [Padder.iterblocks, hflag, hnl, hnm, h0, hk, hd, loopYields_succ]
    simp [hn]

theorem finishTail_append (p : Padder) (a b : List (List Nat × PadState)) (st1 : PadState) (pi : List Nat)
    (x : Except Err (List Nat × PadState)) :
    p.finishTail (a ++ b) st1 pi x =
      ⟨a ++ (p.finishTail b st1 pi x).yields, (p.finishTail b st1 pi x).final, (p.finishTail b st1 pi x).err⟩ := by
  cases x with
  | error e => simp [Padder.finishTail]
  | ok v =>
    obtain ⟨npi, st2⟩ := v
    simp only [Padder.finishTail]
    split <;> simp

theorem blockAt_append_left (p : Padder) (m1 m2 : List Nat) (n1 i : Nat) (hm1 : m1.length = n1 * p.blocklen)
    (hi : i < n1) : p.blockAt (m1 ++ m2) i = p.blockAt m1 i := by
  have h : (i + 1) * p.blocklen ≤ n1 * p.blocklen := Nat.mul_le_mul_right _ (by omega)
  rw [Nat.succ_mul] at h
  simp only [Padder.blockAt]
  rw [List.drop_append, List.take_append, List.length_drop]
  have : p.blocklen - (m1.length - i * p.blocklen) = 0 := by omega
  rw [this, List.take_zero, List.append_nil]

theorem blockAt_append_right (p : Padder) (m1 m2 : List Nat) (n1 j : Nat) (hm1 : m1.length = n1 * p.blocklen) :
    p.blockAt (m1 ++ m2) (n1 + j) = p.blockAt m2 j := by
  simp only [Padder.blockAt]
  rw [List.drop_append, List.drop_of_length_le (by rw [hm1, Nat.add_mul]; omega), List.nil_append]
  congr 2
  rw [hm1, Nat.add_mul]; omega

theorem loopYields_append (p : Padder) (st : PadState) (m1 m2 : List Nat) (n1 k2 : Nat)
    (hm1 : m1.length = n1 * p.blocklen) :
    p.loopYields st (m1 ++ m2) (n1 + k2) = p.loopYields st m1 n1
      ++ p.loopYields { st with bitcnt := st.bitcnt + n1 * p.blocksize } m2 k2 := by
  simp only [Padder.loopYields, List.range_add, List.map_append, List.map_map]
  congr 1
  · apply List.map_congr_left
    intro i hi
    rw [List.mem_range] at hi
    simp [blockAt_append_left p m1 m2 n1 i hm1 hi]
  · apply List.map_congr_left
    intro j _
    simp only [Function.comp, blockAt_append_right p m1 m2 n1 j hm1]
    congr 2
    rw [Nat.add_mul, Nat.add_mul, Nat.add_mul]; omega

theorem loopCount_add (p : Padder) (hpos : 0 < p.blocksize) (n1 Le : Nat) (hLe : 0 < Le) :
    p.loopCount (n1 * p.blocksize + Le) = n1 + p.loopCount Le := by
  unfold Padder.loopCount
  rw [if_neg (by omega), if_neg (by omega)]
  rw [show n1 * p.blocksize + Le - 1 = (Le - 1) + n1 * p.blocksize by omega, Nat.add_mul_div_right _ _ hpos]
  omega

/-- **continuation**: block-aligned data fed with `padding=False` followed by a final call whose piece carries at
    least one message bit is indistinguishable, block by block and state by state, from one call on the
    concatenation (every scheme, every counter value, errors included) -/
theorem continuation_eq (p : Padder) (hB : p.blocksize = 8 * p.blocklen) (hbl : 0 < p.blocklen) (st : PadState)
    (hflag : st.padflag = false) (m1 m2 : List Nat) (n1 : Nat) (hm1 : m1.length = n1 * p.blocklen)
    (L2 : Option Nat) (hL2 : effLen m2 L2 ≤ 8 * m2.length) (hpos2 : 0 < effLen m2 L2) :
    p.iterblocks st (m1 ++ m2) (L2.map (8 * m1.length + ·)) true =
      ⟨p.loopYields st m1 n1 ++ (p.iterblocks { st with bitcnt := st.bitcnt + 8 * m1.length } m2 L2 true).yields,
       (p.iterblocks { st with bitcnt := st.bitcnt + 8 * m1.length } m2 L2 true).final,
       (p.iterblocks { st with bitcnt := st.bitcnt + 8 * m1.length } m2 L2 true).err⟩ := by
  have hpos : 0 < p.blocksize := by omega
  have h8 : 8 * m1.length = n1 * p.blocksize := by rw [hm1, hB, Nat.mul_left_comm]
  have hLe : (L2.map (8 * m1.length + ·)).getD (8 * (m1 ++ m2).length) = n1 * p.blocksize + effLen m2 L2 := by
    cases L2 with
    | none => simp only [Option.map_none, Option.getD_none, effLen, List.length_append]; omega
    | some a => simp only [Option.map_some, Option.getD_some, effLen]; omega
  have hL1 : (L2.map (8 * m1.length + ·)).getD (8 * (m1 ++ m2).length) ≤ 8 * (m1 ++ m2).length := by
    rw [hLe, List.length_append]; omega
  rw [iterblocks_padded p st (m1 ++ m2) _ hflag hL1,
    iterblocks_padded p { st with bitcnt := st.bitcnt + 8 * m1.length } m2 L2 hflag hL2]
  rw [hLe, loopCount_add p hpos n1 _ hpos2, loopYields_append p st m1 m2 n1 _ hm1,
    blockAt_append_right p m1 m2 n1 _ hm1, finishTail_append]
  have e1 : ∀ k, st.bitcnt + (n1 + k) * p.blocksize = st.bitcnt + n1 * p.blocksize + k * p.blocksize := by
    intro k; rw [Nat.add_mul]; omega
  have e2 : Option.map (fun x => st.bitcnt + x) (Option.map (fun x => n1 * p.blocksize + x) L2)
      = Option.map (fun x => st.bitcnt + n1 * p.blocksize + x) L2 := by
    cases L2 <;> simp [Nat.add_assoc]
  simp only [h8, effLen, e1, e2]

/-! ### an empty last piece -/

/-- schemes that add at least one pad bit to every message -/
def AlwaysPads : Model.Scheme → Prop
  | .no | .null => False
  | _ => True

/-- behind a full block the pad is the pad of an empty tail one block later -/
theorem modelTail_full (p : Padder) (hv : Valid p) (hap : AlwaysPads p.scheme) (base : Nat) :
    modelTail p base p.blocksize = modelTail p (base + p.blocksize) 0 := by
  have hB := hv.size_eq; have hpos := hv.pos; have hw := hv.scheme_ok; have hbl := hv.blocklen_pos
  cases hs : p.scheme with
  | no => simp [hs, AlwaysPads] at hap
  | null => simp [hs, AlwaysPads] at hap
  | bit => simp [modelTail, hs]
  | pkcs7 =>
    have : p.blocksize / 8 = p.blocklen := rfl
    simp [modelTail, hs, padQ, this]
  | x923 =>
    have : p.blocksize / 8 = p.blocklen := rfl
    simp [modelTail, hs, padQ, this]
  | md w =>
    rw [hs] at hw; simp only at hw
    have : mdN p.blocksize 1 (2 * w) p.blocksize = mdN p.blocksize 1 (2 * w) 0 := by
      unfold mdN; split <;> (try split) <;> omega
    simp only [modelTail, hs, this, Nat.add_zero]
  | sha w =>
    rw [hs] at hw; simp only at hw
    have : mdN p.blocksize 1 (2 * w) p.blocksize = mdN p.blocksize 1 (2 * w) 0 := by
      unfold mdN; split <;> (try split) <;> omega
    simp only [modelTail, hs, this, Nat.add_zero]
  | blake h =>
    rw [hs] at hw; simp only at hw
    have hW : 2 + 2 * Padder.blakeW h ≤ p.blocksize := by
      by_cases hb : h > 256
      · have e1 : Padder.blakeW h = 64 := by simp [Padder.blakeW, hb]
        have e2 : p.blocksize = 1024 := by simp [hw, hb]
        omega
      · have e1 : Padder.blakeW h = 32 := by simp [Padder.blakeW, hb]
        have e2 : p.blocksize = 512 := by simp [hw, hb]
        omega
    have : mdN p.blocksize 2 (2 * Padder.blakeW h) p.blocksize = mdN p.blocksize 2 (2 * Padder.blakeW h) 0 := by
      unfold mdN; split <;> (try split) <;> omega
    simp only [modelTail, hs, this, Nat.add_zero]

theorem tailPadcnt_full (p : Padder) (hv : Valid p) (hap : AlwaysPads p.scheme) (old : Nat) :
    tailPadcnt p old p.blocksize = tailPadcnt p old 0 := by
  have h := modelTail_full p hv hap 0
  have h2 := modelTail_length_base p (0 + p.blocksize) 0 0
  cases hs : p.scheme <;> simp only [tailPadcnt, hs] <;> rw [h, h2]

/-- an empty last piece after block-aligned data: same blocks, same counters, same final state as one call -/
theorem continuation_empty_eq (p : Padder) (hv : Valid p) (hap : AlwaysPads p.scheme) (st : PadState)
    (hflag : st.padflag = false) (m1 : List Nat) (hm : Bytes m1) (n : Nat)
    (hm1 : 8 * m1.length = (n + 1) * p.blocksize) :
    p.iterblocks st m1 none true =
      ⟨p.loopYields st m1 n ++
         [(p.blockAt m1 n, { padflag := true, bitcnt := st.bitcnt + 8 * m1.length, padcnt := tailPadcnt p st.padcnt 0 }),
          (bitsToBytes (modelTail p (st.bitcnt + 8 * m1.length) 0),
            { padflag := true, bitcnt := 0, padcnt := tailPadcnt p st.padcnt 0 })],
       { padflag := true, bitcnt := 0, padcnt := tailPadcnt p st.padcnt 0 }, none⟩ ∧
    p.iterblocks { st with bitcnt := st.bitcnt + 8 * m1.length } [] none true =
      ⟨[(bitsToBytes (modelTail p (st.bitcnt + 8 * m1.length) 0),
            { padflag := true, bitcnt := 0, padcnt := tailPadcnt p st.padcnt 0 })],
       { padflag := true, bitcnt := 0, padcnt := tailPadcnt p st.padcnt 0 }, none⟩ := by
  have hB := hv.size_eq; have hpos := hv.pos; have hbl := hv.blocklen_pos
  have hn1 : (n + 1) * p.blocksize = n * p.blocksize + p.blocksize := Nat.succ_mul _ _
  have hnb : n * p.blocksize = 8 * (n * p.blocklen) := by rw [hB, Nat.mul_left_comm]
  have hlen : m1.length = n * p.blocklen + p.blocklen := by omega
  constructor
  · have hrun := iterblocks_run p hv st hflag m1 hm none (Nat.le_refl _) (by simp)
    have he : effLen m1 none = (n + 1) * p.blocksize := by simp [effLen, hm1]
    have hk : kOf p m1 none = n := by
      simp only [kOf, he, Padder.loopCount]
      rw [if_neg (by omega)]
      apply Nat.div_eq_of_lt_le <;> omega
    have hr : rOf p m1 none = p.blocksize := by simp only [rOf, hk, he]; omega
    have hpi : (p.blockAt m1 n).length = p.blocklen := by rw [blockAt_length]; omega
    have htb : tailBytes p st m1 none
        = p.blockAt m1 n ++ bitsToBytes (modelTail p (st.bitcnt + 8 * m1.length) 0) := by
      simp only [tailBytes, hk, hr]
      rw [List.take_of_length_le (by rw [bytesToBits_length, hpi]; omega),
        bitsToBytes_bytesToBits_append _ (Bytes_blockAt p hm n), modelTail_full p hv hap]
      congr 3; omega
    have hmt : (bitsToBytes (modelTail p (st.bitcnt + 8 * m1.length) 0)).length = p.blocklen := by
      have := modelTail_total p hv (st.bitcnt + 8 * m1.length) 0 (by omega) (by intro; rfl)
        (by intro h; rw [h] at hap; exact hap)
      have hmp := minPad_le p hv
      rw [if_pos (by omega)] at this
      rw [bitsToBytes_length]; omega
    have hts : tailState p st m1 none
        = { padflag := true, bitcnt := st.bitcnt + 8 * m1.length, padcnt := tailPadcnt p st.padcnt 0 } := by
      simp only [tailState, hr, he, hm1, tailPadcnt_full p hv hap]
      rw [if_neg (by omega)]
    rw [hrun, if_neg (by rw [htb, List.length_append, hpi, hmt]; omega), hk, hts, htb,
      List.take_left' hpi, List.drop_left' hpi]
  · have hrun := iterblocks_run p hv { st with bitcnt := st.bitcnt + 8 * m1.length } hflag [] (by intro x hx; simp at hx)
      none (Nat.le_refl _) (by simp)
    have he : effLen ([] : List Nat) none = 0 := rfl
    have hk : kOf p [] none = 0 := by simp [kOf, he, Padder.loopCount]
    have hr : rOf p [] none = 0 := by simp [rOf, he]
    have htb : tailBytes p { st with bitcnt := st.bitcnt + 8 * m1.length } [] none
        = bitsToBytes (modelTail p (st.bitcnt + 8 * m1.length) 0) := by
      simp [tailBytes, hk, hr, Padder.blockAt, bytesToBits_nil]
    have hmt : (bitsToBytes (modelTail p (st.bitcnt + 8 * m1.length) 0)).length = p.blocklen := by
      have := modelTail_total p hv (st.bitcnt + 8 * m1.length) 0 (by omega) (by intro; rfl)
        (by intro h; rw [h] at hap; exact hap)
      have hmp := minPad_le p hv
      rw [if_pos (by omega)] at this
      rw [bitsToBytes_length]; omega
    have hts : tailState p { st with bitcnt := st.bitcnt + 8 * m1.length } [] none
        = { padflag := true, bitcnt := 0, padcnt := tailPadcnt p st.padcnt 0 } := by
      simp [tailState, hr]
    rw [hrun, if_pos (by rw [htb, hmt]; exact Nat.le_refl _), hk, hts, htb]
    simp [Padder.loopYields]

end Proofs.Lemmas.Padding
