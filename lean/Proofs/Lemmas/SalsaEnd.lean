/-
  End to end: key bytes, nonce bytes, rounds, message → `Spec.Salsa20.encFrom` / `Spec.Chacha.encFrom`.
-/
import Proofs.Lemmas.SalsaInit
namespace Proofs.Lemmas.SalsaEnd
open Model Proofs.Lemmas.StreamPoly Proofs.Lemmas.SalsaRounds Proofs.Lemmas.StreamEnc Proofs.Lemmas.SalsaKey
  Proofs.Lemmas.SalsaInit Proofs.Lemmas.SalsaBytes

open Spec.Salsa20 in
theorem sigma_split :
    sigma.length = 16 ∧ tau.length = 16 ∧
    sigmaW = words (sigma.take 4) ++ words ((sigma.drop 4).take 4) ++ words ((sigma.drop 8).take 4) ++ words (sigma.drop 12) ∧
    tauW = words (tau.take 4) ++ words ((tau.drop 4).take 4) ++ words ((tau.drop 8).take 4) ++ words (tau.drop 12) ∧
    (sigma.take 4).length = 4 ∧ ((sigma.drop 4).take 4).length = 4 ∧ ((sigma.drop 8).take 4).length = 4 ∧ (sigma.drop 12).length = 4 ∧
    (tau.take 4).length = 4 ∧ ((tau.drop 4).take 4).length = 4 ∧ ((tau.drop 8).take 4).length = 4 ∧ (tau.drop 12).length = 4 := by
  decide +kernel

/-- Salsa20 state words of a key: what `Salsa20.__init__` leaves in `p` -/
def salsaP (key : List Byte) : List Word :=
  if key.length = 32 then salsaLayout sigmaW (Spec.Salsa20.words (key.take 16)) (Spec.Salsa20.words (key.drop 16))
  else salsaLayout tauW (Spec.Salsa20.words key) (Spec.Salsa20.words key)

def chachaP (key : List Byte) : List Word :=
  if key.length = 32 then chachaLayout sigmaW (Spec.Salsa20.words (key.take 16)) (Spec.Salsa20.words (key.drop 16))
  else chachaLayout tauW (Spec.Salsa20.words key) (Spec.Salsa20.words key)

theorem salsa_spec_block (dr : Nat) (key v : List Byte) (hk : key.length = 16 ∨ key.length = 32) (hv : v.length = 8) (i : Nat) :
    Spec.Salsa20.block dr key v i = some (ksBlock Spec.Salsa20.coreWords dr 8 (nonceSet 6 (salsaP key) (leVal v)) i) := by
  obtain ⟨_, _, hs, ht, s0, s1, s2, s3, t0, t1, t2, t3⟩ := sigma_split
  unfold Spec.Salsa20.block Spec.Salsa20.expand ksBlock salsaP Spec.Salsa20.hashR
  rcases hk with hk | hk
  · have h32 : ¬ key.length = 32 := by omega
    simp only [hk, Nat.reduceEqDiff, ↓reduceIte, Option.map_some]
    rw [salsa_input_words _ _ _ _ key key v t0 t1 t2 t3 hk hk hv i, ← ht]
  · simp only [hk, ↓reduceIte, Option.map_some]
    rw [salsa_input_words _ _ _ _ (key.take 16) (key.drop 16) v s0 s1 s2 s3 (by simp [hk]) (by simp [hk]) hv i, ← hs]

theorem chacha_spec_block (dr : Nat) (key v : List Byte) (hk : key.length = 16 ∨ key.length = 32) (hv : v.length = 8) (i : Nat) :
    Spec.Chacha.block dr key v i = some (ksBlock Spec.Chacha.coreWords dr 12 (nonceSet 14 (chachaP key) (leVal v)) i) := by
  obtain ⟨hsl, htl, _⟩ := sigma_split
  unfold Spec.Chacha.block Spec.Chacha.input ksBlock chachaP
  rcases hk with hk | hk
  · have h32 : ¬ key.length = 32 := by omega
    simp only [hk, Nat.reduceEqDiff, ↓reduceIte, Option.map_some]
    have := chacha_input_words Spec.Salsa20.tau key key v htl hk hk hv i
    simp only [List.append_assoc] at this ⊢
    rw [this]; rfl
  · simp only [hk, ↓reduceIte, Option.map_some]
    have := chacha_input_words Spec.Salsa20.sigma (key.take 16) (key.drop 16) v hsl (by simp [hk]) (by simp [hk]) hv i
    rw [List.take_append_drop] at this
    rw [this]; rfl

theorem salsa_spec_keystream (dr : Nat) (key v : List Byte) (hk : key.length = 16 ∨ key.length = 32) (hv : v.length = 8)
    (b0 n : Nat) :
    Spec.Salsa20.keystream dr key v b0 n = some (ksFrom Spec.Salsa20.coreWords dr 8 (nonceSet 6 (salsaP key) (leVal v)) b0 n) := by
  induction n generalizing b0 with
  | zero => rfl
  | succ n ih => simp only [Spec.Salsa20.keystream, salsa_spec_block dr key v hk hv, ih, ksFrom]; rfl

theorem chacha_spec_keystream (dr : Nat) (key v : List Byte) (hk : key.length = 16 ∨ key.length = 32) (hv : v.length = 8)
    (b0 n : Nat) :
    Spec.Chacha.keystream dr key v b0 n = some (ksFrom Spec.Chacha.coreWords dr 12 (nonceSet 14 (chachaP key) (leVal v)) b0 n) := by
  induction n generalizing b0 with
  | zero => rfl
  | succ n ih => simp only [Spec.Chacha.keystream, chacha_spec_block dr key v hk hv, ih, ksFrom]; rfl

/-- the specification's ciphertext is the word-level `encW` of the expanded key -/
theorem salsa_spec_enc (dr : Nat) (key v : List Byte) (hk : key.length = 16 ∨ key.length = 32) (hv : v.length = 8)
    (b0 : Nat) (M : List Byte) (hb : b0 + (M.length + 63) / 64 ≤ 2 ^ 64) :
    Spec.Salsa20.encFrom dr key v b0 M = some (encW Spec.Salsa20.coreWords dr 6 8 (salsaP key) (leVal v) b0 M) := by
  unfold Spec.Salsa20.encFrom
  have : ¬ (v.length ≠ 8 ∨ b0 + (M.length + 63) / 64 > 2 ^ 64) := by omega
  simp only [this, ↓reduceIte, salsa_spec_keystream dr key v hk hv, Option.map_some]
  rfl

theorem chacha_spec_enc (dr : Nat) (key v : List Byte) (hk : key.length = 16 ∨ key.length = 32) (hv : v.length = 8)
    (b0 : Nat) (M : List Byte) (hb : b0 + (M.length + 63) / 64 ≤ 2 ^ 64) :
    Spec.Chacha.encFrom dr key v b0 M = some (encW Spec.Chacha.coreWords dr 14 12 (chachaP key) (leVal v) b0 M) := by
  unfold Spec.Chacha.encFrom
  have : ¬ (v.length ≠ 8 ∨ b0 + (M.length + 63) / 64 > 2 ^ 64) := by omega
  simp only [this, ↓reduceIte, chacha_spec_keystream dr key v hk hv, Option.map_some]
  rfl


theorem salsaP_length (key : List Byte) : (salsaP key).length = 16 := by
  unfold salsaP salsaLayout; split <;> simp [setW_length]

theorem chachaP_length (key : List Byte) : (chachaP key).length = 16 := by
  unfold chachaP chachaLayout; split <;> simp [setW_length]

/-- `Salsa20(Bits(key,bitorder=1), rounds)` -/
theorem salsa_init_bytes (key : List Byte) (hk : key.length = 16 ∨ key.length = 32) (rounds : Int)
    (hr : rounds > 0 ∧ rounds % 2 = 0) :
    ∃ ks, (do let K ← Bits.ofBytes (nat key) none 1; Salsa.init (some K) rounds) =
      .ok ⟨some ks, ofBV (salsaP key), (rounds / 2).toNat⟩ := by
  rw [ofBytes_le, bind_ok]
  unfold salsaP
  rcases hk with hk | hk
  · simp only [hk, Nat.reduceEqDiff, ↓reduceIte, Nat.reduceMul]
    exact ⟨_, salsa_init_k16 key hk rounds hr⟩
  · simp only [hk, ↓reduceIte, Nat.reduceMul]
    have := salsa_init_k32 (key.take 16) (key.drop 16) (by simp [hk]) (by simp [hk]) rounds hr
    rw [List.take_append_drop] at this
    exact ⟨_, this⟩

/-- `Chacha(Bits(key,bitorder=1), rounds)` -/
theorem chacha_init_bytes (key : List Byte) (hk : key.length = 16 ∨ key.length = 32) (rounds : Int)
    (hr : rounds > 0 ∧ rounds % 2 = 0) :
    ∃ ks, (do let K ← Bits.ofBytes (nat key) none 1; Chacha.init (some K) rounds) =
      .ok ⟨some ks, ofBV (chachaP key), (rounds / 2).toNat⟩ := by
  rw [ofBytes_le, bind_ok]
  unfold chachaP
  rcases hk with hk | hk
  · simp only [hk, Nat.reduceEqDiff, ↓reduceIte, Nat.reduceMul]
    exact ⟨_, chacha_init_k16 key hk rounds hr⟩
  · simp only [hk, ↓reduceIte, Nat.reduceMul]
    have := chacha_init_k32 (key.take 16) (key.drop 16) (by simp [hk]) (by simp [hk]) rounds hr
    rw [List.take_append_drop] at this
    exact ⟨_, this⟩

end Proofs.Lemmas.SalsaEnd
