/-
  Lemmas for C04, part 4: the state as 25 `Bits` lanes versus the state as a bit string of length 25w
  (`State.load`, `State.dump`, `State.__xor__`, `pack`), used by the sponge / duplex refinements.
-/
import Proofs.Lemmas.KeccakLane
import Proofs.Lemmas.KeccakPad
namespace Proofs.Lemmas.KeccakSponge
open Model Model.Keccak Model.Py Proofs.Lemmas.KeccakBits Proofs.Lemmas.KeccakLane Proofs.Lemmas.KeccakPad
open Spec.Keccak (bitsToNat stateOfString stringOfState xorString)

/-- bit i of a bit string, `false` beyond its end -/
def bit (l : List Bool) (i : Nat) : Bool := l.getD i false

theorem bit_append (a b : List Bool) (i : Nat) :
    bit (a ++ b) i = if i < a.length then bit a i else bit b (i - a.length) := by
  simp only [bit, List.getD_eq_getElem?_getD, List.getElem?_append]; split <;> rfl

theorem bit_take (n : Nat) (l : List Bool) (i : Nat) : bit (l.take n) i = (decide (i < n) && bit l i) := by
  simp only [bit, List.getD_eq_getElem?_getD, List.getElem?_take]
  by_cases h : i < n <;> simp [h]

theorem bit_drop (n : Nat) (l : List Bool) (i : Nat) : bit (l.drop n) i = bit l (n + i) := by
  simp only [bit, List.getD_eq_getElem?_getD, List.getElem?_drop]

theorem bit_replicate_false (n i : Nat) : bit (List.replicate n false) i = false := by
  simp only [bit, List.getD_eq_getElem?_getD, List.getElem?_replicate]; split <;> rfl

theorem bit_of_length_le {l : List Bool} {i : Nat} (h : l.length ≤ i) : bit l i = false := by
  simp [bit, List.getD_eq_getElem?_getD, List.getElem?_eq_none h]

theorem bit_bitsOf {P : Bits} (h : P.WF) (i : Nat) : bit (bitsOf P) i = P.ival.testBit i := by
  by_cases hi : i < P.size
  · simp [bit, List.getD_eq_getElem?_getD, bitsOf, List.getElem?_map, List.getElem?_range hi]
  · rw [bit_of_length_le (by simpa using hi), testBit_false_of_WF h (by omega)]

theorem ext_bit {a b : List Bool} (hl : a.length = b.length) (h : ∀ i < a.length, bit a i = bit b i) : a = b := by
  apply List.ext_getElem hl
  intro i h1 h2
  have := h i h1
  simpa [bit, List.getD_eq_getElem?_getD, List.getElem?_eq_getElem h1, List.getElem?_eq_getElem h2] using this

theorem testBit_bitsToNat (l : List Bool) : ∀ i, (bitsToNat l).testBit i = bit l i := by
  induction l with
  | nil => intro i; simp [bitsToNat, bit]
  | cons b bs ih =>
    intro i
    cases i with
    | zero =>
      simp only [bitsToNat, Nat.testBit_zero, bit, List.getD_cons_zero]
      cases b <;> simp <;> omega
    | succ i =>
      rw [Nat.testBit_succ]
      have : (bitsToNat (b :: bs)) / 2 = bitsToNat bs := by
        simp only [bitsToNat]; cases b <;> simp <;> omega
      rw [this, ih i]; simp [bit]

theorem bitsToNat_lt (l : List Bool) : bitsToNat l < 2 ^ l.length := by
  induction l with
  | nil => simp [bitsToNat]
  | cons b bs ih =>
    simp only [bitsToNat, List.length_cons, Nat.pow_succ]
    cases b <;> simp <;> omega

/-- the value a bit string denotes, as a `Bits` object -/
def ofBitList (l : List Bool) : Bits := ⟨bitsToNat l, l.length⟩

theorem ofBitList_WF (l : List Bool) : (ofBitList l).WF := bitsToNat_lt l

theorem bitsOf_ofBitList (l : List Bool) : bitsOf (ofBitList l) = l := by
  apply ext_bit (by simp [ofBitList])
  intro i _
  rw [bit_bitsOf (ofBitList_WF l)]; exact testBit_bitsToNat l i

theorem ofBitList_bitsOf {P : Bits} (h : P.WF) : ofBitList (bitsOf P) = P :=
  eq_of_bitsOf_eq (ofBitList_WF _) h (bitsOf_ofBitList _)


/-! ### the state array as a string -/

def laneBits {w} (v : BitVec w) : List Bool := (List.range w).map v.getLsbD

theorem stringOfState_eq {w} (A : Spec.Keccak.State w) : stringOfState A = (A.toList.map laneBits).flatten := rfl

theorem flatten_length_uniform {α} (w : Nat) :
    ∀ (bs : List (List α)), (∀ b ∈ bs, b.length = w) → bs.flatten.length = bs.length * w := by
  intro bs
  induction bs with
  | nil => intro _; simp
  | cons b bs ih =>
    intro h
    rw [List.flatten_cons, List.length_append, ih (fun x hx => h x (List.mem_cons_of_mem _ hx)), h b (by simp),
      List.length_cons, Nat.succ_mul]; omega

theorem bit_laneBits {w} (v : BitVec w) (t : Nat) : bit (laneBits v) t = v.getLsbD t := by
  by_cases ht : t < w
  · simp [bit, laneBits, List.getD_eq_getElem?_getD, List.getElem?_map, List.getElem?_range ht]
  · rw [bit_of_length_le (by simp [laneBits]; omega)]
    exact (BitVec.getLsbD_of_ge v t (by omega)).symm

theorem B_WF {w} (v : BitVec w) : (B v).WF := v.isLt

theorem bitsOf_B {w} (v : BitVec w) : bitsOf (B v) = laneBits v := by
  apply ext_bit (by simp [B, laneBits])
  intro i _
  rw [bit_bitsOf (B_WF v), bit_laneBits]; rfl

/-- coordinates in a concatenation of w-bit blocks -/
theorem bit_flatten_uniform (w : Nat) (hw : 0 < w) :
    ∀ (bs : List (List Bool)), (∀ b ∈ bs, b.length = w) → ∀ j, bit bs.flatten j = bit (bs.getD (j / w) []) (j % w) := by
  intro bs
  induction bs with
  | nil => intro _ j; simp [bit]
  | cons b bs ih =>
    intro h j
    have hb : b.length = w := h b (by simp)
    rw [List.flatten_cons, bit_append, hb]
    by_cases hj : j < w
    · simp [hj, Nat.div_eq_of_lt hj, Nat.mod_eq_of_lt hj]
    · simp only [hj, if_false]
      obtain ⟨j', rfl⟩ : ∃ j', j = j' + w := ⟨j - w, by omega⟩
      rw [Nat.add_sub_cancel, ih (fun x hx => h x (List.mem_cons_of_mem _ hx)), Nat.add_div_right _ hw,
        Nat.add_mod_right]
      simp

theorem stringOfState_length {w} (A : Spec.Keccak.State w) : (stringOfState A).length = 25 * w := by
  rw [stringOfState_eq, flatten_length_uniform w _ (by simp [laneBits])]; simp

/-- bit j of the string of a state array is bit j mod w of lane j / w  (A[x,y,z] = S[w(5y+x)+z]) -/
theorem bit_stringOfState {w} (hw : 0 < w) (A : Spec.Keccak.State w) (j : Nat) :
    bit (stringOfState A) j = (A.toList.getD (j / w) 0).getLsbD (j % w) := by
  rw [stringOfState_eq, bit_flatten_uniform w hw _ (by simp [laneBits])]
  by_cases hj : j / w < 25
  · have h1 : (A.toList.map laneBits).getD (j / w) [] = laneBits (A.toList.getD (j / w) 0) := by
      simp [List.getD_eq_getElem?_getD, List.getElem?_map, hj]
    rw [h1, bit_laneBits]
  · have h1 : (A.toList.map laneBits).getD (j / w) [] = [] := by
      simp [List.getD_eq_getElem?_getD, List.getElem?_eq_none (by simp; omega : (A.toList.map laneBits).length ≤ j / w)]
    have h2 : A.toList.getD (j / w) 0 = 0 := by
      simp [List.getD_eq_getElem?_getD, List.getElem?_eq_none (by simp; omega : A.toList.length ≤ j / w)]
    rw [h1, h2]; simp [bit]

theorem getLsbD_ofNat_bitsToNat (w : Nat) (X : List Bool) (t : Nat) :
    (BitVec.ofNat w (bitsToNat X)).getLsbD t = (decide (t < w) && bit X t) := by
  simp [BitVec.getLsbD, BitVec.toNat_ofNat, Nat.testBit_mod_two_pow, testBit_bitsToNat]

/-- converting a state array to its string and back is the identity (FIPS 202 §3.1.2 / §3.1.3) -/
theorem stateOfString_stringOfState {w} (hw : 0 < w) (A : Spec.Keccak.State w) :
    stateOfString w (stringOfState A) = A := by
  apply Vector.ext
  intro i hi
  simp only [stateOfString, Vector.getElem_ofFn]
  apply BitVec.eq_of_getLsbD_eq
  intro t ht
  rw [getLsbD_ofNat_bitsToNat, bit_take, bit_drop, bit_stringOfState hw]
  have h1 : (w * i + t) / w = i := by
    rw [Nat.mul_add_div hw, Nat.div_eq_of_lt ht]; rfl
  have h2 : (w * i + t) % w = t := by rw [Nat.mul_add_mod]; exact Nat.mod_eq_of_lt ht
  rw [h1, h2]
  simp [ht, List.getD_eq_getElem?_getD, hi]


/-! ### `S ^ State(w).load(P)` -/

/-- lane i of the block P laid over the state (bits i·w … i·w+w−1 of P, zero beyond its end) -/
def laneOfP (w : Nat) (P : Bits) (i : Nat) : BitVec w := BitVec.ofNat w (P.ival >>> (i * w))

/-- the state array after xoring the block P into its first |P| bits -/
def absorbState {w} (A : Spec.Keccak.State w) (P : Bits) : Spec.Keccak.State w :=
  Vector.ofFn fun i => A[i] ^^^ laneOfP w P i.val

theorem load_lane (w : Nat) (P : Bits) (hP : P.WF) (l : Nat) :
    (sliceClip P (l * w) (l * w + w)).setSize w = B (laneOfP w P l) := by
  have hv : ((sliceClip P (l * w) (l * w + w)).setSize w).ival = (B (laneOfP w P l)).ival := by
    apply Nat.eq_of_testBit_eq
    intro t
    simp only [Bits.setSize, B, laneOfP, BitVec.toNat_ofNat, Nat.testBit_mod_two_pow, Nat.testBit_shiftRight]
    rw [← bit_bitsOf (sliceClip_WF _ _ _), bitsOf_sliceClip, bit_drop, bit_take, bit_bitsOf hP]
    by_cases ht : t < w
    · have : l * w + t < l * w + w := by omega
      simp [ht, this]
    · simp [ht]
  cases h : (sliceClip P (l * w) (l * w + w)).setSize w
  rw [h] at hv
  simp only [B] at hv ⊢
  have hs : ((sliceClip P (l * w) (l * w + w)).setSize w).size = w := rfl
  rw [h] at hs
  simp_all

theorem xorState_load {w} (A : Spec.Keccak.State w) (P : Bits) (hP : P.WF) :
    xorState (toLanes A) (load w P) = toLanes (absorbState A P) := by
  apply List.ext_getElem
  · simp [xorState, toLanes, load]
  · intro i h1 h2
    have hi : i < 25 := by simpa [toLanes] using h2
    simp only [xorState, toLanes, load, List.getElem_zipWith, List.getElem_map, List.getElem_range,
      Vector.getElem_toList, absorbState, Vector.getElem_ofFn, load_lane w P hP, xor_B]
    rfl

theorem bit_xorString (s p : List Bool) (j : Nat) (h1 : j < s.length) (h2 : j < p.length) :
    bit (xorString s p) j = (bit s j != bit p j) := by
  simp [bit, xorString, List.getD_eq_getElem?_getD, List.getElem?_zipWith, List.getElem?_eq_getElem h1,
    List.getElem?_eq_getElem h2]

theorem getD_toList {w} (A : Spec.Keccak.State w) (i : Nat) (hi : i < 25) : A.toList.getD i 0 = A[i] := by
  simp [List.getD_eq_getElem?_getD, hi]

theorem stringOfState_absorbState {w} (hw : 0 < w) (A : Spec.Keccak.State w) (P : Bits) (hP : P.WF)
    (hr : P.size ≤ 25 * w) :
    stringOfState (absorbState A P)
      = xorString (stringOfState A) (bitsOf P ++ List.replicate (25 * w - P.size) false) := by
  apply ext_bit
  · simp [stringOfState_length, xorString]; omega
  · intro j hj
    rw [stringOfState_length] at hj
    have hjw : j / w < 25 := by rw [Nat.div_lt_iff_lt_mul hw]; omega
    have hm : j % w < w := Nat.mod_lt _ hw
    rw [bit_xorString _ _ j (by rw [stringOfState_length]; exact hj) (by simp; omega),
      bit_stringOfState hw, bit_stringOfState hw, getD_toList _ _ hjw, getD_toList _ _ hjw]
    simp only [absorbState, Vector.getElem_ofFn, BitVec.getLsbD_xor, laneOfP]
    have h3 : bit (bitsOf P ++ List.replicate (25 * w - P.size) false) j = P.ival.testBit j := by
      rw [bit_append]
      split
      · exact bit_bitsOf hP j
      · rw [bit_replicate_false, testBit_false_of_WF hP (by simp at *; omega)]
    rw [h3]
    have h4 : (BitVec.ofNat w (P.ival >>> (j / w * w))).getLsbD (j % w) = P.ival.testBit j := by
      simp only [BitVec.getLsbD, BitVec.toNat_ofNat, Nat.testBit_mod_two_pow, Nat.testBit_shiftRight, hm,
        decide_true, Bool.true_and]
      rw [Nat.mul_comm, Nat.div_add_mod]
    rw [h4]; rfl

/-! ### `State.dump(r)` -/

theorem foldl_concat_bits : ∀ (ls : List Bits) (z : Bits), z.WF →
    (ls.foldl Bits.concat z).WF ∧ bitsOf (ls.foldl Bits.concat z) = bitsOf z ++ (ls.map bitsOf).flatten := by
  intro ls
  induction ls with
  | nil => intro z hz; simp [hz]
  | cons l ls ih =>
    intro z hz
    have := ih (z.concat l) (concat_WF _ _)
    simp only [List.foldl_cons, List.map_cons, List.flatten_cons]
    rw [this.2, bitsOf_concat hz, List.append_assoc]
    exact ⟨this.1, rfl⟩

theorem dump_stuck (r : Nat) : ∀ (ls : List Bits) (z : Bits), z.size > r →
    ls.foldl (fun (z : Bits) lane => if z.size ≤ r then z.concat lane else z) z = z := by
  intro ls
  induction ls with
  | nil => intro z _; rfl
  | cons l ls ih =>
    intro z hz
    have : ¬ z.size ≤ r := by omega
    simp only [List.foldl_cons, this, if_false]
    exact ih z hz

theorem dump_cond_eq (r : Nat) : ∀ (ls : List Bits) (z : Bits), z.WF →
    (ls.foldl (fun (z : Bits) lane => if z.size ≤ r then z.concat lane else z) z).setSize r
      = (ls.foldl Bits.concat z).setSize r := by
  intro ls
  induction ls with
  | nil => intro z _; rfl
  | cons l ls ih =>
    intro z hz
    by_cases h : z.size ≤ r
    · simp only [List.foldl_cons, h, if_true]
      exact ih _ (concat_WF _ _)
    · have hgt : z.size > r := by omega
      rw [dump_stuck r _ z hgt]
      have hf := foldl_concat_bits (l :: ls) z hz
      apply eq_of_bitsOf_eq (setSize_WF _ _) (setSize_WF _ _)
      have hsz : r ≤ ((l :: ls).foldl Bits.concat z).size := by
        have := congrArg List.length hf.2
        simp only [bitsOf_length, List.length_append] at this
        omega
      rw [bitsOf_setSize_le r (by omega), bitsOf_setSize_le r hsz, hf.2,
        List.take_append_of_le_length (by simp; omega)]

theorem dump_spec {w} (A : Spec.Keccak.State w) (r : Nat) (hr : r ≤ 25 * w) :
    ∃ X, dump w (toLanes A) r = .ok X ∧ X.WF ∧ X.size = r ∧ bitsOf X = (stringOfState A).take r := by
  have hnot : ¬ r > 25 * w := by omega
  refine ⟨((toLanes A).foldl (fun (z : Bits) lane => if z.size ≤ r then z.concat lane else z) ⟨0, 0⟩).setSize r,
    by simp only [dump, hnot, if_false], setSize_WF _ _, rfl, ?_⟩
  rw [dump_cond_eq r _ _ (by simp [Bits.WF])]
  have hf := foldl_concat_bits (toLanes A) ⟨0, 0⟩ (by simp [Bits.WF])
  have hbits : bitsOf ((toLanes A).foldl Bits.concat ⟨0, 0⟩) = stringOfState A := by
    have h0 : bitsOf (⟨0, 0⟩ : Bits) = [] := rfl
    rw [hf.2, stringOfState_eq, h0, List.nil_append, toLanes, List.map_map]
    congr 1
  rw [bitsOf_setSize_le r (by rw [← bitsOf_length, hbits, stringOfState_length]; exact hr), hbits]

/-! ### the all-zero state -/

theorem zero_eq (w : Nat) : zero w = toLanes (Vector.replicate 25 (0 : BitVec w)) := by
  simp [zero, toLanes, B]

theorem stringOfState_zero {w} (hw : 0 < w) :
    stringOfState (Vector.replicate 25 (0 : BitVec w)) = List.replicate (25 * w) false := by
  apply ext_bit
  · simp [stringOfState_length]
  · intro j _
    have h0 : ∀ k, (List.replicate 25 (0 : BitVec w)).getD k 0 = 0 := by
      intro k; simp only [List.getD_eq_getElem?_getD, List.getElem?_replicate]; split <;> rfl
    rw [bit_stringOfState hw, bit_replicate_false, Vector.toList_replicate, h0]; simp


/-! ### counting r-bit pieces -/

/-- ⌈m/r⌉ -/
def nblk (r m : Nat) : Nat := (m + r - 1) / r

theorem nblk_zero (r : Nat) (hr : 0 < r) : nblk r 0 = 0 := by
  simp only [nblk, Nat.zero_add]; exact Nat.div_eq_of_lt (by omega)

theorem nblk_step (r m : Nat) (hr : 0 < r) (hm : 0 < m) : nblk r m = nblk r (m - r) + 1 := by
  simp only [nblk]
  by_cases h : r ≤ m
  · have : m + r - 1 = (m - r + r - 1) + r := by omega
    rw [this, Nat.add_div_right _ hr]
  · have h1 : m - r = 0 := by omega
    rw [h1, Nat.zero_add, Nat.div_eq_of_lt (by omega : r - 1 < r)]
    exact Nat.div_eq_of_lt_le (by omega) (by omega)

theorem chunksOf_go_eq {α} (r : Nat) (hr : 0 < r) : ∀ (fuel : Nat) (l : List α), l.length ≤ fuel →
    Spec.Keccak.chunksOf.go r fuel l = (List.range (nblk r l.length)).map fun j => (l.drop (r * j)).take r := by
  intro fuel
  induction fuel with
  | zero =>
    intro l hl
    have : l = [] := List.eq_nil_of_length_eq_zero (by omega)
    subst this; simp [Spec.Keccak.chunksOf.go, nblk_zero r hr]
  | succ fuel ih =>
    intro l hl
    cases l with
    | nil => simp [Spec.Keccak.chunksOf.go, nblk_zero r hr]
    | cons a as =>
      have hlen : ((a :: as).drop r).length ≤ fuel := by
        simp only [List.length_drop, List.length_cons] at hl ⊢; omega
      simp only [Spec.Keccak.chunksOf.go, List.isEmpty_cons, Bool.false_eq_true, if_false]
      rw [ih _ hlen, nblk_step r (a :: as).length hr (by simp), List.range_succ_eq_map, List.map_cons,
        List.map_map, List.length_drop]
      simp only [Nat.mul_zero, List.drop_zero, List.cons.injEq, true_and]
      apply List.map_congr_left
      intro j _
      simp only [Function.comp, List.drop_drop, Nat.succ_eq_add_one, Nat.mul_add, Nat.mul_one]
      rw [Nat.add_comm]

theorem chunksOf_eq {α} (r : Nat) (hr : 0 < r) (l : List α) :
    Spec.Keccak.chunksOf r l = (List.range (nblk r l.length)).map fun j => (l.drop (r * j)).take r :=
  chunksOf_go_eq r hr _ l (Nat.le_refl _)

/-! ### `pack` -/

/-- `pack(Z)` is the byte string of FIPS 202 B.1 (b2h) for the bits of Z -/
theorem pack_spec (X : Bits) (hX : X.WF) : X.pack = Spec.Keccak.bytesOfBits (bitsOf X) := by
  simp only [Bits.pack, Spec.Keccak.bytesOfBits, chunksOf_eq 8 (by omega), bitsOf_length, List.map_map,
    Bool.false_eq_true, if_false]
  have hn : (X.size + 7) / 8 = nblk 8 X.size := by simp [nblk]
  rw [hn]
  apply List.map_congr_left
  intro j hj
  have hj' : j < nblk 8 X.size := List.mem_range.mp hj
  have hjs : 8 * j ≤ X.size := by simp only [nblk] at hj'; omega
  have hsl : X.sliceFast (j * 8) (min (j * 8 + 8) X.size) = sliceClip X (8 * j) (8 * j + 8) := by
    simp only [sliceClip]
    have : min (8 * j) X.size = j * 8 := by omega
    rw [this, Nat.mul_comm 8 j]
  rw [hsl]
  simp only [Function.comp]
  have hb : bitsOf (sliceClip X (8 * j) (8 * j + 8)) = ((bitsOf X).drop (8 * j)).take 8 := by
    rw [bitsOf_sliceClip, List.drop_take]; congr 1; omega
  have hival : (sliceClip X (8 * j) (8 * j + 8)).ival = bitsToNat (bitsOf (sliceClip X (8 * j) (8 * j + 8))) := by
    have := congrArg Bits.ival (ofBitList_bitsOf (sliceClip_WF X (8 * j) (8 * j + 8)))
    simpa [ofBitList] using this.symm
  have hlt : (sliceClip X (8 * j) (8 * j + 8)).ival < 2 ^ 8 := by
    apply Nat.lt_of_lt_of_le (sliceClip_WF X (8 * j) (8 * j + 8))
    apply Nat.pow_le_pow_right (by omega)
    simp only [sliceClip_size]; omega
  rw [← hb, ← hival, show (255 : Nat) = 2 ^ 8 - 1 by rfl, Nat.and_two_pow_sub_one_eq_mod, Nat.mod_eq_of_lt hlt]


/-! ### absorbing, squeezing, the sponge -/

open Spec.Keccak (fString absorbBlock squeezeBlocks keccakF)

theorem fString_stringOfState {w} (hw : 0 < w) (A : Spec.Keccak.State w) :
    fString w (stringOfState A) = stringOfState (keccakF w A) := by
  simp only [fString, stateOfString_stringOfState hw]

theorem absorb_refines (c : Cfg) (hw : 0 < c.w) (r : Nat) (hr25 : r ≤ 25 * c.w)
    (hf : ∀ A : Spec.Keccak.State c.w, f c.w c.n (toLanes A) = toLanes (keccakF c.w A)) :
    ∀ (blocks : List Bits), Good r blocks → ∀ A : Spec.Keccak.State c.w,
      ∃ A' : Spec.Keccak.State c.w, absorb c (toLanes A) blocks = toLanes A' ∧
        stringOfState A' = (blocks.map bitsOf).foldl (absorbBlock (fString c.w) (25 * c.w) r) (stringOfState A) := by
  intro blocks
  induction blocks with
  | nil => intro _ A; exact ⟨A, rfl, rfl⟩
  | cons P ps ih =>
    intro hg A
    have hP := hg P (by simp)
    have hps : Good r ps := fun Q hQ => hg Q (List.mem_cons_of_mem _ hQ)
    obtain ⟨A', h1, h2⟩ := ih hps (keccakF c.w (absorbState A P))
    refine ⟨A', ?_, ?_⟩
    · simp only [absorb, List.foldl_cons] at h1 ⊢
      rw [xorState_load A P hP.1, hf]; exact h1
    · have hstep : absorbBlock (fString c.w) (25 * c.w) r (stringOfState A) (bitsOf P)
          = stringOfState (keccakF c.w (absorbState A P)) := by
        simp only [absorbBlock]
        rw [← hP.2, ← stringOfState_absorbState hw A P hP.1 (by rw [hP.2]; exact hr25), fString_stringOfState hw]
      rw [h2, List.map_cons, List.foldl_cons, hstep]

theorem sq_succ (g : List Bool → List Bool) (r k : Nat) (s : List Bool) :
    squeezeBlocks g r (k + 1) s = s.take r ++ squeezeBlocks g r k (g s) := by
  cases k with
  | zero => simp [squeezeBlocks]
  | succ k => simp [squeezeBlocks]

theorem squeezeLoop_refines (c : Cfg) (hw : 0 < c.w) (r : Nat) (hr : 0 < r) (hr25 : r ≤ 25 * c.w)
    (hf : ∀ A : Spec.Keccak.State c.w, f c.w c.n (toLanes A) = toLanes (keccakF c.w A)) (d : Nat) :
    ∀ (fuel : Nat) (A : Spec.Keccak.State c.w) (Z : Bits), Z.WF → d ≤ fuel + Z.size →
      ∃ Z', squeezeLoop c r d fuel (toLanes A) Z = .ok Z' ∧ Z'.WF ∧
        bitsOf Z' = bitsOf Z ++
          squeezeBlocks (fString c.w) r (nblk r (d - Z.size)) (fString c.w (stringOfState A)) := by
  intro fuel
  induction fuel with
  | zero =>
    intro A Z hZ hd
    have : d - Z.size = 0 := by omega
    refine ⟨Z, rfl, hZ, ?_⟩
    rw [this, nblk_zero r hr]; simp [squeezeBlocks]
  | succ fuel ih =>
    intro A Z hZ hd
    by_cases hlt : Z.size < d
    · obtain ⟨z, hz1, hz2, hz3, hz4⟩ := dump_spec (keccakF c.w A) r hr25
      obtain ⟨Z', h1, h2, h3⟩ := ih (keccakF c.w A) (Z.concat z) (concat_WF _ _) (by simp [hz3]; omega)
      refine ⟨Z', ?_, h2, ?_⟩
      · simp only [squeezeLoop, hlt, if_true, hf, hz1]
        exact h1
      · have hs : fString c.w (stringOfState A) = stringOfState (keccakF c.w A) := fString_stringOfState hw A
        have hsz : d - (Z.concat z).size = d - Z.size - r := by simp only [concat_size, hz3, Nat.sub_sub]
        rw [h3, bitsOf_concat hZ, hz4, List.append_assoc, nblk_step r (d - Z.size) hr (by omega), sq_succ, hs, hsz]
    · have : d - Z.size = 0 := by omega
      refine ⟨Z, by simp only [squeezeLoop, hlt, if_false], hZ, ?_⟩
      rw [this, nblk_zero r hr]; simp [squeezeBlocks]

/-- `Keccak.__call__` = the reference sponge, for every object whose permutation is Keccak-f (hypothesis `hf`,
    discharged by `f_refines` for every supported width) -/
theorem call_refines (c : Cfg) (hw : 0 < c.w) (hr : 0 < c.r) (hr25 : c.r ≤ 25 * c.w)
    (hf : ∀ A : Spec.Keccak.State c.w, f c.w c.n (toLanes A) = toLanes (keccakF c.w A))
    (d : Nat) (hd : 0 < d) (hout : c.outlen = some d)
    (M : List Nat) (hM : ∀ b ∈ M, b < 256) (bitlen : Option Nat) (hL : ∀ L, bitlen = some L → L ≤ 8 * M.length) :
    call c M bitlen
      = .ok (Spec.Keccak.bytesOfBits (Spec.Keccak.keccak c.w c.r (msgBits c.duplexing M bitlen) d)) := by
  obtain ⟨blocks, hb1, hb2, hb3⟩ := iterblocks_spec_aux c.r hr c.duplexing M hM bitlen hL
  obtain ⟨A', ha1, ha2⟩ := absorb_refines c hw c.r hr25 hf blocks hb2 (Vector.replicate 25 0)
  obtain ⟨Z0, hz1, hz2, hz3, hz4⟩ := dump_spec A' c.r hr25
  obtain ⟨Z', hq1, hq2, hq3⟩ := squeezeLoop_refines c hw c.r hr hr25 hf d d A' Z0 hz2 (by omega)
  have hr0 : ¬ c.r = 0 := by omega
  have ha1' : absorb c (zero c.w) blocks = toLanes A' := by rw [zero_eq]; exact ha1
  simp only [call, callAt, hr0, if_false, hb1, bind, Except.bind, ha1', hz1, hout, hq1, pure, Except.pure]
  congr 1
  rw [pack_spec _ (sliceClip_WF _ _ _), bitsOf_sliceClip, List.drop_zero, hq3, hz4]
  congr 1
  simp only [Spec.Keccak.keccak, Spec.Keccak.sponge]
  rw [← hb3, ← stringOfState_zero hw, ← ha2]
  have hn : (d + c.r - 1) / c.r = nblk c.r d := rfl
  rw [hn, nblk_step c.r d hr hd, sq_succ, hz3]

/-- the message bits of `M + suffix byte` with bit length 8|M|+k: M's bits followed by the k low bits of the suffix -/
theorem suffix_bits (M : List Nat) (s k : Nat) (_hk : k ≤ 8) :
    msgBits true (M ++ [s]) (some (8 * M.length + k))
      = Spec.Keccak.bitsOfBytes M ++ ((List.range 8).map s.testBit).take k := by
  simp only [msgBits, if_true, Option.getD_some, Spec.Keccak.msgBitsLSB, bitsOfBytes_append]
  rw [← bitsOfBytes_length M, List.take_length_add_append]
  simp [Spec.Keccak.bitsOfBytes]

end Proofs.Lemmas.KeccakSponge
