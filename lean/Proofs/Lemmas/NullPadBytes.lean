/-
  The null padding of a byte string through crysp's Bits plumbing: `(Bits(m,8|m|)//Bits(0,q)).bytes()` is `m` followed
  by q/8 zero bytes.
-/
import Model.Padding
namespace Proofs.Lemmas.NullPadBytes
open Model Model.Py

theorem rb_lt : ∀ b < 256, Bits.reverseByte b < 256 := by decide +kernel
theorem rb_lt8 : ∀ b < 256, Bits.reverseByte b < 2 ^ 8 := by decide +kernel
theorem rb_rb : ∀ b < 256, Bits.reverseByte (Bits.reverseByte b) = b := by decide +kernel
theorem rb_zero : Bits.reverseByte 0 = 0 := by decide

/-- value of the bit stream of a byte string: little-endian sum of the bit-reversed bytes -/
def sval : List Nat → Nat
  | [] => 0
  | b :: bs => sval bs * 256 + Bits.reverseByte b

theorem chunks1_go : ∀ (fuel : Nat) (l : List Nat), l.length ≤ fuel → Py.chunks.go 1 l fuel = l.map fun b => [b]
  | 0, l, h => by
    have : l = [] := List.length_eq_zero_iff.mp (by omega)
    subst this; rfl
  | fuel + 1, [], _ => by simp [Py.chunks.go]
  | fuel + 1, b :: bs, h => by
    simp only [Py.chunks.go, List.isEmpty_cons, Bool.false_eq_true, if_false, List.take_succ_cons, List.take_zero,
      List.drop_succ_cons, List.drop_zero, List.map_cons]
    rw [chunks1_go fuel bs (by simp at h; omega)]

theorem gv_cons (f : Nat → Nat) (k : Nat) (e : List Nat) (es : List (List Nat)) :
    Bits.groupsVal f k (e :: es) = (Bits.groupsVal f k es <<< (8 * k)) ||| Bits.groupVal f e := rfl
theorem gval1 (f : Nat → Nat) (b : Nat) : Bits.groupVal f [b] = (0 <<< 8) ||| f b := rfl

theorem groupsVal_sval : ∀ (m : List Nat), (∀ b ∈ m, b < 256) →
    Bits.groupsVal Bits.reverseByte 1 (m.map fun b => [b]) = sval m
  | [], _ => rfl
  | b :: bs, h => by
    have hb : Bits.reverseByte b < 2 ^ 8 := rb_lt8 b (h b (by simp))
    rw [List.map_cons, gv_cons, gval1, Nat.zero_shiftLeft, Nat.zero_or, Nat.mul_one, sval]
    rw [groupsVal_sval bs (fun x hx => h x (by simp [hx])), ← Nat.shiftLeft_add_eq_or_of_lt hb]
    simp only [Nat.shiftLeft_eq, Nat.reducePow]

theorem sval_lt : ∀ (m : List Nat), (∀ b ∈ m, b < 256) → sval m < 2 ^ (8 * m.length)
  | [], _ => by simp [sval]
  | b :: bs, h => by
    have hb : Bits.reverseByte b < 256 := rb_lt b (h b (by simp))
    have ih := sval_lt bs (fun x hx => h x (by simp [hx]))
    simp only [sval, List.length_cons]
    rw [show 8 * (bs.length + 1) = 8 * bs.length + 8 by omega, Nat.pow_add]
    omega

theorem sval_byte : ∀ (m : List Nat), (∀ b ∈ m, b < 256) → ∀ k (hk : k < m.length),
    sval m / 2 ^ (8 * k) % 256 = Bits.reverseByte m[k]
  | [], _, k, hk => by simp at hk
  | b :: bs, h, 0, _ => by
    have hb : Bits.reverseByte b < 256 := rb_lt b (h b (by simp))
    simp only [sval, Nat.mul_zero, Nat.pow_zero, Nat.div_one, List.getElem_cons_zero]
    omega
  | b :: bs, h, k + 1, hk => by
    have hb : Bits.reverseByte b < 256 := rb_lt b (h b (by simp))
    simp only [sval, List.getElem_cons_succ]
    rw [show 8 * (k + 1) = 8 + 8 * k by omega, Nat.pow_add, ← Nat.div_div_eq_div_mul,
      show (sval bs * 256 + Bits.reverseByte b) / 2 ^ 8 = sval bs by omega]
    exact sval_byte bs (fun x hx => h x (by simp [hx])) k (by simpa using hk)

theorem bitsOfBytes_full (m : List Nat) (hm : ∀ b ∈ m, b < 256) :
    Padder.bitsOfBytes m (8 * m.length) = ⟨sval m, 8 * m.length⟩ := by
  have hlt := sval_lt m hm
  simp only [Padder.bitsOfBytes, Bits.ofBytes, Bits.load, Py.chunks]
  simp [bind, Except.bind, pure, Except.pure, Nat.mod_one, Bits.setSize, chunks1_go m.length m (Nat.le_refl _),
    groupsVal_sval m hm, Nat.mod_eq_of_lt hlt]

/-- `Nullpadding.lastblock` on whole bytes: the message bytes followed by zero bytes -/
theorem null_pad_bytes (m : List Nat) (hm : ∀ b ∈ m, b < 256) (q : Nat) (hq : q % 8 = 0) :
    ((Padder.bitsOfBytes m (8 * m.length)).concat (Bits.ofNatSz 0 q)).toBytes = m ++ List.replicate (q / 8) 0 := by
  have hlt := sval_lt m hm
  rw [bitsOfBytes_full m hm]
  have hval : (Bits.concat ⟨sval m, 8 * m.length⟩ (Bits.ofNatSz 0 q)) = ⟨sval m, 8 * m.length + q⟩ := by
    simp only [Bits.concat, Bits.ofNatSz, Nat.zero_mod, Nat.zero_shiftLeft, Nat.or_zero]
    congr 1
    exact Nat.mod_eq_of_lt (Nat.lt_of_lt_of_le hlt (Nat.pow_le_pow_right (by decide) (by omega)))
  rw [hval]
  have hlt2 : sval m < 2 ^ (8 * m.length + q) := Nat.lt_of_lt_of_le hlt (Nat.pow_le_pow_right (by decide) (by omega))
  apply List.ext_getElem
  · simp [Bits.toBytes]; omega
  · intro k h1 h2
    simp only [Bits.toBytes, List.getElem_map, List.getElem_range, Bits.mask, Nat.and_two_pow_sub_one_eq_mod,
      Nat.mod_eq_of_lt hlt2, Nat.shiftRight_eq_div_pow]
    rw [show (0xff : Nat) = 2 ^ 8 - 1 from rfl, Nat.and_two_pow_sub_one_eq_mod]
    by_cases hk : k < m.length
    · rw [List.getElem_append_left hk, show (2 : Nat) ^ 8 = 256 from rfl, sval_byte m hm k hk]
      exact rb_rb _ (hm _ (List.getElem_mem hk))
    · rw [List.getElem_append_right (by omega), List.getElem_replicate]
      have : sval m / 2 ^ (8 * k) = 0 :=
        Nat.div_eq_of_lt (Nat.lt_of_lt_of_le hlt (Nat.pow_le_pow_right (by decide) (by omega)))
      rw [this]; rfl

end Proofs.Lemmas.NullPadBytes
