/-
  Proofs.Lemmas.CrcLin — GF(2)-linearity of the reflected CRC bit step on `Nat`, and the byte/word-at-a-time
  consequences.  Core Lean only.
-/
import Spec.Crc
namespace Proofs.Lemmas.CrcLin
open Spec.Crc

/-- the register step with a zero message bit: `r := r>>1 xor (P if r&1)` -/
def step (P r : Nat) : Nat := if r.testBit 0 then (r >>> 1) ^^^ P else r >>> 1

/-- n steps -/
def steps (P : Nat) : Nat → Nat → Nat
  | 0, r => r
  | n+1, r => steps P n (step P r)

/-- an xor-additive map on naturals -/
def XorAdd (f : Nat → Nat) : Prop := ∀ a b, f (a ^^^ b) = f a ^^^ f b

/-- an xor-additive map on `w` bits is determined by its values on the `w` unit vectors -/
theorem xorAdd_ext (f g : Nat → Nat) (hf : XorAdd f) (hg : XorAdd g) (w : Nat)
    (hb : ∀ i < w, f (2 ^ i) = g (2 ^ i)) : ∀ x < 2 ^ w, f x = g x := by
  have hf0 : f 0 = 0 := by
    have := hf 0 0; simp only [Nat.xor_self] at this; exact this
  have hg0 : g 0 = 0 := by
    have := hg 0 0; simp only [Nat.xor_self] at this; exact this
  induction w with
  | zero => intro x hx; have : x = 0 := by omega
            subst this; rw [hf0, hg0]
  | succ w ih =>
    intro x hx
    have ih' := ih (fun i hi => hb i (by omega))
    have hsplit : x = (x % 2 ^ w) ^^^ (if x.testBit w then 2 ^ w else 0) := by
      apply Nat.eq_of_testBit_eq; intro i
      rw [Nat.testBit_xor, Nat.testBit_mod_two_pow]
      by_cases hiw : i < w
      · have : (if x.testBit w then 2 ^ w else 0).testBit i = false := by
          split
          · rw [Nat.testBit_two_pow]; simp; omega
          · simp
        simp [hiw, this]
      · by_cases hieq : i = w
        · subst hieq
          cases hx' : x.testBit i <;> simp
        · have h1 : x.testBit i = false := by
            apply Nat.testBit_lt_two_pow
            calc x < 2 ^ (w + 1) := hx
              _ ≤ 2 ^ i := Nat.pow_le_pow_right (by omega) (by omega)
          have : (if x.testBit w then 2 ^ w else 0).testBit i = false := by
            split
            · rw [Nat.testBit_two_pow]; simp; omega
            · simp
          simp [hiw, h1, this]
    rw [hsplit, hf, hg, ih' _ (Nat.mod_lt _ (Nat.two_pow_pos w))]
    split
    · rw [hb w (by omega)]
    · rw [hf0, hg0]

theorem xorAdd_zero {f : Nat → Nat} (hf : XorAdd f) : f 0 = 0 := by
  have := hf 0 0; simp only [Nat.xor_self] at this; exact this

/-! ### linearity of the step -/

theorem step_xor (P a b : Nat) : step P (a ^^^ b) = step P a ^^^ step P b := by
  unfold step
  rw [Nat.testBit_xor, Nat.shiftRight_xor_distrib]
  cases a.testBit 0 <;> cases b.testBit 0 <;> simp
  · ac_rfl
  · ac_rfl
  · calc a >>> 1 ^^^ b >>> 1 = a >>> 1 ^^^ b >>> 1 ^^^ (P ^^^ P) := by simp
      _ = _ := by ac_rfl

theorem steps_xor (P : Nat) (n a b : Nat) : steps P n (a ^^^ b) = steps P n a ^^^ steps P n b := by
  induction n generalizing a b with
  | zero => rfl
  | succ n ih => simp only [steps, step_xor, ih]

theorem steps_xorAdd (P n : Nat) : XorAdd (steps P n) := fun a b => steps_xor P n a b

theorem steps_add (P m n r : Nat) : steps P (m + n) r = steps P n (steps P m r) := by
  induction m generalizing r with
  | zero => simp [steps]
  | succ m ih => rw [Nat.add_right_comm]; simp only [steps, ih]

theorem step_shl (P x : Nat) : step P (x <<< 1) = x := by
  unfold step
  have h0 : (x <<< 1).testBit 0 = false := by simp
  rw [h0]; simp [Nat.shiftLeft_eq, Nat.shiftRight_eq_div_pow]

theorem steps_shl (P n x : Nat) : steps P n (x <<< n) = x := by
  induction n generalizing x with
  | zero => simp [steps]
  | succ n ih =>
    have : x <<< (n + 1) = (x <<< n) <<< 1 := by rw [← Nat.shiftLeft_add]
    rw [steps, this, step_shl, ih]

theorem step_lt (P w r : Nat) (hP : P < 2 ^ w) (hr : r < 2 ^ w) : step P r < 2 ^ w := by
  have h1 : r >>> 1 < 2 ^ w := by
    rw [Nat.shiftRight_eq_div_pow]; exact Nat.lt_of_le_of_lt (Nat.div_le_self _ _) hr
  unfold step; split
  · exact Nat.xor_lt_two_pow h1 hP
  · exact h1

theorem steps_lt (P w n r : Nat) (hP : P < 2 ^ w) (hr : r < 2 ^ w) : steps P n r < 2 ^ w := by
  induction n generalizing r with
  | zero => exact hr
  | succ n ih => exact ih _ (step_lt P w r hP hr)

/-! ### splitting a word -/

theorem split_low (x k : Nat) : x = (x % 2 ^ k) ^^^ ((x >>> k) <<< k) := by
  apply Nat.eq_of_testBit_eq; intro i
  rw [Nat.testBit_xor, Nat.testBit_mod_two_pow, Nat.testBit_shiftLeft, Nat.testBit_shiftRight]
  by_cases h : i < k
  · have : ¬ i ≥ k := by omega
    simp [h, this]
  · have h' : i ≥ k := by omega
    have : k + (i - k) = i := by omega
    simp [h, h', this]

/-- k steps after xoring in a value whose low k bits are the only ones below bit k: the high part just shifts down -/
theorem steps_split (P k x : Nat) : steps P k x = steps P k (x % 2 ^ k) ^^^ (x >>> k) := by
  conv => lhs; rw [split_low x k]
  rw [steps_xor, steps_shl]

/-! ### the bit-serial spec, a word at a time -/

theorem bitIn_eq (P r : Nat) (m : Bool) : bitIn P r m = step P (r ^^^ m.toNat) := by
  unfold bitIn step
  have : (r ^^^ m.toNat).testBit 0 = (r.testBit 0 != m) := by
    rw [Nat.testBit_xor]; cases m <;> simp
  have h2 : (r ^^^ m.toNat) >>> 1 = r >>> 1 := by
    rw [Nat.shiftRight_xor_distrib]; cases m <;> simp
  simp only [this, h2]

/-- feeding the n low bits of b (lsb first) = xor b in, then n steps -/
theorem foldl_bits (P n : Nat) : ∀ (r b : Nat), b < 2 ^ n →
    ((List.range n).map b.testBit).foldl (bitIn P) r = steps P n (r ^^^ b) := by
  induction n with
  | zero => intro r b hb; have : b = 0 := by omega
            subst this; simp [steps]
  | succ n ih =>
    intro r b hb
    rw [List.range_succ_eq_map, List.map_cons, List.map_map, List.foldl_cons]
    have hfun : (b.testBit ∘ Nat.succ) = (b / 2).testBit := by
      funext i; simp [Nat.testBit_succ]
    rw [hfun, ih _ _ (by omega), bitIn_eq, steps]
    have hb0 : (b.testBit 0).toNat = b % 2 := by
      rw [Nat.testBit_zero]; by_cases h : b % 2 = 1 <;> simp [h]; omega
    have hsplit : b = (b % 2) ^^^ ((b / 2) <<< 1) := by
      have := split_low b 1
      simpa [Nat.shiftRight_eq_div_pow] using this
    conv => rhs; rw [hsplit]
    rw [← Nat.xor_assoc, step_xor P (r ^^^ b % 2), step_shl, hb0]

theorem register_nil (P r : Nat) : register P r [] = r := rfl

theorem register_cons (P r b : Nat) (bs : List Nat) (hb : b < 256) :
    register P r (b :: bs) = register P (steps P 8 (r ^^^ b)) bs := by
  unfold register msgBits
  rw [List.flatMap_cons, List.foldl_append]
  unfold byteBits
  rw [foldl_bits P 8 r b (by omega)]

theorem register_append (P r : Nat) (l₁ l₂ : List Nat) :
    register P r (l₁ ++ l₂) = register P (register P r l₁) l₂ := by
  unfold register msgBits
  rw [List.flatMap_append, List.foldl_append]

/-- the little-endian bytes of a k-byte word X fed from register r: xor X in, then 8k steps -/
theorem register_leBytes (P : Nat) (leBytes : Nat → Nat → List Nat)
    (h0 : ∀ n, leBytes 0 n = [])
    (hs : ∀ k n, leBytes (k + 1) n = (n % 256) :: leBytes k (n / 256)) :
    ∀ (k r X : Nat), X < 2 ^ (8 * k) → register P r (leBytes k X) = steps P (8 * k) (r ^^^ X) := by
  intro k
  induction k with
  | zero => intro r X hX; have : X = 0 := by omega
            subst this; simp [h0, register_nil, steps]
  | succ k ih =>
    intro r X hX
    have hX' : X / 256 < 2 ^ (8 * k) := by
      have : (2:Nat) ^ (8 * (k + 1)) = 256 * 2 ^ (8 * k) := by
        rw [Nat.mul_add, Nat.pow_add, Nat.mul_comm]
      rw [this] at hX
      exact Nat.div_lt_of_lt_mul hX
    rw [hs, register_cons P r _ _ (Nat.mod_lt _ (by decide)), ih _ _ hX']
    have h8 : 8 * (k + 1) = 8 + 8 * k := by omega
    rw [h8, steps_add]
    congr 1
    have hsplit := split_low X 8
    have e1 : (2:Nat) ^ 8 = 256 := rfl
    rw [e1, Nat.shiftRight_eq_div_pow, e1] at hsplit
    conv => rhs; rw [hsplit]
    rw [← Nat.xor_assoc, steps_xor P 8 (r ^^^ X % 256), steps_shl]

end Proofs.Lemmas.CrcLin
