/-
  BLAKE end to end, last step: the blocks `Blakepadding.iterblocks` yields, read as big-endian words and compressed with
  the counters observed at the yields, are the submission's  M[0:L] ‖ 1 ‖ 0…0 ‖ marker ‖ ⟨L⟩  cut into 16-word blocks with
  the submission's counters.  Uses property C09 (`blocks_concat`, `blocks_bytes`, `bitcnt_at_yield` for the `blake`
  scheme) and the bit/byte bridge lemmas of Proofs/Lemmas/Padding*.
-/
import Proofs.Lemmas.BlakeEnd
import Proofs.C09
namespace Proofs.Lemmas.BlakeFull
open Model Model.Py Spec.Padding Proofs.Lemmas.Padding Proofs.Lemmas.BlakeEnd

/-! ### `Spec.Blake.chunk` -/

theorem chunk_go_blocks {α} (r : Nat) (hr : 0 < r) :
    ∀ (bs : List (List α)) (fuel : Nat), (∀ b ∈ bs, b.length = r) → bs.flatten.length ≤ fuel →
      Spec.Blake.chunk.go r bs.flatten fuel = bs := by
  intro bs
  induction bs with
  | nil => intro fuel _ _; cases fuel <;> simp [Spec.Blake.chunk.go]
  | cons b bs ih =>
    intro fuel hb hf
    have hbl : b.length = r := hb b (by simp)
    cases fuel with
    | zero => rw [List.flatten_cons, List.length_append] at hf; omega
    | succ fuel =>
      have hne : (b ++ bs.flatten).isEmpty = false := by
        cases b with
        | nil => simp at hbl; omega
        | cons x xs => rfl
      simp only [List.flatten_cons, Spec.Blake.chunk.go, hne, Bool.false_eq_true, if_false]
      rw [List.take_left' hbl, List.drop_left' hbl]
      rw [ih fuel (fun x hx => hb x (List.mem_cons_of_mem _ hx)) (by rw [List.flatten_cons, List.length_append] at hf; omega)]

/-- cutting a concatenation of r-element blocks into r-element pieces gives the blocks back -/
theorem chunk_blocks {α} (r : Nat) (hr : 0 < r) (bs : List (List α)) (hb : ∀ b ∈ bs, b.length = r) :
    Spec.Blake.chunk r bs.flatten = bs :=
  chunk_go_blocks r hr bs _ hb (Nat.le_refl _)

theorem chunk_go_fuel {α} (k : Nat) (hk : 0 < k) (fuel fuel' : Nat) (l : List α) (h : l.length ≤ fuel)
    (h' : l.length ≤ fuel') : Spec.Blake.chunk.go k l fuel = Spec.Blake.chunk.go k l fuel' := by
  induction fuel generalizing l fuel' with
  | zero =>
    have : l = [] := List.eq_nil_of_length_eq_zero (by omega)
    subst this
    cases fuel' <;> rfl
  | succ f ih =>
    cases l with
    | nil => cases fuel' <;> rfl
    | cons a t =>
      cases fuel' with
      | zero => simp at h'
      | succ f' =>
        simp only [Spec.Blake.chunk.go, List.isEmpty_cons, Bool.false_eq_true, ↓reduceIte]
        congr 1
        simp only [List.length_cons] at h h'
        apply ih <;> (simp only [List.length_drop, List.length_cons]; omega)

theorem chunk_nil {α} (k : Nat) : Spec.Blake.chunk k ([] : List α) = [] := rfl

theorem chunk_cons {α} (k : Nat) (hk : 0 < k) (l : List α) (h : l ≠ []) :
    Spec.Blake.chunk k l = l.take k :: Spec.Blake.chunk k (l.drop k) := by
  unfold Spec.Blake.chunk
  cases l with
  | nil => exact absurd rfl h
  | cons a t =>
    simp only [List.length_cons, Spec.Blake.chunk.go, List.isEmpty_cons, Bool.false_eq_true, ↓reduceIte]
    congr 1
    exact chunk_go_fuel k hk _ _ _ (by simp only [List.length_drop, List.length_cons]; omega) (Nat.le_refl _)

/-! ### a big-endian word read from bits = read from bytes -/

theorem bitsVal_acc (l : List Bool) : ∀ acc : Nat,
    l.foldl (fun a (b : Bool) => 2 * a + b.toNat) acc = acc * 2 ^ l.length + Spec.Blake.bitsVal l := by
  unfold Spec.Blake.bitsVal
  induction l with
  | nil => intro acc; simp
  | cons x xs ih =>
    intro acc
    simp only [List.foldl_cons, List.length_cons]
    rw [ih (2 * acc + x.toNat), ih (2 * 0 + x.toNat), Nat.pow_succ]
    simp only [Nat.mul_zero, Nat.zero_add, Nat.add_mul]
    rw [Nat.mul_comm 2 acc, Nat.mul_assoc, Nat.mul_comm 2 (2 ^ xs.length), Nat.add_assoc]

theorem bitsVal_byteBits : ∀ b < 256, Spec.Blake.bitsVal (byteBits b) = b := by decide +kernel

theorem beInt_acc (l : List Nat) : ∀ acc : Nat,
    l.foldl (fun a b => a * 256 + b) acc = acc * 256 ^ l.length + Py.beInt l := by
  unfold Py.beInt
  induction l with
  | nil => intro acc; simp
  | cons x xs ih =>
    intro acc
    simp only [List.foldl_cons, List.length_cons]
    rw [ih (acc * 256 + x), ih (0 * 256 + x), Nat.pow_succ]
    simp only [Nat.zero_mul, Nat.zero_add, Nat.add_mul]
    rw [Nat.mul_assoc, Nat.mul_comm 256 (256 ^ xs.length), Nat.add_assoc]

theorem bitsVal_bytesToBits (g : List Nat) (hg : Bytes g) : Spec.Blake.bitsVal (bytesToBits g) = Py.beInt g := by
  induction g with
  | nil => rfl
  | cons b g ih =>
    have hb : b < 256 := hg b (by simp)
    have hg' : Bytes g := fun x hx => hg x (List.mem_cons_of_mem _ hx)
    rw [bytesToBits_cons]
    show (byteBits b ++ bytesToBits g).foldl _ 0 = (b :: g).foldl _ 0
    rw [List.foldl_append, List.foldl_cons]
    have h1 : (byteBits b).foldl (fun a (b : Bool) => 2 * a + b.toNat) 0 = b := bitsVal_byteBits b hb
    rw [h1, bitsVal_acc, beInt_acc, ih hg']
    have : (2 : Nat) ^ (bytesToBits g).length = 256 ^ g.length := by
      have hl : (bytesToBits g).length = 8 * g.length := by
        clear ih hg hg'
        induction g with
        | nil => rfl
        | cons a t iht => rw [bytesToBits_cons, List.length_append, byteBits_length, iht, List.length_cons]; omega
      rw [hl, Nat.pow_mul]
    rw [this]
    simp

theorem bytesToBits_eq_nil (l : List Nat) : bytesToBits l = [] ↔ l = [] := by
  cases l with
  | nil => simp [bytesToBits_nil]
  | cons a t =>
    rw [bytesToBits_cons]
    have := byteBits_length a
    constructor
    · intro h
      have h2 := congrArg List.length h
      rw [List.length_append, this] at h2
      simp at h2
    · intro h; cases h

/-- the words of a bit string that came from bytes: w-bit pieces read most significant bit first = (w/8)-byte pieces
    read most significant byte first -/
theorem words_of_bytes (k : Nat) (hk : 0 < k) : ∀ (n : Nat) (l : List Nat), l.length = n → Bytes l →
    (Spec.Blake.chunk (8 * k) (bytesToBits l)).map Spec.Blake.bitsVal = (Spec.Blake.chunk k l).map Py.beInt := by
  intro n
  induction n using Nat.strongRecOn with
  | _ n ih =>
    intro l hn hl
    by_cases hnil : l = []
    · subst hnil; rfl
    · have hnb : bytesToBits l ≠ [] := fun h => hnil ((bytesToBits_eq_nil l).1 h)
      rw [chunk_cons k hk l hnil, chunk_cons (8 * k) (by omega) _ hnb, List.map_cons, List.map_cons,
        ← bytesToBits_take, ← bytesToBits_drop, bitsVal_bytesToBits _ (Bytes_take hl k)]
      congr 1
      have hpos : 0 < l.length := List.length_pos_iff.mpr hnil
      exact ih (l.drop k).length (by rw [List.length_drop]; omega) (l.drop k) rfl (Bytes_drop hl k)

theorem blockWords_bytes (V : Spec.Blake.Variant) (hw : V.w = 32 ∨ V.w = 64) (blk : List Nat) (hb : Bytes blk) :
    Spec.Blake.blockWords V (bytesToBits blk) = beWords V blk := by
  have hk : 0 < V.w / 8 := by rcases hw with h | h <;> rw [h] <;> decide
  have h8 : V.w = 8 * (V.w / 8) := by rcases hw with h | h <;> rw [h]
  have := words_of_bytes (V.w / 8) hk _ blk rfl hb
  rw [← h8] at this
  unfold Spec.Blake.blockWords beWords
  have e1 : (fun b => BitVec.ofNat V.w (Spec.Blake.bitsVal b)) = (BitVec.ofNat V.w) ∘ Spec.Blake.bitsVal := rfl
  have e2 : (fun g => BitVec.ofNat V.w (Py.beInt g)) = (BitVec.ofNat V.w) ∘ Py.beInt := rfl
  rw [e1, e2, ← List.map_map, ← List.map_map, this]

/-! ### the padded bit string -/

theorem bytesToBits_flatten (Y : List (List Nat)) : bytesToBits Y.flatten = (Y.map bytesToBits).flatten := by
  induction Y with
  | nil => rfl
  | cons a t ih => rw [List.flatten_cons, bytesToBits_append, ih, List.map_cons, List.flatten_cons]

theorem bytesToBits_length (l : List Nat) : (bytesToBits l).length = 8 * l.length := by
  induction l with
  | nil => rfl
  | cons a t ih => rw [bytesToBits_cons, List.length_append, byteBits_length, ih, List.length_cons]; omega

theorem msgBits_eq (M : List Nat) (L : Nat) : Spec.Blake.msgBits M L = takeBits L M := rfl

theorem natBits_eq (k n : Nat) : Spec.Blake.natBits k n = lenBE k n := rfl

/-- the padded message of the BLAKE submission (`Spec.Blake.padding`) is the `blake` scheme of Spec.Padding -/
theorem padding_eq {c V} (hp : Pair c V) (bits : List Bool) :
    bits ++ Spec.Blake.padding V bits.length = Spec.Padding.pad (.blake c.size) (Padder.blakeP c.size).blocksize bits := by
  rcases hp with ⟨rfl, rfl⟩ | ⟨rfl, rfl⟩ | ⟨rfl, rfl⟩ | ⟨rfl, rfl⟩ <;>
    simp [Spec.Blake.padding, Spec.Padding.pad, blakePad, natBits_eq, zeros, fill, blakeB, blakeW,
      Spec.Blake.Variant.block, Spec.Blake.blake224, Spec.Blake.blake256, Spec.Blake.blake384, Spec.Blake.blake512,
      Blake.blake224, Blake.blake256, Blake.blake384, Blake.blake512]

theorem pad_length_mod8 {c V} (hp : Pair c V) (bits : List Bool) :
    (Spec.Padding.pad (.blake c.size) (Padder.blakeP c.size).blocksize bits).length % 8 = 0 := by
  rcases hp with ⟨rfl, rfl⟩ | ⟨rfl, rfl⟩ | ⟨rfl, rfl⟩ | ⟨rfl, rfl⟩ <;>
    (simp [Spec.Padding.pad, blakePad, zeros, fill, blakeB, blakeW, lenBE,
      Blake.blake224, Blake.blake256, Blake.blake384, Blake.blake512]; omega)

theorem valid_blakeP {c V} (hp : Pair c V) : Valid (Padder.blakeP c.size) := by
  rcases hp with ⟨rfl, rfl⟩ | ⟨rfl, rfl⟩ | ⟨rfl, rfl⟩ | ⟨rfl, rfl⟩ <;> exact ⟨by decide, by decide, rfl⟩

theorem block_eq {c V} (hp : Pair c V) : (Padder.blakeP c.size).blocksize = V.block := by
  rcases hp with ⟨rfl, rfl⟩ | ⟨rfl, rfl⟩ | ⟨rfl, rfl⟩ | ⟨rfl, rfl⟩ <;> rfl

/-- the pad bits `lastblock` appends for the `blake` scheme after `done + k·B` counted bits and r bits in the last piece
    are the submission's padding of a message of done + k·B + r bits (done a whole number of blocks) -/
theorem tail_eq {c V} (hp : Pair c V) (done k r : Nat) (hd : done % (Padder.blakeP c.size).blocksize = 0)
    (hr : r ≤ (Padder.blakeP c.size).blocksize) :
    modelTail (Padder.blakeP c.size) (done + k * (Padder.blakeP c.size).blocksize) r
      = Spec.Blake.padding V (done + (k * (Padder.blakeP c.size).blocksize + r)) := by
  rcases hp with ⟨rfl, rfl⟩ | ⟨rfl, rfl⟩ | ⟨rfl, rfl⟩ | ⟨rfl, rfl⟩ <;>
    (simp only [modelTail, Padder.blakeP, Padder.blakeW, Spec.Blake.padding, natBits_eq, zeros, mdN,
      Spec.Blake.Variant.block, Spec.Blake.blake224, Spec.Blake.blake256, Spec.Blake.blake384, Spec.Blake.blake512,
      Blake.blake224, Blake.blake256, Blake.blake384, Blake.blake512, gt_iff_lt, Nat.reduceLT, Nat.reduceMul,
      ↓reduceIte] at hd hr ⊢
     simp only [Nat.add_assoc, List.cons_append, List.nil_append, List.append_assoc]
     congr 2
     congr 1
     split <;> omega)

/-- the fold of the submission's compression function over the blocks yielded by a final call on an object that has
    absorbed `st.bitcnt` bits (whole blocks) is the submission's `finish` continued from there on the first L bits of
    the message, for every chain value and salt -/
theorem fold_eq_finish_from {c V} (hp : Pair c V) (st : PadState) (hpf : st.padflag = false)
    (hdone : st.bitcnt % (Padder.blakeP c.size).blocksize = 0) (M : List Nat) (hM : Bytes M) (bitlen : Option Nat)
    (hL : bitlen.getD (8 * M.length) ≤ 8 * M.length) (H s : List (BitVec V.w)) :
    ((Padder.blakeP c.size).iterblocks st M bitlen true).yields.foldl
        (fun h (y : List Nat × PadState) => Spec.Blake.compress V h (beWords V y.1) s y.2.bitcnt) H
      = Spec.Blake.finish V H s st.bitcnt (Spec.Blake.msgBits M (bitlen.getD (8 * M.length))) := by
  obtain ⟨hw, hgeo, hbl, hsz, _⟩ := pair_geo hp
  have hv := valid_blakeP hp
  have hL' : effLen M bitlen ≤ 8 * M.length := hL
  have hbg : bitlen ≠ none → BitGranular (Padder.blakeP c.size).scheme := fun _ => trivial
  obtain ⟨_, hcat, _⟩ := run_facts _ hv st hpf M hM bitlen hL' hbg
  have hbytes := Proofs.C09.blocks_bytes _ hv st hpf M hM bitlen hL' hbg
  have hcnt := Proofs.C09.bitcnt_at_yield _ hv st hpf M hM bitlen hL' hbg
  have hlen : ∀ y ∈ ((Padder.blakeP c.size).iterblocks st M bitlen true).yields,
      y.1.length = (Padder.blakeP c.size).blocksize / 8 :=
    BlakeTrace.blake_yields_blocklen c.size (Padder.blakeP c.size).blocksize (Padder.blakeW c.size) hgeo rfl st hpf M bitlen _ rfl hL
  generalize hys : ((Padder.blakeP c.size).iterblocks st M bitlen true).yields = ys at hcat hbytes hcnt hlen ⊢
  obtain ⟨e, h1, h2, h3, h4, h5, h6⟩ := piece_facts (Padder.blakeP c.size) hv M _ hL'
  -- the bit string
  have hbitsLen : (Spec.Blake.msgBits M (bitlen.getD (8 * M.length))).length = bitlen.getD (8 * M.length) := by
    rw [msgBits_eq, takeBits, List.length_take, bytesToBits_length]
    exact Nat.min_eq_left hL
  have hLsplit : effLen M bitlen = kOf (Padder.blakeP c.size) M bitlen * (Padder.blakeP c.size).blocksize
      + rOf (Padder.blakeP c.size) M bitlen := by simp only [rOf, kOf]; omega
  have hcat2 : (ys.map (·.1)).flatten = bitsToBytes (Spec.Blake.msgBits M (bitlen.getD (8 * M.length))
      ++ Spec.Blake.padding V (st.bitcnt + bitlen.getD (8 * M.length))) := by
    have hsplit := takeBits_split (Padder.blakeP c.size) hv M _ hL'
    have ht := tail_eq hp st.bitcnt (kOf (Padder.blakeP c.size) M bitlen) (rOf (Padder.blakeP c.size) M bitlen) hdone h2
    rw [← hLsplit] at ht
    rw [hcat, msgBits_eq]
    show _ = bitsToBytes (takeBits (effLen M bitlen) M ++ Spec.Blake.padding V (st.bitcnt + effLen M bitlen))
    rw [← ht, hsplit, List.append_assoc, bitsToBytes_bytesToBits_append _ (Bytes_take hM _)]
    rfl
  have hmod8 : (Spec.Blake.msgBits M (bitlen.getD (8 * M.length))
      ++ Spec.Blake.padding V (st.bitcnt + bitlen.getD (8 * M.length))).length % 8 = 0 := by
    have hb8 : 8 * (ys.map (·.1)).flatten.length % 8 = 0 := Nat.mul_mod_right _ _
    rw [List.length_append, hbitsLen]
    have hd' := hdone
    clear hcat hcat2 hbytes hcnt hlen hys
    rcases hp with ⟨rfl, rfl⟩ | ⟨rfl, rfl⟩ | ⟨rfl, rfl⟩ | ⟨rfl, rfl⟩ <;>
      (simp [Spec.Blake.padding, Spec.Blake.natBits, Spec.Blake.Variant.block, Spec.Blake.blake224, Spec.Blake.blake256,
        Spec.Blake.blake384, Spec.Blake.blake512, Padder.blakeP, Blake.blake224, Blake.blake256, Blake.blake384,
        Blake.blake512] at hd' ⊢
       omega)
  have hX : Spec.Blake.msgBits M (bitlen.getD (8 * M.length)) ++ Spec.Blake.padding V (st.bitcnt + bitlen.getD (8 * M.length))
      = ((ys.map (·.1)).map bytesToBits).flatten := by
    rw [← bytesToBits_flatten, hcat2, bytesToBits_bitsToBytes _ hmod8]
  have hBpos : 0 < V.block := by rw [← block_eq hp]; exact hv.pos
  have hchunk : Spec.Blake.chunk V.block (((ys.map (·.1)).map bytesToBits).flatten) = (ys.map (·.1)).map bytesToBits := by
    apply chunk_blocks _ hBpos
    intro b hb
    simp only [List.map_map, List.mem_map] at hb
    obtain ⟨y, hy, rfl⟩ := hb
    show (bytesToBits y.1).length = _
    rw [bytesToBits_length, hlen y hy, ← block_eq hp]
    have := hv.mul8
    omega
  unfold Spec.Blake.finish
  simp only [hbitsLen]
  rw [hX, hchunk]
  -- both folds run over the same list of (words, counter) pairs
  have e1 : ∀ (l : List (List Nat × PadState)),
      l.foldl (fun h (y : List Nat × PadState) => Spec.Blake.compress V h (beWords V y.1) s y.2.bitcnt) H
      = (l.map fun y => (beWords V y.1, y.2.bitcnt)).foldl (fun h (p : List (BitVec V.w) × Nat) => Spec.Blake.compress V h p.1 s p.2) H := by
    intro l; rw [List.foldl_map]
  have e2 : ∀ (l : List (List Bool × Nat)),
      l.foldl (fun h (bi : List Bool × Nat) => Spec.Blake.compress V h (Spec.Blake.blockWords V bi.1) s
        (Spec.Blake.counter V st.bitcnt (bitlen.getD (8 * M.length)) bi.2)) H
      = (l.map fun bi => (Spec.Blake.blockWords V bi.1, Spec.Blake.counter V st.bitcnt (bitlen.getD (8 * M.length)) bi.2)).foldl
          (fun h (p : List (BitVec V.w) × Nat) => Spec.Blake.compress V h p.1 s p.2) H := by
    intro l; rw [List.foldl_map]
  rw [e1, e2]
  congr 1
  apply List.ext_getElem
  · simp
  · intro i h1 h2
    simp only [List.length_map] at h1
    simp only [List.getElem_map, List.getElem_zipIdx, Nat.zero_add]
    have hy : ys[i] ∈ ys := List.getElem_mem _
    have hB : Bytes ys[i].1 := by
      intro x hx
      apply hbytes x
      rw [List.mem_flatten]
      exact ⟨ys[i].1, List.mem_map.mpr ⟨ys[i], hy, rfl⟩, hx⟩
    rw [blockWords_bytes V hw _ hB]
    congr 1
    rw [hcnt i h1]
    simp only [Spec.Blake.counter, ← block_eq hp, effLen]
    rfl

/-- the one-shot case: a fresh object -/
theorem fold_eq_finish {c V} (hp : Pair c V) (M : List Nat) (hM : Bytes M) (bitlen : Option Nat)
    (hL : bitlen.getD (8 * M.length) ≤ 8 * M.length) (H s : List (BitVec V.w)) :
    ((Padder.blakeP c.size).iterblocks {} M bitlen true).yields.foldl
        (fun h (y : List Nat × PadState) => Spec.Blake.compress V h (beWords V y.1) s y.2.bitcnt) H
      = Spec.Blake.finish V H s 0 (Spec.Blake.msgBits M (bitlen.getD (8 * M.length))) :=
  fold_eq_finish_from hp {} rfl (Nat.zero_mod _) M hM bitlen hL H s

/-- a final `update(M,bitlen,padding=True)` on an object that holds the chain value `H` and salt words `sw` and has
    absorbed `st.bitcnt` bits (whole blocks, any number) returns the submission's output of `finish` continued from there -/
theorem blake_update_final {c V} (hp : Pair c V) (H sw : List (BitVec V.w)) (hH : H.length = 8) (hs : sw.length = 4)
    (st : PadState) (hpf : st.padflag = false) (hdone : st.bitcnt % (Padder.blakeP c.size).blocksize = 0)
    (M : List Nat) (hM : Bytes M) (bitlen : Option Nat) (hL : bitlen.getD (8 * M.length) ≤ 8 * M.length) :
    (Blake.update c ⟨H.map BlakeWords.ofBV, sw.map BlakeWords.ofBV, st⟩ M bitlen true).2
      = .ok (Spec.Blake.output V (Spec.Blake.finish V H sw st.bitcnt (Spec.Blake.msgBits M (bitlen.getD (8 * M.length))))) := by
  have hm := pair_match hp
  obtain ⟨hw, hgeo, hbl, hsz, _⟩ := pair_geo hp
  have hw8 : V.w % 8 = 0 := by rcases hw with h | h <;> rw [h]
  have hcore := BlakeTrace.blake_yields_core c.size (Padder.blakeP c.size).blocksize (Padder.blakeW c.size) hgeo rfl st hpf M bitlen _ rfl hL
  have hlen := BlakeTrace.blake_yields_blocklen c.size (Padder.blakeP c.size).blocksize (Padder.blakeW c.size) hgeo rfl st hpf M bitlen _ rfl hL
  unfold Blake.update
  simp only []
  have herr : ((Padder.blakeP c.size).iterblocks st M bitlen true).err = none := hcore.1
  rw [herr]
  simp only [hm.w]
  obtain ⟨hf, _⟩ := fold_refines hp sw hs
    ((Padder.blakeP c.size).iterblocks st M bitlen true).yields (fun y hy => by rw [← hbl]; exact hlen y hy) H hH
  rw [hf, digest_eq hm hw8, fold_eq_finish_from hp st hpf hdone M hM bitlen hL]

end Proofs.Lemmas.BlakeFull
