/-
  The regenerated DES tables (Model.Gen.Des, probed from the current source) equal the tables of FIPS 46-3
  (Spec.Des, typed from the standard) under the index translation: the code numbers bits from 0, the standard from 1.
  All by complete enumeration in the kernel.
-/
import Model.Des
import Spec.Des
namespace Proofs.DesTables
open Model

theorem ip_eq : Gen.Des.ip = Spec.Des.IP.map (· - 1) := by decide +kernel
theorem ipinv_eq : Gen.Des.ipinv = Spec.Des.IPinv.map (· - 1) := by decide +kernel
theorem pc1_eq : Gen.Des.pc1 = Spec.Des.PC1.map (· - 1) := by decide +kernel
theorem pc2_eq : Gen.Des.pc2 = Spec.Des.PC2.map (· - 1) := by decide +kernel
theorem e_eq : Gen.Des.e = Spec.Des.E.map (· - 1) := by decide +kernel
theorem p_eq : Gen.Des.p = Spec.Des.P.map (· - 1) := by decide +kernel
theorem shifts_eq : Gen.Des.shifts = Spec.Des.shifts := by decide +kernel

/-- the standard's tables are 1-based: no entry is 0 (so `· - 1` loses nothing) -/
theorem spec_tables_pos : (Spec.Des.IP ++ Spec.Des.IPinv ++ Spec.Des.PC1 ++ Spec.Des.PC2 ++ Spec.Des.E ++ Spec.Des.P).all (0 < ·) = true := by
  decide +kernel

def sboxChk : Bool := (List.range 8).all fun n => (List.range 64).all fun x =>
  (Gen.Des.sbox.getD n []).getD x 0 == ((Spec.Des.Sboxes.getD n []).getD (x / 16) []).getD (x % 16) 0

theorem sboxChk_true : sboxChk = true := by decide +kernel

/-- all 8×64 S-box entries: the code's flat row-major box `n` at `16·row+col` is the standard's `S_{n+1}` at (row, col) -/
theorem sbox_eq (n x : Nat) (hn : n < 8) (hx : x < 64) :
    (Gen.Des.sbox.getD n []).getD x 0 = ((Spec.Des.Sboxes.getD n []).getD (x / 16) []).getD (x % 16) 0 := by
  have h := sboxChk_true
  simp only [sboxChk, List.all_eq_true, List.mem_range, beq_iff_eq] at h
  exact h n hn x hx

/-- the probed bit selection of `subkey(·,r)` is PC2 after rotating both halves by the cumulative shift -/
def subkeySelChk : Bool := (List.range 16).all fun r =>
  Gen.Des.subkeySel.getD r [] ==
    Gen.Des.pc2.map fun j => if j < 28 then (j + Des.cumShift r) % 28 else 28 + (j - 28 + Des.cumShift r) % 28

theorem subkeySel_true : subkeySelChk = true := by decide +kernel

end Proofs.DesTables
