/-
  Bytes → Bits → words: `Bits(bytes,bitorder=1)`, `split(32)`, `pack`, as the little-endian words / bytes of the
  specifications.  Used by hash_refines, the key expansion and the end-to-end theorems.
-/
import Proofs.Lemmas.SalsaBytes
namespace Proofs.Lemmas.SalsaKey
open Model Proofs.Lemmas.StreamPoly Proofs.Lemmas.SalsaRounds Proofs.Lemmas.StreamEnc

def nat (l : List Byte) : List Nat := l.map BitVec.toNat

/-- little-endian value of a byte string -/
def leVal : List Byte → Nat
  | [] => 0
  | b :: bs => b.toNat + 256 * leVal bs

theorem chunks1 {α} (s : List α) : Py.chunks 1 s = s.map fun b => [b] := by
  induction s with
  | nil => exact chunks_nil 1
  | cons b t ih =>
    rw [chunks_cons 1 (by decide) (b :: t) (by simp)]
    simp [ih]

theorem groupsVal_bytes (s : List Byte) :
    Bits.groupsVal id 1 ((nat s).map fun b => [b]) = leVal s := by
  induction s with
  | nil => rfl
  | cons b t ih =>
    simp only [nat, List.map_cons, Bits.groupsVal, Bits.groupVal, List.foldl_cons, List.foldl_nil, id] at ih ⊢
    rw [ih]
    simp only [Nat.zero_shiftLeft, Nat.zero_or, Nat.mul_one, leVal]
    have hb := b.isLt
    rw [← Nat.shiftLeft_add_eq_or_of_lt (by simpa using hb), Nat.shiftLeft_eq]
    omega

/-- `Bits(bytes, bitorder=1)` -/
theorem ofBytes_le (s : List Byte) : Bits.ofBytes (nat s) none 1 = .ok ⟨leVal s, 8 * s.length⟩ := by
  unfold Bits.ofBytes Bits.load
  simp only [Int.reduceLT, ↓reduceIte, Int.reduceEq, Int.natAbs_one, Nat.mod_one, ne_eq, not_true_eq_false, bind_ok,
    pure, Except.pure, nat, List.length_map]
  rw [chunks1]
  have := groupsVal_bytes s
  simp only [nat] at this
  rw [this]

theorem leVal_lt (s : List Byte) : leVal s < 2 ^ (8 * s.length) := by
  induction s with
  | nil => simp [leVal]
  | cons b t ih =>
    simp only [leVal, List.length_cons]
    have hb := b.isLt
    have : 2 ^ (8 * (t.length + 1)) = 256 * 2 ^ (8 * t.length) := by
      rw [Nat.mul_add, Nat.pow_add]; simp [Nat.mul_comm]
    rw [this]
    omega

/-- word `j` of a Bits value: `b[32j:32j+32]` -/
theorem slice_word (x sz j : Nat) : (Bits.sliceFast ⟨x, sz⟩ (32 * j) (32 * j + 32)).ival = x / 2 ^ (32 * j) % 2 ^ 32 := by
  simp only [Bits.sliceFast, Bits.ofNatSz, Nat.and_two_pow_sub_one_eq_mod, Nat.shiftRight_eq_div_pow, Nat.add_sub_cancel_left]
  rw [Nat.pow_add, Nat.mod_mul_right_div_self, Nat.mod_mod]

/-- the words of a value, least significant first -/
def wordsOfNat (n x : Nat) : List Word := (List.range n).map fun j => BitVec.ofNat 32 (x / 2 ^ (32 * j))

theorem leVal4 (b0 b1 b2 b3 : Byte) (rest : List Byte) :
    leVal (b0 :: b1 :: b2 :: b3 :: rest) =
      (b0.toNat + 2 ^ 8 * b1.toNat + 2 ^ 16 * b2.toNat + 2 ^ 24 * b3.toNat) + 2 ^ 32 * leVal rest := by
  rw [leVal, leVal, leVal, leVal]; omega

theorem wordsOfNat_succ (n x : Nat) :
    wordsOfNat (n + 1) x = BitVec.ofNat 32 x :: wordsOfNat n (x / 2 ^ 32) := by
  unfold wordsOfNat
  rw [List.range_succ_eq_map]
  simp only [List.map_cons, Nat.mul_zero, Nat.pow_zero, Nat.div_one, List.map_map, List.cons.injEq, true_and]
  apply List.map_congr_left
  intro j _
  simp only [Function.comp]
  have : x / 2 ^ (32 * (j + 1)) = x / 2 ^ 32 / 2 ^ (32 * j) := by
    rw [Nat.div_div_eq_div_mul, ← Nat.pow_add]; congr 2; omega
  rw [← this]

/-- the words of the little-endian value of `4k` bytes are the specification's little-endian words -/
theorem words_leVal (k : Nat) (bs : List Byte) (h : bs.length = 4 * k) :
    wordsOfNat k (leVal bs) = Spec.Salsa20.words bs := by
  induction k generalizing bs with
  | zero =>
    have : bs = [] := List.eq_nil_of_length_eq_zero (by omega)
    subst this; rfl
  | succ k ih =>
    obtain ⟨b0, t0, rfl, h0⟩ := cons_of_len (n := 4 * k + 3) bs (by omega)
    obtain ⟨b1, t1, rfl, h1⟩ := cons_of_len (n := 4 * k + 2) t0 (by omega)
    obtain ⟨b2, t2, rfl, h2⟩ := cons_of_len (n := 4 * k + 1) t1 (by omega)
    obtain ⟨b3, t3, rfl, h3⟩ := cons_of_len (n := 4 * k) t2 (by omega)
    rw [wordsOfNat_succ, leVal4, Spec.Salsa20.words]
    have hw : b0.toNat + 2 ^ 8 * b1.toNat + 2 ^ 16 * b2.toNat + 2 ^ 24 * b3.toNat < 2 ^ 32 := by
      have := b0.isLt; have := b1.isLt; have := b2.isLt; have := b3.isLt; omega
    have hd : (b0.toNat + 2 ^ 8 * b1.toNat + 2 ^ 16 * b2.toNat + 2 ^ 24 * b3.toNat + 2 ^ 32 * leVal t3) / 2 ^ 32 = leVal t3 := by
      omega
    rw [hd, ih t3 h3]
    congr 1
    apply BitVec.eq_of_toNat_eq
    simp only [Spec.Salsa20.littleendian, BitVec.toNat_ofNat]
    omega


theorem ofList_ofBV {w} (ws : List (BitVec w)) : Poly.ofList (ws.map fun b => (b.toNat : Int)) w = ofBV ws := by
  unfold Poly.ofList ofBV
  simp only [↓reduceIte, List.map_map, Poly.mk.injEq, and_true]
  apply List.map_congr_left
  intro b _
  exact red_ofNat_toNat b

/-- `B.split(32)` for a Bits of `32n` bits -/
theorem split32 (x n : Nat) :
    (⟨x, 32 * n⟩ : Bits).split 32 false = .ok ((wordsOfNat n x).map fun w => (⟨w.toNat, 32⟩ : Bits)) := by
  unfold Bits.split
  have hn : (32 * n + 32 - 1) / 32 = n := by omega
  simp only [Nat.reduceEqDiff, ↓reduceIte, hn, Bool.false_eq_true]
  congr 1
  unfold wordsOfNat
  simp only [List.map_map]
  apply List.map_congr_left
  intro j hj
  have hj' : j < n := by simpa using hj
  have hmin : min (j * 32 + 32) (32 * n) = 32 * j + 32 := by omega
  simp only [Function.comp, hmin]
  have : j * 32 = 32 * j := by omega
  rw [this]
  have hs := slice_word x (32 * n) j
  have hsz : (Bits.sliceFast ⟨x, 32 * n⟩ (32 * j) (32 * j + 32)).size = 32 := by
    simp [Bits.sliceFast, Bits.ofNatSz]
  cases hb : Bits.sliceFast ⟨x, 32 * n⟩ (32 * j) (32 * j + 32) with
  | mk iv sz =>
    rw [hb] at hs hsz
    simp only at hs hsz
    rw [hs, hsz, BitVec.toNat_ofNat]

/-- `[x.int() for x in …]` -/
theorem ints32 (ws : List Word) :
    Salsa.bitsInts (ws.map fun w => (⟨w.toNat, 32⟩ : Bits)) = .ok (ws.map fun w => (w.toNat : Int)) := by
  unfold Salsa.bitsInts
  rw [List.mapM_map, mapM_congr_ok _ (fun w : Word => (w.toNat : Int))]
  intro w _
  simp only [Function.comp, Bits.toInt, Int.reduceNeg, Int.reduceEq, ↓reduceIte, Bits.mask, Nat.and_two_pow_sub_one_eq_mod,
    Nat.mod_eq_of_lt w.isLt]
  rfl

theorem pack_word (w : Word) :
    (Bits.ofInt (w.toNat : Int) (some 32)).pack false = (Spec.Salsa20.littleendianInv w).map BitVec.toNat := by
  have hw := w.isLt
  unfold Bits.pack Bits.ofInt Bits.ofNatSz
  have hr : List.range 4 = [0, 1, 2, 3] := by decide
  simp only [Int.natAbs_natCast, Nat.reduceAdd, Nat.reduceDiv, hr, List.map_cons, List.map_nil, Bool.false_eq_true, ↓reduceIte,
    Spec.Salsa20.littleendianInv, Bits.sliceFast, Bits.ofNatSz,
    Nat.and_two_pow_sub_one_eq_mod, Nat.shiftRight_eq_div_pow, BitVec.toNat_ofNat]
  have h255 : (0xff : Nat) = 2 ^ 8 - 1 := by decide
  simp only [h255, Nat.and_two_pow_sub_one_eq_mod]
  simp only [Nat.reduceMul, Nat.reduceAdd, Nat.reducePow, Nat.zero_add, Nat.min_def, Nat.reduceLeDiff, ↓reduceIte, Nat.reduceSub,
    List.cons.injEq, and_true] at *
  refine ⟨?_, ?_, ?_, ?_⟩ <;> omega

/-- `b''.join([pack(z) for z in Z])` -/
theorem pack_words (ws : List Word) :
    (((ofBV ws).ival.map fun z => (Bits.ofInt z (some 32)).pack).flatten) = nat (Spec.Salsa20.unwords ws) := by
  simp only [ofBV_ival, List.map_map, Spec.Salsa20.unwords, nat, List.flatMap_def, List.map_flatten]
  congr 1
  apply List.map_congr_left
  intro w _
  simp only [Function.comp, Int.ofNat_eq_natCast]
  exact pack_word w

/-- **hash**: `Salsa20().hash(m)` on 64 bytes, for any variant whose core refines `core` -/
theorem hash_words {V core} (hV : VariantSpec V core) (m : List Byte) (hm : m.length = 64) :
    Salsa.hash V (nat m) = .ok (nat (Spec.Salsa20.unwords (core 10 (Spec.Salsa20.words m)))) := by
  unfold Salsa.hash
  rw [ofBytes_le, bind_ok]
  have h512 : 8 * m.length = 32 * 16 := by omega
  rw [h512]
  rw [split32, bind_ok, ints32, bind_ok]
  simp only []
  rw [ofList_ofBV, words_leVal 16 m (by omega)]
  have hlen : (Spec.Salsa20.words m).length = 16 := by
    rw [← words_leVal 16 m (by omega)]; simp [wordsOfNat]
  rw [hV.hcore 10 _ hlen, bind_ok]
  simp only [pure, Except.pure]
  rw [pack_words]

end Proofs.Lemmas.SalsaKey
