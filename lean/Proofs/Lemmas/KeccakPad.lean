/-
  Lemmas for C04, part 3: the block iterator `Keccak.iterblocks` (byte-chunk reads, accumulate / truncate / yield
  loop, pad10*1 tail) yields exactly the r-bit pieces of  N ‖ pad10*1(r,|N|).
-/
import Proofs.Lemmas.KeccakBits
namespace Proofs.Lemmas.KeccakPad
open Model Model.Keccak Model.Py Proofs.Lemmas.KeccakBits

/-- every yielded block is a well-formed r-bit value -/
def Good (r : Nat) (out : List Bits) : Prop := ∀ P ∈ out, P.WF ∧ P.size = r

/-- all bits held so far: the yielded blocks followed by the buffer -/
def flat (out : List Bits) (Pb : Bits) : List Bool := (out.map bitsOf).flatten ++ bitsOf Pb

theorem Good_nil (r : Nat) : Good r [] := by intro P h; cases h

theorem Good_append {r : Nat} {a b : List Bits} (ha : Good r a) (hb : Good r b) : Good r (a ++ b) := by
  intro P h
  rcases List.mem_append.mp h with h | h
  · exact ha P h
  · exact hb P h

theorem flatten_length_of_Good {r : Nat} {out : List Bits} (h : Good r out) :
    ((out.map bitsOf).flatten).length = r * out.length := by
  induction out with
  | nil => simp
  | cons P ps ih =>
    have hP := h P (by simp)
    have hps : Good r ps := fun Q hQ => h Q (List.mem_cons_of_mem _ hQ)
    simp [ih hps, hP.2, Nat.mul_add]; omega

/-! ### the inner `while len(Pb)>=r` loop -/

theorem drain_spec (r : Nat) (hr : 0 < r) :
    ∀ (fuel : Nat) (Pb : Bits) (needed : Nat) (out : List Bits),
      Pb.WF → Pb.size ≤ fuel → Pb.size ≤ needed → Good r out →
      Good r (drain r fuel Pb needed out).2.2 ∧ (drain r fuel Pb needed out).1.WF ∧
      (drain r fuel Pb needed out).1.size < r ∧
      flat (drain r fuel Pb needed out).2.2 (drain r fuel Pb needed out).1 = flat out Pb ∧
      (drain r fuel Pb needed out).2.1 + r * (drain r fuel Pb needed out).2.2.length = needed + r * out.length := by
  intro fuel
  induction fuel with
  | zero =>
    intro Pb needed out hwf hf hn hg
    simp only [drain]
    exact ⟨hg, hwf, by omega, by first | rfl | trivial, by first | rfl | trivial⟩
  | succ fuel ih =>
    intro Pb needed out hwf hf hn hg
    simp only [drain]
    by_cases hge : Pb.size ≥ r
    · simp only [hge, if_true]
      have hblk : Good r (out ++ [sliceClip Pb 0 r]) := by
        apply Good_append hg
        intro P hP
        simp only [List.mem_singleton] at hP
        subst hP
        refine ⟨sliceClip_WF _ _ _, ?_⟩
        simp; omega
      have h := ih (sliceClip Pb r Pb.size) (needed - r) (out ++ [sliceClip Pb 0 r]) (sliceClip_WF _ _ _)
        (by simp; omega) (by simp; omega) hblk
      refine ⟨h.1, h.2.1, h.2.2.1, ?_, ?_⟩
      · rw [h.2.2.2.1]
        simp only [flat, List.map_append, List.map_cons, List.map_nil, List.flatten_append, List.flatten_cons,
          List.flatten_nil, List.append_nil, bitsOf_sliceClip, List.drop_zero, List.append_assoc]
        congr 1
        have : (bitsOf Pb).take Pb.size = bitsOf Pb := List.take_of_length_le (by simp)
        rw [this, List.take_append_drop]
      · rw [h.2.2.2.2]; simp only [List.length_append, List.length_cons, List.length_nil]
        rw [Nat.mul_add]; omega
    · simp only [hge, if_false]
      exact ⟨hg, hwf, by omega, by first | rfl | trivial, by first | rfl | trivial⟩

/-! ### one turn of the outer loop and the whole loop -/

/-- loop invariant after the bytes `pre` have been read (needed0 = the bit length to hash) -/
structure Inv (r needed0 : Nat) (pre : List Nat) (st : Loop) : Prop where
  good : Good r st.out
  wf : st.Pb.WF
  small : st.Pb.size < r
  cnt : st.needed + r * st.out.length = needed0
  bits : (st.consumed = true → flat st.out st.Pb = (Spec.Keccak.bitsOfBytes pre).take needed0 ∧ needed0 ≤ 8 * pre.length) ∧
         (st.consumed = false → flat st.out st.Pb = Spec.Keccak.bitsOfBytes pre ∧ (8 * pre.length < needed0 ∨ pre = []))

theorem bitsOfBytes_length (s : List Nat) : (Spec.Keccak.bitsOfBytes s).length = 8 * s.length := by
  induction s with
  | nil => rfl
  | cons b bs ih => simp [Spec.Keccak.bitsOfBytes] at ih ⊢; omega

theorem bitsOfBytes_append (a b : List Nat) :
    Spec.Keccak.bitsOfBytes (a ++ b) = Spec.Keccak.bitsOfBytes a ++ Spec.Keccak.bitsOfBytes b := by
  simp [Spec.Keccak.bitsOfBytes]

theorem flat_length {r : Nat} {out : List Bits} (h : Good r out) (Pb : Bits) :
    (flat out Pb).length = r * out.length + Pb.size := by
  simp [flat, flatten_length_of_Good h]

theorem loopStep_inv (r : Nat) (hr : 0 < r) (needed0 : Nat) (pre Pi : List Nat) (st : Loop)
    (hPi : ∀ b ∈ Pi, b < 256) (h : Inv r needed0 pre st) :
    Inv r needed0 (pre ++ Pi) (loopStep r st Pi) := by
  cases hc : st.consumed with
  | true =>
    have hb := h.bits.1 hc
    simp only [loopStep, hc, if_true]
    refine ⟨h.good, h.wf, h.small, h.cnt, ?_, ?_⟩
    · intro _
      refine ⟨?_, by simp; omega⟩
      rw [hb.1, bitsOfBytes_append, List.take_append_of_le_length (by rw [bitsOfBytes_length]; exact hb.2)]
    · intro hf; rw [hc] at hf; cases hf
  | false =>
    have hb := h.bits.2 hc
    have hcnt := h.cnt
    have hlen : 8 * pre.length = r * st.out.length + st.Pb.size := by
      rw [← flat_length h.good, hb.1, bitsOfBytes_length]
    have hcatbits : bitsOf (st.Pb.concat (bitsLE Pi)) = bitsOf st.Pb ++ Spec.Keccak.bitsOfBytes Pi := by
      rw [bitsOf_concat h.wf, bitsOf_bitsLE Pi hPi]
    have hcatsize : (st.Pb.concat (bitsLE Pi)).size = st.Pb.size + 8 * Pi.length := by
      simp [bitsLE_eq]
    have hflatall : (st.out.map bitsOf).flatten ++ (bitsOf st.Pb ++ Spec.Keccak.bitsOfBytes Pi)
        = Spec.Keccak.bitsOfBytes (pre ++ Pi) := by
      rw [bitsOfBytes_append, ← hb.1, flat, List.append_assoc]
    simp only [loopStep, hc, Bool.false_eq_true, if_false]
    by_cases hge : (st.Pb.concat (bitsLE Pi)).size ≥ st.needed
    · simp only [hge, if_true]
      have hd := drain_spec r hr ((st.Pb.concat (bitsLE Pi)).setSize st.needed).size
        ((st.Pb.concat (bitsLE Pi)).setSize st.needed) st.needed st.out (setSize_WF _ _) (Nat.le_refl _)
        (by simp) h.good
      refine ⟨hd.1, hd.2.1, hd.2.2.1, by rw [hd.2.2.2.2]; exact h.cnt, ?_, ?_⟩
      · intro _
        refine ⟨?_, ?_⟩
        · rw [hd.2.2.2.1, flat, bitsOf_setSize_le _ hge, hcatbits, ← hflatall, ← h.cnt,
            Nat.add_comm, ← flatten_length_of_Good h.good, List.take_length_add_append]
        · rw [hcatsize] at hge
          simp only [List.length_append]; omega
      · intro hf; cases hf
    · simp only [hge, if_false]
      have hd := drain_spec r hr (st.Pb.concat (bitsLE Pi)).size (st.Pb.concat (bitsLE Pi)) st.needed st.out
        (concat_WF _ _) (Nat.le_refl _) (by omega) h.good
      refine ⟨hd.1, hd.2.1, hd.2.2.1, by rw [hd.2.2.2.2]; exact h.cnt, ?_, ?_⟩
      · intro hf; cases hf
      · intro _
        refine ⟨by rw [hd.2.2.2.1, flat, hcatbits, hflatall], Or.inl ?_⟩
        rw [hcatsize] at hge
        simp only [List.length_append]; omega

theorem loop_inv (r : Nat) (hr : 0 < r) (needed0 : Nat) :
    ∀ (cs : List (List Nat)) (pre : List Nat) (st : Loop),
      (∀ c ∈ cs, ∀ b ∈ c, b < 256) → Inv r needed0 pre st →
      Inv r needed0 (pre ++ cs.flatten) (cs.foldl (loopStep r) st) := by
  intro cs
  induction cs with
  | nil => intro pre st _ h; simpa using h
  | cons c cs ih =>
    intro pre st hcs h
    have hc := hcs c (by simp)
    have := ih (pre ++ c) (loopStep r st c) (fun x hx => hcs x (List.mem_cons_of_mem _ hx))
      (loopStep_inv r hr needed0 pre c st hc h)
    simpa [List.append_assoc] using this

theorem init_inv (r : Nat) (hr : 0 < r) (needed0 : Nat) : Inv r needed0 [] { needed := needed0 } := by
  refine ⟨Good_nil r, by simp [Bits.WF], by simpa using hr, by simp, ?_, ?_⟩
  · intro h; cases h
  · intro _; exact ⟨by simp [flat, bitsOf, Spec.Keccak.bitsOfBytes], Or.inr rfl⟩

/-- after the loop: the yielded blocks and the buffer hold exactly the first `needed0` bits of the byte stream -/
theorem loop_final (r : Nat) (hr : 0 < r) (needed0 : Nat) (cs : List (List Nat))
    (hcs : ∀ c ∈ cs, ∀ b ∈ c, b < 256) (hn : needed0 ≤ 8 * cs.flatten.length) :
    let st := cs.foldl (loopStep r) { needed := needed0 }
    Good r st.out ∧ st.Pb.WF ∧ st.Pb.size < r ∧
      flat st.out st.Pb = (Spec.Keccak.bitsOfBytes cs.flatten).take needed0 := by
  have h := loop_inv r hr needed0 cs [] _ hcs (init_inv r hr needed0)
  simp only [List.nil_append] at h
  refine ⟨h.good, h.wf, h.small, ?_⟩
  cases hc : (cs.foldl (loopStep r) { needed := needed0 }).consumed with
  | true => exact (h.bits.1 hc).1
  | false =>
    have hb := h.bits.2 hc
    rw [hb.1]
    rcases hb.2 with hlt | he
    · omega
    · rw [he]; simp [Spec.Keccak.bitsOfBytes]


/-! ### byte-chunk reads -/

theorem chunks_go_flatten {α} (k : Nat) (hk : 0 < k) :
    ∀ (fuel : Nat) (l : List α), l.length ≤ fuel → (chunks.go k l fuel).flatten = l := by
  intro fuel
  induction fuel with
  | zero => intro l hl; have : l = [] := List.eq_nil_of_length_eq_zero (by omega); subst this; simp [chunks.go]
  | succ fuel ih =>
    intro l hl
    cases l with
    | nil => simp [chunks.go]
    | cons a as =>
      have : ((a :: as).drop k).length ≤ fuel := by simp only [List.length_drop, List.length_cons] at hl ⊢; omega
      simp only [chunks.go, List.isEmpty_cons, Bool.false_eq_true, if_false, List.flatten_cons, ih _ this,
        List.take_append_drop]

theorem chunks_flatten {α} (k : Nat) (hk : 0 < k) (l : List α) : (chunks k l).flatten = l := by
  have : k ≠ 0 := by omega
  simp only [chunks, this, if_false]
  exact chunks_go_flatten k hk _ l (Nat.le_refl _)

theorem mem_of_mem_chunks {α} (k : Nat) (hk : 0 < k) (l : List α) {c : List α} (hc : c ∈ chunks k l) {x : α}
    (hx : x ∈ c) : x ∈ l := by
  rw [← chunks_flatten k hk l]
  exact List.mem_flatten.mpr ⟨c, hc, hx⟩

/-! ### the closing pad10*1 statements -/

theorem ofNat_one : Bits.ofNat 1 = ⟨1, 1⟩ := by decide

theorem bitsOf_one : bitsOf (⟨1, 1⟩ : Bits) = [true] := by decide

theorem bitsOf_zeros (k : Nat) : bitsOf (Bits.ofNatSz 0 k) = List.replicate k false := by
  apply List.ext_getElem
  · simp [Bits.ofNatSz]
  · intro i h1 h2
    rw [bitsOf_getElem]; simp [Bits.ofNatSz]

theorem pad_zeros (r q m : Nat) (hq : q < r) (hm : m % r = q) :
    (r - (m + 2) % r) % r = if q + 1 = r then r - 1 else r - q - 2 := by
  have hm2 : (m + 2) % r = (q + 2) % r := by
    conv => lhs; rw [← Nat.div_add_mod m r, hm, Nat.add_assoc, Nat.mul_add_mod]
  rw [hm2]
  by_cases h1 : q + 1 = r
  · simp only [h1, if_true]
    have : q + 2 = r + 1 := by omega
    rw [this]
    by_cases hr1 : r = 1
    · subst hr1; simp
    · have : (r + 1) % r = 1 := by rw [Nat.add_mod_left]; exact Nat.mod_eq_of_lt (by omega)
      rw [this]; exact Nat.mod_eq_of_lt (by omega)
  · simp only [h1, if_false]
    by_cases h2 : q + 2 = r
    · rw [h2, Nat.mod_self]; simp; omega
    · rw [Nat.mod_eq_of_lt (by omega : q + 2 < r)]
      exact Nat.mod_eq_of_lt (by omega)

/-- the tail blocks are well-formed r-bit blocks holding  buffer ‖ pad10*1(r, m)  for every m ≡ |buffer| (mod r) -/
theorem padTail_spec (r : Nat) (hr : 0 < r) (Pb : Bits) (hwf : Pb.WF) (hs : Pb.size < r) (m : Nat)
    (hm : m % r = Pb.size) :
    Good r (padTail r Pb) ∧ ((padTail r Pb).map bitsOf).flatten = bitsOf Pb ++ Spec.Keccak.pad101 r m := by
  have hz := pad_zeros r Pb.size m hs hm
  simp only [padTail, ofNat_one]
  by_cases h1 : (Pb.concat ⟨1, 1⟩).size = r
  · have h1' : Pb.size + 1 = r := by simpa using h1
    simp only [h1, if_true, List.singleton_append]
    constructor
    · intro P hP
      simp only [List.mem_cons, List.not_mem_nil, or_false] at hP
      rcases hP with rfl | rfl
      · exact ⟨concat_WF _ _, h1⟩
      · refine ⟨concat_WF _ _, ?_⟩
        simp [Bits.ofNatSz]; omega
    · simp only [List.map_cons, List.map_nil, List.flatten_cons, List.flatten_nil, List.append_nil,
        bitsOf_concat hwf, bitsOf_concat (concat_WF _ _), bitsOf_one, Spec.Keccak.pad101, hz, h1',
        if_true]
      have : bitsOf ((⟨0, 0⟩ : Bits).concat (Bits.ofNatSz 0 (r - (⟨0, 0⟩ : Bits).size - 1)))
          = List.replicate (r - 1) false := by
        rw [bitsOf_concat (by simp [Bits.WF]), bitsOf_zeros]; simp [bitsOf]
      rw [this]; simp
  · have h1' : ¬ (Pb.size + 1 = r) := by simpa using h1
    have hsz : (Pb.concat ⟨1, 1⟩).size = Pb.size + 1 := by simp
    simp only [h1, if_false, List.nil_append]
    constructor
    · intro P hP
      simp only [List.mem_cons, List.not_mem_nil, or_false] at hP
      subst hP
      refine ⟨concat_WF _ _, ?_⟩
      simp [Bits.ofNatSz]; omega
    · simp only [List.map_cons, List.map_nil, List.flatten_cons, List.flatten_nil, List.append_nil,
        bitsOf_concat hwf, bitsOf_concat (concat_WF _ _), bitsOf_one, bitsOf_zeros, Spec.Keccak.pad101, hz, h1',
        if_false, hsz]
      simp [Nat.sub_sub]

/-! ### r-bit pieces of a concatenation of r-bit blocks -/

theorem chunksOf_go_blocks {α} (r : Nat) (hr : 0 < r) :
    ∀ (bs : List (List α)) (fuel : Nat), (∀ b ∈ bs, b.length = r) → bs.flatten.length ≤ fuel →
      Spec.Keccak.chunksOf.go r fuel bs.flatten = bs := by
  intro bs
  induction bs with
  | nil => intro fuel _ _; cases fuel <;> simp [Spec.Keccak.chunksOf.go]
  | cons b bs ih =>
    intro fuel hb hf
    have hbl : b.length = r := hb b (by simp)
    cases fuel with
    | zero => rw [List.flatten_cons, List.length_append] at hf; omega
    | succ fuel =>
      have hne : (b ++ bs.flatten).isEmpty = false := by
        cases b with
        | nil => simp at hbl; omega
        | cons x xs => rfl
      simp only [List.flatten_cons, Spec.Keccak.chunksOf.go, hne, Bool.false_eq_true, if_false]
      rw [List.take_left' hbl, List.drop_left' hbl]
      rw [ih fuel (fun x hx => hb x (List.mem_cons_of_mem _ hx)) (by rw [List.flatten_cons, List.length_append] at hf; omega)]

theorem chunksOf_blocks {α} (r : Nat) (hr : 0 < r) (bs : List (List α)) (hb : ∀ b ∈ bs, b.length = r) :
    Spec.Keccak.chunksOf r bs.flatten = bs :=
  chunksOf_go_blocks r hr bs _ hb (Nat.le_refl _)


/-! ### the loop and the tail together -/

theorem blocks_core (r : Nat) (hr : 0 < r) (br : Nat) (hbr : 0 < br) (M' : List Nat) (hM' : ∀ b ∈ M', b < 256)
    (needed : Nat) (hn : needed ≤ 8 * M'.length) :
    let st := (chunks br M').foldl (loopStep r) { needed := needed }
    let T := (Spec.Keccak.bitsOfBytes M').take needed
    Good r (st.out ++ padTail r st.Pb) ∧
      (st.out ++ padTail r st.Pb).map bitsOf = Spec.Keccak.chunksOf r (T ++ Spec.Keccak.pad101 r T.length) := by
  intro st T
  have hfl := chunks_flatten br hbr M'
  have hcs : ∀ c ∈ chunks br M', ∀ b ∈ c, b < 256 := fun c hc b hb => hM' b (mem_of_mem_chunks br hbr M' hc hb)
  have hfin := loop_final r hr needed (chunks br M') hcs (by rw [hfl]; exact hn)
  rw [hfl] at hfin
  obtain ⟨hgood, hwf, hsmall, hflat⟩ := hfin
  have hTlen : T.length = needed := by
    simp only [T, List.length_take, bitsOfBytes_length]; omega
  have hmod : T.length % r = st.Pb.size := by
    have h1 : (flat st.out st.Pb).length = needed := by rw [hflat]; exact hTlen
    rw [flat_length hgood] at h1
    rw [hTlen, ← h1, Nat.mul_add_mod]; exact Nat.mod_eq_of_lt hsmall
  obtain ⟨hgt, htail⟩ := padTail_spec r hr st.Pb hwf hsmall T.length hmod
  have hall : Good r (st.out ++ padTail r st.Pb) := Good_append hgood hgt
  refine ⟨hall, ?_⟩
  have hflatten : ((st.out ++ padTail r st.Pb).map bitsOf).flatten = T ++ Spec.Keccak.pad101 r T.length := by
    rw [List.map_append, List.flatten_append, htail, ← List.append_assoc]
    exact congrArg (· ++ Spec.Keccak.pad101 r T.length) hflat
  rw [← hflatten]
  refine (chunksOf_blocks r hr _ ?_).symm
  intro b hb
  obtain ⟨P, hP, rfl⟩ := List.mem_map.mp hb
  simp [(hall P hP).2]

/-! ### the NIST last-byte re-alignment -/

def realignOk (b k : Nat) : Bool :=
  match (do let x ← Bits.ofBytes [b] (some k) (-1); let rb ← x.getSlice none none (some (-1)); pure rb.ival : Except Err Nat) with
  | .ok v => v == b >>> (8 - k)
  | .error _ => false

theorem realign_enum : ∀ b < 256, ∀ k < 8, realignOk b k = true := by decide +kernel

theorem realign_nil :
    (do let x ← Bits.ofBytes [] (some 0) (-1); let rb ← x.getSlice none none (some (-1)); pure rb.ival : Except Err Nat)
      = .ok 0 := by rfl

theorem realign_spec (M : List Nat) (hM : ∀ b ∈ M, b < 256) (L : Nat) (hL : L ≤ 8 * M.length) :
    realign M L = .ok (M.getD (L / 8) 0 >>> (8 - L % 8)) := by
  unfold realign
  by_cases hlt : L / 8 < M.length
  · have hs : (M.drop (L / 8)).take 1 = [M[L / 8]] := by
      rw [List.drop_eq_getElem_cons hlt, List.take_succ_cons, List.take_zero]
    have hb : M[L / 8] < 256 := hM _ (List.getElem_mem hlt)
    have hk : L % 8 < 8 := Nat.mod_lt _ (by omega)
    have := realign_enum _ hb _ hk
    rw [hs]
    simp only [realignOk] at this
    have hg : M.getD (L / 8) 0 = M[L / 8] := by simp [List.getD_eq_getElem?_getD, hlt]
    rw [hg]
    split at this
    · rename_i v hv; rw [hv]; simp at this; rw [this]
    · cases this
  · have hs : (M.drop (L / 8)).take 1 = [] := by
      rw [List.drop_eq_nil_of_le (by omega)]; rfl
    have hk : L % 8 = 0 := by omega
    have hg : M.getD (L / 8) 0 = 0 := by simp [List.getD_eq_getElem?_getD, List.getElem?_eq_none (by omega : M.length ≤ L / 8)]
    rw [hs, hk, hg]
    simpa using realign_nil

/-- the re-aligned byte string holds the message bits of the NIST convention in its first L bits -/
theorem nist_bits (M : List Nat) (L : Nat) (hL : L ≤ 8 * M.length) :
    (Spec.Keccak.bitsOfBytes (M.take (L / 8) ++ [M.getD (L / 8) 0 >>> (8 - L % 8)])).take L
      = Spec.Keccak.msgBitsNIST M L := by
  have hlen : (Spec.Keccak.bitsOfBytes (M.take (L / 8))).length = 8 * (L / 8) := by
    rw [bitsOfBytes_length, List.length_take]; omega
  rw [bitsOfBytes_append, Spec.Keccak.msgBitsNIST, List.take_append, List.take_of_length_le (by rw [hlen]; omega), hlen]
  have : L - 8 * (L / 8) = L % 8 := by omega
  rw [this]
  congr 1
  simp only [Spec.Keccak.bitsOfBytes, List.flatMap_cons, List.flatMap_nil, List.append_nil, ← List.map_take,
    List.take_range]
  have : min (L % 8) 8 = L % 8 := by omega
  rw [this]


/-! ### `iterblocks` -/

/-- the message bits the sponge is specified on: `bitlen=None` means all 8|M| bits; native LSB-first order
    (`duplexing`) or the NIST convention for a final partial byte -/
def msgBits (lsb : Bool) (M : List Nat) (bitlen : Option Nat) : List Bool :=
  if lsb then Spec.Keccak.msgBitsLSB M (bitlen.getD (8 * M.length))
  else Spec.Keccak.msgBitsNIST M (bitlen.getD (8 * M.length))

theorem msgBits_none (lsb : Bool) (M : List Nat) : msgBits lsb M none = Spec.Keccak.bitsOfBytes M := by
  cases lsb
  · have h1 : 8 * M.length / 8 = M.length := by omega
    have h2 : 8 * M.length % 8 = 0 := by omega
    simp [msgBits, Spec.Keccak.msgBitsNIST, h1, h2]
  · simp [msgBits, Spec.Keccak.msgBitsLSB, List.take_of_length_le, bitsOfBytes_length]

theorem iterblocks_spec_aux (r : Nat) (hr : 0 < r) (lsb : Bool) (M : List Nat) (hM : ∀ b ∈ M, b < 256)
    (bitlen : Option Nat) (hL : ∀ L, bitlen = some L → L ≤ 8 * M.length) :
    ∃ blocks, iterblocks r lsb M bitlen = .ok blocks ∧ Good r blocks ∧
      blocks.map bitsOf = Spec.Keccak.chunksOf r
        (msgBits lsb M bitlen ++ Spec.Keccak.pad101 r (msgBits lsb M bitlen).length) := by
  have hr0 : r ≠ 0 := by omega
  have hbr : 0 < (if r / 8 = 0 then 1 else r / 8) := by split <;> omega
  cases bitlen with
  | none =>
    have h := blocks_core r hr _ hbr M hM (8 * M.length) (Nat.le_refl _)
    simp only at h
    rw [List.take_of_length_le (by rw [bitsOfBytes_length]; exact Nat.le_refl _)] at h
    refine ⟨_, ?_, h.1, ?_⟩
    · simp only [iterblocks, hr0, if_false]; rfl
    · rw [msgBits_none]; exact h.2
  | some L =>
    have hL' := hL L rfl
    have hnot : ¬ (L > 8 * M.length) := by omega
    cases lsb with
    | true =>
      have h := blocks_core r hr _ hbr M hM L hL'
      refine ⟨_, ?_, h.1, ?_⟩
      · simp only [iterblocks, hr0, hnot, if_false, if_true]; rfl
      · simpa [msgBits, Spec.Keccak.msgBitsLSB] using h.2
    | false =>
      have hv : M.getD (L / 8) 0 >>> (8 - L % 8) < 256 := by
        apply Nat.lt_of_le_of_lt (Nat.shiftRight_le _ _)
        rw [List.getD_eq_getElem?_getD]
        by_cases hlt : L / 8 < M.length
        · simp only [List.getElem?_eq_getElem hlt, Option.getD_some]; exact hM _ (List.getElem_mem hlt)
        · simp [List.getElem?_eq_none (by omega : M.length ≤ L / 8)]
      have hM' : ∀ b ∈ M.take (L / 8) ++ [M.getD (L / 8) 0 >>> (8 - L % 8)], b < 256 := by
        intro b hb
        rcases List.mem_append.mp hb with hb | hb
        · exact hM b (List.mem_of_mem_take hb)
        · simp only [List.mem_singleton] at hb; rw [hb]; exact hv
      have hn : L ≤ 8 * (M.take (L / 8) ++ [M.getD (L / 8) 0 >>> (8 - L % 8)]).length := by
        simp only [List.length_append, List.length_take, List.length_cons, List.length_nil]; omega
      have h := blocks_core r hr _ hbr _ hM' L hn
      simp only at h
      rw [nist_bits M L hL'] at h
      refine ⟨_, ?_, h.1, ?_⟩
      · simp only [iterblocks, hr0, hnot, if_false, realign_spec M hM L hL']; rfl
      · simpa [msgBits] using h.2

end Proofs.Lemmas.KeccakPad
