/-
  Lemmas for C17: the bit-stream view of byte strings.  `sbit s k` is bit k of the stream (bit 0 = most
  significant bit of the first byte).  `Bits(bytes)` (bitorder -1), `Bits.bytes()`, big-endian integers and the
  specification's `takeBits`/`zeroPad` are all characterised through it.
-/
import Model.Md6
import Spec.Md6
namespace Proofs.Lemmas.Md6Bits
open Model Model.Py

/-- bit k of the stream: bit (7 - k mod 8) of byte ⌊k/8⌋ -/
def sbit (s : List Nat) (k : Nat) : Bool := (s.getD (k / 8) 0).testBit (7 - k % 8)

def revChk : Bool := (List.range 256).all fun b =>
  Bits.reverseByte b < 256 && (List.range 8).all fun j => (Bits.reverseByte b).testBit j == b.testBit (7 - j)

theorem revChk_true : revChk = true := by decide +kernel

theorem reverseByte_lt (b : Nat) (hb : b < 256) : Bits.reverseByte b < 256 := by
  have h := revChk_true
  simp only [revChk, List.all_eq_true, List.mem_range, Bool.and_eq_true, decide_eq_true_eq] at h
  exact (h b hb).1

theorem reverseByte_testBit (b : Nat) (hb : b < 256) (j : Nat) (hj : j < 8) :
    (Bits.reverseByte b).testBit j = b.testBit (7 - j) := by
  have h := revChk_true
  simp only [revChk, List.all_eq_true, List.mem_range, Bool.and_eq_true, decide_eq_true_eq, beq_iff_eq] at h
  exact (h b hb).2 j hj

/-- two bytes with the same eight bits are equal -/
theorem byte_ext (a b : Nat) (ha : a < 256) (hb : b < 256) (h : ∀ j < 8, a.testBit j = b.testBit j) : a = b := by
  apply Nat.eq_of_testBit_eq
  intro i
  by_cases hi : i < 8
  · exact h i hi
  · have h8 : 2 ^ 8 ≤ 2 ^ i := Nat.pow_le_pow_right (by omega) (by omega)
    rw [Nat.testBit_lt_two_pow (Nat.lt_of_lt_of_le ha h8), Nat.testBit_lt_two_pow (Nat.lt_of_lt_of_le hb h8)]

/-- value of a byte string as `Bits.load` accumulates it (per-byte map f, groups of one byte) -/
def accVal (f : Nat → Nat) : List Nat → Nat
  | [] => 0
  | b :: bs => (accVal f bs <<< 8) ||| f b

/-- … for bitorder -1 -/
def bsVal (s : List Nat) : Nat := accVal Bits.reverseByte s

theorem bsVal_cons (b : Nat) (bs : List Nat) : bsVal (b :: bs) = (bsVal bs <<< 8) ||| Bits.reverseByte b := rfl
theorem bsVal_nil : bsVal [] = 0 := rfl

theorem chunks_go_one (s : List Nat) : chunks.go 1 s s.length = s.map (fun b => [b]) := by
  induction s with
  | nil => rfl
  | cons b bs ih => simp [chunks.go, ih]

theorem groupsVal_one (f : Nat → Nat) (s : List Nat) :
    Bits.groupsVal f 1 (s.map (fun b => [b])) = accVal f s := by
  induction s with
  | nil => rfl
  | cons b bs ih =>
    show (Bits.groupsVal f 1 (bs.map (fun b => [b])) <<< (8 * 1)) ||| ((0 <<< 8) ||| f b) = _
    rw [ih, Nat.zero_shiftLeft, Nat.zero_or]
    rfl

theorem load_neg1 (s : List Nat) : Bits.load s (-1) = .ok ⟨bsVal s, 8 * s.length⟩ := by
  unfold Bits.load
  simp [chunks, chunks_go_one, groupsVal_one, Nat.mod_one, bsVal]

theorem bsVal_lt (s : List Nat) (hs : ∀ x ∈ s, x < 256) : bsVal s < 2 ^ (8 * s.length) := by
  induction s with
  | nil => simp [bsVal_nil]
  | cons b bs ih =>
    have hb := reverseByte_lt b (hs b (by simp))
    have ih' := ih (fun x hx => hs x (by simp [hx]))
    simp only [bsVal_cons, List.length_cons]
    rw [← Nat.shiftLeft_add_eq_or_of_lt (show Bits.reverseByte b < 2 ^ 8 from hb), Nat.shiftLeft_eq]
    have : 2 ^ (8 * (bs.length + 1)) = 2 ^ (8 * bs.length) * 2 ^ 8 := by rw [← Nat.pow_add]; congr 1
    rw [this]
    have h1 : (bsVal bs + 1) * 2 ^ 8 ≤ 2 ^ (8 * bs.length) * 2 ^ 8 := Nat.mul_le_mul_right _ ih'
    omega

theorem bsVal_testBit (s : List Nat) (hs : ∀ x ∈ s, x < 256) (k : Nat) : (bsVal s).testBit k = sbit s k := by
  induction s generalizing k with
  | nil => simp [bsVal_nil, sbit]
  | cons b bs ih =>
    have hb := hs b (by simp)
    have ih' := ih (fun x hx => hs x (by simp [hx]))
    simp only [bsVal_cons, Nat.testBit_or, Nat.testBit_shiftLeft]
    by_cases hk : k < 8
    · have h1 : ¬ (8 ≤ k) := by omega
      have h2 : k / 8 = 0 := by omega
      have h3 : k % 8 = k := by omega
      simp [h1, reverseByte_testBit b hb k hk, sbit, h2, h3]
    · have h1 : 8 ≤ k := by omega
      have h2 : k / 8 = (k - 8) / 8 + 1 := by omega
      have h3 : k % 8 = (k - 8) % 8 := by omega
      have hr : (Bits.reverseByte b).testBit k = false :=
        Nat.testBit_lt_two_pow (Nat.lt_of_lt_of_le (reverseByte_lt b hb) (Nat.pow_le_pow_right (n := 2) (by omega) h1))
      simp [h1, hr, ih', sbit, h2, h3]

/-- two byte strings of the same length with the same stream bits are equal -/
theorem bytes_ext (l1 l2 : List Nat) (hlen : l1.length = l2.length) (h1 : ∀ x ∈ l1, x < 256) (h2 : ∀ x ∈ l2, x < 256)
    (h : ∀ k, k < 8 * l1.length → sbit l1 k = sbit l2 k) : l1 = l2 := by
  apply List.ext_getElem hlen
  intro i hi1 hi2
  apply byte_ext _ _ (h1 _ (List.getElem_mem hi1)) (h2 _ (List.getElem_mem hi2))
  intro j hj
  have := h (8 * i + (7 - j)) (by omega)
  simp only [sbit, show (8 * i + (7 - j)) / 8 = i by omega, show 7 - (8 * i + (7 - j)) % 8 = j by omega] at this
  simpa [List.getD_eq_getElem?_getD, List.getElem?_eq_getElem hi1, List.getElem?_eq_getElem hi2] using this

theorem toBytes_length (b : Bits) : b.toBytes.length = (b.size + 7) / 8 := by simp [Bits.toBytes]

theorem toBytes_lt (b : Bits) : ∀ x ∈ b.toBytes, x < 256 := by
  intro x hx
  simp only [Bits.toBytes, List.mem_map, List.mem_range] at hx
  obtain ⟨k, _, rfl⟩ := hx
  apply reverseByte_lt
  exact Nat.lt_of_le_of_lt Nat.and_le_right (by decide)

theorem mapBytes_sbit (f : Nat → Nat) (hf : ∀ y, y < 256 → ∀ j, j < 8 → (f y).testBit j = y.testBit (7 - j))
    (x n : Nat) (k : Nat) (hk : k < 8 * n) :
    sbit ((List.range n).map fun i => f ((x >>> (8 * i)) &&& 255)) k = x.testBit k := by
  have hi : k / 8 < n := by omega
  simp only [sbit, List.getD_eq_getElem?_getD, List.getElem?_map, List.getElem?_range hi, Option.map_some,
    Option.getD_some]
  have hy : (x >>> (8 * (k / 8))) &&& 255 < 256 := Nat.lt_of_le_of_lt Nat.and_le_right (by decide)
  rw [hf _ hy _ (by omega)]
  rw [Nat.testBit_and, Nat.testBit_shiftRight, show (255 : Nat) = 2 ^ 8 - 1 from rfl, Nat.testBit_two_pow_sub_one]
  have e1 : 7 - (7 - k % 8) = k % 8 := by omega
  have e2 : 8 * (k / 8) + k % 8 = k := by omega
  simp [e1, e2, Nat.mod_lt]

theorem toBytes_eq (x sz : Nat) (hx : x < 2 ^ sz) :
    Bits.toBytes ⟨x, sz⟩ = (List.range ((sz + 7) / 8)).map fun i => Bits.reverseByte ((x >>> (8 * i)) &&& 255) := by
  simp only [Bits.toBytes, Bits.mask]
  rw [Nat.and_two_pow_sub_one_eq_mod, Nat.mod_eq_of_lt hx]

theorem toBytes_sbit (x sz : Nat) (hx : x < 2 ^ sz) (k : Nat) (hk : k < 8 * ((sz + 7) / 8)) :
    sbit (Bits.toBytes ⟨x, sz⟩) k = x.testBit k := by
  rw [toBytes_eq x sz hx]
  exact mapBytes_sbit Bits.reverseByte reverseByte_testBit x _ k hk

theorem takeBits_length (m : Nat) (s : List Nat) (hm : m ≤ 8 * s.length) :
    (Spec.Md6.takeBits m s).length = (m + 7) / 8 := by
  unfold Spec.Md6.takeBits
  split
  · simp [List.length_take]; omega
  · simp [List.length_take]; omega

theorem takeBits_lt (m : Nat) (s : List Nat) (hs : ∀ x ∈ s, x < 256) : ∀ x ∈ Spec.Md6.takeBits m s, x < 256 := by
  intro x hx
  unfold Spec.Md6.takeBits at hx
  split at hx
  · exact hs x (List.mem_of_mem_take hx)
  · rcases List.mem_append.1 hx with h | h
    · exact hs x (List.mem_of_mem_take h)
    · simp only [List.mem_singleton] at h
      subst h
      have hb : s.getD (m / 8) 0 < 256 := by
        rw [List.getD_eq_getElem?_getD]
        cases hq : s[m / 8]? with
        | none => simp
        | some v => simp; exact hs v (List.mem_of_getElem? hq)
      exact Nat.lt_of_le_of_lt (Nat.div_mul_le_self _ _) hb

theorem sbit_takeBits (m : Nat) (s : List Nat) (hm : m ≤ 8 * s.length) (k : Nat) :
    sbit (Spec.Md6.takeBits m s) k = (decide (k < m) && sbit s k) := by
  unfold Spec.Md6.takeBits sbit
  by_cases h0 : m % 8 = 0
  · rw [if_pos h0]
    by_cases hk : k / 8 < m / 8
    · have : k < m := by omega
      simp [List.getD_eq_getElem?_getD, hk, this]
    · have : ¬ k < m := by omega
      have hnone : (List.take (m / 8) s)[k / 8]? = none := by
        apply List.getElem?_eq_none; simp [List.length_take]; omega
      simp [List.getD_eq_getElem?_getD, hnone, this]
  · rw [if_neg h0]
    by_cases hk : k / 8 < m / 8
    · have : k < m := by omega
      have h2 : k / 8 < (List.take (m / 8) s).length := by simp [List.length_take]; omega
      simp [List.getD_eq_getElem?_getD, List.getElem?_append_left h2, hk, this]
    · have hlen : (List.take (m / 8) s).length = m / 8 := by simp [List.length_take]; omega
      by_cases hk2 : k / 8 = m / 8
      · simp only [List.getD_eq_getElem?_getD, hk2]
        rw [List.getElem?_append_right (by omega), hlen, Nat.sub_self]
        simp only [List.getElem?_cons_zero, Option.getD_some, Nat.testBit_mul_two_pow, Nat.testBit_div_two_pow]
        by_cases hkm : k < m
        · have : 8 - m % 8 ≤ 7 - k % 8 := by omega
          have e : 7 - k % 8 - (8 - m % 8) + (8 - m % 8) = 7 - k % 8 := by omega
          simp [this, e, hkm]
        · have : ¬ (8 - m % 8 ≤ 7 - k % 8) := by omega
          simp [this, hkm]
      · have : ¬ k < m := by omega
        simp only [List.getD_eq_getElem?_getD]
        rw [List.getElem?_append_right (by omega), hlen]
        have e : k / 8 - m / 8 = (k / 8 - m / 8 - 1) + 1 := by omega
        rw [e]
        simp [this]

theorem sbit_append_zeros (A : List Nat) (z k : Nat) : sbit (A ++ List.replicate z 0) k = sbit A k := by
  unfold sbit
  simp only [List.getD_eq_getElem?_getD]
  by_cases h : k / 8 < A.length
  · rw [List.getElem?_append_left h]
  · rw [List.getElem?_append_right (by omega), List.getElem?_eq_none (by omega : A.length ≤ k / 8)]
    by_cases h2 : k / 8 - A.length < z
    · simp [h2]
    · simp [h2]

theorem bitsOfBytes_eq (s : List Nat) (bl : Nat) : Padder.bitsOfBytes s bl = ⟨bsVal s % 2 ^ bl, bl⟩ := by
  simp [Padder.bitsOfBytes, Bits.ofBytes, load_neg1, Bits.setSize, bind, Except.bind, pure, Except.pure]

/-- the Nullpadding tail: the first `bl` bits of `s`, zero-filled to `n` bytes -/
theorem nullpad_bytes (s : List Nat) (hs : ∀ x ∈ s, x < 256) (bl n : Nat) (h1 : bl ≤ 8 * s.length) (h2 : bl ≤ 8 * n) :
    ((Padder.bitsOfBytes s bl).concat (Bits.ofNatSz 0 (8 * n - bl))).toBytes
      = Spec.Md6.zeroPad n (Spec.Md6.takeBits bl s) := by
  have hv : bsVal s % 2 ^ bl < 2 ^ (8 * n) :=
    Nat.lt_of_lt_of_le (Nat.mod_lt _ (Nat.two_pow_pos bl)) (Nat.pow_le_pow_right (by omega) h2)
  have e : (Padder.bitsOfBytes s bl).concat (Bits.ofNatSz 0 (8 * n - bl)) = ⟨bsVal s % 2 ^ bl, 8 * n⟩ := by
    rw [bitsOfBytes_eq]
    simp only [Bits.concat, Bits.ofNatSz, Nat.zero_mod, Nat.zero_shiftLeft, Nat.or_zero]
    rw [show bl + (8 * n - bl) = 8 * n by omega, Nat.mod_eq_of_lt hv]
  rw [e]
  have hl : (Spec.Md6.takeBits bl s).length ≤ n := by rw [takeBits_length bl s h1]; omega
  apply bytes_ext
  · simp [toBytes_length, Spec.Md6.zeroPad]; omega
  · exact toBytes_lt _
  · intro x hx
    rcases List.mem_append.1 hx with h | h
    · exact takeBits_lt bl s hs x h
    · simp only [List.mem_replicate] at h; omega
  · intro k hk
    rw [toBytes_length] at hk
    rw [toBytes_sbit _ _ hv k (by simpa using hk), Spec.Md6.zeroPad, sbit_append_zeros, sbit_takeBits bl s h1,
      Nat.testBit_mod_two_pow, bsVal_testBit s hs]

end Proofs.Lemmas.Md6Bits
