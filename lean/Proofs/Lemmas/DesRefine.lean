/-
  Refinement lemmas: Model.Des (Bits plumbing of crysp/des.py) computes what Spec.Des (FIPS 46-3 on bit strings) says.
-/
import Proofs.Lemmas.DesLemmas
import Proofs.Lemmas.DesTables
namespace Spec.Des

theorem length_rotl (n : Nat) (x : Bitstr) : (rotl n x).length = x.length := by
  simp [rotl]; omega

theorem rotl_rotl (a b : Nat) (x : Bitstr) (h : a + b ≤ x.length) : rotl a (rotl b x) = rotl (b + a) x := by
  simp only [rotl]
  have h1 : a ≤ (x.drop b).length := by simp; omega
  rw [List.drop_append_of_le_length h1, List.take_append_of_le_length h1, List.drop_drop, List.append_assoc,
    ← List.take_add]

/-- K_{r+1} of the iterative schedule is PC2 of both halves rotated by the cumulative number of shifts -/
theorem ksFrom_getElem? (ss : List Nat) (C D : Bitstr) (hCD : C.length = D.length) (hsum : ss.sum ≤ C.length)
    (r : Nat) (hr : r < ss.length) :
    (ksFrom ss C D)[r]? = some (permute PC2 (rotl ((ss.take (r + 1)).sum) C ++ rotl ((ss.take (r + 1)).sum) D)) := by
  induction ss generalizing C D r with
  | nil => simp at hr
  | cons s ss ih =>
    cases r with
    | zero => simp [ksFrom]
    | succ r =>
      simp only [ksFrom, List.getElem?_cons_succ, List.take_succ_cons, List.sum_cons]
      have hs : s + ss.sum ≤ C.length := by simpa using hsum
      rw [ih (rotl s C) (rotl s D) (by simp [length_rotl, hCD]) (by rw [length_rotl]; omega) r (by simpa using hr)]
      have hle : (ss.take (r + 1)).sum ≤ ss.sum := by
        have := congrArg List.sum (List.take_append_drop (r + 1) ss)
        rw [List.sum_append] at this
        omega
      rw [rotl_rotl _ _ C (by omega), rotl_rotl _ _ D (by omega)]

theorem length_ksFrom (ss : List Nat) (C D : Bitstr) : (ksFrom ss C D).length = ss.length := by
  induction ss generalizing C D with
  | nil => rfl
  | cons s ss ih => simp [ksFrom, ih]

end Spec.Des

namespace Model.Des
open Model.Bits Proofs Proofs.DesTables

/-! ### permutations -/
theorem bools_pick_spec (b : Bits) (hb : b.WF) (gen spec : List Nat) (h : gen = spec.map (· - 1)) :
    bools (b.pick gen) = Spec.Des.permute spec (bools b) := by
  rw [bools_pick' b hb, h, List.map_map]; rfl

/-! ### the S-box step: complete enumeration over the 8 boxes and the 64 chunk values -/
def sOutChk : Bool := (List.range 8).all fun n => (List.range 64).all fun c =>
  ((List.range 4).map fun i => (sOut n c).testBit i) == Spec.Des.sbox n ((List.range 6).map fun i => c.testBit i)

theorem sOutChk_true : sOutChk = true := by decide +kernel

theorem sOut_spec (n c : Nat) (hn : n < 8) (hc : c < 64) :
    ((List.range 4).map fun i => (sOut n c).testBit i) = Spec.Des.sbox n ((List.range 6).map fun i => c.testBit i) := by
  have h := sOutChk_true
  simp only [sOutChk, List.all_eq_true, List.mem_range, beq_iff_eq] at h
  exact h n hn c hc

theorem length_sbox (n : Nat) (b : Spec.Des.Bitstr) : (Spec.Des.sbox n b).length = 4 := by
  simp [Spec.Des.sbox, Spec.Des.bitsOfNat]

/-- chunk n of the 48-bit S-box input, as the specification cuts it -/
def chunk (sb : Spec.Des.Bitstr) (n : Nat) : Spec.Des.Bitstr := (sb.drop (6 * n)).take 6

theorem bools_sboxStepP (s Z : Bits) (n : Nat) (hn : n < 8) (hs : s.size = 48) (hZ : Z.size = 32) :
    bools (sboxStepP s Z n) =
      (bools Z).take (4 * n) ++ (Spec.Des.sbox n (chunk (bools s) n) ++ (bools Z).drop (4 * n + 4)) := by
  have hv : (ofNat (sOut n (s.sliceFast (6 * n) (6 * n + 6)).ival)).ival < 2 ^ (4 * n + 4 - 4 * n) := by
    have : 4 * n + 4 - 4 * n = 4 := by omega
    rw [this]; exact sOut_lt _ _
  rw [sboxStepP, bools_putSlice _ _ _ _ (by omega) (by omega) hv]
  have e4 : 4 * n + 4 - 4 * n = 4 := by omega
  rw [e4]
  have hc : (s.sliceFast (6 * n) (6 * n + 6)).ival < 64 := by
    have := WF_sliceFast s (6 * n) (6 * n + 6)
    have e6 : 6 * n + 6 - 6 * n = 6 := by omega
    simpa [WF, e6] using this
  have hb : chunk (bools s) n = (List.range 6).map fun i => (s.sliceFast (6 * n) (6 * n + 6)).ival.testBit i := by
    have := bools_sliceFast s (6 * n) (6 * n + 6) (by omega)
    have e6 : 6 * n + 6 - 6 * n = 6 := by omega
    rw [e6] at this
    rw [chunk, ← this]; simp [bools, e6]
  rw [hb, ← sOut_spec n _ hn hc]
  rfl

theorem bools_sboxLoopP (s : Bits) (hs : s.size = 48) (m : Nat) (hm : m ≤ 8) :
    bools (sboxLoopP s (List.range m) (ofNatSz 0 32)) =
      ((List.range m).flatMap fun n => Spec.Des.sbox n (chunk (bools s) n)) ++ List.replicate (32 - 4 * m) false := by
  induction m with
  | zero => simp [sboxLoopP, bools_zero]
  | succ m ih =>
    have ih' := ih (by omega)
    rw [List.range_succ, sboxLoopP, List.foldl_append]
    simp only [List.foldl_cons, List.foldl_nil]
    change bools (sboxStepP s (sboxLoopP s (List.range m) (ofNatSz 0 32)) m) = _
    rw [bools_sboxStepP s _ m (by omega) hs (by simp; rfl), ih']
    have hl : ((List.range m).flatMap fun n => Spec.Des.sbox n (chunk (bools s) n)).length = 4 * m := by
      clear ih ih'
      induction m with
      | zero => rfl
      | succ m ihm => rw [List.range_succ, List.flatMap_append]; simp [length_sbox, ihm (by omega)]; omega
    rw [List.take_append_of_le_length (by omega), List.take_of_length_le (by omega), List.drop_append,
      List.drop_of_length_le (by omega), hl, List.drop_replicate, List.flatMap_append]
    have e1 : 4 * m + 4 - 4 * m = 4 := by omega
    have e2 : 32 - 4 * m - 4 = 32 - 4 * (m + 1) := by omega
    simp [e1, e2]

theorem WF_sboxStepP (s Z : Bits) (n : Nat) (hn : n < 8) (hZ : Z.WF) (hZs : Z.size = 32) : (sboxStepP s Z n).WF := by
  have hv : (ofNat (sOut n (s.sliceFast (6 * n) (6 * n + 6)).ival)).ival < 2 ^ (4 * n + 4 - 4 * n) := by
    have : 4 * n + 4 - 4 * n = 4 := by omega
    rw [this]; exact sOut_lt _ _
  exact WF_putSlice _ _ _ _ hZ (by omega) (by omega) hv

theorem WF_sboxLoopP (s : Bits) (ns : List Nat) (hns : ∀ n ∈ ns, n < 8) (Z : Bits) (hZ : Z.WF) (hZs : Z.size = 32) :
    (sboxLoopP s ns Z).WF := by
  induction ns generalizing Z with
  | nil => exact hZ
  | cons n ns ih =>
    simp only [sboxLoopP, List.foldl_cons]
    exact ih (fun m hm => hns m (by simp [hm])) _ (WF_sboxStepP s Z n (hns n (by simp)) hZ hZs) hZs

/-! ### F -/
theorem zipWith_xor_comm (a b : List Bool) : List.zipWith Bool.xor a b = List.zipWith Bool.xor b a := by
  rw [List.zipWith_comm]; congr 1; funext x y; exact Bool.xor_comm y x

theorem bools_FP (R k : Bits) (r : Nat) (hR : R.WF) (hRs : R.size = 32) :
    bools (FP R k r) = Spec.Des.f (bools R) (bools (subkeyP k r)) := by
  have hs : ((R.pick Gen.Des.e).xor (subkeyP k r)).size = 48 := by simp [Bits.xor, wsize, len_e]
  have hW : (sboxLoopP ((R.pick Gen.Des.e).xor (subkeyP k r)) (List.range 8) (ofNatSz 0 32)).WF := by
    exact WF_sboxLoopP _ _ (fun n hn => by simpa using hn) _ (WF_ofNatSz 0 32) rfl
  rw [FP, bools_pick_spec _ hW _ _ p_eq, bools_sboxLoopP _ hs 8 (Nat.le_refl 8),
    bools_xor _ _ (by simp [len_e]), bools_pick_spec R hR _ _ e_eq]
  simp only [Spec.Des.f, Spec.Des.xor, chunk, List.replicate_zero, List.append_nil, Nat.sub_self]
  rw [zipWith_xor_comm]

theorem bools_subkeyP (k : Bits) (hk : k.size = 56) (r : Nat) :
    bools (subkeyP k r) =
      Spec.Des.permute Spec.Des.PC2 (Spec.Des.rotl (cumShift r) ((bools k).take 28) ++ Spec.Des.rotl (cumShift r) ((bools k).drop 28)) := by
  have hc := cumShift_le r
  have hWr : ∀ x : Bits, x.WF → (rotIdiom x (cumShift r)).WF := by
    intro x hx
    simp only [WF, rotIdiom, Bits.or, wsize, shr, shl, Nat.lt_irrefl, if_false]
    apply Nat.or_lt_two_pow
    · exact Nat.lt_of_le_of_lt Nat.and_le_right (by have := Nat.two_pow_pos x.size; simp only [Bits.mask]; omega)
    · exact Nat.lt_of_le_of_lt Nat.and_le_right (by have := Nat.two_pow_pos x.size; simp only [Bits.mask]; omega)
  have hW1 := hWr _ (WF_sliceFast k 0 28)
  have hW : ((rotIdiom (k.sliceFast 0 28) (cumShift r)).concat (rotIdiom (k.sliceFast 28 56) (cumShift r))).WF :=
    WF_ofNatSz _ _
  rw [subkeyP, bools_pick_spec _ hW _ _ pc2_eq,
    bools_concat _ _ hW1,
    bools_rotIdiom _ (WF_sliceFast _ _ _) _ (by simpa using hc), bools_rotIdiom _ (WF_sliceFast _ _ _) _ (by simpa using hc),
    bools_sliceFast _ _ _ (by omega), bools_sliceFast _ _ _ (by omega)]
  have hl : (bools k).length = 56 := by simp [hk]
  simp only [List.drop_zero, Nat.sub_zero, Spec.Des.rotl]
  have : List.take (56 - 28) (List.drop 28 (bools k)) = List.drop 28 (bools k) :=
    List.take_of_length_le (by simp [hl])
  rw [this]

/-! ### the round loop -/
theorem bools_rounds (k : Bits) (hk : k.size = 56) (order : List Nat) (L R : Bits) (hL : Half L) (hR : Half R) :
    ∃ L' R', rounds k order L R = .ok (L', R') ∧ Half L' ∧ Half R' ∧
      (bools L', bools R') = (order.map fun r => bools (subkeyP k r)).foldl Spec.Des.round (bools L, bools R) := by
  induction order generalizing L R with
  | nil => exact ⟨L, R, rfl, hL, hR, rfl⟩
  | cons r rs ih =>
    have hX : Half (L.xor (FP R k r)) := half_xor _ _ hL ⟨size_FP _ _ _, WF_FP _ _ _⟩
    obtain ⟨L', R', h1, h2, h3, h4⟩ := ih R (L.xor (FP R k r)) hR hX
    refine ⟨L', R', ?_, h2, h3, ?_⟩
    · simp only [rounds, F_eq R k r hR.1 (by omega), bind, Except.bind]; exact h1
    · rw [h4, List.map_cons, List.foldl_cons]
      congr 1
      simp only [Spec.Des.round, Spec.Des.xor]
      rw [bools_xor _ _ (by rw [hL.1, size_FP]), bools_FP R k r hR.2 hR.1]

/-- the sixteen subkeys the code derives, in round order, are K1 … K16 of the standard's key schedule -/
theorem subkeys_eq (k : Bits) (hk : k.size = 56) :
    (List.range 16).map (fun r => bools (subkeyP k r)) =
      Spec.Des.ksFrom Spec.Des.shifts ((bools k).take 28) ((bools k).drop 28) := by
  have hl : (bools k).length = 56 := by simp [hk]
  apply List.ext_getElem?
  intro i
  by_cases hi : i < 16
  · have h16 : Spec.Des.shifts.length = 16 := by decide
    rw [Spec.Des.ksFrom_getElem? _ _ _ (by simp [hl]) (by simp [hl]; decide) i (by omega)]
    simp only [List.getElem?_map, List.getElem?_range hi, Option.map_some]
    rw [bools_subkeyP k hk i, cumShift, shifts_eq]
  · rw [List.getElem?_eq_none (by simp; omega), List.getElem?_eq_none (by rw [Spec.Des.length_ksFrom]; simp [Spec.Des.shifts]; omega)]

/-! ### one block -/
theorem bools_cryptBits (k : Bits) (hk : k.size = 56) (order : List Nat) (Mb : Bits) (hM : Mb.WF) (hs : Mb.size = 64) :
    ∃ Cb, cryptBits k order Mb = .ok Cb ∧ Cb.size = 64 ∧ Cb.WF ∧
      bools Cb = Spec.Des.cryptBits (order.map fun r => bools (subkeyP k r)) (bools Mb) := by
  have hL0 : Half ((Mb.pick Gen.Des.ip).sliceFast 0 32) := ⟨rfl, WF_sliceFast _ _ _⟩
  have hR0 : Half ((Mb.pick Gen.Des.ip).sliceFast 32 64) := ⟨rfl, WF_sliceFast _ _ _⟩
  obtain ⟨L', R', hr, hL', hR', hb⟩ := bools_rounds k hk order _ _ hL0 hR0
  refine ⟨(join R' L').pick Gen.Des.ipinv, by simp [cryptBits, hr], by simp [len_ipinv], WF_pick _ _, ?_⟩
  have hj : (join R' L').WF := WF_join _ _ hR'.2 hR'.1 hL'.2 hL'.1
  rw [bools_pick_spec _ hj _ _ ipinv_eq, bools_join _ _ hR'.2 hR'.1 hL'.2 hL'.1]
  rw [bools_sliceFast _ _ _ (by simp [len_ip]), bools_sliceFast _ _ _ (by simp [len_ip]),
    bools_pick_spec _ hM _ _ ip_eq] at hb
  have hl : (Spec.Des.permute Spec.Des.IP (bools Mb)).length = 64 := by simp [Spec.Des.permute, Spec.Des.IP]
  simp only [List.drop_zero, Nat.sub_zero] at hb
  rw [List.take_of_length_le (l := List.drop 32 _) (by simp [hl])] at hb
  simp only [Spec.Des.cryptBits]
  rw [← hb]


/-- the model's result as an Option (every exception = "not defined") -/
def res {α} (x : Except Err α) : Option α := x.toOption

theorem length_permute (t : List Nat) (x : Spec.Des.Bitstr) : (Spec.Des.permute t x).length = t.length := by
  simp [Spec.Des.permute]

theorem crypt_refines (K : List Nat) (hK : K.length = 8) (hKb : IsBytes K) (order : List Nat) (M : List Nat)
    (hM : M.length = 8) (hMb : IsBytes M) :
    (⟨ofByteStr K⟩ : DES).crypt order M =
      .ok (Spec.Des.bitsToBytes (Spec.Des.cryptBits
        (order.map fun r => bools (subkeyP (PC1 (ofByteStr K)) r)) (Spec.Des.bytesToBits M))) := by
  have hs : (ofByteStr M).size = 64 := by simp [ofByteStr, hM]
  obtain ⟨Cb, h1, h2, _, h4⟩ := bools_cryptBits (PC1 (ofByteStr K)) (size_PC1 _) order (ofByteStr M) (WF_ofByteStr M hMb) hs
  rw [crypt_eq _ order M hM, h1]
  simp only [Except.map]
  rw [toBytes_eq Cb 8 h2, h4, bools_ofByteStr M hMb]

theorem keySchedule_eq (K : List Nat) (hK : K.length = 8) (hKb : IsBytes K) :
    (List.range 16).map (fun r => bools (subkeyP (PC1 (ofByteStr K)) r)) = Spec.Des.keySchedule (Spec.Des.bytesToBits K) := by
  rw [subkeys_eq _ (size_PC1 _), PC1, bools_pick_spec _ (WF_ofByteStr K hKb) _ _ pc1_eq, bools_ofByteStr K hKb]
  rfl

/-- DES encryption refines FIPS 46-3, size rejection included -/
theorem enc_refines (K M : List Nat) (hKb : IsBytes K) (hMb : IsBytes M) : res (enc K M) = Spec.Des.enc K M := by
  by_cases hK : K.length = 8
  · by_cases hM : M.length = 8
    · simp only [enc, DES_new_bytes K hK hKb, bind, Except.bind, DES.enc, encOrder,
        crypt_refines K hK hKb _ M hM hMb, keySchedule_eq K hK hKb, res, Except.toOption, Spec.Des.enc, hK, hM,
        and_self, if_true, Spec.Des.encryptBits]
    · simp [enc, DES_new_bytes K hK hKb, bind, Except.bind, DES.enc, crypt_badlen _ _ M hM, res, Except.toOption,
        Spec.Des.enc, hM]
  · simp [enc, DES_new_badlen K hK, bind, Except.bind, res, Except.toOption, Spec.Des.enc, hK]

/-- DES decryption refines FIPS 46-3 (K16 first) -/
theorem dec_refines (K M : List Nat) (hKb : IsBytes K) (hMb : IsBytes M) : res (dec K M) = Spec.Des.dec K M := by
  by_cases hK : K.length = 8
  · by_cases hM : M.length = 8
    · simp only [dec, DES_new_bytes K hK hKb, bind, Except.bind, DES.dec, decOrder,
        crypt_refines K hK hKb _ M hM hMb, List.map_reverse, keySchedule_eq K hK hKb, res, Except.toOption, Spec.Des.dec, hK, hM,
        and_self, if_true, Spec.Des.decryptBits]
    · simp [dec, DES_new_bytes K hK hKb, bind, Except.bind, DES.dec, crypt_badlen _ _ M hM, res, Except.toOption,
        Spec.Des.dec, hM]
  · simp [dec, DES_new_badlen K hK, bind, Except.bind, res, Except.toOption, Spec.Des.dec, hK]


end Model.Des
