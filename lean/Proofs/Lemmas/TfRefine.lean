/-
  Word-level refinement Model.Threefish -> Spec.Threefish.
-/
import Proofs.Lemmas.TfBridge
namespace Proofs.Lemmas.TfRefine
open Model Proofs.Lemmas.TfBridge
open Spec.Threefish (W)

/-! ### tables read from the code = tables of the specification -/

theorem pi_eq : Gen.Threefish.pi4 = Spec.Threefish.pi 4 ∧ Gen.Threefish.pi8 = Spec.Threefish.pi 8 ∧
    Gen.Threefish.pi16 = Spec.Threefish.pi 16 := by decide +kernel
theorem piinv_eq : Gen.Threefish.piinv4 = Spec.Threefish.piInv 4 ∧ Gen.Threefish.piinv8 = Spec.Threefish.piInv 8 ∧
    Gen.Threefish.piinv16 = Spec.Threefish.piInv 16 := by decide +kernel
theorem rot_eq : Gen.Threefish.rot4 = Spec.Threefish.R 4 ∧ Gen.Threefish.rot8 = Spec.Threefish.R 8 ∧
    Gen.Threefish.rot16 = Spec.Threefish.R 16 := by decide +kernel
theorem c240_eq : Gen.Threefish.c240_4 = Spec.Threefish.C240.toNat ∧ Gen.Threefish.c240_8 = Spec.Threefish.C240.toNat ∧
    Gen.Threefish.c240_16 = Spec.Threefish.C240.toNat := by decide +kernel
theorem nr_eq : Gen.Threefish.nr4 = Spec.Threefish.Nr 4 ∧ Gen.Threefish.nr8 = Spec.Threefish.Nr 8 ∧
    Gen.Threefish.nr16 = Spec.Threefish.Nr 16 := by decide +kernel

/-- every rotation constant of Table 4 is a proper rotation amount -/
theorem rot_lt (nw : Nat) (hv : nw = 4 ∨ nw = 8 ∨ nw = 16) (d j : Nat) (hj : j < 8) :
    Spec.Threefish.rot nw d j < 64 := by
  have hd : d % 8 < 8 := Nat.mod_lt _ (by decide)
  have key : ∀ nw ∈ [4, 8, 16], ∀ d < 8, ∀ j < 8, ((Spec.Threefish.R nw).getD d []).getD j 0 < 64 := by decide +kernel
  unfold Spec.Threefish.rot
  apply key nw _ _ hd _ hj
  rcases hv with h | h | h <;> subst h <;> decide

/-! ### lists of words -/

theorem getD_map_ofBV (l : List W) (i : Nat) : (l.map ofBV).getD i Threefish.z64 = ofBV (l.getD i 0) := by
  rw [z64_eq]
  simp only [List.getD_eq_getElem?_getD, List.getElem?_map]
  cases l[i]? <;> rfl

theorem flatMap_congr' {α β} (l : List α) (f g : α → List β) (h : ∀ a ∈ l, f a = g a) : l.flatMap f = l.flatMap g := by
  induction l with
  | nil => rfl
  | cons a l ih =>
    simp only [List.flatMap_cons]
    rw [h a (by simp), ih (fun b hb => h b (by simp [hb]))]

theorem map_congr' {α β} (l : List α) (f g : α → β) (h : ∀ a ∈ l, f a = g a) : l.map f = l.map g := by
  induction l with
  | nil => rfl
  | cons a l ih =>
    simp only [List.map_cons]
    rw [h a (by simp), ih (fun b hb => h b (by simp [hb]))]

/-- the relation between a model context and the specification's data -/
structure Rel (c : Threefish.Ctx) (nw : Nat) (k t : List W) : Prop where
  hv : nw = 4 ∨ nw = 8 ∨ nw = 16
  hNw : c.Nw = nw
  hNr : c.Nr = Spec.Threefish.Nr nw
  hpi : c.pi = Spec.Threefish.pi nw
  hpiinv : c.piinv = Spec.Threefish.piInv nw
  hR : c.R = Spec.Threefish.R nw
  hk : c.k = k.map ofBV
  ht : c.t = t.map ofBV

variable {c : Threefish.Ctx} {nw : Nat} {k t : List W}

theorem rotc_eq (h : Rel c nw k t) (d j : Nat) : Threefish.rotc c d j = Spec.Threefish.rot nw d j := by
  simp [Threefish.rotc, Spec.Threefish.rot, h.hR]

theorem mix_refines (h : Rel c nw k t) (x0 x1 : W) (d j : Nat) (hj : j < 8) :
    Threefish.mix c (ofBV x0) (ofBV x1) d j = (Spec.Threefish.mix (Spec.Threefish.rot nw d j) x0 x1).map ofBV := by
  simp only [Threefish.mix, Spec.Threefish.mix, rotc_eq h, List.map_cons, List.map_nil]
  rw [add_ofBV, rol_ofBV _ (rot_lt nw h.hv d j hj), xor_ofBV]

theorem mixinv_refines (h : Rel c nw k t) (y0 y1 : W) (d j : Nat) (hj : j < 8) :
    Threefish.mixinv c (ofBV y0) (ofBV y1) d j = (Spec.Threefish.mixInv (Spec.Threefish.rot nw d j) y0 y1).map ofBV := by
  simp only [Threefish.mixinv, Spec.Threefish.mixInv, rotc_eq h, List.map_cons, List.map_nil]
  rw [xor_ofBV, ror_ofBV _ (rot_lt nw h.hv d j hj), sub_ofBV]

theorem half_lt (h : Rel c nw k t) {j : Nat} (hj : j ∈ List.range (nw / 2)) : j < 8 := by
  have := List.mem_range.1 hj
  rcases h.hv with h | h | h <;> subst h <;> omega

theorem mixLayer_refines (h : Rel c nw k t) (e : List W) (d : Nat) :
    Threefish.mixLayer c (e.map ofBV) d = (Spec.Threefish.mixLayer nw d e).map ofBV := by
  unfold Threefish.mixLayer Spec.Threefish.mixLayer
  rw [List.map_flatMap, h.hNw]
  apply flatMap_congr'
  intro j hj
  rw [getD_map_ofBV, getD_map_ofBV, mix_refines h _ _ _ _ (half_lt h hj)]

theorem mixinvLayer_refines (h : Rel c nw k t) (f : List W) (d : Nat) :
    Threefish.mixinvLayer c (f.map ofBV) d = (Spec.Threefish.mixInvLayer nw d f).map ofBV := by
  unfold Threefish.mixinvLayer Spec.Threefish.mixInvLayer
  rw [List.map_flatMap, h.hNw]
  apply flatMap_congr'
  intro j hj
  rw [getD_map_ofBV, getD_map_ofBV, mixinv_refines h _ _ _ _ (half_lt h hj)]

theorem addKey_refines (h : Rel c nw k t) (v ks : List W) :
    Threefish.addKey c (v.map ofBV) (ks.map ofBV) = (Spec.Threefish.addWords nw v ks).map ofBV := by
  unfold Threefish.addKey Spec.Threefish.addWords
  rw [List.map_map, h.hNw]
  apply map_congr'
  intro i _
  simp only [Function.comp, getD_map_ofBV, add_ofBV]

theorem subKey_refines (h : Rel c nw k t) (v ks : List W) :
    Threefish.subKey c (v.map ofBV) (ks.map ofBV) = (Spec.Threefish.subWords nw v ks).map ofBV := by
  unfold Threefish.subKey Spec.Threefish.subWords
  rw [List.map_map, h.hNw]
  apply map_congr'
  intro i _
  simp only [Function.comp, getD_map_ofBV, sub_ofBV]


theorem range4 : List.range 4 = [0, 1, 2, 3] := by decide
theorem range8 : List.range 8 = [0, 1, 2, 3, 4, 5, 6, 7] := by decide
theorem range16 : List.range 16 = [0, 1, 2, 3, 4, 5, 6, 7, 8, 9, 10, 11, 12, 13, 14, 15] := by decide
theorem range1 : List.range 1 = [0] := by decide
theorem range5 : List.range 5 = [0, 1, 2, 3, 4] := by decide
theorem range13 : List.range 13 = [0, 1, 2, 3, 4, 5, 6, 7, 8, 9, 10, 11, 12] := by decide

/-- the key schedule: the code's loop + three special words = the specification's case distinction -/
theorem ks_refines (h : Rel c nw k t) (s : Nat) (hs : s < 2 ^ 64) :
    Threefish.ks c s = (Spec.Threefish.subkeys nw k t s).map ofBV := by
  unfold Threefish.ks Spec.Threefish.subkeys
  rw [h.hNw, h.hk, h.ht]
  rcases h.hv with h4 | h8 | h16
  · subst h4
    simp only [show 4 - 3 = 1 from rfl, range1, range4, List.map_cons, List.map_nil, List.cons_append, List.nil_append,
      Spec.Threefish.subkey, getD_map_ofBV, add_ofBV, add_ofNat _ hs]
    simp
  · subst h8
    simp only [show 8 - 3 = 5 from rfl, range5, range8, List.map_cons, List.map_nil, List.cons_append, List.nil_append,
      Spec.Threefish.subkey, getD_map_ofBV, add_ofBV, add_ofNat _ hs]
    simp
  · subst h16
    simp only [show 16 - 3 = 13 from rfl, range13, range16, List.map_cons, List.map_nil, List.cons_append, List.nil_append,
      Spec.Threefish.subkey, getD_map_ofBV, add_ofBV, add_ofNat _ hs]
    simp

theorem permute_refines (h : Rel c nw k t) (p : List Nat) (f : List W) :
    ((List.range c.Nw).map fun i => (f.map ofBV).getD (p.getD i 0) Threefish.z64) = (Spec.Threefish.permute p nw f).map ofBV := by
  unfold Spec.Threefish.permute
  rw [List.map_map, h.hNw]
  apply map_congr'
  intro i _
  simp only [Function.comp, getD_map_ofBV]

theorem encRound_refines (h : Rel c nw k t) (v : List W) (d : Nat) (hd : d < 2 ^ 64) :
    Threefish.encRound c (v.map ofBV) d = (Spec.Threefish.round nw k t v d).map ofBV := by
  have hd4 : d / 4 < 2 ^ 64 := Nat.lt_of_le_of_lt (Nat.div_le_self _ _) hd
  unfold Threefish.encRound Spec.Threefish.round
  simp only []
  split
  · rw [ks_refines h _ hd4, addKey_refines h, mixLayer_refines h, h.hpi, permute_refines h]
  · rw [mixLayer_refines h, h.hpi, permute_refines h]

theorem decRound_refines (h : Rel c nw k t) (v : List W) (d : Nat) (hd : d < 2 ^ 64) :
    Threefish.decRound c (v.map ofBV) d = (Spec.Threefish.roundInv nw k t v d).map ofBV := by
  have hd4 : d / 4 < 2 ^ 64 := Nat.lt_of_le_of_lt (Nat.div_le_self _ _) hd
  unfold Threefish.decRound Spec.Threefish.roundInv
  simp only []
  rw [h.hpiinv, permute_refines h, mixinvLayer_refines h]
  split
  · rw [ks_refines h _ hd4, subKey_refines h]
  · rfl

theorem encLoop_refines (h : Rel c nw k t) (p : List W) (n : Nat) (hn : n < 2 ^ 64) :
    (List.range n).foldl (Threefish.encRound c) (p.map ofBV) = (Spec.Threefish.state nw k t p n).map ofBV := by
  induction n with
  | zero => rfl
  | succ n ih =>
    rw [List.range_succ, List.foldl_append, ih (by omega)]
    simp only [List.foldl_cons, List.foldl_nil, Spec.Threefish.state]
    exact encRound_refines h _ _ (by omega)

theorem decLoop_refines (h : Rel c nw k t) (n : Nat) (hn : n < 2 ^ 64) (v : List W) :
    (List.range n).reverse.foldl (Threefish.decRound c) (v.map ofBV) = (Spec.Threefish.unstate nw k t n v).map ofBV := by
  induction n generalizing v with
  | zero => rfl
  | succ n ih =>
    rw [List.range_succ, List.reverse_append]
    simp only [List.reverse_cons, List.reverse_nil, List.nil_append, List.cons_append, List.foldl_cons, Spec.Threefish.unstate]
    rw [decRound_refines h _ _ (by omega), ih (by omega)]

theorem Nr_lt (nw : Nat) : Spec.Threefish.Nr nw < 2 ^ 64 := by
  unfold Spec.Threefish.Nr; split <;> decide

theorem encWords_refines (h : Rel c nw k t) (p : List W) :
    Threefish.encWords c (p.map ofBV) =
      (Spec.Threefish.addWords nw (Spec.Threefish.state nw k t p (Spec.Threefish.Nr nw))
        (Spec.Threefish.subkeys nw k t (Spec.Threefish.Nr nw / 4))).map ofBV := by
  have hn := Nr_lt nw
  unfold Threefish.encWords
  simp only []
  rw [h.hNr, encLoop_refines h p _ hn,
      ks_refines h _ (Nat.lt_of_le_of_lt (Nat.div_le_self _ _) hn), addKey_refines h]

theorem decWords_refines (h : Rel c nw k t) (cw : List W) :
    Threefish.decWords c (cw.map ofBV) =
      (Spec.Threefish.unstate nw k t (Spec.Threefish.Nr nw)
        (Spec.Threefish.subWords nw cw (Spec.Threefish.subkeys nw k t (Spec.Threefish.Nr nw / 4)))).map ofBV := by
  have hn := Nr_lt nw
  unfold Threefish.decWords
  simp only []
  rw [h.hNr, ks_refines h _ (Nat.lt_of_le_of_lt (Nat.div_le_self _ _) hn), subKey_refines h, decLoop_refines h _ hn]

end Proofs.Lemmas.TfRefine
