/-
  The exposed operations of Model.Aes (with the code's failure behaviour) on well-sized inputs are their pure cores;
  on other sizes `enc`/`dec`/`keyschedule` fail.
-/
import Proofs.Lemmas.AesEnc
namespace Proofs.Aes
open Model Model.Aes Model.Gen.Aes

theorem init_ok {K : List Nat} (h : K.length = 16 ∨ K.length = 24 ∨ K.length = 32) :
    init K = .ok (K.length / 4, K.length / 4 + 6) := by
  rcases h with e | e | e <;> simp [init, e, nrOf]

theorem init_err {K : List Nat} (h : ¬ (K.length = 16 ∨ K.length = 24 ∨ K.length = 32)) :
    init K = .error "AssertionError" := by
  unfold init
  simp only []
  rw [if_neg]
  intro h'
  apply h
  omega

theorem enc_ok {K M : List Nat} (hK : K.length = 16 ∨ K.length = 24 ∨ K.length = 32) (hM : M.length = 16) :
    enc K M = .ok (encCore K M) := by
  unfold enc
  rw [init_ok hK]
  simp [hM, encCore, bind, Except.bind, pure, Except.pure]

theorem dec_ok {K C : List Nat} (hK : K.length = 16 ∨ K.length = 24 ∨ K.length = 32) (hC : C.length = 16) :
    dec K C = .ok (decCore K C) := by
  unfold dec
  rw [init_ok hK]
  simp [hC, decCore, bind, Except.bind, pure, Except.pure]

theorem keyscheduleE_ok {K : List Nat} (hK : K.length = 16 ∨ K.length = 24 ∨ K.length = 32) :
    keyscheduleE K = .ok (keySchedule K) := by
  unfold keyscheduleE
  rw [init_ok hK]
  rfl

theorem enc_err_key {K M : List Nat} (h : ¬ (K.length = 16 ∨ K.length = 24 ∨ K.length = 32)) :
    enc K M = .error "AssertionError" := by
  unfold enc; rw [init_err h]; rfl
theorem dec_err_key {K M : List Nat} (h : ¬ (K.length = 16 ∨ K.length = 24 ∨ K.length = 32)) :
    dec K M = .error "AssertionError" := by
  unfold dec; rw [init_err h]; rfl
theorem keyscheduleE_err {K : List Nat} (h : ¬ (K.length = 16 ∨ K.length = 24 ∨ K.length = 32)) :
    keyscheduleE K = .error "AssertionError" := by
  unfold keyscheduleE; rw [init_err h]; rfl

theorem enc_err_block {K M : List Nat} (h : M.length ≠ 16) : ∃ e, enc K M = .error e := by
  unfold enc
  cases hi : init K with
  | error e => exact ⟨e, rfl⟩
  | ok p => exact ⟨"AssertionError", by simp [h, bind, Except.bind]⟩
theorem dec_err_block {K M : List Nat} (h : M.length ≠ 16) : ∃ e, dec K M = .error e := by
  unfold dec
  cases hi : init K with
  | error e => exact ⟨e, rfl⟩
  | ok p => exact ⟨"AssertionError", by simp [h, bind, Except.bind]⟩

/-- round keys of the schedule of an admissible key -/
theorem keysOk_of_key {K : List Nat} (h : KeyOk K) : KeysOk (keySchedule K) (K.length / 4 + 6) := by
  obtain ⟨_, hw, hl⟩ := keySchedule_spec_wf h
  exact keysOk_of_wf hw (by rw [hl]; omega)

/-! exposed component operations on well-formed states -/

theorem gatherE_ok {tbl : List Nat} : ∀ {idx : List Nat}, (∀ j ∈ idx, j < tbl.length) →
    gatherE tbl idx = .ok (idx.map fun j => tbl.getD j 0) := by
  intro idx
  induction idx with
  | nil => intro _; rfl
  | cons j js ih =>
    intro h
    have hj : j < tbl.length := h j (by simp)
    have := ih (fun k hk => h k (by simp [hk]))
    unfold gatherE at this ⊢
    rw [List.mapM_cons, this]
    simp [List.getElem?_eq_getElem hj, List.getD_eq_getElem?_getD, bind, Except.bind, pure, Except.pure]

theorem SboxE_ok {s : List Nat} (h : IsBytes s) : SboxE s = .ok (subBytes s) := by
  unfold SboxE; rw [gatherE_ok (by rw [sboxtable_length]; exact h)]; rfl
theorem SboxInvE_ok {s : List Nat} (h : IsBytes s) : SboxInvE s = .ok (invSubBytes s) := by
  unfold SboxInvE; rw [gatherE_ok (by rw [sboxinvtable_length]; exact h)]; rfl

theorem subBytes_isBytes {s : List Nat} (h : IsBytes s) : IsBytes (subBytes s) := isBytes_map sbox_lt h
theorem invSubBytes_isBytes {s : List Nat} (h : IsBytes s) : IsBytes (invSubBytes s) := isBytes_map sboxInv_lt h

theorem assignAll_same {s v : List Nat} (h : v.length = s.length) : assignAll s v = v := by
  unfold assignAll; rw [h, Nat.sub_self]; simp [← h]

theorem ShiftRowsE_ok {s : List Nat} (h : s.length = 16) : ShiftRowsE s = .ok (shiftRows s) := by
  unfold ShiftRowsE
  rw [gatherE_ok (by rw [shiftRowsIdx_eq, h]; decide)]
  show Except.ok (assignAll s (shiftRows s)) = _
  rw [assignAll_same (by simp [shiftRows, gather, shiftRowsIdx_eq, h])]
theorem InvShiftRowsE_ok {s : List Nat} (h : s.length = 16) : InvShiftRowsE s = .ok (invShiftRows s) := by
  unfold InvShiftRowsE
  rw [gatherE_ok (by rw [invShiftRowsIdx_eq, h]; decide)]
  show Except.ok (assignAll s (invShiftRows s)) = _
  rw [assignAll_same (by simp [invShiftRows, gather, invShiftRowsIdx_eq, h])]

theorem MixColumnsE_ok {s : List Nat} (h : s.length = 16) : MixColumnsE s = .ok (mixColumns s) := by
  unfold MixColumnsE
  rw [if_neg (by omega), List.drop_of_length_le (by omega), List.append_nil]
theorem InvMixColumnsE_ok {s : List Nat} (h : s.length = 16) : InvMixColumnsE s = .ok (invMixColumns s) := by
  unfold InvMixColumnsE
  rw [if_neg (by omega), List.drop_of_length_le (by omega), List.append_nil]

end Proofs.Aes
