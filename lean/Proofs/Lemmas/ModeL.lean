/-
  Helper lemmas for C05 (modes of operation): block splitting, exception-free folds, xor.
-/
import Model.Mode
import Spec.Mode
namespace Proofs.Lemmas.ModeL
open Model Model.Mode

/-! ### bytes and blocks -/
def Bytes (X : List Nat) : Prop := ∀ x ∈ X, x < 256
def IsBlock (l : Nat) (b : List Nat) : Prop := b.length = l ∧ Bytes b

theorem Bytes.append {A B : List Nat} (ha : Bytes A) (hb : Bytes B) : Bytes (A ++ B) := by
  intro x hx; rcases List.mem_append.1 hx with h | h
  · exact ha x h
  · exact hb x h
theorem Bytes.take {A : List Nat} (ha : Bytes A) (n : Nat) : Bytes (A.take n) :=
  fun x hx => ha x (List.mem_of_mem_take hx)
theorem Bytes.drop {A : List Nat} (ha : Bytes A) (n : Nat) : Bytes (A.drop n) :=
  fun x hx => ha x (List.mem_of_mem_drop hx)
theorem Bytes.replicate {n v : Nat} (hv : v < 256) : Bytes (List.replicate n v) := by
  intro x hx; rw [List.mem_replicate] at hx; omega
theorem Bytes.nil : Bytes [] := by intro x hx; cases hx

theorem drop_len_sub {α} (A t : List α) (p : Nat) (h : t.length = p) : (A ++ t).drop ((A ++ t).length - p) = t := by
  rw [List.length_append, h, Nat.add_sub_cancel, List.drop_left' rfl]
theorem take_len_sub {α} (A t : List α) (p : Nat) (h : t.length = p) : (A ++ t).take ((A ++ t).length - p) = A := by
  rw [List.length_append, h, Nat.add_sub_cancel, List.take_left' rfl]

/-! ### xor -/
theorem xorstr_eq_spec (a b : List Nat) : xorstr a b = Spec.Mode.xor a b := rfl

theorem xor_length {a b : List Nat} : (xorstr a b).length = min a.length b.length := by
  simp [xorstr]

theorem xor_comm (a b : List Nat) : xorstr a b = xorstr b a := by
  unfold xorstr
  rw [List.zipWith_comm]
  congr 1; funext x y; exact Nat.xor_comm y x

theorem xor_cancel_right : ∀ (a b : List Nat), a.length ≤ b.length → xorstr (xorstr a b) b = a
  | [], _, _ => by simp [xorstr]
  | x :: a, [], h => by simp at h
  | x :: a, y :: b, h => by
    have ih := xor_cancel_right a b (by simpa using h)
    simp only [xorstr, List.zipWith_cons_cons] at ih ⊢
    rw [ih, Nat.xor_assoc, Nat.xor_self, Nat.xor_zero]

theorem xor_bytes {a b : List Nat} (ha : Bytes a) (hb : Bytes b) : Bytes (xorstr a b) := by
  induction a generalizing b with
  | nil => intro x hx; simp [xorstr] at hx
  | cons x a ih =>
    cases b with
    | nil => intro x hx; simp [xorstr] at hx
    | cons y b =>
      intro z hz
      simp only [xorstr, List.zipWith_cons_cons, List.mem_cons] at hz
      rcases hz with rfl | hz
      · exact Nat.xor_lt_two_pow (n := 8) (ha x (by simp)) (hb y (by simp))
      · exact ih (fun w hw => ha w (List.mem_cons_of_mem _ hw)) (fun w hw => hb w (List.mem_cons_of_mem _ hw)) z hz

theorem xor_isBlock {l : Nat} {a b : List Nat} (ha : IsBlock l a) (hb : IsBlock l b) : IsBlock l (xorstr a b) :=
  ⟨by rw [xor_length, ha.1, hb.1, Nat.min_self], xor_bytes ha.2 hb.2⟩

/-! ### mapE -/
theorem mapE_ok {α β} (f : α → Except Err β) (g : α → β) :
    ∀ (l : List α), (∀ a ∈ l, f a = .ok (g a)) → mapE f l = .ok (l.map g)
  | [], _ => rfl
  | a :: as, h => by
    have h1 := h a (by simp)
    have h2 := mapE_ok f g as (fun x hx => h x (List.mem_cons_of_mem _ hx))
    simp [mapE, h1, h2]

/-! ### readBlocks -/
theorem readBlocks_length (l : Nat) : ∀ (n : Nat) (X : List Nat), (readBlocks l n X).length = n
  | 0, _ => rfl
  | n+1, X => by simp [readBlocks, readBlocks_length l n]

/-- reading k+j blocks from A ++ B when A is exactly k blocks -/
theorem readBlocks_append (l : Nat) : ∀ (k j : Nat) (A B : List Nat), A.length = k * l →
    readBlocks l (k + j) (A ++ B) = readBlocks l k A ++ readBlocks l j B
  | 0, j, A, B, h => by
    have : A = [] := List.length_eq_zero_iff.1 (by simpa using h)
    subst this; simp [readBlocks]
  | k+1, j, A, B, h => by
    have hl : l ≤ A.length := by rw [h, Nat.succ_mul]; omega
    have e : k + 1 + j = (k + j) + 1 := by omega
    rw [e]
    simp only [readBlocks]
    rw [List.take_append_of_le_length hl, List.drop_append_of_le_length hl,
        readBlocks_append l k j (A.drop l) B (by rw [List.length_drop, h, Nat.succ_mul]; omega)]
    rfl

theorem readBlocks_all (l : Nat) : ∀ (n : Nat) (X : List Nat), X.length = n * l →
    ∀ b ∈ readBlocks l n X, b.length = l
  | 0, _, _, b, hb => by simp [readBlocks] at hb
  | n+1, X, h, b, hb => by
    have hl : l ≤ X.length := by rw [h, Nat.succ_mul]; omega
    simp only [readBlocks, List.mem_cons] at hb
    rcases hb with rfl | hb
    · simp [List.length_take, hl]
    · exact readBlocks_all l n (X.drop l) (by rw [List.length_drop, h, Nat.succ_mul]; omega) b hb

theorem readBlocks_bytes (l : Nat) : ∀ (n : Nat) (X : List Nat), Bytes X → ∀ b ∈ readBlocks l n X, Bytes b
  | 0, _, _, b, hb => by simp [readBlocks] at hb
  | n+1, X, h, b, hb => by
    simp only [readBlocks, List.mem_cons] at hb
    rcases hb with rfl | hb
    · exact h.take l
    · exact readBlocks_bytes l n (X.drop l) (h.drop l) b hb

theorem readBlocks_isBlock {l n : Nat} {X : List Nat} (hlen : X.length = n * l) (hb : Bytes X) :
    ∀ b ∈ readBlocks l n X, IsBlock l b :=
  fun b h => ⟨readBlocks_all l n X hlen b h, readBlocks_bytes l n X hb b h⟩

/-- joining what was read gives the input back (when it had at most n blocks) -/
theorem join_readBlocks (l : Nat) : ∀ (n : Nat) (X : List Nat), X.length ≤ n * l → join (readBlocks l n X) = X
  | 0, X, h => by
    have : X = [] := List.length_eq_zero_iff.1 (by omega)
    subst this; rfl
  | n+1, X, h => by
    simp only [readBlocks, join, List.flatten_cons]
    have := join_readBlocks l n (X.drop l) (by rw [List.length_drop, Nat.succ_mul] at *; omega)
    simp only [join] at this
    rw [this, List.take_append_drop]

/-- reading back a concatenation of full blocks -/
theorem readBlocks_join (l : Nat) : ∀ (Bs : List (List Nat)), (∀ b ∈ Bs, b.length = l) →
    readBlocks l Bs.length (join Bs) = Bs
  | [], _ => rfl
  | b :: Bs, h => by
    have hb : b.length = l := h b (by simp)
    simp only [List.length_cons, readBlocks, join, List.flatten_cons]
    rw [List.take_left' hb, List.drop_left' hb]
    have := readBlocks_join l Bs (fun x hx => h x (List.mem_cons_of_mem _ hx))
    simp only [join] at this
    rw [this]

theorem length_join_of_all (l : Nat) : ∀ (Bs : List (List Nat)), (∀ b ∈ Bs, b.length = l) →
    (join Bs).length = Bs.length * l
  | [], _ => by simp [join]
  | b :: Bs, h => by
    have := length_join_of_all l Bs (fun x hx => h x (List.mem_cons_of_mem _ hx))
    simp only [join] at this
    simp only [join, List.flatten_cons, List.length_append, List.length_cons, this, h b (by simp), Nat.succ_mul]
    omega

/-- the Spec's block splitting, as a left-to-right read -/
theorem range_map_eq_readBlocks (l : Nat) : ∀ (n : Nat) (X : List Nat),
    (List.range n).map (fun i => (X.drop (i * l)).take l) = readBlocks l n X
  | 0, _ => rfl
  | n+1, X => by
    rw [List.range_succ_eq_map]
    simp only [List.map_cons, List.map_map, readBlocks, Nat.zero_mul, List.drop_zero]
    congr 1
    rw [← range_map_eq_readBlocks l n (X.drop l)]
    apply List.map_congr_left
    intro i _
    simp only [Function.comp, List.drop_drop, Nat.succ_mul]
    congr 2; omega

theorem spec_blocks_eq (l : Nat) (X : List Nat) :
    Spec.Mode.blocks l X = readBlocks l ((X.length + l - 1) / l) X :=
  range_map_eq_readBlocks l _ X

/-! ### the padding iterator on a fresh state -/

theorem blocklen_mk (s : Scheme) (l : Nat) : (⟨s, 8 * l⟩ : Padder).blocklen = l := by
  simp [Padder.blocklen]

theorem kdiv (m l : Nat) (hm : 0 < m) : (8 * m - 1) / (8 * l) = (m - 1) / l := by
  rw [← Nat.div_div_eq_div_mul]
  congr 1; omega

theorem iter_of_last (s : Scheme) (l : Nat) (hl : 0 < l) (M npi : List Nat)
    (h : ∀ st, ∃ st', Padder.lastblock ⟨s, 8 * l⟩ st (M.drop (((M.length - 1) / l) * l)) none = .ok (npi, st')) :
    iter ⟨s, 8 * l⟩ M
      = (readBlocks l ((M.length - 1) / l) M ++ (npi.take l :: if (npi.drop l).length > 0 then [npi.drop l] else []), none) := by
  have hk : (if 8 * M.length = 0 then 0 else (8 * M.length - 1) / (8 * l)) = (M.length - 1) / l := by
    by_cases hm : M.length = 0
    · simp [hm]
    · rw [if_neg (by omega), kdiv _ _ (by omega)]
  have hpi : (M.drop (((M.length - 1) / l) * l)).take l = M.drop (((M.length - 1) / l) * l) := by
    apply List.take_of_length_le
    rw [List.length_drop]
    have h1 := Nat.div_add_mod (M.length - 1) l
    have h2 := Nat.mod_lt (M.length - 1) hl
    rw [Nat.mul_comm]
    generalize l * ((M.length - 1) / l) = q at *
    omega
  have hlc : (⟨s, 8 * l⟩ : Padder).loopCount (8 * M.length) = (M.length - 1) / l := by
    simp only [Padder.loopCount]; exact hk
  have hba : (⟨s, 8 * l⟩ : Padder).blockAt M ((M.length - 1) / l) = M.drop (((M.length - 1) / l) * l) := by
    simp only [Padder.blockAt, blocklen_mk]; exact hpi
  have hr : List.map (fun x : List Nat × PadState => x.fst)
      ((⟨s, 8 * l⟩ : Padder).loopYields {} M ((M.length - 1) / l)) = readBlocks l ((M.length - 1) / l) M := by
    simp only [Padder.loopYields, Padder.blockAt, blocklen_mk]
    rw [List.map_map, ← range_map_eq_readBlocks]; rfl
  unfold iter Padder.iterblocks
  simp only [hlc, hba, Option.getD_none, Option.map_none]
  obtain ⟨st', hst⟩ := h { bitcnt := ({} : PadState).bitcnt + (M.length - 1) / l * (8 * l) }
  simp only [hst, Padder.finishTail, blocklen_mk, Bool.false_eq_true, if_false, Nat.lt_irrefl, gt_iff_lt, Bool.not_true, false_and, if_true]
  by_cases hd : 0 < (List.drop l npi).length
  · simp only [hd, if_true, List.map_append, hr]; simp
  · simp only [hd, if_false, List.map_append, hr]; simp

/-- arithmetic of the last piece: k = (m-1)/l full blocks are yielded by the loop, r = m - k·l bytes remain -/
theorem last_piece (m l : Nat) (hl : 0 < l) :
    ((m - 1) / l) * l ≤ m ∧ m - ((m - 1) / l) * l ≤ l ∧ (0 < m → 0 < m - ((m - 1) / l) * l) ∧
    (m - ((m - 1) / l) * l) % l = m % l ∧ m / l = (m - 1) / l + (m - ((m - 1) / l) * l) / l := by
  have h1 := Nat.div_add_mod (m - 1) l
  have h2 := Nat.mod_lt (m - 1) hl
  have e : m = ((m - 1) / l) * l + (m - ((m - 1) / l) * l) := by
    rw [Nat.mul_comm]; generalize l * ((m - 1) / l) = q at *; omega
  refine ⟨?_, ?_, ?_, ?_, ?_⟩
  · rw [Nat.mul_comm]; generalize l * ((m - 1) / l) = q at *; omega
  · rw [Nat.mul_comm]; generalize l * ((m - 1) / l) = q at *; omega
  · rw [Nat.mul_comm]; generalize l * ((m - 1) / l) = q at *; omega
  · conv => rhs; rw [e]
    rw [Nat.mul_comm, Nat.mul_add_mod]
  · conv => lhs; rw [e]
    rw [Nat.mul_comm, Nat.mul_add_div hl]

theorem tail_blocks (l : Nat) (npi : List Nat) (j : Nat) (h : npi.length = j * l) (hl : 0 < l) (hj : j = 1 ∨ j = 2) :
    (npi.take l :: if (npi.drop l).length > 0 then [npi.drop l] else []) = readBlocks l j npi := by
  rcases hj with rfl | rfl
  · have : (npi.drop l).length = 0 := by rw [List.length_drop]; omega
    simp [readBlocks, this]
  · have h2 : (npi.drop l).length = l := by rw [List.length_drop]; omega
    have : (npi.drop l).take l = npi.drop l := List.take_of_length_le (by omega)
    simp [readBlocks, h2, hl, this]

theorem blocks_of_mult (l n : Nat) (hl : 0 < l) (X : List Nat) (h : X.length = n * l) :
    Spec.Mode.blocks l X = readBlocks l n X := by
  rw [spec_blocks_eq, h]
  congr 1
  have : n * l + l - 1 = (l - 1) + l * n := by rw [Nat.mul_comm]; omega
  rw [this, Nat.add_mul_div_left _ _ hl, Nat.div_eq_of_lt (by omega)]; omega

/-- the blocks yielded for a message whose last piece is extended to `npi` (one or two whole blocks) -/
theorem iter_blocks (s : Scheme) (l : Nat) (hl : 0 < l) (M pad : List Nat) (j : Nat) (hj : j = 1 ∨ j = 2)
    (hlen : (M.drop (((M.length - 1) / l) * l) ++ pad).length = j * l)
    (h : ∀ st, ∃ st', Padder.lastblock ⟨s, 8 * l⟩ st (M.drop (((M.length - 1) / l) * l)) none
        = .ok (M.drop (((M.length - 1) / l) * l) ++ pad, st')) :
    iter ⟨s, 8 * l⟩ M = (readBlocks l ((M.length - 1) / l + j) (M ++ pad), none) := by
  rw [iter_of_last s l hl M _ h, tail_blocks l _ j hlen hl hj]
  have hk := (last_piece M.length l hl).1
  have e : M ++ pad = M.take (((M.length - 1) / l) * l) ++ (M.drop (((M.length - 1) / l) * l) ++ pad) := by
    rw [← List.append_assoc, List.take_append_drop]
  have e2 : readBlocks l ((M.length - 1) / l) M = readBlocks l ((M.length - 1) / l) (M.take (((M.length - 1) / l) * l)) := by
    have := readBlocks_append l ((M.length - 1) / l) 0 (M.take (((M.length - 1) / l) * l)) (M.drop (((M.length - 1) / l) * l))
      (by rw [List.length_take]; omega)
    rw [List.take_append_drop] at this
    simpa [readBlocks] using this
  rw [e, readBlocks_append l _ j _ _ (by rw [List.length_take]; omega), e2]

/-- the model's pad length `(l - r) or l` for the last piece of r bytes is the Spec's `l − |M| mod l` -/
theorem model_q (M : List Nat) (l : Nat) (hl : 0 < l) :
    (if l - (M.drop (((M.length - 1) / l) * l)).length = 0 then l else l - (M.drop (((M.length - 1) / l) * l)).length)
      = Spec.ModePad.padLen l M := by
  obtain ⟨h1, h2, h3, h4, h5⟩ := last_piece M.length l hl
  rw [List.length_drop]; unfold Spec.ModePad.padLen
  generalize M.length - (M.length - 1) / l * l = r at *
  by_cases hr : r = l
  · subst hr; rw [Nat.mod_self] at h4; simp [← h4]
  · have : r < l := by omega
    rw [Nat.mod_eq_of_lt this] at h4
    rw [if_neg (by omega), ← h4]

/-- a pad of `padLen` bytes appended by `lastblock`: the generator yields exactly the Spec's blocks of M ‖ pad -/
theorem iter_padded (s : Scheme) (l : Nat) (hl : 0 < l) (M pad : List Nat) (hp : pad.length = Spec.ModePad.padLen l M)
    (h : ∀ st, ∃ st', Padder.lastblock ⟨s, 8 * l⟩ st (M.drop (((M.length - 1) / l) * l)) none
        = .ok (M.drop (((M.length - 1) / l) * l) ++ pad, st')) :
    iter ⟨s, 8 * l⟩ M = (Spec.Mode.blocks l (M ++ pad), none) ∧ (M ++ pad).length = (M.length / l + 1) * l := by
  obtain ⟨h1, h2, h3, h4, h5⟩ := last_piece M.length l hl
  have hq := model_q M l hl
  have hlen : (M ++ pad).length = (M.length / l + 1) * l := by
    rw [List.length_append, hp]; unfold Spec.ModePad.padLen
    have := Nat.div_add_mod M.length l
    have := Nat.mod_lt M.length hl
    rw [Nat.succ_mul, Nat.mul_comm]; generalize l * (M.length / l) = q at *; omega
  refine ⟨?_, hlen⟩
  rw [blocks_of_mult l _ hl _ hlen]
  rw [List.length_drop] at hq
  by_cases hr : M.length - (M.length - 1) / l * l = l
  · rw [iter_blocks s l hl M pad 2 (Or.inr rfl) _ h]
    · rw [h5, hr, Nat.div_self hl]
    · rw [List.length_append, List.length_drop, hp, ← hq, hr]; simp; omega
  · rw [iter_blocks s l hl M pad 1 (Or.inl rfl) _ h]
    · rw [h5, Nat.div_eq_of_lt (a := M.length - (M.length - 1) / l * l) (by omega)]
    · rw [List.length_append, List.length_drop, hp, ← hq]
      rw [if_neg (by omega)]; omega

def toModel : Spec.ModePad.Scheme → Scheme
  | .none => .no
  | .pkcs7 => .pkcs7
  | .x923 => .x923
  | .bit => .bit

theorem padLen_pos (l : Nat) (hl : 0 < l) (M : List Nat) : 0 < Spec.ModePad.padLen l M ∧ Spec.ModePad.padLen l M ≤ l := by
  unfold Spec.ModePad.padLen
  have := Nat.mod_lt M.length hl
  omega

theorem iter_pkcs7 (l : Nat) (hl : 0 < l) (h256 : l < 256) (M : List Nat) :
    iter ⟨.pkcs7, 8 * l⟩ M = (Spec.Mode.blocks l (Spec.ModePad.pkcs7 l M), none) := by
  refine (iter_padded .pkcs7 l hl M _ (by simp) ?_).1
  intro st
  have hq := model_q M l hl
  have := padLen_pos l hl M
  simp only [Padder.lastblock, blocklen_mk, hq]
  rw [if_neg (by omega)]
  exact ⟨_, rfl⟩

theorem iter_x923 (l : Nat) (hl : 0 < l) (h256 : l < 256) (M : List Nat) :
    iter ⟨.x923, 8 * l⟩ M = (Spec.Mode.blocks l (Spec.ModePad.x923 l M), none) := by
  have hp := padLen_pos l hl M
  have e : Spec.ModePad.x923 l M = M ++ (List.replicate (Spec.ModePad.padLen l M - 1) 0 ++ [Spec.ModePad.padLen l M]) := by
    simp [Spec.ModePad.x923]
  rw [e]
  refine (iter_padded .x923 l hl M _ (by simp; omega) ?_).1
  intro st
  have hq := model_q M l hl
  simp only [Padder.lastblock, blocklen_mk, hq]
  rw [if_neg (by omega)]
  exact ⟨_, by rw [List.append_assoc]⟩

theorem lastblock_no (l : Nat) (st : PadState) (m : List Nat) :
    ∃ st', Padder.lastblock ⟨.no, 8 * l⟩ st m none = .ok (m, st') := ⟨_, rfl⟩

/-- nopadding, any message: the loop's full blocks, then the last piece (1..l bytes; empty for the empty message) -/
theorem iter_no (l : Nat) (hl : 0 < l) (M : List Nat) :
    iter ⟨.no, 8 * l⟩ M = (readBlocks l ((M.length - 1) / l + 1) M, none) := by
  have h := iter_of_last .no l hl M (M.drop (((M.length - 1) / l) * l)) (fun st => lastblock_no l st _)
  rw [h]
  obtain ⟨h1, h2, h3, h4, h5⟩ := last_piece M.length l hl
  have hlen : (M.drop (((M.length - 1) / l) * l)).length ≤ l := by rw [List.length_drop]; exact h2
  have hd : (List.drop l (M.drop (((M.length - 1) / l) * l))).length = 0 := by rw [List.length_drop]; omega
  rw [List.take_of_length_le hlen]
  simp only [hd, Nat.lt_irrefl, gt_iff_lt, if_false]
  have e2 := readBlocks_append l ((M.length - 1) / l) 1 (M.take (((M.length - 1) / l) * l)) (M.drop (((M.length - 1) / l) * l))
      (by rw [List.length_take]; omega)
  have e3 := readBlocks_append l ((M.length - 1) / l) 0 (M.take (((M.length - 1) / l) * l)) (M.drop (((M.length - 1) / l) * l))
      (by rw [List.length_take]; omega)
  rw [List.take_append_drop] at e2 e3
  have e4 : readBlocks l ((M.length - 1) / l) M = readBlocks l ((M.length - 1) / l) (M.take (((M.length - 1) / l) * l)) := by
    simpa [readBlocks] using e3
  rw [e2, ← e4]
  simp [readBlocks, List.take_of_length_le hlen]

theorem iter_no_mult (l : Nat) (hl : 0 < l) (M : List Nat) (hm : M.length % l = 0) (hpos : 0 < M.length) :
    iter ⟨.no, 8 * l⟩ M = (Spec.Mode.blocks l M, none) := by
  rw [iter_no l hl]
  obtain ⟨h1, h2, h3, h4, h5⟩ := last_piece M.length l hl
  have hr : M.length - (M.length - 1) / l * l = l := by
    have := h3 hpos
    rw [hm] at h4
    rcases Nat.lt_or_ge (M.length - (M.length - 1) / l * l) l with h | h
    · rw [Nat.mod_eq_of_lt h] at h4; omega
    · omega
  have : M.length = ((M.length - 1) / l + 1) * l := by rw [Nat.succ_mul]; omega
  rw [blocks_of_mult l _ hl M this]

/-! ### removing the padding -/

theorem remove_pkcs7 (l : Nat) (hl : 0 < l) (M : List Nat) (st : PadState) :
    Padder.remove ⟨.pkcs7, 8 * l⟩ st (Spec.ModePad.pkcs7 l M) = .ok M := by
  have hq := padLen_pos l hl M
  generalize hqe : Spec.ModePad.padLen l M = q at hq
  have hlast : (M ++ List.replicate q q).getLast? = some q := by
    rw [List.getLast?_append, List.getLast?_replicate, if_neg (by omega)]; rfl
  simp only [Padder.remove, Spec.ModePad.pkcs7, hqe, hlast, blocklen_mk]
  have hlen : (M ++ List.replicate q q).length - q = M.length := by simp
  rw [hlen, if_neg (by omega : ¬ q = 0), List.drop_left' rfl, List.take_left' rfl, if_neg (by simp; omega)]

theorem remove_x923 (l : Nat) (hl : 0 < l) (M : List Nat) (st : PadState) :
    Padder.remove ⟨.x923, 8 * l⟩ st (Spec.ModePad.x923 l M) = .ok M := by
  have hq := padLen_pos l hl M
  generalize hqe : Spec.ModePad.padLen l M = q at hq
  have hlast : (M ++ List.replicate (q - 1) 0 ++ [q]).getLast? = some q := List.getLast?_concat
  have e : M ++ List.replicate (q - 1) 0 ++ [q] = M ++ (List.replicate (q - 1) 0 ++ [q]) := List.append_assoc _ _ _
  have hlen : (List.replicate (q - 1) 0 ++ [q]).length = q := by simp; omega
  simp only [Padder.remove, Spec.ModePad.x923, hqe, hlast, blocklen_mk]
  rw [if_neg (by omega), e]
  simp only [List.length_append, hlen, Nat.add_sub_cancel, List.drop_left' rfl, List.take_left' rfl]
  have hmin : min q (M.length + q) - 1 = q - 1 := by rw [Nat.min_eq_left (by omega)]
  rw [hmin, List.take_left' (by simp)]
  simp

theorem remove_no (l : Nat) (M : List Nat) (st : PadState) : Padder.remove ⟨.no, 8 * l⟩ st M = .ok M := rfl


/-! ### the cipher hypotheses; CBC chaining -/

/-- the hypotheses under which the mode theorems hold: the model cipher `c` computes the total functions (E, D) of
    the Spec cipher `k` on byte blocks of its length, and these are mutually inverse permutations of the byte blocks -/
structure Implements (c : BlockCipher) (k : Spec.Mode.Cipher) : Prop where
  len_eq : k.len = c.len
  len_pos : 0 < c.len
  enc_ok : ∀ b, IsBlock c.len b → c.enc b = .ok (k.E b)
  dec_ok : ∀ b, IsBlock c.len b → c.dec b = .ok (k.D b)
  E_block : ∀ b, IsBlock c.len b → IsBlock c.len (k.E b)
  D_block : ∀ b, IsBlock c.len b → IsBlock c.len (k.D b)
  D_E : ∀ b, IsBlock c.len b → k.D (k.E b) = b
  E_D : ∀ b, IsBlock c.len b → k.E (k.D b) = b

/-- the total block functions a model cipher computes (the empty string where it raises) -/
def specOf (c : BlockCipher) : Spec.Mode.Cipher :=
  ⟨c.len, fun b => match c.enc b with | .ok y => y | .error _ => [],
          fun b => match c.dec b with | .ok y => y | .error _ => []⟩

/-- the permutation hypotheses stated on the model cipher alone (what C03 proves for AES, DES, TDEA, Serpent, Threefish):
    on byte blocks enc and dec succeed, preserve the block format and invert each other -/
theorem implements_of_model (c : BlockCipher) (hpos : 0 < c.len)
    (henc : ∀ b, IsBlock c.len b → ∃ y, c.enc b = .ok y ∧ IsBlock c.len y ∧ c.dec y = .ok b)
    (hdec : ∀ y, IsBlock c.len y → ∃ b, c.dec y = .ok b ∧ IsBlock c.len b ∧ c.enc b = .ok y) :
    Implements c (specOf c) where
  len_eq := rfl
  len_pos := hpos
  enc_ok := fun b hb => by obtain ⟨y, h1, _, _⟩ := henc b hb; simp [specOf, h1]
  dec_ok := fun b hb => by obtain ⟨y, h1, _, _⟩ := hdec b hb; simp [specOf, h1]
  E_block := fun b hb => by obtain ⟨y, h1, h2, _⟩ := henc b hb; simpa [specOf, h1] using h2
  D_block := fun b hb => by obtain ⟨y, h1, h2, _⟩ := hdec b hb; simpa [specOf, h1] using h2
  D_E := fun b hb => by obtain ⟨y, h1, _, h3⟩ := henc b hb; simp [specOf, h1, h3]
  E_D := fun b hb => by obtain ⟨y, h1, _, h3⟩ := hdec b hb; simp [specOf, h1, h3]

theorem mkPad_ok (c : BlockCipher) (s : Scheme) (h : 0 < c.len) : mkPad c s = .ok ⟨s, 8 * c.len⟩ := by
  unfold mkPad Padder.mk?
  rw [if_neg (by omega), if_neg (by omega)]

variable {c : BlockCipher} {k : Spec.Mode.Cipher}

theorem cbcChain_eq (h : Implements c k) : ∀ (P : List (List Nat)) (iv : List Nat), IsBlock c.len iv →
    (∀ b ∈ P, IsBlock c.len b) →
    cbcChain c iv P = .ok (Spec.Mode.cbcEncrypt k iv P) ∧ ∀ b ∈ Spec.Mode.cbcEncrypt k iv P, IsBlock c.len b
  | [], iv, _, _ => ⟨rfl, by intro b hb; simp [Spec.Mode.cbcEncrypt] at hb⟩
  | p :: ps, iv, hiv, hP => by
    have hx : IsBlock c.len (xorstr p iv) := xor_isBlock (hP p (by simp)) hiv
    have hy := h.E_block _ hx
    obtain ⟨ih1, ih2⟩ := cbcChain_eq h ps (k.E (xorstr p iv)) hy (fun b hb => hP b (List.mem_cons_of_mem _ hb))
    constructor
    · simp only [cbcChain, h.enc_ok _ hx, ih1, Spec.Mode.cbcEncrypt, ← xorstr_eq_spec]
    · intro b hb
      simp only [Spec.Mode.cbcEncrypt, ← xorstr_eq_spec, List.mem_cons] at hb
      rcases hb with rfl | hb
      · exact hy
      · exact ih2 b hb

/-- decrypting the chain gives the plaintext blocks back -/
theorem cbcDecrypt_encrypt (h : Implements c k) : ∀ (P : List (List Nat)) (iv : List Nat), IsBlock c.len iv →
    (∀ b ∈ P, IsBlock c.len b) → Spec.Mode.cbcDecrypt k iv (Spec.Mode.cbcEncrypt k iv P) = P
  | [], _, _, _ => rfl
  | p :: ps, iv, hiv, hP => by
    have hp := hP p (by simp)
    have hx : IsBlock c.len (xorstr p iv) := xor_isBlock hp hiv
    simp only [Spec.Mode.cbcEncrypt, Spec.Mode.cbcDecrypt, ← xorstr_eq_spec]
    rw [h.D_E _ hx, xor_cancel_right p iv (by rw [hp.1, hiv.1]; exact Nat.le_refl _),
        cbcDecrypt_encrypt h ps _ (h.E_block _ hx) (fun b hb => hP b (List.mem_cons_of_mem _ hb))]

/-- the block preceding the end of `c0 :: rs.reverse` -/
def prevOf (c0 : List Nat) : List (List Nat) → List Nat
  | [] => c0
  | p :: _ => p

theorem cbcDecrypt_snoc (k : Spec.Mode.Cipher) : ∀ (xs : List (List Nat)) (c0 y : List Nat),
    Spec.Mode.cbcDecrypt k c0 (xs ++ [y]) = Spec.Mode.cbcDecrypt k c0 xs ++ [Spec.Mode.xor (k.D y) (prevOf c0 xs.reverse)]
  | [], c0, y => by simp [Spec.Mode.cbcDecrypt, prevOf]
  | x :: xs, c0, y => by
    simp only [List.cons_append, Spec.Mode.cbcDecrypt, cbcDecrypt_snoc k xs x y]
    congr 3
    cases hr : xs.reverse with
    | nil => simp [List.reverse_eq_nil_iff.1 hr, prevOf]
    | cons a as => simp [hr, prevOf]

theorem join_snoc (Bs : List (List Nat)) (b : List Nat) : join (Bs ++ [b]) = join Bs ++ b := by
  simp [join]

/-- the last l bytes of `c0 ‖ rs.reverse` -/
theorem last_of_join (l : Nat) (c0 : List Nat) (rs : List (List Nat)) (h0 : c0.length = l) (hr : ∀ b ∈ rs, b.length = l) :
    (join (c0 :: rs.reverse)).drop ((join (c0 :: rs.reverse)).length - l) = prevOf c0 rs := by
  cases rs with
  | nil => simp [join, prevOf, h0]
  | cons p rs =>
    have hp : p.length = l := hr p (by simp)
    rw [List.reverse_cons, ← List.cons_append, join_snoc, List.length_append, hp, Nat.add_sub_cancel,
        List.drop_left' rfl]
    rfl

theorem cbcUnchain_rev (h : Implements c k) : ∀ (rs : List (List Nat)) (c0 : List Nat) (acc : List (List Nat)) (fuel : Nat),
    c0.length = c.len → (∀ b ∈ rs, IsBlock c.len b) → rs.length ≤ fuel →
    cbcUnchain c c.len fuel (join (c0 :: rs.reverse)) acc = .ok (Spec.Mode.cbcDecrypt k c0 rs.reverse ++ acc)
  | [], c0, acc, fuel, h0, _, _ => by
    cases fuel with
    | zero => simp [cbcUnchain, Spec.Mode.cbcDecrypt]
    | succ f => simp [cbcUnchain, join, h0, Spec.Mode.cbcDecrypt]
  | last :: rs, c0, acc, fuel, h0, hrs, hf => by
    cases fuel with
    | zero => simp at hf
    | succ f =>
      have hl := hrs last (by simp)
      have hrs' : ∀ b ∈ rs, IsBlock c.len b := fun b hb => hrs b (List.mem_cons_of_mem _ hb)
      have e : join (c0 :: (last :: rs).reverse) = join (c0 :: rs.reverse) ++ last := by
        rw [List.reverse_cons, ← List.cons_append, join_snoc]
      have hlen : (join (c0 :: rs.reverse)).length ≥ c.len := by
        simp only [join, List.flatten_cons, List.length_append, h0]; omega
      have hpos := h.len_pos
      rw [e]
      unfold cbcUnchain
      rw [if_pos (by rw [List.length_append, hl.1]; omega)]
      simp only [List.length_append, hl.1, Nat.add_sub_cancel, List.drop_left' rfl, List.take_left' rfl, h.dec_ok _ hl]
      rw [last_of_join c.len c0 rs h0 (fun b hb => (hrs' b hb).1)]
      rw [cbcUnchain_rev h rs c0 _ f h0 hrs' (by simp at hf; omega)]
      rw [List.reverse_cons, cbcDecrypt_snoc, List.reverse_reverse, List.append_assoc, ← xorstr_eq_spec, xor_comm]
      rfl


end Proofs.Lemmas.ModeL
