/-
  Lemmas for C04 / FIPS 202, part 2: rc(t), the round constants, ι, Rnd, the string ⇔ state-array conversions and
  KECCAK-p[b,nr] of Spec.Fips202 versus Spec.Keccak under the lane/bit correspondence.
-/
import Proofs.Lemmas.Fips202Step
namespace Proofs.Lemmas.Fips202Perm
open Spec.Fips202 Proofs.Lemmas.KeccakSponge Proofs.Lemmas.Fips202Step

/-! ### rc(t) -/

def rcCheck : Bool := (List.range 255).all fun m => rc (m : Int) == Spec.Keccak.rc m

theorem rcCheck_true : rcCheck = true := by decide +kernel

theorem rc_congr {t t' : Int} (h : mod t 255 = mod t' 255) : rc t = rc t' := by
  unfold rc; rw [h]

/-- Algorithm 5 as transcribed bit by bit = the LFSR of Spec.Keccak, for every t -/
theorem rc_agree (t : Nat) : rc (t : Int) = Spec.Keccak.rc t := by
  have h1 : rc (t : Int) = rc ((t % 255 : Nat) : Int) := rc_congr (by simp only [mod_natCast, Nat.mod_mod])
  have h2 : Spec.Keccak.rc t = Spec.Keccak.rc (t % 255) := by simp only [Spec.Keccak.rc, Nat.mod_mod]
  rw [h1, h2]
  have := List.all_eq_true.mp rcCheck_true (t % 255) (List.mem_range.mpr (Nat.mod_lt _ (by decide)))
  simpa using this

theorem rcCache_eq (i : Nat) (h : i < 255) : Spec.Keccak.rcCache.getD i false = Spec.Keccak.rc i := by
  simp [Spec.Keccak.rcCache, Array.getD_eq_getD_getElem?, h]

/-! ### the round constant RC[ir] -/

theorem bit_set (l : Str) (p : Nat) (v : Bool) (z : Nat) :
    bit (l.set p v) z = if p = z ∧ p < l.length then v else bit l z := by
  simp only [bit, List.getD_eq_getElem?_getD, List.getElem?_set]
  by_cases h1 : p = z
  · by_cases h2 : p < l.length
    · simp [h1]; rw [← h1]; simp [h2]
    · subst h1
      simp [h2]
  · simp [h1]

theorem pow_sub_one_inj {j n : Nat} (h : j < n) : 2 ^ j - 1 ≠ 2 ^ n - 1 := by
  have h1 : 2 ^ j < 2 ^ n := Nat.pow_lt_pow_right (by decide) h
  have h2 : 0 < 2 ^ j := Nat.two_pow_pos j
  omega

/-- which bits of RC the loop "for j from 0 to n−1: RC[2^j − 1] = c(j)" sets, from RC = 0^w -/
def rcBits (w : Nat) (c : Nat → Bool) (n z : Nat) : Bool :=
  decide (z < w) && (List.range n).any fun j => decide (2 ^ j - 1 = z) && c j

theorem setLoop_bits (w : Nat) (c : Nat → Bool) : ∀ n z,
    ((List.range n).foldl (fun (R : Str) (j : Nat) => R.set (2 ^ j - 1) (c j)) (zeros w)).length = w ∧
    bit ((List.range n).foldl (fun (R : Str) (j : Nat) => R.set (2 ^ j - 1) (c j)) (zeros w)) z = rcBits w c n z := by
  intro n
  induction n with
  | zero => intro z; simp [zeros, rcBits, bit_replicate_false]
  | succ n ih =>
    intro z
    rw [List.range_succ, List.foldl_append, List.foldl_cons, List.foldl_nil]
    refine ⟨by rw [List.length_set]; exact (ih z).1, ?_⟩
    rw [bit_set, (ih z).1, (ih z).2]
    simp only [rcBits, List.range_succ, List.any_append, List.any_cons, List.any_nil, Bool.or_false]
    by_cases hp : 2 ^ n - 1 = z
    · subst hp
      have hnone : ((List.range n).any fun j => decide (2 ^ j - 1 = 2 ^ n - 1) && c j) = false := by
        rw [List.any_eq_false]
        intro j hj
        simp [pow_sub_one_inj (List.mem_range.mp hj)]
      by_cases hz : 2 ^ n - 1 < w <;> simp [hz, hnone]
    · simp [hp]

theorem orLoop_bits (w : Nat) (c : Nat → Bool) : ∀ n z,
    ((List.range n).foldl (fun (acc : BitVec w) (j : Nat) =>
        if c j then acc ||| BitVec.twoPow w (2 ^ j - 1) else acc) 0).getLsbD z = rcBits w c n z := by
  intro n
  induction n with
  | zero => intro z; simp [rcBits]
  | succ n ih =>
    intro z
    rw [List.range_succ, List.foldl_append, List.foldl_cons, List.foldl_nil]
    by_cases hc : c n
    · rw [if_pos hc, BitVec.getLsbD_or, ih z, BitVec.getLsbD_twoPow]
      simp only [rcBits, List.range_succ, List.any_append, List.any_cons, List.any_nil, Bool.or_false, hc, Bool.and_true]
      by_cases hp : 2 ^ n - 1 = z
      · subst hp; cases decide (2 ^ n - 1 < w) <;> simp
      · simp [hp]
    · rw [if_neg hc, ih z]
      simp [rcBits, List.range_succ, hc]

/-- Algorithm 6 steps 2–3 as transcribed = the round constant of Spec.Keccak, every lane size, every round index -/
theorem RC_agree (w ir z : Nat) : bit (RC w (ir : Int)) z = (Spec.Keccak.RC w ir).getLsbD z := by
  have hc : (fun j : Nat => rc ((j : Int) + 7 * (ir : Int))) =
      fun j : Nat => Spec.Keccak.rcCache.getD ((j + 7 * ir) % 255) false := by
    funext j
    rw [rcCache_eq _ (Nat.mod_lt _ (by decide))]
    have : ((j : Int) + 7 * (ir : Int)) = ((j + 7 * ir : Nat) : Int) := by omega
    rw [this, rc_agree]
    simp only [Spec.Keccak.rc, Nat.mod_mod]
  unfold RC Spec.Keccak.RC
  rw [(setLoop_bits w _ _ z).2, hc, orLoop_bits]

theorem RC_length (w : Nat) (ir : Int) : (RC w ir).length = w := (setLoop_bits w _ _ 0).1

/-! ### ι, Rnd -/

/-- Algorithm 6 = the lane-level ι -/
theorem iota_agree (w : Nat) (A : StateArray) (ir : Nat) :
    lanes w (iota w A (ir : Int)) = Spec.Keccak.iota (lanes w A) ir := by
  unfold Spec.Keccak.iota
  apply lanes_eq_mkState
  intro x hx y hy z hz
  by_cases h : x = 0 ∧ y = 0
  · obtain ⟨rfl, rfl⟩ := h
    rw [if_pos ⟨rfl, rfl⟩, BitVec.getLsbD_xor, lane_lanes, getLsbD_laneOf, ← RC_agree]
    simp only [iota, bit, hz, decide_true, Bool.true_and, Nat.zero_mod, and_self, if_true]
  · rw [if_neg h, lane_lanes, getLsbD_laneOf]
    simp only [iota, if_neg h, hz, decide_true, Bool.true_and, Nat.mod_eq_of_lt hx, Nat.mod_eq_of_lt hy]

/-- Rnd(A, ir) = ι(χ(π(ρ(θ(A)))), ir) on bits = the lane-level round -/
theorem Rnd_agree {w : Nat} (hw : 0 < w) (A : StateArray) (ir : Nat) :
    lanes w (Rnd w A (ir : Int)) = Spec.Keccak.rnd (lanes w A) ir := by
  simp only [Rnd, Spec.Keccak.rnd, iota_agree, chi_agree, pi_agree, rho_agree hw, theta_agree hw]

/-! ### §3.1.2 / §3.1.3 -/

/-- §3.1.2 (A[x,y,z] = S[w(5y+x)+z]) gives the state array whose lanes are those of Spec.Keccak.stateOfString -/
theorem lanes_toStateArray (w : Nat) (S : Str) : lanes w (toStateArray w S) = Spec.Keccak.stateOfString w S := by
  apply Vector.ext
  intro i hi
  rw [lanes_getElem w _ i hi]
  simp only [Spec.Keccak.stateOfString, Vector.getElem_ofFn]
  apply BitVec.eq_of_getLsbD_eq
  intro z hz
  rw [getLsbD_laneOf, getLsbD_ofNat_bitsToNat, bit_take, bit_drop]
  have : 5 * (i / 5) + i % 5 = i := by omega
  simp only [toStateArray, this, bit, hz, decide_true, Bool.true_and]

theorem map_getLsbD_laneOf (w : Nat) (A : StateArray) (x y : Nat) :
    (List.range w).map (laneOf w A x y).getLsbD = Lane w A x y := by
  apply List.map_congr_left
  intro z hz
  rw [getLsbD_laneOf]; simp [List.mem_range.mp hz]

/-- §3.1.3 (planes of lanes of bits) is the string of the 25 lanes -/
theorem toStr_eq (w : Nat) (A : StateArray) : toStr w A = Spec.Keccak.stringOfState (lanes w A) := by
  simp only [Spec.Keccak.stringOfState, lanes, Spec.Keccak.mkState, Vector.toList_ofFn, List.ofFn_succ,
    List.ofFn_zero, List.flatMap_cons, List.flatMap_nil, List.append_nil]
  simp only [Fin.val_zero, Fin.val_succ, Nat.reduceAdd, Nat.reduceMod, Nat.reduceDiv, Nat.zero_mod, Nat.zero_div,
    map_getLsbD_laneOf, toStr, Plane, List.append_assoc]

theorem toStr_length (w : Nat) (A : StateArray) : (toStr w A).length = 25 * w := by
  rw [toStr_eq, stringOfState_length]

/-- reading the string of a state array back gives its bits (on 0 ≤ x,y < 5, 0 ≤ z < w) -/
theorem toStateArray_toStr {w : Nat} (A : StateArray) (x y z : Nat) (hx : x < 5) (hy : y < 5) (hz : z < w) :
    toStateArray w (toStr w A) x y z = A x y z := by
  have hw : 0 < w := by omega
  have h1 : (w * (5 * y + x) + z) / w = 5 * y + x := by
    rw [Nat.mul_add_div hw, Nat.div_eq_of_lt hz]; rfl
  have h2 : (w * (5 * y + x) + z) % w = z := by rw [Nat.mul_add_mod]; exact Nat.mod_eq_of_lt hz
  have h3 := bit_stringOfState hw (lanes w A) (w * (5 * y + x) + z)
  rw [h1, h2, getD_toList _ _ (by omega)] at h3
  simp only [toStateArray, toStr_eq]
  simp only [bit] at h3
  rw [h3, lanes_getElem w A _ (by omega), getLsbD_laneOf]
  have e1 : (5 * y + x) % 5 = x := by omega
  have e2 : (5 * y + x) / 5 = y := by omega
  simp [e1, e2, hz]

/-! ### KECCAK-p[b, nr] and KECCAK-f[b] -/

theorem rounds_agree {w : Nat} (hw : 0 < w) (c : Nat) : ∀ (ks : List Nat) (A : StateArray),
    lanes w (ks.foldl (fun (A : StateArray) (k : Nat) => Rnd w A (((c + k : Nat)) : Int)) A)
      = ks.foldl (fun A i => Spec.Keccak.rnd A (c + i)) (lanes w A) := by
  intro ks
  induction ks with
  | nil => intro A; rfl
  | cons k ks ih => intro A; rw [List.foldl_cons, List.foldl_cons, ih, Rnd_agree hw]

theorem foldl_congr_mem {α β} (f g : α → β → α) : ∀ (l : List β) (a : α), (∀ a, ∀ b ∈ l, f a b = g a b) →
    l.foldl f a = l.foldl g a := by
  intro l
  induction l with
  | nil => intro a _; rfl
  | cons b bs ih =>
    intro a h
    rw [List.foldl_cons, List.foldl_cons, h a b (by simp)]
    exact ih _ (fun a b hb => h a b (List.mem_cons_of_mem _ hb))

/-- **Algorithm 7 on bit strings = Keccak-p of Spec.Keccak on lanes**, for every lane size w ≥ 1 (b = 25w), every
    number of rounds nr ≤ 12 + 2ℓ and every string -/
theorem KECCAK_p_agree {w : Nat} (hw : 0 < w) (nr : Nat) (hnr : nr ≤ 12 + 2 * Nat.log2 w) (S : Str) :
    KECCAK_p (25 * w) nr S
      = Spec.Keccak.stringOfState (Spec.Keccak.keccakP w nr (Spec.Keccak.stateOfString w S)) := by
  have hb : 25 * w / 25 = w := Nat.mul_div_cancel_left w (by decide)
  unfold KECCAK_p Spec.Keccak.keccakP
  simp only [hb]
  rw [toStr_eq]
  apply congrArg
  rw [← lanes_toStateArray, ← rounds_agree hw (12 + 2 * Nat.log2 w - nr)]
  apply congrArg
  apply foldl_congr_mem
  intro A k hk
  have hk' : k < nr := List.mem_range.mp hk
  have e : ((12 : Int) + 2 * (Nat.log2 w : Int) - (nr : Int) + (k : Int))
      = ((12 + 2 * Nat.log2 w - nr + k : Nat) : Int) := by omega
  rw [e]

/-- KECCAK-f[25w] on bit strings = Keccak-f of Spec.Keccak -/
theorem KECCAK_f_agree {w : Nat} (hw : 0 < w) (S : Str) : KECCAK_f (25 * w) S = Spec.Keccak.fString w S := by
  have hb : 25 * w / 25 = w := Nat.mul_div_cancel_left w (by decide)
  simp only [KECCAK_f, hb, Spec.Keccak.fString, Spec.Keccak.keccakF, Spec.Keccak.nRounds]
  exact KECCAK_p_agree hw _ (Nat.le_refl _) S

theorem KECCAK_p_length {w : Nat} (nr : Nat) (S : Str) : (KECCAK_p (25 * w) nr S).length = 25 * w := by
  have hb : 25 * w / 25 = w := Nat.mul_div_cancel_left w (by decide)
  simp only [KECCAK_p, hb, toStr_length]

end Proofs.Lemmas.Fips202Perm
