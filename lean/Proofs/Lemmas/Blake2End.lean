/-
  End-to-end pieces for BLAKE2: parameter block, initial chain value, word/byte conversions, the block trace with
  its bytes, the absorb loop of RFC 7693 as a fold.
-/
import Proofs.Lemmas.Blake2Refine
import Proofs.Lemmas.BlakeBytes
import Proofs.Lemmas.BlakeTrace
import Proofs.Lemmas.NullPadBytes
namespace Proofs.Lemmas.Blake2End
open Model Model.Py Proofs.Lemmas.BlakeWords Proofs.Lemmas.BlakeBytes Proofs.Lemmas.Blake2Refine
open Proofs.Lemmas.BlakeTrace Proofs.Lemmas.NullPadBytes

/-- number of chunks -/
theorem chunk_go_length {α} (n : Nat) (hn : n = 4 ∨ n = 8) : ∀ (fuel : Nat) (l : List α), l.length ≤ fuel →
    (Spec.Blake2.chunk.go n l fuel).length = (l.length + n - 1) / n
  | 0, l, h => by
    have : l = [] := List.length_eq_zero_iff.mp (by omega)
    subst this
    rcases hn with rfl | rfl <;> simp [Spec.Blake2.chunk.go]
  | fuel + 1, l, h => by
    simp only [Spec.Blake2.chunk.go]
    split
    · rename_i he
      have : l = [] := by simpa using he
      subst this
      rcases hn with rfl | rfl <;> simp
    · rename_i he
      have hl : 0 < l.length := by
        cases l with
        | nil => simp at he
        | cons _ _ => simp
      rw [List.length_cons, chunk_go_length n hn fuel (l.drop n) (by simp; omega), List.length_drop]
      rcases hn with rfl | rfl <;> omega

theorem words_length (V : Spec.Blake2.Variant) (hw : V.w = 32 ∨ V.w = 64) (bs : List Nat) (hb : bs.length = V.bb) :
    (Spec.Blake2.words V bs).length = 16 := by
  simp only [Spec.Blake2.words, List.length_map, Spec.Blake2.chunk]
  have hn : V.w / 8 = 4 ∨ V.w / 8 = 8 := by rcases hw with h | h <;> rw [h] <;> simp
  rw [chunk_go_length _ hn _ _ (Nat.le_refl _), hb]
  simp only [Spec.Blake2.Variant.bb]
  rcases hw with h | h <;> rw [h]

theorem wordsLE_eq (V : Spec.Blake2.Variant) (hw : V.w = 32 ∨ V.w = 64) (bs : List Nat) :
    Blake2.wordsLE V.w bs = (Spec.Blake2.words V bs).map ofBV := by
  have hn : V.w / 8 ≠ 0 := by rcases hw with h | h <;> rw [h] <;> simp
  simp only [Blake2.wordsLE, Spec.Blake2.words, chunks_eq2 _ hn, List.map_map]
  apply List.map_congr_left
  intro g _
  simp [wd_eq, leInt_eq]

/-- digest bytes -/
theorem digest_eq (V : Spec.Blake2.Variant) (hw8 : V.w % 8 = 0) (n : Nat) (h : List (BitVec V.w)) :
    Blake2.digest n (h.map ofBV) = Spec.Blake2.output V n h := by
  simp only [Blake2.digest, Spec.Blake2.output, List.flatMap_map]
  congr 1
  induction h with
  | nil => rfl
  | cons x xs ih => simp only [List.flatMap_cons, ih, Spec.Blake2.wordBytes, pack_le x hw8]

/-- the keyword arguments with which the code is called for specification parameters `sp` -/
def toModel (sp : Spec.Blake2.Params) : Blake2.Params :=
  { outlen := some sp.digestLength, salt := sp.salt, pers := sp.personal, fanout := sp.fanout, depth := sp.depth,
    leafl := sp.leafLength, noffset := sp.nodeOffset, ndepth := sp.nodeDepth, inner := sp.innerLength }

/-- model configuration and specification variant that belong together -/
def Pair (c : Blake.Cfg) (V : Spec.Blake2.Variant) : Prop :=
  (c = Blake2.blake2b ∧ V = Spec.Blake2.blake2b) ∨ (c = Blake2.blake2s ∧ V = Spec.Blake2.blake2s)

theorem pair_match {c V} (h : Pair c V) : Match c V := by
  rcases h with ⟨rfl, rfl⟩ | ⟨rfl, rfl⟩ <;> constructor <;> decide +kernel

theorem paramBytes_eq {c V} (h : Pair c V) (sp : Spec.Blake2.Params) (hv : sp.valid V) :
    Blake2.paramBytes c sp.digestLength (toModel sp) sp.salt sp.personal = Spec.Blake2.paramBlock V sp := by
  obtain ⟨h1, h2, h3, h4, h5, h6, h7, h8, _, _⟩ := hv
  rcases h with ⟨rfl, rfl⟩ | ⟨rfl, rfl⟩
  · simp only [Spec.Blake2.blake2b, Spec.Blake2.Variant.maxOut] at h2 h6 h8
    simp only [Blake2.paramBytes, Spec.Blake2.paramBlock, toModel, Blake2.blake2b, Spec.Blake2.blake2b, if_true, leBytes_eq,
      Nat.mod_eq_of_lt h3, Nat.mod_eq_of_lt h4, Nat.mod_eq_of_lt h5, Nat.mod_eq_of_lt h7,
      Nat.mod_eq_of_lt (show sp.digestLength < 256 by omega), Nat.mod_eq_of_lt (show sp.innerLength < 256 by omega),
      Nat.mod_eq_of_lt (show sp.nodeOffset < 2 ^ 64 by simpa using h6)]
  · simp only [Spec.Blake2.blake2s, Spec.Blake2.Variant.maxOut] at h2 h6 h8
    simp only [Blake2.paramBytes, Spec.Blake2.paramBlock, toModel, Blake2.blake2s, Spec.Blake2.blake2s, leBytes_eq,
      Nat.mod_eq_of_lt h3, Nat.mod_eq_of_lt h4, Nat.mod_eq_of_lt h5, Nat.mod_eq_of_lt h7,
      Nat.mod_eq_of_lt (show sp.digestLength < 256 by omega), Nat.mod_eq_of_lt (show sp.innerLength < 256 by omega),
      Nat.mod_eq_of_lt (show sp.nodeOffset < 2 ^ 48 by simpa using h6)]
    simp

theorem pair_w {c V} (h : Pair c V) : (V.w = 32 ∨ V.w = 64) ∧ c.wsize = V.w ∧ V.w % 8 = 0 ∧ c.size / 8 = V.maxOut ∧
    c.blocksize = 8 * V.bb ∧ (c.blocksize = 512 ∨ c.blocksize = 1024) ∧ V.bb = c.blocksize / 8 := by
  rcases h with ⟨rfl, rfl⟩ | ⟨rfl, rfl⟩ <;> decide

/-- `initstate(**params)`: the chain value starts as IV xor parameter block -/
theorem init_refines {c V} (h : Pair c V) (sp : Spec.Blake2.Params) (hv : sp.valid V) :
    Blake2.initstate c (toModel sp) =
      .ok { H := (Spec.Blake2.init V sp).map ofBV, pad := {}, outlen := sp.digestLength, t := 0 } := by
  have hm := pair_match h
  obtain ⟨hw, hcw, _, _, _, _, _⟩ := pair_w h
  have hpb := paramBytes_eq h sp hv
  obtain ⟨h1, h2, _, _, _, _, _, _, hs, hp⟩ := hv
  have hl : 0 < V.w / 4 := by rcases hw with h | h <;> rw [h] <;> simp
  have hsne : sp.salt ≠ [] := by intro h0; rw [h0] at hs; simp at hs; omega
  have hpne : sp.personal ≠ [] := by intro h0; rw [h0] at hp; simp at hp; omega
  have hmax : V.maxOut = V.w := by rcases hw with h | h <;> simp [Spec.Blake2.Variant.maxOut, h]
  unfold Blake2.initstate
  simp only [toModel, Option.getD_some, hsne, hpne, if_false, hcw, hs, hp, ne_eq, not_true_eq_false, or_self]
  rw [if_neg (by rw [hmax] at h2; omega)]
  have := hpb
  simp only [toModel] at this
  rw [this, wordsLE_eq V hw, iv_map hm, xorL_map]
  rfl

theorem mem_blockAt (p : Padder) (m : List Nat) (i : Nat) : ∀ b ∈ p.blockAt m i, b ∈ m := by
  intro b hb
  exact List.mem_of_mem_drop (List.mem_of_mem_take hb)

/-- the yields of the final BLAKE2 call with their bytes: the full blocks, then the zero-padded rest -/
theorem null_yields_full (B : Nat) (hB : B = 512 ∨ B = 1024) (st : PadState) (hpf : st.padflag = false) (m : List Nat)
    (hm : ∀ b ∈ m, b < 256) :
    (Padder.iterblocks ⟨.null, B⟩ st m none true).yields =
      Padder.loopYields ⟨.null, B⟩ st m (Padder.loopCount ⟨.null, B⟩ (8 * m.length)) ++
        [(Padder.blockAt ⟨.null, B⟩ m (Padder.loopCount ⟨.null, B⟩ (8 * m.length)) ++
            List.replicate (B / 8 - (Padder.blockAt ⟨.null, B⟩ m (Padder.loopCount ⟨.null, B⟩ (8 * m.length))).length) 0,
          { padflag := true, bitcnt := if m.length = 0 then 0 else st.bitcnt + 8 * m.length,
            padcnt := B - 8 * (Padder.blockAt ⟨.null, B⟩ m (Padder.loopCount ⟨.null, B⟩ (8 * m.length))).length })] := by
  unfold Padder.iterblocks
  simp only [hpf, Option.getD_none, Bool.false_eq_true, if_false, Bool.not_true, false_and, Nat.lt_irrefl, Option.map_none, if_true]
  obtain ⟨k, hk⟩ : ∃ k, Padder.loopCount ⟨.null, B⟩ (8 * m.length) = k := ⟨_, rfl⟩
  simp only [hk]
  have hkdef : k = if 8 * m.length = 0 then 0 else (8 * m.length - 1) / B := by rw [← hk]; rfl
  have hkB : k * B ≤ 8 * m.length ∧ 8 * m.length - k * B ≤ B ∧ (m.length = 0 → k = 0) ∧ (0 < m.length → k * B < 8 * m.length) := by
    rcases hB with rfl | rfl <;> (split at hkdef <;> omega)
  obtain ⟨hk1, hk2, hk3, hk4⟩ := hkB
  have hpi : 8 * (Padder.blockAt ⟨.null, B⟩ m k).length = 8 * m.length - k * B := by
    rw [blockAt_length]; simp only [Padder.blocklen]
    rcases hB with rfl | rfl <;> omega
  simp only [Padder.lastblock]
  rw [if_neg (by omega)]
  have hq : (B - 8 * (Padder.blockAt ⟨.null, B⟩ m k).length) % 8 = 0 := by rcases hB with rfl | rfl <;> omega
  have hq8 : (B - 8 * (Padder.blockAt ⟨.null, B⟩ m k).length) / 8 = B / 8 - (Padder.blockAt ⟨.null, B⟩ m k).length := by
    rcases hB with rfl | rfl <;> omega
  rw [null_pad_bytes _ (fun b hb => hm b (mem_blockAt _ m k b hb)) _ hq, hq8]
  have hlen : (Padder.blockAt ⟨.null, B⟩ m k ++ List.replicate (B / 8 - (Padder.blockAt ⟨.null, B⟩ m k).length) 0).length = B / 8 := by
    simp only [List.length_append, List.length_replicate]
    rcases hB with rfl | rfl <;> omega
  simp only [Padder.finishTail, Padder.blocklen, hlen, ne_eq, not_true_eq_false, if_false, List.length_drop, Nat.sub_self, Nat.lt_irrefl, gt_iff_lt]
  congr 2
  rw [List.take_of_length_le (by omega)]
  congr 1
  by_cases h0 : m.length = 0
  · have : 8 * (Padder.blockAt ⟨.null, B⟩ m k).length = 0 := by omega
    rw [if_pos (by omega), if_pos h0]
  · rw [if_neg (by omega), if_neg h0]
    congr 1
    omega

/-- shape of the (bytes, counter, flag) trace when the yields are `L ++ [y]` -/
theorem trace_shape (L : List (List Nat × PadState)) (y : List Nat × PadState) :
    (L ++ [y]).zipIdx.map (fun (x : (List Nat × PadState) × Nat) =>
        (x.1.1, x.1.2.bitcnt / 8, true && x.2 + 1 == (L ++ [y]).length)) =
      L.map (fun a => (a.1, a.2.bitcnt / 8, false)) ++ [(y.1, y.2.bitcnt / 8, true)] := by
  apply List.ext_getElem
  · simp
  · intro i h1 h2
    simp only [List.length_map, List.length_zipIdx, List.length_append, List.length_cons, List.length_nil] at h1
    simp only [List.getElem_map, List.getElem_zipIdx, List.getElem_append, List.length_map, List.length_append,
      List.length_cons, List.length_nil, Nat.zero_add, Bool.true_and]
    by_cases hlt : i < L.length
    · simp only [hlt, dite_true]
      congr 2
      simp only [beq_eq_false_iff_ne, ne_eq]
      omega
    · have : i = L.length := by omega
      subst this
      simp

/-- the trace `Blake2.update` folds over, for a final call on a byte string -/
theorem trace_explicit (c : Blake.Cfg) (hB : c.blocksize = 512 ∨ c.blocksize = 1024) (pad : PadState) (hpf : pad.padflag = false)
    (M : List Nat) (hm : ∀ b ∈ M, b < 256) :
    Blake2.trace c pad M true =
      (List.range (Padder.loopCount ⟨.null, c.blocksize⟩ (8 * M.length))).map
          (fun i => (Padder.blockAt ⟨.null, c.blocksize⟩ M i, (pad.bitcnt + (i + 1) * c.blocksize) / 8, false)) ++
        [(Padder.blockAt ⟨.null, c.blocksize⟩ M (Padder.loopCount ⟨.null, c.blocksize⟩ (8 * M.length)) ++
            List.replicate (c.blocksize / 8 - (Padder.blockAt ⟨.null, c.blocksize⟩ M (Padder.loopCount ⟨.null, c.blocksize⟩ (8 * M.length))).length) 0,
          (if M.length = 0 then 0 else pad.bitcnt + 8 * M.length) / 8, true)] := by
  unfold Blake2.trace
  rw [null_yields_full c.blocksize hB pad hpf M hm]
  simp only []
  rw [trace_shape]
  simp [Padder.loopYields, List.map_map, Function.comp]

/-- i-th bb-byte block of a byte string -/
def sblk (bb : Nat) (d : List Nat) (i : Nat) : List Nat := (d.drop (i * bb)).take bb

theorem sblk_drop (bb : Nat) (d : List Nat) (i : Nat) : sblk bb (d.drop bb) i = sblk bb d (i + 1) := by
  simp only [sblk, List.drop_drop]
  congr 2
  rw [Nat.add_mul]; omega

/-- the loop of RFC 7693 section 3.3 as a fold over the full blocks followed by the final compression -/
theorem absorb_fold (V : Spec.Blake2.Variant) (hbb : V.bb = 64 ∨ V.bb = 128) : ∀ (fuel : Nat) (h : List (BitVec V.w)) (t : Nat) (d : List Nat),
    (if d.length = 0 then 0 else (d.length - 1) / V.bb) < fuel →
    Spec.Blake2.absorb V h t d fuel =
      Spec.Blake2.F V
        ((List.range (if d.length = 0 then 0 else (d.length - 1) / V.bb)).foldl
          (fun h i => Spec.Blake2.F V h (Spec.Blake2.words V (sblk V.bb d i)) (t + (i + 1) * V.bb) false) h)
        (Spec.Blake2.words V (Spec.Blake2.padBlock V (sblk V.bb d (if d.length = 0 then 0 else (d.length - 1) / V.bb))))
        (t + d.length) true
  | 0, _, _, _, hk => by omega
  | fuel + 1, h, t, d, hk => by
    unfold Spec.Blake2.absorb
    by_cases hle : d.length ≤ V.bb
    · have hk0 : (if d.length = 0 then 0 else (d.length - 1) / V.bb) = 0 := by
        rcases hbb with hb | hb <;> rw [hb] at hle ⊢ <;> (split <;> omega)
      rw [if_pos hle, hk0]
      simp only [List.range_zero, List.foldl_nil, sblk, Nat.zero_mul, List.drop_zero, List.take_of_length_le hle]
    · rw [if_neg hle]
      have hlen : (d.drop V.bb).length = d.length - V.bb := List.length_drop
      obtain ⟨k', hk', hkk⟩ : ∃ k', (if (d.drop V.bb).length = 0 then 0 else ((d.drop V.bb).length - 1) / V.bb) = k' ∧
          (if d.length = 0 then 0 else (d.length - 1) / V.bb) = k' + 1 := by
        refine ⟨_, rfl, ?_⟩
        rw [hlen]
        rcases hbb with hb | hb <;> rw [hb] at hle ⊢ <;> (split <;> split <;> omega)
      rw [absorb_fold V hbb fuel _ _ _ (by rw [hk']; omega), hk', hkk, hlen]
      rw [List.range_succ_eq_map, List.foldl_cons, List.foldl_map]
      simp only [sblk_drop]
      have h0 : sblk V.bb d 0 = d.take V.bb := by simp [sblk]
      rw [h0]
      congr 1
      · congr 1
        · funext h i
          congr 1
          rw [Nat.add_mul (i + 1) 1]; omega
        · simp
      · omega

/-- folding the model's compression over full blocks = folding F, through `ofBV` -/
theorem fold_refines {c V} (hp : Pair c V) (blk : Nat → List Nat) (tf : Nat → Nat) (is : List Nat)
    (hblk : ∀ i ∈ is, (blk i).length = V.bb) :
    ∀ (H : List (BitVec V.w)), H.length = 8 →
      is.foldl (fun H i => Blake2.compress c H (Blake2.wordsLE V.w (blk i)) (tf i) false) (H.map ofBV) =
        (is.foldl (fun h i => Spec.Blake2.F V h (Spec.Blake2.words V (blk i)) (tf i) false) H).map ofBV ∧
      (is.foldl (fun h i => Spec.Blake2.F V h (Spec.Blake2.words V (blk i)) (tf i) false) H).length = 8 := by
  have hm := pair_match hp
  obtain ⟨hw, hcw, _, _, _, _, _⟩ := pair_w hp
  induction is with
  | nil => intro H hH; exact ⟨rfl, hH⟩
  | cons i is ih =>
    intro H hH
    simp only [List.foldl_cons]
    have hl := words_length V hw (blk i) (hblk i (by simp))
    rw [wordsLE_eq V hw, (compress_refines hm H _ hH hl (tf i) false).1]
    exact ih (fun j hj => hblk j (by simp [hj])) (Spec.Blake2.F V H (Spec.Blake2.words V (blk i)) (tf i) false)
      (compress_refines hm H _ hH hl (tf i) false).2

theorem init_length (V : Spec.Blake2.Variant) (hw : V.w = 32 ∨ V.w = 64) (hiv : V.iv.length = 8) (sp : Spec.Blake2.Params)
    (hv : sp.valid V) : (Spec.Blake2.init V sp).length = 8 := by
  obtain ⟨_, _, _, _, _, _, _, _, hs, hp⟩ := hv
  have hpl : (Spec.Blake2.paramBlock V sp).length = V.maxOut := by
    have hle : ∀ k n, (Spec.Blake2.leBytes k n).length = k := by
      intro k n; rw [leBytes_map]; simp
    unfold Spec.Blake2.paramBlock Spec.Blake2.Variant.maxOut
    rcases hw with h | h
    · rw [if_neg (by omega), if_neg (by omega)]
      simp only [List.length_append, List.length_cons, List.length_nil, hs, hp, hle]
      omega
    · rw [if_pos h, if_pos h]
      simp only [List.length_append, List.length_cons, List.length_nil, List.length_replicate, hs, hp, hle]
      omega
  have hn : V.w / 8 = 4 ∨ V.w / 8 = 8 := by rcases hw with h | h <;> rw [h] <;> simp
  have hwl : (Spec.Blake2.words V (Spec.Blake2.paramBlock V sp)).length = 8 := by
    simp only [Spec.Blake2.words, List.length_map, Spec.Blake2.chunk]
    rw [chunk_go_length _ hn _ _ (Nat.le_refl _), hpl]
    simp only [Spec.Blake2.Variant.maxOut]
    rcases hw with h | h <;> rw [h]
  simp [Spec.Blake2.init, hiv, hwl]

/-- BLAKE2 end to end: the call of the model returns the digest RFC 7693 defines -/
theorem blake2_call_eq {c V} (hp : Pair c V) (sp : Spec.Blake2.Params) (hv : sp.valid V) (M : List Nat)
    (hM : ∀ b ∈ M, b < 256) :
    Blake2.call c M (toModel sp) = .ok (Spec.Blake2.hash V sp M) := by
  have hm := pair_match hp
  obtain ⟨hw, hcw, hw8, _, hbs, hB, hbb⟩ := pair_w hp
  have hbbv : V.bb = 64 ∨ V.bb = 128 := by rcases hB with h | h <;> rw [hbb, h] <;> simp
  have hinit := init_length V hw hm.ivlen sp hv
  unfold Blake2.call
  rw [init_refines hp sp hv]
  simp only [bind, Except.bind]
  unfold Blake2.update
  simp only []
  have herr := (null_yields_core c.blocksize hB {} rfl M).1
  rw [herr, trace_explicit c hB {} rfl M hM]
  simp only [List.foldl_append, List.foldl_map, List.foldl_cons, List.foldl_nil]
  -- the loop count and the counters in bytes
  have hk : Padder.loopCount ⟨.null, c.blocksize⟩ (8 * M.length) = (if M.length = 0 then 0 else (M.length - 1) / V.bb) := by
    simp only [Padder.loopCount]
    rcases hB with h | h <;> rw [hbb, h] <;> (split <;> split <;> omega)
  have hlast : (if M.length = 0 then 0 else ({} : PadState).bitcnt + 8 * M.length) / 8 = 0 + M.length := by
    split <;> simp <;> omega
  have hblk : ∀ i, Padder.blockAt ⟨.null, c.blocksize⟩ M i = sblk V.bb M i := by
    intro i; simp only [Padder.blockAt, Padder.blocklen, sblk, hbb]
  have hcnt : ∀ i, (({} : PadState).bitcnt + (i + 1) * c.blocksize) / 8 = 0 + (i + 1) * V.bb := by
    intro i
    rw [hbs, show ({} : PadState).bitcnt = 0 from rfl, Nat.zero_add, Nat.zero_add, Nat.mul_left_comm, Nat.mul_div_cancel_left _ (by decide : 0 < 8)]
  simp only [hk, hlast, hblk, hcnt, hcw]
  generalize hkk : (if M.length = 0 then 0 else (M.length - 1) / V.bb) = k
  -- full blocks
  have hfull : ∀ i ∈ List.range k, (sblk V.bb M i).length = V.bb := by
    intro i hi
    have hik := List.mem_range.mp hi
    simp only [sblk, List.length_take, List.length_drop]
    rcases hbbv with h | h <;> rw [h] at hkk ⊢ <;> (split at hkk <;> omega)
  obtain ⟨hfold, hflen⟩ := fold_refines hp (sblk V.bb M) (fun i => 0 + (i + 1) * V.bb) (List.range k) hfull _ hinit
  rw [hfold]
  -- the last block
  have hpadlen : (sblk V.bb M k ++ List.replicate (c.blocksize / 8 - (sblk V.bb M k).length) 0).length = V.bb := by
    simp only [List.length_append, List.length_replicate, sblk, List.length_take, List.length_drop, ← hbb]
    omega
  have hl := words_length V hw _ hpadlen
  rw [wordsLE_eq V hw, (compress_refines hm _ _ hflen hl _ true).1, digest_eq V hw8]
  -- the specification side
  unfold Spec.Blake2.hash
  rw [absorb_fold V hbbv _ _ _ _ (by rw [hkk]; rcases hbbv with h | h <;> rw [h] at hkk <;> (split at hkk <;> omega)), hkk]
  simp only [Spec.Blake2.padBlock, ← hbb]

theorem flatMap_length_const {α β} (f : α → List β) (n : Nat) : ∀ (l : List α), (∀ x ∈ l, (f x).length = n) →
    (l.flatMap f).length = l.length * n
  | [], _ => by simp
  | x :: xs, h => by
    rw [List.flatMap_cons, List.length_append, h x (by simp), flatMap_length_const f n xs (fun y hy => h y (by simp [hy])),
      List.length_cons, Nat.add_mul]
    omega

theorem F_length (V : Spec.Blake2.Variant) (h m : List (BitVec V.w)) (t : Nat) (f : Bool) :
    (Spec.Blake2.F V h m t f).length = 8 := by simp [Spec.Blake2.F]

/-- the specified digest has exactly the requested length -/
theorem hash_length (V : Spec.Blake2.Variant) (hw : V.w = 32 ∨ V.w = 64) (sp : Spec.Blake2.Params) (hv : sp.valid V)
    (M : List Nat) : (Spec.Blake2.hash V sp M).length = sp.digestLength := by
  have hbb : V.bb = 64 ∨ V.bb = 128 := by
    rcases hw with h | h <;> simp [Spec.Blake2.Variant.bb, h]
  unfold Spec.Blake2.hash Spec.Blake2.output
  rw [absorb_fold V hbb _ _ _ _ (by rcases hbb with h | h <;> rw [h] <;> (split <;> omega))]
  rw [List.length_take, flatMap_length_const (Spec.Blake2.wordBytes V) (V.w / 8) _ (by
    intro x _; simp [Spec.Blake2.wordBytes, leBytes_map]), F_length]
  obtain ⟨_, h2, _⟩ := hv
  simp only [Spec.Blake2.Variant.maxOut] at h2
  omega

end Proofs.Lemmas.Blake2End
