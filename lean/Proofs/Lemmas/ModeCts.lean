/-
  Helper lemmas for C05: the ciphertext-stealing modes.
-/
import Proofs.Lemmas.ModeCtr
namespace Proofs.Lemmas.ModeL
open Model Model.Mode
variable {c : BlockCipher} {k : Spec.Mode.Cipher}

theorem iter_no_blocks (l : Nat) (hl : 0 < l) (Bs : List (List Nat)) (hne : Bs ≠ []) (hall : ∀ b ∈ Bs, b.length = l) :
    iter ⟨.no, 8 * l⟩ (join Bs) = (Bs, none) := by
  have hlen := length_join_of_all l Bs hall
  have hpos : 0 < Bs.length := List.length_pos_iff.2 hne
  rw [iter_no_mult l hl _ (by rw [hlen, Nat.mul_mod_left]) (by rw [hlen]; exact Nat.mul_pos hpos hl),
      blocks_of_mult l Bs.length hl _ hlen, readBlocks_join l Bs hall]

/-- lengths of M = P_1 ‖ … ‖ P_n ‖ b with 0 ≤ |b| < l -/
theorem split_len (l : Nat) (hl : 0 < l) (Bs : List (List Nat)) (hall : ∀ b ∈ Bs, b.length = l) (b : List Nat) (hb : b.length < l) :
    (join Bs ++ b).length / l = Bs.length ∧ (join Bs ++ b).length % l = b.length := by
  rw [List.length_append, length_join_of_all l Bs hall, Nat.mul_comm]
  constructor
  · rw [Nat.mul_add_div hl, Nat.div_eq_of_lt hb]; rfl
  · rw [Nat.mul_add_mod, Nat.mod_eq_of_lt hb]

theorem steal_isBlock {l : Nat} {b e : List Nat} (hb : Bytes b) (hbl : b.length < l) (he : IsBlock l e) :
    IsBlock l (b ++ e.drop b.length) := by
  refine ⟨?_, hb.append (he.2.drop _)⟩
  rw [List.length_append, List.length_drop, he.1]; omega

theorem cts_ecb_enc_partial (h : Implements c k) (P' : List (List Nat)) (hP' : ∀ b ∈ P', IsBlock c.len b)
    (pl : List Nat) (hpl : IsBlock c.len pl) (b : List Nat) (hb : Bytes b) (hb0 : 0 < b.length) (hbl : b.length < c.len) :
    CTS_ECB.enc c .no (join (P' ++ [pl]) ++ b)
      = .ok (join (P'.map k.E ++ [k.E (b ++ (k.E pl).drop b.length), (k.E pl).take b.length])) := by
  have hall : ∀ x ∈ P' ++ [pl], IsBlock c.len x := by
    intro x hx; rcases List.mem_append.1 hx with hx | hx
    · exact hP' x hx
    · simp at hx; subst hx; exact hpl
  obtain ⟨hn, hp⟩ := split_len c.len h.len_pos (P' ++ [pl]) (fun x hx => (hall x hx).1) b hbl
  have hjl := length_join_of_all c.len (P' ++ [pl]) (fun x hx => (hall x hx).1)
  unfold CTS_ECB.enc
  rw [mkPad_ok c _ h.len_pos]
  simp only [hn, hp, List.take_left' hjl, List.drop_left' hjl]
  rw [iter_no_blocks c.len h.len_pos _ (by simp) (fun x hx => (hall x hx).1),
      forBlocks_ok _ _ _ (mapE_ok c.enc k.E _ (fun x hx => h.enc_ok x (hall x hx)))]
  simp only [hb0, if_true, List.map_append, List.map_cons, List.map_nil, List.getLast?_concat, List.dropLast_concat]
  rw [h.enc_ok _ (steal_isBlock hb hbl (h.E_block _ hpl))]

theorem cts_ecb_dec_partial (h : Implements c k) (P' : List (List Nat)) (hP' : ∀ b ∈ P', IsBlock c.len b)
    (pl : List Nat) (hpl : IsBlock c.len pl) (b : List Nat) (hb : Bytes b) (hb0 : 0 < b.length) (hbl : b.length < c.len) :
    CTS_ECB.dec c .no (join (P'.map k.E ++ [k.E (b ++ (k.E pl).drop b.length), (k.E pl).take b.length]))
      = .ok (join (P' ++ [pl]) ++ b) := by
  have hy := steal_isBlock hb hbl (h.E_block _ hpl)
  have hEy := h.E_block _ hy
  have hall : ∀ x ∈ P'.map k.E ++ [k.E (b ++ (k.E pl).drop b.length)], IsBlock c.len x := by
    intro x hx; rcases List.mem_append.1 hx with hx | hx
    · obtain ⟨a, ha, rfl⟩ := List.mem_map.1 hx; exact h.E_block a (hP' a ha)
    · simp at hx; subst hx; exact hEy
  have htk : ((k.E pl).take b.length).length = b.length := by
    rw [List.length_take, (h.E_block _ hpl).1]; omega
  have e : join (P'.map k.E ++ [k.E (b ++ (k.E pl).drop b.length), (k.E pl).take b.length])
      = join (P'.map k.E ++ [k.E (b ++ (k.E pl).drop b.length)]) ++ (k.E pl).take b.length := by
    simp [join]
  obtain ⟨hn, hp⟩ := split_len c.len h.len_pos _ (fun x hx => (hall x hx).1) ((k.E pl).take b.length) (by omega)
  have hjl := length_join_of_all c.len _ (fun x hx => (hall x hx).1)
  have hcnt : (P'.map k.E ++ [k.E (b ++ (k.E pl).drop b.length)]).length = P'.length + 1 := by simp
  unfold CTS_ECB.dec
  rw [mkPad_ok c _ h.len_pos, e]
  simp only [hn, hp, htk]
  have hrd : readBlocks c.len (P'.map k.E ++ [k.E (b ++ (k.E pl).drop b.length)]).length
      (join (P'.map k.E ++ [k.E (b ++ (k.E pl).drop b.length)]) ++ (k.E pl).take b.length)
      = P'.map k.E ++ [k.E (b ++ (k.E pl).drop b.length)] := by
    have := readBlocks_append c.len _ 0 _ ((k.E pl).take b.length) hjl
    rw [Nat.add_zero] at this
    rw [this, readBlocks_join c.len _ (fun x hx => (hall x hx).1)]; simp [readBlocks]
  rw [hrd, mapE_ok c.dec k.D _ (fun x hx => h.dec_ok x (hall x hx))]
  simp only [hb0, if_true, List.map_append, List.map_cons, List.map_nil, List.getLast?_concat, List.dropLast_concat,
    List.map_map, List.drop_left' hjl, h.D_E _ hy]
  have htt : List.take b.length ((k.E pl).take b.length) = (k.E pl).take b.length := List.take_of_length_le (by omega)
  rw [htt, List.drop_left' rfl, List.take_append_drop, h.dec_ok _ (h.E_block _ hpl), h.D_E _ hpl, List.take_left' rfl]
  have hid : List.map (k.D ∘ k.E) P' = P' := by
    conv => rhs; rw [← List.map_id P']
    apply List.map_congr_left
    intro x hx; simp [h.D_E x (hP' x hx)]
  rw [hid]
  simp [join]

theorem map_DE (h : Implements c k) (P : List (List Nat)) (hP : ∀ b ∈ P, IsBlock c.len b) : List.map (k.D ∘ k.E) P = P := by
  conv => rhs; rw [← List.map_id P]
  apply List.map_congr_left
  intro x hx; simp [h.D_E x (hP x hx)]

theorem cts_ecb_enc_full (h : Implements c k) (Bs : List (List Nat)) (hne : Bs ≠ []) (hB : ∀ b ∈ Bs, IsBlock c.len b) :
    CTS_ECB.enc c .no (join Bs) = .ok (join (Bs.map k.E)) := by
  have hjl := length_join_of_all c.len Bs (fun x hx => (hB x hx).1)
  unfold CTS_ECB.enc
  rw [mkPad_ok c _ h.len_pos]
  simp only [hjl, Nat.mul_mod_left, Nat.mul_div_cancel _ h.len_pos, Nat.lt_irrefl, gt_iff_lt, if_false]
  rw [List.take_of_length_le (by omega), iter_no_blocks c.len h.len_pos _ hne (fun x hx => (hB x hx).1),
      forBlocks_ok _ _ _ (mapE_ok c.enc k.E _ (fun x hx => h.enc_ok x (hB x hx)))]

theorem cts_ecb_dec_full (h : Implements c k) (Bs : List (List Nat)) (hB : ∀ b ∈ Bs, IsBlock c.len b) :
    CTS_ECB.dec c .no (join (Bs.map k.E)) = .ok (join Bs) := by
  have hE : ∀ x ∈ Bs.map k.E, IsBlock c.len x := by
    intro x hx; obtain ⟨a, ha, rfl⟩ := List.mem_map.1 hx; exact h.E_block a (hB a ha)
  have hjl := length_join_of_all c.len _ (fun x hx => (hE x hx).1)
  unfold CTS_ECB.dec
  rw [mkPad_ok c _ h.len_pos]
  simp only [hjl, Nat.mul_mod_left, Nat.mul_div_cancel _ h.len_pos, Nat.lt_irrefl, gt_iff_lt, if_false]
  rw [readBlocks_join c.len _ (fun x hx => (hE x hx).1), mapE_ok c.dec k.D _ (fun x hx => h.dec_ok x (hE x hx)),
      List.map_map, map_DE h Bs hB]

/-- a message of at least one block is a non-empty list of whole blocks followed by fewer than l bytes -/
theorem split_message (l : Nat) (hl : 0 < l) (M : List Nat) (hM : Bytes M) (hlen : l ≤ M.length) :
    ∃ (Bs : List (List Nat)) (b : List Nat), Bs ≠ [] ∧ (∀ x ∈ Bs, IsBlock l x) ∧ Bytes b ∧ b.length < l ∧ M = join Bs ++ b := by
  have h1 := Nat.div_add_mod M.length l
  have h2 := Nat.mod_lt M.length hl
  have hn : 0 < M.length / l := Nat.div_pos hlen hl
  have hle : M.length / l * l ≤ M.length := by rw [Nat.mul_comm]; omega
  refine ⟨readBlocks l (M.length / l) (M.take (M.length / l * l)), M.drop (M.length / l * l), ?_, ?_, hM.drop _, ?_, ?_⟩
  · intro h0; have := congrArg List.length h0; rw [readBlocks_length] at this; simp at this; omega
  · exact readBlocks_isBlock (by rw [List.length_take]; omega) (hM.take _)
  · rw [List.length_drop, Nat.mul_comm]; omega
  · rw [join_readBlocks l _ _ (by rw [List.length_take]; omega), List.take_append_drop]

/-- CTS_ECB: encryption succeeds, keeps the length, and decrypts to the message -/
theorem cts_ecb_all (h : Implements c k) (M : List Nat) (hM : Bytes M) (hlen : c.len ≤ M.length) :
    ∃ C, CTS_ECB.enc c .no M = .ok C ∧ C.length = M.length ∧ CTS_ECB.dec c .no C = .ok M := by
  obtain ⟨Bs, b, hne, hB, hb, hbl, rfl⟩ := split_message c.len h.len_pos M hM hlen
  have hEl : ∀ x ∈ Bs.map k.E, x.length = c.len := by
    intro x hx; obtain ⟨a, ha, rfl⟩ := List.mem_map.1 hx; exact (h.E_block a (hB a ha)).1
  by_cases hb0 : b.length = 0
  · have : b = [] := List.length_eq_zero_iff.1 hb0
    subst this
    rw [List.append_nil]
    refine ⟨_, cts_ecb_enc_full h Bs hne hB, ?_, cts_ecb_dec_full h Bs hB⟩
    rw [length_join_of_all c.len _ hEl, length_join_of_all c.len _ (fun x hx => (hB x hx).1), List.length_map]
  · obtain ⟨P', pl, rfl⟩ : ∃ P' pl, Bs = P' ++ [pl] := ⟨Bs.dropLast, Bs.getLast hne, (List.dropLast_concat_getLast hne).symm⟩
    have hP' : ∀ x ∈ P', IsBlock c.len x := fun x hx => hB x (List.mem_append_left _ hx)
    have hpl : IsBlock c.len pl := hB pl (by simp)
    refine ⟨_, cts_ecb_enc_partial h P' hP' pl hpl b hb (by omega) hbl, ?_, cts_ecb_dec_partial h P' hP' pl hpl b hb (by omega) hbl⟩
    have hy := (h.E_block _ (steal_isBlock hb hbl (h.E_block _ hpl))).1
    have hE := (h.E_block _ hpl).1
    have hEl' : ∀ x ∈ P'.map k.E, x.length = c.len := fun x hx => hEl x (by rw [List.map_append]; exact List.mem_append_left _ hx)
    have e1 : join (P'.map k.E ++ [k.E (b ++ (k.E pl).drop b.length), (k.E pl).take b.length])
        = join (P'.map k.E) ++ (k.E (b ++ (k.E pl).drop b.length) ++ (k.E pl).take b.length) := by simp [join]
    have e2 : join (P' ++ [pl]) = join P' ++ pl := join_snoc _ _
    rw [e1, e2]
    simp only [List.length_append, length_join_of_all c.len _ hEl', length_join_of_all c.len _ (fun x hx => (hP' x hx).1),
      List.length_map, hy, hpl.1, List.length_take, hE]
    omega

/-! ### CBC with ciphertext stealing -/

theorem prevOf_reverse_cons (iv y : List Nat) (L : List (List Nat)) : prevOf iv (y :: L).reverse = prevOf y L.reverse := by
  cases hr : L.reverse with
  | nil => simp [List.reverse_eq_nil_iff.1 hr, prevOf]
  | cons a as => simp [hr, prevOf]

theorem cbcEncrypt_snoc (k : Spec.Mode.Cipher) : ∀ (P : List (List Nat)) (iv pl : List Nat),
    Spec.Mode.cbcEncrypt k iv (P ++ [pl])
      = Spec.Mode.cbcEncrypt k iv P ++ [k.E (Spec.Mode.xor pl (prevOf iv (Spec.Mode.cbcEncrypt k iv P).reverse))]
  | [], iv, pl => by simp [Spec.Mode.cbcEncrypt, prevOf]
  | p :: ps, iv, pl => by
    simp only [List.cons_append, Spec.Mode.cbcEncrypt, cbcEncrypt_snoc k ps _ pl, prevOf_reverse_cons]

theorem xor_zeros_left : ∀ (n : Nat) (x : List Nat), x.length ≤ n → xorstr (List.replicate n 0) x = x
  | _, [], _ => by simp [xorstr]
  | 0, a :: x, h => by simp at h
  | n+1, a :: x, h => by
    have := xor_zeros_left n x (by simpa using h)
    simp only [xorstr] at this
    simp [xorstr, List.replicate_succ, this]

theorem xor_self_cancel (a b : List Nat) (h : a.length ≤ b.length) : xorstr b (xorstr a b) = a := by
  rw [xor_comm b, xor_cancel_right a b h]

theorem getLast_cons_snoc {α} (a : α) (l : List α) (x : α) (h : a :: (l ++ [x]) ≠ []) : (a :: (l ++ [x])).getLast h = x := by
  rw [List.getLast_cons (by simp)]
  exact List.getLast_concat

def csPrev (k : Spec.Mode.Cipher) (iv : List Nat) (P' : List (List Nat)) : List Nat :=
  prevOf iv (Spec.Mode.cbcEncrypt k iv P').reverse
def csCl (k : Spec.Mode.Cipher) (iv : List Nat) (P' : List (List Nat)) (pl : List Nat) : List Nat :=
  k.E (xorstr pl (csPrev k iv P'))
def csY (k : Spec.Mode.Cipher) (l : Nat) (iv : List Nat) (P' : List (List Nat)) (pl b : List Nat) : List Nat :=
  k.E (xorstr (b ++ List.replicate (l - b.length) 0) (csCl k iv P' pl))

theorem csPrev_isBlock (h : Implements c k) (iv : List Nat) (hiv : IsBlock c.len iv) (P' : List (List Nat))
    (hP' : ∀ b ∈ P', IsBlock c.len b) : IsBlock c.len (csPrev k iv P') := by
  unfold csPrev
  have hC := (cbcChain_eq h P' iv hiv hP').2
  cases hr : (Spec.Mode.cbcEncrypt k iv P').reverse with
  | nil => exact hiv
  | cons a as =>
    have : a ∈ Spec.Mode.cbcEncrypt k iv P' := by
      rw [← List.mem_reverse, hr]; simp
    exact hC a this

theorem padded_isBlock {l : Nat} {b : List Nat} (hb : Bytes b) (hbl : b.length < l) :
    IsBlock l (b ++ List.replicate (l - b.length) 0) :=
  ⟨by simp; omega, hb.append (Bytes.replicate (by omega))⟩

theorem cts_cbc_enc_partial (h : Implements c k) (iv : List Nat) (hiv : IsBlock c.len iv)
    (P' : List (List Nat)) (hP' : ∀ b ∈ P', IsBlock c.len b)
    (pl : List Nat) (hpl : IsBlock c.len pl) (b : List Nat) (hb : Bytes b) (hb0 : 0 < b.length) (hbl : b.length < c.len) :
    CTS_CBC.enc c iv .no (join (P' ++ [pl]) ++ b)
      = .ok (join ((iv :: Spec.Mode.cbcEncrypt k iv P') ++ [csY k c.len iv P' pl b, (csCl k iv P' pl).take b.length])) := by
  have hall : ∀ x ∈ P' ++ [pl], IsBlock c.len x := by
    intro x hx; rcases List.mem_append.1 hx with hx | hx
    · exact hP' x hx
    · simp at hx; subst hx; exact hpl
  obtain ⟨hn, hp⟩ := split_len c.len h.len_pos (P' ++ [pl]) (fun x hx => (hall x hx).1) b hbl
  have hjl := length_join_of_all c.len (P' ++ [pl]) (fun x hx => (hall x hx).1)
  have hcl : IsBlock c.len (csCl k iv P' pl) := h.E_block _ (xor_isBlock hpl (csPrev_isBlock h iv hiv P' hP'))
  unfold CTS_CBC.enc
  rw [mkPad_ok c _ h.len_pos]
  simp only [hn, hp, List.take_left' hjl, List.drop_left' hjl, hiv.1, ne_eq, not_true_eq_false, if_false]
  rw [iter_no_blocks c.len h.len_pos _ (by simp) (fun x hx => (hall x hx).1),
      forBlocks_ok _ _ _ (cbcChain_eq h _ iv hiv hall).1]
  simp only [hb0, if_true, cbcEncrypt_snoc, ← xorstr_eq_spec]
  have e1 : (iv :: (Spec.Mode.cbcEncrypt k iv P' ++ [k.E (xorstr pl (prevOf iv (Spec.Mode.cbcEncrypt k iv P').reverse))])).getLast
      (List.cons_ne_nil _ _) = csCl k iv P' pl := by
    rw [getLast_cons_snoc]; rfl
  have e2 : (iv :: (Spec.Mode.cbcEncrypt k iv P' ++ [k.E (xorstr pl (prevOf iv (Spec.Mode.cbcEncrypt k iv P').reverse))])).dropLast
      = iv :: Spec.Mode.cbcEncrypt k iv P' := by
    rw [← List.cons_append, List.dropLast_concat]
  rw [e1, e2, h.enc_ok _ (xor_isBlock (padded_isBlock hb hbl) hcl)]
  rfl


theorem cts_cbc_dec_partial (h : Implements c k) (iv : List Nat) (hiv : IsBlock c.len iv)
    (P' : List (List Nat)) (hP' : ∀ b ∈ P', IsBlock c.len b)
    (pl : List Nat) (hpl : IsBlock c.len pl) (b : List Nat) (hb : Bytes b) (hb0 : 0 < b.length) (hbl : b.length < c.len) :
    CTS_CBC.dec c iv .no (join ((iv :: Spec.Mode.cbcEncrypt k iv P') ++ [csY k c.len iv P' pl b, (csCl k iv P' pl).take b.length]))
      = .ok (join (P' ++ [pl]) ++ b) := by
  have hpv := csPrev_isBlock h iv hiv P' hP'
  have hx : IsBlock c.len (xorstr pl (csPrev k iv P')) := xor_isBlock hpl hpv
  have hcl : IsBlock c.len (csCl k iv P' pl) := h.E_block _ hx
  have hb' := padded_isBlock (l := c.len) hb hbl
  have hxy : IsBlock c.len (xorstr (b ++ List.replicate (c.len - b.length) 0) (csCl k iv P' pl)) := xor_isBlock hb' hcl
  have hy : IsBlock c.len (csY k c.len iv P' pl b) := h.E_block _ hxy
  have hC0 := (cbcChain_eq h P' iv hiv hP').2
  generalize hC0e : Spec.Mode.cbcEncrypt k iv P' = C0' at *
  generalize hcle : csCl k iv P' pl = cl at *
  generalize hye : csY k c.len iv P' pl b = y at *
  have hA : ∀ x ∈ iv :: C0', IsBlock c.len x := by
    intro x hx'; rcases List.mem_cons.1 hx' with rfl | hx'
    · exact hiv
    · exact hC0 x hx'
  have hAy : ∀ x ∈ (iv :: C0') ++ [y], x.length = c.len := by
    intro x hx'; rcases List.mem_append.1 hx' with hx' | hx'
    · exact (hA x hx').1
    · simp at hx'; subst hx'; exact hy.1
  have ht : (cl.take b.length).length = b.length := by rw [List.length_take, hcl.1]; omega
  have e : join ((iv :: C0') ++ [y, cl.take b.length]) = join ((iv :: C0') ++ [y]) ++ cl.take b.length := by
    simp [join]
  have e' : join ((iv :: C0') ++ [y]) = join (iv :: C0') ++ y := join_snoc _ _
  obtain ⟨_, hp⟩ := split_len c.len h.len_pos _ hAy (cl.take b.length) (by omega)
  have hDy : k.D y = xorstr (b ++ List.replicate (c.len - b.length) 0) cl := by
    rw [← hye]; unfold csY; rw [hcle]; exact h.D_E _ hxy
  have hdrop : (xorstr (b ++ List.replicate (c.len - b.length) 0) cl).drop b.length = cl.drop b.length := by
    unfold xorstr
    rw [List.drop_zipWith, List.drop_left' rfl]
    exact xor_zeros_left _ _ (by rw [List.length_drop, hcl.1]; omega)
  have htake : (xorstr (b ++ List.replicate (c.len - b.length) 0) cl).take b.length = xorstr b (cl.take b.length) := by
    unfold xorstr
    rw [List.take_zipWith, List.take_left' rfl]
  have hDcl : k.D cl = xorstr pl (csPrev k iv P') := by
    rw [← hcle]; exact h.D_E _ hx
  have hlast : (join (iv :: C0')).drop ((join (iv :: C0')).length - c.len) = csPrev k iv P' := by
    have := last_of_join c.len iv C0'.reverse hiv.1 (fun x hx' => (hC0 x (List.mem_reverse.1 hx')).1)
    rw [List.reverse_reverse] at this
    rw [this]; unfold csPrev; rw [hC0e]
  unfold CTS_CBC.dec
  rw [mkPad_ok c _ h.len_pos, e]
  simp only [hp, hiv.1, ne_eq, not_true_eq_false, if_false, drop_len_sub _ _ _ rfl, take_len_sub _ _ _ rfl]
  simp only [ht, hb0, if_true]
  rw [e']
  simp only [drop_len_sub _ _ _ hy.1, take_len_sub _ _ _ hy.1, h.dec_ok _ hy, hDy,
    hdrop, List.take_append_drop, h.dec_ok _ hcl, hDcl, hlast, htake]
  rw [xor_self_cancel pl _ (by rw [hpl.1, hpv.1]; exact Nat.le_refl _),
      xor_self_cancel b _ (by rw [ht]; exact Nat.le_refl _)]
  have hun := cbcUnchain_rev h C0'.reverse iv [pl, b] (join (iv :: C0')).length hiv.1
      (fun x hx' => hC0 x (List.mem_reverse.1 hx'))
      (by rw [List.length_reverse, length_join_of_all c.len _ (fun x hx' => (hA x hx').1), List.length_cons]
          calc C0'.length ≤ (C0'.length + 1) * 1 := by omega
            _ ≤ (C0'.length + 1) * c.len := Nat.mul_le_mul_left _ h.len_pos)
  rw [List.reverse_reverse] at hun
  rw [hun, ← hC0e, cbcDecrypt_encrypt h P' iv hiv hP']
  simp [join]

theorem cts_cbc_enc_full (h : Implements c k) (iv : List Nat) (hiv : IsBlock c.len iv) (Bs : List (List Nat)) (hne : Bs ≠ [])
    (hB : ∀ b ∈ Bs, IsBlock c.len b) :
    CTS_CBC.enc c iv .no (join Bs) = .ok (join (iv :: Spec.Mode.cbcEncrypt k iv Bs)) := by
  have hjl := length_join_of_all c.len Bs (fun x hx => (hB x hx).1)
  unfold CTS_CBC.enc
  rw [mkPad_ok c _ h.len_pos]
  simp only [hjl, Nat.mul_mod_left, Nat.mul_div_cancel _ h.len_pos, Nat.lt_irrefl, gt_iff_lt, if_false, hiv.1, ne_eq,
    not_true_eq_false]
  rw [List.take_of_length_le (by omega), iter_no_blocks c.len h.len_pos _ hne (fun x hx => (hB x hx).1),
      forBlocks_ok _ _ _ (cbcChain_eq h _ iv hiv hB).1]

theorem cts_cbc_dec_full (h : Implements c k) (iv : List Nat) (hiv : IsBlock c.len iv) (Bs : List (List Nat))
    (hB : ∀ b ∈ Bs, IsBlock c.len b) :
    CTS_CBC.dec c iv .no (join (iv :: Spec.Mode.cbcEncrypt k iv Bs)) = .ok (join Bs) := by
  have hC0 := (cbcChain_eq h Bs iv hiv hB).2
  have hA : ∀ x ∈ iv :: Spec.Mode.cbcEncrypt k iv Bs, x.length = c.len := by
    intro x hx'; rcases List.mem_cons.1 hx' with rfl | hx'
    · exact hiv.1
    · exact (hC0 x hx').1
  have hjl := length_join_of_all c.len _ hA
  have hun := cbcUnchain_rev h (Spec.Mode.cbcEncrypt k iv Bs).reverse iv [] (join (iv :: Spec.Mode.cbcEncrypt k iv Bs)).length hiv.1
      (fun x hx' => hC0 x (List.mem_reverse.1 hx'))
      (by rw [List.length_reverse, hjl, List.length_cons]
          calc (Spec.Mode.cbcEncrypt k iv Bs).length ≤ ((Spec.Mode.cbcEncrypt k iv Bs).length + 1) * 1 := by omega
            _ ≤ ((Spec.Mode.cbcEncrypt k iv Bs).length + 1) * c.len := Nat.mul_le_mul_left _ h.len_pos)
  rw [List.reverse_reverse] at hun
  unfold CTS_CBC.dec
  rw [mkPad_ok c _ h.len_pos]
  simp only [hjl, Nat.mul_mod_left, Nat.lt_irrefl, gt_iff_lt, if_false, hiv.1, ne_eq, not_true_eq_false]
  rw [← hjl, hun, cbcDecrypt_encrypt h Bs iv hiv hB, List.append_nil]

/-- CTS_CBC: encryption succeeds, its output is the IV followed by |M| bytes, and it decrypts to the message -/
theorem cts_cbc_all (h : Implements c k) (iv : List Nat) (hiv : IsBlock c.len iv) (M : List Nat) (hM : Bytes M)
    (hlen : c.len ≤ M.length) :
    ∃ C, CTS_CBC.enc c iv .no M = .ok C ∧ C.length = M.length + c.len ∧ C.take c.len = iv ∧ CTS_CBC.dec c iv .no C = .ok M := by
  obtain ⟨Bs, b, hne, hB, hb, hbl, rfl⟩ := split_message c.len h.len_pos M hM hlen
  by_cases hb0 : b.length = 0
  · have : b = [] := List.length_eq_zero_iff.1 hb0
    subst this
    rw [List.append_nil]
    have hC0 := (cbcChain_eq h Bs iv hiv hB).2
    have hA : ∀ x ∈ iv :: Spec.Mode.cbcEncrypt k iv Bs, x.length = c.len := by
      intro x hx'; rcases List.mem_cons.1 hx' with rfl | hx'
      · exact hiv.1
      · exact (hC0 x hx').1
    refine ⟨_, cts_cbc_enc_full h iv hiv Bs hne hB, ?_, ?_, cts_cbc_dec_full h iv hiv Bs hB⟩
    · rw [length_join_of_all c.len _ hA, length_join_of_all c.len _ (fun x hx => (hB x hx).1), List.length_cons,
        cbcEncrypt_length, Nat.succ_mul]
    · simp only [join, List.flatten_cons]; exact List.take_left' hiv.1
  · obtain ⟨P', pl, rfl⟩ : ∃ P' pl, Bs = P' ++ [pl] := ⟨Bs.dropLast, Bs.getLast hne, (List.dropLast_concat_getLast hne).symm⟩
    have hP' : ∀ x ∈ P', IsBlock c.len x := fun x hx => hB x (List.mem_append_left _ hx)
    have hpl : IsBlock c.len pl := hB pl (by simp)
    have hC0 := (cbcChain_eq h P' iv hiv hP').2
    have hcl : IsBlock c.len (csCl k iv P' pl) := h.E_block _ (xor_isBlock hpl (csPrev_isBlock h iv hiv P' hP'))
    have hy : IsBlock c.len (csY k c.len iv P' pl b) := h.E_block _ (xor_isBlock (padded_isBlock hb hbl) hcl)
    refine ⟨_, cts_cbc_enc_partial h iv hiv P' hP' pl hpl b hb (by omega) hbl, ?_, ?_,
      cts_cbc_dec_partial h iv hiv P' hP' pl hpl b hb (by omega) hbl⟩
    · have e1 : join ((iv :: Spec.Mode.cbcEncrypt k iv P') ++ [csY k c.len iv P' pl b, (csCl k iv P' pl).take b.length])
          = iv ++ (join (Spec.Mode.cbcEncrypt k iv P') ++ (csY k c.len iv P' pl b ++ (csCl k iv P' pl).take b.length)) := by
        simp [join]
      have e2 : join (P' ++ [pl]) = join P' ++ pl := join_snoc _ _
      rw [e1, e2]
      simp only [List.length_append, length_join_of_all c.len _ (fun x hx => (hC0 x hx).1),
        length_join_of_all c.len _ (fun x hx => (hP' x hx).1), cbcEncrypt_length, hy.1, hpl.1, hiv.1, List.length_take, hcl.1]
      omega
    · simp only [join, List.cons_append, List.flatten_cons]; exact List.take_left' hiv.1


end Proofs.Lemmas.ModeL
