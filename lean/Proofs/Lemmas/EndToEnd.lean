/- end-to-end: every hash object of the library computes its standard function (composition lemma + padding equality) -/
import Proofs.Lemmas.PadOk
import Proofs.Lemmas.Instances
namespace Proofs.Lemmas.EndToEnd
open Model Model.Py Proofs.Lemmas.Parse Proofs.Lemmas.BitsBitVec Proofs.Lemmas.Compose Proofs.Lemmas.PadOk
  Proofs.Lemmas.Pack Proofs.Lemmas.Instances

/-! length-field encodings -/

theorem byte_of' (X s r : Nat) : ((X % 2 ^ (s + (8 + r))) >>> s) % 2 ^ 8 = (X >>> s) % 2 ^ 8 := by
  rw [Nat.shiftRight_eq_div_pow, Nat.shiftRight_eq_div_pow, Nat.pow_add, Nat.mod_mul_right_div_self,
    Nat.mod_mod_of_dvd _ (Nat.pow_dvd_pow 2 (by omega))]

theorem beBytes_mod (n l : Nat) : Spec.beBytes n (l % 2 ^ (8 * n)) = Spec.beBytes n l := by
  simp only [Spec.beBytes]
  apply List.map_congr_left
  intro i hi
  have hi : i < n := List.mem_range.1 hi
  apply BitVec.eq_of_toNat_eq
  simp only [BitVec.toNat_ofNat]
  obtain ⟨r, hr⟩ : ∃ r, 8 * n = 8 * (n - 1 - i) + (8 + r) := ⟨8 * i, by omega⟩
  rw [hr, byte_of']

theorem leBytes_mod (n l : Nat) : Spec.leBytes n (l % 2 ^ (8 * n)) = Spec.leBytes n l := by
  simp only [Spec.leBytes]
  apply List.map_congr_left
  intro i hi
  have hi : i < n := List.mem_range.1 hi
  apply BitVec.eq_of_toNat_eq
  simp only [BitVec.toNat_ofNat]
  obtain ⟨r, hr⟩ : ∃ r, 8 * n = 8 * i + (8 + r) := ⟨8 * (n - 1 - i), by omega⟩
  rw [hr, byte_of']

/-- `pack(Bits(bitlen,2w),'>L')` is the big-endian length field -/
theorem enc_be (w ll : Nat) (hw : w * 2 = 8 * ll) (l : Nat) :
    toNatBytes (Spec.beBytes ll l) = (Bits.ofNatSz l (w * 2)).pack true := by
  rw [ofNatSz_eq, pack_be _ (by omega), BitVec.toNat_ofNat, hw, Nat.mul_div_cancel_left _ (by decide : 0 < 8), beBytes_mod]

/-- `pack(Bits(bitlen,2w))` is the little-endian length field -/
theorem enc_le (w ll : Nat) (hw : w * 2 = 8 * ll) (l : Nat) :
    toNatBytes (Spec.leBytes ll l) = (Bits.ofNatSz l (w * 2)).pack false := by
  rw [ofNatSz_eq, pack_le _ (by omega), BitVec.toNat_ofNat, hw, Nat.mul_div_cancel_left _ (by decide : 0 < 8), leBytes_mod]

variable {σ : Type}

/-- PadOk for an object with SHA padding -/
theorem padOk_sha (c : HashCore) (h : Spec.MDHash σ) (w B bl ll : Nat) (hp : c.padder = ⟨.sha w, B⟩)
    (hB : B = 8 * bl) (hbl : 0 < bl) (hw : w * 2 = 8 * ll) (hfit : w * 2 + 1 ≤ B)
    (h1 : h.blockLen = bl) (h2 : h.lenLen = ll) (h3 : h.encLen = Spec.beBytes ll)
    (st : PadState) (hpf : st.padflag = false) (hdone : st.bitcnt % B = 0)
    (M : List Spec.Byte) (kw : Option Nat) (hkw : ∀ l, kw = some l → l ≤ 8 * M.length) :
    PadOk c h st st.bitcnt M kw ((Spec.bytesToBits M).take (kw.getD (8 * M.length))) := by
  unfold PadOk
  rw [hp, h1]
  exact padOk_core ⟨.sha w, B⟩ w true (fun _ _ _ => rfl) bl ll hB hbl hw hfit h h1 h2
    (fun l => by rw [h3]; exact enc_be w ll hw l) (fun l => by rw [h3]; simp [Spec.beBytes]) st hpf hdone M kw hkw

/-- PadOk for an object with MD padding -/
theorem padOk_md (c : HashCore) (h : Spec.MDHash σ) (w B bl ll : Nat) (hp : c.padder = ⟨.md w, B⟩)
    (hB : B = 8 * bl) (hbl : 0 < bl) (hw : w * 2 = 8 * ll) (hfit : w * 2 + 1 ≤ B)
    (h1 : h.blockLen = bl) (h2 : h.lenLen = ll) (h3 : h.encLen = Spec.leBytes ll)
    (st : PadState) (hpf : st.padflag = false) (hdone : st.bitcnt % B = 0)
    (M : List Spec.Byte) (kw : Option Nat) (hkw : ∀ l, kw = some l → l ≤ 8 * M.length) :
    PadOk c h st st.bitcnt M kw ((Spec.bytesToBits M).take (kw.getD (8 * M.length))) := by
  unfold PadOk
  rw [hp, h1]
  exact padOk_core ⟨.md w, B⟩ w false (fun _ _ _ => rfl) bl ll hB hbl hw hfit h h1 h2
    (fun l => by rw [h3]; exact enc_le w ll hw l) (fun l => by rw [h3]; simp [Spec.leBytes]) st hpf hdone M kw hkw

/-- the specification function each algorithm name stands for -/
def toSpec : Model.Alg → Spec.Alg
  | .md4 => .md4 | .md5 => .md5 | .sha0 => .sha0 | .sha1 => .sha1 | .sha224 => .sha224 | .sha256 => .sha256
  | .sha384 => .sha384 | .sha512 => .sha512 | .sha512_224 => .sha512_224 | .sha512_256 => .sha512_256

theorem fresh_mod (B : Nat) : ({} : PadState).bitcnt % B = 0 := by simp

/-- one-shot call of any of the ten objects, bit length given or omitted -/
theorem hash_eq (alg : Model.Alg) (M : List Spec.Byte) (kw : Option Nat) (hkw : ∀ l, kw = some l → l ≤ 8 * M.length) :
    Model.hash alg (toNatBytes M) kw
      = .ok (toNatBytes (Spec.hash (toSpec alg) ((Spec.bytesToBits M).take (kw.getD (8 * M.length))))) := by
  cases alg
  · exact hash_of_refines md4_refines M kw _
      (padOk_md _ Spec.Md4.md 32 512 64 8 rfl rfl (by decide) rfl (by decide) rfl rfl rfl {} rfl (fresh_mod _) M kw hkw)
  · exact hash_of_refines md5_refines M kw _
      (padOk_md _ Spec.Md5.md 32 512 64 8 rfl rfl (by decide) rfl (by decide) rfl rfl rfl {} rfl (fresh_mod _) M kw hkw)
  · exact hash_of_refines (sha1_refines 0 (by decide)) M kw _
      (padOk_sha _ (Spec.Sha1.md 0) 32 512 64 8 rfl rfl (by decide) rfl (by decide) rfl rfl rfl {} rfl (fresh_mod _) M kw hkw)
  · exact hash_of_refines (sha1_refines 1 (by decide)) M kw _
      (padOk_sha _ (Spec.Sha1.md 1) 32 512 64 8 rfl rfl (by decide) rfl (by decide) rfl rfl rfl {} rfl (fresh_mod _) M kw hkw)
  · exact hash_of_refines (sha2_32_refines ⟨224, 28, 512, 32⟩ rfl (by decide) rfl _ _ iv224_eq) M kw _
      (padOk_sha _ _ 32 512 64 8 rfl rfl (by decide) rfl (by decide) rfl rfl rfl {} rfl (fresh_mod _) M kw hkw)
  · exact hash_of_refines (sha2_32_refines ⟨256, 32, 512, 32⟩ rfl (by decide) rfl _ _ iv256_eq) M kw _
      (padOk_sha _ _ 32 512 64 8 rfl rfl (by decide) rfl (by decide) rfl rfl rfl {} rfl (fresh_mod _) M kw hkw)
  · exact hash_of_refines (sha2_64_refines ⟨384, 48, 1024, 64⟩ rfl (by decide) rfl _ _ iv384_eq) M kw _
      (padOk_sha _ _ 64 1024 128 16 rfl rfl (by decide) rfl (by decide) rfl rfl rfl {} rfl (fresh_mod _) M kw hkw)
  · exact hash_of_refines (sha2_64_refines ⟨512, 64, 1024, 64⟩ rfl (by decide) rfl _ _ iv512_eq) M kw _
      (padOk_sha _ _ 64 1024 128 16 rfl rfl (by decide) rfl (by decide) rfl rfl rfl {} rfl (fresh_mod _) M kw hkw)
  · exact hash_of_refines (sha2_64_refines ⟨512, 28, 1024, 64⟩ rfl (by decide) rfl _ _ iv512_224_eq) M kw _
      (padOk_sha _ _ 64 1024 128 16 rfl rfl (by decide) rfl (by decide) rfl rfl rfl {} rfl (fresh_mod _) M kw hkw)
  · exact hash_of_refines (sha2_64_refines ⟨512, 32, 1024, 64⟩ rfl (by decide) rfl _ _ iv512_256_eq) M kw _
      (padOk_sha _ _ 64 1024 128 16 rfl rfl (by decide) rfl (by decide) rfl rfl rfl {} rfl (fresh_mod _) M kw hkw)

end Proofs.Lemmas.EndToEnd

namespace Proofs.Lemmas.EndToEnd
open Model Model.Py Proofs.Lemmas.Parse

theorem md_out_length (s : Spec.Md4.State) : (Spec.Md4.out s).length = 16 := by
  obtain ⟨a, b, c, d⟩ := s; simp [Spec.Md4.out, Spec.leBytes]
theorem md5_out_length (s : Spec.Md5.State) : (Spec.Md5.out s).length = 16 := by
  obtain ⟨a, b, c, d⟩ := s; simp [Spec.Md5.out, Spec.leBytes]
theorem sha1_out_length (s : Spec.Sha1.State) : (Spec.Sha1.out s).length = 20 := by
  obtain ⟨a, b, c, d, e⟩ := s; simp [Spec.Sha1.out, Spec.beBytes]
theorem sha2_out_length {w : Nat} (n : Nat) (s : Spec.Sha2.State w) (hn : n ≤ 8 * (w / 8)) :
    (Spec.Sha2.out n s).length = n := by
  obtain ⟨a, b, c, d, e, f, g, h⟩ := s
  simp [Spec.Sha2.out, Spec.beBytes]; omega

/-- the standard digests have the advertised length -/
theorem spec_length (alg : Model.Alg) (bits : List Bool) : (Spec.hash (toSpec alg) bits).length = alg.outlen := by
  cases alg
  · exact md_out_length _
  · exact md5_out_length _
  · exact sha1_out_length _
  · exact sha1_out_length _
  · exact sha2_out_length 28 _ (by decide)
  · exact sha2_out_length 32 _ (by decide)
  · exact sha2_out_length 48 _ (by decide)
  · exact sha2_out_length 64 _ (by decide)
  · exact sha2_out_length 28 _ (by decide)
  · exact sha2_out_length 32 _ (by decide)

/-- a bit length beyond the data is refused (for any byte values, any object state the constructor leaves) -/
theorem too_large (alg : Model.Alg) (M : List Nat) (L : Nat) (hL : L > 8 * M.length) :
    ∃ e, Model.hash alg M (some L) = .error e := by
  have key : ∀ c : HashCore, ∃ e, c.hash M (some L) = .error e := by
    intro c
    simp only [HashCore.hash, HashCore.call, HashCore.update, HashCore.initstate, Padder.iterblocks,
      Bool.false_eq_true, if_false, Option.getD_some, hL, if_true, HashCore.absorb]
    exact ⟨_, rfl⟩
  cases alg <;> exact key _

end Proofs.Lemmas.EndToEnd
