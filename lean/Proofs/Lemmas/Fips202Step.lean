/-
  Lemmas for C04 / FIPS 202, part 1: the lane/bit correspondence (bit z of lane (x,y) ↔ A[x,y,z]) between the
  state array of bits of Spec.Fips202 and the 25 lanes of Spec.Keccak, and the step mappings θ ρ π χ under it.
-/
import Spec.Fips202
import Spec.Keccak
import Proofs.Lemmas.KeccakSponge
namespace Proofs.Lemmas.Fips202Step
open Spec.Fips202 Proofs.Lemmas.KeccakSponge

/-! ### "x mod a" -/

theorem mod_natCast (n a : Nat) : mod (n : Int) a = n % a := by
  simp only [mod, ← Int.natCast_emod, Int.toNat_natCast]

theorem mod_lt (x : Int) {a : Nat} (ha : 0 < a) : mod x a < a := by
  have h1 : x % (a : Int) < a := Int.emod_lt_of_pos x (by omega)
  have h2 : 0 ≤ x % (a : Int) := Int.emod_nonneg x (by omega)
  simp only [mod]; omega

/-- (z − k) mod w for natural numbers z, k -/
theorem mod_sub (z k w : Nat) (hw : 0 < w) : mod ((z : Int) - k) w = (z + (w - k % w)) % w := by
  have hk : k % w < w := Nat.mod_lt k hw
  have key : ((z : Int) - k) % (w : Int) = (((z + (w - k % w) : Nat) : Int)) % (w : Int) := by
    rw [Int.emod_eq_emod_iff_emod_sub_eq_zero]
    apply Int.emod_eq_zero_of_dvd
    refine ⟨-(1 + (k / w : Nat)), ?_⟩
    have h := Nat.mod_add_div k w
    have h' : ((k % w : Nat) : Int) + (w : Int) * ((k / w : Nat) : Int) = (k : Int) := by
      rw [← Int.natCast_mul, ← Int.natCast_add, h]
    have e : (((z + (w - k % w) : Nat)) : Int) = (z : Int) + ((w : Int) - ((k % w : Nat) : Int)) := by omega
    rw [e, Int.mul_neg, Int.mul_add, Int.mul_one, ← h']
    omega
  simp only [mod, key, ← Int.natCast_emod, Int.toNat_natCast]

/-- (−k) mod w for a natural number k -/
theorem mod_neg (k w : Nat) (hw : 0 < w) : mod (-(k : Int)) w = (w - k % w) % w := by
  have := mod_sub 0 k w hw
  simpa using this

/-! ### the correspondence -/

/-- lane (x,y) of a state array of bits: bit z is A[x,y,z] -/
def laneOf (w : Nat) (A : StateArray) (x y : Nat) : BitVec w :=
  BitVec.ofNat w (Spec.Keccak.bitsToNat ((List.range w).map fun z => A x y z))

/-- the 25 lanes of a state array of bits (lane index x + 5y) -/
def lanes (w : Nat) (A : StateArray) : Spec.Keccak.State w := Spec.Keccak.mkState fun x y => laneOf w A x y

theorem bit_map_range (w : Nat) (g : Nat → Bool) (z : Nat) : bit ((List.range w).map g) z = (decide (z < w) && g z) := by
  by_cases hz : z < w
  · simp [bit, List.getD_eq_getElem?_getD, hz]
  · rw [bit_of_length_le (by simp; omega)]; simp [hz]

theorem getLsbD_laneOf (w : Nat) (A : StateArray) (x y z : Nat) :
    (laneOf w A x y).getLsbD z = (decide (z < w) && A x y z) := by
  rw [laneOf, getLsbD_ofNat_bitsToNat, bit_map_range]
  cases decide (z < w) <;> rfl

theorem lanes_getElem (w : Nat) (A : StateArray) (i : Nat) (hi : i < 25) :
    (lanes w A)[i] = laneOf w A (i % 5) (i / 5) := by
  simp only [lanes, Spec.Keccak.mkState, Vector.getElem_ofFn]

theorem lane_lanes (w : Nat) (A : StateArray) (x y : Nat) :
    Spec.Keccak.lane (lanes w A) x y = laneOf w A (x % 5) (y % 5) := by
  simp only [Spec.Keccak.lane, lanes_getElem]
  congr 1 <;> omega

/-- two state arrays of bits that agree on 0 ≤ x,y < 5, 0 ≤ z < w have the same lanes -/
theorem lanes_congr (w : Nat) (A A' : StateArray) (h : ∀ x < 5, ∀ y < 5, ∀ z < w, A x y z = A' x y z) :
    lanes w A = lanes w A' := by
  apply Vector.ext
  intro i hi
  rw [lanes_getElem w A i hi, lanes_getElem w A' i hi]
  apply BitVec.eq_of_getLsbD_eq
  intro z hz
  rw [getLsbD_laneOf, getLsbD_laneOf, h (i % 5) (by omega) (i / 5) (by omega) z hz]

/-- … and the lanes determine the bits -/
theorem bit_of_lanes (w : Nat) (A : StateArray) (x y z : Nat) (hx : x < 5) (hy : y < 5) (hz : z < w) :
    A x y z = (Spec.Keccak.lane (lanes w A) x y).getLsbD z := by
  rw [lane_lanes, getLsbD_laneOf, Nat.mod_eq_of_lt hx, Nat.mod_eq_of_lt hy]; simp [hz]

/-- proving a lane-level identity bit by bit -/
theorem lanes_eq_mkState (w : Nat) (A : StateArray) (g : Nat → Nat → BitVec w)
    (h : ∀ x < 5, ∀ y < 5, ∀ z < w, A x y z = (g x y).getLsbD z) : lanes w A = Spec.Keccak.mkState g := by
  apply Vector.ext
  intro i hi
  rw [lanes_getElem w A i hi]
  simp only [Spec.Keccak.mkState, Vector.getElem_ofFn]
  apply BitVec.eq_of_getLsbD_eq
  intro z hz
  rw [getLsbD_laneOf, h (i % 5) (by omega) (i / 5) (by omega) z hz]; simp [hz]

/-- a rotation of the lane by k towards the higher bits is the shift of the z coordinate by k modulo w -/
theorem rot_bit {w : Nat} (hw : 0 < w) (a : BitVec w) (k z : Nat) (hz : z < w) :
    (a.rotateLeft k).getLsbD z = a.getLsbD (mod ((z : Int) - k) w) := by
  have hk : k % w < w := Nat.mod_lt k hw
  rw [BitVec.getLsbD_rotateLeft, mod_sub z k w hw]
  by_cases h : z < k % w
  · have e : (z + (w - k % w)) % w = w - k % w + z := by
      rw [Nat.mod_eq_of_lt (by omega)]; omega
    simp [h, e]
  · have e : (z + (w - k % w)) % w = z - k % w := by
      have : z + (w - k % w) = (z - k % w) + w := by omega
      rw [this, Nat.add_mod_right, Nat.mod_eq_of_lt (by omega)]
    simp [h, e, hz]

/-! ### θ ρ π χ -/

theorem mod5_sub_one (x : Nat) : mod ((x : Int) - 1) 5 = (x + 4) % 5 := by simp only [mod]; omega
theorem mod5_add_one (x : Nat) : mod ((x : Int) + 1) 5 = (x + 1) % 5 := by simp only [mod]; omega
theorem mod5_add_two (x : Nat) : mod ((x : Int) + 2) 5 = (x + 2) % 5 := by simp only [mod]; omega
theorem mod5_pi (x y : Nat) : mod ((x : Int) + 3 * y) 5 = (x + 3 * y) % 5 := by simp only [mod]; omega
theorem mod5_walk (x y : Nat) : mod (2 * (x : Int) + 3 * y) 5 = (2 * x + 3 * y) % 5 := by simp only [mod]; omega

/-- Algorithm 1 = the lane-level θ -/
theorem theta_agree {w : Nat} (hw : 0 < w) (A : StateArray) :
    lanes w (theta w A) = Spec.Keccak.theta (lanes w A) := by
  unfold Spec.Keccak.theta
  apply lanes_eq_mkState
  intro x hx y hy z hz
  have hm : mod ((z : Int) - 1) w < w := mod_lt _ hw
  have h4 : (x + 4) % 5 % 5 = (x + 4) % 5 := Nat.mod_mod _ _
  have h1 : (x + 1) % 5 % 5 = (x + 1) % 5 := Nat.mod_mod _ _
  have hx5 : x % 5 = x := Nat.mod_eq_of_lt hx
  have hy5 : y % 5 = y := Nat.mod_eq_of_lt hy
  simp only [theta]
  simp only [mod5_sub_one, mod5_add_one]
  simp only [BitVec.getLsbD_xor]
  rw [rot_bit hw _ 1 z hz]
  simp only [BitVec.getLsbD_xor]
  simp only [lane_lanes]
  simp only [getLsbD_laneOf]
  have hm' : mod ((z : Int) - ((1 : Nat) : Int)) w < w := mod_lt _ hw
  simp only [hz, hm', decide_true, Bool.true_and, Nat.mod_mod, hx5, hy5, Nat.reduceMod]
  rfl

/-- Algorithm 3 = the lane-level π -/
theorem pi_agree (w : Nat) (A : StateArray) : lanes w (pi A) = Spec.Keccak.pi (lanes w A) := by
  unfold Spec.Keccak.pi
  apply lanes_eq_mkState
  intro x hx y hy z hz
  simp only [pi, mod5_pi, lane_lanes, getLsbD_laneOf, hz, decide_true, Bool.true_and, Nat.mod_mod,
    Nat.mod_eq_of_lt hx]

/-- Algorithm 4 = the lane-level χ -/
theorem chi_agree (w : Nat) (A : StateArray) : lanes w (chi A) = Spec.Keccak.chi (lanes w A) := by
  unfold Spec.Keccak.chi
  apply lanes_eq_mkState
  intro x hx y hy z hz
  simp only [chi, mod5_add_one, mod5_add_two, BitVec.getLsbD_xor, BitVec.getLsbD_and, BitVec.getLsbD_not,
    lane_lanes, getLsbD_laneOf, hz, decide_true, Bool.true_and, Nat.mod_eq_of_lt hx,
    Nat.mod_eq_of_lt hy, Bool.xor_true]

/-! #### ρ: the walk -/

/-- the t-th point of the walk (x,y) ← (y, (2x+3y) mod 5) from (1,0) -/
def walkPos : Nat → Nat × Nat
  | 0 => (1, 0)
  | t + 1 => ((walkPos t).2, (2 * (walkPos t).1 + 3 * (walkPos t).2) % 5)

/-- the last t < n at which the walk visits (x,y) -/
def lastVisit (n x y : Nat) : Option Nat := (List.range n).reverse.find? fun t => walkPos t == (x, y)

/-- the body of the loop of Algorithm 2 (as written in Spec.Fips202.rho) -/
def rhoStep (w : Nat) (A : StateArray) (st : (Nat × Nat) × StateArray) (t : Nat) : (Nat × Nat) × StateArray :=
  let x := st.1.1
  let y := st.1.2
  let A' := st.2
  let A'' : StateArray := fun x' y' z =>
    if x' = x ∧ y' = y then A x y (mod (z - (t + 1) * (t + 2) / 2) w) else A' x' y' z
  ((y, mod (2 * x + 3 * y) 5), A'')

theorem rho_eq_fold (w : Nat) (A : StateArray) :
    rho w A = ((List.range 24).foldl (rhoStep w A)
      ((1, 0), fun x y z => if x = 0 ∧ y = 0 then A 0 0 z else false)).2 := rfl

theorem rho_fold (w : Nat) (A A0 : StateArray) : ∀ n,
    ((List.range n).foldl (rhoStep w A) ((1, 0), A0)).1 = walkPos n ∧
    ∀ x y z, ((List.range n).foldl (rhoStep w A) ((1, 0), A0)).2 x y z =
      match lastVisit n x y with
      | some t => A x y (mod ((z : Int) - ((t : Int) + 1) * ((t : Int) + 2) / 2) w)
      | none => A0 x y z := by
  intro n
  induction n with
  | zero => exact ⟨rfl, fun x y z => rfl⟩
  | succ n ih =>
    obtain ⟨ih1, ih2⟩ := ih
    rw [List.range_succ, List.foldl_append, List.foldl_cons, List.foldl_nil]
    constructor
    · simp only [rhoStep, ih1, mod5_walk, walkPos]
    · intro x y z
      have hl : lastVisit (n + 1) x y = if walkPos n == (x, y) then some n else lastVisit n x y := by
        simp only [lastVisit, List.range_succ, List.reverse_append, List.reverse_cons, List.reverse_nil,
          List.nil_append, List.cons_append, List.find?_cons]
        cases walkPos n == (x, y) <;> rfl
      rw [hl]
      simp only [rhoStep, ih1]
      by_cases h : x = (walkPos n).1 ∧ y = (walkPos n).2
      · have hb : (walkPos n == (x, y)) = true := by
          obtain ⟨h1, h2⟩ := h; subst h1; subst h2; simp
        rw [if_pos h, hb, if_pos rfl, h.1, h.2]
      · have hb : (walkPos n == (x, y)) = false := by
          cases hp : walkPos n with
          | mk a b =>
            rw [hp] at h
            simp only [beq_eq_false_iff_ne, ne_eq]
            intro ha
            exact h ⟨(congrArg Prod.fst ha).symm, (congrArg Prod.snd ha).symm⟩
        rw [if_neg h, hb, ih2]; rfl

/-- the walk visits each of the 24 lanes other than (0,0) exactly where Spec.Keccak's table of offsets says -/
theorem walk_offsets : ∀ x < 5, ∀ y < 5,
    (lastVisit 24 x y).map (fun t => (t + 1) * (t + 2) / 2)
      = if x = 0 ∧ y = 0 then none else some (Spec.Keccak.rhoOffset x y) := by decide

theorem rhoOffset_zero : Spec.Keccak.rhoOffset 0 0 = 0 := by decide

/-- every lane is read at the offset the walk gives it -/
theorem rho_at {w : Nat} (A : StateArray) (x y z : Nat) (hx : x < 5) (hy : y < 5) (hz : z < w) :
    rho w A x y z = A x y (mod ((z : Int) - (Spec.Keccak.rhoOffset x y : Nat)) w) := by
  rw [rho_eq_fold, (rho_fold w A _ 24).2 x y z]
  have hwk := walk_offsets x hx y hy
  cases hv : lastVisit 24 x y with
  | none =>
    rw [hv] at hwk
    by_cases h0 : x = 0 ∧ y = 0
    · obtain ⟨rfl, rfl⟩ := h0
      have : mod (z : Int) w = z := by rw [mod_natCast, Nat.mod_eq_of_lt hz]
      simp [rhoOffset_zero, this]
    · simp [h0] at hwk
  | some t =>
    rw [hv] at hwk
    by_cases h0 : x = 0 ∧ y = 0
    · simp [h0] at hwk
    · simp only [h0, if_false, Option.map_some, Option.some.injEq] at hwk
      have : (((t : Int) + 1) * ((t : Int) + 2) / 2) = (((t + 1) * (t + 2) / 2 : Nat) : Int) := by
        push_cast; rfl
      simp only [this, hwk]

/-- Algorithm 2 = the lane-level ρ -/
theorem rho_agree {w : Nat} (hw : 0 < w) (A : StateArray) : lanes w (rho w A) = Spec.Keccak.rho (lanes w A) := by
  unfold Spec.Keccak.rho
  apply lanes_eq_mkState
  intro x hx y hy z hz
  have hm : mod ((z : Int) - (Spec.Keccak.rhoOffset x y : Nat)) w < w := mod_lt _ hw
  rw [rot_bit hw _ _ z hz, lane_lanes, getLsbD_laneOf, rho_at A x y z hx hy hz, Nat.mod_eq_of_lt hx,
    Nat.mod_eq_of_lt hy]
  simp [hm]

end Proofs.Lemmas.Fips202Step
