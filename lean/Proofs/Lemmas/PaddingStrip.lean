/-
  Helper lemmas for C09: removing bit-level padding (zero, bit, MD/SHA/BLAKE strengthening) from a byte string
  that is `bitsToBytes` of a known bit string.
-/
import Proofs.Lemmas.PaddingRemove
namespace Proofs.Lemmas.Padding
open Model Model.Py Model.Padder Spec.Padding

theorem byteBits_byteOfBits8 : ∀ b0 b1 b2 b3 b4 b5 b6 b7 : Bool,
    byteBits (byteOfBits [b0, b1, b2, b3, b4, b5, b6, b7]) = [b0, b1, b2, b3, b4, b5, b6, b7] := by decide

theorem list8 (l : List Bool) (h : l.length = 8) : ∃ b0 b1 b2 b3 b4 b5 b6 b7, l = [b0, b1, b2, b3, b4, b5, b6, b7] := by
  match l, h with
  | [b0, b1, b2, b3, b4, b5, b6, b7], _ => exact ⟨b0, b1, b2, b3, b4, b5, b6, b7, rfl⟩

theorem byteBits_byteOfBits (l : List Bool) (h : l.length = 8) : byteBits (byteOfBits l) = l := by
  obtain ⟨b0, b1, b2, b3, b4, b5, b6, b7, rfl⟩ := list8 l h
  exact byteBits_byteOfBits8 ..

theorem bitsToBytes_eight (l : List Bool) (h : l.length = 8) : bitsToBytes l = [byteOfBits l] := by
  simp [bitsToBytes, h, List.range_succ, List.take_of_length_le (Nat.le_of_eq h)]

theorem bytesToBits_bitsToBytes (X : List Bool) (h : X.length % 8 = 0) : bytesToBits (bitsToBytes X) = X := by
  obtain ⟨n, hn⟩ : ∃ n, X.length = 8 * n := ⟨X.length / 8, by omega⟩
  induction n generalizing X with
  | zero =>
    have : X = [] := List.eq_nil_of_length_eq_zero (by omega)
    subst this; rfl
  | succ n ih =>
    have hX : X = X.take 8 ++ X.drop 8 := (List.take_append_drop 8 X).symm
    have h8 : (X.take 8).length = 8 := by rw [List.length_take]; omega
    have hd : (X.drop 8).length = 8 * n := by rw [List.length_drop]; omega
    rw [hX, bitsToBytes_append _ _ (by omega), bitsToBytes_eight _ h8, List.singleton_append, bytesToBits_cons,
      byteBits_byteOfBits _ h8, ih _ (by omega) hd]

theorem bitsToBytes_take_aligned (W : List Bool) (j : Nat) (h : 8 * j ≤ W.length) :
    (bitsToBytes W).take j = bitsToBytes (W.take (8 * j)) ∧ (bitsToBytes W).drop j = bitsToBytes (W.drop (8 * j)) := by
  have hW : W = W.take (8 * j) ++ W.drop (8 * j) := (List.take_append_drop _ W).symm
  have hl : (W.take (8 * j)).length = 8 * j := by rw [List.length_take]; omega
  have hj : (bitsToBytes (W.take (8 * j))).length = j := by rw [bitsToBytes_length, hl]; omega
  have : bitsToBytes W = bitsToBytes (W.take (8 * j)) ++ bitsToBytes (W.drop (8 * j)) := by
    conv => lhs; rw [hW]
    rw [bitsToBytes_append _ _ (by omega)]
  rw [this]
  constructor
  · rw [List.take_append_of_le_length (by omega), List.take_of_length_le (by omega)]
  · rw [List.drop_append_of_le_length (by omega), List.drop_of_length_le (by omega), List.nil_append]

theorem bools_setSize (b : Model.Bits) (n : Nat) (h : n ≤ b.size) : bools (b.setSize n) = (bools b).take n := by
  apply List.ext_getElem
  · simp [Bits.setSize]; omega
  · intro i h1 h2
    simp only [bools_length, Bits.setSize] at h1
    rw [bools_getElem, List.getElem_take, bools_getElem]
    simp [Bits.setSize, Nat.testBit_mod_two_pow, h1]

/-- bits of `Bits(c)` for a byte string that came out of `bitsToBytes` -/
theorem bools_bitsOfBytes_bitsToBytes (X : List Bool) (h : X.length % 8 = 0) :
    bools (Padder.bitsOfBytes (bitsToBytes X) (8 * (bitsToBytes X).length)) = X := by
  rw [bools_bitsOfBytes _ (bitsToBytes_Bytes X) _ (Nat.le_refl _), bytesToBits_bitsToBytes X h,
    List.take_of_length_le (by rw [bitsToBytes_length]; omega)]

/-- `str(b).rfind('1')`: index of the last 1 bit -/
theorem rfind1_spec (b : Model.Bits) (hwf : b.WF) (Y : List Bool) (z : Nat) (hb : bools b = Y ++ true :: zeros z) :
    Padder.rfind1 b = some Y.length := by
  have hsize : b.size = Y.length + 1 + z := by
    have := congrArg List.length hb
    simp only [bools_length, List.length_append, List.length_cons, zeros, List.length_replicate] at this
    omega
  have hbit : ∀ i, i < b.size → b.ival.testBit i = (Y ++ true :: zeros z).getD i false := by
    intro i hi
    rw [← hb, bools_getD]; simp [hi]
  have h1 : b.ival.testBit Y.length = true := by
    rw [hbit _ (by omega)]; simp [List.getD_eq_getElem?_getD]
  have h2 : ∀ i, i ≥ Y.length + 1 → b.ival.testBit i = false := by
    intro i hi
    by_cases hlt : i < b.size
    · rw [hbit i hlt, List.getD_eq_getElem?_getD, List.getElem?_append_right (by omega)]
      have : i - Y.length = (i - Y.length - 1) + 1 := by omega
      rw [this, List.getElem?_cons_succ]
      simp only [zeros, List.getElem?_replicate]
      split <;> rfl
    · exact Nat.testBit_lt_two_pow (Nat.lt_of_lt_of_le hwf (Nat.pow_le_pow_right (by decide) (by omega)))
  have hge := Nat.ge_two_pow_of_testBit h1
  have hlt := Nat.lt_pow_two_of_testBit b.ival h2
  have hne : b.ival ≠ 0 := by have := Nat.two_pow_pos Y.length; omega
  have hlog : Nat.log2 b.ival = Y.length := by
    have a1 := (Nat.le_log2 hne).mpr hge
    have a2 := (Nat.log2_lt hne).mpr hlt
    omega
  simp [Padder.rfind1, hne, bitLength, hlog]

/-- the last block of a padded string, as the code cuts it off -/
theorem lastBlock_split (p : Padder) (hv : Valid p) (W : List Bool) (n : Nat) (hn : 1 ≤ n)
    (hW : W.length = n * p.blocksize) :
    (bitsToBytes W).take ((bitsToBytes W).length - p.blocklen) = bitsToBytes (W.take (W.length - p.blocksize)) ∧
    (bitsToBytes W).drop ((bitsToBytes W).length - p.blocklen) = bitsToBytes (W.drop (W.length - p.blocksize)) ∧
    bools (Padder.bitsOfBytes ((bitsToBytes W).drop ((bitsToBytes W).length - p.blocklen))
        (8 * ((bitsToBytes W).drop ((bitsToBytes W).length - p.blocklen)).length)) = W.drop (W.length - p.blocksize) ∧
    (W.drop (W.length - p.blocksize)).length = p.blocksize := by
  have hB := hv.size_eq
  obtain ⟨k, rfl⟩ : ∃ k, n = k + 1 := ⟨n - 1, by omega⟩
  have hnB : (k + 1) * p.blocksize = 8 * (k * p.blocklen) + 8 * p.blocklen := by
    rw [Nat.succ_mul, hB, Nat.mul_left_comm]
  have hlen : (bitsToBytes W).length = k * p.blocklen + p.blocklen := by rw [bitsToBytes_length]; omega
  have hj : (bitsToBytes W).length - p.blocklen = k * p.blocklen := by omega
  have hWB : W.length - p.blocksize = 8 * (k * p.blocklen) := by omega
  obtain ⟨ht, hd⟩ := bitsToBytes_take_aligned W (k * p.blocklen) (by omega)
  have hdl : (W.drop (W.length - p.blocksize)).length = p.blocksize := by rw [List.length_drop]; omega
  rw [hj, hWB]
  refine ⟨ht, hd, ?_, by rw [← hWB]; exact hdl⟩
  rw [hd]
  exact bools_bitsOfBytes_bitsToBytes _ (by rw [← hWB, hdl]; omega)

/-- zero padding: `remove` cuts `padcnt` bits off the last block -/
theorem remove_null_W (p : Padder) (hv : Valid p) (hs : p.scheme = .null) (st : PadState) (X : List Bool) (z n : Nat)
    (hn : 1 ≤ n) (hW : (X ++ zeros z).length = n * p.blocksize) (hz : z ≤ p.blocksize) (hpc : st.padcnt = z) :
    p.remove st (bitsToBytes (X ++ zeros z)) = .ok (bitsToBytes X) := by
  obtain ⟨h1, h2, h3, h4⟩ := lastBlock_split p hv _ n hn hW
  have hB := hv.size_eq
  simp only [Padder.remove, hs]
  generalize hb : Padder.bitsOfBytes _ _ = b at h3 ⊢
  have hsz : b.size = p.blocksize := by rw [← bools_length, h3, h4]
  have hle : ¬ st.padcnt > b.size := by omega
  rw [if_neg hle, h1, toBytes_eq, bools_setSize _ _ (by omega), h3, hsz, hpc]
  have hXl : X.length = (X ++ zeros z).length - z := by simp [zeros]
  have hal : ((X ++ zeros z).take ((X ++ zeros z).length - p.blocksize)).length % 8 = 0 := by
    rw [List.length_take, hW]
    obtain ⟨k, rfl⟩ : ∃ k, n = k + 1 := ⟨n - 1, by omega⟩
    rw [Nat.succ_mul, hB]
    have : k * (8 * p.blocklen) = 8 * (k * p.blocklen) := Nat.mul_left_comm _ _ _
    omega
  rw [← bitsToBytes_append _ _ hal]
  congr 2
  have hge : p.blocksize ≤ (X ++ zeros z).length := by rw [hW]; exact Nat.le_mul_of_pos_left _ hn
  have e : (X ++ zeros z).length - z = ((X ++ zeros z).length - p.blocksize) + (p.blocksize - z) := by omega
  have : X = (X ++ zeros z).take ((X ++ zeros z).length - z) := by
    rw [← hXl, List.take_left]
  conv => rhs; rw [this, e, List.take_add]

/-- bit padding: `remove` cuts the last block just before its last 1 bit -/
theorem remove_bit_W (p : Padder) (hv : Valid p) (hs : p.scheme = .bit) (st : PadState) (X : List Bool) (z n : Nat)
    (hn : 1 ≤ n) (hW : (X ++ true :: zeros z).length = n * p.blocksize) (hz : z < p.blocksize) :
    p.remove st (bitsToBytes (X ++ true :: zeros z)) = .ok (bitsToBytes X) := by
  obtain ⟨h1, h2, h3, h4⟩ := lastBlock_split p hv _ n hn hW
  have hB := hv.size_eq
  simp only [Padder.remove, hs]
  generalize hb : Padder.bitsOfBytes _ _ = b at h3 ⊢
  have hwf : b.WF := by rw [← hb]; exact bitsOfBytes_WF _ _
  have hlenW : (X ++ true :: zeros z).length = X.length + 1 + z := by simp [zeros]; omega
  have hle : (X ++ true :: zeros z).length - p.blocksize ≤ X.length := by omega
  have hdrop : (X ++ true :: zeros z).drop ((X ++ true :: zeros z).length - p.blocksize)
      = X.drop ((X ++ true :: zeros z).length - p.blocksize) ++ true :: zeros z :=
    List.drop_append_of_le_length hle
  have htake : (X ++ true :: zeros z).take ((X ++ true :: zeros z).length - p.blocksize)
      = X.take ((X ++ true :: zeros z).length - p.blocksize) :=
    List.take_append_of_le_length hle
  rw [hdrop] at h3
  rw [rfind1_spec b hwf _ z h3]
  simp only
  have hsz : (X.drop ((X ++ true :: zeros z).length - p.blocksize)).length ≤ b.size := by
    rw [← bools_length, h3]; simp
  rw [h1, toBytes_eq, bools_setSize _ _ hsz, h3, List.take_left, htake]
  have hal : (X.take ((X ++ true :: zeros z).length - p.blocksize)).length % 8 = 0 := by
    rw [List.length_take, Nat.min_eq_left hle, hW]
    obtain ⟨k, rfl⟩ : ∃ k, n = k + 1 := ⟨n - 1, by omega⟩
    rw [Nat.succ_mul, hB]
    have : k * (8 * p.blocklen) = 8 * (k * p.blocklen) := Nat.mul_left_comm _ _ _
    omega
  rw [← bitsToBytes_append _ _ hal, List.take_append_drop]

/-! ### MD / SHA / BLAKE: strip zero bytes, then cut before the last 1 bit -/

theorem byteOfBits_zeros (l : List Bool) (h : ∀ j < 8, l.getD j false = false) : byteOfBits l = 0 := by
  rw [byteOfBits_unfold, h 0 (by omega), h 1 (by omega), h 2 (by omega), h 3 (by omega), h 4 (by omega),
    h 5 (by omega), h 6 (by omega), h 7 (by omega)]
  rfl

theorem bitsToBytes_zeros (t : Nat) : bitsToBytes (zeros (8 * t)) = List.replicate t 0 := by
  apply List.ext_getElem
  · simp [bitsToBytes_length, zeros]; omega
  · intro i h1 h2
    rw [bitsToBytes_getElem, List.getElem_replicate]
    apply byteOfBits_zeros
    intro j hj
    rw [getD_drop_take]
    simp only [zeros, List.getD_eq_getElem?_getD, List.getElem?_replicate]
    split <;> simp

theorem rstrip0_append_zeros (A : List Nat) (x t : Nat) (hx : x ≠ 0) :
    Padder.rstrip0 (A ++ [x] ++ List.replicate t 0) = A ++ [x] := by
  unfold Padder.rstrip0
  rw [List.reverse_append, List.reverse_replicate, List.dropWhile_append, List.dropWhile_replicate]
  simp [hx]

theorem byteOfBits_ne_zero (l : List Bool) (h8 : l.length = 8) (i : Nat) (hi : l.getD i false = true) :
    byteOfBits l ≠ 0 := by
  intro h0
  have := byteBits_byteOfBits l h8
  rw [h0] at this
  have hz : byteBits 0 = List.replicate 8 false := by decide
  rw [hz] at this
  rw [← this] at hi
  simp only [List.getD_eq_getElem?_getD, List.getElem?_replicate] at hi
  split at hi <;> simp at hi

/-- the common end of MD / SHA / BLAKE `remove`: on a byte string holding X, a 1 bit and zeros up to a byte
    boundary, stripping the zero bytes and cutting before the last 1 bit returns X (zero-filled) -/
theorem cutLastOne_rstrip (X : List Bool) (N : Nat) (hal : (X ++ true :: zeros N).length % 8 = 0) :
    (Padder.rstrip0 (bitsToBytes (X ++ true :: zeros N))).length ≠ 0 ∧
    Padder.cutLastOne (Padder.rstrip0 (bitsToBytes (X ++ true :: zeros N))) = .ok (bitsToBytes X) := by
  have hlen : (X ++ true :: zeros N).length = X.length + 1 + N := by simp [zeros]; omega
  -- j whole bytes of X, s bits in the byte that receives the 1
  generalize hj : X.length / 8 = j
  generalize hs : X.length % 8 = s
  have hXl : X.length = 8 * j + s := by omega
  have hs8 : s < 8 := by omega
  obtain ⟨t, ht⟩ : ∃ t, N = (7 - s) + 8 * t := ⟨(N - (7 - s)) / 8, by omega⟩
  have hz : zeros N = zeros (7 - s) ++ zeros (8 * t) := by simp only [zeros, ht]; exact List.replicate_append_replicate.symm
  have hA : X = X.take (8 * j) ++ X.drop (8 * j) := (List.take_append_drop _ _).symm
  have hAl : (X.take (8 * j)).length = 8 * j := by rw [List.length_take]; omega
  have hYl : (X.drop (8 * j)).length = s := by rw [List.length_drop]; omega
  have hlast8 : (X.drop (8 * j) ++ true :: zeros (7 - s)).length = 8 := by simp [zeros, hYl]; omega
  -- the byte string
  have hbytes : bitsToBytes (X ++ true :: zeros N)
      = bitsToBytes (X.take (8 * j)) ++ [byteOfBits (X.drop (8 * j) ++ true :: zeros (7 - s))] ++ List.replicate t 0 := by
    have e : X ++ true :: zeros N
        = X.take (8 * j) ++ ((X.drop (8 * j) ++ true :: zeros (7 - s)) ++ zeros (8 * t)) := by
      rw [hz, ← List.append_assoc (X.take (8 * j)), ← List.append_assoc (X.take (8 * j)), List.take_append_drop]
      simp [List.append_assoc]
    rw [e, bitsToBytes_append _ _ (by omega), bitsToBytes_append _ _ (by omega), bitsToBytes_eight _ hlast8,
      bitsToBytes_zeros, List.append_assoc]
  have hx : byteOfBits (X.drop (8 * j) ++ true :: zeros (7 - s)) ≠ 0 :=
    byteOfBits_ne_zero _ hlast8 s (by
      rw [List.getD_eq_getElem?_getD, List.getElem?_append_right (by omega), hYl, Nat.sub_self]; rfl)
  rw [hbytes, rstrip0_append_zeros _ _ _ hx]
  refine ⟨by simp, ?_⟩
  -- cut before the last 1 bit of the last byte
  generalize hxv : byteOfBits (X.drop (8 * j) ++ true :: zeros (7 - s)) = x at hx ⊢
  have hA' : (bitsToBytes (X.take (8 * j)) ++ [x]).length - 1 = (bitsToBytes (X.take (8 * j))).length := by simp
  simp only [Padder.cutLastOne, hA', List.drop_left, List.take_left, List.length_singleton, Nat.mul_one]
  have hxlt : x < 256 := by rw [← hxv]; exact byteOfBits_lt _
  have hbools : bools (Padder.bitsOfBytes [x] 8) = X.drop (8 * j) ++ true :: zeros (7 - s) := by
    rw [bools_bitsOfBytes [x] (by intro y hy; simp at hy; omega) 8 (by simp)]
    simp only [bytesToBits, List.flatMap_cons, List.flatMap_nil, List.append_nil]
    rw [List.take_of_length_le (by rw [byteBits_length]; omega), ← hxv, byteBits_byteOfBits _ hlast8]
  rw [rfind1_spec _ (bitsOfBytes_WF _ _) _ _ hbools]
  simp only
  rw [toBytes_eq, bools_setSize _ _ (by simp; omega), hbools, List.take_left,
    ← bitsToBytes_append _ _ (by omega), List.take_append_drop]

theorem take_bitsToBytes_append (Z F : List Bool) (c : Nat) (hZ : Z.length % 8 = 0) (hF : F.length = 8 * c) :
    (bitsToBytes (Z ++ F)).take ((bitsToBytes (Z ++ F)).length - c) = bitsToBytes Z := by
  rw [bitsToBytes_append _ _ hZ]
  have : (bitsToBytes Z ++ bitsToBytes F).length - c = (bitsToBytes Z).length := by
    rw [List.length_append, bitsToBytes_length F, hF]; omega
  rw [this, List.take_left]

/-- MD / SHA strengthening: `remove` drops the length field, the zero bytes and the 1 bit -/
theorem remove_md_W (p : Padder) (w : Nat) (hs : p.scheme = .md w ∨ p.scheme = .sha w) (hw : w % 4 = 0) (st : PadState)
    (X F : List Bool) (N : Nat) (hal : (X ++ true :: zeros N).length % 8 = 0) (hF : F.length = 2 * w) :
    p.remove st (bitsToBytes (X ++ true :: zeros N ++ F)) = .ok (bitsToBytes X) := by
  have hF' : F.length = 8 * (w / 4) := by omega
  obtain ⟨h1, h2⟩ := cutLastOne_rstrip X N hal
  have ht := take_bitsToBytes_append (X ++ true :: zeros N) F (w / 4) hal hF'
  rcases hs with hs | hs <;> simp only [Padder.remove, hs, ht, h1, if_false, h2]

theorem byteOfBits_flag (Zl : List Bool) (h7 : Zl.length = 7) (f : Bool) :
    byteOfBits (Zl ++ [f]) = byteOfBits (Zl ++ [false]) + f.toNat ∧ byteOfBits (Zl ++ [false]) % 2 = 0 := by
  match Zl, h7 with
  | [b0, b1, b2, b3, b4, b5, b6], _ =>
    simp only [byteOfBits_unfold, List.cons_append, List.nil_append, List.getD_cons_zero, List.getD_cons_succ,
      Bool.toNat_false]
    omega

/-- BLAKE: `remove` drops the length field, clears the flag bit, then as MD -/
theorem remove_blake_W (p : Padder) (h : Nat) (hs : p.scheme = .blake h) (st : PadState)
    (X F : List Bool) (N : Nat) (hal : (X ++ true :: zeros N ++ [decide (h = 256 ∨ h = 512)]).length % 8 = 0)
    (hF : F.length = 2 * Padder.blakeW h) :
    p.remove st (bitsToBytes (X ++ true :: zeros N ++ [decide (h = 256 ∨ h = 512)] ++ F)) = .ok (bitsToBytes X) := by
  have hW4 : Padder.blakeW h / 4 * 8 = 2 * Padder.blakeW h := by
    unfold Padder.blakeW; split <;> rfl
  have hF' : F.length = 8 * (Padder.blakeW h / 4) := by omega
  have ht := take_bitsToBytes_append (X ++ true :: zeros N ++ [decide (h = 256 ∨ h = 512)]) F (Padder.blakeW h / 4) hal hF'
  -- split the flagged bit string at its last byte
  generalize hZ : X ++ true :: zeros N = Z at *
  have hZl : (Z ++ [decide (h = 256 ∨ h = 512)]).length = Z.length + 1 := by simp
  generalize hj : Z.length / 8 = j
  have hZlen : Z.length = 8 * j + 7 := by omega
  have hsplit : Z = Z.take (8 * j) ++ Z.drop (8 * j) := (List.take_append_drop _ _).symm
  have hAl : (Z.take (8 * j)).length = 8 * j := by rw [List.length_take]; omega
  have h7 : (Z.drop (8 * j)).length = 7 := by rw [List.length_drop]; omega
  have hbytes : ∀ f : Bool, bitsToBytes (Z ++ [f]) = bitsToBytes (Z.take (8 * j)) ++ [byteOfBits (Z.drop (8 * j) ++ [f])] := by
    intro f
    have e : Z ++ [f] = Z.take (8 * j) ++ (Z.drop (8 * j) ++ [f]) := by
      rw [← List.append_assoc, List.take_append_drop]
    rw [e, bitsToBytes_append _ _ (by omega)]
    congr 1
    exact bitsToBytes_eight _ (by simp [h7])
  obtain ⟨hfl, hev⟩ := byteOfBits_flag (Z.drop (8 * j)) h7 (decide (h = 256 ∨ h = 512))
  -- what the code computes
  have hc0 := hbytes (decide (h = 256 ∨ h = 512))
  have hlast : (bitsToBytes (Z.take (8 * j)) ++ [byteOfBits (Z.drop (8 * j) ++ [decide (h = 256 ∨ h = 512)])]).getLast?
      = some (byteOfBits (Z.drop (8 * j) ++ [decide (h = 256 ∨ h = 512)])) := List.getLast?_concat
  have hlen1 : (bitsToBytes (Z.take (8 * j)) ++ [byteOfBits (Z.drop (8 * j) ++ [decide (h = 256 ∨ h = 512)])]).length - 1
      = (bitsToBytes (Z.take (8 * j))).length := by simp
  have hZ1 : Z ++ [false] = X ++ true :: zeros (N + 1) := by
    rw [← hZ]; simp [zeros, List.replicate_succ', List.append_assoc]
  have hal' : (X ++ true :: zeros (N + 1)).length % 8 = 0 := by
    rw [← hZ1]; simp only [List.length_append, List.length_singleton] at hZl hal ⊢; omega
  obtain ⟨g1, g2⟩ := cutLastOne_rstrip X (N + 1) hal'
  rw [← hZ1, hbytes false] at g1 g2
  simp only [Padder.remove, hs, ht, hc0, hlast, hlen1, List.take_left]
  by_cases hflag : h = 256 ∨ h = 512
  · have hd : decide (h = 256 ∨ h = 512) = true := by simp [hflag]
    rw [hd] at hfl
    have hodd : ¬ (True ∧ byteOfBits (Z.drop (8 * j) ++ [true]) % 2 ≠ 1) := by
      simp only [Bool.toNat_true] at hfl; omega
    have hlb : byteOfBits (Z.drop (8 * j) ++ [true]) - 1 = byteOfBits (Z.drop (8 * j) ++ [false]) := by
      simp only [Bool.toNat_true] at hfl; omega
    simp only [hflag, decide_true, hodd, if_true, if_false, hlb, g1, g2]
  · have hd : decide (h = 256 ∨ h = 512) = false := by simp [hflag]
    simp only [hflag, decide_false, false_and, if_false, g1, g2]

end Proofs.Lemmas.Padding
