/- MD4: tables, schedule, rounds, compression of the model equal RFC 1320 -/
import Proofs.Lemmas.Md
namespace Proofs.Lemmas.Md4
open Model Model.Py Model.Md Model.Gen.Hashes Proofs.Lemmas.BitsBitVec Proofs.Lemmas.Fold Proofs.Lemmas.Parse
  Proofs.Lemmas.RoundFns Proofs.Lemmas.Md

/-- the additive constant RFC 1320 §3.4 uses in round ⌊i/16⌋ (none in round 1) -/
def specK (r : Nat) : BitVec 32 := if r = 0 then 0#32 else if r = 1 then 0x5A827999#32 else 0x6ED9EBA1#32

theorem K_eq : ∀ r, r < 3 → md4K.getD r 0 = (specK r).toNat := by decide +kernel
theorem shift_eq : ∀ i, i < 48 → shiftOf md4st i = Spec.Md4.sTable.getD i 0 := by decide +kernel
theorem shift_le : ∀ i, i < 48 → Spec.Md4.sTable.getD i 0 ≤ 32 := by decide +kernel
theorem iv_eq : md4H.map (fun v => Bits.ofNatSz v 32) = embH Spec.Md4.iv := by decide +kernel
theorem tables_ok : tablesOk 3 md4ft.length md4K 3 md4st md4Idx = true := by decide +kernel

/-- the two `W.extend([W[i] for i in (…)])` produce exactly the RFC's X[k] sequence of the 48 operations -/
theorem extend_eq (X : List (BitVec 32)) (hX : X.length = 16) :
    extend (X.map ofBV) md4Idx = ((List.range 48).map fun i => X.getD (Spec.Md4.kTable.getD i 0) 0).map ofBV := by
  obtain ⟨x0, x1, x2, x3, x4, x5, x6, x7, x8, x9, x10, x11, x12, x13, x14, x15, rfl⟩ := list16 X hX
  rfl

theorem word_eq (X : List (BitVec 32)) (hX : X.length = 16) (i : Nat) (hi : i < 48) :
    (extend (X.map ofBV) md4Idx).getD i dflt = ofBV (X.getD (Spec.Md4.kTable.getD i 0) 0) := by
  rw [extend_eq X hX, dflt, getD_map_ofBV]
  simp [List.getD_eq_getElem?_getD, List.getElem?_map, List.getElem?_range hi]

theorem round_refines (X : List (BitVec 32)) (hX : X.length = 16) (i : Nat) (hi : i < 48) (a b c d : BitVec 32) :
    md4Round (extend (X.map ofBV) md4Idx) (emb4 (a, b, c, d)) i = emb4 (d, Spec.Md4.op X i a b c d, b, c) := by
  have hr : i / 16 < 3 := by omega
  simp only [md4Round, emb4, Spec.Md4.op, word_eq X hX i hi, K_eq _ hr, shift_eq i hi]
  by_cases h1 : i < 16
  · have e : i / 16 = 0 := by omega
    simp only [h1, if_true, e, specK, List.getD_cons_zero, md4ft, md4_f_ofBV, add_ofBV, addConst_ofBV,
      rol_ofBV _ _ (shift_le i hi), BitVec.add_zero]
  · by_cases h2 : i < 32
    · have e : i / 16 = 1 := by omega
      simp only [h1, h2, if_true, if_false, e, specK, Nat.one_ne_zero, md4ft, List.getD_cons_succ, List.getD_cons_zero,
        md4_g_ofBV, add_ofBV, addConst_ofBV, rol_ofBV _ _ (shift_le i hi)]
    · have e : i / 16 = 2 := by omega
      simp only [h1, h2, if_false, e, specK, show ¬ (2 = 0) by decide, show ¬ (2 = 1) by decide, md4ft,
        List.getD_cons_succ, List.getD_cons_zero, md4_h_ofBV, add_ofBV, addConst_ofBV, rol_ofBV _ _ (shift_le i hi)]

theorem step_shape (X : List (BitVec 32)) (s : State) (i : Nat) :
    Spec.Md4.step X s i = match i % 4 with
      | 0 => (Spec.Md4.op X i s.1 s.2.1 s.2.2.1 s.2.2.2, s.2.1, s.2.2.1, s.2.2.2)
      | 1 => (s.1, s.2.1, s.2.2.1, Spec.Md4.op X i s.2.2.2 s.1 s.2.1 s.2.2.1)
      | 2 => (s.1, s.2.1, Spec.Md4.op X i s.2.2.1 s.2.2.2 s.1 s.2.1, s.2.2.2)
      | _ => (s.1, Spec.Md4.op X i s.2.1 s.2.2.1 s.2.2.2 s.1, s.2.2.1, s.2.2.2) := by
  obtain ⟨A, B, C, D⟩ := s
  rfl

theorem rounds_refines (X : List (BitVec 32)) (hX : X.length = 16) (s : State) :
    (List.range 48).foldl (md4Round (extend (X.map ofBV) md4Idx)) (emb4 s)
      = emb4 ((List.range 48).foldl (Spec.Md4.step X) s) :=
  loop_refines (Spec.Md4.op X) (Spec.Md4.step X) (step_shape X) _ 48 (by decide)
    (fun i hi a b c d => round_refines X hX i hi a b c d) s

theorem block_refines (H : State) (X : List (BitVec 32)) (hX : X.length = 16) :
    md4Block (embH H) (X.map ofBV) = .ok (embH (Spec.Md4.compressWords H X)) := by
  obtain ⟨h0, h1, h2, h3⟩ := H
  have hr := rounds_refines X hX (h0, h1, h2, h3)
  simp only [Spec.Md4.compressWords]
  generalize (List.range 48).foldl (Spec.Md4.step X) (h0, h1, h2, h3) = R at hr ⊢
  obtain ⟨a, b, c, d⟩ := R
  simp only [emb4] at hr
  simp only [md4Block, embH, List.length_map, hX, ne_eq, not_true_eq_false, if_false, tables_ok, Bool.not_true,
    Bool.false_eq_true, show (3 * 16 = 48) by decide, hr, add_ofBV, BitVec.add_comm]

theorem compress_refines (H : State) (blk : List Spec.Byte) (hb : blk.length = 64) :
    md4Compress (embH H) (toNatBytes blk) = .ok (embH (Spec.Md4.compress H blk)) := by
  unfold md4Compress
  rw [parseLE_refines blk hb]
  simp only [bind, Except.bind]
  have hl : (Spec.wordsLE 32 blk).length = 16 := by rw [wordsLE_length, hb]
  rw [block_refines H _ hl]; rfl

end Proofs.Lemmas.Md4
