/- the ten hash objects of the library refine the ten standard functions: IV, compression, serialisation (`Refines`) -/
import Proofs.Lemmas.Md4
import Proofs.Lemmas.Md5
import Proofs.Lemmas.Sha1
import Proofs.Lemmas.Sha2
import Proofs.Lemmas.Compose
import Proofs.Lemmas.Pack
import Model.Hash
namespace Proofs.Lemmas.Instances
open Model Model.Gen.Hashes Proofs.Lemmas.BitsBitVec Proofs.Lemmas.Parse Proofs.Lemmas.Compose Proofs.Lemmas.Pack

/-! serialisation -/

theorem toNatBytes_append (a b : List Spec.Byte) : toNatBytes (a ++ b) = toNatBytes a ++ toNatBytes b := by
  simp [toNatBytes]

theorem md_digest (s : Md.State) :
    Model.Md.joinLE (Md.embH s) = toNatBytes ([s.1, s.2.1, s.2.2.1, s.2.2.2].flatMap fun h => Spec.leBytes 4 h.toNat) := by
  simp only [Model.Md.joinLE, Md.embH, List.map_cons, List.map_nil, List.flatten_cons, List.flatten_nil,
    pack_le _ (by decide : 32 % 8 = 0), List.flatMap_cons, List.flatMap_nil, toNatBytes_append, List.append_nil]

theorem sha1_digest (s : Spec.Sha1.State) :
    Model.Sha.joinBE (Sha1.embH s) = toNatBytes (Spec.Sha1.out s) := by
  obtain ⟨a, b, c, d, e⟩ := s
  simp only [Model.Sha.joinBE, Sha1.embH, Spec.Sha1.out, List.map_cons, List.map_nil, List.flatten_cons,
    List.flatten_nil, pack_be _ (by decide : 32 % 8 = 0), List.flatMap_cons, List.flatMap_nil, toNatBytes_append,
    List.append_nil]

theorem sha2_digest {w : Nat} (hw : w % 8 = 0) (n : Nat) (s : Spec.Sha2.State w) :
    (Model.Sha.joinBE (Sha2.embH s)).take n = toNatBytes (Spec.Sha2.out n s) := by
  obtain ⟨a, b, c, d, e, f, g, h⟩ := s
  simp only [Model.Sha.joinBE, Sha2.embH, Spec.Sha2.out, List.map_cons, List.map_nil, List.flatten_cons,
    List.flatten_nil, pack_be _ hw, List.flatMap_cons, List.flatMap_nil,
    List.append_nil, toNatBytes, List.map_take, List.map_append]

/-! MD4 / MD5 -/

theorem md4_refines : Refines Model.Md.md4Core Spec.Md4.md Md.embH where
  iv := Md4.iv_eq
  compress := fun s blk h => Md4.compress_refines s blk h
  digest := fun s => by
    obtain ⟨a, b, c, d⟩ := s
    exact md_digest (a, b, c, d)
  blockLen := rfl

theorem md5_refines : Refines Model.Md.md5Core Spec.Md5.md Md.embH where
  iv := Md5.iv_eq
  compress := fun s blk h => Md5.compress_refines s blk h
  digest := fun s => by
    obtain ⟨a, b, c, d⟩ := s
    exact md_digest (a, b, c, d)
  blockLen := rfl

/-! SHA-0 / SHA-1 -/

theorem sha1_refines (v : Nat) (hv : v ≤ 32) : Refines (Model.Sha.sha1Core v) (Spec.Sha1.md v) Sha1.embH where
  iv := Sha1.iv_eq v
  compress := fun s blk h => Sha1.compress_refines v hv s blk h
  digest := sha1_digest
  blockLen := by simp [Model.Sha.sha1Core, Padder.blocklen, Spec.Sha1.md]

/-! SHA-2 -/

theorem sha2_32_refines (c : Model.Sha.Sha2Cfg) (h1 : c.wsize = 32) (h2 : ¬ c.size > 256) (hb : c.blocksize = 512)
    (ivs : List Nat) (iv : Spec.Sha2.State 32) (hiv : ivs.map (fun v => Bits.ofNatSz v 32) = Sha2.embH iv) :
    Refines (Model.Sha.sha2Core c ivs) (Spec.Sha2.md256 iv c.outlen) Sha2.embH where
  iv := by simp only [Model.Sha.sha2Core, h1, Spec.Sha2.md256]; exact hiv
  compress := fun s blk h => Sha2.compress_refines (Sha2.link32 c h1 h2) (by decide) s blk h
  digest := fun s => sha2_digest (by decide) c.outlen s
  blockLen := by simp [Model.Sha.sha2Core, Padder.blocklen, hb, Spec.Sha2.md256]

theorem sha2_64_refines (c : Model.Sha.Sha2Cfg) (h1 : c.wsize = 64) (h2 : c.size > 256) (hb : c.blocksize = 1024)
    (ivs : List Nat) (iv : Spec.Sha2.State 64) (hiv : ivs.map (fun v => Bits.ofNatSz v 64) = Sha2.embH iv) :
    Refines (Model.Sha.sha2Core c ivs) (Spec.Sha2.md512 iv c.outlen) Sha2.embH where
  iv := by simp only [Model.Sha.sha2Core, h1, Spec.Sha2.md512]; exact hiv
  compress := fun s blk h => Sha2.compress_refines (Sha2.link64 c h1 h2) (by decide) s blk h
  digest := fun s => sha2_digest (by decide) c.outlen s
  blockLen := by simp [Model.Sha.sha2Core, Padder.blocklen, hb, Spec.Sha2.md512]

/-- initial hash values: the regenerated `H` after `initstate()` are the standard's, SHA-512/t by the §5.3.6
    generation function evaluated in the kernel -/
theorem iv224_eq : sha2H_224_0.map (fun v => Bits.ofNatSz v 32) = Sha2.embH (Spec.Sha2.stateOf Spec.Sha2.iv224) := by decide +kernel
theorem iv256_eq : sha2H_256_0.map (fun v => Bits.ofNatSz v 32) = Sha2.embH (Spec.Sha2.stateOf Spec.Sha2.iv256) := by decide +kernel
theorem iv384_eq : sha2H_384_0.map (fun v => Bits.ofNatSz v 64) = Sha2.embH (Spec.Sha2.stateOf Spec.Sha2.iv384) := by decide +kernel
theorem iv512_eq : sha2H_512_0.map (fun v => Bits.ofNatSz v 64) = Sha2.embH (Spec.Sha2.stateOf Spec.Sha2.iv512) := by decide +kernel
theorem iv512_224_eq : sha2H_512_224.map (fun v => Bits.ofNatSz v 64) = Sha2.embH (Spec.Sha2.ivT 224) := by decide +kernel
theorem iv512_256_eq : sha2H_512_256.map (fun v => Bits.ofNatSz v 64) = Sha2.embH (Spec.Sha2.ivT 256) := by decide +kernel

end Proofs.Lemmas.Instances
