/-
  Bits ↔ BitVec w bridge at a fixed width: a `Bits` of size w whose ival is below 2^w *is* a `BitVec w`, and on such
  values every operator of Model.Bits that the hash code uses (+ ^ & | ~ << >>, `Bits + int`, and the translated
  `rol`/`ror` of operators.py) is the corresponding `BitVec w` operation.  Stated as equalities `op (ofBV x) … = ofBV (…)`
  so that they rewrite a model computation on embedded words into the embedding of a BitVec computation.
-/
import Model.Bits
import Model.Gen.Hashes
namespace Proofs.Lemmas.BitsBitVec
open Model Model.Py

/-- a `BitVec w` as the `Bits` object of size `w` holding it -/
def ofBV {w : Nat} (v : BitVec w) : Bits := ⟨v.toNat, w⟩
/-- the `BitVec w` a `Bits` value denotes (its ival modulo 2^w) -/
def toBV (w : Nat) (b : Bits) : BitVec w := BitVec.ofNat w b.ival

@[simp] theorem ofBV_size {w} (v : BitVec w) : (ofBV v).size = w := rfl
@[simp] theorem ofBV_ival {w} (v : BitVec w) : (ofBV v).ival = v.toNat := rfl
theorem ofBV_wf {w} (v : BitVec w) : (ofBV v).WF := v.isLt

/-- every well-formed `Bits` of size `w` is the embedding of a `BitVec w` -/
theorem ofBV_toBV {w} (b : Bits) (hs : b.size = w) (hwf : b.WF) : ofBV (toBV w b) = b := by
  cases b with
  | mk ival size =>
    simp only at hs; subst hs
    simp only [ofBV, toBV, BitVec.toNat_ofNat, Bits.mk.injEq, and_true]
    exact Nat.mod_eq_of_lt hwf

theorem toBV_ofBV {w} (v : BitVec w) : toBV w (ofBV v) = v := by
  simp [toBV, ofBV]

theorem ofBV_inj {w} {x y : BitVec w} (h : ofBV x = ofBV y) : x = y := by
  have := congrArg Bits.ival h
  exact BitVec.eq_of_toNat_eq this

theorem ofNatSz_eq {w} (n : Nat) : Bits.ofNatSz n w = ofBV (BitVec.ofNat w n) := by
  simp [Bits.ofNatSz, ofBV]

private theorem wsize_self (a o : Bits) (h : a.size = o.size) : Bits.wsize a o = a.size := by
  simp [Bits.wsize, h]

theorem add_ofBV {w} (x y : BitVec w) : (ofBV x).add (ofBV y) = ofBV (x + y) := by
  simp [Bits.add, Bits.wsize, ofBV, BitVec.toNat_add]

theorem xor_ofBV {w} (x y : BitVec w) : (ofBV x).xor (ofBV y) = ofBV (x ^^^ y) := by
  simp [Bits.xor, Bits.wsize, ofBV]

theorem and_ofBV {w} (x y : BitVec w) : (ofBV x).and (ofBV y) = ofBV (x &&& y) := by
  simp [Bits.and, Bits.wsize, ofBV]

theorem or_ofBV {w} (x y : BitVec w) : (ofBV x).or (ofBV y) = ofBV (x ||| y) := by
  simp [Bits.or, Bits.wsize, ofBV]

theorem xor_mask (n w : Nat) (h : n < 2 ^ w) : n ^^^ (2 ^ w - 1) = 2 ^ w - 1 - n := by
  apply Nat.eq_of_testBit_eq
  intro i
  have e : 2 ^ w - 1 - n = 2 ^ w - (n + 1) := by omega
  rw [Nat.testBit_xor, Nat.testBit_two_pow_sub_one, e, Nat.testBit_two_pow_sub_succ h]
  by_cases hi : i < w
  · simp [hi]
  · have hi' : w ≤ i := Nat.le_of_not_lt hi
    have h1 : n.testBit i = false := Nat.testBit_lt_two_pow (Nat.lt_of_lt_of_le h (Nat.pow_le_pow_right (by decide) hi'))
    simp [hi, h1]

theorem inv_ofBV {w} (x : BitVec w) : (ofBV x).inv = ofBV (~~~x) := by
  simp only [Bits.inv, Bits.mask, ofBV, BitVec.toNat_not, Bits.mk.injEq, and_true]
  exact xor_mask _ _ x.isLt

theorem shl_ofBV {w} (x : BitVec w) (n : Nat) : (ofBV x).shl n = ofBV (x <<< n) := by
  simp [Bits.shl, Bits.mask, ofBV, BitVec.toNat_shiftLeft, Nat.and_two_pow_sub_one_eq_mod]

theorem shr_ofBV {w} (x : BitVec w) (n : Nat) : (ofBV x).shr n = ofBV (x >>> n) := by
  simp only [Bits.shr, Bits.mask, ofBV, BitVec.toNat_ushiftRight, Nat.and_two_pow_sub_one_eq_mod, Bits.mk.injEq, and_true]
  apply Nat.mod_eq_of_lt
  exact Nat.lt_of_le_of_lt (Nat.shiftRight_le _ _) x.isLt

/-- `Bits + int` for an int that fits the width: `Bits(k)` has size `bit_length(k) ≤ w`, the sum is taken at width w -/
theorem bitLength_le {k w : Nat} (h : k < 2 ^ w) : bitLength k ≤ w := by
  unfold bitLength
  split
  · omega
  · rename_i hk
    have := (Nat.log2_lt hk).2 h
    omega

theorem addNat_ofBV {w} (x : BitVec w) (k : Nat) (h : k < 2 ^ w) :
    (ofBV x).add (Bits.ofNat k) = ofBV (x + BitVec.ofNat w k) := by
  have hb := bitLength_le h
  have hw : Bits.wsize (ofBV x) (Bits.ofNat k) = w := by
    show (if w > bitLength k then w else bitLength k) = w
    by_cases h1 : w > bitLength k
    · simp [h1]
    · simp only [h1, if_false]; omega
  have e : (ofBV x).add (Bits.ofNat k) = ⟨(x.toNat + k) % 2 ^ w, w⟩ := by
    unfold Bits.add; rw [hw]; rfl
  rw [e]
  simp only [ofBV, BitVec.toNat_add, BitVec.toNat_ofNat, Bits.mk.injEq, and_true]
  rw [Nat.add_mod_mod]

/-- `x + K` for a spec constant K -/
theorem addConst_ofBV {w} (x K : BitVec w) : (ofBV x).add (Bits.ofNat K.toNat) = ofBV (x + K) := by
  rw [addNat_ofBV x K.toNat K.isLt]; simp

open Model.Gen.Hashes in
/-- operators.py `rol` (as translated from the source) is the rotation, for every amount 0 ≤ n ≤ w -/
theorem rol_ofBV {w} (x : BitVec w) (n : Nat) (h : n ≤ w) : rol (ofBV x) n = ofBV (x.rotateLeft n) := by
  unfold rol
  rw [shl_ofBV, ofBV_size, shr_ofBV, or_ofBV]
  congr 1
  rcases Nat.lt_or_eq_of_le h with h | h
  · rw [BitVec.rotateLeft_def, Nat.mod_eq_of_lt h]
  · subst h
    by_cases hn : n = 0
    · subst hn; simp [BitVec.rotateLeft_def]
    · rw [BitVec.rotateLeft_def, Nat.mod_self]
      have h1 : x <<< n = 0#n := by
        apply BitVec.eq_of_toNat_eq
        simp
      have h2 : x >>> n = 0#n := by
        apply BitVec.eq_of_toNat_eq
        simp [BitVec.toNat_ushiftRight, Nat.shiftRight_eq_div_pow, Nat.div_eq_of_lt x.isLt]
      simp [h1, h2]

open Model.Gen.Hashes in
theorem ror_ofBV {w} (x : BitVec w) (n : Nat) (h : n ≤ w) : ror (ofBV x) n = ofBV (x.rotateRight n) := by
  unfold ror
  rw [shr_ofBV, ofBV_size, shl_ofBV, or_ofBV]
  congr 1
  rcases Nat.lt_or_eq_of_le h with h | h
  · rw [BitVec.rotateRight_def, Nat.mod_eq_of_lt h]
  · subst h
    by_cases hn : n = 0
    · subst hn; simp [BitVec.rotateRight_def]
    · rw [BitVec.rotateRight_def, Nat.mod_self]
      have h1 : x <<< n = 0#n := by
        apply BitVec.eq_of_toNat_eq
        simp
      have h2 : x >>> n = 0#n := by
        apply BitVec.eq_of_toNat_eq
        simp [BitVec.toNat_ushiftRight, Nat.shiftRight_eq_div_pow, Nat.div_eq_of_lt x.isLt]
      simp [h1, h2]

theorem getD_map_ofBV {w} (l : List (BitVec w)) (i : Nat) :
    (l.map ofBV).getD i ⟨0, w⟩ = ofBV (l.getD i 0) := by
  have : (⟨0, w⟩ : Bits) = ofBV (0 : BitVec w) := by simp [ofBV]
  rw [this]
  simp only [List.getD_eq_getElem?_getD, List.getElem?_map]
  cases l[i]? <;> rfl

end Proofs.Lemmas.BitsBitVec
