/-
  Helper lemmas for C09: `remove` — PKCS#7 / X9.23 are characterised exactly by the Spec's unpadding.
-/
import Proofs.Lemmas.PaddingCont
namespace Proofs.Lemmas.Padding
open Model Model.Padder Spec.Padding

/-- Python's `Except` result seen as an option (the exception class is not part of the property) -/
def okOf {α} : Except Err α → Option α
  | .ok a => some a
  | .error _ => none

theorem remove_pkcs7 (p : Padder) (hs : p.scheme = .pkcs7) (st : PadState) (c : List Nat) :
    okOf (p.remove st c) = pkcs7Unpad p.blocklen c := by
  simp only [Padder.remove, hs, pkcs7Unpad]
  cases hq : c.getLast? with
  | none => rfl
  | some q =>
    simp only
    obtain ⟨ys, rfl⟩ := List.getLast?_eq_some_iff.mp hq
    have hiff : ¬ (q > p.blocklen ∨ (if q = 0 then ys ++ [q] else List.drop ((ys ++ [q]).length - q) (ys ++ [q]))
          ≠ List.replicate q q) ↔
        (1 ≤ q ∧ q ≤ p.blocklen ∧ q ≤ (ys ++ [q]).length ∧
          List.drop ((ys ++ [q]).length - q) (ys ++ [q]) = List.replicate q q) := by
      constructor
      · intro h
        have h1 : ¬ q > p.blocklen := fun x => h (Or.inl x)
        have h2 : (if q = 0 then ys ++ [q] else List.drop ((ys ++ [q]).length - q) (ys ++ [q])) = List.replicate q q :=
          Classical.byContradiction fun x => h (Or.inr x)
        by_cases h0 : q = 0
        · rw [if_pos h0, h0] at h2; simp at h2
        · rw [if_neg h0] at h2
          have := congrArg List.length h2
          simp only [List.length_drop, List.length_replicate] at this
          exact ⟨by omega, by omega, by omega, h2⟩
      · rintro ⟨h1, h2, h3, h4⟩ h
        rcases h with h | h
        · omega
        · rw [if_neg (by omega)] at h; exact h h4
    by_cases hP : (1 ≤ q ∧ q ≤ p.blocklen ∧ q ≤ (ys ++ [q]).length ∧
          List.drop ((ys ++ [q]).length - q) (ys ++ [q]) = List.replicate q q)
    · rw [if_pos hP, if_neg (hiff.mpr hP)]; rfl
    · rw [if_neg hP, if_pos (Classical.byContradiction fun x => hP (hiff.mp x))]; rfl

theorem remove_x923 (p : Padder) (hs : p.scheme = .x923) (st : PadState) (c : List Nat) :
    okOf (p.remove st c) = x923Unpad p.blocklen c := by
  simp only [Padder.remove, hs, x923Unpad]
  cases hq : c.getLast? with
  | none => rfl
  | some q =>
    simp only
    obtain ⟨ys, rfl⟩ := List.getLast?_eq_some_iff.mp hq
    by_cases h0 : q = 0 ∨ q > p.blocklen
    · have : ¬ (1 ≤ q ∧ q ≤ p.blocklen ∧ q ≤ (ys ++ [q]).length ∧
          List.drop ((ys ++ [q]).length - q) (ys ++ [q]) = List.replicate (q - 1) 0 ++ [q]) := by
        rintro ⟨h1, h2, _⟩; omega
      rw [if_pos h0, if_neg this]; rfl
    · have h1 : 1 ≤ q ∧ q ≤ p.blocklen := by omega
      rw [if_neg h0]
      by_cases hlen : q ≤ (ys ++ [q]).length
      · have hl : (ys ++ [q]).length - q = ys.length + 1 - q := by simp
        have hlen' : q ≤ ys.length + 1 := by simpa using hlen
        have hle : ys.length + 1 - q ≤ ys.length := by omega
        have hD : List.drop ((ys ++ [q]).length - q) (ys ++ [q]) = List.drop (ys.length + 1 - q) ys ++ [q] := by
          rw [hl, List.drop_append_of_le_length hle]
        have hX : (List.drop (ys.length + 1 - q) ys).length = q - 1 := by rw [List.length_drop]; omega
        have hmin : min q (ys ++ [q]).length - 1 = q - 1 := by rw [Nat.min_eq_left hlen]
        have hT : List.take (min q (ys ++ [q]).length - 1) (List.drop ((ys ++ [q]).length - q) (ys ++ [q]))
            = List.drop (ys.length + 1 - q) ys := by
          rw [hD, hmin, List.take_append_of_le_length (by rw [hX]; exact Nat.le_refl _),
            List.take_of_length_le (by rw [hX]; exact Nat.le_refl _)]
        rw [hT, hD]
        by_cases he : List.drop (ys.length + 1 - q) ys = List.replicate (q - 1) 0
        · have : 1 ≤ q ∧ q ≤ p.blocklen ∧ q ≤ (ys ++ [q]).length ∧
              List.drop (ys.length + 1 - q) ys ++ [q] = List.replicate (q - 1) 0 ++ [q] :=
            ⟨h1.1, h1.2, hlen, by rw [he]⟩
          rw [if_neg (fun x => x he), if_pos this]; rfl
        · have : ¬ (1 ≤ q ∧ q ≤ p.blocklen ∧ q ≤ (ys ++ [q]).length ∧
              List.drop (ys.length + 1 - q) ys ++ [q] = List.replicate (q - 1) 0 ++ [q]) := by
            rintro ⟨_, _, _, h4⟩
            exact he (List.append_cancel_right h4)
          rw [if_pos he, if_neg this]; rfl
      · have hd : List.take (min q (ys ++ [q]).length - 1) (List.drop ((ys ++ [q]).length - q) (ys ++ [q]))
            ≠ List.replicate (q - 1) 0 := by
          intro h
          have := congrArg List.length h
          simp only [List.length_take, List.length_drop, List.length_replicate, List.length_append,
            List.length_singleton] at this hlen
          omega
        have : ¬ (1 ≤ q ∧ q ≤ p.blocklen ∧ q ≤ (ys ++ [q]).length ∧
            List.drop ((ys ++ [q]).length - q) (ys ++ [q]) = List.replicate (q - 1) 0 ++ [q]) := fun h => hlen h.2.2.1
        rw [if_pos hd, if_neg this]; rfl

theorem pkcs7Unpad_isSome_iff (k : Nat) (c : List Nat) : (pkcs7Unpad k c).isSome ↔ pkcs7WellPadded k c := by
  unfold pkcs7Unpad pkcs7WellPadded
  cases hq : c.getLast? with
  | none => simp
  | some q =>
    simp only [Option.some.injEq, exists_eq_left']
    split <;> simp_all

theorem x923Unpad_isSome_iff (k : Nat) (c : List Nat) : (x923Unpad k c).isSome ↔ x923WellPadded k c := by
  unfold x923Unpad x923WellPadded
  cases hq : c.getLast? with
  | none => simp
  | some q =>
    simp only [Option.some.injEq, exists_eq_left']
    split <;> simp_all

/-! ### Spec level: unpadding inverts padding -/

theorem padLen_range (k n : Nat) (hk : 0 < k) : 1 ≤ padLen k n ∧ padLen k n ≤ k := by
  have := Nat.mod_lt n hk
  unfold padLen; omega

theorem pkcs7Unpad_pad (k : Nat) (hk : 0 < k) (m : List Nat) : pkcs7Unpad k (pkcs7Pad k m) = some m := by
  obtain ⟨h1, h2⟩ := padLen_range k m.length hk
  generalize hq : padLen k m.length = q at h1 h2
  have hlast : (m ++ List.replicate q q).getLast? = some q := by
    rw [List.getLast?_append, List.getLast?_replicate, if_neg (by omega)]; rfl
  have hlen : (m ++ List.replicate q q).length - q = m.length := by simp
  simp only [pkcs7Unpad, pkcs7Pad, hq, hlast, hlen, List.drop_left, List.take_left]
  rw [if_pos ⟨h1, h2, by simp, trivial⟩]

theorem x923Unpad_pad (k : Nat) (hk : 0 < k) (m : List Nat) : x923Unpad k (x923Pad k m) = some m := by
  obtain ⟨h1, h2⟩ := padLen_range k m.length hk
  generalize hq : padLen k m.length = q at h1 h2
  have hlast : (m ++ List.replicate (q - 1) 0 ++ [q]).getLast? = some q := List.getLast?_concat
  have hlen : (m ++ List.replicate (q - 1) 0 ++ [q]).length - q = m.length := by simp; omega
  have hd : List.drop m.length (m ++ List.replicate (q - 1) 0 ++ [q]) = List.replicate (q - 1) 0 ++ [q] := by
    rw [List.append_assoc, List.drop_left]
  have ht : List.take m.length (m ++ List.replicate (q - 1) 0 ++ [q]) = m := by
    rw [List.append_assoc, List.take_left]
  simp only [x923Unpad, x923Pad, hq, hlast, hlen, hd, ht]
  rw [if_pos ⟨h1, h2, by simp; omega, trivial⟩]

/-- for whole-byte messages the Spec's padded string of PKCS#7 / X9.23 is the byte-level pad -/
theorem padBytes_pkcs7 (B : Nat) (m : List Nat) (hm : Bytes m) (hq : B / 8 < 256) (hk : 0 < B / 8) :
    padBytes .pkcs7 B m (8 * m.length) = pkcs7Pad (B / 8) m := by
  have ht : takeBits (8 * m.length) m = bytesToBits m := List.take_of_length_le (by simp)
  obtain ⟨h1, h2⟩ := padLen_range (B / 8) m.length hk
  have hb : Bytes (pkcs7Pad (B / 8) m) := by
    apply Bytes_append hm
    intro x hx; rw [List.mem_replicate] at hx; omega
  simp only [padBytes, Spec.Padding.pad, ht, bitsToBytes_bytesToBits m hm, bitsToBytes_bytesToBits _ hb]

theorem padBytes_x923 (B : Nat) (m : List Nat) (hm : Bytes m) (hq : B / 8 < 256) (hk : 0 < B / 8) :
    padBytes .x923 B m (8 * m.length) = x923Pad (B / 8) m := by
  have ht : takeBits (8 * m.length) m = bytesToBits m := List.take_of_length_le (by simp)
  obtain ⟨h1, h2⟩ := padLen_range (B / 8) m.length hk
  have hb : Bytes (x923Pad (B / 8) m) := by
    apply Bytes_append (Bytes_append hm _)
    · intro x hx; rw [List.mem_singleton] at hx; omega
    · intro x hx; rw [List.mem_replicate] at hx; omega
  simp only [padBytes, Spec.Padding.pad, ht, bitsToBytes_bytesToBits m hm, bitsToBytes_bytesToBits _ hb]

theorem msgBytes_whole (m : List Nat) (hm : Bytes m) : msgBytes m (8 * m.length) = m := by
  have ht : takeBits (8 * m.length) m = bytesToBits m := List.take_of_length_le (by simp)
  rw [msgBytes, ht, bitsToBytes_bytesToBits m hm]

end Proofs.Lemmas.Padding
