/-
  C07 — Bits: construction and conversions are faithful under every bit order.
  ONLY property theorems (and their non-vacuity examples) live here; helper lemmas are in Proofs/Lemmas.
  Denotation of a vector: `b.size` and the bits `b.ival.testBit i` (bit 0 = first element of the sequence);
  `WF b : b.ival < 2 ^ b.size` = "all higher bits cleared".  Byte strings are lists of naturals with the explicit
  hypothesis `AllBytes s` (every element < 256).
-/
import Model.Bits
import Model.Gen.BitsG
import Proofs.Lemmas.BitsBasic
import Proofs.Lemmas.BitsOps
import Proofs.Lemmas.BitsIndex
import Proofs.Lemmas.BitsExt
import Proofs.Lemmas.Bytes
import Proofs.Lemmas.BitsConv
namespace Proofs.C07
open Model Model.Bits Model.Py Proofs.Lemmas.Bits Proofs.Lemmas.Bytes

/-! ## 1. `reverse_byte` -/

/-- the multiplication trick of `reverse_byte` is exactly the table probed from the current source (all 256 bytes) -/
theorem reverseByte_eq_probed : ∀ b < 256, reverseByte b = Model.Gen.BitsG.reverseByteTable.getD b 0 := by
  decide +kernel

/-- ... and it is the bit reversal of the byte, for all 256 bytes (kernel enumeration of the complete domain) -/
theorem reverseByte_spec (b : Nat) (hb : b < 256) :
    reverseByte b < 256 ∧ ∀ j, j < 8 → (reverseByte b).testBit j = b.testBit (7 - j) :=
  ⟨reverseByte_lt b hb, fun j hj => reverseByte_testBit b hb j hj⟩

theorem reverseByte_involutive (b : Nat) (hb : b < 256) : reverseByte (reverseByte b) = b := by
  have h1 := reverseByte_lt b hb
  apply Nat.eq_of_testBit_eq
  intro j
  by_cases hj : j < 8
  · rw [reverseByte_testBit _ h1 j hj, reverseByte_testBit b hb (7 - j) (by omega)]
    congr 1; omega
  · rw [testBit_of_lt (n := 8) (by simpa using reverseByte_lt _ h1) (by omega),
      testBit_of_lt (n := 8) (by simpa using hb) (by omega)]

/-! ## 2. Constructors: exactly the requested size, all higher bits cleared -/

/-- `Bits(v)` for an int: the magnitude, in the least width that holds it (`bit_length`) -/
theorem ofInt_spec (v : Int) :
    (ofInt v none).ival = v.natAbs ∧ (ofInt v none).WF ∧
    (∀ n, v.natAbs < 2 ^ n → (ofInt v none).size ≤ n) :=
  ⟨rfl, ofNat_wf _, fun _ h => bitLength_le_of_lt h⟩

/-- `Bits(v,n)`: size n, value `|v| mod 2^n`, i.e. the low n bits of `|v|` and nothing above -/
theorem ofInt_size_spec (v : Int) (n : Nat) :
    (ofInt v (some n)).size = n ∧ (ofInt v (some n)).ival = v.natAbs % 2 ^ n ∧ (ofInt v (some n)).WF ∧
    ∀ i, (ofInt v (some n)).ival.testBit i = (decide (i < n) && v.natAbs.testBit i) :=
  ⟨rfl, rfl, ofNatSz_wf _ _, fun i => by simp [ofInt, Nat.testBit_mod_two_pow]⟩

/-- `Bits(list)`: size = len, bit j = `list[j] & 1` -/
theorem ofList_spec (l : List Nat) :
    (ofList l).size = l.length ∧ (ofList l).WF ∧
    ∀ j, (ofList l).ival.testBit j = decide (l.getD j 0 % 2 = 1) :=
  ⟨rfl, listVal_lt l, fun j => listVal_testBit l j⟩

/-- `Bits(list,n)`: truncated / zero-extended to n -/
theorem ofList_size_spec (l : List Nat) (n : Nat) :
    (ofList l (some n)).size = n ∧ (ofList l (some n)).WF ∧
    ∀ j, (ofList l (some n)).ival.testBit j = (decide (j < n) && decide (l.getD j 0 % 2 = 1)) :=
  ⟨rfl, setSize_wf _ _, fun j => by simp [ofList, Nat.testBit_mod_two_pow, listVal_testBit]⟩

/-- `Bits(b,n)` / the `size` setter: the low n bits are kept, everything above is cleared -/
theorem setSize_spec (b : Bits) (n : Nat) :
    (b.setSize n).size = n ∧ (b.setSize n).WF ∧
    ∀ i, (b.setSize n).ival.testBit i = (decide (i < n) && b.ival.testBit i) :=
  ⟨rfl, setSize_wf _ _, fun i => by simp [Nat.testBit_mod_two_pow]⟩

/-! ## 3. `load`: the documented bit sequence for every bit-order convention -/

/-- bit-stream order (`bitorder=-1`, the default): bit 8i+j is bit 7-j of byte i (first byte's MSB is bit 0) -/
theorem load_bitstream (s : List Nat) (hs : AllBytes s) :
    ∃ r, load s (-1) = .ok r ∧ r.size = 8 * s.length ∧ r.WF ∧
      ∀ i (hi : i < s.length) j, j < 8 → r.ival.testBit (8 * i + j) = s[i].testBit (7 - j) := by
  have hk : loadK s (-1) = 1 := by simp [loadK]
  obtain ⟨r, h1, h2, h3, h4⟩ := load_spec s hs (-1) (by rw [hk]; exact Nat.one_dvd _)
  refine ⟨r, h1, h2, h3, ?_⟩
  intro i hi j hj
  have := h4 i 0 j (by rw [hk]; omega) hj (by rw [hk]; omega)
  simp only [hk, Nat.one_mul, Nat.add_zero, Nat.sub_self] at this
  rw [this]
  have hneg : ((-1 : Int) < 0) := by omega
  simp only [hneg, ↓reduceIte]
  rw [← List.getElem_eq_getD (h := hi)]
  exact reverseByte_testBit _ (hs _ (List.getElem_mem hi)) j hj

/-- little-endian integer (`bitorder=+1`) -/
theorem load_le (s : List Nat) (hs : AllBytes s) : load s 1 = .ok ⟨leInt s, 8 * s.length⟩ := load_le_eq s hs

/-- big-endian integer (`bitorder=0`, also for the empty string after the fix) -/
theorem load_be (s : List Nat) (hs : AllBytes s) : load s 0 = .ok ⟨beInt s, 8 * s.length⟩ := load_be_eq s hs

/-- mixed-endian groups (`bitorder=k>0`, k ∣ |s|): groups of k bytes, each a big-endian integer, the groups in
    little-endian order — byte `t` of group `g` is byte number `k·g + (k-1-t)` of the integer -/
theorem load_grouped (s : List Nat) (hs : AllBytes s) (k : Nat) (hk : 0 < k) (hd : k ∣ s.length) :
    ∃ r, load s (k : Int) = .ok r ∧ r.size = 8 * s.length ∧ r.WF ∧
      ∀ g t j (_ : t < k) (_ : j < 8) (hlt : k * g + t < s.length),
        r.ival.testBit (8 * (k * g + (k - 1 - t)) + j) = s[k * g + t].testBit j := by
  have hK : loadK s (k : Int) = k := by
    unfold loadK
    have : ¬ ((k : Int) = 0) := by omega
    rw [if_neg this]; exact Int.natAbs_natCast k
  obtain ⟨r, h1, h2, h3, h4⟩ := load_spec s hs (k : Int) (by rw [hK]; exact hd)
  refine ⟨r, h1, h2, h3, ?_⟩
  intro g t j ht hj hlt
  have hb := dvd_bound hd hlt
  have e0 : k * (g + 1) = k * g + k := Nat.mul_succ k g
  have := h4 g (k - 1 - t) j (by rw [hK]; omega) hj (by rw [hK]; omega)
  simp only [hK] at this
  rw [this]
  have hneg : ¬ ((k : Int) < 0) := by omega
  simp only [hneg, ↓reduceIte, id]
  have e : k * g + (k - 1 - (k - 1 - t)) = k * g + t := by omega
  rw [e, ← List.getElem_eq_getD (h := hlt)]

/-- the two-byte groups of the documentation (PDP-endian): the general law at k = 2 as a value -/
theorem load_grouped_pair (a b c d : Nat) (h : AllBytes [a, b, c, d]) :
    load [a, b, c, d] 2 = .ok ⟨(a * 256 + b) + 65536 * (c * 256 + d), 32⟩ := by
  have ha := h a (by simp); have hb := h b (by simp); have hc := h c (by simp); have hd := h d (by simp)
  have hload : load [a, b, c, d] 2 = .ok ⟨groupsVal id 2 [[a, b], [c, d]], 32⟩ := by
    simp [load, chunks, chunks.go]
  rw [hload]
  congr 2
  simp only [groupsVal, groupVal, List.foldl_cons, List.foldl_nil, id]
  have hb' : b < 2 ^ 8 := by simpa using hb
  have hd' : d < 2 ^ 8 := by simpa using hd
  have hab : a * 256 + b < 2 ^ 16 := by omega
  simp only [Nat.zero_shiftLeft, Nat.zero_or]
  have e1 : c <<< 8 ||| d = c * 256 + d := by
    rw [← Nat.shiftLeft_add_eq_or_of_lt hd', Nat.shiftLeft_eq]
  have e2 : a <<< 8 ||| b = a * 256 + b := by
    rw [← Nat.shiftLeft_add_eq_or_of_lt hb', Nat.shiftLeft_eq]
  have hab' : a * 256 + b < 2 ^ (8 * 2) := by omega
  rw [e1, e2, ← Nat.shiftLeft_add_eq_or_of_lt hab', Nat.shiftLeft_eq]
  omega

/-- `load` is refused exactly when the (non-zero) bitorder's magnitude does not divide the length -/
theorem load_error_iff (s : List Nat) (bo : Int) :
    (∃ e, load s bo = .error e) ↔ (bo ≠ 0 ∧ ¬ (bo.natAbs ∣ s.length)) := by
  rw [load_error_iff']
  unfold loadK
  by_cases h0 : bo = 0
  · simp only [h0, ↓reduceIte, ne_eq, not_true_eq_false, false_and, iff_false, Decidable.not_not]
    split
    · exact Nat.one_dvd _
    · exact Nat.dvd_refl _
  · simp [h0]

/-- `Bits(bytes,size,bitorder)`: the loaded sequence cut / zero-extended to `size` -/
theorem ofBytes_spec (s : List Nat) (n : Nat) (bo : Int) (r : Bits) (h : load s bo = .ok r) :
    ofBytes s (some n) bo = .ok (r.setSize n) ∧ ofBytes s none bo = .ok r := by
  unfold ofBytes; rw [h]; exact ⟨rfl, rfl⟩

/-! ## 4. Conversions out -/

/-- `bit(i)` with Python's negative indices -/
theorem bit_spec (b : Bits) (i : Int) :
    b.bit i = match normIndex i b.size with
      | some p => .ok (b.ival.testBit p).toNat
      | none => .error "IndexError" := bit_eq b i

/-- `int(b)`: the unsigned value -/
theorem toInt_unsigned (b : Bits) (hb : b.WF) : b.toInt 1 = .ok (b.ival : Int) := by
  unfold toInt
  have : ¬ ((1 : Int) = -1) := by omega
  simp only [this, ↓reduceIte, and_mask, mod_of_wf hb]; rfl

/-- `b.int(-1)`: two's complement, `x - 2^n·[bit n-1 set]` (n > 0) -/
theorem toInt_signed (b : Bits) (hb : b.WF) (hn : 0 < b.size) :
    b.toInt (-1) = .ok ((b.ival : Int) - (if b.ival.testBit (b.size - 1) then ((2 ^ b.size : Nat) : Int) else 0)) := by
  unfold toInt
  simp only [↓reduceIte]
  rw [bit_neg_one b hn]
  show (if (b.ival.testBit (b.size - 1)).toNat = 1 then (pure (-((b.ival ^^^ b.mask : Nat) : Int) - 1) : Except Err Int)
        else pure ((b.ival &&& b.mask : Nat) : Int)) = _
  cases hs : b.ival.testBit (b.size - 1)
  · simp only [Bool.toNat_false, Nat.zero_ne_one, ↓reduceIte, and_mask, mod_of_wf hb, Bool.false_eq_true, Int.sub_zero]; rfl
  · simp only [Bool.toNat_true, ↓reduceIte, xor_mask b hb]
    show Except.ok _ = Except.ok _
    congr 1
    have h1 : b.ival < 2 ^ b.size := hb
    have h2 : ((2 ^ b.size - 1 - b.ival : Nat) : Int) = ((2 ^ b.size : Nat) : Int) - 1 - (b.ival : Int) := by omega
    rw [h2]; omega

/-- an empty vector has no sign bit: `int(-1)` is refused -/
theorem toInt_signed_empty (b : Bits) (h0 : b.size = 0) : ∃ e, b.toInt (-1) = .error e := by
  unfold toInt
  simp only [↓reduceIte]
  rw [bit_neg_one_empty b h0]
  exact ⟨"IndexError", rfl⟩

/-- `list(b)` / `bitlist()`: the bits in order; `bitlist(-1)` reversed -/
theorem toBitList_spec (b : Bits) :
    b.toBitList.length = b.size ∧ ∀ i (h : i < b.toBitList.length), b.toBitList[i] = (b.ival.testBit i).toNat :=
  ⟨toBitList_length b, fun i h => toBitList_getElem b i h⟩

theorem bitlist_spec (b : Bits) : b.bitlist 1 = b.toBitList ∧ b.bitlist (-1) = b.toBitList.reverse := by
  unfold bitlist
  have : ¬ ((1 : Int) = -1) := by omega
  simp [this]

/-- `str(b)`: character i is `'1'` iff bit i is set; length = size -/
theorem toStr_spec (b : Bits) :
    b.toStr.toList.length = b.size ∧
    ∀ i (h : i < b.toStr.toList.length), b.toStr.toList[i] = if b.ival.testBit i then '1' else '0' := by
  unfold toStr
  simp only [String.toList_ofList, List.length_map, toBitList_length, List.getElem_map, true_and]
  intro i h
  rw [toBitList_getElem]
  cases b.ival.testBit i <;> simp

/-- `todots()`: the same between bars with `.` / blank -/
theorem todots_spec (b : Bits) :
    b.todots = "|" ++ String.ofList ((List.range b.size).map fun i => if b.ival.testBit i then '.' else ' ') ++ "|" := by
  unfold todots toBitList
  congr 3
  rw [List.map_map]
  apply List.map_congr_left
  intro i _
  simp only [Function.comp, shr_and_one]
  cases b.ival.testBit i <;> simp

/-- `bytes(b)`: ⌈n/8⌉ bytes; byte k holds bits 8k..8k+7 first-bit-most-significant; zero fill beyond the size -/
theorem toBytes_spec (b : Bits) :
    b.toBytes.length = (b.size + 7) / 8 ∧ AllBytes b.toBytes ∧
    ∀ k (h : k < b.toBytes.length) j, j < 8 →
      b.toBytes[k].testBit (7 - j) = (decide (8 * k + j < b.size) && b.ival.testBit (8 * k + j)) :=
  ⟨toBytes_length b, toBytes_allBytes b, fun k h j hj => toBytes_testBit b k h j hj⟩

/-- `pack(b)` / `pack(b,'>L')`: the little- / big-endian bytes of the value over ⌈n/8⌉ bytes -/
theorem pack_le (b : Bits) (hb : b.WF) : b.pack false = leBytes ((b.size + 7) / 8) b.ival := pack_le_eq b hb
theorem pack_be (b : Bits) (hb : b.WF) : b.pack true = beBytes ((b.size + 7) / 8) b.ival := pack_be_eq b hb
theorem pack_le_byte (b : Bits) (hb : b.WF) (j : Nat) (h : j < (b.pack false).length) :
    (b.pack false)[j] = b.ival / 256 ^ j % 256 := by
  simp only [pack_le_eq b hb, leBytes_getElem]

/-! ## 5. Round trips: converting out and back in returns an equal vector -/

/-- `Bits(b.bytes(), size=n) == b` -/
theorem load_toBytes (b : Bits) (hb : b.WF) : ofBytes b.toBytes (some b.size) (-1) = .ok b := by
  obtain ⟨r, h1, h2, h3, h4⟩ := load_bitstream b.toBytes (toBytes_allBytes b)
  rw [(ofBytes_spec _ b.size (-1) r h1).1]
  congr 1
  apply ext_of_wf (setSize_wf _ _) hb rfl
  intro i hi0
  have hi : i < b.size := hi0
  simp only [setSize_ival, Nat.testBit_mod_two_pow, hi, decide_true, Bool.true_and]
  have hk : i / 8 < b.toBytes.length := by rw [toBytes_length]; omega
  have hj : i % 8 < 8 := Nat.mod_lt _ (by omega)
  have e : 8 * (i / 8) + i % 8 = i := by omega
  have := h4 (i / 8) hk (i % 8) hj
  rw [e] at this
  rw [this, toBytes_testBit b _ hk _ hj, e]
  simp [hi]

/-- `Bits(b.bitlist()) == b` -/
theorem ofList_bitlist (b : Bits) (hb : b.WF) : ofList (b.bitlist 1) = b := by
  rw [(bitlist_spec b).1]
  have hw : (ofList b.toBitList).WF := listVal_lt _
  apply ext_of_wf hw hb (toBitList_length b)
  intro i hi
  have hi' : i < b.size := by
    have : (ofList b.toBitList).size = b.size := toBitList_length b
    omega
  have hl : i < b.toBitList.length := by rw [toBitList_length]; exact hi'
  show (listVal b.toBitList).testBit i = _
  rw [listVal_testBit, ← List.getElem_eq_getD (h := hl), toBitList_getElem]
  cases b.ival.testBit i <;> simp

/-- `Bits([int(c) for c in str(b)]) == b` -/
theorem ofStr_toStr (b : Bits) (hb : b.WF) :
    ofList (b.toStr.toList.map fun c => if c = '1' then 1 else 0) = b := by
  have : (b.toStr.toList.map fun c => if c = '1' then 1 else 0) = b.toBitList := by
    unfold toStr
    rw [String.toList_ofList, List.map_map]
    apply List.ext_getElem (by simp)
    intro i h1 h2
    simp only [List.getElem_map, Function.comp]
    rw [toBitList_getElem]
    cases b.ival.testBit i <;> simp
  rw [this]
  have := ofList_bitlist b hb
  rwa [(bitlist_spec b).1] at this

/-- `unpack(s)` reads ANY byte string as one little-endian integer of 8|s| bits: every byte count, i.e. every greedy
    Q/L/H/B decomposition -/
theorem unpack_le (s : List Nat) (hs : AllBytes s) : unpack s false = (leInt s, 8 * s.length) :=
  Proofs.Lemmas.Bits.unpack_le s hs
/-- ... and, with `bigend=True`, as one big-endian integer (this is what the `fix:` of the shift repaired) -/
theorem unpack_be (s : List Nat) (hs : AllBytes s) : unpack s true = (beInt s, 8 * s.length) :=
  Proofs.Lemmas.Bits.unpack_be s hs

/-- `Bits(*unpack(pack(b,fmt), bigend=(fmt=='>L'))) == b` for n a multiple of 8 — every byte count, both formats -/
theorem unpack_pack (b : Bits) (hb : b.WF) (h8 : 8 ∣ b.size) (bigend : Bool) :
    unpack (b.pack bigend) bigend = (b.ival, b.size) := by
  obtain ⟨c, hc⟩ := h8
  have hlen : (b.size + 7) / 8 = c := by omega
  have hv : b.ival % 256 ^ c = b.ival := by
    apply Nat.mod_eq_of_lt
    have : (256 : Nat) = 2 ^ 8 := by decide
    rw [this, ← Nat.pow_mul, ← hc]; exact hb
  cases bigend
  · rw [pack_le_eq b hb, unpack_le _ (leBytes_allBytes _ _), leInt_leBytes, leBytes_length, hlen, hv, hc]
  · rw [pack_be_eq b hb]
    unfold beBytes
    rw [unpack_be _ (leBytes_allBytes _ _).reverse, beInt_eq, List.reverse_reverse, leInt_leBytes,
      List.length_reverse, leBytes_length, hlen, hv, hc]

/-! ## Non-vacuity -/

-- the documentation's own examples
example : ofBytes [0x80] (some 5) (-1) = .ok ⟨1, 5⟩ := rfl
example : ofBytes [0x01, 0x0f] (some 13) 1 = .ok ⟨0x0f01, 13⟩ := rfl
example : ofBytes [0x01, 0x0f] (some 13) 2 = .ok ⟨0x010f, 13⟩ := rfl
example : AllBytes [0x0c, 0x0d, 0x0a, 0x0b] ∧ (2 : Nat) ∣ [0x0c, 0x0d, 0x0a, 0x0b].length ∧
    load [0x0c, 0x0d, 0x0a, 0x0b] 2 = .ok ⟨0x0a0b0c0d, 32⟩ :=
  ⟨by intro x hx; simp at hx; omega, by decide, rfl⟩
example : ∃ e, load [1, 2, 3] 2 = .error e := ⟨_, rfl⟩
-- a 3-byte vector (a byte count the old big-endian unpack got wrong), WF, size a multiple of 8
example : (⟨0x800001, 24⟩ : Bits).WF ∧ (8 : Nat) ∣ (⟨0x800001, 24⟩ : Bits).size ∧
    (⟨0x800001, 24⟩ : Bits).pack true = [0x80, 0x00, 0x01] ∧ unpack [0x80, 0x00, 0x01] true = (0x800001, 24) :=
  ⟨by decide, by decide, rfl, rfl⟩
-- a negative two's-complement value; a size that is not a multiple of 8
example : (⟨5, 3⟩ : Bits).toInt (-1) = .ok (-3) ∧ (⟨0b10011, 5⟩ : Bits).toBytes = [0xc8] := ⟨rfl, rfl⟩

end Proofs.C07
