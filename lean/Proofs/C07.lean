/-
  C07 — Bits: construction and conversions are faithful under every bit order.
  ONLY property theorems (and their non-vacuity examples) live here; helper lemmas are in Proofs/Lemmas.
-/
import Model.Bits
import Model.Gen.BitsG
namespace Proofs.C07
open Model Model.Bits

/-- the multiplication trick of `reverse_byte` is exactly the table probed from the current source (all 256 bytes) -/
theorem reverseByte_eq_probed : ∀ b < 256, reverseByte b = Model.Gen.BitsG.reverseByteTable.getD b 0 := by
  decide +kernel

end Proofs.C07
