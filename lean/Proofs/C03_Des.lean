/-
  C03 (DES / TDEA part) — DES and triple-DES are permutations of the 64-bit blocks, IP / IPinv are mutual inverses.
  ONLY property theorems (and non-vacuity examples); helper lemmas are in Proofs/Lemmas/{BitsBools,Feistel,DesLemmas}.

  Everything here is about Model.Des (the mirror of crysp/des.py, tied to the source by the regenerated tables and
  the correspondence stream).  No theorem below uses any fact about the S-boxes, E, P, PC1, PC2 or the rotation
  schedule beyond their sizes: invertibility comes from the Feistel structure and from `IPinv ∘ IP = id`.
-/
import Proofs.Lemmas.DesLemmas
namespace Proofs.C03_Des
open Model Model.Bits Model.Des

/-- GENERIC Feistel lemma: for any half-block type, any "xor" that cancels on an invariant `P`, and ANY (even failing)
    round functions preserving `P`, running the network over the reversed round list maps the swapped output back
    to the swapped input. -/
theorem feistel_inverse {β ι ε : Type} (x : β → β → β) (f : ι → β → Except ε β) (P : β → Prop)
    (hx : ∀ a b, P a → P b → x (x a b) b = a) (hP : ∀ a b, P a → P b → P (x a b))
    (hf : ∀ r a b, P a → f r a = .ok b → P b)
    (rs : List ι) (L R L' R' : β) (hL : P L) (hR : P R) (h : Feistel.run x f rs L R = .ok (L', R')) :
    Feistel.run x f rs.reverse R' L' = .ok (R, L) :=
  (Feistel.run_reverse x f P hx hP hf rs L R L' R' hL hR h).1

/-- the DES round loop of the code IS that network (round function `R ↦ F(R,k,r)`, xor = `Bits.__xor__`) -/
theorem rounds_is_feistel (k : Bits) (order : List Nat) (L R : Bits) :
    Des.rounds k order L R = Feistel.run Bits.xor (fun r R => Des.F R k r) order L R :=
  rounds_eq_run k order L R

/-- `IPinv ∘ IP = id` on every 64-bit value (from the regenerated tables, enumerated in the kernel) -/
theorem ipinv_ip (b : Bits) (hb : b.WF) (hs : b.size = 64) : (Des.IP b >>= Des.IPinv) = .ok b := by
  simp only [Des.IP, Des.IPinv, hs, ne_eq, not_true_eq_false, if_false, bind, Except.bind, size_pick, len_ip]
  rw [pick_pick_id b hb _ _ (by rw [hs]; exact ipinv_after_ip)]

/-- `IP ∘ IPinv = id` on every 64-bit value -/
theorem ip_ipinv (b : Bits) (hb : b.WF) (hs : b.size = 64) : (Des.IPinv b >>= Des.IP) = .ok b := by
  simp only [Des.IP, Des.IPinv, hs, ne_eq, not_true_eq_false, if_false, bind, Except.bind, size_pick, len_ipinv]
  rw [pick_pick_id b hb _ _ (by rw [hs]; exact ip_after_ipinv)]

/-- IP and IPinv refuse everything that is not 64 bits wide -/
theorem ip_size_rejected (b : Bits) (hs : b.size ≠ 64) : Des.IP b = .error assertErr ∧ Des.IPinv b = .error assertErr := by
  simp [Des.IP, Des.IPinv, hs]

/-- DES: for EVERY 8-byte key string (also weak keys, any parity) and every 8-byte block, `enc` succeeds, returns 8
    bytes, and `dec` maps the result back to the block. -/
theorem des_dec_enc (K M : List Nat) (hK : K.length = 8) (hM : M.length = 8) (hb : IsBytes M) :
    ∃ C, Des.enc K M = .ok C ∧ C.length = 8 ∧ IsBytes C ∧ Des.dec K C = .ok M := by
  obtain ⟨d, hd, _⟩ := DES_new_ok K hK
  obtain ⟨C, h1, h2, h3, h4⟩ := crypt_inverse d encOrder M hM hb
  exact ⟨C, by simp [Des.enc, hd, DES.enc, h1, bind, Except.bind], h2, h3,
    by simp [Des.dec, hd, DES.dec, ← encOrder_reverse, h4, bind, Except.bind]⟩

/-- DES: `enc` inverts `dec` -/
theorem des_enc_dec (K C : List Nat) (hK : K.length = 8) (hC : C.length = 8) (hb : IsBytes C) :
    ∃ M, Des.dec K C = .ok M ∧ M.length = 8 ∧ IsBytes M ∧ Des.enc K M = .ok C := by
  obtain ⟨d, hd, _⟩ := DES_new_ok K hK
  obtain ⟨M, h1, h2, h3, h4⟩ := crypt_inverse d decOrder C hC hb
  rw [decOrder_reverse] at h4
  exact ⟨M, by simp [Des.dec, hd, DES.dec, h1, bind, Except.bind], h2, h3,
    by simp [Des.enc, hd, DES.enc, h4, bind, Except.bind]⟩

/-- length law: whatever `enc`/`dec` return has the length of the block (and the block was 8 bytes) -/
theorem des_length (K M C : List Nat) (h : Des.enc K M = .ok C ∨ Des.dec K M = .ok C) :
    C.length = M.length ∧ M.length = 8 := by
  by_cases hK : K.length = 8
  · obtain ⟨d, hd, _⟩ := DES_new_ok K hK
    by_cases hM : M.length = 8
    · have key : ∀ order, d.crypt order M = .ok C → C.length = M.length ∧ M.length = 8 := by
        intro order hc
        rw [crypt_eq d order M hM] at hc
        cases hcb : cryptBits (PC1 d.K) order (ofByteStr M) with
        | error e => rw [hcb] at hc; cases hc
        | ok Cb =>
          rw [hcb] at hc
          simp only [Except.map, Except.ok.injEq] at hc
          have : Cb.size = 64 := by
            simp only [cryptBits] at hcb
            split at hcb
            · cases hcb; simp [len_ipinv]
            · cases hcb
          rw [← hc, length_toBytes, this, hM]; exact ⟨rfl, rfl⟩
      rcases h with h | h
      · exact key encOrder (by simpa [Des.enc, hd, DES.enc, bind, Except.bind] using h)
      · exact key decOrder (by simpa [Des.dec, hd, DES.dec, bind, Except.bind] using h)
    · rcases h with h | h
      · simp [Des.enc, hd, DES.enc, crypt_badlen d _ M hM, bind, Except.bind] at h
      · simp [Des.dec, hd, DES.dec, crypt_badlen d _ M hM, bind, Except.bind] at h
  · rcases h with h | h
    · simp [Des.enc, DES_new_badlen K hK, bind, Except.bind] at h
    · simp [Des.dec, DES_new_badlen K hK, bind, Except.bind] at h


/-- TDEA: for EVERY constructed object (hence every keying option and every accepted way of passing the keys) and every
    8-byte block, `enc` succeeds, returns 8 bytes, and `dec` maps the result back to the block. -/
theorem tdea_dec_enc (t : TDEA) (M : List Nat) (hM : M.length = 8) (hb : IsBytes M) :
    ∃ C, t.enc M = .ok C ∧ C.length = 8 ∧ IsBytes C ∧ t.dec C = .ok M := by
  obtain ⟨A, a1, a2, a3, a4⟩ := crypt_inverse t.E1 encOrder M hM hb
  obtain ⟨B, b1, b2, b3, b4⟩ := crypt_inverse t.E2 decOrder A a2 a3
  obtain ⟨C, c1, c2, c3, c4⟩ := crypt_inverse t.E3 encOrder B b2 b3
  rw [decOrder_reverse] at b4
  refine ⟨C, ?_, c2, c3, ?_⟩
  · simp [TDEA.enc, DES.enc, DES.dec, a1, b1, c1, bind, Except.bind]
  · simp [TDEA.dec, DES.enc, DES.dec, ← encOrder_reverse, a4, b4, c4, bind, Except.bind]

/-- TDEA: `enc` inverts `dec` -/
theorem tdea_enc_dec (t : TDEA) (C : List Nat) (hC : C.length = 8) (hb : IsBytes C) :
    ∃ M, t.dec C = .ok M ∧ M.length = 8 ∧ IsBytes M ∧ t.enc M = .ok C := by
  obtain ⟨A, a1, a2, a3, a4⟩ := crypt_inverse t.E3 decOrder C hC hb
  obtain ⟨B, b1, b2, b3, b4⟩ := crypt_inverse t.E2 encOrder A a2 a3
  obtain ⟨M, c1, c2, c3, c4⟩ := crypt_inverse t.E1 decOrder B b2 b3
  rw [decOrder_reverse] at a4 c4
  refine ⟨M, ?_, c2, c3, ?_⟩
  · simp [TDEA.dec, DES.enc, DES.dec, a1, b1, c1, bind, Except.bind]
  · simp [TDEA.enc, DES.enc, DES.dec, ← encOrder_reverse, a4, b4, c4, bind, Except.bind]

/-- the same through the constructor: whatever way the keys were passed, if `TDEA(K1,K2,K3)` was accepted then
    `dec(enc(M)) = M` and `enc(dec(M)) = M` -/
theorem tdea_roundtrip_call (K1 : List Nat) (K2 K3 : Option (List Nat)) (t : TDEA) (ht : TDEA.new K1 K2 K3 = .ok t)
    (M : List Nat) (hM : M.length = 8) (hb : IsBytes M) :
    (Des.tdeaEnc K1 K2 K3 M >>= Des.tdeaDec K1 K2 K3) = .ok M ∧ (Des.tdeaDec K1 K2 K3 M >>= Des.tdeaEnc K1 K2 K3) = .ok M := by
  obtain ⟨C, c1, _, _, c4⟩ := tdea_dec_enc t M hM hb
  obtain ⟨P, p1, _, _, p4⟩ := tdea_enc_dec t M hM hb
  simp [Des.tdeaEnc, Des.tdeaDec, ht, c1, c4, p1, p4, bind, Except.bind]

/-- non-vacuity: a weak key and the zero block satisfy the hypotheses and the model really runs there (the round
    trips evaluated in the kernel; deliberately no ciphertext value here: C03 must not depend on any S-box entry) -/
example : (Des.enc [1,1,1,1,1,1,1,1] [0,0,0,0,0,0,0,0] >>= Des.dec [1,1,1,1,1,1,1,1]).toOption = some [0,0,0,0,0,0,0,0]
    ∧ (Des.tdeaDec [1,2,3,4,5,6,7,8,9,10,11,12,13,14,15,16,17,18,19,20,21,22,23,24] none none [255,0,1,2,3,4,5,6]
        >>= Des.tdeaEnc [1,2,3,4,5,6,7,8,9,10,11,12,13,14,15,16,17,18,19,20,21,22,23,24] none none).toOption
        = some [255,0,1,2,3,4,5,6] := by
  decide +kernel

end Proofs.C03_Des
