/-
  C03 (DES / TDEA part) — property theorems only.
-/
import Model.Des
namespace Proofs.C03_Des
open Model

/-- `IPinv ∘ IP` on the index level -/
theorem ipinv_ip_idx : Gen.Des.ipinv.map (fun i => Gen.Des.ip.getD i 0) = List.range 64 := by decide +kernel

end Proofs.C03_Des
