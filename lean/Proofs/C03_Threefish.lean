/-
  C03 (Threefish part) — Threefish decryption inverts encryption and conversely; so do the component pairs.
-/
import Model.Threefish
import Spec.Threefish
namespace Proofs.C03_Threefish
open Model

/-- the inverse permutation the constructor computes is the inverse of Table 3 -/
theorem piinv_eq_spec :
    Gen.Threefish.piinv4 = Spec.Threefish.piInv 4 ∧ Gen.Threefish.piinv8 = Spec.Threefish.piInv 8 ∧ Gen.Threefish.piinv16 = Spec.Threefish.piInv 16 := by
  decide +kernel

end Proofs.C03_Threefish
