/-
  C03 (Threefish part) — Threefish decryption inverts encryption and conversely, the result has the block length;
  the component pairs MIX/MIX⁻¹, π/π⁻¹, key addition/subtraction are mutual inverses on their whole domain.
  All statements are about Model.Threefish (the mirror of crysp/threefish.py); C02 makes them statements about the
  standard cipher too.  `IsBytes s` = every element < 256 (a Python `bytes`), `ofBV x` = the 64-bit Bits with value x.
-/
import Proofs.Lemmas.TfEnd
namespace Proofs.C03_Threefish
open Model Proofs.Lemmas.TfBridge Proofs.Lemmas.TfBytes Proofs.Lemmas.TfRefine Proofs.Lemmas
open Spec.Threefish (W bytesToWords wordsToBytes)

/-- π⁻¹∘π = id = π∘π⁻¹ on {0..Nw-1} for the tables the live object holds (Nw = 4, 8, 16; enumerated in the kernel),
    and both tables stay inside {0..Nw-1} -/
theorem piinv_pi : ∀ nw ∈ [4, 8, 16], ∀ i < nw,
    (Threefish.piinvOf nw).getD ((Threefish.piOf nw).getD i 0) 0 = i ∧
    (Threefish.piOf nw).getD ((Threefish.piinvOf nw).getD i 0) 0 = i ∧
    (Threefish.piOf nw).getD i 0 < nw ∧ (Threefish.piinvOf nw).getD i 0 < nw := by
  decide +kernel

/-- rotation right undoes rotation left on 64-bit words, every amount (the `ror`/`rol` pair as Threefish uses it) -/
theorem ror_rol (x : W) (r : Nat) (hr : r < 64) : ((ofBV x).rol! r).ror! r = ofBV x := by
  rw [rol_ofBV x hr, ror_ofBV _ hr, TfInverse.rotr_rotl]

theorem rol_ror (x : W) (r : Nat) (hr : r < 64) : ((ofBV x).ror! r).rol! r = ofBV x := by
  rw [ror_ofBV x hr, rol_ofBV _ hr, TfInverse.rotl_rotr]

/-- `__MIXinv` undoes `__MIX`: every pair of 64-bit words, every round d, every column j, every constructible context -/
theorem mixinv_mix (key tweak : List Nat) (hk : IsBytes key) (ht : IsBytes tweak) (c : Threefish.Ctx)
    (hc : Threefish.init key tweak = .ok c) (x0 x1 : W) (d j : Nat) (hj : j < c.Nw / 2) :
    Threefish.mixinv c ((Threefish.mix c (ofBV x0) (ofBV x1) d j).getD 0 Threefish.z64)
      ((Threefish.mix c (ofBV x0) (ofBV x1) d j).getD 1 Threefish.z64) d j = [ofBV x0, ofBV x1] := by
  obtain ⟨_, _, hrel⟩ := TfEnd.rel_of_init key tweak hk ht c hc
  have h8 : j < 8 := by
    have := hrel.hNw; rcases hrel.hv with h | h | h <;> omega
  rw [TfRefine.mix_refines hrel x0 x1 d j h8, getD_map_ofBV, getD_map_ofBV, TfRefine.mixinv_refines hrel _ _ d j h8,
      TfInverse.mixInv_mix]
  rfl

/-- `__MIX` undoes `__MIXinv` -/
theorem mix_mixinv (key tweak : List Nat) (hk : IsBytes key) (ht : IsBytes tweak) (c : Threefish.Ctx)
    (hc : Threefish.init key tweak = .ok c) (y0 y1 : W) (d j : Nat) (hj : j < c.Nw / 2) :
    Threefish.mix c ((Threefish.mixinv c (ofBV y0) (ofBV y1) d j).getD 0 Threefish.z64)
      ((Threefish.mixinv c (ofBV y0) (ofBV y1) d j).getD 1 Threefish.z64) d j = [ofBV y0, ofBV y1] := by
  obtain ⟨_, _, hrel⟩ := TfEnd.rel_of_init key tweak hk ht c hc
  have h8 : j < 8 := by
    have := hrel.hNw; rcases hrel.hv with h | h | h <;> omega
  rw [TfRefine.mixinv_refines hrel y0 y1 d j h8, getD_map_ofBV, getD_map_ofBV, TfRefine.mix_refines hrel _ _ d j h8,
      TfInverse.mix_mixInv]
  rfl

/-- subtracting a subkey undoes adding it (and conversely), word lists of the block length -/
theorem subKey_addKey (key tweak : List Nat) (hk : IsBytes key) (ht : IsBytes tweak) (c : Threefish.Ctx)
    (hc : Threefish.init key tweak = .ok c) (v ks : List W) (hv : v.length = c.Nw) :
    Threefish.subKey c (Threefish.addKey c (v.map ofBV) (ks.map ofBV)) (ks.map ofBV) = v.map ofBV ∧
    Threefish.addKey c (Threefish.subKey c (v.map ofBV) (ks.map ofBV)) (ks.map ofBV) = v.map ofBV := by
  obtain ⟨_, _, hrel⟩ := TfEnd.rel_of_init key tweak hk ht c hc
  rw [hrel.hNw] at hv
  rw [TfRefine.addKey_refines hrel, TfRefine.subKey_refines hrel, TfInverse.subWords_addWords _ _ _ hv,
      TfRefine.subKey_refines hrel, TfRefine.addKey_refines hrel, TfInverse.addWords_subWords _ _ _ hv]
  exact ⟨rfl, rfl⟩

/-- one decryption round undoes one encryption round (and conversely) -/
theorem decRound_encRound (key tweak : List Nat) (hk : IsBytes key) (ht : IsBytes tweak) (c : Threefish.Ctx)
    (hc : Threefish.init key tweak = .ok c) (v : List W) (hv : v.length = c.Nw) (d : Nat) (hd : d < 2 ^ 64) :
    Threefish.decRound c (Threefish.encRound c (v.map ofBV) d) d = v.map ofBV ∧
    Threefish.encRound c (Threefish.decRound c (v.map ofBV) d) d = v.map ofBV := by
  obtain ⟨hkl, _, hrel⟩ := TfEnd.rel_of_init key tweak hk ht c hc
  rw [hrel.hNw] at hv
  rw [TfRefine.encRound_refines hrel v d hd, TfRefine.decRound_refines hrel _ d hd,
      TfInverse.roundInv_round _ hrel.hv _ _ _ _ hv,
      TfRefine.decRound_refines hrel v d hd, TfRefine.encRound_refines hrel _ d hd,
      TfInverse.round_roundInv _ hrel.hv _ _ _ _ hv]
  exact ⟨rfl, rfl⟩

/-- dec_K,T(enc_K,T(B)) = B for every key, tweak and block of the three sizes -/
theorem dec_enc (key tweak block : List Nat) (hk : IsBytes key) (ht : IsBytes tweak) (hb : IsBytes block)
    (hs : (key.length = 32 ∨ key.length = 64 ∨ key.length = 128) ∧ tweak.length = 16 ∧ block.length = key.length) :
    (Threefish.encrypt key tweak block >>= fun c => Threefish.decrypt key tweak c) = .ok block :=
  TfEnd.decrypt_encrypt key tweak block hk ht hb ((TfEnd.sizesOk_iff _ _ _).2 hs)

/-- enc_K,T(dec_K,T(B)) = B -/
theorem enc_dec (key tweak block : List Nat) (hk : IsBytes key) (ht : IsBytes tweak) (hb : IsBytes block)
    (hs : (key.length = 32 ∨ key.length = 64 ∨ key.length = 128) ∧ tweak.length = 16 ∧ block.length = key.length) :
    (Threefish.decrypt key tweak block >>= fun c => Threefish.encrypt key tweak c) = .ok block :=
  TfEnd.encrypt_decrypt key tweak block hk ht hb ((TfEnd.sizesOk_iff _ _ _).2 hs)

/-- whatever enc / dec return has the length of the block (no size hypothesis: other sizes return nothing) -/
theorem enc_length (key tweak block out : List Nat) (hk : IsBytes key) (ht : IsBytes tweak) (hb : IsBytes block)
    (h : Threefish.encrypt key tweak block = .ok out) : out.length = block.length :=
  TfEnd.encrypt_length key tweak block out hk ht hb h

theorem dec_length (key tweak block out : List Nat) (hk : IsBytes key) (ht : IsBytes tweak) (hb : IsBytes block)
    (h : Threefish.decrypt key tweak block = .ok out) : out.length = block.length :=
  TfEnd.decrypt_length key tweak block out hk ht hb h

/-! ### non-vacuity -/

example : IsBytes (List.replicate 128 0xFF) ∧ IsBytes (List.replicate 16 7) ∧
    ((List.replicate 128 0xFF).length = 32 ∨ (List.replicate 128 0xFF).length = 64 ∨ (List.replicate 128 0xFF).length = 128) := by
  refine ⟨?_, ?_, by simp⟩
  · intro b hb; rw [List.eq_of_mem_replicate hb]; decide
  · intro b hb; rw [List.eq_of_mem_replicate hb]; decide

example : ∃ c, Threefish.init (List.replicate 32 3) (List.replicate 16 2) = .ok c ∧ 1 < c.Nw / 2 := by
  have hb1 : IsBytes (List.replicate 32 3) := by intro b hb; rw [List.eq_of_mem_replicate hb]; decide
  have hb2 : IsBytes (List.replicate 16 2) := by intro b hb; rw [List.eq_of_mem_replicate hb]; decide
  obtain ⟨c, hc, _, hrel⟩ := TfEnd.init_rel _ _ hb1 hb2 (by simp) (by simp)
  exact ⟨c, hc, by rw [hrel.hNw]; simp⟩

end Proofs.C03_Threefish
