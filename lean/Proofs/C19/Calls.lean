/-
  C19 — non-vacuity of `Proofs.C19.tlsh_call_ignores_state` / `tlsh_call_ignores_history`, computed in the kernel on the object
  model `Model.Objects.TlshO` (kept in its own module: the evaluation takes a while and builds in parallel with Proofs.C19).
-/
import Model.Tlsh
import Model.Objects
namespace Proofs.C19.Calls
open Model Model.Tlsh

open Model.Objects in
/-- computed: a 60-byte input without `force` gives no digest and leaves `data_len = 60` and the checksum [199]
    behind (the state the theorem quantifies over is NOT the initial one); the forced call on that object returns a digest,
    the same as on a new object, and it is the one-shot function `Model.Tlsh.tlsh` of the call's arguments -/
example :
    let cfg : Cfg := ⟨48, 8, 1⟩
    let short : List Nat := (List.range 60).map fun i => (i * 37 + 11) % 256
    let data : List Nat := (List.range 64).map fun i => (i * i * 7 + i * 13 + 5) % 256
    let r0 := TlshO.step (fun _ => 0) (TlshO.init cfg) (.call short false)
    r0.2.toOption = some .none ∧ r0.1.data_len = 60 ∧ r0.1.checksum = [199] ∧
    (TlshO.step (fun _ => 0) r0.1 (.call data true)).2.toOption
      = some (.bytes [69, 0, 35, 128, 247, 33, 153, 71, 65, 5, 51, 112, 218, 129, 48]) ∧
    (tlsh (fun _ => 0) cfg data true).toOption = some (some [69, 0, 35, 128, 247, 33, 153, 71, 65, 5, 51, 112, 218, 129, 48]) := by
  intro cfg short data r0
  refine ⟨?_, ?_, ?_, ?_, ?_⟩ <;> decide +kernel

end Proofs.C19.Calls
