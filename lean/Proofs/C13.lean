/-
  C13 — HMAC equals RFC 2104 for every hash function, block size, key and message.
  ONLY property theorems and non-vacuity examples; helper lemmas are in Proofs/Lemmas/Hmac.lean.
-/
import Proofs.Lemmas.Hmac
import Proofs.Lemmas.HmacAlgs
namespace Proofs.C13
open Model Model.Hmac

/-- **hmac_refines.**  Generic in the hash function `H` (bytes → bytes) and the block size `B` (bytes):
    `HMAC(h,key)(msg)` of the model of crysp/hmac.py is RFC 2104's `H((K0 ⊕ opad) ‖ H((K0 ⊕ ipad) ‖ msg))`.
    Hypotheses are RFC 2104's standing assumptions: a non-empty block, and a digest that fits a block (needed only when
    the key is longer than a block and therefore hashed).  All three key-length branches are inside the statement
    (`key_short`, `key_block`, `key_long` below spell them out). -/
theorem hmac_refines (H : List Nat → List Nat) (B : Nat) (hB : 0 < B) (key msg : List Nat)
    (hL : B < key.length → (H key).length ≤ B) :
    Hmac.hmac (fun m => .ok (H m)) (8 * B) key msg = .ok (Spec.rfc2104 H B key msg) :=
  Lemmas.Hmac.hmac_eq H B hB key msg hL

/-- |K| < B: the key material is the key zero-padded to the block -/
theorem key_short (H : List Nat → List Nat) (B : Nat) (key : List Nat) (h : key.length < B) :
    Hmac.setkey { blocksize := 8 * B } (fun m => .ok (H m)) key
      = .ok { blocksize := 8 * B, K := some (key ++ List.replicate (B - key.length) 0) } :=
  Lemmas.Hmac.setkey_short H B key h

/-- |K| = B: the key material is the key -/
theorem key_block (H : List Nat → List Nat) (B : Nat) (key : List Nat) (h : key.length = B) :
    Hmac.setkey { blocksize := 8 * B } (fun m => .ok (H m)) key = .ok { blocksize := 8 * B, K := some key } :=
  Lemmas.Hmac.setkey_block H B key h

/-- |K| > B: the key material is the digest of the key, zero-padded to the block (the repaired branch) -/
theorem key_long (H : List Nat → List Nat) (B : Nat) (key : List Nat) (h : B < key.length) :
    Hmac.setkey { blocksize := 8 * B } (fun m => .ok (H m)) key
      = .ok { blocksize := 8 * B, K := some (H key ++ List.replicate (B - (H key).length) 0) } :=
  Lemmas.Hmac.setkey_long H B key h

/-- **setkey_replaces.**  Setting a key replaces the old one completely: the object after `setkey(k)` does not
    depend on the key material it held before, so after any sequence of keys the MAC is that of the last key. -/
theorem setkey_replaces (h : HashFn) (o : Hmac) (k : List Nat) :
    o.setkey h k = ({ blocksize := o.blocksize } : Hmac).setkey h k := by
  simp [Hmac.setkey]

/-- …hence for every key sequence on one object the result is HMAC of the last key -/
theorem setkey_seq (h : HashFn) (o : Hmac) (ks : List (List Nat)) (k m : List Nat) :
    (do let o' ← (ks.foldlM (fun (o : Hmac) k => o.setkey h k) o); let o'' ← o'.setkey h k; o''.call h m)
      = (do let _ ← (ks.foldlM (fun (o : Hmac) k => o.setkey h k) o); Hmac.hmac h o.blocksize k m) :=
  Lemmas.Hmac.setkey_seq h o ks k m

/-- **hmac_refines_library.**  Instantiation for the hash objects of the library covered by C01 (MD4, MD5, SHA-0, SHA-1,
    SHA-224/256/384/512, SHA-512/224, SHA-512/256): `HMAC(h,key)(msg)` with the model of the real hash object equals
    RFC 2104 over the *standard* hash function (`specFn alg` = the Lean formalisation of RFC 1320/1321/FIPS 180-4 on
    byte strings), for every key and message (byte values below 256).  Uses C01's `hash_refines`. -/
theorem hmac_refines_library (alg : Model.Alg) (key msg : List Nat)
    (hkey : ∀ x ∈ key, x < 256) (hmsg : ∀ x ∈ msg, x < 256) :
    Hmac.hmac (fun m => Model.hash alg m none) (8 * alg.blocklen) key msg
      = .ok (Spec.rfc2104 (Lemmas.HmacAlgs.specFn alg) alg.blocklen key msg) :=
  Lemmas.HmacAlgs.hmac_alg alg key msg hkey hmsg

/-! non-vacuity: the hypotheses hold for a non-trivial instance (a 2-byte "digest", 4-byte block, 6-byte key) -/
example : ∃ (H : List Nat → List Nat) (B : Nat) (key : List Nat), 0 < B ∧ B < key.length ∧ (B < key.length → (H key).length ≤ B) :=
  ⟨fun m => [m.length, 7], 4, [1, 2, 3, 4, 5, 6], by decide, by decide, by decide⟩

end Proofs.C13
