/-
  C13 — HMAC equals RFC 2104 for every hash function, block size, key and message.
  ONLY property theorems and non-vacuity examples; helper lemmas are in Proofs/Lemmas/Hmac.lean.
-/
import Proofs.Lemmas.Hmac
import Proofs.Lemmas.HmacAlgs
import Model.HmacObj
namespace Proofs.C13
open Model Model.Hmac

/-- **hmac_refines.**  Generic in the hash function `H` (bytes → bytes) and the block size `B` (bytes):
    `HMAC(h,key)(msg)` of the model of crysp/hmac.py is RFC 2104's `H((K0 ⊕ opad) ‖ H((K0 ⊕ ipad) ‖ msg))`.
    Hypotheses are RFC 2104's standing assumptions: a non-empty block, and a digest that fits a block (needed only when
    the key is longer than a block and therefore hashed).  All three key-length branches are inside the statement
    (`key_short`, `key_block`, `key_long` below spell them out). -/
theorem hmac_refines (H : List Nat → List Nat) (B : Nat) (hB : 0 < B) (key msg : List Nat)
    (hL : B < key.length → (H key).length ≤ B) :
    Hmac.hmac (fun m => .ok (H m)) (8 * B) key msg = .ok (Spec.rfc2104 H B key msg) :=
  Lemmas.Hmac.hmac_eq H B hB key msg hL

/-- |K| < B: the key material is the key zero-padded to the block -/
theorem key_short (H : List Nat → List Nat) (B : Nat) (key : List Nat) (h : key.length < B) :
    Hmac.setkey { blocksize := 8 * B } (fun m => .ok (H m)) key
      = .ok { blocksize := 8 * B, K := some (key ++ List.replicate (B - key.length) 0) } :=
  Lemmas.Hmac.setkey_short H B key h

/-- |K| = B: the key material is the key -/
theorem key_block (H : List Nat → List Nat) (B : Nat) (key : List Nat) (h : key.length = B) :
    Hmac.setkey { blocksize := 8 * B } (fun m => .ok (H m)) key = .ok { blocksize := 8 * B, K := some key } :=
  Lemmas.Hmac.setkey_block H B key h

/-- |K| > B: the key material is the digest of the key, zero-padded to the block (the repaired branch) -/
theorem key_long (H : List Nat → List Nat) (B : Nat) (key : List Nat) (h : B < key.length) :
    Hmac.setkey { blocksize := 8 * B } (fun m => .ok (H m)) key
      = .ok { blocksize := 8 * B, K := some (H key ++ List.replicate (B - (H key).length) 0) } :=
  Lemmas.Hmac.setkey_long H B key h

/-- **setkey_replaces.**  Setting a key replaces the old one completely: the object after `setkey(k)` does not
    depend on the key material it held before, so after any sequence of keys the MAC is that of the last key. -/
theorem setkey_replaces (h : HashFn) (o : Hmac) (k : List Nat) :
    o.setkey h k = ({ blocksize := o.blocksize } : Hmac).setkey h k := by
  simp [Hmac.setkey]

/-- …hence for every key sequence on one object the result is HMAC of the last key -/
theorem setkey_seq (h : HashFn) (o : Hmac) (ks : List (List Nat)) (k m : List Nat) :
    (do let o' ← (ks.foldlM (fun (o : Hmac) k => o.setkey h k) o); let o'' ← o'.setkey h k; o''.call h m)
      = (do let _ ← (ks.foldlM (fun (o : Hmac) k => o.setkey h k) o); Hmac.hmac h o.blocksize k m) :=
  Lemmas.Hmac.setkey_seq h o ks k m

/-- **hmac_refines_library.**  Instantiation for the hash objects of the library covered by C01 (MD4, MD5, SHA-0, SHA-1,
    SHA-224/256/384/512, SHA-512/224, SHA-512/256): `HMAC(h,key)(msg)` with the model of the real hash object equals
    RFC 2104 over the *standard* hash function (`specFn alg` = the Lean formalisation of RFC 1320/1321/FIPS 180-4 on
    byte strings), for every key and message (byte values below 256).  Uses C01's `hash_refines`. -/
theorem hmac_refines_library (alg : Model.Alg) (key msg : List Nat)
    (hkey : ∀ x ∈ key, x < 256) (hmsg : ∀ x ∈ msg, x < 256) :
    Hmac.hmac (fun m => Model.hash alg m none) (8 * alg.blocklen) key msg
      = .ok (Spec.rfc2104 (Lemmas.HmacAlgs.specFn alg) alg.blocklen key msg) :=
  Lemmas.HmacAlgs.hmac_alg alg key msg hkey hmsg

/-! ### the hash object has a history (Model.HmacObj: crysp/hmac.py with the hash object's state threaded through) -/


/-- `setkey` on a used hash object: the key material does not depend on the state the hash object is found in, provided
    the digest `h(x)` returns does not (every hash class of the library: `__call__` starts with `initstate`) -/
theorem setkey_history_free {σ} (h : HmacObj.HashS σ) (f : HashFn) (hf : ∀ s x, (h s x).2 = f x) (o : Hmac) (s : σ)
    (k : List Nat) : (HmacObj.setkey o h s k).2 = o.setkey f k := by
  unfold HmacObj.setkey Hmac.setkey
  by_cases hk : k.length > o.blocksize / 8
  · have := hf s k
    cases hh : h s k with
    | mk s' r =>
      rw [hh] at this
      simp only at this
      subst this
      cases hfk : f k <;> simp [hk, bind, Except.bind, pure, Except.pure]
  · simp [hk, bind, Except.bind, pure, Except.pure]

/-- `__call__` on a used hash object: both hash calls are answered as on a new object -/
theorem call_history_free {σ} (h : HmacObj.HashS σ) (f : HashFn) (hf : ∀ s x, (h s x).2 = f x) (o : Hmac) (s : σ)
    (m : List Nat) : (HmacObj.call o h s m).2 = o.call f m := by
  unfold HmacObj.call Hmac.call
  cases o.K with
  | none => rfl
  | some a =>
    by_cases ha : a.isEmpty
    · simp [ha]
    · simp only [ha, Bool.false_eq_true, if_false]
      have h1 := hf s (xorBytes a (List.replicate (o.blocksize / 8) 0x36) ++ m)
      cases hh : h s (xorBytes a (List.replicate (o.blocksize / 8) 0x36) ++ m) with
      | mk s1 r =>
        rw [hh] at h1
        simp only at h1
        subst h1
        cases hfx : f (xorBytes a (List.replicate (o.blocksize / 8) 0x36) ++ m) with
        | error e => simp [bind, Except.bind]
        | ok d => simp [bind, Except.bind, hf]

/-- **hmac_history_free.**  `HMAC(h,key)(msg)` over a hash OBJECT in ANY state `s` (after a salted / bit-length call, a
    finished or abandoned stream, a refused call, an earlier MAC …) is `HMAC` over the pure hash function `f`, hence RFC 2104
    by `hmac_refines`, as soon as the digest of a one-shot call `h(x)` does not depend on the state it finds -/
theorem hmac_history_free {σ} (h : HmacObj.HashS σ) (f : HashFn) (hf : ∀ s x, (h s x).2 = f x) (B : Nat) (s : σ)
    (k m : List Nat) : (HmacObj.hmac h B s k m).2.2 = Hmac.hmac f B k m := by
  unfold HmacObj.hmac Hmac.hmac
  have hs := setkey_history_free h f hf { blocksize := B } s k
  cases hh : HmacObj.setkey { blocksize := B } h s k with
  | mk s' r =>
    rw [hh] at hs
    simp only at hs
    rw [← hs]
    cases r with
    | error e => simp [bind, Except.bind]
    | ok o => simp [bind, Except.bind, call_history_free h f hf]

/-- the one-shot call of the ten hash objects of the library is history free: `__call__` = `initstate()` + `update` -/
theorem library_call_history_free (alg : Model.Alg) (c : HashCore) (hc : alg.new = .ok c) (o : HashObj) (x : List Nat) :
    (c.call o x none).2 = Model.hash alg x none := by
  simp [Model.hash, hc, HashCore.hash, HashCore.call, bind, Except.bind]

/-- **hmac_after_history_library.**  For the ten MD/SHA objects: whatever the hash object was used for before it is handed
    to HMAC, between `HMAC(h,key)` and the call, or between two MACs (`s` is ANY object state, reachable or not), the MAC
    is RFC 2104 over the standard hash function -/
theorem hmac_after_history_library (alg : Model.Alg) (c : HashCore) (hc : alg.new = .ok c) (s : HashObj) (key msg : List Nat)
    (hkey : ∀ x ∈ key, x < 256) (hmsg : ∀ x ∈ msg, x < 256) :
    (HmacObj.hmac (fun o x => c.call o x none) (8 * alg.blocklen) s key msg).2.2
      = .ok (Spec.rfc2104 (Lemmas.HmacAlgs.specFn alg) alg.blocklen key msg) := by
  rw [hmac_history_free _ _ (library_call_history_free alg c hc)]
  exact hmac_refines_library alg key msg hkey hmsg

/-- non-vacuity: a state no fresh object is in (a preset bit counter, the padding flag set) -/
example : ∃ (c : HashCore) (s : HashObj), Model.Alg.md5.new = .ok c ∧ s.pad.padflag = true ∧ s.pad.bitcnt = 512 :=
  ⟨Md.md5Core, ⟨[], { padflag := true, bitcnt := 512 }⟩, rfl, rfl, rfl⟩

/-! non-vacuity: the hypotheses hold for a non-trivial instance (a 2-byte "digest", 4-byte block, 6-byte key) -/
example : ∃ (H : List Nat → List Nat) (B : Nat) (key : List Nat), 0 < B ∧ B < key.length ∧ (B < key.length → (H key).length ≤ B) :=
  ⟨fun m => [m.length, 7], 4, [1, 2, 3, 4, 5, 6], by decide, by decide, by decide⟩

end Proofs.C13
