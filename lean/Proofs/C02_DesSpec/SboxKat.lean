/-
  C02 (DES part) — sanity of the specification lean/Spec/Des.lean, continued: the nineteen known answers of the NBS SP 500-20 S-box test
  (separate modules so that lake runs the kernel evaluations in parallel; see Proofs/C02_DesSpec.lean).
-/
import Proofs.C02_DesSpec.SboxKat1
import Proofs.C02_DesSpec.SboxKat2
namespace Proofs.C02_DesSpec.SboxKat
open Spec.Des Proofs.Lemmas.DesSboxVectors

/-- all nineteen published ciphertexts are what `Spec.Des.enc` computes -/
theorem sbox_test_known_answers :
    vectors.length = 19 ∧ ∀ v ∈ vectors, enc (bytes8 v.1) (bytes8 v.2.1) = some (bytes8 v.2.2) := by
  refine ⟨by decide, fun v hv => ?_⟩
  rw [← List.take_append_drop 10 vectors, List.mem_append] at hv
  rcases hv with h | h
  · exact SboxKat1.sbox_test_known_answers_1 v h
  · exact SboxKat2.sbox_test_known_answers_2 v h

end Proofs.C02_DesSpec.SboxKat
