/-
  C02 (DES part) — sanity of the specification lean/Spec/Des.lean, continued: S-box entries looked up while enciphering the test vectors 1..5 of the NBS S-box test
  (separate modules so that lake runs the kernel evaluations in parallel; see Proofs/C02_DesSpec.lean).
-/
import Proofs.Lemmas.DesSboxVectors
namespace Proofs.C02_DesSpec.SboxCover0
open Spec.Des Proofs.Lemmas.DesSboxVectors

/-- bit 64·n + v of the mask is set iff S-box n+1 is looked up at the 6-bit input v in one of these encipherings -/
theorem sbox_test_mask_0 :
    mask (inputsOf (part 0)) =
      0x2c9b7fdff0efeffdfb555cf397eeacf6ff6a7b7fecbef3bdfbdf6e2ffefef6febafacdbecfff3317ccf637a6f7d677febdf3f537b78f366f7d3bfe7dfd5fba7f := by
  decide +kernel

end Proofs.C02_DesSpec.SboxCover0
