/-
  C02 (DES part) — sanity of the specification lean/Spec/Des.lean, continued: S-box entries looked up while enciphering the test vectors 6..10 of the NBS S-box test
  (separate modules so that lake runs the kernel evaluations in parallel; see Proofs/C02_DesSpec.lean).
-/
import Proofs.Lemmas.DesSboxVectors
namespace Proofs.C02_DesSpec.SboxCover1
open Spec.Des Proofs.Lemmas.DesSboxVectors

/-- bit 64·n + v of the mask is set iff S-box n+1 is looked up at the 6-bit input v in one of these encipherings -/
theorem sbox_test_mask_1 :
    mask (inputsOf (part 1)) =
      0x08bdeff5d57bff1aff5b9f3eee7edd8c63e04372ffdfbff77dbcdebdf7676bb9dacd92f2bfffb5eff77df7e29f93ffe77cdefffcae8f6ffaffe3bcf9f7fdbd7d := by
  decide +kernel

end Proofs.C02_DesSpec.SboxCover1
