/-
  C02 (DES part) — sanity of the specification lean/Spec/Des.lean, continued: the nineteen encipherings of the NBS S-box test use EVERY entry of every S-box table
  (separate modules so that lake runs the kernel evaluations in parallel; see Proofs/C02_DesSpec.lean).
-/
import Proofs.C02_DesSpec.SboxCover0
import Proofs.C02_DesSpec.SboxCover1
import Proofs.C02_DesSpec.SboxCover2
import Proofs.C02_DesSpec.SboxCover3
namespace Proofs.C02_DesSpec.SboxCover
open Spec.Des Proofs.Lemmas.DesSboxVectors

/-- during the nineteen encipherings of `sbox_test_known_answers` each of the 8 × 64 S-box entries (box n+1, 6-bit input
    v: row v₁v₆, column v₂v₃v₄v₅) is looked up at least once — so a single wrong entry anywhere in `Spec.Des.Sboxes`
    changes an intermediate value of at least one of the nineteen computations whose published result is proved in
    `sbox_test_known_answers` -/
theorem sbox_test_covers_every_entry :
    ∀ n, n < 8 → ∀ v, v < 64 → (64 * n + v) ∈ inputsOf vectors := by
  have hall : ∀ c, c < 512 →
      (mask (inputsOf (part 0)) ||| mask (inputsOf (part 1)) ||| mask (inputsOf (part 2)) |||
        mask (inputsOf (part 3))).testBit c = true := by
    rw [SboxCover0.sbox_test_mask_0, SboxCover1.sbox_test_mask_1, SboxCover2.sbox_test_mask_2, SboxCover3.sbox_test_mask_3]
    decide +kernel
  intro n hn v hv
  have h := hall (64 * n + v) (by omega)
  rw [vectors_parts]
  simp only [inputsOf_append, List.mem_append]
  simp only [Nat.testBit_or, Bool.or_eq_true] at h
  rcases h with ((h | h) | h) | h
  · exact Or.inl (Or.inl (Or.inl (mem_of_mask_testBit h)))
  · exact Or.inl (Or.inl (Or.inr (mem_of_mask_testBit h)))
  · exact Or.inl (Or.inr (mem_of_mask_testBit h))
  · exact Or.inr (mem_of_mask_testBit h)

end Proofs.C02_DesSpec.SboxCover
