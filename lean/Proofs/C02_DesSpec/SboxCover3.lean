/-
  C02 (DES part) — sanity of the specification lean/Spec/Des.lean, continued: S-box entries looked up while enciphering the test vectors 16..19 of the NBS S-box test
  (separate modules so that lake runs the kernel evaluations in parallel; see Proofs/C02_DesSpec.lean).
-/
import Proofs.Lemmas.DesSboxVectors
namespace Proofs.C02_DesSpec.SboxCover3
open Spec.Des Proofs.Lemmas.DesSboxVectors

/-- bit 64·n + v of the mask is set iff S-box n+1 is looked up at the 6-bit input v in one of these encipherings -/
theorem sbox_test_mask_3 :
    mask (inputsOf (part 3)) =
      0x731637eb17feff571599cfd2fe6dac9df5775fbf50f6741d9a17279b7be5737dbfbff5e1d7af638bef3ffb66f13797ddf24be4e72ef717ed074ba7ffabfccb5c := by
  decide +kernel

end Proofs.C02_DesSpec.SboxCover3
