/-
  C02 (DES part) — sanity of the specification lean/Spec/Des.lean, continued: weak and semi-weak keys evaluated through Spec.Des in the kernel
  (separate module so that lake runs the kernel evaluations in parallel; see Proofs/C02_DesSpec.lean).
-/
import Spec.Des
namespace Proofs.C02_DesSpec.Weak
open Spec.Des

/-- the weak key 0101010101010101: all sixteen round keys are equal, so enciphering is an involution -/
theorem weak_key_involution :
    (∀ K ∈ keySchedule (bytesToBits [1, 1, 1, 1, 1, 1, 1, 1]), K = List.replicate 48 false) ∧
    ∀ blk ∈ [[0x01, 0x23, 0x45, 0x67, 0x89, 0xAB, 0xCD, 0xEF], [0x80, 0, 0, 0, 0, 0, 0, 1]],
      (enc [1, 1, 1, 1, 1, 1, 1, 1] blk).bind (enc [1, 1, 1, 1, 1, 1, 1, 1]) = some blk := by
  decide +kernel

/-- the semi-weak pair 01FE01FE01FE01FE / FE01FE01FE01FE01: enciphering with one deciphers the other -/
theorem semi_weak_pair :
    ∀ blk ∈ [[0x01, 0x23, 0x45, 0x67, 0x89, 0xAB, 0xCD, 0xEF]],
      (enc [0x01, 0xFE, 0x01, 0xFE, 0x01, 0xFE, 0x01, 0xFE] blk).bind
        (enc [0xFE, 0x01, 0xFE, 0x01, 0xFE, 0x01, 0xFE, 0x01]) = some blk := by
  decide +kernel

end Proofs.C02_DesSpec.Weak
