/-
  C02 (DES part) — sanity of the specification lean/Spec/Des.lean, continued: S-box entries looked up while enciphering the test vectors 11..15 of the NBS S-box test
  (separate modules so that lake runs the kernel evaluations in parallel; see Proofs/C02_DesSpec.lean).
-/
import Proofs.Lemmas.DesSboxVectors
namespace Proofs.C02_DesSpec.SboxCover2
open Spec.Des Proofs.Lemmas.DesSboxVectors

/-- bit 64·n + v of the mask is set iff S-box n+1 is looked up at the 6-bit input v in one of these encipherings -/
theorem sbox_test_mask_2 :
    mask (inputsOf (part 2)) =
      0xc5f7f36bfcbefbf3febdec9ff9fb5f94a1eda77ddf95fcfbddade7dfc6fdedcdffeed75eb9e9dfe5be765e3ff9fe7edd3e0ef7dd7cbefbeff36fd7f77adf77ff := by
  decide +kernel

end Proofs.C02_DesSpec.SboxCover2
