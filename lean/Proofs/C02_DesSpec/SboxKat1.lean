/-
  C02 (DES part) — sanity of the specification lean/Spec/Des.lean, continued: known answers of the NBS SP 500-20 S-box test, the first ten vectors
  (separate modules so that lake runs the kernel evaluations in parallel; see Proofs/C02_DesSpec.lean).
-/
import Proofs.Lemmas.DesSboxVectors
namespace Proofs.C02_DesSpec.SboxKat1
open Spec.Des Proofs.Lemmas.DesSboxVectors

theorem sbox_test_known_answers_1 :
    ∀ v ∈ vectors.take 10, enc (bytes8 v.1) (bytes8 v.2.1) = some (bytes8 v.2.2) := by
  decide +kernel

end Proofs.C02_DesSpec.SboxKat1
