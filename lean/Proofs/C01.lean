/-
  C01 — MD4/MD5/SHA-0/SHA-1/SHA-2 digests equal the standards for every message and bit length.
  ONLY property theorems and non-vacuity examples; helper lemmas are in Proofs/Lemmas/*.lean.

  Reading guide.  `ofBV x` is the `Bits` object of size w holding the word x : BitVec w (Lemmas/BitsBitVec.lean: every
  well-formed Bits of size w is of this form, `ofBV_toBV`).  `toNatBytes` maps the specification's bytes (BitVec 8) to
  the byte values (Nat) the model works on.  `embH` lists the words of a standard chaining value as the `Bits` list
  the object holds in `self.H`.
-/
import Proofs.Lemmas.EndToEnd
import Proofs.Lemmas.StreamingAlgs
import Proofs.C09
namespace Proofs.C01
open Model Model.Gen.Hashes Proofs.Lemmas Proofs.Lemmas.BitsBitVec Proofs.Lemmas.Parse Proofs.Lemmas.Compose
  Proofs.Lemmas.EndToEnd

/-! ## 1. the regenerated tables and constants are the standards' -/

/-- SHA-1/SHA-0 `self.K[r]` = FIPS 180-4 §4.2.1 K_t, and `self.ft[r]` is Ch, Parity, Maj, Parity by twenties (both versions) -/
theorem sha1_K_eq (v : Nat) : ∀ r, r < 80 → (Sha.sha1K v).getD r 0 = (Spec.Sha1.K r).toNat := Sha1.K_eq v
theorem sha1_ft_eq (v : Nat) : ∀ r, r < 80 → (Sha.sha1ftCode v).getD r 0 = Sha1.specCode r := Sha1.ftCode_eq v
/-- `SHA2(224|256).K` = FIPS 180-4 §4.2.2, `SHA2(384|512).K` = §4.2.3 -/
theorem sha256_K_eq : ∀ r, r < 64 → sha2K32.getD r 0 = (Spec.Sha2.K256.getD r 0).toNat := Sha2.K256_eq
theorem sha512_K_eq : ∀ r, r < 80 → sha2K64.getD r 0 = (Spec.Sha2.K512.getD r 0).toNat := Sha2.K512_eq
/-- `MD5().K[i]` = RFC 1321 T[i+1]; shift amounts `st[i//16][i%4]` = the s of operation i -/
theorem md5_K_eq : ∀ i, i < 64 → md5K.getD i 0 = (Spec.Md5.T.getD i 0).toNat := Md5.K_eq
theorem md5_shift_eq : ∀ i, i < 64 → Md.shiftOf md5st i = Spec.Md5.sTable.getD i 0 := Md5.shift_eq
/-- `MD4().K[r]` = 0, 5A827999, 6ED9EBA1; shift amounts = RFC 1320 §3.4 -/
theorem md4_K_eq : ∀ r, r < 3 → md4K.getD r 0 = (Md4.specK r).toNat := Md4.K_eq
theorem md4_shift_eq : ∀ i, i < 48 → Md.shiftOf md4st i = Spec.Md4.sTable.getD i 0 := Md4.shift_eq
/-- the `W.extend([W[i] for i in (…)])` tuples of `update` give the X[k] order of the RFCs' operation lists -/
theorem md4_index_schedule (X : List (BitVec 32)) (hX : X.length = 16) :
    Md.extend (X.map ofBV) md4Idx = ((List.range 48).map fun i => X.getD (Spec.Md4.kTable.getD i 0) 0).map ofBV :=
  Md4.extend_eq X hX
theorem md5_index_schedule (X : List (BitVec 32)) (hX : X.length = 16) :
    Md.extend (X.map ofBV) md5Idx = ((List.range 64).map fun i => X.getD (Spec.Md5.kTable.getD i 0) 0).map ofBV :=
  Md5.extend_eq X hX

/-- **IV_eq**: `H` after `initstate()` of every object is the standard's initial value; for SHA-512/224 and SHA-512/256
    it is the output of the FIPS 180-4 §5.3.6 IV generation function (Spec SHA-512 run in the kernel) -/
theorem IV_eq :
    md4H.map (fun v => Bits.ofNatSz v 32) = Md.embH Spec.Md4.iv ∧
    md5H.map (fun v => Bits.ofNatSz v 32) = Md.embH Spec.Md5.iv ∧
    (∀ v, (Sha.sha1IV v).map (fun x => Bits.ofNatSz x 32) = Sha1.embH Spec.Sha1.iv) ∧
    sha2H_224_0.map (fun v => Bits.ofNatSz v 32) = Sha2.embH (Spec.Sha2.stateOf Spec.Sha2.iv224) ∧
    sha2H_256_0.map (fun v => Bits.ofNatSz v 32) = Sha2.embH (Spec.Sha2.stateOf Spec.Sha2.iv256) ∧
    sha2H_384_0.map (fun v => Bits.ofNatSz v 64) = Sha2.embH (Spec.Sha2.stateOf Spec.Sha2.iv384) ∧
    sha2H_512_0.map (fun v => Bits.ofNatSz v 64) = Sha2.embH (Spec.Sha2.stateOf Spec.Sha2.iv512) ∧
    sha2H_512_224.map (fun v => Bits.ofNatSz v 64) = Sha2.embH (Spec.Sha2.ivT 224) ∧
    sha2H_512_256.map (fun v => Bits.ofNatSz v 64) = Sha2.embH (Spec.Sha2.ivT 256) :=
  ⟨Md4.iv_eq, Md5.iv_eq, Sha1.iv_eq, Instances.iv224_eq, Instances.iv256_eq, Instances.iv384_eq, Instances.iv512_eq,
   Instances.iv512_224_eq, Instances.iv512_256_eq⟩

/-- word size, block size and output length the constructors derive are those of the live objects (E1 table) -/
theorem sha2_params_eq :
    sha2Params.all (fun p => match Sha.sha2Cfg (p.getD 0 0) (p.getD 1 0) with
      | .ok c => c.wsize == p.getD 2 0 && c.blocksize == p.getD 3 0 && c.outlen == p.getD 4 0
      | .error _ => false) = true := by
  decide +kernel

/-! ## 2. the translated bit-expression lambdas equal the standards' functions on all words -/

/-- the Bits ↔ BitVec w bridge: on words of w bits the operators of crysp/bits.py and operators.py are the BitVec ones -/
theorem word_ops_refine {w : Nat} (x y : BitVec w) (n k : Nat) (hn : n ≤ w) (hk : k < 2 ^ w) :
    (ofBV x).add (ofBV y) = ofBV (x + y) ∧ (ofBV x).xor (ofBV y) = ofBV (x ^^^ y) ∧
    (ofBV x).and (ofBV y) = ofBV (x &&& y) ∧ (ofBV x).or (ofBV y) = ofBV (x ||| y) ∧
    (ofBV x).inv = ofBV (~~~x) ∧ (ofBV x).shl n = ofBV (x <<< n) ∧ (ofBV x).shr n = ofBV (x >>> n) ∧
    rol (ofBV x) n = ofBV (x.rotateLeft n) ∧ ror (ofBV x) n = ofBV (x.rotateRight n) ∧
    (ofBV x).add (Bits.ofNat k) = ofBV (x + BitVec.ofNat w k) :=
  ⟨add_ofBV x y, xor_ofBV x y, and_ofBV x y, or_ofBV x y, inv_ofBV x, shl_ofBV x n, shr_ofBV x n, rol_ofBV x n hn,
   ror_ofBV x n hn, addNat_ofBV x k hk⟩

/-- every well-formed `Bits` of size w is `ofBV` of a word, so the statements on `ofBV` cover all words the code handles -/
theorem words_are_embedded {w : Nat} (b : Bits) (hs : b.size = w) (hwf : b.WF) : ∃ x : BitVec w, b = ofBV x :=
  ⟨toBV w b, (ofBV_toBV b hs hwf).symm⟩

/-- SHA: `Ch`, `Maj`, `Parity` of sha.py (used by SHA1.ft and SHA2.update), any word size -/
theorem Ch_eq {w} (x y z : BitVec w) : Ch (ofBV x) (ofBV y) (ofBV z) = ofBV (Spec.Sha2.Ch x y z) := RoundFns.Ch_ofBV x y z
theorem Maj_eq {w} (x y z : BitVec w) : Maj (ofBV x) (ofBV y) (ofBV z) = ofBV (Spec.Sha2.Maj x y z) := RoundFns.Maj_ofBV x y z
theorem Parity_eq (x y z : BitVec 32) : Parity (ofBV x) (ofBV y) (ofBV z) = ofBV (Spec.Sha1.Parity x y z) :=
  RoundFns.sha1_Parity x y z
theorem sha1_Ch_eq (x y z : BitVec 32) : Ch (ofBV x) (ofBV y) (ofBV z) = ofBV (Spec.Sha1.Ch x y z) := RoundFns.sha1_Ch x y z
theorem sha1_Maj_eq (x y z : BitVec 32) : Maj (ofBV x) (ofBV y) (ofBV z) = ofBV (Spec.Sha1.Maj x y z) := RoundFns.sha1_Maj x y z

/-- SHA-2: Σ0, Σ1, σ0, σ1 for both word sizes (FIPS 180-4 (4.4)–(4.7), (4.10)–(4.13)) -/
theorem Sigma_sigma_eq :
    (∀ x : BitVec 32, Sigma_0_32 (ofBV x) = ofBV (Spec.Sha2.fam256.Sigma0 x)) ∧
    (∀ x : BitVec 32, Sigma_1_32 (ofBV x) = ofBV (Spec.Sha2.fam256.Sigma1 x)) ∧
    (∀ x : BitVec 32, sigma_0_32 (ofBV x) = ofBV (Spec.Sha2.fam256.sigma0 x)) ∧
    (∀ x : BitVec 32, sigma_1_32 (ofBV x) = ofBV (Spec.Sha2.fam256.sigma1 x)) ∧
    (∀ x : BitVec 64, Sigma_0_64 (ofBV x) = ofBV (Spec.Sha2.fam512.Sigma0 x)) ∧
    (∀ x : BitVec 64, Sigma_1_64 (ofBV x) = ofBV (Spec.Sha2.fam512.Sigma1 x)) ∧
    (∀ x : BitVec 64, sigma_0_64 (ofBV x) = ofBV (Spec.Sha2.fam512.sigma0 x)) ∧
    (∀ x : BitVec 64, sigma_1_64 (ofBV x) = ofBV (Spec.Sha2.fam512.sigma1 x)) :=
  ⟨RoundFns.Sigma_0_32_ofBV, RoundFns.Sigma_1_32_ofBV, RoundFns.sigma_0_32_ofBV, RoundFns.sigma_1_32_ofBV,
   RoundFns.Sigma_0_64_ofBV, RoundFns.Sigma_1_64_ofBV, RoundFns.sigma_0_64_ofBV, RoundFns.sigma_1_64_ofBV⟩

/-- MD4 f, g, h = RFC 1320 F, G, H; MD5 f, g, h, i = RFC 1321 F, G, H, I -/
theorem md4_fgh_eq (x y z : BitVec 32) :
    md4_f (ofBV x) (ofBV y) (ofBV z) = ofBV (Spec.Md4.F x y z) ∧
    md4_g (ofBV x) (ofBV y) (ofBV z) = ofBV (Spec.Md4.G x y z) ∧
    md4_h (ofBV x) (ofBV y) (ofBV z) = ofBV (Spec.Md4.H x y z) :=
  ⟨RoundFns.md4_f_ofBV x y z, RoundFns.md4_g_ofBV x y z, RoundFns.md4_h_ofBV x y z⟩
theorem md5_fghi_eq (x y z : BitVec 32) :
    md5_f (ofBV x) (ofBV y) (ofBV z) = ofBV (Spec.Md5.F x y z) ∧
    md5_g (ofBV x) (ofBV y) (ofBV z) = ofBV (Spec.Md5.G x y z) ∧
    md5_h (ofBV x) (ofBV y) (ofBV z) = ofBV (Spec.Md5.H x y z) ∧
    md5_i (ofBV x) (ofBV y) (ofBV z) = ofBV (Spec.Md5.I x y z) :=
  ⟨RoundFns.md5_f_ofBV x y z, RoundFns.md5_g_ofBV x y z, RoundFns.md5_h_ofBV x y z, RoundFns.md5_i_ofBV x y z⟩

/-! ## 3. block parsing -/

/-- **parse_refines** (SHA): `struct.unpack('>16L'|'>16Q',B)` + `Bits(w,wsize)` = sixteen big-endian words -/
theorem parse_refines_be (w : Nat) (hw : 8 ≤ w) (blk : List Spec.Byte) (h : blk.length = 16 * (w / 8)) :
    Sha.parseBE w (toNatBytes blk) = .ok ((Spec.wordsBE w blk).map ofBV) := parseBE_refines w hw blk h
/-- **parse_refines** (MD): `Bits(B,bitorder=1).split(32)` = sixteen little-endian words -/
theorem parse_refines_le (blk : List Spec.Byte) (h : blk.length = 64) :
    Md.parseLE (toNatBytes blk) = .ok ((Spec.wordsLE 32 blk).map ofBV) := Md.parseLE_refines blk h

/-! ## 4. compression: for every chaining value and every block -/

theorem md4_compress_refines (H : Spec.Md4.State) (blk : List Spec.Byte) (hb : blk.length = 64) :
    Model.Md.md4Compress (Md.embH H) (toNatBytes blk) = .ok (Md.embH (Spec.Md4.compress H blk)) :=
  Md4.compress_refines H blk hb
theorem md5_compress_refines (H : Spec.Md5.State) (blk : List Spec.Byte) (hb : blk.length = 64) :
    Model.Md.md5Compress (Md.embH H) (toNatBytes blk) = .ok (Md.embH (Spec.Md5.compress H blk)) :=
  Md5.compress_refines H blk hb
/-- version 0 = SHA-0 (no schedule rotation), version 1 = SHA-1 -/
theorem sha1_compress_refines (v : Nat) (hv : v = 0 ∨ v = 1) (H : Spec.Sha1.State) (blk : List Spec.Byte)
    (hb : blk.length = 64) :
    Sha.sha1Compress v (Sha1.embH H) (toNatBytes blk) = .ok (Sha1.embH (Spec.Sha1.compress v H blk)) :=
  Sha1.compress_refines v (by omega) H blk hb
/-- SHA-224/256 configurations -/
theorem sha256_compress_refines (c : Sha.Sha2Cfg) (h1 : c.wsize = 32) (h2 : ¬ c.size > 256) (H : Spec.Sha2.State 32)
    (blk : List Spec.Byte) (hb : blk.length = 64) :
    Sha.sha2Compress c (Sha2.embH H) (toNatBytes blk) = .ok (Sha2.embH (Spec.Sha2.compress Spec.Sha2.fam256 H blk)) :=
  Sha2.compress_refines (Sha2.link32 c h1 h2) (by decide) H blk hb
/-- SHA-384/512/512-t configurations -/
theorem sha512_compress_refines (c : Sha.Sha2Cfg) (h1 : c.wsize = 64) (h2 : c.size > 256) (H : Spec.Sha2.State 64)
    (blk : List Spec.Byte) (hb : blk.length = 128) :
    Sha.sha2Compress c (Sha2.embH H) (toNatBytes blk) = .ok (Sha2.embH (Spec.Sha2.compress Spec.Sha2.fam512 H blk)) :=
  Sha2.compress_refines (Sha2.link64 c h1 h2) (by decide) H blk hb

/-! ## 5. padding, composition, end to end -/

/-- every byte string the model is called with (values below 256) is `toNatBytes` of a specification byte string -/
theorem bytes_are_embedded (m : List Nat) (h : ∀ x ∈ m, x < 256) : ∃ M : List Spec.Byte, m = toNatBytes M := by
  refine ⟨m.map (BitVec.ofNat 8), ?_⟩
  simp only [toNatBytes, List.map_map]
  conv => lhs; rw [← List.map_id m]
  apply List.map_congr_left
  intro x hx
  simp [Nat.mod_eq_of_lt (h x hx)]

/-- **padding equality** (MD/SHA length strengthening; `bigend = true` SHA, `false` MD): in a final call on an object
    that is not yet padded and has absorbed `st.bitcnt` bits (whole blocks), no exception is raised and the blocks the
    padding iterator yields are exactly the blocks of  bits ‖ 1 ‖ 0…0 ‖ length  of the standard, for every message,
    every bit length ≤ 8|M| (or omitted), every block size 8·bl and word size w with 2w+1 ≤ 8·bl. -/
theorem padding_equality {σ : Type} (p : Padder) (w : Nat) (bigend : Bool)
    (hlb : ∀ st m kw, p.lastblock st m kw = p.mdLike st m kw w 1 none bigend)
    (bl ll : Nat) (hB : p.blocksize = 8 * bl) (hbl : 0 < bl) (hw : w * 2 = 8 * ll) (hfit : w * 2 + 1 ≤ p.blocksize)
    (h : Spec.MDHash σ) (h1 : h.blockLen = bl) (h2 : h.lenLen = ll)
    (h3 : ∀ l, toNatBytes (h.encLen l) = (Bits.ofNatSz l (w * 2)).pack bigend) (h4 : ∀ l, (h.encLen l).length = ll)
    (st : PadState) (hpf : st.padflag = false) (hdone : st.bitcnt % p.blocksize = 0)
    (M : List Spec.Byte) (kw : Option Nat) (hkw : ∀ l, kw = some l → l ≤ 8 * M.length) :
    (p.iterblocks st (toNatBytes M) kw true).err = none ∧
    (p.iterblocks st (toNatBytes M) kw true).yields.map (·.1) =
      (Spec.groups bl (h.padFrom st.bitcnt ((Spec.bytesToBits M).take (kw.getD (8 * M.length))))).map toNatBytes :=
  PadOk.padOk_core p w bigend hlb bl ll hB hbl hw hfit h h1 h2 h3 h4 st hpf hdone M kw hkw

/-- **the generic Merkle–Damgård composition lemma** (instantiated ten times in `hash_refines`): IV, compression and
    serialisation refine the standard's + the yielded blocks are the standard's padded blocks ⇒ the one-shot call
    returns the standard's hash -/
theorem merkle_damgard_composition {σ : Type} {c : HashCore} {h : Spec.MDHash σ} {emb : σ → List Bits}
    (R : Refines c h emb) (M : List Spec.Byte) (L : Option Nat) (bits : List Bool) (hp : PadOk c h {} 0 M L bits) :
    c.hash (toNatBytes M) L = .ok (toNatBytes (h.hash bits)) :=
  hash_of_refines R M L bits hp

/-- **hash_refines.**  For every one of the ten algorithms, every byte string M and every bit length 0 < L ≤ 8|M|:
    the one-shot call `h(M,L)` of the library's object returns exactly the digest RFC 1320 / RFC 1321 / FIPS 180-4 define for
    the first L bits of M. -/
theorem hash_refines (alg : Model.Alg) (M : List Spec.Byte) (L : Nat) (_h0 : 0 < L) (hL : L ≤ 8 * M.length) :
    Model.hash alg (toNatBytes M) (some L) = .ok (toNatBytes (Spec.hash (toSpec alg) (Spec.takeBits L M))) :=
  hash_eq alg M (some L) (fun l hl => by cases hl; exact hL)

/-- …and with the bit length omitted (L = 8|M|): the digest of the whole byte string, the empty string included -/
theorem hash_refines_omitted (alg : Model.Alg) (M : List Spec.Byte) :
    Model.hash alg (toNatBytes M) none = .ok (toNatBytes (Spec.hash (toSpec alg) (Spec.bytesToBits M))) := by
  have := hash_eq alg M none (fun l hl => by cases hl)
  rw [this]
  simp only [Option.getD_none]
  rw [List.take_of_length_le (by rw [SpecList.bytesToBits_length]; exact Nat.le_refl _)]

/-- **digest_length**: every accepted call returns a digest of exactly the advertised length -/
theorem digest_length (alg : Model.Alg) (M : List Spec.Byte) (L : Option Nat) (hL : ∀ l, L = some l → l ≤ 8 * M.length) :
    ∃ d, Model.hash alg (toNatBytes M) L = .ok d ∧ d.length = alg.outlen := by
  refine ⟨_, hash_eq alg M L hL, ?_⟩
  rw [toNatBytes_length, spec_length]

/-- **bitlen_too_large**: a bit length larger than the supplied data is rejected with an error -/
theorem bitlen_too_large (alg : Model.Alg) (M : List Nat) (L : Nat) (hL : L > 8 * M.length) :
    ∃ e, Model.hash alg M (some L) = .error e :=
  too_large alg M L hL

/-- **streamed_bitlen_too_large**: the streaming form of `bitlen_too_large`.  `update(M, bitlen=L, padding=…)` with a bit
    length larger than the data supplied IN THAT CALL is refused from ANY object state — any chaining value, any padding
    state, in particular after any number of blocks were fed by earlier `update` calls (the bits fed before do not count
    towards the data of this call) — and the refusal leaves the object exactly as it was (no block absorbed, counter, pad
    flag and chaining value untouched), so the piece can be sent again with its true length.  Generic in the hash core,
    hence for the ten algorithms; it is the padding iterator's refusal (`Proofs.C09.refuse_bitlen_beyond`) seen through
    the `for` loop of `update`. -/
theorem streamed_bitlen_too_large (c : HashCore) (o : HashObj) (M : List Nat) (L : Nat) (padding : Bool)
    (hL : L > 8 * M.length) :
    (∃ e, (c.update o M (some L) padding).2 = .error e) ∧ (c.update o M (some L) padding).1 = o := by
  obtain ⟨hy, he, hf⟩ := Proofs.C09.refuse_bitlen_beyond c.padder o.pad M L padding hL
  obtain ⟨e, hee⟩ := Option.isSome_iff_exists.mp he
  refine ⟨⟨e, ?_⟩, ?_⟩ <;> simp only [HashCore.update, hy, HashCore.absorb, hee, hf]

/-- …for the objects of the library: after `initstate(); update(p1); …; update(pk)` with block-aligned pieces (any number
    of blocks fed) the final `update(q, bitlen=L, padding=True)` with L > 8|q| is refused — also when L ≤ bits fed + 8|q| -/
theorem streamed_bitlen_too_large_after_pieces (alg : Model.Alg) (c : HashCore) (_hc : alg.new = .ok c)
    (pieces : List (List Nat)) (q : List Nat) (L : Nat) (hL : L > 8 * q.length) :
    ∃ e, (c.update (pieces.foldl (fun o P => (c.update o P none false).1) c.initstate) q (some L) true).2 = .error e :=
  (streamed_bitlen_too_large c _ q L true hL).1

/-- **final_update_refines** (bit counters of any size): a final `update(M,bitlen,padding=True)` on an object that holds a
    standard chaining value `s` and whose counter says that `st.bitcnt` bits (whole blocks, any number — in particular
    more than 2^32 or 2^64) were absorbed returns the standard's digest continued from `s`: the tail padded with the
    *total* length `st.bitcnt + L` in the length field.  (`hash_refines` is the case s = IV, counter 0.) -/
theorem final_update_refines (alg : Model.Alg) :
    ∃ (c : HashCore) (σ : Type) (h : Spec.MDHash σ) (emb : σ → List Bits),
      alg.new = .ok c ∧ Spec.hash (toSpec alg) = h.hash ∧ c.iv = emb h.init ∧
      ∀ (s : σ) (st : PadState), st.padflag = false → st.bitcnt % (8 * alg.blocklen) = 0 →
        ∀ (M : List Spec.Byte) (kw : Option Nat), (∀ l, kw = some l → l ≤ 8 * M.length) →
          (c.update ⟨emb s, st⟩ (toNatBytes M) kw true).2
            = .ok (toNatBytes (h.hashFrom s st.bitcnt ((Spec.bytesToBits M).take (kw.getD (8 * M.length))))) := by
  obtain ⟨c, hc, σ, h, emb, w, B, ll, bigend, R, F, hs⟩ := StreamingAlgs.alg_cases alg
  refine ⟨c, σ, h, emb, hc, hs, R.iv, ?_⟩
  intro s st hpf hdone M kw hkw
  exact update_final R s st st.bitcnt M kw _ (Streaming.padOk_of_framing F st hpf (by rw [F.hB]; exact hdone) M kw hkw)

/-! ## 6. one object, several messages -/

/-- **call_forgets_the_object.**  `h(M,bitlen)` on an object in ANY state `o` — any chaining value, any padding state
    (pad flag, bit counter, buffered count: after earlier calls, refused calls, streaming updates left dangling, finished
    streaming digests) — returns what the one-shot call on a new object returns, and leaves the object in the state a
    new object would be left in: `__call__` starts with `initstate()`, which rebuilds `H` and the padding object. -/
theorem call_forgets_the_object (alg : Model.Alg) (c : HashCore) (hc : alg.new = .ok c) (o : HashObj)
    (M : List Nat) (L : Option Nat) :
    (c.call o M L).2 = Model.hash alg M L ∧ c.call o M L = c.call c.initstate M L := by
  refine ⟨?_, rfl⟩
  simp only [Model.hash, hc, HashCore.hash, HashCore.call]
  rfl

/-- **second_call_refines** (the statement the `hashcalls` lines of the correspondence stream echo): on one object of any
    of the ten algorithms, after a first call `h(M1,L1)` (accepted or refused — `L1` is unconstrained) from any state,
    or after a streaming `update(M1,L1,padding)` left as it is, the call `h(M2,L2)` with 0 < L2 ≤ 8|M2| returns the
    standard's digest of the first L2 bits of M2 alone. -/
theorem second_call_refines (alg : Model.Alg) (c : HashCore) (hc : alg.new = .ok c) (o : HashObj)
    (M1 : List Nat) (L1 : Option Nat) (padding : Bool) (M2 : List Spec.Byte) (L2 : Nat) (h0 : 0 < L2) (hL : L2 ≤ 8 * M2.length) :
    (c.call (c.call o M1 L1).1 (toNatBytes M2) (some L2)).2 = .ok (toNatBytes (Spec.hash (toSpec alg) (Spec.takeBits L2 M2))) ∧
    (c.call (c.update o M1 L1 padding).1 (toNatBytes M2) (some L2)).2 = .ok (toNatBytes (Spec.hash (toSpec alg) (Spec.takeBits L2 M2))) :=
  ⟨((call_forgets_the_object alg c hc _ _ _).1).trans (hash_refines alg M2 L2 h0 hL),
   ((call_forgets_the_object alg c hc _ _ _).1).trans (hash_refines alg M2 L2 h0 hL)⟩

/-- …and with the bit length of the second call omitted -/
theorem second_call_refines_omitted (alg : Model.Alg) (c : HashCore) (hc : alg.new = .ok c) (o : HashObj) (M2 : List Spec.Byte) :
    (c.call o (toNatBytes M2) none).2 = .ok (toNatBytes (Spec.hash (toSpec alg) (Spec.bytesToBits M2))) :=
  ((call_forgets_the_object alg c hc _ _ _).1).trans (hash_refines_omitted alg M2)

/-! non-vacuity: the hypotheses are inhabited by non-trivial instances, and the specifications are not degenerate
    (FIPS 180-4 / RFC 1321 test vector "abc", evaluated in the kernel) -/
example : ∃ (M : List Spec.Byte) (L : Nat), 0 < L ∧ L ≤ 8 * M.length ∧ L % 8 ≠ 0 := ⟨[0xa5#8, 0x80#8], 9, by decide⟩
example : ∃ (M : List Nat) (L : Nat), L > 8 * M.length := ⟨[1, 2], 17, by decide⟩
/-- the streamed refusal is not vacuous: a length that would be in range if it counted from the first bit ever fed
    (512 bits fed + 24 bits of data ≥ 32) but exceeds the data of the call -/
example : ∃ (fed : Nat) (M : List Nat) (L : Nat), L > 8 * M.length ∧ L ≤ fed + 8 * M.length := ⟨512, [0x61, 0x62, 0x63], 32, by decide⟩
example : toNatBytes (Spec.hash .sha256 (Spec.bytesToBits [0x61#8, 0x62#8, 0x63#8])) =
    [0xba, 0x78, 0x16, 0xbf, 0x8f, 0x01, 0xcf, 0xea, 0x41, 0x41, 0x40, 0xde, 0x5d, 0xae, 0x22, 0x23,
     0xb0, 0x03, 0x61, 0xa3, 0x96, 0x17, 0x7a, 0x9c, 0xb4, 0x10, 0xff, 0x61, 0xf2, 0x00, 0x15, 0xad] := by decide +kernel
example : toNatBytes (Spec.hash .md5 (Spec.bytesToBits [0x61#8, 0x62#8, 0x63#8])) =
    [0x90, 0x01, 0x50, 0x98, 0x3c, 0xd2, 0x4f, 0xb0, 0xd6, 0x96, 0x3f, 0x7d, 0x28, 0xe1, 0x7f, 0x72] := by decide +kernel
/-- the object states `call_forgets_the_object` quantifies over include non-initial ones that really occur: after
    `MD5()(b"abc")` the object is padded and its counter stands at 24 bits (the state a padding object that is not rebuilt
    would carry into the next message), and every algorithm has a constructor result to apply the theorem to -/
example : (Md.md5Core.call Md.md5Core.initstate [0x61, 0x62, 0x63] none).1.pad = { padflag := true, bitcnt := 24, padcnt := 0 } ∧
    (Md.md5Core.call Md.md5Core.initstate [0x61, 0x62, 0x63] none).1 ≠ Md.md5Core.initstate := by
  have h : (Md.md5Core.call Md.md5Core.initstate [0x61, 0x62, 0x63] none).1.pad = { padflag := true, bitcnt := 24, padcnt := 0 } := by
    decide +kernel
  refine ⟨h, fun e => ?_⟩
  rw [e] at h
  exact absurd h (by decide)
example : ∀ alg : Model.Alg, ∃ c, alg.new = .ok c := fun alg => by
  obtain ⟨c, hc, _⟩ := StreamingAlgs.alg_cases alg
  exact ⟨c, hc⟩

end Proofs.C01
