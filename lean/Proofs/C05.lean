/-
  C05 — ECB/CBC/CTR/CTS modes follow SP 800-38A and decrypt what they encrypt.
  ONLY property theorems (and their non-vacuity examples) live here; helper lemmas are in Proofs/Lemmas/Mode*.lean.

  Setting.  `Model.Mode` mirrors crysp/mode.py over a block cipher object `c : Model.BlockCipher` (any object with
  blocksize/enc/dec).  `Implements c k` (Proofs/Lemmas/ModeL.lean) says that on byte blocks of c.len bytes `c.enc`/`c.dec`
  return the values of the total functions `k.E`/`k.D` of the Spec cipher `k`, that these map byte blocks to byte blocks
  and are mutually inverse.
    Part 1 (abstract cipher): every theorem holds for every `c`, `k` with `Implements c k`.
    Part 2 (the library): `aes_implements`, `des_implements`, `tdea_implements`, `serpent_implements`, `threefish_implements`
  PROVE `Implements` for `AES(K)`, `DES(K)`, `TDEA(K1,K2,K3)`, `Serpent(K)`, `Threefish(K,T)` against FIPS 197 / FIPS 46-3 /
  SP 800-67 / the Serpent submission / Skein 1.3 section 3.3, every accepted key (and tweak), by composing the C03
  (permutation) and C02 (refinement) theorems of each cipher; `lib_ecb … lib_cts_dec` restate the property for
  `LibCipher c k` with no hypothesis on the cipher left (block lengths 8, 16 and — Threefish — 32, 64, 128 bytes; the default
  counter then has halves of 4, 8, 16, 32, 64 bytes).
    Part 3: Spec.ModePad = Spec.Padding (property C09) on byte strings.  Proofs/C05/KatF.lean: SP 800-38A appendix F vectors
  through Spec.Mode over Spec.Aes, in the kernel.
  `Bytes M`: all elements < 256 (M is a Python `bytes`).  `PadDom s l M`: the admissible (padding, message) pairs:
  PKCS#7 / X9.23 need l < 256, no padding needs a non-empty block multiple.  `CtrDom l iv`: the counter argument is an
  l-byte string, or None with an even block length (the default counter is two halves of ⌊l/2⌋ bytes).
-/
import Proofs.Lemmas.ModeCts
import Proofs.Lemmas.ModeCounter
import Proofs.Lemmas.ModeSeq
import Proofs.Lemmas.ModeObjL
import Proofs.Lemmas.ModeCtsSpec
import Proofs.Lemmas.ModeCtsInv
import Proofs.Lemmas.ModeToy
import Proofs.Lemmas.ModeInst
import Proofs.Lemmas.ModePadTie
namespace Proofs.C05
open Model Model.Mode Proofs.Lemmas.ModeL Proofs.Lemmas.ModeInst

variable {c : BlockCipher} {k : Spec.Mode.Cipher}

/-! ### SP 800-38A equalities -/

/-- ECB.enc is the SP 800-38A ECB encryption of the padded message -/
theorem ecb_spec (h : Implements c k) (s : Spec.ModePad.Scheme) (M : List Nat) (hM : Bytes M) (hd : PadDom s c.len M) :
    ECB.enc c (toModel s) M = .ok (Spec.Mode.ecb k s M) :=
  ecb_enc_of h s M (padFacts s c.len h.len_pos M hd hM)

/-- CBC.enc is the IV followed by the SP 800-38A CBC chain of the padded message -/
theorem cbc_spec (h : Implements c k) (iv : List Nat) (hiv : IsBlock c.len iv) (s : Spec.ModePad.Scheme) (M : List Nat)
    (hM : Bytes M) (hd : PadDom s c.len M) :
    CBC.enc c iv (toModel s) M = .ok (Spec.Mode.cbc k iv s M) :=
  cbc_enc_of h iv hiv s M (padFacts s c.len h.len_pos M hd hM)

/-- CTR.enc with the default counter is SP 800-38A CTR with the counter blocks
    T_j = nonce ‖ BE((count0 + j) mod 2^(8·(len − ⌊len/2⌋))): the nonce is the first ⌊len/2⌋ bytes of the initial counter
    block (all zero when no counter is given), the running half wraps inside itself -/
theorem ctr_spec (h : Implements c k) (iv : Option (List Nat)) (hiv : CtrDom c.len iv) (M : List Nat) :
    CTR.enc c iv M = .ok (Spec.Mode.ctr k (iv.getD (List.replicate c.len 0)) M) :=
  ctr_enc_spec h iv hiv M

/-- CTS_ECB.enc is ECB with ciphertext stealing (a block multiple is plain ECB) -/
theorem cts_ecb_spec (h : Implements c k) (M : List Nat) (hM : Bytes M) (hlen : c.len ≤ M.length) :
    CTS_ECB.enc c .no M = .ok (Spec.Mode.ecbCts k M) :=
  cts_ecb_enc_spec h M hM hlen

/-- CTS_CBC.enc is the IV followed by CBC-CS2 of the SP 800-38A addendum (last two blocks swapped iff the last one is partial) -/
theorem cts_cbc_spec (h : Implements c k) (iv : List Nat) (hiv : IsBlock c.len iv) (M : List Nat) (hM : Bytes M)
    (hlen : c.len ≤ M.length) : CTS_CBC.enc c iv .no M = .ok (Spec.Mode.cbcCts k iv M) :=
  cts_cbc_enc_spec h iv hiv M hM hlen

/-- CTS_ECB.dec computes the Spec inverse (ECB-CTS decryption over CIPH⁻¹) on EVERY byte string of at least one block,
    not only on the ciphertexts `enc` produces -/
theorem cts_ecb_dec_spec (h : Implements c k) (C : List Nat) (hC : Bytes C) (hlen : c.len ≤ C.length) :
    CTS_ECB.dec c .no C = .ok (Spec.Mode.ecbCtsInv k C) :=
  Proofs.Lemmas.ModeL.cts_ecb_dec_spec h C hC hlen

/-- CTS_CBC.dec computes CBC-CS2-Decrypt of the SP 800-38A addendum, with the first block of the input as IV, on EVERY byte
    string of at least two blocks (the IV the object was built with is not used by `dec`; it only has to be one block long) -/
theorem cts_cbc_dec_spec (h : Implements c k) (iv : List Nat) (hiv : iv.length = c.len) (C : List Nat) (hC : Bytes C)
    (hlen : 2 * c.len ≤ C.length) : CTS_CBC.dec c iv .no C = .ok (Spec.Mode.cbcCtsInv k C) :=
  Proofs.Lemmas.ModeL.cts_cbc_dec_spec h iv hiv C hC hlen

/-- at the level of the specification alone: ECB-CTS decryption and CBC-CS2 decryption (IV in front) undo the
    corresponding encryptions, for every cipher function pair (E, D) = `k` that a model cipher implements — in particular
    FIPS 197, FIPS 46-3, SP 800-67, Serpent and Threefish with every key (`lib_implements`) -/
theorem cts_spec_inverse (h : Implements c k) :
    (∀ M, Bytes M → c.len ≤ M.length → Spec.Mode.ecbCtsInv k (Spec.Mode.ecbCts k M) = M) ∧
    (∀ iv M, IsBlock c.len iv → Bytes M → c.len ≤ M.length → Spec.Mode.cbcCtsInv k (Spec.Mode.cbcCts k iv M) = M) :=
  ⟨fun M hM hl => ecbCtsInv_ecbCts h M hM hl, fun iv M hiv hM hl => cbcCtsInv_cbcCts h iv hiv M hM hl⟩

/-! ### decryption inverts encryption (with an equally configured object in any padding state `st`) -/

theorem ecb_dec_enc (h : Implements c k) (s : Spec.ModePad.Scheme) (M : List Nat) (hM : Bytes M) (hd : PadDom s c.len M)
    (st : PadState) :
    (ECB.enc c (toModel s) M).bind (fun C => ECB.dec c (toModel s) C st) = .ok M := by
  rw [ecb_spec h s M hM hd]
  exact ecb_dec_of h s M (padFacts s c.len h.len_pos M hd hM) st

theorem cbc_dec_enc (h : Implements c k) (iv : List Nat) (hiv : IsBlock c.len iv) (s : Spec.ModePad.Scheme) (M : List Nat)
    (hM : Bytes M) (hd : PadDom s c.len M) (st : PadState) :
    (CBC.enc c iv (toModel s) M).bind (fun C => CBC.dec c iv (toModel s) C st) = .ok M := by
  rw [cbc_spec h iv hiv s M hM hd]
  exact cbc_dec_of h iv hiv s M (padFacts s c.len h.len_pos M hd hM) st

/-- CTR: every message length, every admissible counter argument -/
theorem ctr_dec_enc (h : Implements c k) (iv : Option (List Nat)) (hiv : CtrDom c.len iv) (M : List Nat) :
    (CTR.enc c iv M).bind (CTR.dec c iv) = .ok M := by
  obtain ⟨d, hd, _, hT, he⟩ := ctr_enc_keystream h iv hiv M
  have hks : ∀ n, (keystream k (modelT d) 0 n).length = n * c.len :=
    fun n => keystream_length k (modelT d) c.len (fun i => (h.E_block _ (hT i)).1) n 0
  have hle : M.length ≤ (keystream k (modelT d) 0 ((M.length - 1) / c.len + 1)).length := by
    rw [hks]
    obtain ⟨h1, h2, _, _, _⟩ := last_piece M.length c.len h.len_pos
    rw [Nat.succ_mul]; omega
  have hlen : (xorstr M (keystream k (modelT d) 0 ((M.length - 1) / c.len + 1))).length = M.length := by
    rw [xor_length]; exact Nat.min_eq_left hle
  obtain ⟨d', hd', _, _, he'⟩ := ctr_enc_keystream h iv hiv (xorstr M (keystream k (modelT d) 0 ((M.length - 1) / c.len + 1)))
  have : d' = d := by rw [hd] at hd'; cases hd'; rfl
  subst this
  rw [he]
  simp only [Except.bind, CTR.dec, he', hlen]
  rw [xor_length, Nat.min_eq_left (by rw [hlen]; exact hle), hlen, if_neg (by simp), xor_cancel_right _ _ hle]

theorem cts_ecb_dec_enc (h : Implements c k) (M : List Nat) (hM : Bytes M) (hlen : c.len ≤ M.length) :
    (CTS_ECB.enc c .no M).bind (CTS_ECB.dec c .no) = .ok M := by
  obtain ⟨C, he, _, hd⟩ := cts_ecb_all h M hM hlen
  rw [he]; exact hd

theorem cts_cbc_dec_enc (h : Implements c k) (iv : List Nat) (hiv : IsBlock c.len iv) (M : List Nat) (hM : Bytes M)
    (hlen : c.len ≤ M.length) :
    (CTS_CBC.enc c iv .no M).bind (CTS_CBC.dec c iv .no) = .ok M := by
  obtain ⟨C, he, _, _, hd⟩ := cts_cbc_all h iv hiv M hM hlen
  rw [he]; exact hd

/-- the same, from the permutation hypotheses stated on the model cipher alone: on byte blocks `enc`/`dec` succeed, return
    byte blocks and invert each other (`dec (enc b) = b`, `enc (dec b) = b`).  This is the form in which C03 delivers
    its results; for AES, DES, TDEA, Serpent and Threefish the instantiation is carried out below (`lib_*`). -/
theorem dec_enc_of_permutation (c : BlockCipher) (hpos : 0 < c.len)
    (henc : ∀ b, IsBlock c.len b → ∃ y, c.enc b = .ok y ∧ IsBlock c.len y ∧ c.dec y = .ok b)
    (hdec : ∀ y, IsBlock c.len y → ∃ b, c.dec y = .ok b ∧ IsBlock c.len b ∧ c.enc b = .ok y) :
    (∀ s M st, Bytes M → PadDom s c.len M → (ECB.enc c (toModel s) M).bind (fun C => ECB.dec c (toModel s) C st) = .ok M) ∧
    (∀ iv s M st, IsBlock c.len iv → Bytes M → PadDom s c.len M →
      (CBC.enc c iv (toModel s) M).bind (fun C => CBC.dec c iv (toModel s) C st) = .ok M) ∧
    (∀ iv M, CtrDom c.len iv → (CTR.enc c iv M).bind (CTR.dec c iv) = .ok M) ∧
    (∀ M, Bytes M → c.len ≤ M.length → (CTS_ECB.enc c .no M).bind (CTS_ECB.dec c .no) = .ok M) ∧
    (∀ iv M, IsBlock c.len iv → Bytes M → c.len ≤ M.length → (CTS_CBC.enc c iv .no M).bind (CTS_CBC.dec c iv .no) = .ok M) := by
  have h := implements_of_model c hpos henc hdec
  exact ⟨fun s M st hM hd => ecb_dec_enc h s M hM hd st, fun iv s M st hiv hM hd => cbc_dec_enc h iv hiv s M hM hd st,
    fun iv M hiv => ctr_dec_enc h iv hiv M, fun M hM hl => cts_ecb_dec_enc h M hM hl,
    fun iv M hiv hM hl => cts_cbc_dec_enc h iv hiv M hM hl⟩

/-! ### length laws -/

/-- |CTR.enc(M)| = |M| -/
theorem ctr_length (h : Implements c k) (iv : Option (List Nat)) (hiv : CtrDom c.len iv) (M : List Nat) :
    ∃ C, CTR.enc c iv M = .ok C ∧ C.length = M.length := by
  obtain ⟨d, _, _, hT, he⟩ := ctr_enc_keystream h iv hiv M
  refine ⟨_, he, ?_⟩
  rw [xor_length, keystream_length k (modelT d) c.len (fun i => (h.E_block _ (hT i)).1)]
  obtain ⟨h1, h2, _, _, _⟩ := last_piece M.length c.len h.len_pos
  apply Nat.min_eq_left
  rw [Nat.succ_mul]; omega

/-- |CTS_ECB.enc(M)| = |M| -/
theorem cts_ecb_length (h : Implements c k) (M : List Nat) (hM : Bytes M) (hlen : c.len ≤ M.length) :
    ∃ C, CTS_ECB.enc c .no M = .ok C ∧ C.length = M.length := by
  obtain ⟨C, he, hl, _⟩ := cts_ecb_all h M hM hlen
  exact ⟨C, he, hl⟩

/-- |CTS_CBC.enc(M)| = |M| + len, and the output starts with the IV -/
theorem cts_cbc_length (h : Implements c k) (iv : List Nat) (hiv : IsBlock c.len iv) (M : List Nat) (hM : Bytes M)
    (hlen : c.len ≤ M.length) :
    ∃ C, CTS_CBC.enc c iv .no M = .ok C ∧ C.length = M.length + c.len ∧ C.take c.len = iv := by
  obtain ⟨C, he, hl, hiv', _⟩ := cts_cbc_all h iv hiv M hM hlen
  exact ⟨C, he, hl, hiv'⟩

/-- |ECB.enc(M)| = |pad(M)|: the next block multiple above |M| with a padding scheme, |M| itself without -/
theorem ecb_length (h : Implements c k) (s : Spec.ModePad.Scheme) (M : List Nat) (hM : Bytes M) (hd : PadDom s c.len M) :
    ∃ C, ECB.enc c (toModel s) M = .ok C ∧ C.length = if s = .none then M.length else (M.length / c.len + 1) * c.len :=
  ⟨_, ecb_spec h s M hM hd, by
    rw [ecb_length_of h s M (padFacts s c.len h.len_pos M hd hM), pad_length s c.len h.len_pos M]⟩

/-- |CBC.enc(M)| = |pad(M)| + len, and the output starts with the IV -/
theorem cbc_length (h : Implements c k) (iv : List Nat) (hiv : IsBlock c.len iv) (s : Spec.ModePad.Scheme) (M : List Nat)
    (hM : Bytes M) (hd : PadDom s c.len M) :
    ∃ C, CBC.enc c iv (toModel s) M = .ok C ∧ C.take c.len = iv ∧
      C.length = (if s = .none then M.length else (M.length / c.len + 1) * c.len) + c.len :=
  ⟨_, cbc_spec h iv hiv s M hM hd, List.take_left' hiv.1, by
    rw [cbc_length_of h iv hiv s M (padFacts s c.len h.len_pos M hd hM), pad_length s c.len h.len_pos M]⟩

/-! ### rejected configurations / ciphertexts -/

/-- an IV that is not one block long is refused (the constructor's assert) -/
theorem cbc_rejects_iv (iv : List Nat) (s : Scheme) (M : List Nat) (hiv : iv.length ≠ c.len) :
    ∃ e, CBC.enc c iv s M = .error e := by
  unfold CBC.enc
  cases mkPad c s with
  | error e => exact ⟨e, rfl⟩
  | ok p => exact ⟨"AssertionError", by simp [hiv]⟩

/-- ECB/CBC decryption refuses a ciphertext that is not a whole number of blocks -/
theorem ecb_dec_rejects_length (s : Scheme) (C : List Nat) (st : PadState) (hC : C.length % c.len ≠ 0) :
    ∃ e, ECB.dec c s C st = .error e := by
  unfold ECB.dec
  cases mkPad c s with
  | error e => exact ⟨e, rfl⟩
  | ok p => exact ⟨"AssertionError", by simp [hC]⟩

theorem cbc_dec_rejects_length (iv : List Nat) (s : Scheme) (C : List Nat) (st : PadState) (hC : C.length % c.len ≠ 0) :
    ∃ e, CBC.dec c iv s C st = .error e := by
  unfold CBC.dec
  cases mkPad c s with
  | error e => exact ⟨e, rfl⟩
  | ok p =>
    by_cases hiv : iv.length = c.len
    · exact ⟨"AssertionError", by simp [hiv, hC]⟩
    · exact ⟨"AssertionError", by simp [hiv]⟩

/-- a counter string that is not one block long is refused -/
theorem ctr_rejects_counter (iv M : List Nat) (hiv : iv.length ≠ c.len) : ∃ e, CTR.enc c (some iv) M = .error e := by
  unfold CTR.enc
  cases mkPad c .no with
  | error e => exact ⟨e, rfl⟩
  | ok p => exact ⟨"AssertionError", by simp [DefaultCounter.new, hiv]⟩

/-! ### one CTR object used again and again

  `Model.Mode.CTR.Obj` is what a `CTR` object keeps between calls (`self.counter` = bytesize / nonce / count0, and that
  counter's running `count`); `Obj.step` is one public call — `enc`, `dec`, `counter.setup(nonce,count)`,
  `obj.counter = DefaultCounter(obj.len[,iv])`, `counter.reset()`, `counter()` — and `Obj.run` a history of them.  The
  correspondence stream (`ctrseq` lines) drives the real object and this machine through the same histories. -/

/-- HISTORY INDEPENDENCE of the key stream: what `obj.enc(M)` / `obj.dec(M)` return depends on the cipher, on the counter
    block in force (`obj.counter.nonce`, `obj.counter.count0`) and on M — on nothing else the object holds or has done.  Two
    objects in ANY two states that agree on these two attributes answer alike -/
theorem ctr_history_independent (c : BlockCipher) (o₁ o₂ : CTR.Obj) (M : List Nat)
    (hn : o₁.counter.nonce = o₂.counter.nonce) (hc : o₁.counter.count0 = o₂.counter.count0) :
    (o₁.enc c M).1 = (o₂.enc c M).1 ∧ (o₁.dec c M).1 = (o₂.dec c M).1 := by
  have e := encWith_congr c o₁.counter o₂.counter hn hc M
  exact ⟨by rw [obj_enc_fst, obj_enc_fst, e], by rw [obj_dec_fst, obj_dec_fst, e]⟩

/-- … in particular after any two histories of public calls, from any two starting objects: if they leave the same counter
    block in force, the next `enc(M)` (and `dec(M)`) of the two objects return the same -/
theorem ctr_step_depends_only_on_counter (c : BlockCipher) (o₁ o₂ : CTR.Obj) (h₁ h₂ : List CTR.Step) (M : List Nat)
    (hn : (CTR.Obj.run c o₁ h₁).2.counter.nonce = (CTR.Obj.run c o₂ h₂).2.counter.nonce)
    (hc : (CTR.Obj.run c o₁ h₁).2.counter.count0 = (CTR.Obj.run c o₂ h₂).2.counter.count0) :
    (CTR.Obj.run c o₁ (h₁ ++ [.enc M])).1.getLast? = (CTR.Obj.run c o₂ (h₂ ++ [.enc M])).1.getLast? ∧
    (CTR.Obj.run c o₁ (h₁ ++ [.dec M])).1.getLast? = (CTR.Obj.run c o₂ (h₂ ++ [.dec M])).1.getLast? := by
  obtain ⟨e1, e2⟩ := ctr_history_independent c _ _ M hn hc
  simp only [run_append, CTR.Obj.run, CTR.Obj.step, List.getLast?_append, List.getLast?_singleton, Option.some_or, e1, e2,
    and_self]

/-- the route `obj.counter.setup(nonce,count)`: after ANY history on ANY object, setup and then `enc(M)` return what the
    first call on a new object `CTR(cipher, nonce ‖ count)` returns (nonce = the first ⌊len/2⌋ bytes of the block) -/
theorem ctr_after_setup (c : BlockCipher) (o : CTR.Obj) (hist : List CTR.Step) (nonce count M : List Nat)
    (hn : nonce.length = c.len / 2) (hl : nonce.length + count.length = c.len) :
    (CTR.Obj.run c o (hist ++ [.setup (some nonce) (some count), .enc M])).1.getLast?
      = some (.bytes (CTR.enc c (some (nonce ++ count)) M)) := by
  have hd : DefaultCounter.new c.len (some (nonce ++ count)) = .ok ⟨c.len, nonce, count⟩ := by
    simp [DefaultCounter.new, hl, ← hn]
  simp only [run_append, CTR.Obj.run, CTR.Obj.step, List.getLast?_append, List.getLast?_cons_cons, List.getLast?_singleton,
    Option.some_or, obj_enc_fst, ← encWith_new c _ _ hd M]
  rw [encWith_congr c ((CTR.Obj.run c o hist).2.counter.setup (some nonce) (some count)) ⟨c.len, nonce, count⟩ rfl rfl]

/-- the route `obj.counter = DefaultCounter(obj.len[,iv])`: after ANY history, the assignment and then `enc(M)` return what
    the first call on a new object `CTR(cipher[,iv])` returns -/
theorem ctr_after_assign (c : BlockCipher) (o : CTR.Obj) (hist : List CTR.Step) (iv : Option (List Nat)) (M : List Nat)
    (hiv : ∀ v, iv = some v → v.length = c.len) :
    (CTR.Obj.run c o (hist ++ [.assign iv, .enc M])).1.getLast? = some (.bytes (CTR.enc c iv M)) := by
  obtain ⟨d, hd⟩ : ∃ d, DefaultCounter.new c.len iv = .ok d := by
    cases iv with
    | none => exact ⟨_, rfl⟩
    | some v => exact ⟨⟨c.len, v.take (c.len / 2), v.drop (c.len / 2)⟩, by simp [DefaultCounter.new, hiv v rfl]⟩
  simp only [run_append, CTR.Obj.run, CTR.Obj.step, hd, List.getLast?_append, List.getLast?_cons_cons, List.getLast?_singleton,
    Option.some_or, obj_enc_fst, encWith_new c _ _ hd M]

/-- `enc`, `dec`, `counter.reset()` and `counter()` leave the counter block in force as it is -/
theorem ctr_calls_keep_counter (c : BlockCipher) (o : CTR.Obj) (M : List Nat) :
    (o.step c (.enc M)).2.counter = o.counter ∧ (o.step c (.dec M)).2.counter = o.counter ∧
    (o.step c .reset).2.counter = o.counter ∧ (o.step c .call).2.counter = o.counter := by
  have he : ∀ X, (o.enc c X).2.counter = o.counter := by
    intro X
    unfold CTR.Obj.enc
    cases mkPad c .no with
    | error e => rfl
    | ok p =>
      simp only
      cases (ctrRun c o.counter o.counter.reset (iter p X).1).1 with
      | error e => rfl
      | ok C => cases (iter p X).2 <;> rfl
  refine ⟨he M, ?_, rfl, ?_⟩
  · simp only [CTR.Obj.step, CTR.Obj.dec]
    cases (o.enc c M).1 with
    | error e => exact he M
    | ok P => by_cases hp : P.length ≠ M.length <;> simp [hp, he M]
  · simp only [CTR.Obj.step]
    cases o.count <;> rfl

/-- SP 800-38A at every step: in ANY state of the object whose nonce ‖ count0 is a byte block of the cipher (count0 not
    empty), `enc(M)` and `dec(M)` are CTR with T_j = nonce ‖ [(count0 + j) mod 2^(8·|count0|)] over the standard's cipher,
    as long as M, and `dec` on the same object — after the `enc`, or after any calls that keep the counter — gives M back -/
theorem ctr_obj_spec (h : Implements c k) (o : CTR.Obj) (hne : o.counter.count0 ≠ []) (hnb : Bytes o.counter.nonce)
    (hcb : Bytes o.counter.count0) (hlen : o.counter.nonce.length + o.counter.count0.length = c.len) (M : List Nat) :
    (o.enc c M).1 = .ok (Spec.Mode.ctrOf k o.counter.nonce o.counter.count0 M) ∧
    (o.dec c M).1 = .ok (Spec.Mode.ctrOf k o.counter.nonce o.counter.count0 M) ∧
    (Spec.Mode.ctrOf k o.counter.nonce o.counter.count0 M).length = M.length ∧
    ((o.enc c M).2.dec c (Spec.Mode.ctrOf k o.counter.nonce o.counter.count0 M)).1 = .ok M := by
  have hT : ∀ i, IsBlock c.len (Spec.Mode.counterBlockOf o.counter.nonce o.counter.count0 i) := fun i =>
    modelT_eq_of o.counter hcb i ▸ modelT_isBlock o.counter c.len hnb hlen i
  have hE : ∀ i, (k.E (Spec.Mode.counterBlockOf o.counter.nonce o.counter.count0 i)).length = k.len := fun i =>
    h.len_eq ▸ (h.E_block _ (hT i)).1
  have hpos : 0 < k.len := h.len_eq ▸ h.len_pos
  have hli := fun X => ctrSpec_length_invol k _ hpos hE X
  have hs : ∀ d, d = o.counter → ∀ X, encWith c d X = .ok (Spec.Mode.ctrOf k o.counter.nonce o.counter.count0 X) := by
    intro d e X
    subst e
    exact encWith_spec h _ hne hnb hcb hlen X
  have hdec : ∀ (o' : CTR.Obj), o'.counter = o.counter → ∀ X,
      (o'.dec c X).1 = .ok (Spec.Mode.ctrOf k o.counter.nonce o.counter.count0 X) := by
    intro o' e X
    rw [obj_dec_fst, hs o'.counter e X]
    simp only
    rw [if_neg (by simpa [Spec.Mode.ctrOf] using (hli X).1)]
  refine ⟨by rw [obj_enc_fst]; exact hs _ rfl M, hdec o rfl M, (hli M).1, ?_⟩
  have hk : (o.enc c M).2.counter = o.counter := (ctr_calls_keep_counter c o M).1
  rw [hdec _ hk]
  exact congrArg Except.ok (hli M).2

/-- the two readings of the initial counter block agree: for a block `iv` of the cipher, `Spec.Mode.ctr` (nonce = first
    ⌊len/2⌋ bytes, as `CTR(cipher,iv)` splits it) is `Spec.Mode.ctrOf` with that split -/
theorem ctr_eq_ctrOf (k : Spec.Mode.Cipher) (iv : List Nat) (hiv : iv.length = k.len) (M : List Nat) :
    Spec.Mode.ctr k iv M = Spec.Mode.ctrOf k (iv.take (k.len / 2)) (iv.drop (k.len / 2)) M := by
  have : Spec.Mode.counterBlock k.len iv = Spec.Mode.counterBlockOf (iv.take (k.len / 2)) (iv.drop (k.len / 2)) := by
    funext j
    simp [Spec.Mode.counterBlock, Spec.Mode.counterBlockOf, hiv]
  unfold Spec.Mode.ctr Spec.Mode.ctrOf
  rw [this]

/-! ### the block ciphers of the library

  `Model.Mode.Ciphers.aes K`, `.des K`, `.tdea K1 K2 K3`, `.serpent K`, `.threefish K T` are the objects `AES(K)`, `DES(K)`,
  `TDEA(K1,K2,K3)`, `Serpent(K)`, `Threefish(K,T)` as the modes see them (Model/ModeCiphers.lean); `Spec.ModeCiphers.fips197 K`,
  `.fips46 K`, `.sp80067 ko`, `.serpent K`, `.threefish K T` are CIPH_K / CIPH⁻¹_K of FIPS 197, FIPS 46-3, SP 800-67 (key bundle
  `ko`), the Serpent submission and Threefish-256/512/1024 of Skein 1.3 (key K, tweak T).
  Each `…_implements` composes the cipher's C03 theorems (enc/dec are mutually inverse permutations of the byte blocks)
  with its C02 theorems (enc/dec compute the standard's functions); no hypothesis about the cipher is left. -/

/-- AES-128/192/256: every key of 16, 24 or 32 bytes -/
theorem aes_implements (K : List Nat) (hl : K.length = 16 ∨ K.length = 24 ∨ K.length = 32) (hb : Bytes K) :
    Implements (Ciphers.aes K) (Spec.ModeCiphers.fips197 K) ∧ Ciphers.aes? K = .ok (Ciphers.aes K) :=
  ⟨Proofs.Lemmas.ModeInst.aes_implements K ⟨hl, hb⟩, aes_ctor K ⟨hl, hb⟩⟩

/-- DES: every 8-byte key (weak keys, any parity) -/
theorem des_implements (K : List Nat) (hl : K.length = 8) (hb : Bytes K) :
    Implements (Ciphers.des K) (Spec.ModeCiphers.fips46 K) ∧ Ciphers.des? K = .ok (Ciphers.des K) :=
  ⟨Proofs.Lemmas.ModeInst.des_implements K ⟨hl, hb⟩, des_ctor K ⟨hl, hb⟩⟩

/-- TDEA: every accepted constructor call `TDEA(K1,K2,K3)`, with the key bundle `ko` (keying option 1, 2 or 3) it denotes -/
theorem tdea_implements (K1 : List Nat) (K2 K3 : Option (List Nat)) (ko : Spec.Des.Keying)
    (hcall : Spec.ModeCiphers.keyingOfCall K1 K2 K3 = some ko) (hko : KeyingOk ko) :
    Implements (Ciphers.tdea K1 K2 K3) (Spec.ModeCiphers.sp80067 ko) ∧ Ciphers.tdea? K1 K2 K3 = .ok (Ciphers.tdea K1 K2 K3) :=
  ⟨Proofs.Lemmas.ModeInst.tdea_implements K1 K2 K3 ko ⟨hcall, hko⟩, tdea_ctor K1 K2 K3 ko ⟨hcall, hko⟩⟩

/-- the calling forms: one string of 8 / 16 / 24 bytes (keying option 3 / 2 / 1), two 8-byte strings (option 2),
    three 8-byte strings (option 1) are accepted calls, with these bundles -/
theorem tdea_calling_forms :
    (∀ K, K.length = 8 → Bytes K → TdeaKey K none none (.opt3 K)) ∧
    (∀ K, K.length = 16 → Bytes K → TdeaKey K none none (.opt2 (K.take 8) (K.drop 8))) ∧
    (∀ K, K.length = 24 → Bytes K → TdeaKey K none none (.opt1 (K.take 8) ((K.drop 8).take 8) (K.drop 16))) ∧
    (∀ K1 K2, IsBlock 8 K1 → IsBlock 8 K2 → TdeaKey K1 (some K2) none (.opt2 K1 K2)) ∧
    (∀ K1 K2 K3, IsBlock 8 K1 → IsBlock 8 K2 → IsBlock 8 K3 → TdeaKey K1 (some K2) (some K3) (.opt1 K1 K2 K3)) :=
  ⟨tdeaKey_string8, tdeaKey_string16, tdeaKey_string24, tdeaKey_two, tdeaKey_three⟩

/-- Serpent: every key of 0..32 bytes (shorter keys padded as the submission prescribes); the object with its key
    schedule computed once is the same cipher -/
theorem serpent_implements (K : List Nat) (hl : K.length ≤ 32) (hb : Bytes K) :
    Implements (Ciphers.serpent K) (Spec.ModeCiphers.serpent K) ∧ Ciphers.serpent? K = .ok (Ciphers.serpent K) :=
  ⟨Proofs.Lemmas.ModeInst.serpent_implements K ⟨hl, hb⟩, serpent_ctor K ⟨hl, hb⟩⟩

/-- Threefish-256/512/1024: every key of 32, 64 or 128 bytes with every 16-byte tweak; the block is as long as the key; the
    object with its extended key / tweak words computed once (and `blocksize` read from `K.size`) is the same cipher -/
theorem threefish_implements (K T : List Nat) (hl : K.length = 32 ∨ K.length = 64 ∨ K.length = 128) (hb : Bytes K)
    (htl : T.length = 16) (htb : Bytes T) :
    Implements (Ciphers.threefish K T) (Spec.ModeCiphers.threefish K T) ∧ (Ciphers.threefish K T).len = K.length ∧
    Ciphers.threefish? K T = .ok (Ciphers.threefish K T) :=
  ⟨Proofs.Lemmas.ModeInst.threefish_implements K T ⟨hl, hb, htl, htb⟩, rfl, threefish_ctor K T ⟨hl, hb, htl, htb⟩⟩

/-- the block lengths of the library: 8 (DES, TDEA), 16 (AES, Serpent), 32 / 64 / 128 bytes (Threefish-256/512/1024) — all
    even and below 256, which is what `lib_ecb … lib_ctr` need of them; each one occurs -/
theorem lib_block_lengths :
    (∀ {c k}, LibCipher c k → c.len = 8 ∨ c.len = 16 ∨ c.len = 32 ∨ c.len = 64 ∨ c.len = 128) ∧
    (∀ n, n = 8 ∨ n = 16 ∨ n = 32 ∨ n = 64 ∨ n = 128 → ∃ c k, LibCipher c k ∧ c.len = n) := by
  refine ⟨fun h => lib_len h, ?_⟩
  have hz : ∀ n, Bytes (List.replicate n 0) := fun n => Bytes.replicate (by decide)
  intro n hn
  rcases hn with h | h | h | h | h <;> subst h
  · exact ⟨_, _, .des (List.replicate 8 0) ⟨by simp, hz _⟩, rfl⟩
  · exact ⟨_, _, .aes (List.replicate 16 0) ⟨by simp, hz _⟩, rfl⟩
  · exact ⟨_, _, .threefish (List.replicate 32 0) (List.replicate 16 0) ⟨by simp, hz _, by simp, hz _⟩, by simp [Ciphers.threefish]⟩
  · exact ⟨_, _, .threefish (List.replicate 64 0) (List.replicate 16 0) ⟨by simp, hz _, by simp, hz _⟩, by simp [Ciphers.threefish]⟩
  · exact ⟨_, _, .threefish (List.replicate 128 0) (List.replicate 16 0) ⟨by simp, hz _, by simp, hz _⟩, by simp [Ciphers.threefish]⟩

/-! #### the property for the library: `LibCipher c k` — c is `AES(K)` / `DES(K)` / `TDEA(K1,K2,K3)` / `Serpent(K)` /
    `Threefish(K,T)` with an accepted key (and tweak), k the standard's cipher with that key.  Every block length is 8, 16,
    32, 64 or 128 bytes, so every padding scheme is admissible for every message (`LibPadDom`: nopadding needs a non-empty
    block multiple; a PKCS#7 / X9.23 pad byte holds up to 128) and the default counter for every cipher (`LibCtrDom`: None or
    any one-block string; its nonce and running halves have 4, 8, 16, 32 or 64 bytes). -/

/-- ECB: the ciphertext is SP 800-38A ECB over the standard's cipher of the padded message, has the padded length, and an
    equally configured object (in any padding state) decrypts it to the message -/
theorem lib_ecb (hc : LibCipher c k) (s : Spec.ModePad.Scheme) (M : List Nat) (hM : Bytes M) (hd : LibPadDom c.len s M)
    (st : PadState) :
    ECB.enc c (toModel s) M = .ok (Spec.Mode.ecb k s M) ∧
    ECB.dec c (toModel s) (Spec.Mode.ecb k s M) st = .ok M ∧
    (Spec.Mode.ecb k s M).length = (if s = .none then M.length else (M.length / c.len + 1) * c.len) := by
  have h := lib_implements hc
  have hd' := lib_padDom hc s M hd
  have pf := padFacts s c.len h.len_pos M hd' hM
  exact ⟨ecb_spec h s M hM hd', ecb_dec_of h s M pf st, by rw [ecb_length_of h s M pf, pad_length s c.len h.len_pos M]⟩

/-- CBC: IV ‖ SP 800-38A CBC over the standard's cipher of the padded message; length; decryption -/
theorem lib_cbc (hc : LibCipher c k) (iv : List Nat) (hiv : IsBlock c.len iv) (s : Spec.ModePad.Scheme) (M : List Nat)
    (hM : Bytes M) (hd : LibPadDom c.len s M) (st : PadState) :
    CBC.enc c iv (toModel s) M = .ok (Spec.Mode.cbc k iv s M) ∧
    CBC.dec c iv (toModel s) (Spec.Mode.cbc k iv s M) st = .ok M ∧
    (Spec.Mode.cbc k iv s M).take c.len = iv ∧
    (Spec.Mode.cbc k iv s M).length = (if s = .none then M.length else (M.length / c.len + 1) * c.len) + c.len := by
  have h := lib_implements hc
  have hd' := lib_padDom hc s M hd
  have pf := padFacts s c.len h.len_pos M hd' hM
  exact ⟨cbc_spec h iv hiv s M hM hd', cbc_dec_of h iv hiv s M pf st, List.take_left' hiv.1,
    by rw [cbc_length_of h iv hiv s M pf, pad_length s c.len h.len_pos M]⟩

/-- CTR with the default counter (None, or any initial counter block): SP 800-38A CTR over the standard's cipher with
    T_j = nonce ‖ BE((count0 + j) mod 2^(8·⌈len/2⌉)); every message length; |C| = |M|; decryption -/
theorem lib_ctr (hc : LibCipher c k) (iv : Option (List Nat)) (hiv : LibCtrDom c.len iv) (M : List Nat) :
    CTR.enc c iv M = .ok (Spec.Mode.ctr k (iv.getD (List.replicate c.len 0)) M) ∧
    (Spec.Mode.ctr k (iv.getD (List.replicate c.len 0)) M).length = M.length ∧
    (CTR.enc c iv M).bind (CTR.dec c iv) = .ok M := by
  have h := lib_implements hc
  have hiv' := lib_ctrDom hc iv hiv
  have e := ctr_spec h iv hiv' M
  obtain ⟨C, hC, hl⟩ := ctr_length h iv hiv' M
  rw [e] at hC; cases hC
  exact ⟨e, hl, ctr_dec_enc h iv hiv' M⟩

/-- ECB with ciphertext stealing, |M| ≥ one block: the stolen-ciphertext construction over the standard's cipher,
    |C| = |M|, decryption -/
theorem lib_cts_ecb (hc : LibCipher c k) (M : List Nat) (hM : Bytes M) (hlen : c.len ≤ M.length) :
    CTS_ECB.enc c .no M = .ok (Spec.Mode.ecbCts k M) ∧
    (Spec.Mode.ecbCts k M).length = M.length ∧
    CTS_ECB.dec c .no (Spec.Mode.ecbCts k M) = .ok M := by
  have h := lib_implements hc
  have e := cts_ecb_spec h M hM hlen
  obtain ⟨C, hC, hl, hd⟩ := cts_ecb_all h M hM hlen
  rw [e] at hC; cases hC
  exact ⟨e, hl, hd⟩

/-- CBC with ciphertext stealing, |M| ≥ one block: IV ‖ CBC-CS2 (SP 800-38A addendum) over the standard's cipher,
    |C| = |M| + one block, decryption -/
theorem lib_cts_cbc (hc : LibCipher c k) (iv : List Nat) (hiv : IsBlock c.len iv) (M : List Nat) (hM : Bytes M)
    (hlen : c.len ≤ M.length) :
    CTS_CBC.enc c iv .no M = .ok (Spec.Mode.cbcCts k iv M) ∧
    (Spec.Mode.cbcCts k iv M).length = M.length + c.len ∧
    (Spec.Mode.cbcCts k iv M).take c.len = iv ∧
    CTS_CBC.dec c iv .no (Spec.Mode.cbcCts k iv M) = .ok M := by
  have h := lib_implements hc
  have e := cts_cbc_spec h iv hiv M hM hlen
  obtain ⟨C, hC, hl, ht, hd⟩ := cts_cbc_all h iv hiv M hM hlen
  rw [e] at hC; cases hC
  exact ⟨e, hl, ht, hd⟩

/-- decryption of arbitrary strings by the stealing modes over a library cipher: the Spec inverses over the standard's cipher -/
theorem lib_cts_dec (hc : LibCipher c k) (iv : List Nat) (hiv : iv.length = c.len) (C : List Nat) (hC : Bytes C) :
    (c.len ≤ C.length → CTS_ECB.dec c .no C = .ok (Spec.Mode.ecbCtsInv k C)) ∧
    (2 * c.len ≤ C.length → CTS_CBC.dec c iv .no C = .ok (Spec.Mode.cbcCtsInv k C)) :=
  ⟨fun hl => cts_ecb_dec_spec (lib_implements hc) C hC hl, fun hl => cts_cbc_dec_spec (lib_implements hc) iv hiv C hC hl⟩

/-! #### the library theorems read for one cipher at a time (instances of `lib_*`, spelled out for the reader) -/

/-- `CBC(AES(K),iv)` with the default PKCS#7 padding, any key of 16/24/32 bytes, any 16-byte IV, ANY message:
    the output is IV ‖ SP 800-38A CBC over FIPS 197 of the PKCS#7-padded message, and `dec` returns the message -/
example (K iv M : List Nat) (hl : K.length = 16 ∨ K.length = 24 ∨ K.length = 32) (hK : Bytes K) (hiv : IsBlock 16 iv)
    (hM : Bytes M) :
    CBC.enc (Ciphers.aes K) iv .pkcs7 M = .ok (Spec.Mode.cbc (Spec.ModeCiphers.fips197 K) iv .pkcs7 M) ∧
    (CBC.enc (Ciphers.aes K) iv .pkcs7 M).bind (fun C => CBC.dec (Ciphers.aes K) iv .pkcs7 C) = .ok M := by
  obtain ⟨h1, h2, _, _⟩ := lib_cbc (.aes K ⟨hl, hK⟩) iv hiv .pkcs7 M hM (fun h => by cases h) {}
  have h1' : CBC.enc (Ciphers.aes K) iv .pkcs7 M = _ := h1
  exact ⟨h1', by rw [h1']; exact h2⟩

/-- `CTR(TDEA(K))` with one 24-byte key string and the default counter, ANY message: SP 800-38A CTR over TDEA
    keying option 1 with the three 8-byte parts of K, nonce and count zero; same length; `dec` inverts -/
example (K M : List Nat) (hl : K.length = 24) (hK : Bytes K) :
    CTR.enc (Ciphers.tdea K none none) none M
      = .ok (Spec.Mode.ctr (Spec.ModeCiphers.sp80067 (.opt1 (K.take 8) ((K.drop 8).take 8) (K.drop 16))) (List.replicate 8 0) M) ∧
    (CTR.enc (Ciphers.tdea K none none) none M).bind (CTR.dec (Ciphers.tdea K none none) none) = .ok M := by
  obtain ⟨h1, _, h3⟩ := lib_ctr (.tdea K none none _ (tdeaKey_string24 K hl hK)) none (fun _ h => by cases h) M
  exact ⟨h1, h3⟩

/-- `CTS_ECB(Serpent(K))`, any key of at most 32 bytes, any message of at least 16 bytes: as long as the message -/
example (K M : List Nat) (hl : K.length ≤ 32) (hK : Bytes K) (hM : Bytes M) (hlen : 16 ≤ M.length) :
    ∃ C, CTS_ECB.enc (Ciphers.serpent K) .no M = .ok C ∧ C.length = M.length ∧
      C = Spec.Mode.ecbCts (Spec.ModeCiphers.serpent K) M ∧ CTS_ECB.dec (Ciphers.serpent K) .no C = .ok M := by
  obtain ⟨h1, h2, h3⟩ := lib_cts_ecb (.serpent K ⟨hl, hK⟩) M hM hlen
  exact ⟨_, h1, h2, rfl, h3⟩

/-- `CTR(Threefish(K,T))` with the default counter (None, or any 128-byte initial counter block), Threefish-1024, ANY
    message: SP 800-38A CTR over Threefish-1024 with T_j = 64-byte nonce ‖ BE((count0 + j) mod 2^512); same length; `dec` inverts -/
example (K T M : List Nat) (iv : Option (List Nat)) (hl : K.length = 128) (hK : Bytes K) (hT : IsBlock 16 T)
    (hiv : ∀ v, iv = some v → IsBlock 128 v) :
    CTR.enc (Ciphers.threefish K T) iv M
      = .ok (Spec.Mode.ctr (Spec.ModeCiphers.threefish K T) (iv.getD (List.replicate 128 0)) M) ∧
    (Spec.Mode.ctr (Spec.ModeCiphers.threefish K T) (iv.getD (List.replicate 128 0)) M).length = M.length ∧
    (CTR.enc (Ciphers.threefish K T) iv M).bind (CTR.dec (Ciphers.threefish K T) iv) = .ok M := by
  have h := lib_ctr (.threefish K T ⟨Or.inr (Or.inr hl), hK, hT.1, hT.2⟩) iv
    (fun v hv => by show IsBlock K.length v; rw [hl]; exact hiv v hv) M
  have e : (Ciphers.threefish K T).len = 128 := hl
  rw [e] at h
  exact h

/-- `CBC(Threefish(K,T),iv)` with PKCS#7, Threefish-512: a pad of up to 64 bytes; IV ‖ CBC chain; `dec` returns the message -/
example (K T iv M : List Nat) (hl : K.length = 64) (hK : Bytes K) (hT : IsBlock 16 T) (hiv : IsBlock 64 iv) (hM : Bytes M) :
    CBC.enc (Ciphers.threefish K T) iv .pkcs7 M = .ok (Spec.Mode.cbc (Spec.ModeCiphers.threefish K T) iv .pkcs7 M) ∧
    (Spec.Mode.cbc (Spec.ModeCiphers.threefish K T) iv .pkcs7 M).length = (M.length / 64 + 1) * 64 + 64 ∧
    CBC.dec (Ciphers.threefish K T) iv .pkcs7 (Spec.Mode.cbc (Spec.ModeCiphers.threefish K T) iv .pkcs7 M) = .ok M := by
  obtain ⟨h1, h2, _, h4⟩ := lib_cbc (.threefish K T ⟨Or.inr (Or.inl hl), hK, hT.1, hT.2⟩) iv
    (by show IsBlock K.length iv; rw [hl]; exact hiv) .pkcs7 M hM (fun h => by cases h) {}
  have e : (Ciphers.threefish K T).len = 64 := hl
  rw [e] at h4
  exact ⟨h1, by simpa using h4, h2⟩

/-! ### the two padding specifications agree (Spec.ModePad of this property, Spec.Padding of the padding property C09) -/

/-- for every byte string the padded string Spec.ModePad defines (PKCS#7, X9.23, bit padding, none; block of l bytes) is
    the bit-level padded string of Spec.Padding (block of 8·l bits), read back as bytes -/
theorem modepad_eq_padding (s : Spec.ModePad.Scheme) (l : Nat) (hl : 0 < l) (M : List Nat) (hM : Bytes M)
    (h256 : s = .pkcs7 ∨ s = .x923 → l < 256) :
    Spec.ModePad.pad s l M =
      Spec.Padding.padBytes (Proofs.Lemmas.ModePadTie.toPadding s) (8 * l) M (8 * M.length) :=
  Proofs.Lemmas.ModePadTie.pad_eq s l hl M hM h256

/-- the PKCS#7 / X9.23 unpadding maps of the two specifications are the same functions (all inputs) -/
theorem modepad_unpad_eq_padding (l : Nat) (X : List Nat) :
    Spec.ModePad.unpkcs7 l X = Spec.Padding.pkcs7Unpad l X ∧ Spec.ModePad.unx923 l X = Spec.Padding.x923Unpad l X :=
  ⟨Proofs.Lemmas.ModePadTie.unpkcs7_eq l X, Proofs.Lemmas.ModePadTie.unx923_eq l X⟩

/-! ### non-vacuity: the hypotheses are inhabited by a non-trivial instance -/

/-- library instances: AES-192 in CBC with X9.23, TDEA called with one 24-byte string in CTR, Serpent with a 5-byte key in
    ECB-CTS, DES, Threefish-256 -/
example : LibCipher (Ciphers.threefish (List.range 32) (List.range 16)) (Spec.ModeCiphers.threefish (List.range 32) (List.range 16)) :=
  .threefish _ _ ⟨by decide, by unfold Bytes; decide, by decide, by unfold Bytes; decide⟩
example : LibCipher (Ciphers.aes (List.range 24)) (Spec.ModeCiphers.fips197 (List.range 24)) :=
  .aes _ ⟨by decide, by unfold Bytes; decide⟩
example : LibCipher (Ciphers.tdea (List.range 24) none none)
    (Spec.ModeCiphers.sp80067 (.opt1 (List.range 8) [8, 9, 10, 11, 12, 13, 14, 15] [16, 17, 18, 19, 20, 21, 22, 23])) :=
  .tdea _ _ _ _ (tdeaKey_string24 (List.range 24) (by decide) (by unfold Bytes; decide))
example : LibCipher (Ciphers.serpent [1, 2, 3, 4, 255]) (Spec.ModeCiphers.serpent [1, 2, 3, 4, 255]) :=
  .serpent _ ⟨by decide, by unfold Bytes; decide⟩
example : LibCipher (Ciphers.des [1, 1, 1, 1, 1, 1, 1, 1]) (Spec.ModeCiphers.fips46 [1, 1, 1, 1, 1, 1, 1, 1]) :=
  .des _ ⟨by decide, by unfold Bytes; decide⟩
example : LibPadDom 16 .x923 [1, 2, 3] ∧ LibPadDom 16 .none (List.replicate 32 7) ∧ LibCtrDom 16 none ∧
    LibCtrDom 8 (some [0, 0, 0, 1, 255, 255, 255, 255]) ∧ LibPadDom 128 .pkcs7 (List.replicate 200 7) ∧
    LibCtrDom 32 (some (List.replicate 16 9 ++ List.replicate 16 255)) := by
  refine ⟨?_, ?_, ?_, ?_, ?_, ?_⟩
  · intro h; cases h
  · intro _; exact ⟨by decide, by decide⟩
  · intro v h; cases h
  · intro v h; cases h; exact ⟨rfl, by unfold Bytes; decide⟩
  · intro h; cases h
  · intro v h; cases h; exact ⟨rfl, by unfold Bytes; decide⟩

/-- one object through a history, computed: `CTR(rot)` with the default counter encrypts ABCDE, gets the counter block
    07 07 ‖ ff ff by `setup`, encrypts ABCDE again (the running half wraps to 0000 for the second block) and is asked for the
    next counter block: the second ciphertext differs from the first and is the one a NEW object `CTR(rot, 0707ffff)` returns -/
example :
    (CTR.Obj.run (Toy.rot 4 [1, 2, 3, 4]) ⟨⟨4, [0, 0], [0, 0]⟩, none⟩
      [.enc [65, 66, 67, 68, 69], .setup (some [7, 7]) (some [255, 255]), .enc [65, 66, 67, 68, 69], .call]).1.map outBytes
      = [some [67, 65, 71, 69, 71], none, some [68, 190, 184, 66, 64], some [7, 7, 0, 1]] ∧
    okBytes (CTR.enc (Toy.rot 4 [1, 2, 3, 4]) (some [7, 7, 255, 255]) [65, 66, 67, 68, 69]) = some [68, 190, 184, 66, 64] := by
  decide +kernel

/-- the hypotheses of `ctr_obj_spec` hold in the state that history leaves (and `ctr_step_depends_only_on_counter` applies to
    it and a new object with that counter block) -/
example :
    let o := (CTR.Obj.run (Toy.rot 4 [1, 2, 3, 4]) ⟨⟨4, [0, 0], [0, 0]⟩, none⟩
      [.enc [65, 66, 67, 68, 69], .setup (some [7, 7]) (some [255, 255]), .enc [65, 66, 67, 68, 69], .call]).2
    o.counter.count0 ≠ [] ∧ Bytes o.counter.nonce ∧ Bytes o.counter.count0 ∧
    o.counter.nonce.length + o.counter.count0.length = (Toy.rot 4 [1, 2, 3, 4]).len ∧ o.count = some ⟨2, 16⟩ ∧
    o.counter.nonce = (⟨4, [7, 7], [255, 255]⟩ : DefaultCounter).nonce := by
  refine ⟨by decide +kernel, ?_, ?_, by decide +kernel, by decide +kernel, by decide +kernel⟩ <;> unfold Bytes <;> decide +kernel

/-! ### one ECB / CBC / CTS object used again and again

  `Model.Mode.Seq.Obj` is what an `ECB` / `CBC` / `CTS_ECB` / `CTS_CBC` object keeps between calls: the state of its padding
  object `self.pad` (every `enc` resets it and leaves the pad count of ITS message behind; `dec` hands it to `pad.remove`).
  `Seq.Obj.step` is one public call, `Seq.Obj.run` a history of them; `Cfg` = (class, IV, padding scheme).  The correspondence
  stream (`modeseq` lines) drives the real object and this machine through the same histories, Nullpadding included. -/

/-- the result of `dec` does not depend on the padding state of the decrypting object — for every padding scheme except
    Nullpadding (whose `remove` strips the pad count of the latest `enc`: known finding C10-nullpad-remove) -/
theorem modeseq_dec_ignores_pad_state (cfg : Cfg) (c : BlockCipher) (hs : cfg.scheme ≠ .null) (C : List Nat) (st st' : PadState) :
    cfg.dec c C st = cfg.dec c C st' := by
  unfold Cfg.dec
  cases cfg.kind with
  | ctsEcb => rfl
  | ctsCbc => rfl
  | ecb =>
    simp only [ECB.dec]
    cases hp : mkPad c cfg.scheme with
    | error e => rfl
    | ok p =>
      simp only
      split
      · rfl
      · cases mapE c.dec (readBlocks c.len (C.length / c.len) C) with
        | error e => rfl
        | ok M => exact remove_state_free p (by rw [mkPad_scheme hp]; exact hs) st st' _
  | cbc =>
    simp only [CBC.dec]
    cases hp : mkPad c cfg.scheme with
    | error e => rfl
    | ok p =>
      simp only
      split
      · rfl
      · split
        · rfl
        · cases cbcUnchain c c.len C.length C [] with
          | error e => rfl
          | ok M => exact remove_state_free p (by rw [mkPad_scheme hp]; exact hs) st st' _

/-- HISTORY INDEPENDENCE: from ANY starting state of the object, through ANY history of `enc` / `dec` calls, every call returns
    what it returns as the only call on a new object (`Step.alone`): `enc(M)` a function of the configuration and M, `dec(C)` a
    function of the configuration and C — in particular not of the messages encrypted before, their lengths, or the order of
    the calls.  (Every padding scheme except Nullpadding.) -/
theorem modeseq_history_independent (cfg : Cfg) (c : BlockCipher) (hs : cfg.scheme ≠ .null) :
    ∀ (steps : List Seq.Step) (o : Seq.Obj), (Seq.Obj.run cfg c o steps).1 = steps.map (Seq.Step.alone cfg c)
  | [], _ => rfl
  | s :: ss, o => by
    simp only [Seq.Obj.run, List.map_cons, modeseq_history_independent cfg c hs ss]
    cases s with
    | enc M => rfl
    | dec C => simp only [Seq.Obj.step, Seq.Step.alone, modeseq_dec_ignores_pad_state cfg c hs C o.pad {}]

/-- the step-sequence corollary of `ecb_dec_enc`: ONE object `ECB(cipher,pad=s)` in any state, any calls `before`, then
    `enc(M)` — which returns the SP 800-38A ciphertext C of the padded M —, any calls `between` (encryptions of messages of other
    lengths, decryptions, refused calls), then `dec(C)`: the object gives M back.  s: no padding / PKCS#7 / X9.23 / bit padding -/
theorem modeseq_ecb_dec_earlier (h : Implements c k) (s : Spec.ModePad.Scheme) (M : List Nat) (hM : Bytes M) (hd : PadDom s c.len M)
    (o : Seq.Obj) (before between : List Seq.Step) :
    (Seq.Obj.run ⟨.ecb, [], toModel s⟩ c o (before ++ [.enc M])).1.getLast? = some (.ok (Spec.Mode.ecb k s M)) ∧
    (Seq.Obj.run ⟨.ecb, [], toModel s⟩ c o (before ++ .enc M :: between ++ [.dec (Spec.Mode.ecb k s M)])).1.getLast? = some (.ok M) := by
  refine ⟨by rw [seq_run_last_enc]; exact congrArg some (ecb_spec h s M hM hd), ?_⟩
  rw [seq_run_then_dec]
  exact congrArg some (ecb_dec_of h s M (padFacts s c.len h.len_pos M hd hM) _)

/-- the same for ONE object `CBC(cipher,iv,pad=s)` -/
theorem modeseq_cbc_dec_earlier (h : Implements c k) (iv : List Nat) (hiv : IsBlock c.len iv) (s : Spec.ModePad.Scheme) (M : List Nat)
    (hM : Bytes M) (hd : PadDom s c.len M) (o : Seq.Obj) (before between : List Seq.Step) :
    (Seq.Obj.run ⟨.cbc, iv, toModel s⟩ c o (before ++ [.enc M])).1.getLast? = some (.ok (Spec.Mode.cbc k iv s M)) ∧
    (Seq.Obj.run ⟨.cbc, iv, toModel s⟩ c o (before ++ .enc M :: between ++ [.dec (Spec.Mode.cbc k iv s M)])).1.getLast? = some (.ok M) := by
  refine ⟨by rw [seq_run_last_enc]; exact congrArg some (cbc_spec h iv hiv s M hM hd), ?_⟩
  rw [seq_run_then_dec]
  exact congrArg some (cbc_dec_of h iv hiv s M (padFacts s c.len h.len_pos M hd hM) _)

/-- … and for the stealing modes: after any history, `dec` of what an earlier `enc(M)` returned gives M back -/
theorem modeseq_cts_dec_earlier (h : Implements c k) (iv : List Nat) (hiv : IsBlock c.len iv) (M : List Nat) (hM : Bytes M)
    (hlen : c.len ≤ M.length) (o : Seq.Obj) (before between : List Seq.Step) :
    (∃ C, CTS_ECB.enc c .no M = .ok C ∧
      (Seq.Obj.run ⟨.ctsEcb, [], .no⟩ c o (before ++ .enc M :: between ++ [.dec C])).1.getLast? = some (.ok M)) ∧
    (∃ C, CTS_CBC.enc c iv .no M = .ok C ∧
      (Seq.Obj.run ⟨.ctsCbc, iv, .no⟩ c o (before ++ .enc M :: between ++ [.dec C])).1.getLast? = some (.ok M)) := by
  constructor
  · have e := cts_ecb_dec_enc h M hM hlen
    cases he : CTS_ECB.enc c .no M with
    | error x => rw [he] at e; cases e
    | ok C =>
      rw [he] at e
      exact ⟨C, rfl, by rw [seq_run_then_dec]; exact congrArg some e⟩
  · have e := cts_cbc_dec_enc h iv hiv M hM hlen
    cases he : CTS_CBC.enc c iv .no M with
    | error x => rw [he] at e; cases e
    | ok C =>
      rw [he] at e
      exact ⟨C, rfl, by rw [seq_run_then_dec]; exact congrArg some e⟩

/-- computed: ONE object `ECB(rot,pad=bitpadding)` encrypts AB (48 pad bits), then ABCDE (24 pad bits), then decrypts the FIRST
    ciphertext and the second: both messages come back; the history leaves the pad count 24 of the latest message behind -/
example :
    (Seq.Obj.run ⟨.ecb, [], .bit⟩ (Toy.rot 4 [1, 2, 3, 4]) {}
      [.enc [65, 66], .enc [65, 66, 67, 68, 69], .dec [64, 131, 4, 64], .dec [64, 64, 64, 64, 130, 3, 4, 68]]).1.map okBytes
      = [some [64, 131, 4, 64], some [64, 64, 64, 64, 130, 3, 4, 68], some [65, 66], some [65, 66, 67, 68, 69]] ∧
    (Seq.Obj.run ⟨.ecb, [], .bit⟩ (Toy.rot 4 [1, 2, 3, 4]) {} [.enc [65, 66], .enc [65, 66, 67, 68, 69]]).2.pad.padcnt = 24 := by
  decide +kernel

/-- the hypothesis `scheme ≠ Nullpadding` of `modeseq_dec_ignores_pad_state` / `modeseq_history_independent` cannot be dropped:
    the same history with Nullpadding returns AB 00 for the first ciphertext (24 zero bits stripped instead of 16) while a new
    object returns AB 00 00 00 -/
example :
    (Seq.Obj.run ⟨.ecb, [], .null⟩ (Toy.rot 4 [1, 2, 3, 4]) {} [.enc [65, 66], .enc [65, 66, 67, 68, 69], .dec [64, 3, 4, 64]]).1.map okBytes
      = [some [64, 3, 4, 64], some [64, 64, 64, 64, 2, 3, 4, 68], some [65]] ∧
    okBytes (Seq.Step.alone ⟨.ecb, [], .null⟩ (Toy.rot 4 [1, 2, 3, 4]) (.dec [64, 3, 4, 64])) = some [65, 66, 0, 0] := by
  decide +kernel

/-- a concrete permutation cipher on 8-byte blocks satisfying `Implements` (for every block length n ≥ 1 and n-byte key:
    `Proofs.Lemmas.ModeL.toy_rot_implements`) -/
example : Implements (Toy.rot 8 [1, 2, 3, 4, 5, 6, 7, 250]) ⟨8, Toy.rotEncF [1, 2, 3, 4, 5, 6, 7, 250], Toy.rotDecF [1, 2, 3, 4, 5, 6, 7, 250]⟩ :=
  toy_rot_implements 8 (by decide) _ ⟨rfl, by unfold Bytes; decide⟩

/-- the domains are inhabited: a 13-byte message under every padding scheme with 8-byte blocks, a 16-byte one without -/
example : PadDom .pkcs7 8 (List.replicate 13 7) ∧ PadDom .x923 8 (List.replicate 13 7) ∧ PadDom .bit 8 (List.replicate 13 7)
    ∧ PadDom .none 8 (List.replicate 16 7) ∧ Bytes (List.replicate 13 7) := by
  refine ⟨by show 8 < 256; decide, by show 8 < 256; decide, trivial, by show 16 % 8 = 0 ∧ 0 < 16; decide,
    Bytes.replicate (by decide)⟩

example : CtrDom 8 none ∧ CtrDom 8 (some [0, 0, 0, 1, 255, 255, 255, 255]) ∧ IsBlock 8 [9, 8, 7, 6, 5, 4, 3, 2] := by
  refine ⟨by show 8 % 2 = 0; decide, ⟨rfl, by unfold Bytes; decide⟩, ⟨rfl, by unfold Bytes; decide⟩⟩

/-- the theorems compute: the toy cipher in CBC with PKCS#7 on a 3-byte message -/
example : CBC.enc (Toy.rot 4 [1, 2, 3, 4]) [9, 9, 9, 9] .pkcs7 [65, 66, 67]
    = .ok (Spec.Mode.cbc ⟨4, Toy.rotEncF [1, 2, 3, 4], Toy.rotDecF [1, 2, 3, 4]⟩ [9, 9, 9, 9] .pkcs7 [65, 66, 67]) := by
  rfl

end Proofs.C05
