/-
  C05 — ECB/CBC/CTR/CTS modes follow SP 800-38A and decrypt what they encrypt.
  ONLY property theorems (and their non-vacuity examples) live here; helper lemmas are in Proofs/Lemmas.
-/
import Model.Mode
import Spec.Mode
namespace Proofs.C05
open Model Model.Mode

/-- CTR decryption is CTR encryption whenever it returns -/
theorem ctr_dec_eq_enc (c : BlockCipher) (iv : Option (List Nat)) (C P : List Nat)
    (h : CTR.dec c iv C = .ok P) : CTR.enc c iv C = .ok P := by
  unfold CTR.dec at h
  split at h
  · cases h
  · split at h
    · cases h
    · cases h; assumption

end Proofs.C05
