/-
  C06 — Salsa20, ChaCha, RC4: specified keystream, length-preserving XOR streams, RC4 continuity, Salsa20 core.
  ONLY property theorems and non-vacuity examples; helper lemmas are in Proofs/Lemmas/{StreamPoly,SalsaRounds,…}.

  `ofBV ws` (Proofs.Lemmas.StreamPoly) is the Poly of ring 2^w whose coefficients are the words `ws`: the
  representation every Poly of the library has whose entries were stored through `__setitem__`/constructors.
-/
import Proofs.Lemmas.SalsaRounds
namespace Proofs.C06
open Model Model.Gen.Streams Proofs.Lemmas.StreamPoly Proofs.Lemmas.SalsaRounds

/-! ## A. what the translator read from the source is what the specifications prescribe -/

/-- the rotation amounts read from `Salsa20.quarterround` are those of the specification (7, 9, 13, 18) -/
theorem salsa_rotations : salsaRot = [7, 9, 13, 18] := by decide
/-- the rotation amounts read from `Chacha.quarterround` are those of the specification (16, 12, 8, 7) -/
theorem chacha_rotations : chachaRot = [16, 12, 8, 7] := by decide

/-- salsa20.rM / rMinv / cM / cMinv are the row pattern of section 4, the transposition of section 5, and their inverses -/
theorem salsa_index_maps :
    salsaRM = Spec.Salsa20.rowIndex ∧ salsaRMinv = Spec.Salsa20.inverseIndex Spec.Salsa20.rowIndex ∧
    salsaCM = Spec.Salsa20.transposeIndex ∧ salsaCMinv = Spec.Salsa20.inverseIndex Spec.Salsa20.transposeIndex := by
  decide +kernel

/-- chacha.rM / rMinv are the diagonal pattern and its inverse; chacha.cM / cMinv are the inverse Salsa row pattern and
    the row pattern (so that `x[cM][rM]` reads the columns) -/
theorem chacha_index_maps :
    chachaRM = Spec.Chacha.diagIndex ∧ chachaRMinv = Spec.Salsa20.inverseIndex Spec.Chacha.diagIndex ∧
    chachaCM = Spec.Salsa20.inverseIndex Spec.Salsa20.rowIndex ∧ chachaCMinv = Spec.Salsa20.rowIndex := by
  decide +kernel

/-- `rMinv∘rM = id = rM∘rMinv` and the same for cM, both modules, on the whole index domain -/
theorem index_maps_inverse :
    ∀ i < 16,
      salsaRMinv.getD (salsaRM.getD i 16) 16 = i ∧ salsaRM.getD (salsaRMinv.getD i 16) 16 = i ∧
      salsaCMinv.getD (salsaCM.getD i 16) 16 = i ∧ salsaCM.getD (salsaCMinv.getD i 16) 16 = i ∧
      chachaRMinv.getD (chachaRM.getD i 16) 16 = i ∧ chachaRM.getD (chachaRMinv.getD i 16) 16 = i ∧
      chachaCMinv.getD (chachaCM.getD i 16) 16 = i ∧ chachaCM.getD (chachaCMinv.getD i 16) 16 = i := by
  decide +kernel

/-- sigma / tau as stored by `p[0,5,10,15] = consts` are the little-endian words of the ASCII strings
    "expand 32-byte k" / "expand 16-byte k" -/
theorem constants_are_ascii :
    sigma = (Spec.Salsa20.words Spec.Salsa20.sigma).map (·.toNat) ∧
    tau = (Spec.Salsa20.words Spec.Salsa20.tau).map (·.toNat) := by
  decide +kernel

/-! ## B. the round functions on Polys refine the specifications' word functions -/

/-- `Salsa20.quarterround` (dim-1 Poly arithmetic: `y[1]^rol(y[0]+y[3],7)` …) is the quarterround of section 3 -/
theorem salsa_quarterround_refines (y0 y1 y2 y3 : BitVec 32) :
    Salsa.quarterround (ofBV [y0, y1, y2, y3]) =
      .ok (ofBV [(Spec.Salsa20.quarterround y0 y1 y2 y3).1, (Spec.Salsa20.quarterround y0 y1 y2 y3).2.1,
                 (Spec.Salsa20.quarterround y0 y1 y2 y3).2.2.1, (Spec.Salsa20.quarterround y0 y1 y2 y3).2.2.2]) :=
  salsa_qr y0 y1 y2 y3

/-- `y[rM]`, four quarterrounds on the slices, `z[rMinv]` is the rowround of section 4 -/
theorem salsa_rowround_refines (ws : List (BitVec 32)) (h : ws.length = 16) :
    Salsa.rowround Salsa.salsa (ofBV ws) = .ok (ofBV (Spec.Salsa20.rowround ws)) := salsa_rowround ws h

theorem salsa_columnround_refines (ws : List (BitVec 32)) (h : ws.length = 16) :
    Salsa.columnround Salsa.salsa (ofBV ws) = .ok (ofBV (Spec.Salsa20.columnround ws)) := salsa_columnround ws h

theorem salsa_doubleround_refines (ws : List (BitVec 32)) (h : ws.length = 16) :
    Salsa.doubleround Salsa.salsa (ofBV ws) = .ok (ofBV (Spec.Salsa20.doubleround ws)) := salsa_doubleround ws h

/-- `core(X,dround)` for every number of doublerounds: rounds and feed-forward `X+Z` -/
theorem salsa_core_refines (dround : Nat) (ws : List (BitVec 32)) (h : ws.length = 16) :
    Salsa.core Salsa.salsa (ofBV ws) dround = .ok (ofBV (Spec.Salsa20.coreWords dround ws)) := salsa_core dround ws h

theorem chacha_quarterround_refines (a b c d : BitVec 32) :
    Chacha.quarterround (ofBV [a, b, c, d]) =
      .ok (ofBV [(Spec.Chacha.quarterround a b c d).1, (Spec.Chacha.quarterround a b c d).2.1,
                 (Spec.Chacha.quarterround a b c d).2.2.1, (Spec.Chacha.quarterround a b c d).2.2.2]) :=
  chacha_qr a b c d

/-- Chacha's `rowround` (own rM) is the diagonal round -/
theorem chacha_rowround_refines (ws : List (BitVec 32)) (h : ws.length = 16) :
    Salsa.rowround Chacha.chacha (ofBV ws) = .ok (ofBV (Spec.Chacha.diagonalround ws)) := chacha_rowround ws h

/-- Chacha's `columnround` (through cM = salsa20.rMinv) is the column round -/
theorem chacha_columnround_refines (ws : List (BitVec 32)) (h : ws.length = 16) :
    Salsa.columnround Chacha.chacha (ofBV ws) = .ok (ofBV (Spec.Chacha.columnround ws)) := chacha_columnround ws h

theorem chacha_doubleround_refines (ws : List (BitVec 32)) (h : ws.length = 16) :
    Salsa.doubleround Chacha.chacha (ofBV ws) = .ok (ofBV (Spec.Chacha.doubleround ws)) := chacha_doubleround ws h

theorem chacha_core_refines (dround : Nat) (ws : List (BitVec 32)) (h : ws.length = 16) :
    Salsa.core Chacha.chacha (ofBV ws) dround = .ok (ofBV (Spec.Chacha.coreWords dround ws)) := chacha_core dround ws h

end Proofs.C06
