/-
  C06 — Salsa20, ChaCha, RC4: specified keystream, length-preserving XOR streams, RC4 continuity, Salsa20 core.
  ONLY property theorems and non-vacuity examples; helper lemmas are in Proofs/Lemmas/{StreamPoly,SalsaRounds,…}.

  `ofBV ws` (Proofs.Lemmas.StreamPoly) is the Poly of ring 2^w whose coefficients are the words `ws`: the
  representation every Poly of the library has whose entries were stored through `__setitem__`/constructors.
-/
import Proofs.Lemmas.SalsaRounds
import Proofs.Lemmas.StreamEnc
import Proofs.Lemmas.SalsaBytes
import Proofs.Lemmas.Rc4
import Proofs.Lemmas.SalsaKey
import Proofs.Lemmas.SalsaEnd
namespace Proofs.C06
open Model Model.Gen.Streams Proofs.Lemmas.StreamPoly Proofs.Lemmas.SalsaRounds Proofs.Lemmas.StreamEnc Proofs.Lemmas.SalsaBytes

/-! ## A. what the translator read from the source is what the specifications prescribe -/

/-- the rotation amounts read from `Salsa20.quarterround` are those of the specification (7, 9, 13, 18) -/
theorem salsa_rotations : salsaRot = [7, 9, 13, 18] := by decide
/-- the rotation amounts read from `Chacha.quarterround` are those of the specification (16, 12, 8, 7) -/
theorem chacha_rotations : chachaRot = [16, 12, 8, 7] := by decide

/-- salsa20.rM / rMinv / cM / cMinv are the row pattern of section 4, the transposition of section 5, and their inverses -/
theorem salsa_index_maps :
    salsaRM = Spec.Salsa20.rowIndex ∧ salsaRMinv = Spec.Salsa20.inverseIndex Spec.Salsa20.rowIndex ∧
    salsaCM = Spec.Salsa20.transposeIndex ∧ salsaCMinv = Spec.Salsa20.inverseIndex Spec.Salsa20.transposeIndex := by
  decide +kernel

/-- chacha.rM / rMinv are the diagonal pattern and its inverse; chacha.cM / cMinv are the inverse Salsa row pattern and
    the row pattern (so that `x[cM][rM]` reads the columns) -/
theorem chacha_index_maps :
    chachaRM = Spec.Chacha.diagIndex ∧ chachaRMinv = Spec.Salsa20.inverseIndex Spec.Chacha.diagIndex ∧
    chachaCM = Spec.Salsa20.inverseIndex Spec.Salsa20.rowIndex ∧ chachaCMinv = Spec.Salsa20.rowIndex := by
  decide +kernel

/-- `rMinv∘rM = id = rM∘rMinv` and the same for cM, both modules, on the whole index domain -/
theorem index_maps_inverse :
    ∀ i < 16,
      salsaRMinv.getD (salsaRM.getD i 16) 16 = i ∧ salsaRM.getD (salsaRMinv.getD i 16) 16 = i ∧
      salsaCMinv.getD (salsaCM.getD i 16) 16 = i ∧ salsaCM.getD (salsaCMinv.getD i 16) 16 = i ∧
      chachaRMinv.getD (chachaRM.getD i 16) 16 = i ∧ chachaRM.getD (chachaRMinv.getD i 16) 16 = i ∧
      chachaCMinv.getD (chachaCM.getD i 16) 16 = i ∧ chachaCM.getD (chachaCMinv.getD i 16) 16 = i := by
  decide +kernel

/-- sigma / tau as stored by `p[0,5,10,15] = consts` are the little-endian words of the ASCII strings
    "expand 32-byte k" / "expand 16-byte k" -/
theorem constants_are_ascii :
    sigma = (Spec.Salsa20.words Spec.Salsa20.sigma).map (·.toNat) ∧
    tau = (Spec.Salsa20.words Spec.Salsa20.tau).map (·.toNat) := by
  decide +kernel

/-! ## B. the round functions on Polys refine the specifications' word functions -/

/-- `Salsa20.quarterround` (dim-1 Poly arithmetic: `y[1]^rol(y[0]+y[3],7)` …) is the quarterround of section 3 -/
theorem salsa_quarterround_refines (y0 y1 y2 y3 : BitVec 32) :
    Salsa.quarterround (ofBV [y0, y1, y2, y3]) =
      .ok (ofBV [(Spec.Salsa20.quarterround y0 y1 y2 y3).1, (Spec.Salsa20.quarterround y0 y1 y2 y3).2.1,
                 (Spec.Salsa20.quarterround y0 y1 y2 y3).2.2.1, (Spec.Salsa20.quarterround y0 y1 y2 y3).2.2.2]) :=
  salsa_qr y0 y1 y2 y3

/-- `y[rM]`, four quarterrounds on the slices, `z[rMinv]` is the rowround of section 4 -/
theorem salsa_rowround_refines (ws : List (BitVec 32)) (h : ws.length = 16) :
    Salsa.rowround Salsa.salsa (ofBV ws) = .ok (ofBV (Spec.Salsa20.rowround ws)) := salsa_rowround ws h

theorem salsa_columnround_refines (ws : List (BitVec 32)) (h : ws.length = 16) :
    Salsa.columnround Salsa.salsa (ofBV ws) = .ok (ofBV (Spec.Salsa20.columnround ws)) := salsa_columnround ws h

theorem salsa_doubleround_refines (ws : List (BitVec 32)) (h : ws.length = 16) :
    Salsa.doubleround Salsa.salsa (ofBV ws) = .ok (ofBV (Spec.Salsa20.doubleround ws)) := salsa_doubleround ws h

/-- `core(X,dround)` for every number of doublerounds: rounds and feed-forward `X+Z` -/
theorem salsa_core_refines (dround : Nat) (ws : List (BitVec 32)) (h : ws.length = 16) :
    Salsa.core Salsa.salsa (ofBV ws) dround = .ok (ofBV (Spec.Salsa20.coreWords dround ws)) := salsa_core dround ws h

theorem chacha_quarterround_refines (a b c d : BitVec 32) :
    Chacha.quarterround (ofBV [a, b, c, d]) =
      .ok (ofBV [(Spec.Chacha.quarterround a b c d).1, (Spec.Chacha.quarterround a b c d).2.1,
                 (Spec.Chacha.quarterround a b c d).2.2.1, (Spec.Chacha.quarterround a b c d).2.2.2]) :=
  chacha_qr a b c d

/-- Chacha's `rowround` (own rM) is the diagonal round -/
theorem chacha_rowround_refines (ws : List (BitVec 32)) (h : ws.length = 16) :
    Salsa.rowround Chacha.chacha (ofBV ws) = .ok (ofBV (Spec.Chacha.diagonalround ws)) := chacha_rowround ws h

/-- Chacha's `columnround` (through cM = salsa20.rMinv) is the column round -/
theorem chacha_columnround_refines (ws : List (BitVec 32)) (h : ws.length = 16) :
    Salsa.columnround Chacha.chacha (ofBV ws) = .ok (ofBV (Spec.Chacha.columnround ws)) := chacha_columnround ws h

theorem chacha_doubleround_refines (ws : List (BitVec 32)) (h : ws.length = 16) :
    Salsa.doubleround Chacha.chacha (ofBV ws) = .ok (ofBV (Spec.Chacha.doubleround ws)) := chacha_doubleround ws h

theorem chacha_core_refines (dround : Nat) (ws : List (BitVec 32)) (h : ws.length = 16) :
    Salsa.core Chacha.chacha (ofBV ws) dround = .ok (ofBV (Spec.Chacha.coreWords dround ws)) := chacha_core dround ws h

/-! ## C. the streams: counter words, `enc = M xor KS[0:|M|]`, length, round trip, prefix -/

/-- the counter words of `block_i` are the specification's counter: the little-endian words of the 8 bytes of `i` -/
theorem words_counter (i : Nat) :
    Spec.Salsa20.words (Spec.Salsa20.le64 i) = [BitVec.ofNat 32 (i % 2 ^ 32), BitVec.ofNat 32 (i / 2 ^ 32)] := words_le64 i

/-- block number `i` of the generator, for EVERY `i` (in particular `i < 2^64`, across the carry at 2^32): the counter
    words written into the state are `i mod 2^32` (low) and `i / 2^32` (high) — by `words_counter` these are the two
    little-endian words of the specification's 8-byte counter — and the block is the core function of that state -/
theorem salsa_block_i (K : Option (List Bits)) (P : List (BitVec 32)) (hP : P.length = 16) (dr i : Nat) :
    Salsa.block Salsa.salsa ⟨K, ofBV P, dr⟩ i =
      .ok (ofBV (Spec.Salsa20.coreWords dr ((P.set 8 (BitVec.ofNat 32 (i % 2 ^ 32))).set 9 (BitVec.ofNat 32 (i / 2 ^ 32)))),
           ⟨K, ofBV ((P.set 8 (BitVec.ofNat 32 (i % 2 ^ 32))).set 9 (BitVec.ofNat 32 (i / 2 ^ 32))), dr⟩) :=
  block_words salsaSpec K P hP dr i

/-- **enc_spec**: for every object state (16 words `P`: any constants/key; a key is present), every 64-bit nonce `x`,
    start block `b0` (0 in the library, other values through the guarded hook) and message `M` whose blocks stay below
    2^64: `enc(v,M) = M xor KS[0:|M|]`, KS = the blocks `b0, b0+1, …` of the core function on the state words with the
    nonce at words 6,7 and the counter at words 8,9 (`encW`, `ksFrom`, `ksBlock` in Proofs.Lemmas.StreamEnc);
    the object afterwards holds the same constants and key. -/
theorem salsa_enc_spec (K : List Bits) (P : List (BitVec 32)) (hP : P.length = 16) (dr x b0 : Nat) (M : List (BitVec 8))
    (hb : b0 + (M.length + 63) / 64 ≤ 2 ^ 64) :
    ∃ P', SameKey 6 8 P P' ∧
      Salsa.encFrom Salsa.salsa ⟨some K, ofBV P, dr⟩ ⟨x, 64⟩ b0 (M.map (·.toNat)) =
        .ok ((encW Spec.Salsa20.coreWords dr 6 8 P x b0 M).map (·.toNat), ⟨some K, ofBV P', dr⟩) :=
  encFrom_words salsaSpec K P hP dr x b0 M hb

/-- `|enc(v,M)| = |M|`, also for the empty message -/
theorem salsa_enc_length (K : List Bits) (P : List (BitVec 32)) (hP : P.length = 16) (dr x b0 : Nat) (M : List (BitVec 8))
    (hb : b0 + (M.length + 63) / 64 ≤ 2 ^ 64) :
    ∃ C s', Salsa.encFrom Salsa.salsa ⟨some K, ofBV P, dr⟩ ⟨x, 64⟩ b0 (M.map (·.toNat)) = .ok (C, s') ∧ C.length = M.length := by
  obtain ⟨P', _, h⟩ := salsa_enc_spec K P hP dr x b0 M hb
  exact ⟨_, _, h, by rw [List.length_map, encW_length salsaSpec dr _ _ P hP]⟩

/-- `dec(v, enc(v,M)) = M` on the same object (the second call starts from the state the first one left) -/
theorem salsa_dec_enc (K : List Bits) (P : List (BitVec 32)) (hP : P.length = 16) (dr x b0 : Nat) (M : List (BitVec 8))
    (hb : b0 + (M.length + 63) / 64 ≤ 2 ^ 64) :
    ∃ s'', (do let (C, s') ← Salsa.encFrom Salsa.salsa ⟨some K, ofBV P, dr⟩ ⟨x, 64⟩ b0 (M.map BitVec.toNat)
               Salsa.encFrom Salsa.salsa s' ⟨x, 64⟩ b0 C) = .ok (M.map BitVec.toNat, s'') := by
  obtain ⟨P', hk, h⟩ := salsa_enc_spec K P hP dr x b0 M hb
  have hl := encW_length salsaSpec dr 6 8 P hP x b0 M
  obtain ⟨P'', _, h2⟩ := salsa_enc_spec K P' (hk.1.trans hP) dr x b0 (encW Spec.Salsa20.coreWords dr 6 8 P x b0 M) (by rw [hl]; exact hb)
  refine ⟨⟨some K, ofBV P'', dr⟩, ?_⟩
  rw [h, bind_ok]
  simp only []
  rw [h2, encW_sameKey _ dr 6 8 hk, encW_encW salsaSpec dr 6 8 P hP]

/-- prefix law: encrypting `M[:k]` (on the object left by any earlier call, or a fresh one) gives `enc(M)[:k]` -/
theorem salsa_enc_prefix (K : List Bits) (P : List (BitVec 32)) (hP : P.length = 16) (dr x b0 : Nat) (M : List (BitVec 8))
    (k : Nat) (hb : b0 + (M.length + 63) / 64 ≤ 2 ^ 64) :
    ∃ C s' s'' s''', Salsa.encFrom Salsa.salsa ⟨some K, ofBV P, dr⟩ ⟨x, 64⟩ b0 (M.map (·.toNat)) = .ok (C, s') ∧
      Salsa.encFrom Salsa.salsa s' ⟨x, 64⟩ b0 ((M.take k).map (·.toNat)) = .ok (C.take k, s'') ∧
      Salsa.encFrom Salsa.salsa ⟨some K, ofBV P, dr⟩ ⟨x, 64⟩ b0 ((M.take k).map (·.toNat)) = .ok (C.take k, s''') := by
  obtain ⟨P', hk, h⟩ := salsa_enc_spec K P hP dr x b0 M hb
  have hb' : b0 + ((M.take k).length + 63) / 64 ≤ 2 ^ 64 := by
    have : ((M.take k).length + 63) / 64 ≤ (M.length + 63) / 64 := by simp only [List.length_take]; omega
    omega
  obtain ⟨P'', _, h2⟩ := salsa_enc_spec K P' (hk.1.trans hP) dr x b0 (M.take k) hb'
  obtain ⟨P3, _, h3⟩ := salsa_enc_spec K P hP dr x b0 (M.take k) hb'
  refine ⟨_, _, ⟨some K, ofBV P'', dr⟩, ⟨some K, ofBV P3, dr⟩, h, ?_, ?_⟩
  · rw [h2, encW_sameKey _ dr 6 8 hk, encW_prefix salsaSpec dr 6 8 P hP, List.map_take]
  · rw [h3, encW_prefix salsaSpec dr 6 8 P hP, List.map_take]

/-- block number `i` of the generator, for EVERY `i` (in particular `i < 2^64`, across the carry at 2^32): the counter
    words written into the state are `i mod 2^32` (low) and `i / 2^32` (high) — by `words_counter` these are the two
    little-endian words of the specification's 8-byte counter — and the block is the core function of that state -/
theorem chacha_block_i (K : Option (List Bits)) (P : List (BitVec 32)) (hP : P.length = 16) (dr i : Nat) :
    Salsa.block Chacha.chacha ⟨K, ofBV P, dr⟩ i =
      .ok (ofBV (Spec.Chacha.coreWords dr ((P.set 12 (BitVec.ofNat 32 (i % 2 ^ 32))).set 13 (BitVec.ofNat 32 (i / 2 ^ 32)))),
           ⟨K, ofBV ((P.set 12 (BitVec.ofNat 32 (i % 2 ^ 32))).set 13 (BitVec.ofNat 32 (i / 2 ^ 32))), dr⟩) :=
  block_words chachaSpec K P hP dr i

/-- **enc_spec**: for every object state (16 words `P`: any constants/key; a key is present), every 64-bit nonce `x`,
    start block `b0` (0 in the library, other values through the guarded hook) and message `M` whose blocks stay below
    2^64: `enc(v,M) = M xor KS[0:|M|]`, KS = the blocks `b0, b0+1, …` of the core function on the state words with the
    nonce at words 14,15 and the counter at words 12,13 (`encW`, `ksFrom`, `ksBlock` in Proofs.Lemmas.StreamEnc);
    the object afterwards holds the same constants and key. -/
theorem chacha_enc_spec (K : List Bits) (P : List (BitVec 32)) (hP : P.length = 16) (dr x b0 : Nat) (M : List (BitVec 8))
    (hb : b0 + (M.length + 63) / 64 ≤ 2 ^ 64) :
    ∃ P', SameKey 14 12 P P' ∧
      Salsa.encFrom Chacha.chacha ⟨some K, ofBV P, dr⟩ ⟨x, 64⟩ b0 (M.map (·.toNat)) =
        .ok ((encW Spec.Chacha.coreWords dr 14 12 P x b0 M).map (·.toNat), ⟨some K, ofBV P', dr⟩) :=
  encFrom_words chachaSpec K P hP dr x b0 M hb

/-- `|enc(v,M)| = |M|`, also for the empty message -/
theorem chacha_enc_length (K : List Bits) (P : List (BitVec 32)) (hP : P.length = 16) (dr x b0 : Nat) (M : List (BitVec 8))
    (hb : b0 + (M.length + 63) / 64 ≤ 2 ^ 64) :
    ∃ C s', Salsa.encFrom Chacha.chacha ⟨some K, ofBV P, dr⟩ ⟨x, 64⟩ b0 (M.map (·.toNat)) = .ok (C, s') ∧ C.length = M.length := by
  obtain ⟨P', _, h⟩ := chacha_enc_spec K P hP dr x b0 M hb
  exact ⟨_, _, h, by rw [List.length_map, encW_length chachaSpec dr _ _ P hP]⟩

/-- `dec(v, enc(v,M)) = M` on the same object (the second call starts from the state the first one left) -/
theorem chacha_dec_enc (K : List Bits) (P : List (BitVec 32)) (hP : P.length = 16) (dr x b0 : Nat) (M : List (BitVec 8))
    (hb : b0 + (M.length + 63) / 64 ≤ 2 ^ 64) :
    ∃ s'', (do let (C, s') ← Salsa.encFrom Chacha.chacha ⟨some K, ofBV P, dr⟩ ⟨x, 64⟩ b0 (M.map BitVec.toNat)
               Salsa.encFrom Chacha.chacha s' ⟨x, 64⟩ b0 C) = .ok (M.map BitVec.toNat, s'') := by
  obtain ⟨P', hk, h⟩ := chacha_enc_spec K P hP dr x b0 M hb
  have hl := encW_length chachaSpec dr 14 12 P hP x b0 M
  obtain ⟨P'', _, h2⟩ := chacha_enc_spec K P' (hk.1.trans hP) dr x b0 (encW Spec.Chacha.coreWords dr 14 12 P x b0 M) (by rw [hl]; exact hb)
  refine ⟨⟨some K, ofBV P'', dr⟩, ?_⟩
  rw [h, bind_ok]
  simp only []
  rw [h2, encW_sameKey _ dr 14 12 hk, encW_encW chachaSpec dr 14 12 P hP]

/-- prefix law: encrypting `M[:k]` (on the object left by any earlier call, or a fresh one) gives `enc(M)[:k]` -/
theorem chacha_enc_prefix (K : List Bits) (P : List (BitVec 32)) (hP : P.length = 16) (dr x b0 : Nat) (M : List (BitVec 8))
    (k : Nat) (hb : b0 + (M.length + 63) / 64 ≤ 2 ^ 64) :
    ∃ C s' s'' s''', Salsa.encFrom Chacha.chacha ⟨some K, ofBV P, dr⟩ ⟨x, 64⟩ b0 (M.map (·.toNat)) = .ok (C, s') ∧
      Salsa.encFrom Chacha.chacha s' ⟨x, 64⟩ b0 ((M.take k).map (·.toNat)) = .ok (C.take k, s'') ∧
      Salsa.encFrom Chacha.chacha ⟨some K, ofBV P, dr⟩ ⟨x, 64⟩ b0 ((M.take k).map (·.toNat)) = .ok (C.take k, s''') := by
  obtain ⟨P', hk, h⟩ := chacha_enc_spec K P hP dr x b0 M hb
  have hb' : b0 + ((M.take k).length + 63) / 64 ≤ 2 ^ 64 := by
    have : ((M.take k).length + 63) / 64 ≤ (M.length + 63) / 64 := by simp only [List.length_take]; omega
    omega
  obtain ⟨P'', _, h2⟩ := chacha_enc_spec K P' (hk.1.trans hP) dr x b0 (M.take k) hb'
  obtain ⟨P3, _, h3⟩ := chacha_enc_spec K P hP dr x b0 (M.take k) hb'
  refine ⟨_, _, ⟨some K, ofBV P'', dr⟩, ⟨some K, ofBV P3, dr⟩, h, ?_, ?_⟩
  · rw [h2, encW_sameKey _ dr 14 12 hk, encW_prefix chachaSpec dr 14 12 P hP, List.map_take]
  · rw [h3, encW_prefix chachaSpec dr 14 12 P hP, List.map_take]

/-! ## C'. the Salsa20 hash ('core') function on 64 bytes -/

/-- **hash_refines** (20 rounds = 10 doublerounds, whatever `rounds` the object was built with): for every 64-byte input,
    `Salsa20().hash(m)` — `Bits(m,bitorder=1).split(32)`, `core`, `pack` of every word — is the Salsa20 hash function of
    section 8: little-endian words, 10 doublerounds, feed-forward, little-endian bytes -/
theorem salsa_hash_refines (m : List (BitVec 8)) (hm : m.length = 64) :
    Salsa.hash Salsa.salsa (m.map BitVec.toNat) = .ok ((Spec.Salsa20.hash m).map BitVec.toNat) :=
  Proofs.Lemmas.SalsaKey.hash_words salsaSpec m hm

/-- the inherited `Chacha().hash(m)` is the ChaCha20 core (column/diagonal rounds) on the 16 little-endian words of `m` -/
theorem chacha_hash_refines (m : List (BitVec 8)) (hm : m.length = 64) :
    Salsa.hash Chacha.chacha (m.map BitVec.toNat) =
      .ok ((Spec.Salsa20.unwords (Spec.Chacha.coreWords 10 (Spec.Salsa20.words m))).map BitVec.toNat) :=
  Proofs.Lemmas.SalsaKey.hash_words chachaSpec m hm

/-! ## C''. key expansion and the end-to-end statements in bytes -/

/-- **end to end** (salsa): for every 16- or 32-byte key, 8-byte nonce, positive even `rounds`, start block `b0` and
    message `M` with all block numbers below 2^64 — the object built from `Bits(key,bitorder=1)`, called with
    `Bits(nonce,bitorder=1)` — returns exactly the ciphertext the specification defines (Spec.Salsa20.encFrom: M xor the
    keystream blocks hash_r(expand(key, nonce ‖ le64(i))), i = b0, b0+1, …), and it has the length of `M` -/
theorem salsa_enc_end_to_end (key v M : List (BitVec 8)) (hk : key.length = 16 ∨ key.length = 32) (hv : v.length = 8)
    (rounds : Int) (hr : rounds > 0 ∧ rounds % 2 = 0) (b0 : Nat) (hb : b0 + (M.length + 63) / 64 ≤ 2 ^ 64) :
    ∃ C s', Spec.Salsa20.encFrom (rounds / 2).toNat key v b0 M = some C ∧ C.length = M.length ∧
      (do let K ← Bits.ofBytes (key.map BitVec.toNat) none 1
          let st ← Salsa.init (some K) rounds
          let nv ← Bits.ofBytes (v.map BitVec.toNat) none 1
          Salsa.encFrom Salsa.salsa st nv b0 (M.map BitVec.toNat)) = .ok (C.map BitVec.toNat, s') := by
  obtain ⟨ks, hinit⟩ := Proofs.Lemmas.SalsaEnd.salsa_init_bytes key hk rounds hr
  have hP := Proofs.Lemmas.SalsaEnd.salsaP_length key
  obtain ⟨P', _, henc⟩ := encFrom_words salsaSpec ks _ hP (rounds / 2).toNat (Proofs.Lemmas.SalsaKey.leVal v) b0 M hb
  refine ⟨_, ⟨some ks, ofBV P', (rounds / 2).toNat⟩, Proofs.Lemmas.SalsaEnd.salsa_spec_enc _ key v hk hv b0 M hb, encW_length salsaSpec _ _ _ _ hP _ _ _, ?_⟩
  have hv8 : 8 * v.length = 64 := by omega
  have hnv := Proofs.Lemmas.SalsaKey.ofBytes_le v
  rw [hv8] at hnv
  simp only [Proofs.Lemmas.SalsaKey.nat, bind, Except.bind] at hinit hnv ⊢
  split at hinit
  · simp at hinit
  · rename_i K hK
    rw [hinit]
    simp only []
    rw [hnv]
    exact henc

/-- **end to end** (chacha): for every 16- or 32-byte key, 8-byte nonce, positive even `rounds`, start block `b0` and
    message `M` with all block numbers below 2^64 — the object built from `Bits(key,bitorder=1)`, called with
    `Bits(nonce,bitorder=1)` — returns exactly the ciphertext the specification defines (Spec.Chacha.encFrom: M xor the
    keystream blocks hash_r(expand(key, nonce ‖ le64(i))), i = b0, b0+1, …), and it has the length of `M` -/
theorem chacha_enc_end_to_end (key v M : List (BitVec 8)) (hk : key.length = 16 ∨ key.length = 32) (hv : v.length = 8)
    (rounds : Int) (hr : rounds > 0 ∧ rounds % 2 = 0) (b0 : Nat) (hb : b0 + (M.length + 63) / 64 ≤ 2 ^ 64) :
    ∃ C s', Spec.Chacha.encFrom (rounds / 2).toNat key v b0 M = some C ∧ C.length = M.length ∧
      (do let K ← Bits.ofBytes (key.map BitVec.toNat) none 1
          let st ← Chacha.init (some K) rounds
          let nv ← Bits.ofBytes (v.map BitVec.toNat) none 1
          Salsa.encFrom Chacha.chacha st nv b0 (M.map BitVec.toNat)) = .ok (C.map BitVec.toNat, s') := by
  obtain ⟨ks, hinit⟩ := Proofs.Lemmas.SalsaEnd.chacha_init_bytes key hk rounds hr
  have hP := Proofs.Lemmas.SalsaEnd.chachaP_length key
  obtain ⟨P', _, henc⟩ := encFrom_words chachaSpec ks _ hP (rounds / 2).toNat (Proofs.Lemmas.SalsaKey.leVal v) b0 M hb
  refine ⟨_, ⟨some ks, ofBV P', (rounds / 2).toNat⟩, Proofs.Lemmas.SalsaEnd.chacha_spec_enc _ key v hk hv b0 M hb, encW_length chachaSpec _ _ _ _ hP _ _ _, ?_⟩
  have hv8 : 8 * v.length = 64 := by omega
  have hnv := Proofs.Lemmas.SalsaKey.ofBytes_le v
  rw [hv8] at hnv
  simp only [Proofs.Lemmas.SalsaKey.nat, bind, Except.bind] at hinit hnv ⊢
  split at hinit
  · simp at hinit
  · rename_i K hK
    rw [hinit]
    simp only []
    rw [hnv]
    exact henc

/-! ## C'''. what is refused -/

/-- key sizes other than 128/256 bits, and round counts that are not positive and even, are refused by both constructors -/
theorem init_rejects (K : Bits) (rounds : Int) (h : (K.size ≠ 128 ∧ K.size ≠ 256) ∨ ¬ (rounds > 0 ∧ rounds % 2 = 0)) :
    (∃ e, Salsa.init (some K) rounds = .error e) ∧ (∃ e, Chacha.init (some K) rounds = .error e) := by
  have hs : ∃ e, Salsa.init (some K) rounds = .error e := by
    unfold Salsa.init
    dsimp only
    by_cases hk : K.size ≠ 128 ∧ K.size ≠ 256
    · rw [if_pos hk]; exact ⟨_, rfl⟩
    · have hr : ¬ (rounds > 0 ∧ rounds % 2 = 0) := by rcases h with h | h; exact absurd h hk; exact h
      rw [if_neg hk]
      simp only [bind, Except.bind]
      split
      · exact ⟨_, rfl⟩
      · rw [if_pos hr]; exact ⟨_, rfl⟩
  refine ⟨hs, ?_⟩
  obtain ⟨e, he⟩ := hs
  exact ⟨e, by unfold Chacha.init; rw [he]; rfl⟩

/-- `keystream`/`enc` without a key, or with a nonce that is not 64 bits wide, is refused -/
theorem enc_rejects (V : Salsa.Variant) (s : Salsa.State) (v : Bits) (b0 : Nat) (m : List Nat)
    (h : s.K = none ∨ v.size ≠ 64) : ∃ e, Salsa.encFrom V s v b0 m = .error e := by
  unfold Salsa.encFrom Salsa.setNonce
  rcases h with h | h
  · exact ⟨_, by simp only [h, Option.isNone_none, ↓reduceIte]; rfl⟩
  · by_cases hk : s.K.isNone
    · exact ⟨_, by simp only [hk, ↓reduceIte]; rfl⟩
    · exact ⟨_, by simp only [hk, Bool.false_eq_true, ↓reduceIte, h, ne_eq, not_false_eq_true]; rfl⟩

/-! ## D. RC4 -/

open Proofs.Lemmas.Rc4 in
/-- **ksa_refines**: `RC4(K)` for every key of 1..256 bytes: `S` is the permutation of the specified KSA, `i = j = 0` -/
theorem rc4_ksa_refines (key : List (BitVec 8)) (h0 : 0 < key.length) (h1 : key.length ≤ 256) :
    Rc4.init (key.map BitVec.toNat) = .ok ⟨ofBV key, ofBV (Spec.Rc4.ksa key), 0, 0⟩ := by
  rw [init_refines key h0 h1]
  simp only [stateOf, Spec.Rc4.start]
  rfl

open Proofs.Lemmas.Rc4 in
/-- keys outside 1..256 bytes are refused -/
theorem rc4_key_length_checked (key : List Nat) (h : key.length = 0 ∨ key.length > 256) : ∃ e, Rc4.init key = .error e := by
  unfold Rc4.init
  have hd : (Poly.ofBytes key).dim = key.length := by simp [Poly.ofBytes, Poly.ofList, Poly.dim]
  rcases h with h | h
  · exact ⟨_, by simp only [hd, h, ↓reduceIte]; rfl⟩
  · have : ¬ key.length = 0 := by omega
    exact ⟨_, by simp only [hd, this, h, ↓reduceIte]; rfl⟩

open Proofs.Lemmas.Rc4 in
/-- **prga_refines**: `keystream(n)` on an object representing the specification state `sp` returns the next `n` bytes of
    the specified PRGA and leaves the object representing the specified successor state (S, i, j persist) -/
theorem rc4_prga_refines (K : Poly) (sp : Spec.Rc4.St) (hlen : sp.S.length = 256) (n : Nat) :
    Rc4.keystream (stateOf K sp) n = .ok (ofBV (Spec.Rc4.prga n sp).1, stateOf K (Spec.Rc4.prga n sp).2) := by
  unfold Rc4.keystream stateOf
  rw [prga_refines n sp hlen, bind_ok]
  simp only [pure, Except.pure]
  rw [ofList_bytes]

open Proofs.Lemmas.Rc4 in
/-- `enc(M) = M xor (next |M| keystream bytes)`, the state carries on; in particular `|enc(M)| = |M|` (also for `b''`) -/
theorem rc4_enc_spec (K : Poly) (sp : Spec.Rc4.St) (hlen : sp.S.length = 256) (M : List (BitVec 8)) :
    Rc4.enc (stateOf K sp) (M.map (·.toNat)) = .ok ((Spec.Rc4.enc sp M).1.map (·.toNat), stateOf K (Spec.Rc4.enc sp M).2)
    ∧ (Spec.Rc4.enc sp M).1.length = M.length
    ∧ (Spec.Rc4.enc sp M).2.S.length = 256 := by
  refine ⟨enc_refines K sp hlen M, ?_, by rw [enc_S_length]; exact hlen⟩
  simp only [Spec.Rc4.enc, List.length_zipWith, prga_ks_length, Nat.min_self]

open Proofs.Lemmas.Rc4 in
/-- **continuity**: on a fresh object, `enc(M1 ++ M2)` = `enc(M1)` followed by `enc(M2)` on the carried state -/
theorem rc4_continuity (key : List (BitVec 8)) (h0 : 0 < key.length) (h1 : key.length ≤ 256) (M1 M2 : List (BitVec 8)) :
    (do let st ← Rc4.init (key.map BitVec.toNat)
        let (c, _) ← Rc4.enc st ((M1 ++ M2).map BitVec.toNat)
        pure c)
    = (do let st ← Rc4.init (key.map BitVec.toNat)
          let (c1, st1) ← Rc4.enc st (M1.map BitVec.toNat)
          let (c2, _) ← Rc4.enc st1 (M2.map BitVec.toNat)
          pure (c1 ++ c2)) := by
  have hl := start_length key
  rewrite [init_refines key h0 h1]
  simp only [bind_ok]
  rw [enc_refines (ofBV key) (Spec.Rc4.start key) hl, enc_refines (ofBV key) (Spec.Rc4.start key) hl, bind_ok, bind_ok]
  simp only []
  rw [enc_refines _ _ (by rw [enc_S_length]; exact hl), bind_ok]
  simp only [pure, Except.pure, spec_enc_append, List.map_append]

open Proofs.Lemmas.Rc4 in
/-- **any split**: encrypting the pieces `M1 | M2 | … | Mn` (empty pieces allowed) in successive calls on one object yields,
    concatenated, exactly `RC4_spec(K) xor (M1 ++ … ++ Mn)` = the one-shot encryption by a fresh object -/
theorem rc4_any_split (key : List (BitVec 8)) (h0 : 0 < key.length) (h1 : key.length ≤ 256) (Ms : List (List (BitVec 8))) :
    (do let st ← Rc4.init (key.map BitVec.toNat)
        let (cs, _) ← Rc4.encSeq st (Ms.map (List.map BitVec.toNat))
        pure cs.flatten)
    = .ok ((Spec.Rc4.encrypt key Ms.flatten).map (·.toNat))
    ∧ (do let st ← Rc4.init (key.map BitVec.toNat)
          let (c, _) ← Rc4.enc st (Ms.flatten.map BitVec.toNat)
          pure c)
      = .ok ((Spec.Rc4.encrypt key Ms.flatten).map (·.toNat)) := by
  have hl := start_length key
  rewrite [init_refines key h0 h1]
  simp only [bind_ok]
  rw [encSeq_refines (ofBV key) (Spec.Rc4.start key) hl, enc_refines (ofBV key) (Spec.Rc4.start key) hl, bind_ok, bind_ok]
  simp only [pure, Except.pure, Spec.Rc4.encrypt]
  have := specSeq_flatten (Spec.Rc4.start key) Ms
  constructor
  · rw [← this]; simp [List.map_flatten]
  · trivial

open Proofs.Lemmas.Rc4 in
/-- `RC4(K).dec(RC4(K).enc(M)) = M` (two fresh objects) -/
theorem rc4_dec_enc (key : List (BitVec 8)) (h0 : 0 < key.length) (h1 : key.length ≤ 256) (M : List (BitVec 8)) :
    (do let st ← Rc4.init (key.map BitVec.toNat)
        let (c, _) ← Rc4.enc st (M.map BitVec.toNat)
        let st' ← Rc4.init (key.map BitVec.toNat)
        let (m, _) ← Rc4.dec st' c
        pure m) = .ok (M.map (·.toNat)) := by
  have hl := start_length key
  rewrite [init_refines key h0 h1]
  simp only [bind_ok, Rc4.dec]
  rw [enc_refines (ofBV key) (Spec.Rc4.start key) hl, bind_ok]
  simp only []
  rw [enc_refines (ofBV key) (Spec.Rc4.start key) hl, bind_ok]
  have hx := xorB_xorB M (Spec.Rc4.prga M.length (Spec.Rc4.start key)).1 (by rw [prga_ks_length]; exact Nat.le_refl _)
  unfold xorB at hx
  simp only [pure, Except.pure, Spec.Rc4.enc, List.length_zipWith, prga_ks_length, Nat.min_self, hx]

/-! ## non-vacuity: the hypothesis sets are inhabited by non-trivial instances -/

/-- a 32-byte key, non-zero nonce, 20 rounds, a 3-block message of ragged length that starts one block before the carry at 2^32 -/
example : ∃ (key v M : List (BitVec 8)) (rounds : Int) (b0 : Nat),
    (key.length = 16 ∨ key.length = 32) ∧ v.length = 8 ∧ (rounds > 0 ∧ rounds % 2 = 0) ∧
    b0 + (M.length + 63) / 64 ≤ 2 ^ 64 ∧ M.length % 64 ≠ 0 ∧ b0 < 2 ^ 32 ∧ 2 ^ 32 < b0 + (M.length + 63) / 64 ∧ v ≠ List.replicate 8 0 :=
  ⟨List.replicate 32 1, List.replicate 8 2, List.replicate 130 3, 20, 2 ^ 32 - 1, by
    refine ⟨Or.inr (by simp), by simp, by decide, by simp, by simp, by decide, by simp, ?_⟩
    intro h; have := congrArg (fun l => l.getD 0 0) h; simp at this⟩

/-- a state with 16 words exists for every key (e.g. the one `__init__` leaves), here a concrete one -/
example : ∃ P : List (BitVec 32), P.length = 16 := ⟨(List.range 16).map (BitVec.ofNat 32), by decide⟩

/-- RC4 keys of 1 and of 256 bytes -/
example : ∃ k1 k2 : List (BitVec 8), 0 < k1.length ∧ k1.length ≤ 256 ∧ k2.length = 256 :=
  ⟨[1], List.replicate 256 7, by refine ⟨by decide, by decide, List.length_replicate ..⟩⟩

/-- an RC4 specification state with a 256-entry S exists: the start state of any key -/
example (key : List (BitVec 8)) : (Spec.Rc4.start key).S.length = 256 := Proofs.Lemmas.Rc4.start_length key

end Proofs.C06
