/-
  C06 — Salsa20, ChaCha, RC4.
-/
import Model.Salsa
import Model.Chacha
import Model.Rc4
import Spec.Salsa20
import Spec.Chacha
import Spec.Rc4
namespace Proofs.C06
open Model Model.Gen.Streams

/-- the rotation amounts read from `Salsa20.quarterround` are those of the specification (7, 9, 13, 18) -/
theorem salsa_rotations : salsaRot = [7, 9, 13, 18] := by decide
/-- the rotation amounts read from `Chacha.quarterround` are those of the specification (16, 12, 8, 7) -/
theorem chacha_rotations : chachaRot = [16, 12, 8, 7] := by decide

end Proofs.C06
