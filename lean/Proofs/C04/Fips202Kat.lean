/-
  C04 / FIPS 202 — the literal transcription Spec.Fips202 evaluated inside the kernel (`decide +kernel`), owing
  nothing to Spec.Keccak, to the models or to anything regenerated from the library.

  * the closures of Spec.Fips202 themselves (θ ρ π χ ι, rc, Rnd, KECCAK-p, string ⇔ state array, h2b, b2h) on
    inputs small enough for the un-memoised reading: KECCAK-p[25, 2] (rounds ir = 10, 11) and KECCAK-p[200, 1]
    (round ir = 17); expected values from the independent Python reference (tools/props/C04.py conventions);
  * KECCAK-f[200] of the all-zero state, the first line of the published KeccakF-200 intermediate values
    (3C 28 26 84 1C B3 5C 17 1E AA E9 B8 11 13 4C EA A3 85 2C 69 D2 C5 AB AF EA), through the evaluator of
    Spec.Fips202Eval and `Proofs.C04_Fips202.KECCAK_p_eval_eq`.
-/
import Spec.Fips202
import Spec.Fips202Eval
import Proofs.C04_Fips202
namespace Proofs.C04.Fips202Kat
open Spec.Fips202

/-- KECCAK-p[25, 2] on the 25-bit string 1110100001111000111001101 (= h2b(171E6701, 25)) -/
example : bytesOfHex (b2h (KECCAK_p 25 2 (h2b [1, 7, 1, 14, 6, 7, 0, 1] 25))) = [0xfd, 0xee, 0x84, 0x01] := by
  decide +kernel

/-- KECCAK-p[200, 1] on the bytes 01 02 … 19 -/
example : bytesOfHex (b2h (KECCAK_p 200 1 (h2b (hexOfBytes
      [1, 2, 3, 4, 5, 6, 7, 8, 9, 10, 11, 12, 13, 14, 15, 16, 17, 18, 19, 20, 21, 22, 23, 24, 25]) 200)))
    = [0x88, 0xc1, 0x18, 0x51, 0x40, 0x01, 0x02, 0xf0, 0x13, 0x21, 0x30, 0x85, 0x3e, 0x04, 0x95, 0xf4, 0x73, 0x0d,
       0xfe, 0x00, 0xc5, 0x08, 0xee, 0x01, 0x6c] := by decide +kernel

/-- rc(t) for t = 0 … 15 and two negative arguments (t mod 255 on the integers): rc(−255) = rc(0), rc(−254) = rc(1) -/
example : (List.range 16).map (fun (t : Nat) => rc (t : Int)) =
    [true, false, false, false, false, false, false, false, true, false, true, true, false, false, false, true]
    ∧ rc (-255) = true ∧ rc (-254) = false := by decide +kernel

/-- pad10*1(8, 5) = 1 0 1 (j = (−5−2) mod 8 = 1); pad10*1(8, 6) = 1 1 (j = 0); pad10*1(8, 7) = 1 0^7 1 (spills into
    an extra block) -/
example : pad10s1 8 5 = [true, false, true] ∧ pad10s1 8 6 = [true, true] ∧ pad10s1 8 7 = [true] ++ zeros 7 ++ [true]
    ∧ pad10s1 1 7 = [true, true] := by
  decide +kernel

theorem kat_f200_eval : bytesOfHex (b2h (Eval.KECCAK_p_eval 200 18 (zeros 200)))
    = [0x3C, 0x28, 0x26, 0x84, 0x1C, 0xB3, 0x5C, 0x17, 0x1E, 0xAA, 0xE9, 0xB8, 0x11, 0x13, 0x4C, 0xEA, 0xA3, 0x85,
       0x2C, 0x69, 0xD2, 0xC5, 0xAB, 0xAF, 0xEA] := by decide +kernel

/-- KECCAK-f[200] of the literal transcription on 0^200 = the published value -/
example : bytesOfHex (b2h (KECCAK_f 200 (zeros 200)))
    = [0x3C, 0x28, 0x26, 0x84, 0x1C, 0xB3, 0x5C, 0x17, 0x1E, 0xAA, 0xE9, 0xB8, 0x11, 0x13, 0x4C, 0xEA, 0xA3, 0x85,
       0x2C, 0x69, 0xD2, 0xC5, 0xAB, 0xAF, 0xEA] := by
  have h := Proofs.C04_Fips202.KECCAK_p_eval_eq (w := 8) (by decide) 18 (by decide) (zeros 200)
  have e : KECCAK_f 200 (zeros 200) = KECCAK_p (25 * 8) 18 (zeros 200) := rfl
  rw [e, ← h]
  exact kat_f200_eval

end Proofs.C04.Fips202Kat
