/-
  C18 — the white-box DES tables compute exactly DES under the embedded key.
  ONLY property theorems (and their non-vacuity examples) live here; helper lemmas are in Proofs/Lemmas/Wb*.lean.
-/
import Model.Wb
import Model.Gen.Wb
import Proofs.Lemmas.WbBasic
import Proofs.Lemmas.WbTables
import Proofs.Lemmas.WbKey
import Proofs.Lemmas.WbStatic
import Proofs.Lemmas.WbLayout
import Proofs.Lemmas.WbRound
import Proofs.Lemmas.WbEnc
import Proofs.Lemmas.DesRefine
import Proofs.Lemmas.WbParity
namespace Proofs.C18
open Model Model.Wb Model.Bits Proofs.Lemmas.Wb

/-! ### the key-independent tables: Model generator = what the real code returns (closed terms, kernel evaluation) -/

/-- `getrbits_T_in()` -/
theorem rbits_eq_gen : getrbitsTin = .ok Gen.Wb.rbits := rbits_gen

/-- `table_M1()` -/
theorem tableM1_eq_gen : tableM1 = .ok Gen.Wb.m1 := tableM1_gen

/-- `SRLRformat()` -/
theorem srlr_eq_gen : srlrFormat = .ok (Gen.Wb.srlrSR, Gen.Wb.srlrL, Gen.Wb.srlrR) := srlr_gen

/-- `ERLRformat()` -/
theorem erlr_eq_gen : erlrFormat = .ok (Gen.Wb.erlrER, Gen.Wb.erlrL, Gen.Wb.erlrR) := erlr_gen

/-- `table_M2()`: both the matrix rows and the list `m` they are built from -/
theorem tableM2_eq_gen : tableM2 = .ok (Gen.Wb.m2mat, Gen.Wb.m2m) := tableM2_gen

/-- `table_M3()` -/
theorem tableM3_eq_gen : tableM3 = .ok Gen.Wb.m3 := tableM3_gen

/-! ### the key-dependent tables, for EVERY key (any `Bits` value, in particular every `Bits(K,64)`) and every round -/

/-- every generated T-box is a total map on 0..255 with byte outputs: `table_rKT(r,K)` succeeds and returns twelve
    tables of exactly 256 entries, every entry below 256 -/
theorem tbox_shape (K : Bits) (r : Nat) (hr : r < 16) :
    ∃ rks rkt, tableRKT r K = .ok (rks, rkt) ∧ rkt.length = 12 ∧ ∀ t ∈ rkt, t.length = 256 ∧ ∀ e ∈ t, e < 256 := by
  obtain ⟨fk, rks, rkt, _, _, h3, _, h5, _, h7⟩ := tableRKT_ok K r hr
  refine ⟨rks, rkt, h3, h5.1, ?_⟩
  intro t ht
  refine ⟨h5.2 t ht, ?_⟩
  intro e he
  obtain ⟨n, hn, rfl⟩ := List.getElem_of_mem ht
  obtain ⟨v, hv, rfl⟩ := List.getElem_of_mem he
  have hn' : n < 12 := by rw [← h5.1]; exact hn
  have hv' : v < 256 := by rw [← h5.2 _ ht]; exact hv
  rw [← get2_eq_getElem hn hv, h7]
  by_cases c : n < 8
  · rw [if_pos ⟨c, hv'⟩]; exact tboxVal_lt _ _
  · rw [if_neg (fun x => c x.1), get2_ident n v hn' hv']; exact hv'

/-- the same for the whole network `KT` of a key: sixteen rounds of twelve byte tables -/
theorem kt_shape (K : Bits) :
    ∃ kt, KT K = .ok kt ∧ kt.length = 16 ∧
      ∀ round ∈ kt, round.length = 12 ∧ ∀ t ∈ round, t.length = 256 ∧ ∀ e ∈ t, e < 256 := by
  obtain ⟨kt, h1, h2, h3⟩ := mapM_ok (fun r => do let t ← tableRKT r K; pure t.2)
    (fun _ round => round.length = 12 ∧ ∀ t ∈ round, t.length = 256 ∧ ∀ e ∈ t, e < 256) (List.range 16)
    (by
      intro r hr
      obtain ⟨rks, rkt, a1, a2⟩ := tbox_shape K r (List.mem_range.mp hr)
      exact ⟨rkt, by simp [a1, bind, Except.bind, pure, Except.pure], a2⟩)
  refine ⟨kt, h1, by simpa using h2, ?_⟩
  intro round hround
  obtain ⟨i, hi, rfl⟩ := List.getElem_of_mem hround
  exact h3 i (by rw [← h2]; exact hi) hi

/-- the four bypass tables (n = 8..11) are the identity on 0..255, whatever the key -/
theorem bypass_identity (K : Bits) (r : Nat) (hr : r < 16) (n : Nat) (h8 : 8 ≤ n) (h12 : n < 12) :
    ∃ rks rkt, tableRKT r K = .ok (rks, rkt) ∧ rkt.getD n [] = List.range 256 := by
  obtain ⟨fk, rks, rkt, _, _, h3, _, h5, _, h7⟩ := tableRKT_ok K r hr
  refine ⟨rks, rkt, h3, ?_⟩
  have hl : (rkt.getD n []).length = 256 := shape_getD h5 h12
  apply List.ext_getElem (by rw [hl]; simp)
  intro v hv _
  have hv' : v < 256 := by rw [← hl]; exact hv
  have := h7 n v
  rw [if_neg (fun x => by omega), get2_ident n v h12 hv'] at this
  simp only [get2, List.getD_eq_getElem?_getD] at this
  simp only [List.getElem_range]
  rw [List.getD_eq_getElem?_getD] at hv
  simpa [List.getElem?_eq_getElem hv] using this

/-- what a T-box holds: for every key, round r, S-box n < 8 and input byte v, entry v of T-box n is the byte
    `Bits(s,4) // Bits(v,8)[(0,5,6,7)]` where `s` is what the S-box loop of `des.F` writes for the 6-bit chunk
    `Bits(v mod 64, 6) xor (chunk n of the round key subkey(PC1(K),r))` (`sboxOut` is that expression of `des.F`) -/
theorem tbox_sem (K : Bits) (r : Nat) (hr : r < 16) (n : Nat) (hn : n < 8) (v : Nat) (hv : v < 256) :
    ∃ fk rks rkt s, Des.subkey (Des.PC1 K) r = .ok fk ∧ tableRKT r K = .ok (rks, rkt) ∧
      sboxOut n ((ofNatSz (v % 64) 6).xor (fk.sliceFast (6 * n) (6 * n + 6))) = .ok s ∧
      (rkt.getD n []).getD v 0 = ((ofNatSz s 4).concat ((ofNatSz v 8).pick [0, 5, 6, 7])).ival := by
  obtain ⟨fk, rks, rkt, h1, _, h3, _, _, h6, h7⟩ := tableRKT_ok K r hr
  refine ⟨fk, rks, rkt, _, h1, h3, sboxOut_ok n hn _, ?_⟩
  have := h7 n v
  rw [if_pos ⟨hn, hv⟩, low6_eq v, h6 n hn (v % 64) (Nat.mod_lt _ (by decide))] at this
  exact this

/-- table generation is total: for EVERY key string the network exists; its key-independent part is the three
    extracted tables and its key-dependent part has the shape of `kt_shape` -/
theorem network_total (K : List Nat) :
    ∃ w, mkWhiteDES K = .ok w ∧ w.tM1 = Gen.Wb.m1 ∧ w.tM2 = Gen.Wb.m2mat ∧ w.tM3 = Gen.Wb.m3 ∧ w.KT.length = 16 ∧
      ∀ round ∈ w.KT, round.length = 12 ∧ ∀ t ∈ round, t.length = 256 ∧ ∀ e ∈ t, e < 256 := by
  obtain ⟨b, hb, _⟩ := ofBytes64_ok K
  obtain ⟨kt, h1, h2, h3⟩ := kt_shape b
  exact ⟨⟨kt, Gen.Wb.m1, Gen.Wb.m2mat, Gen.Wb.m3⟩, by
    simp [mkWhiteDES, hb, h1, tableM1_eq_gen, tableM2_eq_gen, tableM3_eq_gen, bind, Except.bind, pure, Except.pure],
    rfl, rfl, rfl, h2, h3⟩

/-! ### the linear layer and the rounds -/

/-- the key-independent layer, stated on the extracted tables: the input map is the state layout applied after IP, the
    output map is IPinv of the swapped halves read back from the layout, and every row of the mixing matrix M2 gathers
    from the post-T-box state exactly the R bit, or the pair (L_j, S_{P(j)}), that the next state needs there
    (`encIdx`, `postIdx`, `swapIdx`: Proofs/Lemmas/WbLayout.lean; all three are kernel-checked index identities) -/
theorem layout_identities :
    Gen.Wb.m1 = encIdx.map (fun x => Gen.Des.ip.getD x 0) ∧
    (Gen.Wb.m3.map fun x => encIdx.getD x 0) = Gen.Des.ipinv.map (fun x => swapIdx.getD x 0) ∧
    ∀ b < 96, Gen.Wb.m2mat.getD b 0 = rowMask (Gen.Wb.m2m.getD b []) ∧
      (encIdx.getD b 0 < 32 → (Gen.Wb.m2m.getD b []).map postIdx = [64 + encIdx.getD b 0]) ∧
      (32 ≤ encIdx.getD b 0 → (Gen.Wb.m2m.getD b []).map postIdx = [Gen.Des.p.getD (encIdx.getD b 0 - 32) 0, encIdx.getD b 0]) := by
  refine ⟨m1_eq, m3_eq, ?_⟩
  intro b hb
  obtain ⟨t1, t2, t3⟩ := round_table b hb
  refine ⟨t1, ?_, ?_⟩
  · intro c; obtain ⟨u1, _, u3⟩ := t2 c; rw [u1]; simp only [List.map_cons, List.map_nil, u3]
  · intro c; obtain ⟨u1, _, _, _, u5, u6⟩ := t3 c; rw [u1]; simp only [List.map_cons, List.map_nil, u5, u6]

/-- ONE ROUND, for every key, every round index and every pair of halves: the twelve T-box substitutions followed by
    `__FX` map the encoding of (L, R) to the encoding of (R, L xor F(R, k_r)), `F` and the key schedule being those of
    Model.Des (`enc L R` = `(L // R)[encIdx]`, the 96-bit state layout) -/
theorem round_refines (K : Bits) (r : Nat) (hr : r < 16) (L R : Bits)
    (hL : L.size = 32) (hLw : L.WF) (hR : R.size = 32) (hRw : R.WF) :
    ∃ rks rkt fout, tableRKT r K = .ok (rks, rkt) ∧ Des.F R (Des.PC1 K) r = .ok fout ∧
      (tboxLoop rkt (List.range 12) (enc L R) >>= (WhiteDES.mk [] [] Gen.Wb.m2mat []).FX) = .ok (enc R (L.xor fout)) := by
  obtain ⟨_, rks, rkt, _, _, h3, _⟩ := tableRKT_ok K r hr
  obtain ⟨fout, f1, _, _, f4⟩ := round_ok K r hr L R hL hLw hR hRw rks rkt h3 ⟨[], [], Gen.Wb.m2mat, []⟩ rfl
  exact ⟨rks, rkt, fout, h3, f1, f4⟩

/-- END TO END (model of the white-box = model of the cipher): for EVERY 8-byte key string K and EVERY message M,
    building the table network for K (`Bits(K,64)`, sixteen `table_rKT`, `table_M1/M2/M3`) and running `WhiteDES.enc`
    returns exactly what `DES(K).enc(M)` returns — the same ciphertext for an 8-byte block, the same AssertionError for
    any other length.  (`DES(K)` asserts `len(K)==8`; the white-box generator does not, hence the hypothesis.) -/
theorem wb_enc_eq_des (K M : List Nat) (hK : K.length = 8) : wbEnc K M = Des.enc K M :=
  wbEnc_eq_desEnc K M hK

/-- keys that differ only in parity bits (bit 7 of each byte in the bitstream numbering = the byte's least significant
    bit) generate the same tables, round by round -/
theorem parity_bits_ignored (K K' : Bits) (h : ∀ i, i % 8 ≠ 7 → K.ival.testBit i = K'.ival.testBit i) (r : Nat) :
    tableRKT r K = tableRKT r K' := tableRKT_parity K K' h r

/-- … and with C02 (Model.Des = FIPS 46-3, Proofs/Lemmas/DesRefine.lean): for EVERY 8-byte key and EVERY block the
    table network evaluates to the FIPS 46-3 ciphertext (`none` = rejected, for a block that is not 8 bytes).
    `IsBytes` = every element < 256, i.e. a Python bytes object. -/
theorem wb_enc_eq_fips (K M : List Nat) (hK : K.length = 8) (hKb : IsBytes K) (hMb : IsBytes M) :
    (wbEnc K M).toOption = Spec.Des.enc K M := by
  rw [wb_enc_eq_des K M hK]; exact Des.enc_refines K M hKb hMb


/-! ### several generations in one process: the tables are a function of the key only -/

/-- GENERATION HAS NO HISTORY: generate the network of K1, let the caller modify it in place in an arbitrary way (`f`),
    then generate the network of K2 — the second network is exactly `mkWhiteDES K2`, whatever K1 and `f` were, and
    the first one is the modified `mkWhiteDES K1`.  (In the model a table is a value, so this is immediate from the
    totality of generation; it is the statement the `wb.seq` lines of the correspondence stream echo on the real
    objects, where sharing of a list between two calls or two instances would break it.) -/
theorem gen_seq_key_only (K1 K2 : List Nat) (f : WhiteDES → WhiteDES) :
    ∃ w1 w2, mkWhiteDES K1 = .ok w1 ∧ mkWhiteDES K2 = .ok w2 ∧ genSeq K1 f K2 = .ok (f w1, w2) := by
  obtain ⟨w1, h1, _⟩ := network_total K1
  obtain ⟨w2, h2, _⟩ := network_total K2
  exact ⟨w1, w2, h1, h2, by simp [genSeq, h1, h2, bind, Except.bind, pure, Except.pure]⟩

/-- … so two histories that end with the same key end with the same network -/
theorem gen_seq_history_irrelevant (K1 K1' K2 : List Nat) (f f' : WhiteDES → WhiteDES) :
    (genSeq K1 f K2).map Prod.snd = (genSeq K1' f' K2).map Prod.snd := by
  obtain ⟨_, w2, _, h2, h⟩ := gen_seq_key_only K1 K2 f
  obtain ⟨_, w2', _, h2', h'⟩ := gen_seq_key_only K1' K2 f'
  rw [h2] at h2'; cases h2'
  rw [h, h']; rfl

/-- … its key-independent tables are the extracted ones, and it computes DES under its own key: for every earlier
    key, every modification of the earlier network, every 8-byte key K2 and every message -/
theorem gen_seq_second_is_des (K1 K2 M : List Nat) (f : WhiteDES → WhiteDES) (hK : K2.length = 8) :
    ∃ w1 w2, genSeq K1 f K2 = .ok (w1, w2) ∧ w2.tM1 = Gen.Wb.m1 ∧ w2.tM2 = Gen.Wb.m2mat ∧ w2.tM3 = Gen.Wb.m3 ∧
      w2.enc M = Des.enc K2 M := by
  obtain ⟨w1, w2, _, h2, h⟩ := gen_seq_key_only K1 K2 f
  obtain ⟨w2', h2', a, b, c, _⟩ := network_total K2
  rw [h2] at h2'; cases h2'
  refine ⟨f w1, w2, h, a, b, c, ?_⟩
  rw [← wb_enc_eq_des K2 M hK]
  simp [wbEnc, h2, bind, Except.bind]

/-! ### used objects: the equality holds between the OBJECTS, at every point of their lives -/

/-- for every 8-byte key the two objects exist — `d = DES(K)` and the generated network `w` — and agree on every operand:
    `w.enc M = d.enc M` (ciphertext or the same refusal).  In the model both are VALUES: `enc` / `dec` return a result and
    nothing else, so no earlier call — accepted or refused, `enc` or `dec`, on `d` or on `w` — can change what a later call
    returns; this is the statement the `wb.hist` lines of the correspondence stream echo on the real objects (ONE `DES(K)`
    and ONE `WhiteDES` through a history of calls, then compared), where state kept in the object would break it. -/
theorem wb_enc_eq_des_objects (K : List Nat) (hK : K.length = 8) :
    ∃ d w, Des.DES.new K = .ok d ∧ mkWhiteDES K = .ok w ∧ ∀ M, w.enc M = d.enc M := by
  obtain ⟨w, hw, _⟩ := network_total K
  obtain ⟨b, hb, _⟩ := ofBytes64_ok K
  have hd : Des.DES.new K = .ok ⟨b⟩ := by simp [Des.DES.new, hK, hb, bind, Except.bind, pure, Except.pure]
  refine ⟨⟨b⟩, w, hd, hw, fun M => ?_⟩
  have h := wb_enc_eq_des K M hK
  simpa [wbEnc, Des.enc, hw, hd, bind, Except.bind] using h

/-! ### non-vacuity: the statements above talk about tables that exist and are not trivial -/

/-- the hypotheses of the ∀-key theorems are just index ranges; instantiated at the key of tests/test_des.py -/
example := tbox_shape ⟨0xf7b3d591e6a2c480, 64⟩ 0 (by decide)
example := bypass_identity ⟨0xf7b3d591e6a2c480, 64⟩ 15 (by decide) 11 (by decide) (by decide)
example := tbox_sem ⟨0xf7b3d591e6a2c480, 64⟩ 0 (by decide) 0 (by decide) 0 (by decide)

/-- the S part of `tbox_sem` is not a constant: first round of that key, S-box 0, chunks 0 and 1 give 2 and 8 -/
example : ((do let fk ← Des.subkey (Des.PC1 ⟨0xf7b3d591e6a2c480, 64⟩) 0
               let a ← sboxOut 0 ((ofNatSz 0 6).xor (fk.sliceFast 0 6))
               let b ← sboxOut 0 ((ofNatSz 1 6).xor (fk.sliceFast 0 6))
               pure (a, b)).toOption) = some (2, 8) := by decide +kernel

/-- the halves hypotheses of `round_refines` are inhabited by non-trivial values -/
example : ∃ L R : Bits, L.size = 32 ∧ L.WF ∧ R.size = 32 ∧ R.WF ∧ L.ival ≠ 0 ∧ R.ival ≠ L.ival :=
  ⟨⟨0x89abcdef, 32⟩, ⟨0x01234567, 32⟩, rfl, by decide, rfl, by decide, by decide, by decide⟩

/-- flipping the parity bit of the first key byte satisfies the hypothesis of `parity_bits_ignored`, for any key -/
example (K : Bits) (r : Nat) : tableRKT r K = tableRKT r ⟨K.ival ^^^ 2 ^ 7, K.size⟩ := by
  apply parity_bits_ignored
  intro i hi
  have h7 : ¬ (7 = i) := by omega
  show K.ival.testBit i = (K.ival ^^^ 2 ^ 7).testBit i
  rw [Nat.testBit_xor, Nat.testBit_two_pow]
  simp [h7]

/-- `wb_enc_eq_des` at the key of tests/test_des.py -/
example (M : List Nat) : wbEnc [0x01, 0x23, 0x45, 0x67, 0x89, 0xab, 0xcd, 0xef] M = Des.enc [0x01, 0x23, 0x45, 0x67, 0x89, 0xab, 0xcd, 0xef] M :=
  wb_enc_eq_des _ M rfl

/-- and the common value is a ciphertext, not an error, on an 8-byte block ("Now is t" under that key: 3fa40e8a984d4815) -/
example : Des.enc [0x01, 0x23, 0x45, 0x67, 0x89, 0xab, 0xcd, 0xef] [78, 111, 119, 32, 105, 115, 32, 116]
    = .ok [0x3f, 0xa4, 0x0e, 0x8a, 0x98, 0x4d, 0x48, 0x15] := ok_of_toOption (by decide +kernel)

/-- `gen_seq_key_only` with a modification that is not the identity (the first network loses all its tables) and two
    different keys: the second network is still the one of its key -/
example : ∃ w1 w2, mkWhiteDES [1, 2, 3, 4, 5, 6, 7, 8] = .ok w1 ∧ mkWhiteDES [0x81, 2, 3, 4, 5, 6, 7, 8] = .ok w2 ∧
    genSeq [1, 2, 3, 4, 5, 6, 7, 8] (fun _ => ⟨[], [], [], []⟩) [0x81, 2, 3, 4, 5, 6, 7, 8] = .ok (⟨[], [], [], []⟩, w2) :=
  gen_seq_key_only _ _ _

end Proofs.C18
