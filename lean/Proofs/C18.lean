/-
  C18 — the white-box DES tables compute exactly DES under the embedded key.
  ONLY property theorems (and their non-vacuity examples) live here; helper lemmas are in Proofs/Lemmas/Wb*.lean.
-/
import Model.Wb
import Model.Gen.Wb
import Proofs.Lemmas.WbBasic
namespace Proofs.C18
open Model Model.Wb Proofs.Lemmas.Wb

/-! ### the key-independent tables: Model generator = what the real code returns (closed terms, kernel evaluation) -/

/-- `getrbits_T_in()` -/
theorem rbits_eq_gen : getrbitsTin = .ok Gen.Wb.rbits := ok_of_toOption (by decide +kernel)

/-- `table_M1()` -/
theorem tableM1_eq_gen : tableM1 = .ok Gen.Wb.m1 := ok_of_toOption (by decide +kernel)

/-- `SRLRformat()` -/
theorem srlr_eq_gen : srlrFormat = .ok (Gen.Wb.srlrSR, Gen.Wb.srlrL, Gen.Wb.srlrR) := ok_of_toOption (by decide +kernel)

/-- `ERLRformat()` -/
theorem erlr_eq_gen : erlrFormat = .ok (Gen.Wb.erlrER, Gen.Wb.erlrL, Gen.Wb.erlrR) := ok_of_toOption (by decide +kernel)

/-- `table_M2()`: both the matrix rows and the list `m` they are built from -/
theorem tableM2_eq_gen : tableM2 = .ok (Gen.Wb.m2mat, Gen.Wb.m2m) := ok_of_toOption (by decide +kernel)

/-- `table_M3()` -/
theorem tableM3_eq_gen : tableM3 = .ok Gen.Wb.m3 := ok_of_toOption (by decide +kernel)

end Proofs.C18
