/-
  C02 (Serpent part, standard formulation) — the submission's own equivalence claim, proved, and composed with the
  refinement of the code's model:

    Spec.SerpentStd  = the STANDARD (non-bitslice) description of the AES submission: 128-bit vector, IP, 32 rounds of
                       (key mixing with K̂_i, 32 copies of S_{i mod 8} on consecutive nibbles, bit-level linear
                       transformation table; last round: K̂_32 instead of L), FP.
    Spec.Serpent     = the BITSLICE description (four 32-bit words, S-boxes on columns, rotations/shifts), the form the
                       code has and that Proofs.C02_Serpent ties the model to.

  The relation, exactly as the submission states it (section 3: in bitslice mode IP and FP are simply omitted):
    * a standard intermediate vector B̂ and the bitslice state B are related by B̂ = IP(B), B = FP(B̂), where B is read as the
      128-bit number X0 + 2^32·X1 + 2^64·X2 + 2^96·X3 (bit 32·m+k of B = bit k of word X_m = bit 4·k+m of B̂);
    * subkeys: K̂_i = IP(K_i);
    * plaintext and ciphertext are THE SAME 128-bit numbers in both formulations: B̂_0 = IP(P) ⇔ B_0 = P (words X_m = bits
      32·m..32·m+31 of P), and C = FP(B̂_32) = B_32.  Hence  SerpentStd.encNat = Spec.Serpent.encNat  as functions of
      (key length, key, block), for every key and every block; likewise decryption.
  ONLY property theorems and non-vacuity examples; helper lemmas are in Proofs/Lemmas/SerpentStd*.lean.
-/
import Proofs.C02_Serpent
import Proofs.Lemmas.SerpentStdEnc
namespace Proofs.C02_SerpentStd
open Model Model.Bits Spec.Serpent
open Proofs.Lemmas.SerpentBits Proofs.Lemmas.SerpentComp Proofs.Lemmas.SerpentSpec Proofs.Lemmas.SerpentEnc
open Proofs.Lemmas.SerpentBytes
open Proofs.Lemmas.SerpentStdPerm Proofs.Lemmas.SerpentStdSbox Proofs.Lemmas.SerpentStdLin Proofs.Lemmas.SerpentStdEnc

/-! ### the literal permutation tables -/

/-- the literal IP table of the appendix is the table probed from the current source, is the generating rule
    32·j mod 127 of Spec.Serpent, and is the 4×32 bit transpose (standard bit 4k+m = bit k of word m) -/
theorem ip_table : Model.Gen.Serpent.ipTable = Spec.SerpentStd.ipTable ∧
    ∀ j < 128, Spec.SerpentStd.ipTable.getD j 0 = Spec.Serpent.ipSrc j ∧
      Spec.SerpentStd.ipTable.getD j 0 = 32 * (j % 4) + j / 4 := by decide +kernel

/-- the literal FP table: the probed table, the rule 4·j mod 127, the 32×4 transpose -/
theorem fp_table : Model.Gen.Serpent.fpTable = Spec.SerpentStd.fpTable ∧
    ∀ j < 128, Spec.SerpentStd.fpTable.getD j 0 = Spec.Serpent.fpSrc j ∧
      Spec.SerpentStd.fpTable.getD j 0 = 4 * (j % 32) + j / 32 := by decide +kernel

/-- IP/FP by table = IP/FP by rule, on every number -/
theorem IP_FP_eq_rule (x : Nat) :
    Spec.SerpentStd.IP x = Spec.Serpent.IP x ∧ Spec.SerpentStd.FP x = Spec.Serpent.FP x :=
  ⟨IP_eq_spec x, FP_eq_spec x⟩

/-- FP is the inverse of IP on 128-bit vectors -/
theorem IP_FP_inverse (x : Nat) (hx : x < 2 ^ 128) :
    Spec.SerpentStd.FP (Spec.SerpentStd.IP x) = x ∧ Spec.SerpentStd.IP (Spec.SerpentStd.FP x) = x :=
  ⟨FP_IP x hx, IP_FP x hx⟩

/-- the code's `_IP` / `_FP` are the appendix tables -/
theorem IP_FP_refine_std (X : Bits) (hs : X.size = 128) :
    Model.Serpent.IP X = .ok ⟨Spec.SerpentStd.IP X.ival, 128⟩ ∧
    Model.Serpent.FP X = .ok ⟨Spec.SerpentStd.FP X.ival, 128⟩ := by
  rw [IP_eq_spec, FP_eq_spec]
  exact ⟨Proofs.C02_Serpent.IP_refines X hs, Proofs.C02_Serpent.FP_refines X hs⟩

/-! ### each component of a standard round is the IP-conjugate of the bitslice component
    (x = the bitslice block as a number, words X_m = bits 32·m..32·m+31; every x, no size hypothesis: both sides look at
    the low 128 bits only) -/

/-- key mixing: IP is xor-linear -/
theorem keymix_conj (x k : Nat) :
    Spec.SerpentStd.IP x ^^^ Spec.SerpentStd.IP k = Spec.SerpentStd.IP (x ^^^ k) := (IP_xor x k).symm

/-- nibble k (bits 4k..4k+3) of IP(x) is column k of the four words of x -/
theorem nibble_is_column (x k : Nat) (hk : k < 32) :
    Spec.SerpentStd.nibble (Spec.SerpentStd.IP x) k = column (stateOfNat x) k := by
  rw [← T_stateOfNat]; exact nibble_T _ (stateOfNat_ws x) k hk

/-- S-box layer: 32 copies of a 4-bit function on consecutive nibbles of IP(x) = IP of the bitslice application of the
    function to the 32 columns — for EVERY 4-bit function, in particular S_0..S_7 and their inverses -/
theorem sbox_layer_conj (f : Nat → Nat) (x : Nat) :
    Spec.SerpentStd.sHat f (Spec.SerpentStd.IP x) =
      Spec.SerpentStd.IP (natOfState (applyBox f (stateOfNat x))) := by
  rw [← T_stateOfNat]; exact sHat_T f _ (stateOfNat_ws x)

/-- the bit-level parity table of the linear transformation is exactly IP ∘ (X0 <<<= 13; X2 <<<= 3; …) ∘ FP,
    on all 2^128 vectors (xor-linearity of both sides + kernel evaluation on the 128 unit vectors) -/
theorem L_table_is_conjugate (x : Nat) (hx : x < 2 ^ 128) :
    Spec.SerpentStd.L x = Spec.SerpentStd.IP (natOfState (lt (stateOfNat (Spec.SerpentStd.FP x)))) :=
  L_eq_conj x hx

theorem LInv_table_is_conjugate (x : Nat) (hx : x < 2 ^ 128) :
    Spec.SerpentStd.LInv x = Spec.SerpentStd.IP (natOfState (ltInv (stateOfNat (Spec.SerpentStd.FP x)))) :=
  LInv_eq_conj x hx

/-- linear transformation: L ∘ IP = IP ∘ (bitslice linear transformation) -/
theorem L_conj (x : Nat) :
    Spec.SerpentStd.L (Spec.SerpentStd.IP x) = Spec.SerpentStd.IP (natOfState (lt (stateOfNat x))) := by
  rw [← T_stateOfNat]; exact L_T _ (stateOfNat_ws x)

theorem LInv_conj (x : Nat) :
    Spec.SerpentStd.LInv (Spec.SerpentStd.IP x) = Spec.SerpentStd.IP (natOfState (ltInv (stateOfNat x))) := by
  rw [← T_stateOfNat]; exact LInv_T _ (stateOfNat_ws x)

/-- the table-defined inverse linear transformation inverts the table-defined linear transformation -/
theorem LInv_L (x : Nat) (hx : x < 2 ^ 128) :
    Spec.SerpentStd.LInv (Spec.SerpentStd.L x) = x ∧ Spec.SerpentStd.L (Spec.SerpentStd.LInv x) = x := by
  have h := IP_FP x hx
  constructor
  · conv => lhs; rw [← h]
    rw [L_conj, ← T, LInv_T _ (lt_ws _), ltInv_lt _ (stateOfNat_ws _)]
    rw [T_stateOfNat, h]
  · conv => lhs; rw [← h]
    rw [LInv_conj, ← T, L_T _ (ltInv_ws _ (stateOfNat_ws _)), lt_ltInv _ (stateOfNat_ws _)]
    rw [T_stateOfNat, h]

/-- subkeys: K̂_i = IP(K_i) (definition of the submission), for every key and every i (outside 0..32 both sides are 0) -/
theorem subkeys_conj (klen K i : Nat) :
    Spec.SerpentStd.kHat (Spec.SerpentStd.roundKeysHat klen K) i =
      Spec.SerpentStd.IP (natOfState (rk (roundKeys klen K) i)) := kHat_hat _ i

/-- round R_i (i = 0..30) of the standard formulation on IP(x) = IP(bitslice round on x), for every key and block -/
theorem round_conj (klen K x i : Nat) :
    Spec.SerpentStd.round (Spec.SerpentStd.roundKeysHat klen K) (Spec.SerpentStd.IP x) i =
      Spec.SerpentStd.IP (natOfState (round (roundKeys klen K) (stateOfNat x) i)) := by
  rw [← T_stateOfNat]; exact round_T _ (roundKeys_ws klen K) _ (stateOfNat_ws x) i

/-- the inverse round -/
theorem roundInv_conj (klen K x i : Nat) :
    Spec.SerpentStd.roundInv (Spec.SerpentStd.roundKeysHat klen K) (Spec.SerpentStd.IP x) i =
      Spec.SerpentStd.IP (natOfState (roundInv (roundKeys klen K) (stateOfNat x) i)) := by
  rw [← T_stateOfNat]; exact roundInv_T _ (roundKeys_ws klen K) _ (stateOfNat_ws x) i

/-! ### the submission's equivalence claim: standard cipher = bitslice cipher, every key, every block -/

/-- IP, 32 standard rounds, FP on the block P = the bitslice rounds on the four words of P, reassembled -/
theorem enc_std_words (klen K P : Nat) :
    Spec.SerpentStd.encBlock (Spec.SerpentStd.roundKeysHat klen K) P =
      natOfState (encState (roundKeys klen K) (stateOfNat P)) := encBlock_hat _ (roundKeys_ws klen K) P

/-- standard ciphertext = bitslice ciphertext, on the same 128-bit numbering of plaintext and ciphertext, for every key
    length, key and block (numbers ≥ 2^128 are truncated alike by both) -/
theorem enc_std_eq_bitslice (klen K P : Nat) :
    Spec.SerpentStd.encNat klen K P = Spec.Serpent.encNat klen K P := encNat_eq klen K P

theorem dec_std_eq_bitslice (klen K C : Nat) :
    Spec.SerpentStd.decNat klen K C = Spec.Serpent.decNat klen K C := decNat_eq klen K C

/-- the same on byte strings: the two Specs are the same partial function -/
theorem std_eq_bitslice_bytes (key block : List Nat) :
    Spec.SerpentStd.enc key block = Spec.Serpent.enc key block ∧
    Spec.SerpentStd.dec key block = Spec.Serpent.dec key block := by
  unfold Spec.SerpentStd.enc Spec.SerpentStd.dec Spec.Serpent.enc Spec.Serpent.dec
  rw [encNat_eq, decNat_eq]
  exact ⟨rfl, rfl⟩

/-! ### the model of the code refines the standard description -/

/-- `Serpent(K).enc(M)` is the ciphertext of the STANDARD description of the submission, for every key of at most 256
    bits and every 128-bit block -/
theorem enc_refines_std (K M : Bits) (hK : K.WF) (hKs : K.size ≤ 256) (hM : M.WF) (hMs : M.size = 128) :
    Model.Serpent.enc K M = .ok (leBytes 16 (Spec.SerpentStd.encNat K.size K.ival M.ival)) := by
  rw [encNat_eq]; exact enc_eq K M hK hKs hM hMs

theorem dec_refines_std (K C : Bits) (hK : K.WF) (hKs : K.size ≤ 256) (hC : C.WF) (hCs : C.size = 128) :
    Model.Serpent.dec K C = .ok (leBytes 16 (Spec.SerpentStd.decNat K.size K.ival C.ival)) := by
  rw [decNat_eq]; exact dec_eq K C hK hKs hC hCs

/-- byte-string interface: every key of 0..32 bytes, every 16-byte block -/
theorem enc_refines_std_bytes (key block : List Nat) (hk : IsBytes key) (hb : IsBytes block)
    (hkl : key.length ≤ 32) (hbl : block.length = 16) :
    (Model.Serpent.encBytes key block).toOption = Spec.SerpentStd.enc key block ∧
    (Spec.SerpentStd.enc key block).isSome := by
  rw [(std_eq_bitslice_bytes key block).1]
  exact Proofs.C02_Serpent.enc_refines_bytes key block hk hb hkl hbl

theorem dec_refines_std_bytes (key block : List Nat) (hk : IsBytes key) (hb : IsBytes block)
    (hkl : key.length ≤ 32) (hbl : block.length = 16) :
    (Model.Serpent.decBytes key block).toOption = Spec.SerpentStd.dec key block ∧
    (Spec.SerpentStd.dec key block).isSome := by
  rw [(std_eq_bitslice_bytes key block).2]
  exact Proofs.C02_Serpent.dec_refines_bytes key block hk hb hkl hbl

/-- the code's key schedule yields the standard subkeys after IP: `_IP(keys[i])` = K̂_i -/
theorem keyschedule_refines_std (K : Bits) (hwf : K.WF) (hs : K.size ≤ 256) :
    ∃ c, Model.Serpent.init K = .ok c ∧ c.keys.length = 33 ∧
      ∀ i < 33, ∃ k, c.keys[i]? = some k ∧ k.size = 128 ∧
        Model.Serpent.IP k = .ok ⟨Spec.SerpentStd.kHat (Spec.SerpentStd.roundKeysHat K.size K.ival) i, 128⟩ := by
  refine ⟨_, Proofs.C02_Serpent.keyschedule_refines K hwf hs, ?_, ?_⟩
  · simp [roundKeys_length]
  · intro i hi
    have hl : i < (roundKeys K.size K.ival).length := by rw [roundKeys_length]; exact hi
    refine ⟨⟨natOfState ((roundKeys K.size K.ival)[i]), 128⟩, ?_, rfl, ?_⟩
    · simp [List.getElem?_map, List.getElem?_eq_getElem hl]
    · rw [(IP_FP_refine_std _ rfl).1, subkeys_conj]
      simp [rk, List.getD_eq_getElem?_getD, List.getElem?_eq_getElem hl]

/-! ### non-vacuity and known answers through the STANDARD formulation (kernel evaluation of IP, the 32 rounds with
    nibble S-boxes and the parity table, FP): NESSIE Serpent-256 set 1 vector 0 (the vector of tests/test_serpent.py),
    NESSIE Serpent-128 set 1 vector 0 (short key: 1-then-zeros padding), and decryption of the third vector of
    tests/test_serpent.py -/
example : Spec.SerpentStd.enc [0x80, 0, 0, 0, 0, 0, 0, 0, 0, 0, 0, 0, 0, 0, 0, 0, 0, 0, 0, 0, 0, 0, 0, 0, 0, 0, 0, 0, 0, 0, 0, 0]
      [0, 0, 0, 0, 0, 0, 0, 0, 0, 0, 0, 0, 0, 0, 0, 0]
    = some [0xA2, 0x23, 0xAA, 0x12, 0x88, 0x46, 0x3C, 0x0E, 0x2B, 0xE3, 0x8E, 0xBD, 0x82, 0x56, 0x16, 0xC0] := by
  decide +kernel
example : Spec.SerpentStd.enc [0x80, 0, 0, 0, 0, 0, 0, 0, 0, 0, 0, 0, 0, 0, 0, 0] [0, 0, 0, 0, 0, 0, 0, 0, 0, 0, 0, 0, 0, 0, 0, 0]
    = some [0x26, 0x4E, 0x54, 0x81, 0xEF, 0xF4, 0x2A, 0x46, 0x06, 0xAB, 0xDA, 0x06, 0xC0, 0xBF, 0xDA, 0x3D] := by
  decide +kernel
example : Spec.SerpentStd.dec (List.replicate 32 0x11)
      [0xA4, 0x82, 0xEA, 0xA5, 0xD5, 0x77, 0x1F, 0x2F, 0xDB, 0x2E, 0xA1, 0xA5, 0xF1, 0x41, 0xB9, 0xE2]
    = some (List.replicate 16 0x11) := by
  decide +kernel
/-- the first rows of the tables as the author remembers appendix A.3 / A.4 (see PROVENANCE in Spec/SerpentStd.lean) -/
example : Spec.SerpentStd.ltTable.take 8 =
    [[16, 52, 56, 70, 83, 94, 105], [72, 114, 125], [2, 9, 15, 30, 76, 84, 126], [36, 90, 103],
     [20, 56, 60, 74, 87, 98, 109], [1, 76, 118], [2, 6, 13, 19, 34, 80, 88], [40, 94, 107]] ∧
    Spec.SerpentStd.ltInvTable.take 4 = [[53, 55, 72], [1, 5, 20, 90], [15, 102], [3, 31, 90]] := by decide
example : IsBytes [1, 2, 3, 4, 5] ∧ [1, 2, 3, 4, 5].length ≤ 32 ∧ (⟨0x0504030201, 40⟩ : Bits).WF ∧
    (⟨2 ^ 127 + 1, 128⟩ : Bits).WF := by decide

end Proofs.C02_SerpentStd
