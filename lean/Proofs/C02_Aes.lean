/-
  C02, AES part — AES-128/192/256 of crysp/aes.py (Model.Aes, tables regenerated from the source) encrypt and decrypt
  exactly as FIPS 197 (Spec.Aes), sizes the standard does not define are rejected, and the exposed `gmul` is
  multiplication in GF(2^8) = GF(2)[x]/(x^8+x^4+x^3+x+1) for every pair of bytes.
  ONLY property theorems and non-vacuity / known-answer examples; helper lemmas are in Proofs/Lemmas/Aes*.lean and
  the 65 536-pair product table in Proofs/C02_Aes/Gmul*.lean.
-/
import Proofs.Lemmas.AesApi
import Proofs.C02_Aes.GmulAll
namespace Proofs.C02_Aes
open Model Proofs.Aes

/-! ### the standard's own objects behave as the standard says (sanity of Spec.Aes, kernel-checked) -/

/-- `gfinv` is the multiplicative inverse in GF(2^8) (every non-zero element), and 0 ↦ 0 -/
theorem gfinv_is_inverse : ∀ b < 256, Spec.Aes.gfmul b (Spec.Aes.gfinv b) = (if b = 0 then 0 else 1) := by decide +kernel

/-- `xtime` is multiplication by x = {02} -/
theorem xtime_is_mul_x : ∀ b < 256, Spec.Aes.xtime b = Spec.Aes.gfmul b 2 ∧ Spec.Aes.xtime b = Spec.Aes.gfmul 2 b := by decide +kernel

/-- {01} is the unit and products of bytes are bytes (checked on the row/column of 1 and the extreme element) -/
theorem gfmul_one : ∀ b < 256, Spec.Aes.gfmul b 1 = b ∧ Spec.Aes.gfmul 1 b = b ∧ Spec.Aes.gfmul b 255 < 256 := by decide +kernel

/-- the S-box of §5.1.1 and the inverse S-box of §5.3.2 are mutually inverse -/
theorem spec_invSbox_sbox : ∀ b < 256, Spec.Aes.invSbox (Spec.Aes.sbox b) = b ∧ Spec.Aes.sbox (Spec.Aes.invSbox b) = b := by
  decide +kernel

/-! ### tables of the source = the standard (complete finite domains, decided by the kernel) -/

/-- `AES.sboxtable` is the FIPS 197 S-box (all 256 entries) -/
theorem sbox_eq_spec : ∀ b < 256, Aes.sbox b = Spec.Aes.sbox b := sbox_spec

/-- `AES.sboxinvtable` is the FIPS 197 inverse S-box (all 256 entries) -/
theorem sboxinv_eq_spec : ∀ b < 256, Aes.sboxInv b = Spec.Aes.invSbox b := sboxInv_spec

/-- the exposed `gmul` (Exp/Log tables of the source) is multiplication modulo x^8+x^4+x^3+x+1 on all 65 536 byte pairs;
    in particular it never raises (`gmul(a,0) = 0` after the fix) -/
theorem gmul_eq_gfmul : ∀ a b, a < 256 → b < 256 → Aes.gmul a b = .ok (Spec.Aes.gfmul a b) :=
  fun _ _ ha hb => Gmul.gmul_table ha hb

/-- `Rcon[1..10]` (the only entries any key size reads) are x^(j-1) -/
theorem rcon_eq_spec : ∀ j, 1 ≤ j → j ≤ 10 → Model.Gen.Aes.rcon.getD j 0 % 256 = Spec.Aes.xpow (j - 1) :=
  fun j h1 h2 => rcon_spec j (by omega) (by omega)

/-- the index permutation probed from `ShiftRows` is s'_{r,c} = s_{r,(c+r) mod 4} in the column-major layout -/
theorem shiftRows_idx_eq_spec :
    Model.Gen.Aes.shiftRowsIdx = (List.range 16).map fun i => i % 4 + 4 * ((i / 4 + i % 4) % 4) := by decide +kernel

theorem invShiftRows_idx_eq_spec :
    Model.Gen.Aes.invShiftRowsIdx = (List.range 16).map fun i => i % 4 + 4 * ((i / 4 + 4 - i % 4) % 4) := by decide +kernel

/-! ### component refinements (every 16-byte state / every admissible key) -/

theorem subBytes_refines (s : List Nat) (h : IsBytes s) :
    Aes.SboxE s = .ok (Spec.Aes.subBytes s) ∧ Aes.subBytes s = Spec.Aes.subBytes s := by
  rw [SboxE_ok h, subBytes_spec h]; exact ⟨rfl, rfl⟩

theorem invSubBytes_refines (s : List Nat) (h : IsBytes s) :
    Aes.SboxInvE s = .ok (Spec.Aes.invSubBytes s) ∧ Aes.invSubBytes s = Spec.Aes.invSubBytes s := by
  rw [SboxInvE_ok h, invSubBytes_spec h]; exact ⟨rfl, rfl⟩

theorem shiftRows_refines (s : List Nat) (h : s.length = 16) : Aes.ShiftRowsE s = .ok (Spec.Aes.shiftRows s) := by
  rw [ShiftRowsE_ok h, shiftRows_spec h]

theorem invShiftRows_refines (s : List Nat) (h : s.length = 16) : Aes.InvShiftRowsE s = .ok (Spec.Aes.invShiftRows s) := by
  rw [InvShiftRowsE_ok h, invShiftRows_spec h]

theorem mixColumns_refines (s : List Nat) (h : St s) : Aes.MixColumnsE s = .ok (Spec.Aes.mixColumns s) := by
  rw [MixColumnsE_ok h.1, mixColumns_spec h]

theorem invMixColumns_refines (s : List Nat) (h : St s) : Aes.InvMixColumnsE s = .ok (Spec.Aes.invMixColumns s) := by
  rw [InvMixColumnsE_ok h.1, invMixColumns_spec h]

theorem addRoundKey_refines (s : List Nat) (w : List (List Nat)) (r : Nat) (hs : St s) (hk : St (Aes.roundKey w r)) :
    Aes.addRoundKey s (Aes.roundKey w r) = Spec.Aes.addRoundKey s w r := addRoundKey_spec hs hk

/-- key expansion for Nk = 4, 6, 8: every key of 16, 24 or 32 bytes -/
theorem keySchedule_refines (K : List Nat) (h : KeyOk K) : Aes.keyscheduleE K = .ok (Spec.Aes.keyExpansion K) := by
  rw [keyscheduleE_ok h.1, (keySchedule_spec_wf h).1]

/-! ### end to end -/

/-- AES-128/192/256 encryption of crysp = FIPS 197 Cipher, for every key and every block -/
theorem enc_refines (K B : List Nat) (hK : KeyOk K) (hB : St B) : Aes.enc K B = .ok (Spec.Aes.cipher K B) := by
  rw [enc_ok hK.1 hB.1]
  unfold Aes.encCore Spec.Aes.cipher
  have hNr : 1 ≤ K.length / 4 + 6 := by omega
  rw [(encW_spec hNr (keysOk_of_key hK) hB).1, (keySchedule_spec_wf hK).1]

/-- AES-128/192/256 decryption of crysp = FIPS 197 InvCipher, for every key and every block -/
theorem dec_refines (K B : List Nat) (hK : KeyOk K) (hB : St B) : Aes.dec K B = .ok (Spec.Aes.invCipher K B) := by
  rw [dec_ok hK.1 hB.1]
  unfold Aes.decCore Spec.Aes.invCipher
  have hNr : 1 ≤ K.length / 4 + 6 := by omega
  rw [(decW_spec hNr (keysOk_of_key hK) hB).1, (keySchedule_spec_wf hK).1]

/-- keys of a size FIPS 197 does not define are rejected by the constructor, hence by enc, dec and keyschedule -/
theorem key_size_rejected (K B : List Nat) (h : ¬ (K.length = 16 ∨ K.length = 24 ∨ K.length = 32)) :
    (∃ e, Aes.enc K B = .error e) ∧ (∃ e, Aes.dec K B = .error e) ∧ (∃ e, Aes.keyscheduleE K = .error e) :=
  ⟨⟨_, enc_err_key h⟩, ⟨_, dec_err_key h⟩, ⟨_, keyscheduleE_err h⟩⟩

/-- blocks that are not 16 bytes are rejected (never silently processed), whatever the key -/
theorem block_size_rejected (K B : List Nat) (h : B.length ≠ 16) :
    (∃ e, Aes.enc K B = .error e) ∧ (∃ e, Aes.dec K B = .error e) :=
  ⟨enc_err_block h, dec_err_block h⟩

/-! ### non-vacuity and known answers: FIPS 197 Appendix C.1–C.3 and Appendix B through Spec.Aes, in the kernel -/

def k128 : List Nat := [0x00,0x01,0x02,0x03,0x04,0x05,0x06,0x07,0x08,0x09,0x0a,0x0b,0x0c,0x0d,0x0e,0x0f]
def k192 : List Nat := k128 ++ [0x10,0x11,0x12,0x13,0x14,0x15,0x16,0x17]
def k256 : List Nat := k192 ++ [0x18,0x19,0x1a,0x1b,0x1c,0x1d,0x1e,0x1f]
def ptC : List Nat := [0x00,0x11,0x22,0x33,0x44,0x55,0x66,0x77,0x88,0x99,0xaa,0xbb,0xcc,0xdd,0xee,0xff]
def ct128 : List Nat := [0x69,0xc4,0xe0,0xd8,0x6a,0x7b,0x04,0x30,0xd8,0xcd,0xb7,0x80,0x70,0xb4,0xc5,0x5a]
def ct192 : List Nat := [0xdd,0xa9,0x7c,0xa4,0x86,0x4c,0xdf,0xe0,0x6e,0xaf,0x70,0xa0,0xec,0x0d,0x71,0x91]
def ct256 : List Nat := [0x8e,0xa2,0xb7,0xca,0x51,0x67,0x45,0xbf,0xea,0xfc,0x49,0x90,0x4b,0x49,0x60,0x89]
def kB : List Nat := [0x2b,0x7e,0x15,0x16,0x28,0xae,0xd2,0xa6,0xab,0xf7,0x15,0x88,0x09,0xcf,0x4f,0x3c]
def ptB : List Nat := [0x32,0x43,0xf6,0xa8,0x88,0x5a,0x30,0x8d,0x31,0x31,0x98,0xa2,0xe0,0x37,0x07,0x34]
def ctB : List Nat := [0x39,0x25,0x84,0x1d,0x02,0xdc,0x09,0xfb,0xdc,0x11,0x85,0x97,0x19,0x6a,0x0b,0x32]

set_option maxRecDepth 100000 in
example : Spec.Aes.cipher k128 ptC = ct128 ∧ Spec.Aes.invCipher k128 ct128 = ptC := by decide +kernel
set_option maxRecDepth 100000 in
example : Spec.Aes.cipher k192 ptC = ct192 ∧ Spec.Aes.invCipher k192 ct192 = ptC := by decide +kernel
set_option maxRecDepth 100000 in
example : Spec.Aes.cipher k256 ptC = ct256 ∧ Spec.Aes.invCipher k256 ct256 = ptC := by decide +kernel
set_option maxRecDepth 100000 in
example : Spec.Aes.cipher kB ptB = ctB ∧ Spec.Aes.invCipher kB ctB = ptB := by decide +kernel
/-- §4.2 example {57}•{83} = {c1}, §4.2.1 {57}•{13} = {fe}, §5.1.1 S-box({53}) = {ed}, Rcon[10] = {36} -/
example : Spec.Aes.gfmul 0x57 0x83 = 0xc1 ∧ Spec.Aes.gfmul 0x57 0x13 = 0xfe ∧ Spec.Aes.sbox 0x53 = 0xed
    ∧ Spec.Aes.rcon 10 = [0x36, 0, 0, 0] := by decide +kernel
/-- the hypotheses of the refinement theorems are inhabited by the FIPS vectors of all three key sizes -/
theorem kat_inputs_ok : KeyOk k128 ∧ KeyOk k192 ∧ KeyOk k256 ∧ St ptC := by
  refine ⟨⟨by decide, ?_⟩, ⟨by decide, ?_⟩, ⟨by decide, ?_⟩, ⟨by decide, ?_⟩⟩ <;>
    (unfold IsBytes; decide +kernel)
-- and so the model itself reproduces FIPS 197 C.3
set_option maxRecDepth 100000 in
example : Aes.enc k256 ptC = .ok ct256 := by
  rw [enc_refines k256 ptC kat_inputs_ok.2.2.1 kat_inputs_ok.2.2.2]
  exact congrArg Except.ok (by decide +kernel)
/-- size rejection is not vacuous -/
example : ¬ ([0, 1, 2] : List Nat).length = 16 := by decide

end Proofs.C02_Aes
