import Model.Aes
import Spec.Aes
namespace Proofs.C02_Aes
end Proofs.C02_Aes
