/-
  C02, AES part — AES-128/192/256 of crysp/aes.py (Model.Aes, tables regenerated from the source) encrypt and decrypt
  exactly as FIPS 197 (Spec.Aes), sizes the standard does not define are rejected, and the exposed `gmul` is
  multiplication in GF(2^8) = GF(2)[x]/(x^8+x^4+x^3+x+1) for every pair of bytes.
  ONLY property theorems and non-vacuity / known-answer examples; helper lemmas are in Proofs/Lemmas/Aes*.lean and
  the 65 536-pair product table in Proofs/C02_Aes/Gmul*.lean.
-/
import Proofs.Lemmas.AesApi
import Proofs.C02_Aes.GmulAll
import Proofs.C02_Aes.SpecFacts
namespace Proofs.C02_Aes
open Model Proofs.Aes

/-! ### the standard's own objects behave as the standard says (sanity of Spec.Aes, kernel-checked) -/

/-- `gfinv` is the multiplicative inverse in GF(2^8) (every non-zero element), and 0 ↦ 0 -/
theorem gfinv_is_inverse : ∀ b < 256, Spec.Aes.gfmul b (Spec.Aes.gfinv b) = (if b = 0 then 0 else 1) := SpecFacts.gfinv_is_inverse

/-- `xtime` is multiplication by x = {02} -/
theorem xtime_is_mul_x : ∀ b < 256, Spec.Aes.xtime b = Spec.Aes.gfmul b 2 ∧ Spec.Aes.xtime b = Spec.Aes.gfmul 2 b := SpecFacts.xtime_is_mul_x

/-- {01} is the unit and products of bytes are bytes (checked on the row/column of 1 and the extreme element) -/
theorem gfmul_one : ∀ b < 256, Spec.Aes.gfmul b 1 = b ∧ Spec.Aes.gfmul 1 b = b ∧ Spec.Aes.gfmul b 255 < 256 := SpecFacts.gfmul_one

/-- the S-box of §5.1.1 and the inverse S-box of §5.3.2 are mutually inverse -/
theorem spec_invSbox_sbox : ∀ b < 256, Spec.Aes.invSbox (Spec.Aes.sbox b) = b ∧ Spec.Aes.sbox (Spec.Aes.invSbox b) = b :=
  SpecFacts.spec_invSbox_sbox

/-! ### tables of the source = the standard (complete finite domains, decided by the kernel) -/

/-- `AES.sboxtable` is the FIPS 197 S-box (all 256 entries) -/
theorem sbox_eq_spec : ∀ b < 256, Aes.sbox b = Spec.Aes.sbox b := sbox_spec

/-- `AES.sboxinvtable` is the FIPS 197 inverse S-box (all 256 entries) -/
theorem sboxinv_eq_spec : ∀ b < 256, Aes.sboxInv b = Spec.Aes.invSbox b := sboxInv_spec

/-- the exposed `gmul` (Exp/Log tables of the source) is multiplication modulo x^8+x^4+x^3+x+1 on all 65 536 byte pairs;
    in particular it never raises (`gmul(a,0) = 0` after the fix) -/
theorem gmul_eq_gfmul : ∀ a b, a < 256 → b < 256 → Aes.gmul a b = .ok (Spec.Aes.gfmul a b) :=
  fun _ _ ha hb => Gmul.gmul_table ha hb

/-- `Rcon[1..10]` (the only entries any key size reads) are x^(j-1) -/
theorem rcon_eq_spec : ∀ j, 1 ≤ j → j ≤ 10 → Model.Gen.Aes.rcon.getD j 0 % 256 = Spec.Aes.xpow (j - 1) :=
  fun j h1 h2 => rcon_spec j (by omega) (by omega)

/-- the index permutation probed from `ShiftRows` is s'_{r,c} = s_{r,(c+r) mod 4} in the column-major layout -/
theorem shiftRows_idx_eq_spec :
    Model.Gen.Aes.shiftRowsIdx = (List.range 16).map fun i => i % 4 + 4 * ((i / 4 + i % 4) % 4) := by decide +kernel

theorem invShiftRows_idx_eq_spec :
    Model.Gen.Aes.invShiftRowsIdx = (List.range 16).map fun i => i % 4 + 4 * ((i / 4 + 4 - i % 4) % 4) := by decide +kernel

/-! ### component refinements (every 16-byte state / every admissible key) -/

theorem subBytes_refines (s : List Nat) (h : IsBytes s) :
    Aes.SboxE s = .ok (Spec.Aes.subBytes s) ∧ Aes.subBytes s = Spec.Aes.subBytes s := by
  rw [SboxE_ok h, subBytes_spec h]; exact ⟨rfl, rfl⟩

theorem invSubBytes_refines (s : List Nat) (h : IsBytes s) :
    Aes.SboxInvE s = .ok (Spec.Aes.invSubBytes s) ∧ Aes.invSubBytes s = Spec.Aes.invSubBytes s := by
  rw [SboxInvE_ok h, invSubBytes_spec h]; exact ⟨rfl, rfl⟩

theorem shiftRows_refines (s : List Nat) (h : s.length = 16) : Aes.ShiftRowsE s = .ok (Spec.Aes.shiftRows s) := by
  rw [ShiftRowsE_ok h, shiftRows_spec h]

theorem invShiftRows_refines (s : List Nat) (h : s.length = 16) : Aes.InvShiftRowsE s = .ok (Spec.Aes.invShiftRows s) := by
  rw [InvShiftRowsE_ok h, invShiftRows_spec h]

theorem mixColumns_refines (s : List Nat) (h : St s) : Aes.MixColumnsE s = .ok (Spec.Aes.mixColumns s) := by
  rw [MixColumnsE_ok h.1, mixColumns_spec h]

theorem invMixColumns_refines (s : List Nat) (h : St s) : Aes.InvMixColumnsE s = .ok (Spec.Aes.invMixColumns s) := by
  rw [InvMixColumnsE_ok h.1, invMixColumns_spec h]

theorem addRoundKey_refines (s : List Nat) (w : List (List Nat)) (r : Nat) (hs : St s) (hk : St (Aes.roundKey w r)) :
    Aes.addRoundKey s (Aes.roundKey w r) = Spec.Aes.addRoundKey s w r := addRoundKey_spec hs hk

/-- key expansion for Nk = 4, 6, 8: every key of 16, 24 or 32 bytes -/
theorem keySchedule_refines (K : List Nat) (h : KeyOk K) : Aes.keyscheduleE K = .ok (Spec.Aes.keyExpansion K) := by
  rw [keyscheduleE_ok h.1, (keySchedule_spec_wf h).1]

/-! ### end to end -/

/-- AES-128/192/256 encryption of crysp = FIPS 197 Cipher, for every key and every block -/
theorem enc_refines (K B : List Nat) (hK : KeyOk K) (hB : St B) : Aes.enc K B = .ok (Spec.Aes.cipher K B) := by
  rw [enc_ok hK.1 hB.1]
  unfold Aes.encCore Spec.Aes.cipher
  have hNr : 1 ≤ K.length / 4 + 6 := by omega
  rw [(encW_spec hNr (keysOk_of_key hK) hB).1, (keySchedule_spec_wf hK).1]

/-- AES-128/192/256 decryption of crysp = FIPS 197 InvCipher, for every key and every block -/
theorem dec_refines (K B : List Nat) (hK : KeyOk K) (hB : St B) : Aes.dec K B = .ok (Spec.Aes.invCipher K B) := by
  rw [dec_ok hK.1 hB.1]
  unfold Aes.decCore Spec.Aes.invCipher
  have hNr : 1 ≤ K.length / 4 + 6 := by omega
  rw [(decW_spec hNr (keysOk_of_key hK) hB).1, (keySchedule_spec_wf hK).1]

/-- keys of a size FIPS 197 does not define are rejected by the constructor, hence by enc, dec and keyschedule -/
theorem key_size_rejected (K B : List Nat) (h : ¬ (K.length = 16 ∨ K.length = 24 ∨ K.length = 32)) :
    (∃ e, Aes.enc K B = .error e) ∧ (∃ e, Aes.dec K B = .error e) ∧ (∃ e, Aes.keyscheduleE K = .error e) :=
  ⟨⟨_, enc_err_key h⟩, ⟨_, dec_err_key h⟩, ⟨_, keyscheduleE_err h⟩⟩

/-- blocks that are not 16 bytes are rejected (never silently processed), whatever the key -/
theorem block_size_rejected (K B : List Nat) (h : B.length ≠ 16) :
    (∃ e, Aes.enc K B = .error e) ∧ (∃ e, Aes.dec K B = .error e) :=
  ⟨enc_err_block h, dec_err_block h⟩

/-! ### non-vacuity and known answers: FIPS 197 Appendix C.1–C.3 and Appendix B through Spec.Aes, in the kernel -/

/- the FIPS 197 Appendix B / C.1–C.3 vectors (`k128 … ctB`) and their kernel evaluation through Spec.Aes are in
   Proofs/C02_Aes/SpecFacts.lean (built in parallel) -/
open SpecFacts

/-- the hypotheses of the refinement theorems are inhabited by the FIPS vectors of all three key sizes -/
theorem kat_inputs_ok : KeyOk k128 ∧ KeyOk k192 ∧ KeyOk k256 ∧ St ptC := by
  refine ⟨⟨by decide, ?_⟩, ⟨by decide, ?_⟩, ⟨by decide, ?_⟩, ⟨by decide, ?_⟩⟩ <;>
    (unfold IsBytes; decide +kernel)
/-- and so the model itself (the code's tables and control flow) reproduces FIPS 197 C.1 and C.3, both directions -/
example : Aes.enc k128 ptC = .ok ct128 ∧ Aes.enc k256 ptC = .ok ct256 ∧ Aes.dec k256 ct256 = .ok ptC := by
  obtain ⟨h1, _, h3, hp⟩ := kat_inputs_ok
  have hc : St ct256 := ⟨by decide, by unfold IsBytes; decide +kernel⟩
  rw [enc_refines k128 ptC h1 hp, enc_refines k256 ptC h3 hp, dec_refines k256 ct256 h3 hc, kat_c1.1, kat_c3.1, kat_c3.2]
  exact ⟨rfl, rfl, rfl⟩
/-- size rejection is not vacuous -/
example : ¬ ([0, 1, 2] : List Nat).length = 16 := by decide

end Proofs.C02_Aes
