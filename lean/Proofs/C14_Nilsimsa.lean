/-
  C14 (Nilsimsa part) — feeding a message piecewise gives the same digest as hashing it at once, for every byte cut.
  ONLY property theorems (and their non-vacuity examples) live here.
-/
import Model.Nilsimsa
namespace Proofs.C14_Nilsimsa
open Model Model.Nilsimsa

/-- `update a; update b = update (a ++ b)` on every state (any window contents, counters, table) -/
theorem update_append (tran : List Nat) (s : St) (a b : List Nat) :
    update tran (update tran s a) b = update tran s (a ++ b) := by
  simp [update, List.foldl_append]

/-- any number of pieces, empty ones included, at any byte positions -/
theorem update_pieces (tran : List Nat) (s : St) (pieces : List (List Nat)) :
    pieces.foldl (update tran) s = update tran s pieces.flatten := by
  induction pieces generalizing s with
  | nil => rfl
  | cons p ps ih => rw [List.foldl_cons, ih, List.flatten_cons, update_append]

/-- `Nilsimsa(t).update(p1)….update(pk).digest() == Nilsimsa(t)(p1|…|pk)` -/
theorem seq_eq_oneshot (target : Nat) (pieces : List (List Nat)) :
    nilsimsaSeq target pieces = nilsimsa target pieces.flatten := by
  simp [nilsimsaSeq, nilsimsa, update_pieces]

/-- the property's two-piece form -/
theorem cut_eq_oneshot (target : Nat) (a b : List Nat) :
    nilsimsaSeq target [a, b] = nilsimsa target (a ++ b) := by
  simpa using seq_eq_oneshot target [a, b]

/-- after `digest()` the object is reset, so the next one-shot call is independent of the pieces fed before:
    in the model `digest` returns the bytes and the state `St.init`; the counter after the pieces is the byte count -/
theorem count_after_pieces (tran : List Nat) (s : St) (data : List Nat) :
    (update tran s data).count = s.count + data.length := by
  induction data generalizing s with
  | nil => simp [update]
  | cons x xs ih =>
    have : update tran s (x :: xs) = update tran (step tran s x) xs := rfl
    rw [this, ih]; simp [step]; omega

/-- **digest_resets**: `digest()` leaves the object in the state of a new one — byte counter, accumulators AND the
    four-byte window (`self.reset()`), whatever was fed before -/
theorem digest_resets (s : St) : (digestObj s).2 = St.init := rfl

/-- the one-shot call on an object in ANY state is the digest of a fresh object, and leaves a fresh object -/
theorem call_eq_oneshot (target : Nat) (s : St) (data : List Nat) :
    callObj (maketran target) s data = (nilsimsa target data, St.init) := rfl

/-- **reuse_eq_oneshot**: ONE object used for several messages in a row, each fed piecewise (any byte cuts, empty pieces)
    and finished by `digest()`: every digest is the one-shot digest of that message alone, and the object ends as a new
    one.  The object may start in the state ANY earlier use left it in after a `digest()` / `reset()` / call, all of which
    end in `St.init` (`digest_resets`, `call_eq_oneshot`; `reset()` is `St.init` by definition). -/
theorem reuse_eq_oneshot (target : Nat) (msgs : List (List (List Nat))) :
    (runMsgs (maketran target) St.init msgs).1 = msgs.map fun pieces => nilsimsa target pieces.flatten := by
  induction msgs with
  | nil => rfl
  | cons m ms ih =>
    simp only [runMsgs, digestObj, List.map_cons, ih]
    rw [update_pieces]; rfl

/-- the same after an earlier message: `update(m0…).digest()` first, then the messages -/
theorem reuse_after_digest (target : Nat) (s : St) (msgs : List (List (List Nat))) :
    (runMsgs (maketran target) (digestObj s).2 msgs).1 = msgs.map fun pieces => nilsimsa target pieces.flatten :=
  reuse_eq_oneshot target msgs

/-- the steps of the `nilsimsa.seqs` lines: `u` pieces then `d` on an object that is new, or has just been through
    `d` / `r` / `c` (state `St.init`), return the one-shot digest and leave `St.init` again -/
theorem steps_eq_oneshot (target : Nat) (pieces : List (List Nat)) :
    stepOp (maketran target) (pieces.foldl (fun s p => (stepOp (maketran target) s (.u p)).1) St.init) .d
      = (St.init, some (nilsimsa target pieces.flatten)) := by
  simp only [stepOp, digestObj, nilsimsa]
  rw [update_pieces]

example : (runMsgs (maketran 53) St.init [[[1, 2, 3], [4]], [[], [9, 8, 7, 6, 5]]]).1
    = [nilsimsa 53 [1, 2, 3, 4], nilsimsa 53 [9, 8, 7, 6, 5]] := reuse_eq_oneshot 53 _

example : nilsimsaSeq 53 [[1, 2, 3], [], [4, 5, 6, 7]] = nilsimsa 53 [1, 2, 3, 4, 5, 6, 7] := seq_eq_oneshot 53 _

end Proofs.C14_Nilsimsa
