/-
  C14 (Nilsimsa part) — feeding a message piecewise gives the same digest as hashing it at once, for every byte cut.
  ONLY property theorems (and their non-vacuity examples) live here.
-/
import Model.Nilsimsa
namespace Proofs.C14_Nilsimsa
open Model Model.Nilsimsa

/-- `update a; update b = update (a ++ b)` on every state (any window contents, counters, table) -/
theorem update_append (tran : List Nat) (s : St) (a b : List Nat) :
    update tran (update tran s a) b = update tran s (a ++ b) := by
  simp [update, List.foldl_append]

/-- any number of pieces, empty ones included, at any byte positions -/
theorem update_pieces (tran : List Nat) (s : St) (pieces : List (List Nat)) :
    pieces.foldl (update tran) s = update tran s pieces.flatten := by
  induction pieces generalizing s with
  | nil => rfl
  | cons p ps ih => rw [List.foldl_cons, ih, List.flatten_cons, update_append]

/-- `Nilsimsa(t).update(p1)….update(pk).digest() == Nilsimsa(t)(p1|…|pk)` -/
theorem seq_eq_oneshot (target : Nat) (pieces : List (List Nat)) :
    nilsimsaSeq target pieces = nilsimsa target pieces.flatten := by
  simp [nilsimsaSeq, nilsimsa, update_pieces]

/-- the property's two-piece form -/
theorem cut_eq_oneshot (target : Nat) (a b : List Nat) :
    nilsimsaSeq target [a, b] = nilsimsa target (a ++ b) := by
  simpa using seq_eq_oneshot target [a, b]

/-- after `digest()` the object is reset, so the next one-shot call is independent of the pieces fed before:
    in the model `digest` returns the bytes and the state `St.init`; the counter after the pieces is the byte count -/
theorem count_after_pieces (tran : List Nat) (s : St) (data : List Nat) :
    (update tran s data).count = s.count + data.length := by
  induction data generalizing s with
  | nil => simp [update]
  | cons x xs ih =>
    have : update tran s (x :: xs) = update tran (step tran s x) xs := rfl
    rw [this, ih]; simp [step]; omega

example : nilsimsaSeq 53 [[1, 2, 3], [], [4, 5, 6, 7]] = nilsimsa 53 [1, 2, 3, 4, 5, 6, 7] := seq_eq_oneshot 53 _

end Proofs.C14_Nilsimsa
