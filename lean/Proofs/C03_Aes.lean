/-
  C03, AES part — AES of crysp/aes.py (Model.Aes, tables regenerated from the source) is a permutation for every key:
  dec inverts enc and enc inverts dec on every 16-byte block, the result has the block length, and the exposed
  component pairs Sbox/Sbox_inv, ShiftRows/InvShiftRows, MixColumns/InvMixColumns are mutual inverses on their whole
  domain (InvMixColumns∘MixColumns on all 2^32 columns by GF(2)-linearity, not by sampling).
  ONLY property theorems and non-vacuity examples; helper lemmas are in Proofs/Lemmas/Aes*.lean.
-/
import Proofs.Lemmas.AesApi
namespace Proofs.C03_Aes
open Model Proofs.Aes

/-! ### S-boxes (complete domain: all 256 bytes, both ways, decided by the kernel) -/

theorem sboxinv_sbox : ∀ b < 256, Aes.sboxInv (Aes.sbox b) = b := sboxInv_sbox
theorem sbox_sboxinv : ∀ b < 256, Aes.sbox (Aes.sboxInv b) = b := sbox_sboxInv

/-- `Sbox_inv(Sbox(state)) == state == Sbox(Sbox_inv(state))` for byte states of every length (the exposed functions) -/
theorem Sbox_pair (s : List Nat) (h : IsBytes s) :
    (Aes.SboxE s >>= Aes.SboxInvE) = .ok s ∧ (Aes.SboxInvE s >>= Aes.SboxE) = .ok s := by
  constructor
  · rw [SboxE_ok h]
    show Aes.SboxInvE (Aes.subBytes s) = _
    rw [SboxInvE_ok (subBytes_isBytes h), invSubBytes_subBytes h]
  · rw [SboxInvE_ok h]
    show Aes.SboxE (Aes.invSubBytes s) = _
    rw [SboxE_ok (invSubBytes_isBytes h), subBytes_invSubBytes h]

/-! ### ShiftRows / InvShiftRows: every 16-coefficient state (no condition on the coefficients) -/

theorem ShiftRows_pair (s : List Nat) (h : s.length = 16) :
    (Aes.ShiftRowsE s >>= Aes.InvShiftRowsE) = .ok s ∧ (Aes.InvShiftRowsE s >>= Aes.ShiftRowsE) = .ok s := by
  constructor
  · rw [ShiftRowsE_ok h]
    show Aes.InvShiftRowsE (Aes.shiftRows s) = _
    rw [InvShiftRowsE_ok (by simp [Aes.shiftRows, Aes.gather, shiftRowsIdx_eq]), invShiftRows_shiftRows h]
  · rw [InvShiftRowsE_ok h]
    show Aes.ShiftRowsE (Aes.invShiftRows s) = _
    rw [ShiftRowsE_ok (by simp [Aes.invShiftRows, Aes.gather, invShiftRowsIdx_eq]), shiftRows_invShiftRows h]

/-! ### MixColumns / InvMixColumns -/

/-- on every one of the 2^32 columns, both ways -/
theorem MixColumn_pair (a b c d : Nat) (ha : a < 256) (hb : b < 256) (hc : c < 256) (hd : d < 256) :
    Aes.invMixColumn (Aes.mixColumn [a, b, c, d]) = [a, b, c, d] ∧
    Aes.mixColumn (Aes.invMixColumn [a, b, c, d]) = [a, b, c, d] :=
  ⟨invMixColumn_mixColumn (wd_mk ha hb hc hd), mixColumn_invMixColumn (wd_mk ha hb hc hd)⟩

/-- on every 16-byte state (the exposed methods) -/
theorem MixColumns_pair (s : List Nat) (h : St s) :
    (Aes.MixColumnsE s >>= Aes.InvMixColumnsE) = .ok s ∧ (Aes.InvMixColumnsE s >>= Aes.MixColumnsE) = .ok s := by
  constructor
  · rw [MixColumnsE_ok h.1]
    show Aes.InvMixColumnsE (Aes.mixColumns s) = _
    rw [InvMixColumnsE_ok (mixColumns_st h).1, invMixColumns_mixColumns h]
  · rw [InvMixColumnsE_ok h.1]
    show Aes.MixColumnsE (Aes.invMixColumns s) = _
    rw [MixColumnsE_ok (invMixColumns_st h).1, mixColumns_invMixColumns h]

/-- AddRoundKey with the same round key is an involution -/
theorem AddRoundKey_involution (s k : List Nat) (h : k.length = s.length) :
    Aes.addRoundKey (Aes.addRoundKey s k) k = s := addRoundKey_addRoundKey h

/-! ### the cipher: every key of 16/24/32 bytes, every 16-byte block -/

/-- dec(enc(B)) = B -/
theorem dec_enc (K B : List Nat) (hK : KeyOk K) (hB : St B) : (Aes.enc K B >>= Aes.dec K) = .ok B := by
  have hk := keysOk_of_key hK
  have hNr : 1 ≤ K.length / 4 + 6 := by omega
  rw [enc_ok hK.1 hB.1]
  show Aes.dec K (Aes.encCore K B) = _
  have hst : St (Aes.encCore K B) := (encW_spec hNr hk hB).2
  rw [dec_ok hK.1 hst.1]
  exact congrArg Except.ok (decW_encW hNr hk hB)

/-- enc(dec(B)) = B -/
theorem enc_dec (K B : List Nat) (hK : KeyOk K) (hB : St B) : (Aes.dec K B >>= Aes.enc K) = .ok B := by
  have hk := keysOk_of_key hK
  have hNr : 1 ≤ K.length / 4 + 6 := by omega
  rw [dec_ok hK.1 hB.1]
  show Aes.enc K (Aes.decCore K B) = _
  have hst : St (Aes.decCore K B) := (decW_spec hNr hk hB).2
  rw [enc_ok hK.1 hst.1]
  exact congrArg Except.ok (encW_decW hNr hk hB)

/-- whenever enc / dec return, the result has the length of the input block (and is again a block of bytes) -/
theorem enc_length (K B C : List Nat) (hK : KeyOk K) (hB : St B) (h : Aes.enc K B = .ok C) : C.length = B.length ∧ St C := by
  rw [enc_ok hK.1 hB.1] at h
  have hst : St (Aes.encCore K B) := (encW_spec (by omega) (keysOk_of_key hK) hB).2
  injection h with h
  rw [← h]
  exact ⟨by rw [hst.1, hB.1], hst⟩

theorem dec_length (K B C : List Nat) (hK : KeyOk K) (hB : St B) (h : Aes.dec K B = .ok C) : C.length = B.length ∧ St C := by
  rw [dec_ok hK.1 hB.1] at h
  have hst : St (Aes.decCore K B) := (decW_spec (by omega) (keysOk_of_key hK) hB).2
  injection h with h
  rw [← h]
  exact ⟨by rw [hst.1, hB.1], hst⟩

/-- unconditional length law: any successful enc/dec (whatever the key and input) returns exactly 16 bytes, the input length -/
theorem enc_ok_length (K B C : List Nat) (h : Aes.enc K B = .ok C) : B.length = 16 ∧ C.length = 16 := by
  by_cases hb : B.length = 16
  · by_cases hk : K.length = 16 ∨ K.length = 24 ∨ K.length = 32
    · rw [enc_ok hk hb] at h
      injection h with h
      refine ⟨hb, ?_⟩
      rw [← h]
      simp [Aes.encCore, Aes.encW, Aes.addRoundKey, Aes.shiftRows, Aes.gather, shiftRowsIdx_eq]
      omega
    · rw [enc_err_key hk] at h; cases h
  · obtain ⟨e, he⟩ := enc_err_block (K := K) hb
    rw [he] at h; cases h

/-- consequence for the standard itself (through the refinement lemmas of C02): FIPS 197 InvCipher inverts Cipher and
    conversely, for every key of 16/24/32 bytes and every block -/
theorem fips_roundtrip (K B : List Nat) (hK : KeyOk K) (hB : St B) :
    Spec.Aes.invCipher K (Spec.Aes.cipher K B) = B ∧ Spec.Aes.cipher K (Spec.Aes.invCipher K B) = B := by
  have hk := keysOk_of_key hK
  have hNr : 1 ≤ K.length / 4 + 6 := by omega
  have e := (keySchedule_spec_wf hK).1
  unfold Spec.Aes.invCipher Spec.Aes.cipher
  rw [← e]
  obtain ⟨e1, s1⟩ := encW_spec hNr hk hB
  obtain ⟨e2, s2⟩ := decW_spec hNr hk hB
  constructor
  · rw [← e1, ← (decW_spec hNr hk s1).1]; exact decW_encW hNr hk hB
  · rw [← e2, ← (encW_spec hNr hk s2).1]; exact encW_decW hNr hk hB

/-! ### non-vacuity -/

example : KeyOk (List.replicate 16 0) ∧ KeyOk (List.replicate 24 255) ∧ KeyOk (List.range 32) ∧ St (List.range 16) := by
  refine ⟨⟨by decide, ?_⟩, ⟨by decide, ?_⟩, ⟨by decide, ?_⟩, ⟨by decide, ?_⟩⟩ <;> (unfold IsBytes; decide +kernel)

end Proofs.C03_Aes
