import Model.Aes
namespace Proofs.C03_Aes
end Proofs.C03_Aes
