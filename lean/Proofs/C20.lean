/-
  C20 — permutation and subset-sum helpers enumerate exactly and answer correctly.
  ONLY property theorems (and their non-vacuity examples) live here; helper lemmas are in Proofs/Lemmas/.
-/
import Model.Perms
import Model.Knapsack
import Spec.Perms
import Spec.Knapsack
namespace Proofs.C20
open Model Model.Knapsack

/-- KNOWN FINDING (C20-dynprog-reuse), kernel-checked witness: the result of `dynprog` on l = [(a,2)], s = 4 uses the only
    item twice, so it is not a sub-collection of l (not even up to order) -/
theorem dynprog_not_sub :
    dynprog [(7, 2)] 4 = some [(7, 2), (7, 2)]
      ∧ ¬ ∃ c : List Item, c.Perm [(7, 2), (7, 2)] ∧ c.Sublist [(7, 2)] := by
  refine ⟨by decide +kernel, ?_⟩
  intro ⟨c, hp, hs⟩
  have h1 := hp.length_eq
  have h2 := hs.length_le
  simp at h1 h2
  omega

end Proofs.C20
